import TarpcModel.Lemmas.ServerFlow
/-!
The in-flight table / timer queue / execution invariant of the server model (`TInv`): tracked
entries and armed timers are in bijection (by timer key), ids are unique, every timer fires no
earlier than the deadline of the execution it guards; and the "why was it aborted" invariant
(`AbortWhy`) used by C06.
-/
namespace TarpcModel.Server.Flow
open TarpcModel

/-! ### small list facts -/

theorem eq_of_map_nodup {α β : Type} (f : α → β) : ∀ {l : List α}, (l.map f).Nodup → ∀ {a b : α}, a ∈ l → b ∈ l →
    f a = f b → a = b := by
  intro l
  induction l with
  | nil => intro _ a b ha; cases ha
  | cons x xs ih =>
    intro h a b ha hb hab
    simp only [List.map_cons, List.nodup_cons, List.mem_map, not_exists, not_and] at h
    rcases List.mem_cons.mp ha with rfl | ha' <;> rcases List.mem_cons.mp hb with rfl | hb'
    · rfl
    · exact absurd hab.symm (h.1 b hb')
    · exact absurd hab (h.1 a ha')
    · exact ih h.2 ha' hb' hab

theorem findEntry_some {s : St} {id : Nat} {e : SEntry} (h : findEntry s id = some e) : e ∈ s.inflight ∧ e.id = id := by
  unfold findEntry at h
  exact ⟨List.mem_of_find?_eq_some h, by simpa using List.find?_some h⟩

theorem findEntry_none {s : St} {id : Nat} (h : findEntry s id = none) : ∀ e ∈ s.inflight, e.id ≠ id := by
  unfold findEntry at h
  intro e he
  have := List.find?_eq_none.mp h e he
  simpa using this

theorem findEntry_isSome_of_mem {s : St} {e : SEntry} (he : e ∈ s.inflight) : (findEntry s e.id).isSome = true := by
  cases h : findEntry s e.id with
  | some _ => rfl
  | none => exact absurd rfl (findEntry_none h e he)

/-! ### `DelayQ` content by key -/

theorem DelayQ.mem_keys_iff (q : DelayQ) (k : Nat) : k ∈ q.items.map (·.key) ↔ ∃ c ∈ q.cores, c.1 = k := by
  unfold DelayQ.cores
  simp only [List.mem_map]
  constructor
  · rintro ⟨e, he, rfl⟩; exact ⟨DelayQ.core e, ⟨e, he, rfl⟩, rfl⟩
  · rintro ⟨c, ⟨e, he, rfl⟩, rfl⟩; exact ⟨e, he, rfl⟩

theorem DelayQ.cores_key_unique {q : DelayQ} (hq : DelayQ.KeysOk q) {c c' : Nat × Nat × Nat} (hc : c ∈ q.cores)
    (hc' : c' ∈ q.cores) (h : c.1 = c'.1) : c = c' := by
  unfold DelayQ.cores at hc hc'
  simp only [List.mem_map] at hc hc'
  obtain ⟨e, he, rfl⟩ := hc
  obtain ⟨e', he', rfl⟩ := hc'
  have := eq_of_map_nodup (·.key) hq.nodup he he' h
  rw [this]

theorem DelayQ.cores_key_lt {q : DelayQ} (hq : DelayQ.KeysOk q) {c : Nat × Nat × Nat} (hc : c ∈ q.cores) : c.1 < q.nextKey := by
  unfold DelayQ.cores at hc
  simp only [List.mem_map] at hc
  obtain ⟨e, he, rfl⟩ := hc
  exact hq.lt e he

/-! ### the invariant -/

/-- what `TInv` needs to know about a change of the execution list -/
def ExecsSim (l l' : List Exec) : Prop :=
  l'.length = l.length ∧
  ∀ ex' ∈ l', ∃ ex ∈ l, ex'.rid = ex.rid ∧ ex'.id = ex.id ∧ ex'.deadline = ex.deadline

/-- the longest timeout a deadline timer is armed with (`MAX_DEADLINE_TIMEOUT`), in nanoseconds -/
def clampNs : Nat := Gen.serverTimerClampSecs * 1000000000

/-- the armed timeout is the requested one, or (only if the source clamps) the clamp, which is shorter -/
theorem clampTimeout_cases (t : Nat) :
    clampTimeout t = t ∨ (Gen.serverTimerClampSecs ≠ 0 ∧ clampNs < t ∧ clampTimeout t = clampNs) := by
  unfold clampTimeout clampNs
  generalize Gen.serverTimerClampSecs = k
  by_cases hk : k = 0
  · left; simp [hk]
  · have : (k == 0) = false := by simpa using hk
    rw [this]
    simp only [Bool.false_eq_true, if_false]
    by_cases hle : t ≤ k * 1000000000
    · left; exact Nat.min_eq_left hle
    · right; exact ⟨hk, by omega, Nat.min_eq_right (by omega)⟩

theorem ceilMs_ge' (x : Nat) : x ≤ ceilMs x * nsPerMs := by
  unfold ceilMs nsPerMs; omega

theorem clampTimeout_le_self (t : Nat) : clampTimeout t ≤ t := by
  rcases clampTimeout_cases t with h | ⟨_, hlt, h⟩ <;> rw [h]
  · exact Nat.le_refl _
  · exact Nat.le_of_lt hlt

theorem clampTimeout_le (hf : Gen.serverTimerClampSecs ≠ 0) (t : Nat) : clampTimeout t ≤ clampNs := by
  rcases clampTimeout_cases t with h | ⟨_, _, h⟩
  · unfold clampTimeout clampNs at *
    have : (Gen.serverTimerClampSecs == 0) = false := by simpa using hf
    rw [this]; exact Nat.min_le_right _ _
  · rw [h]; exact Nat.le_refl _

/-- The server clamps its deadline timers and the clamp fits the `DelayQueue` range with `2^35` ms to
spare. -/
def ClampFits : Prop :=
  Gen.serverTimerClampSecs ≠ 0 ∧ Gen.serverTimerClampSecs * 1000 + 2 ^ 35 + 1 ≤ delayQMaxMs

/-- the clock (ns) before which the `DelayQueue::insert` range check cannot fail: `2^35` ms -/
def panicFreeNs : Nat := 2 ^ 35 * nsPerMs

/-- when `DelayQueue::insert` panics: the timer lies beyond the wheel's range -/
theorem DelayQ.insert_panic_cond {q q' : DelayQ} {now to v : Nat} {w : Bool}
    (h : q.insert now to v = (q', .panic, w)) :
    max (ceilMs (now + to)) q.wheelElapsed - q.wheelElapsed > delayQMaxMs := by
  unfold DelayQ.insert at h
  simp only at h
  split at h
  · next hp => simp only [Bool.and_eq_true, decide_eq_true_eq] at hp; exact hp.2
  · by_cases hw : max (ceilMs (now + to)) q.wheelElapsed ≤ q.wheelElapsed
    · simp only [hw, if_true] at h
      split at h <;> split at h <;>
      · simp only [Prod.mk.injEq, reduceCtorEq, false_and, and_false] at h
    · simp only [hw, if_false] at h
      split at h <;> split at h <;>
      · simp only [Prod.mk.injEq, reduceCtorEq, false_and, and_false] at h

/-- The `DelayQueue::insert` range check cannot fail before `panicFreeNs` when the armed timeout is
clamped and the clamp fits the queue's range:
`when - wheelElapsed ≤ ceilMs (now + clampNs) ≤ now_ms + clamp_ms + 1 ≤ 2^36 - 1`. -/
theorem insert_panic_late (hf : ClampFits) (q : DelayQ) (now t val : Nat)
    (h : (q.insert now (clampTimeout t) val).2.1 = .panic) : panicFreeNs ≤ now := by
  have ht := clampTimeout_le hf.1 t
  have h2 := hf.2
  rcases hq : q.insert now (clampTimeout t) val with ⟨q', r, w⟩
  rw [hq] at h
  simp only at h
  subst h
  have hc2 := DelayQ.insert_panic_cond hq
  unfold ceilMs nsPerMs at hc2
  unfold panicFreeNs nsPerMs
  unfold clampNs at ht
  unfold delayQMaxMs at hc2 h2
  generalize clampTimeout t = T at ht hc2
  generalize Gen.serverTimerClampSecs = S at ht h2
  omega

/-- the wheel clock is not ahead of the caller's: an insert at `now` is never moved to the wheel clock -/
theorem max_ceilMs_eq {we now t : Nat} (h : we * nsPerMs ≤ now) : max (ceilMs (now + t)) we = ceilMs (now + t) := by
  apply Nat.max_eq_left
  unfold ceilMs nsPerMs at *
  omega

/-- **What the table knows about the armed timer of a tracked request** (`en`: the table entry, `whenMs`:
the tick of its timer in the queue, `ex`: the execution it guards):
* the timer is due at exactly `en.dueAt`, which the queue rounds up to the millisecond;
* `dueAt + remainder` — when the timer is due plus what has not been armed yet — is the deadline, exactly:
  not before it (`lo`: never early), and not after it unless the request was read when its deadline had
  already passed (`hi`: not late; `max deadline now` because the clock only moves on). -/
structure TimerOk (now : Nat) (en : SEntry) (whenMs : Nat) (ex : Exec) : Prop where
  tick : whenMs = ceilMs en.dueAt
  lo : ex.deadline ≤ en.dueAt + en.remainder
  hi : en.dueAt + en.remainder ≤ max ex.deadline now
  id : ex.id = en.id

theorem TimerOk.mono {now now' : Nat} {en : SEntry} {w : Nat} {ex : Exec} (h : TimerOk now en w ex)
    (hle : now ≤ now') : TimerOk now' en w ex :=
  ⟨h.tick, h.lo, Nat.le_trans h.hi (by omega), h.id⟩

theorem TimerOk.congr {now : Nat} {en : SEntry} {w : Nat} {ex ex' : Exec} (h : TimerOk now en w ex)
    (hd : ex'.deadline = ex.deadline) (hi : ex'.id = ex.id) : TimerOk now en w ex' :=
  ⟨h.tick, hd ▸ h.lo, hd ▸ h.hi, hi ▸ h.id⟩

/-- the tick of the timer together with the remainder reaches the deadline -/
theorem TimerOk.reach {now : Nat} {en : SEntry} {w : Nat} {ex : Exec} (h : TimerOk now en w ex) :
    ex.deadline ≤ w * nsPerMs + en.remainder := by
  have := ceilMs_ge' en.dueAt
  rw [← h.tick] at this
  have := h.lo
  omega

/-- the tick is less than a millisecond after the exact due time -/
theorem TimerOk.tick_lt {now : Nat} {en : SEntry} {w : Nat} {ex : Exec} (h : TimerOk now en w ex) :
    en.dueAt ≤ w * nsPerMs ∧ w * nsPerMs < en.dueAt + nsPerMs := by
  rw [h.tick]; unfold ceilMs nsPerMs; omega

structure TInv (now : Nat) (s : St) : Prop where
  wf : DelayQ.KeysOk s.timers
  sound : DelayQ.Sound s.timers now
  ids : (s.inflight.map (·.id)).Nodup
  fwd : ∀ en ∈ s.inflight, ∃ c ∈ s.timers.cores, c.1 = en.timerKey ∧ c.2.1 = en.id
  bwd : ∀ c ∈ s.timers.cores, ∃ en ∈ s.inflight, en.timerKey = c.1 ∧ en.id = c.2.1
  ridLt : ∀ en ∈ s.inflight, en.rid < s.execs.length
  execRid : ∀ ex ∈ s.execs, ex.rid < s.execs.length
  /-- the tick of the armed timer of a tracked request is its exact due time, rounded up to the ms -/
  tk : ∀ en ∈ s.inflight, ∀ c ∈ s.timers.cores, c.1 = en.timerKey → c.2.2 = ceilMs en.dueAt
  /-- the timer of a tracked request is due exactly `remainder` before the deadline (`TimerOk`) -/
  dl : ∀ en ∈ s.inflight, ∀ c ∈ s.timers.cores, c.1 = en.timerKey → ∀ ex ∈ s.execs, ex.rid = en.rid →
    TimerOk now en c.2.2 ex

theorem TInv.mono {now now' : Nat} {s : St} (h : TInv now s) (hle : now ≤ now') : TInv now' s :=
  { h with sound := h.sound.mono hle,
           dl := fun en hen c hc hk ex hex hr => (h.dl en hen c hc hk ex hex hr).mono hle }

/-- `TInv` only looks at `inflight`, `timers`, `execs` (up to `ExecsSim`). -/
theorem TInv.of_sim {now : Nat} {s s' : St} (h : TInv now s) (hi : s'.inflight = s.inflight) (ht : s'.timers = s.timers)
    (he : ExecsSim s.execs s'.execs) : TInv now s' := by
  refine ⟨ht ▸ h.wf, ht ▸ h.sound, hi ▸ h.ids, ?_, ?_, ?_, ?_, ?_, ?_⟩
  · rw [hi, ht]; exact h.fwd
  · rw [hi, ht]; exact h.bwd
  · rw [hi, he.1]; exact h.ridLt
  · intro ex' hex'
    obtain ⟨ex, hex, hr, _, _⟩ := he.2 ex' hex'
    rw [he.1, hr]; exact h.execRid ex hex
  · rw [hi, ht]; exact h.tk
  · rw [hi, ht]
    intro en hen c hc hk ex' hex' hr'
    obtain ⟨ex, hex, hr, hid, hd⟩ := he.2 ex' hex'
    exact (h.dl en hen c hc hk ex hex (hr ▸ hr')).congr hd hid

theorem ExecsSim.refl (l : List Exec) : ExecsSim l l := ⟨rfl, fun ex h => ⟨ex, h, rfl, rfl, rfl⟩⟩

theorem ExecsSim.trans {a b c : List Exec} (h1 : ExecsSim a b) (h2 : ExecsSim b c) : ExecsSim a c := by
  refine ⟨h2.1.trans h1.1, fun ex'' h'' => ?_⟩
  obtain ⟨ex', h', r1, i1, d1⟩ := h2.2 ex'' h''
  obtain ⟨ex, h, r2, i2, d2⟩ := h1.2 ex' h'
  exact ⟨ex, h, r1.trans r2, i1.trans i2, d1.trans d2⟩

theorem ExecsSim.map (l : List Exec) (g : Exec → Exec)
    (hg : ∀ e, (g e).rid = e.rid ∧ (g e).id = e.id ∧ (g e).deadline = e.deadline) : ExecsSim l (l.map g) := by
  refine ⟨List.length_map _, fun ex' h' => ?_⟩
  obtain ⟨ex, h, rfl⟩ := List.mem_map.mp h'
  exact ⟨ex, h, hg ex⟩

theorem updExec_sim (s : St) (r : Nat) (f : Exec → Exec)
    (hf : ∀ e, (f e).rid = e.rid ∧ (f e).id = e.id ∧ (f e).deadline = e.deadline) :
    ExecsSim s.execs (updExec s r f).execs := by
  unfold updExec
  exact ExecsSim.map _ _ (fun e => by split; exact hf e; exact ⟨rfl, rfl, rfl⟩)

/-- removing one tracked entry (all entries with its id) together with its timer -/
theorem TInv.removeCore {now : Nat} {s s' : St} (h : TInv now s) {en : SEntry} (hen : en ∈ s.inflight)
    (hwf : DelayQ.KeysOk s'.timers) (hsound : DelayQ.Sound s'.timers now)
    (hc : ∀ c, c ∈ s'.timers.cores ↔ c ∈ s.timers.cores ∧ c.1 ≠ en.timerKey)
    (hi : s'.inflight = s.inflight.filter (·.id != en.id)) (he : ExecsSim s.execs s'.execs) : TInv now s' := by
  have hmem : ∀ e, e ∈ s'.inflight ↔ e ∈ s.inflight ∧ e.id ≠ en.id := by
    intro e; rw [hi]; simp
  refine ⟨hwf, hsound, ?_, ?_, ?_, ?_, ?_, ?_, ?_⟩
  · rw [hi]
    exact List.Nodup.sublist (List.Sublist.map _ List.filter_sublist) h.ids
  · intro e he'
    obtain ⟨hin, hne⟩ := (hmem e).mp he'
    obtain ⟨c, hcm, hk, hv⟩ := h.fwd e hin
    refine ⟨c, (hc c).mpr ⟨hcm, fun hkk => ?_⟩, hk, hv⟩
    obtain ⟨c0, hc0, hk0, hv0⟩ := h.fwd en hen
    have : c = c0 := DelayQ.cores_key_unique h.wf hcm hc0 (by rw [hkk, hk0])
    subst this
    exact hne (hv.symm.trans hv0)
  · intro c hcm
    obtain ⟨hcm', hkne⟩ := (hc c).mp hcm
    obtain ⟨e, hin, hk, hv⟩ := h.bwd c hcm'
    refine ⟨e, (hmem e).mpr ⟨hin, fun hid => ?_⟩, hk, hv⟩
    have : e = en := eq_of_map_nodup (·.id) h.ids hin hen hid
    subst this
    exact hkne hk.symm
  · intro e he'
    rw [he.1]; exact h.ridLt e ((hmem e).mp he').1
  · intro ex' hex'
    obtain ⟨ex, hex, hr, _, _⟩ := he.2 ex' hex'
    rw [he.1, hr]; exact h.execRid ex hex
  · intro e he' c hcm hk
    exact h.tk e ((hmem e).mp he').1 c ((hc c).mp hcm).1 hk
  · intro e he' c hcm hk ex' hex' hr'
    obtain ⟨ex, hex, hr, hid, hd⟩ := he.2 ex' hex'
    exact (h.dl e ((hmem e).mp he').1 c ((hc c).mp hcm).1 hk ex hex (hr ▸ hr')).congr hd hid

/-- the timer of a tracked entry is in the queue, so `removeTimer` cannot fail -/
theorem TInv.remove_some {now : Nat} {s : St} (h : TInv now s) {en : SEntry} (hen : en ∈ s.inflight) :
    ∃ q' w, s.timers.remove en.timerKey = some (q', w) := by
  cases hr : s.timers.remove en.timerKey with
  | some p => exact ⟨p.1, p.2, rfl⟩
  | none =>
    have := (DelayQ.remove_none_iff _ _).mp hr
    obtain ⟨c, hc, hk, _⟩ := h.fwd en hen
    exact absurd ((DelayQ.mem_keys_iff _ _).mpr ⟨c, hc, hk⟩) this

theorem TInv.removeReq {now : Nat} {s : St} (h : TInv now s) (id : Nat) : TInv now (removeRequest s id).1 := by
  unfold Server.removeRequest
  split
  · exact h
  · next e hf =>
    obtain ⟨hen, hid⟩ := findEntry_some hf
    obtain ⟨q', w, hr⟩ := h.remove_some hen
    unfold removeTimer
    simp only [hr]
    subst hid
    have hcore : TInv now { s with inflight := s.inflight.filter (·.id != e.id), timers := q' } :=
      h.removeCore hen (DelayQ.remove_WF hr h.wf) (DelayQ.remove_Sound hr h.sound)
        (DelayQ.remove_some hr).2 rfl (ExecsSim.refl _)
    split
    · exact hcore.of_sim (wakeServer_inflight _) (wakeServer_timers _) (by rw [wakeServer_execs]; exact ExecsSim.refl _)
    · exact hcore

/-! ### how the execution list changes -/

/-- `l'` is `l` with bookkeeping updated; only executions with rid `r` may have been newly aborted -/
def ExecsAb (r : Option Nat) (l l' : List Exec) : Prop :=
  l'.length = l.length ∧
  ∀ ex' ∈ l', ∃ ex ∈ l, ex'.rid = ex.rid ∧ ex'.id = ex.id ∧ ex'.deadline = ex.deadline ∧
    (ex'.aborted = true → ex.aborted = true ∨ r = some ex.rid)

theorem ExecsAb.sim {r : Option Nat} {l l' : List Exec} (h : ExecsAb r l l') : ExecsSim l l' :=
  ⟨h.1, fun ex' h' => by obtain ⟨ex, he, a, b, c, _⟩ := h.2 ex' h'; exact ⟨ex, he, a, b, c⟩⟩

theorem ExecsAb.refl (r : Option Nat) (l : List Exec) : ExecsAb r l l :=
  ⟨rfl, fun ex h => ⟨ex, h, rfl, rfl, rfl, Or.inl⟩⟩

theorem ExecsAb.map (r : Option Nat) (l : List Exec) (g : Exec → Exec)
    (hg : ∀ e, (g e).rid = e.rid ∧ (g e).id = e.id ∧ (g e).deadline = e.deadline ∧
      ((g e).aborted = true → e.aborted = true ∨ r = some e.rid)) : ExecsAb r l (l.map g) := by
  refine ⟨List.length_map _, fun ex' h' => ?_⟩
  obtain ⟨ex, h, rfl⟩ := List.mem_map.mp h'
  exact ⟨ex, h, hg ex⟩

/-- a later bookkeeping-only change after a change that may abort `r` -/
theorem ExecsAb.trans_none {r : Option Nat} {a b c : List Exec} (h1 : ExecsAb r a b) (h2 : ExecsAb none b c) :
    ExecsAb r a c := by
  refine ⟨h2.1.trans h1.1, fun ex'' h'' => ?_⟩
  obtain ⟨ex', h', r1, i1, d1, a1⟩ := h2.2 ex'' h''
  obtain ⟨ex, h, r2, i2, d2, a2⟩ := h1.2 ex' h'
  refine ⟨ex, h, r1.trans r2, i1.trans i2, d1.trans d2, fun hab => ?_⟩
  rcases a1 hab with h3 | h3
  · exact a2 h3
  · cases h3

theorem updExec_ab (s : St) (r : Nat) (f : Exec → Exec) (hf : Stable f) : ExecsAb none s.execs (updExec s r f).execs := by
  unfold updExec
  refine ExecsAb.map _ _ _ (fun e => ?_)
  split
  · obtain ⟨a, b, c, d⟩ := hf e; exact ⟨a, b, c, fun h => Or.inl (d ▸ h)⟩
  · exact ⟨rfl, rfl, rfl, Or.inl⟩

theorem wakeExec_ab (s : St) (r : Nat) : ExecsAb none s.execs (wakeExec s r).execs := by
  unfold wakeExec
  repeat' split
  all_goals first | exact ExecsAb.refl _ _ | skip
  exact updExec_ab s r _ (fun e => ⟨rfl, rfl, rfl, rfl⟩)

theorem abortExec_ab (s : St) (r : Nat) : ExecsAb (some r) s.execs (abortExec s r).execs := by
  have hu : ExecsAb (some r) s.execs (updExec s r (fun e => { e with aborted := true, abortWaker := false })).execs := by
    unfold updExec
    refine ExecsAb.map _ _ _ (fun e => ?_)
    split
    · next h => exact ⟨rfl, rfl, rfl, fun _ => Or.inr (by simp at h; rw [h])⟩
    · exact ⟨rfl, rfl, rfl, Or.inl⟩
  unfold abortExec
  split
  · exact ExecsAb.refl _ _
  · simp only
    split
    · exact ExecsAb.trans_none hu (wakeExec_ab _ r)
    · exact hu

theorem TInv.cancelReq {now : Nat} {s : St} (h : TInv now s) (id : Nat) : TInv now (cancelRequest s id).1 := by
  unfold cancelRequest
  split
  · exact h
  · next e hf =>
    obtain ⟨hen, hid⟩ := findEntry_some hf
    obtain ⟨q', w, hr⟩ := h.remove_some hen
    unfold removeTimer
    simp only [abortExec_timers, hr]
    subst hid
    have hcore : TInv now { abortExec { s with inflight := s.inflight.filter (·.id != e.id) } e.rid with timers := q' } := by
      refine h.removeCore hen (DelayQ.remove_WF hr h.wf) (DelayQ.remove_Sound hr h.sound)
        (DelayQ.remove_some hr).2 (by simp) ?_
      exact (abortExec_ab { s with inflight := s.inflight.filter (·.id != e.id) } e.rid).sim
    split
    · exact hcore.of_sim (wakeServer_inflight _) (wakeServer_timers _) (by rw [wakeServer_execs]; exact ExecsSim.refl _)
    · exact hcore

/-- … and what it did to the executions -/
theorem cancelRequest_ab (s : St) (id : Nat) :
    (findEntry s id = none ∧ (cancelRequest s id).1 = s) ∨
    (∃ en, findEntry s id = some en ∧ ExecsAb (some en.rid) s.execs (cancelRequest s id).1.execs) := by
  unfold cancelRequest
  split
  · next hf => exact Or.inl ⟨hf, rfl⟩
  · next e hf =>
    refine Or.inr ⟨e, hf, ?_⟩
    simp only [removeTimer_execs]
    exact abortExec_ab { s with inflight := s.inflight.filter (·.id != id) } e.rid

/-- what a fired timer tells in a state satisfying the invariant: it belongs to a tracked entry, which
is the one `findEntry` finds for its value -/
theorem TInv.popped {now : Nat} {s : St} (h : TInv now s) {q : DelayQ} {e : DqEntry}
    (hp : s.timers.pollExpired now = (q, .expired e)) :
    ∃ en, en ∈ s.inflight ∧ en.timerKey = e.key ∧ en.id = e.val ∧
      (∀ en', findEntry { s with timers := q } e.val = some en' → en' = en) ∧
      findEntry { s with timers := q } e.val ≠ none := by
  obtain ⟨hcore, hcs⟩ := DelayQ.pollExpired_expired hp h.wf
  obtain ⟨en, hen, hk, hv⟩ := h.bwd _ hcore
  have hv' : en.id = e.val := hv
  refine ⟨en, hen, hk, hv', ?_, ?_⟩
  · intro en' hf
    obtain ⟨hen', hid'⟩ := findEntry_some hf
    exact eq_of_map_nodup (·.id) h.ids hen' hen (hid'.trans hv'.symm)
  · intro hfe
    exact absurd hv' (findEntry_none hfe en hen)

/-- **Re-arming keeps the invariant**: the fired timer of `en` is replaced by a fresh one, armed at the
current clock (which the fired one had reached) with a part of what was left of the time until the
deadline; the entry pays that part out of its remainder. -/
theorem TInv.rearm {now : Nat} {s : St} (h : TInv now s) {q : DelayQ} {e : DqEntry} {en : SEntry} {s2 : St}
    (hp : s.timers.pollExpired now = (q, .expired e)) (hen : en ∈ s.inflight) (hk : en.timerKey = e.key)
    (hv : en.id = e.val) (h0 : restOf now en ≠ 0) (hr : Server.rearm { s with timers := q } now en = some s2) :
    TInv now s2 := by
  have hwfq := DelayQ.pollExpired_WF hp h.wf
  have hsq := DelayQ.pollExpired_Sound hp h.sound
  obtain ⟨hcore, hcs⟩ := DelayQ.pollExpired_expired hp h.wf
  have hne := DelayQ.pollExpired_not_early hp h.sound
  obtain ⟨q', key, w, hi, rfl⟩ := rearm_some hr
  simp only at hi
  obtain ⟨hkey, hnk, hcs'⟩ := DelayQ.insert_ok hi
  have hwf := DelayQ.insert_WF hi hwfq
  have hs := DelayQ.insert_Sound hi hsq
  have hfresh : ∀ c ∈ q.cores, c.1 ≠ key := fun c hc hck => by
    have := DelayQ.cores_key_lt hwfq hc; omega
  have hexecs : (if w = true then wakeServer { s with timers := q } else { s with timers := q }).execs = s.execs := by
    cases w <;> simp
  -- membership in the re-keyed table
  have hmem : ∀ x', x' ∈ s.inflight.map (rearmUpd en.id key now) ↔ ∃ x ∈ s.inflight, x' = rearmUpd en.id key now x := by
    intro x'; simp only [List.mem_map]; constructor
    · rintro ⟨x, hx, rfl⟩; exact ⟨x, hx, rfl⟩
    · rintro ⟨x, hx, rfl⟩; exact ⟨x, hx, rfl⟩
  have hupd_en : rearmUpd en.id key now en =
      { en with timerKey := key, dueAt := now + clampTimeout (restOf now en),
                remainder := restOf now en - clampTimeout (restOf now en) } := by
    unfold rearmUpd; rw [if_pos (by simp)]
  have hother : ∀ x ∈ s.inflight, x ≠ en → rearmUpd en.id key now x = x := by
    intro x hx hxe
    exact rearmUpd_ne (fun hid => hxe (eq_of_map_nodup (·.id) h.ids hx hen hid))
  -- the old core of another entry survives the pop and the insert
  have hkeep : ∀ x ∈ s.inflight, x ≠ en → ∀ c ∈ s.timers.cores, c.1 = x.timerKey → c ∈ q.cores := by
    intro x hx hxe c hc hck
    refine (hcs c).mpr ⟨hc, fun hce => hxe ?_⟩
    obtain ⟨c0, hc0, hk0, hv0⟩ := h.fwd en hen
    have hcc : c = c0 := DelayQ.cores_key_unique h.wf hc hc0 (by rw [hce, hk0, hk])
    obtain ⟨cx, hcx, hkx, hvx⟩ := h.fwd x hx
    have hcc' : c = cx := DelayQ.cores_key_unique h.wf hc hcx (by rw [hck, hkx])
    exact eq_of_map_nodup (·.id) h.ids hx hen (by rw [← hvx, ← hcc', hcc, hv0])
  refine ⟨hwf, hs, ?_, ?_, ?_, ?_, ?_, ?_, ?_⟩
  · show ((s.inflight.map (rearmUpd en.id key now)).map (·.id)).Nodup
    have : (s.inflight.map (rearmUpd en.id key now)).map (·.id) = s.inflight.map (·.id) := by
      rw [List.map_map]; apply List.map_congr_left; intro x _; simp
    rw [this]; exact h.ids
  · intro x' hx'
    obtain ⟨x, hx, rfl⟩ := (hmem x').mp hx'
    by_cases hxe : x = en
    · subst hxe
      rw [hupd_en]
      exact ⟨_, (hcs' _).mpr (Or.inr rfl), rfl, rfl⟩
    · rw [hother x hx hxe]
      obtain ⟨c, hc, a, b⟩ := h.fwd x hx
      exact ⟨c, (hcs' c).mpr (Or.inl (hkeep x hx hxe c hc a)), a, b⟩
  · intro c hc
    rcases (hcs' c).mp hc with hc | hc
    · obtain ⟨hcold, hcne⟩ := (hcs c).mp hc
      obtain ⟨x, hx, a, b⟩ := h.bwd c hcold
      have hxe : x ≠ en := fun hxe => hcne (by rw [← a, hxe, hk])
      exact ⟨x, (hmem x).mpr ⟨x, hx, (hother x hx hxe).symm⟩, a, b⟩
    · subst hc
      exact ⟨rearmUpd en.id key now en, (hmem _).mpr ⟨en, hen, rfl⟩, by rw [hupd_en], by rw [hupd_en]⟩
  · intro x' hx'
    obtain ⟨x, hx, rfl⟩ := (hmem x').mp hx'
    rw [hexecs, rearmUpd_rid]; exact h.ridLt x hx
  · rw [hexecs]; exact h.execRid
  · intro x' hx' c hc hck
    obtain ⟨x, hx, rfl⟩ := (hmem x').mp hx'
    by_cases hxe : x = en
    · subst hxe
      rw [hupd_en] at hck ⊢
      simp only at hck ⊢
      have hcnew : c = (key, x.id, max (ceilMs (now + clampTimeout (restOf now x))) q.wheelElapsed) := by
        rcases (hcs' c).mp hc with hc | hc
        · exact absurd hck (hfresh c hc)
        · exact hc
      subst hcnew
      exact max_ceilMs_eq hsq.el
    · rw [hother x hx hxe] at hck ⊢
      have hcold : c ∈ s.timers.cores := by
        rcases (hcs' c).mp hc with hc | hc
        · exact ((hcs c).mp hc).1
        · subst hc
          obtain ⟨c0, hc0, hk0, _⟩ := h.fwd x hx
          exact absurd (hk0.trans hck.symm) (hfresh c0 (hkeep x hx hxe c0 hc0 hk0))
      exact h.tk x hx c hcold hck
  · rw [hexecs]
    intro x' hx' c hc hck ex hex hrid
    obtain ⟨x, hx, rfl⟩ := (hmem x').mp hx'
    by_cases hxe : x = en
    · subst hxe
      rw [hupd_en] at hck hrid ⊢
      simp only at hck hrid ⊢
      have hcnew : c = (key, x.id, max (ceilMs (now + clampTimeout (restOf now x))) q.wheelElapsed) := by
        rcases (hcs' c).mp hc with hc | hc
        · exact absurd hck (hfresh c hc)
        · exact hc
      subst hcnew
      have hold := h.dl x hen _ hcore hk.symm ex hex hrid
      have hw : (DelayQ.core e).2.2 = e.whenMs := rfl
      -- the fired timer was due no later than its tick, which the clock has reached
      have hdue : x.dueAt ≤ now := by
        have := hold.tick_lt.1
        rw [hw] at this
        exact Nat.le_trans this hne
      have h3 := clampTimeout_le_self (restOf now x)
      have hrest : restOf now x = x.remainder - (now - x.dueAt) := rfl
      refine ⟨?_, ?_, ?_, hold.id⟩
      · show max (ceilMs (now + clampTimeout (restOf now x))) q.wheelElapsed = ceilMs (now + clampTimeout (restOf now x))
        exact max_ceilMs_eq hsq.el
      · have := hold.lo
        show ex.deadline ≤ now + clampTimeout (restOf now x) + (restOf now x - clampTimeout (restOf now x))
        omega
      · have := hold.hi
        show now + clampTimeout (restOf now x) + (restOf now x - clampTimeout (restOf now x)) ≤ max ex.deadline now
        omega
    · rw [hother x hx hxe] at hck hrid ⊢
      have hcold : c ∈ s.timers.cores := by
        rcases (hcs' c).mp hc with hc | hc
        · exact ((hcs c).mp hc).1
        · subst hc
          obtain ⟨c0, hc0, hk0, _⟩ := h.fwd x hx
          exact absurd (hk0.trans hck.symm) (hfresh c0 (hkeep x hx hxe c0 hc0 hk0))
      exact h.dl x hx c hcold hck ex hex hrid

theorem TInv.expireStep {now : Nat} {s : St} (h : TInv now s) : TInv now (Server.expireStep s now).1 := by
  have hs := expireStep_shape s now
  revert hs; generalize Server.expireStep s now = p; intro hs
  obtain ⟨s', r⟩ := p
  dsimp only at hs ⊢
  have idle : ∀ q r, s.timers.pollExpired now = (q, r) → (∀ e, r ≠ .expired e) → TInv now { s with timers := q } := by
    intro q r hp hr
    have hwf := DelayQ.pollExpired_WF hp h.wf
    have hs := DelayQ.pollExpired_Sound hp h.sound
    have hcs := DelayQ.pollExpired_other hp h.wf hr
    exact ⟨hwf, hs, h.ids, fun en hen => by obtain ⟨c, hc, a, b⟩ := h.fwd en hen; exact ⟨c, (hcs c).mpr hc, a, b⟩,
      fun c hc => h.bwd c ((hcs c).mp hc), h.ridLt, h.execRid,
      fun en hen c hc => h.tk en hen c ((hcs c).mp hc),
      fun en hen c hc => h.dl en hen c ((hcs c).mp hc)⟩
  cases hs with
  | idleNone q hp => exact idle q _ hp (by intro e h; cases h)
  | idlePending q hp => exact idle q _ hp (by intro e h; cases h)
  | orphan q e hp hf =>
    obtain ⟨en, _, _, _, _, hne⟩ := h.popped hp
    exact absurd hf hne
  | abort q e en' hp hf h0 =>
    obtain ⟨en, hen, hk, hv, huniq, _⟩ := h.popped hp
    have := huniq en' hf; subst this
    have hwf := DelayQ.pollExpired_WF hp h.wf
    have hs := DelayQ.pollExpired_Sound hp h.sound
    obtain ⟨hcore, hcs⟩ := DelayQ.pollExpired_expired hp h.wf
    refine h.removeCore hen (by simpa using hwf) (by simpa using hs) ?_ (by simp [hv]) ?_
    · intro c; simp only [abortExec_timers]; rw [hcs c, hk]
    · exact (abortExec_ab { s with timers := q, inflight := s.inflight.filter (·.id != e.val) } en'.rid).sim
  | rearmed q e en' s2 hp hf h0 hr =>
    obtain ⟨en, hen, hk, hv, huniq, _⟩ := h.popped hp
    have := huniq en' hf; subst this
    exact h.rearm hp hen hk hv h0 hr
  | panicked q e en' hp hf h0 hr => exact h.of_sim rfl rfl (ExecsSim.refl _)

theorem TInv.expire {now : Nat} {s : St} (h : TInv now s) : TInv now (pollExpired s now).1 :=
  pollExpired_ind (P := TInv now) now (fun s1 h1 => h1.of_sim rfl rfl (ExecsSim.refl _))
    (fun s1 h1 => h1.expireStep) s h

/-- what one call of `poll_expired` may do to the executions: nothing but bookkeeping, or abort those of
one request, whose deadline has passed -/
def ExpAb (now : Nat) (l l' : List Exec) : Prop :=
  ExecsAb none l l' ∨ ∃ r, ExecsAb (some r) l l' ∧ ∀ ex ∈ l, ex.rid = r → ex.deadline ≤ now

/-- one iteration: a `continue` (re-arm) leaves the executions alone; an expiry aborts only executions
whose deadline has passed — the timer that fired had nothing left to arm (`remainder = 0`), so its tick,
which the clock has reached, is no earlier than the deadline -/
theorem TInv.expireStep_ab {now : Nat} {s : St} (h : TInv now s) :
    ExpAb now s.execs (Server.expireStep s now).1.execs ∧
    ((Server.expireStep s now).2 = none → (Server.expireStep s now).1.execs = s.execs) := by
  have hs := expireStep_shape s now
  revert hs; generalize Server.expireStep s now = p; intro hs
  obtain ⟨s', r⟩ := p
  dsimp only at hs ⊢
  cases hs with
  | idleNone q hp => exact ⟨Or.inl (ExecsAb.refl _ _), fun h => by cases h⟩
  | idlePending q hp => exact ⟨Or.inl (ExecsAb.refl _ _), fun h => by cases h⟩
  | orphan q e hp hf => exact ⟨Or.inl (ExecsAb.refl _ _), fun h => by cases h⟩
  | abort q e en' hp hf h0 =>
    obtain ⟨en, hen, hk, hv, huniq, _⟩ := h.popped hp
    have := huniq en' hf; subst this
    obtain ⟨hcore, _⟩ := DelayQ.pollExpired_expired hp h.wf
    refine ⟨Or.inr ⟨en'.rid, abortExec_ab _ en'.rid, fun ex hex hr => ?_⟩, fun h => by cases h⟩
    have hne := DelayQ.pollExpired_not_early hp h.sound
    have hold := h.dl en' hen _ hcore hk.symm ex hex hr
    have hw : (DelayQ.core e).2.2 = e.whenMs := rfl
    have hdue := hold.tick_lt.1
    rw [hw] at hdue
    have hlo := hold.lo
    have hrest : restOf now en' = en'.remainder - (now - en'.dueAt) := rfl
    omega
  | rearmed q e en' s2 hp hf h0 hr =>
    have := (rearm_frame hr).execs
    exact ⟨Or.inl (by rw [this]; exact ExecsAb.refl _ _), fun _ => this⟩
  | panicked q e en' hp hf h0 hr => exact ⟨Or.inl (ExecsAb.refl _ _), fun h => by cases h⟩

/-- **The expiry path aborts only executions whose deadline has passed (never early).** -/
theorem TInv.expire_ab {now : Nat} {s : St} (h : TInv now s) :
    ExecsAb none s.execs (pollExpired s now).1.execs ∨
    ∃ r, ExecsAb (some r) s.execs (pollExpired s now).1.execs ∧ ∀ ex ∈ s.execs, ex.rid = r → ex.deadline ≤ now := by
  have hloop : ∀ (fuel : Nat) (s : St), TInv now s → ExpAb now s.execs (pollExpiredLoop fuel s now).1.execs := by
    intro fuel
    induction fuel with
    | zero => intro s _; exact Or.inl (ExecsAb.refl _ _)
    | succ n ih =>
      intro s h
      rw [pollExpiredLoop_succ]
      have h1 := h.expireStep_ab
      have h2 := h.expireStep
      revert h1 h2; generalize Server.expireStep s now = p; intro h1 h2
      rcases p with ⟨s', r⟩
      cases r with
      | some r => exact h1.1
      | none =>
        dsimp only at h1 h2 ⊢
        have := ih s' h2
        rw [h1.2 rfl] at this
        exact this
  unfold pollExpired
  split
  · exact Or.inl (ExecsAb.refl _ _)
  · exact hloop _ s h

theorem ceilMs_ge (x : Nat) : x ≤ ceilMs x * nsPerMs := by
  unfold ceilMs nsPerMs; omega

theorem TInv.start {now : Nat} {s : St} (h : TInv now s) (id d : Nat) (tr : Trace) (b : Nat) :
    TInv now (startRequest s now id d tr b).1 := by
  unfold startRequest
  split
  · exact h
  · next hf =>
    have hfn : findEntry s id = none := by cases hx : findEntry s id <;> simp_all
    rcases hi : s.timers.insert now (clampTimeout (d - now)) id with ⟨q, r, w⟩
    cases r with
    | panic => exact h.of_sim rfl rfl (ExecsSim.refl _)
    | ok key =>
      simp only
      have hw : TInv now (if w = true then wakeServer s else s) := by
        split
        · exact h.of_sim (wakeServer_inflight s) (wakeServer_timers s) (by rw [wakeServer_execs]; exact ExecsSim.refl _)
        · exact h
      have hwi : (if w = true then wakeServer s else s).inflight = s.inflight := by split <;> simp
      have hwe : (if w = true then wakeServer s else s).execs = s.execs := by split <;> simp
      have hwf' : (if w = true then wakeServer s else s).nextFresh = s.nextFresh := by
        split
        · unfold wakeServer; split <;> rfl
        · rfl
      revert hw hwi hwe hwf'
      generalize (if w = true then wakeServer s else s) = sw
      intro hw hwi hwe hwf'
      rw [hwi, hwe]
      obtain ⟨hkey, hnk, hcs⟩ := DelayQ.insert_ok hi
      have hwf := DelayQ.insert_WF hi h.wf
      have hs := DelayQ.insert_Sound hi h.sound
      have hfresh : ∀ c ∈ s.timers.cores, c.1 ≠ key := fun c hc hck => by
        have := DelayQ.cores_key_lt h.wf hc; omega
      refine ⟨hwf, hs, ?_, ?_, ?_, ?_, ?_, ?_, ?_⟩
      · simp only [List.map_append, List.map_cons, List.map_nil]
        rw [List.nodup_append]
        refine ⟨h.ids, by simp, ?_⟩
        intro a ha b hb
        simp only [List.mem_singleton] at hb
        obtain ⟨en, hen, rfl⟩ := List.mem_map.mp ha
        rw [hb]; exact findEntry_none hfn en hen
      · intro en hen
        rcases List.mem_append.mp hen with hen | hen
        · obtain ⟨c, hc, a, b⟩ := h.fwd en hen
          exact ⟨c, (hcs c).mpr (Or.inl hc), a, b⟩
        · simp only [List.mem_singleton] at hen
          subst hen
          exact ⟨_, (hcs _).mpr (Or.inr rfl), rfl, rfl⟩
      · intro c hc
        rcases (hcs c).mp hc with hc | hc
        · obtain ⟨en, hen, a, b⟩ := h.bwd c hc
          exact ⟨en, List.mem_append.mpr (Or.inl hen), a, b⟩
        · subst hc
          exact ⟨_, List.mem_append.mpr (Or.inr (List.mem_singleton.mpr rfl)), rfl, rfl⟩
      · intro en hen
        simp only [List.length_append, List.length_cons, List.length_nil]
        rcases List.mem_append.mp hen with hen | hen
        · have := h.ridLt en hen; omega
        · simp only [List.mem_singleton] at hen; subst hen; simp
      · intro ex hex
        simp only [List.length_append, List.length_cons, List.length_nil]
        rcases List.mem_append.mp hex with hex | hex
        · have := h.execRid ex hex; omega
        · simp only [List.mem_singleton] at hex; subst hex; simp
      · intro en hen c hc hk
        rcases List.mem_append.mp hen with hen | hen
        · have hcold : c ∈ s.timers.cores := by
            rcases (hcs c).mp hc with hc | hc
            · exact hc
            · subst hc
              obtain ⟨c0, hc0, hk0, _⟩ := h.fwd en hen
              exact absurd (hk0.trans hk.symm) (hfresh c0 hc0)
          exact h.tk en hen c hcold hk
        · simp only [List.mem_singleton] at hen; subst hen
          simp only at hk ⊢
          have hcnew : c = (key, id, max (ceilMs (now + clampTimeout (d - now))) s.timers.wheelElapsed) := by
            rcases (hcs c).mp hc with hc | hc
            · exact absurd hk (hfresh c hc)
            · exact hc
          subst hcnew
          exact max_ceilMs_eq h.sound.el
      · intro en hen c hc hk ex hex hr
        rcases List.mem_append.mp hen with hen | hen
        · -- an old entry: its timer is old, its execution is old
          have hcold : c ∈ s.timers.cores := by
            rcases (hcs c).mp hc with hc | hc
            · exact hc
            · subst hc
              obtain ⟨c0, hc0, hk0, _⟩ := h.fwd en hen
              exact absurd (hk0.trans hk.symm) (hfresh c0 hc0)
          have hexold : ex ∈ s.execs := by
            rcases List.mem_append.mp hex with hex | hex
            · exact hex
            · simp only [List.mem_singleton] at hex; subst hex
              have := h.ridLt en hen; simp only at hr; omega
          exact h.dl en hen c hcold hk ex hexold hr
        · simp only [List.mem_singleton] at hen; subst hen
          simp only at hk hr ⊢
          have hcnew : c = (key, id, max (ceilMs (now + clampTimeout (d - now))) s.timers.wheelElapsed) := by
            rcases (hcs c).mp hc with hc | hc
            · exact absurd hk (hfresh c hc)
            · exact hc
          have hexnew : ex.deadline = d ∧ ex.id = id ∧ ex.rid = s.execs.length := by
            rcases List.mem_append.mp hex with hex | hex
            · have := h.execRid ex hex; omega
            · simp only [List.mem_singleton] at hex; subst hex; exact ⟨rfl, rfl, rfl⟩
          subst hcnew
          have h3 := clampTimeout_le_self (d - now)
          refine ⟨?_, ?_, ?_, hexnew.2.1⟩
          · show max (ceilMs (now + clampTimeout (d - now))) s.timers.wheelElapsed = ceilMs (now + clampTimeout (d - now))
            exact max_ceilMs_eq h.sound.el
          · rw [hexnew.1]
            show d ≤ now + clampTimeout (d - now) + ((d - now) - clampTimeout (d - now))
            omega
          · rw [hexnew.1]
            show now + clampTimeout (d - now) + ((d - now) - clampTimeout (d - now)) ≤ max d now
            omega

theorem foldl_abort_sim (es : List SEntry) (s : St) :
    ExecsSim s.execs (es.foldl (fun s e => abortExec s e.rid) s).execs := by
  induction es generalizing s with
  | nil => exact ExecsSim.refl _
  | cons e es ih => exact ExecsSim.trans (abortExec_ab s e.rid).sim (ih _)

theorem foldl_wake_sim (ws : List Nat) (s : St) : ExecsSim s.execs (ws.foldl wakeExec s).execs := by
  induction ws generalizing s with
  | nil => exact ExecsSim.refl _
  | cons e es ih => exact ExecsSim.trans (wakeExec_ab s e).sim (ih _)

theorem TInv.drop {now : Nat} {s : St} (h : TInv now s) : TInv now (dropServer s) := by
  unfold dropServer
  split
  · exact h.of_sim rfl rfl (ExecsSim.refl _)
  · simp only
    have hsim : ExecsSim s.execs (List.foldl wakeExec
        { List.foldl (fun s e => abortExec s e.rid) { s with dropped := true, woken := false } s.inflight with rqWaiters := [] }
        (List.foldl (fun s e => abortExec s e.rid) { s with dropped := true, woken := false } s.inflight).rqWaiters).execs :=
      ExecsSim.trans (foldl_abort_sim s.inflight { s with dropped := true, woken := false }) (foldl_wake_sim _ _)
    refine ⟨DelayQ.WF_empty, DelayQ.Sound_empty now, by simp, by simp, by simp [DelayQ.cores, DelayQ.items], by simp, ?_, by simp, by simp⟩
    intro ex' hex'
    obtain ⟨ex, hex, hr, _, _⟩ := hsim.2 ex' hex'
    rw [hsim.1, hr]; exact h.execRid ex hex

/-! ### observation bookkeeping: what a step may add -/

def insertPanicMsg : String := "DelayQueue::insert: invalid deadline"

/-- what may be said of a panic observed at clock `now`: it is the `DelayQueue` range panic, and — the
armed timeouts being clamped — it does not happen before `panicFreeNs` -/
def PanicOk (now : Nat) (m : String) : Prop := m = insertPanicMsg ∧ (ClampFits → panicFreeNs ≤ now)

theorem PanicOk.mono {now now' : Nat} {m : String} (h : PanicOk now m) (hle : now ≤ now') : PanicOk now' m :=
  ⟨h.1, fun hf => Nat.le_trans (h.2 hf) hle⟩

/-- `s'.obs` extends `s.obs` and the only panic it may add is the (late) `DelayQueue` range panic -/
def ObsExt (now : Nat) (s s' : St) : Prop :=
  ∃ new, s'.obs = new ++ s.obs ∧ ∀ o ∈ new, ∀ ep m, o = Obs.panic ep m → PanicOk now m

theorem ObsExt.refl {now : Nat} (s : St) : ObsExt now s s := ⟨[], rfl, fun o h => by cases h⟩

theorem ObsExt.of_eq {now : Nat} {s s' : St} (h : s'.obs = s.obs) : ObsExt now s s' := ⟨[], by simpa using h, fun o h => by cases h⟩

theorem ObsExt.trans {now : Nat} {a b c : St} (h1 : ObsExt now a b) (h2 : ObsExt now b c) : ObsExt now a c := by
  obtain ⟨n1, e1, p1⟩ := h1
  obtain ⟨n2, e2, p2⟩ := h2
  refine ⟨n2 ++ n1, by rw [e2, e1, List.append_assoc], fun o ho => ?_⟩
  rcases List.mem_append.mp ho with h | h
  · exact p2 o h
  · exact p1 o h

theorem ObsExt.emit {now : Nat} (s : St) (o : Obs) (ho : ∀ ep m, o = Obs.panic ep m → PanicOk now m) : ObsExt now s (emit s o) :=
  ⟨[o], rfl, fun o' h => by simp only [List.mem_singleton] at h; subst h; exact ho⟩

theorem ObsExt.mem {now : Nat} {s s' : St} (h : ObsExt now s s') {o : Obs} (ho : o ∈ s.obs) : o ∈ s'.obs := by
  obtain ⟨n, e, _⟩ := h; rw [e]; exact List.mem_append.mpr (Or.inr ho)

theorem ObsExt.hasSpin {now : Nat} {s s' : St} (h : ObsExt now s s') (hs : hasSpin s.obs = true) : hasSpin s'.obs = true := by
  obtain ⟨n, e, _⟩ := h; rw [e]; unfold Flow.hasSpin at *; simp [hs]

theorem obsExt_wakeExec {now : Nat} (s : St) (r : Nat) : ObsExt now s (wakeExec s r) := by
  unfold wakeExec; repeat' split
  all_goals first | exact ObsExt.refl _ | exact ObsExt.trans (ObsExt.of_eq rfl) (ObsExt.emit _ _ (by intro _ _ h; cases h))

theorem obsExt_abortExec {now : Nat} (s : St) (r : Nat) : ObsExt now s (abortExec s r) := by
  unfold abortExec; repeat' split
  · exact ObsExt.refl _
  · exact ObsExt.trans (ObsExt.of_eq rfl) (obsExt_wakeExec _ r)
  · exact ObsExt.of_eq rfl

theorem obsExt_foldl_abort {now : Nat} (es : List SEntry) (s : St) : ObsExt now s (es.foldl (fun s e => abortExec s e.rid) s) := by
  induction es generalizing s with
  | nil => exact ObsExt.refl _
  | cons e es ih => exact ObsExt.trans (obsExt_abortExec s e.rid) (ih _)

theorem obsExt_foldl_wake {now : Nat} (ws : List Nat) (s : St) : ObsExt now s (ws.foldl wakeExec s) := by
  induction ws generalizing s with
  | nil => exact ObsExt.refl _
  | cons e es ih => exact ObsExt.trans (obsExt_wakeExec s e) (ih _)

theorem obsExt_dropServer {now : Nat} (s : St) : ObsExt now s (dropServer s) := by
  unfold dropServer; split
  · exact ObsExt.emit _ _ (by intro _ _ h; cases h)
  · simp only
    refine ObsExt.trans ?_ (ObsExt.of_eq rfl)
    refine ObsExt.trans ?_ (obsExt_foldl_wake _ _)
    refine ObsExt.trans ?_ (ObsExt.of_eq rfl)
    exact ObsExt.trans (ObsExt.of_eq (s' := { s with dropped := true, woken := false }) rfl) (obsExt_foldl_abort _ _)

theorem obsExt_wakeServer {now : Nat} (s : St) : ObsExt now s (wakeServer s) := by
  unfold wakeServer; split
  · exact ObsExt.refl _
  · exact ObsExt.trans (ObsExt.of_eq (s' := { s with woken := true }) rfl) (ObsExt.emit _ _ (by intro _ _ h; cases h))

theorem obsExt_startRequest (s : St) (now id d : Nat) (tr : Trace) (b : Nat) :
    ObsExt now s (startRequest s now id d tr b).1 := by
  unfold startRequest; split
  · exact ObsExt.refl _
  · rcases hi : s.timers.insert now (clampTimeout (d - now)) id with ⟨q, r, w⟩
    cases r with
    | panic =>
      refine ObsExt.trans (ObsExt.of_eq (s' := { s with poisoned := true }) rfl) (ObsExt.emit _ _ ?_)
      intro _ _ h; cases h
      exact ⟨rfl, fun hf => insert_panic_late hf s.timers now (d - now) id (by rw [hi])⟩
    | ok key =>
      simp only
      split
      · exact ObsExt.trans (obsExt_wakeServer s) (ObsExt.of_eq rfl)
      · exact ObsExt.of_eq rfl

theorem obsExt_pollExpired (s : St) (now : Nat) : ObsExt now s (pollExpired s now).1 := by
  refine pollExpired_rel now ObsExt.refl (fun _ _ _ => ObsExt.trans)
    (fun s1 => ObsExt.emit _ _ (by intro _ _ h; cases h)) (fun s1 => ?_) s
  have hs := expireStep_shape s1 now
  revert hs; generalize expireStep s1 now = p; intro hs
  obtain ⟨s', r⟩ := p
  dsimp only at hs ⊢
  cases hs with
  | idleNone q hp => exact ObsExt.of_eq rfl
  | idlePending q hp => exact ObsExt.of_eq rfl
  | orphan q e hp hf => exact ObsExt.of_eq rfl
  | abort q e en hp hf h0 => exact ObsExt.trans (ObsExt.of_eq rfl) (obsExt_abortExec _ _)
  | rearmed q e en s2 hp hf h0 hr =>
    obtain ⟨q', key, w, _, rfl⟩ := rearm_some hr
    cases w
    · exact ObsExt.of_eq rfl
    · exact ObsExt.trans (ObsExt.trans (ObsExt.of_eq (s' := { s1 with timers := q }) rfl) (obsExt_wakeServer _)) (ObsExt.of_eq rfl)
  | panicked q e en hp hf h0 hr =>
    refine ObsExt.trans (ObsExt.of_eq (s' := { s1 with poisoned := true }) rfl) (ObsExt.emit _ _ ?_)
    intro _ _ h; cases h
    exact ⟨rfl, fun hf' => insert_panic_late hf' q now _ en.id (rearm_none hr)⟩

/-- `removeRequest` never panics in a state satisfying the invariant -/
theorem TInv.removeReq_obs {now : Nat} {s : St} (h : TInv now s) (id : Nat) :
    ObsExt now s (removeRequest s id).1 ∧ (removeRequest s id).1.poisoned = s.poisoned := by
  unfold Server.removeRequest
  split
  · exact ⟨ObsExt.refl _, rfl⟩
  · next e hf =>
    obtain ⟨hen, hid⟩ := findEntry_some hf
    obtain ⟨q', w, hr⟩ := h.remove_some hen
    unfold removeTimer
    rw [hr]
    simp only
    split
    · exact ⟨ObsExt.trans (ObsExt.of_eq (s' := { s with inflight := s.inflight.filter (·.id != id), timers := q' }) rfl)
        (obsExt_wakeServer _), by simp⟩
    · exact ⟨ObsExt.of_eq rfl, rfl⟩

theorem TInv.obsExt_cancelReq {now : Nat} {s : St} (h : TInv now s) (id : Nat) : ObsExt now s (cancelRequest s id).1 := by
  unfold cancelRequest; split
  · exact ObsExt.refl _
  · next e hf =>
    obtain ⟨hen, hid⟩ := findEntry_some hf
    obtain ⟨q', w, hr⟩ := h.remove_some hen
    unfold removeTimer
    simp only [abortExec_timers, hr]
    have h1 : ObsExt now s (abortExec { s with inflight := s.inflight.filter (·.id != id) } e.rid) :=
      ObsExt.trans (ObsExt.of_eq (s' := { s with inflight := s.inflight.filter (·.id != id) }) rfl)
        (obsExt_abortExec _ _)
    refine ObsExt.trans h1 ?_
    split
    · exact ObsExt.trans (ObsExt.of_eq (s' := { abortExec { s with inflight := s.inflight.filter (·.id != id) } e.rid with timers := q' }) rfl)
        (obsExt_wakeServer _)
    · exact ObsExt.of_eq rfl

theorem obsExt_tNext {now : Nat} (s : St) : ObsExt now s (tNext s).1 := by
  unfold tNext; split
  · exact ObsExt.refl _
  · simp only; split
    · exact ObsExt.trans (ObsExt.trans (ObsExt.of_eq rfl) (ObsExt.emit _ _ (by intro _ _ h; cases h))) (ObsExt.of_eq rfl)
    · exact ObsExt.trans (ObsExt.of_eq rfl) (ObsExt.emit _ _ (by intro _ _ h; cases h))

theorem tNext_item_obs {s : St} {m : Msg} (h : (tNext s).2 = .item m) :
    Obs.tNext (tid s) (.item m) ∈ (tNext s).1.obs := by
  unfold tNext at *
  by_cases hf : s.readFused = true
  · rw [if_pos hf] at h; cases h
  · rw [if_neg hf] at h ⊢
    simp only at h ⊢
    rw [h]
    simp [emit]

/-- the execution list after `startRequest`: unchanged, or one fresh (un-aborted) execution appended -/
theorem startRequest_execs_cases (s : St) (now id d : Nat) (tr : Trace) (b : Nat) :
    (startRequest s now id d tr b).1.execs = s.execs ∨
    ∃ e, (startRequest s now id d tr b).1.execs = s.execs ++ [e] ∧ e.aborted = false := by
  unfold startRequest; split
  · exact Or.inl rfl
  · rcases hi : s.timers.insert now (clampTimeout (d - now)) id with ⟨q, r, w⟩
    cases r with
    | panic => exact Or.inl rfl
    | ok key =>
      simp only
      have hwe : (if w = true then wakeServer s else s).execs = s.execs := by split <;> simp
      revert hwe
      generalize (if w = true then wakeServer s else s) = sw
      intro hwe
      let e0 : Exec := { rid := sw.execs.length, id := id, deadline := d, trace := { tr with span := .fresh sw.nextFresh }, body := b, guardArmed := false }
      refine Or.inr ⟨e0, ?_, rfl⟩
      show sw.execs ++ [e0] = s.execs ++ [e0]
      rw [hwe]

/-! ### the full server invariant -/

/-- a `Cancel` for request id `id` was read from the transport -/
def cancelSeen (id : Nat) (obs : List Obs) : Prop := ∃ ep tr, Obs.tNext ep (.item (.cancel id tr)) ∈ obs

/-- Why an execution may be found aborted (C06 "never early"): the model spun (and stopped
recording), a `Cancel` for its id was read, the request stream was dropped, or its deadline passed. -/
def AbortWhy (now : Nat) (s : St) : Prop :=
  ∀ ex ∈ s.execs, ex.aborted = true →
    hasSpin s.obs = true ∨ cancelSeen ex.id s.obs ∨ s.dropped = true ∨ ex.deadline ≤ now

/-- the only panic ever observed is the `DelayQueue` range panic, and not before `panicFreeNs` -/
def OnlyInsertPanic (now : Nat) (s : St) : Prop := ∀ ep m, Obs.panic ep m ∈ s.obs → PanicOk now m

/-- The server invariant.  `w = true`: with the abort-reason clause (which reads the observations
recorded in the state); `w = false`: without it — that form survives clearing the observations, as the
event trace (`stepOp`) does after every op. -/
structure SInv (w : Bool) (now : Nat) (s : St) : Prop where
  t : TInv now s
  why : w = true → AbortWhy now s
  panics : OnlyInsertPanic now s

theorem SInv.mono {w : Bool} {now now' : Nat} {s : St} (h : SInv w now s) (hle : now ≤ now') : SInv w now' s :=
  ⟨h.t.mono hle, fun hw ex hex ha => by
    rcases h.why hw ex hex ha with h1 | h1 | h1 | h1
    · exact Or.inl h1
    · exact Or.inr (Or.inl h1)
    · exact Or.inr (Or.inr (Or.inl h1))
    · exact Or.inr (Or.inr (Or.inr (Nat.le_trans h1 hle))), fun ep m hm => (h.panics ep m hm).mono hle⟩

/-- the invariant without the abort-reason clause does not look at the recorded observations -/
theorem SInv.clear_obs {w : Bool} {now : Nat} {s : St} (h : SInv w now s) :
    SInv false now { s with obs := [] } :=
  ⟨h.t.of_sim rfl rfl (ExecsSim.refl _), (fun hw => by cases hw), (by intro ep m hm; cases hm)⟩

/-- the generic step: the table invariant is re-established, observations only grow (benignly), and
every newly aborted execution has a reason -/
theorem SInv.step {w : Bool} {now : Nat} {s s' : St} (h : SInv w now s) (ht : TInv now s') (hobs : ObsExt now s s')
    (hdrop : s.dropped = true → s'.dropped = true) (r : Option Nat) (hab : ExecsAb r s.execs s'.execs)
    (hr : ∀ ex ∈ s.execs, r = some ex.rid →
      hasSpin s'.obs = true ∨ cancelSeen ex.id s'.obs ∨ s'.dropped = true ∨ ex.deadline ≤ now) : SInv w now s' := by
  refine ⟨ht, fun hw ex' hex' ha' => ?_, fun ep m hm => ?_⟩
  · obtain ⟨ex, hex, hrid, hid, hd, hab'⟩ := hab.2 ex' hex'
    rw [hid, hd]
    rcases hab' ha' with ha | ha
    · rcases h.why hw ex hex ha with h1 | h1 | h1 | h1
      · exact Or.inl (hobs.hasSpin h1)
      · obtain ⟨ep, tr, hm⟩ := h1
        exact Or.inr (Or.inl ⟨ep, tr, hobs.mem hm⟩)
      · exact Or.inr (Or.inr (Or.inl (hdrop h1)))
      · exact Or.inr (Or.inr (Or.inr h1))
    · exact hr ex hex ha
  · obtain ⟨new, e, p⟩ := hobs
    rw [e] at hm
    rcases List.mem_append.mp hm with hm | hm
    · exact p _ hm ep m rfl
    · exact h.panics ep m hm

theorem TInv.timerWaker {now : Nat} {s : St} (h : TInv now s) (b : Bool) :
    TInv now { s with timers := { s.timers with waker := b } } :=
  ⟨⟨h.wf.nodup, h.wf.lt⟩, ⟨h.sound.lvl, h.sound.blk, h.sound.top, h.sound.exp, h.sound.el, h.sound.wn⟩,
    h.ids, h.fwd, h.bwd, h.ridLt, h.execRid, h.tk, h.dl⟩

theorem sinv_closed (w : Bool) (now : Nat) : PrimClosed now (SInv w now) where
  inert := fun s s' hi h =>
    h.step (h.t.of_sim hi.inflight hi.timers (by rw [hi.execs]; exact ExecsSim.refl _)) (ObsExt.of_eq hi.obs)
      (fun hd => by rw [hi.dropped]; exact hd) none (by rw [hi.execs]; exact ExecsAb.refl _ _)
      (fun _ _ hr => by cases hr)
  emit := fun s o hq h =>
    h.step (h.t.of_sim rfl rfl (ExecsSim.refl _)) (ObsExt.emit s o (by intro ep m ho; subst ho; exact absurd hq id))
      id none (ExecsAb.refl _ _) (fun _ _ hr => by cases hr)
  upd := fun s r f hf h =>
    h.step (h.t.of_sim rfl rfl (updExec_sim s r f (fun e => ⟨(hf e).1, (hf e).2.1, (hf e).2.2.1⟩))) (ObsExt.of_eq rfl)
      id none (updExec_ab s r f hf) (fun _ _ hr => by cases hr)
  setT := fun s t h =>
    h.step (h.t.of_sim rfl rfl (ExecsSim.refl _)) (ObsExt.of_eq rfl) id none (ExecsAb.refl _ _) (fun _ _ hr => by cases hr)
  setFused := fun s h =>
    h.step (h.t.of_sim rfl rfl (ExecsSim.refl _)) (ObsExt.of_eq rfl) id none (ExecsAb.refl _ _) (fun _ _ hr => by cases hr)
  removeReq := fun s id h =>
    h.step (h.t.removeReq id) (h.t.removeReq_obs id).1 (by simp) none
      (by rw [removeRequest_execs]; exact ExecsAb.refl _ _) (fun _ _ hr => by cases hr)
  cancel := fun s id tr h hnx => by
    have h1 : SInv w now (tNext s).1 :=
      h.step (h.t.of_sim (by simp) (by simp) (by rw [tNext_execs]; exact ExecsSim.refl _)) (obsExt_tNext s)
        (by simp) none (by rw [tNext_execs]; exact ExecsAb.refl _ _) (fun _ _ hr => by cases hr)
    have hseen : cancelSeen id (cancelRequest (tNext s).1 id).1.obs :=
      ⟨_, tr, (h1.t.obsExt_cancelReq id).mem (tNext_item_obs hnx)⟩
    rcases cancelRequest_ab (tNext s).1 id with ⟨_, heq⟩ | ⟨en, hf, hab⟩
    · rw [heq]; exact h1
    · refine h1.step (h1.t.cancelReq id) (h1.t.obsExt_cancelReq id) (by simp) (some en.rid) hab ?_
      intro ex hex hr
      obtain ⟨hen, hid⟩ := findEntry_some hf
      obtain ⟨c, hc, hk, _⟩ := h1.t.fwd en hen
      have := (h1.t.dl en hen c hc hk ex hex (Option.some.inj hr).symm).id
      rw [this, hid]
      exact Or.inr (Or.inl hseen)
  expire := fun s h => by
    rcases h.t.expire_ab with hab | ⟨r, hab, hdl⟩
    · exact h.step h.t.expire (obsExt_pollExpired s now) (by simp) none hab (fun _ _ hr => by cases hr)
    · exact h.step h.t.expire (obsExt_pollExpired s now) (by simp) (some r) hab
        (fun ex hex hr => Or.inr (Or.inr (Or.inr (hdl ex hex (Option.some.inj hr).symm))))
  start := fun s id d tr b h => by
    refine ⟨h.t.start id d tr b, ?_, ?_⟩
    · intro hw ex' hex' ha'
      have hold : ex' ∈ s.execs := by
        rcases startRequest_execs_cases s now id d tr b with he | ⟨e, he, hna⟩
        · rw [he] at hex'; exact hex'
        · rw [he] at hex'
          simp only [List.mem_append, List.mem_singleton] at hex'
          rcases hex' with h' | h'
          · exact h'
          · subst h'; rw [hna] at ha'; cases ha'
      rcases h.why hw ex' hold ha' with h1 | h1 | h1 | h1
      · exact Or.inl ((obsExt_startRequest s now id d tr b).hasSpin h1)
      · obtain ⟨ep, tr', hm⟩ := h1
        exact Or.inr (Or.inl ⟨ep, tr', (obsExt_startRequest s now id d tr b).mem hm⟩)
      · exact Or.inr (Or.inr (Or.inl (by simpa using h1)))
      · exact Or.inr (Or.inr (Or.inr h1))
    · intro ep m hm
      obtain ⟨new, e, p⟩ := obsExt_startRequest s now id d tr b
      rw [e] at hm
      rcases List.mem_append.mp hm with hm | hm
      · exact p _ hm ep m rfl
      · exact h.panics ep m hm
  timerWaker := fun s b h => ⟨h.t.timerWaker b, h.why, h.panics⟩
  spin := fun s h =>
    h.step (h.t.of_sim rfl rfl (ExecsSim.refl _)) (ObsExt.emit s _ (by intro _ _ ho; cases ho)) id none
      (ExecsAb.refl _ _) (fun _ _ hr => by cases hr)
  spunReset := fun s0 s h0 h =>
    ⟨h.t.of_sim rfl rfl (ExecsSim.refl _), fun _ ex hex ha => Or.inl (by simp [hasSpin]),
      fun ep m hm => by
        simp only [List.mem_cons] at hm
        rcases hm with hm | hm
        · cases hm
        · exact h0.panics ep m hm⟩
  setDone := fun s r h =>
    h.step (h.t.of_sim rfl rfl (ExecsSim.refl _)) (ObsExt.of_eq rfl) id none (ExecsAb.refl _ _) (fun _ _ hr => by cases hr)
  drop := fun s h => by
    refine ⟨h.t.drop, ?_, ?_⟩
    · intro hw ex' hex' ha'
      unfold dropServer at hex' ⊢
      split
      · next hc =>
        rw [if_pos hc] at hex'
        rcases h.why hw ex' hex' ha' with h1 | h1 | h1 | h1
        · exact Or.inl ((ObsExt.emit (now := now) s .noop (by intro _ _ ho; cases ho)).hasSpin h1)
        · obtain ⟨ep, tr', hm⟩ := h1
          exact Or.inr (Or.inl ⟨ep, tr', (ObsExt.emit (now := now) s .noop (by intro _ _ ho; cases ho)).mem hm⟩)
        · exact Or.inr (Or.inr (Or.inl h1))
        · exact Or.inr (Or.inr (Or.inr h1))
      · refine Or.inr (Or.inr (Or.inl ?_))
        simp only
        rw [foldl_wakeExec_frame (fun s => St.dropped s) (by simp)]
        simp only
        rw [foldl_abortExec_frame (fun s => St.dropped s) (by simp)]
    · intro ep m hm
      obtain ⟨new, e, p⟩ := obsExt_dropServer (now := now) s
      rw [e] at hm
      rcases List.mem_append.mp hm with hm | hm
      · exact p _ hm ep m rfl
      · exact h.panics ep m hm

/-! ### pointwise description of `abortExec` / `dropServer` on the execution list -/

/-- `g` only touches executions with rid `r`, never changes a rid and never clears `aborted` -/
structure AbortMap (r : Nat) (g : Exec → Exec) : Prop where
  other : ∀ e, e.rid ≠ r → g e = e
  rid : ∀ e, (g e).rid = e.rid
  keep : ∀ e, e.aborted = true → (g e).aborted = true

theorem updExec_map (s : St) (r : Nat) (f : Exec → Exec) :
    (updExec s r f).execs = s.execs.map (fun e => if e.rid == r then f e else e) := rfl

theorem wakeExec_map (s : St) (r : Nat) :
    ∃ g, (wakeExec s r).execs = s.execs.map g ∧ AbortMap r g ∧ ∀ e, (g e).aborted = e.aborted := by
  have hid : ∃ g, s.execs = s.execs.map g ∧ AbortMap r g ∧ ∀ e, (g e).aborted = e.aborted :=
    ⟨id, by simp, ⟨fun _ _ => rfl, fun _ => rfl, fun _ h => h⟩, fun _ => rfl⟩
  unfold wakeExec
  repeat' split
  all_goals first | exact hid | skip
  refine ⟨fun e => if e.rid == r then { e with woken := true } else e, rfl, ⟨?_, ?_, ?_⟩, ?_⟩
  · intro e he; simp [he]
  · intro e; show (if _ then _ else _ : Exec).rid = _; split <;> rfl
  · intro e h; show (if _ then _ else _ : Exec).aborted = _; split <;> exact h
  · intro e; show (if _ then _ else _ : Exec).aborted = _; split <;> rfl

theorem abortExec_map (s : St) (r : Nat) :
    ∃ g, (abortExec s r).execs = s.execs.map g ∧ AbortMap r g ∧
      ∀ e ∈ s.execs, e.rid = r → (g e).aborted = true := by
  unfold abortExec
  split
  · next hnone =>
    refine ⟨id, by simp, ⟨fun _ _ => rfl, fun _ => rfl, fun _ h => h⟩, fun e he hr => ?_⟩
    unfold getExec at hnone
    have := List.find?_eq_none.mp hnone e he
    simp [hr] at this
  · next ex hsome =>
    let ga : Exec → Exec := fun e => if e.rid == r then { e with aborted := true, abortWaker := false } else e
    have hga : AbortMap r ga := ⟨fun e he => by simp [ga, he], fun e => by simp only [ga]; split <;> rfl,
      fun e h => by simp only [ga]; split <;> simp [h]⟩
    have hga4 : ∀ e, e.rid = r → (ga e).aborted = true := fun e he => by simp [ga, he]
    simp only
    split
    · obtain ⟨gw, hw, hgw, hgw'⟩ := wakeExec_map (updExec s r fun e => { e with aborted := true, abortWaker := false }) r
      refine ⟨gw ∘ ga, ?_, ⟨?_, ?_, ?_⟩, ?_⟩
      · rw [hw, updExec_map, List.map_map]
      · intro e he; simp only [Function.comp]; rw [hga.other e he, hgw.other e he]
      · intro e; simp only [Function.comp]; rw [hgw.rid, hga.rid]
      · intro e h; simp only [Function.comp]; exact hgw.keep _ (hga.keep e h)
      · intro e _ hr; simp only [Function.comp]; rw [hgw']; exact hga4 e hr
    · exact ⟨ga, rfl, hga, fun e _ hr => hga4 e hr⟩

theorem foldl_abort_map (es : List SEntry) : ∀ (s : St), ∃ G,
    (es.foldl (fun s e => abortExec s e.rid) s).execs = s.execs.map G ∧ (∀ e, (G e).rid = e.rid) ∧
    (∀ e, e.aborted = true → (G e).aborted = true) ∧
    (∀ e ∈ s.execs, e.rid ∈ es.map (·.rid) → (G e).aborted = true) := by
  induction es with
  | nil => intro s; exact ⟨id, by simp, fun _ => rfl, fun _ h => h, fun e _ h => by cases h⟩
  | cons x es ih =>
    intro s
    obtain ⟨g1, h1, hg1, hset⟩ := abortExec_map s x.rid
    obtain ⟨G2, h2, hr2, hk2, hs2⟩ := ih (abortExec s x.rid)
    refine ⟨G2 ∘ g1, ?_, ?_, ?_, ?_⟩
    · simp only [List.foldl_cons]; rw [h2, h1, List.map_map]
    · intro e; simp only [Function.comp]; rw [hr2, hg1.rid]
    · intro e h; exact hk2 _ (hg1.keep e h)
    · intro e he hm
      simp only [List.map_cons, List.mem_cons] at hm
      simp only [Function.comp]
      rcases hm with hm | hm
      · exact hk2 _ (hset e he hm)
      · refine hs2 (g1 e) ?_ (by rw [hg1.rid]; exact hm)
        rw [h1]; exact List.mem_map.mpr ⟨e, he, rfl⟩

theorem foldl_wake_map (ws : List Nat) : ∀ (s : St), ∃ G,
    (ws.foldl wakeExec s).execs = s.execs.map G ∧ (∀ e, (G e).rid = e.rid) ∧ (∀ e, (G e).aborted = e.aborted) := by
  induction ws with
  | nil => intro s; exact ⟨id, by simp, fun _ => rfl, fun _ => rfl⟩
  | cons x ws ih =>
    intro s
    obtain ⟨g1, h1, hg1, ha1⟩ := wakeExec_map s x
    obtain ⟨G2, h2, hr2, ha2⟩ := ih (wakeExec s x)
    refine ⟨G2 ∘ g1, ?_, ?_, ?_⟩
    · simp only [List.foldl_cons]; rw [h2, h1, List.map_map]
    · intro e; simp only [Function.comp]; rw [hr2, hg1.rid]
    · intro e; simp only [Function.comp]; rw [ha2, ha1]

/-- Dropping the request stream aborts every execution that owned an in-flight entry. -/
theorem dropServer_aborts_all (s : St) (hlive : (s.dropped || s.poisoned) = false) :
    ∀ en ∈ s.inflight, ∀ ex ∈ (dropServer s).execs, ex.rid = en.rid → ex.aborted = true := by
  intro en hen ex hex hr
  unfold dropServer at hex
  rw [hlive] at hex
  simp only [Bool.false_eq_true, if_false] at hex
  obtain ⟨G1, h1, hr1, hk1, hs1⟩ := foldl_abort_map s.inflight { s with dropped := true, woken := false }
  obtain ⟨G2, h2, hr2, ha2⟩ := foldl_wake_map
    (List.foldl (fun s e => abortExec s e.rid) { s with dropped := true, woken := false } s.inflight).rqWaiters
    { List.foldl (fun s e => abortExec s e.rid) { s with dropped := true, woken := false } s.inflight with rqWaiters := [] }
  rw [h2] at hex
  simp only at hex
  rw [h1] at hex
  simp only [List.map_map, List.mem_map] at hex
  obtain ⟨e0, he0, rfl⟩ := hex
  simp only [Function.comp] at hr ⊢
  rw [ha2]
  rw [hr2, hr1] at hr
  exact hs1 e0 he0 (by rw [hr]; exact List.mem_map.mpr ⟨en, hen, rfl⟩)

/-- the part of a table entry that `poll_expired` never changes (a re-arm changes the timer key and the
remainder) -/
def _root_.TarpcModel.Server.SEntry.ir (e : SEntry) : Nat × Nat := (e.id, e.rid)

theorem map_ir_rearmUpd (l : List SEntry) (id key now : Nat) :
    (l.map (rearmUpd id key now)).map SEntry.ir = l.map SEntry.ir := by
  rw [List.map_map]; apply List.map_congr_left; intro x _
  simp [SEntry.ir]

theorem findEntry_ir {s s' : St} (h : s'.inflight.map SEntry.ir = s.inflight.map SEntry.ir) (id : Nat) :
    (findEntry s' id).map SEntry.ir = (findEntry s id).map SEntry.ir := by
  unfold findEntry
  generalize s'.inflight = l' at h
  generalize s.inflight = l at h
  induction l generalizing l' with
  | nil => cases l' with
    | nil => rfl
    | cons a l' => simp at h
  | cons b l ih =>
    cases l' with
    | nil => simp at h
    | cons a l' =>
      simp only [List.map_cons, List.cons.injEq] at h
      have hid : a.id = b.id := congrArg Prod.fst h.1
      simp only [List.find?_cons, hid]
      split
      · simp [h.1]
      · exact ih l' h.2

theorem filter_ir {l l' : List SEntry} (h : l'.map SEntry.ir = l.map SEntry.ir) (id : Nat) :
    (l'.filter (·.id != id)).map SEntry.ir = (l.filter (·.id != id)).map SEntry.ir := by
  induction l generalizing l' with
  | nil => cases l' with
    | nil => rfl
    | cons a l' => simp at h
  | cons b l ih =>
    cases l' with
    | nil => simp at h
    | cons a l' =>
      simp only [List.map_cons, List.cons.injEq] at h
      have hid : a.id = b.id := congrArg Prod.fst h.1
      simp only [List.filter_cons, hid]
      split
      · simp only [List.map_cons, h.1, ih h.2]
      · exact ih h.2

/-- what `poll_expired` does to the table (up to timer keys and remainders) and to the executions -/
inductive ExpTouch (s : St) : St → ExpRes → Prop
  | same (s' : St) (r : ExpRes) (hi : s'.inflight.map SEntry.ir = s.inflight.map SEntry.ir) (he : s'.execs = s.execs)
      (hr : r ≠ .ready) : ExpTouch s s' r
  | orphan (s' : St) (id : Nat) (hi : s'.inflight.map SEntry.ir = s.inflight.map SEntry.ir) (he : s'.execs = s.execs)
      (hf : findEntry s id = none) : ExpTouch s s' .ready
  | expired (s' : St) (id : Nat) (en : SEntry) (hf : findEntry s id = some en)
      (hi : s'.inflight.map SEntry.ir = (s.inflight.filter (·.id != id)).map SEntry.ir)
      (g : Exec → Exec) (he : s'.execs = s.execs.map g) (hg : AbortMap en.rid g) : ExpTouch s s' .ready

theorem expireStep_touch (s : St) (now : Nat) :
    match (expireStep s now).2 with
    | some r => ExpTouch s (expireStep s now).1 r
    | none => (expireStep s now).1.inflight.map SEntry.ir = s.inflight.map SEntry.ir ∧
        (expireStep s now).1.execs = s.execs := by
  have hs := expireStep_shape s now
  revert hs; generalize expireStep s now = p; intro hs
  obtain ⟨s', r⟩ := p
  dsimp only at hs ⊢
  cases hs with
  | idleNone q hp => exact ExpTouch.same _ _ rfl rfl (by intro h; cases h)
  | idlePending q hp => exact ExpTouch.same _ _ rfl rfl (by intro h; cases h)
  | orphan q e hp hf => exact ExpTouch.orphan _ e.val rfl rfl hf
  | abort q e en hp hf h0 =>
    obtain ⟨g, hg, hm, _⟩ := abortExec_map { s with timers := q, inflight := s.inflight.filter (·.id != e.val) } en.rid
    exact ExpTouch.expired _ e.val en hf (by simp) g hg hm
  | rearmed q e en s2 hp hf h0 hr =>
    obtain ⟨q', key, w, _, rfl⟩ := rearm_some hr
    exact ⟨map_ir_rearmUpd _ _ _ _, by cases w <;> simp⟩
  | panicked q e en hp hf h0 hr => exact ExpTouch.same _ _ rfl rfl (by intro h; cases h)

/-- **Frame** of the expiry path: `pollExpired` either leaves the table (up to re-armed timer keys and
remainders) and the executions alone, or it reports an expiration, removes exactly the entries with the
expired id and touches only executions with the rid of that entry. -/
theorem pollExpired_touches (s : St) (now : Nat) : ExpTouch s (pollExpired s now).1 (pollExpired s now).2 := by
  have hloop : ∀ (fuel : Nat) (s1 : St), s1.inflight.map SEntry.ir = s.inflight.map SEntry.ir → s1.execs = s.execs →
      ExpTouch s (pollExpiredLoop fuel s1 now).1 (pollExpiredLoop fuel s1 now).2 := by
    intro fuel
    induction fuel with
    | zero => intro s1 hi he; exact ExpTouch.same _ _ hi he (by intro h; cases h)
    | succ n ih =>
      intro s1 hi he
      rw [pollExpiredLoop_succ]
      have h1 := expireStep_touch s1 now
      revert h1; generalize expireStep s1 now = p; intro h1
      rcases p with ⟨s', r⟩
      cases r with
      | none =>
        dsimp only at h1 ⊢
        exact ih s' (h1.1.trans hi) (h1.2.trans he)
      | some r =>
        dsimp only at h1 ⊢
        cases h1 with
        | same _ hi' he' hr => exact ExpTouch.same _ _ (hi'.trans hi) (he'.trans he) hr
        | orphan id hi' he' hf =>
          refine ExpTouch.orphan _ id (hi'.trans hi) (he'.trans he) ?_
          have := findEntry_ir hi id
          rw [hf] at this
          cases hfe : findEntry s id with
          | none => rfl
          | some x => rw [hfe] at this; cases this
        | expired id en hf hi' g he' hg =>
          have := findEntry_ir hi id
          rw [hf] at this
          cases hfe : findEntry s id with
          | none => rw [hfe] at this; cases this
          | some en0 =>
            rw [hfe] at this
            have hrid : en.rid = en0.rid := congrArg Prod.snd (Option.some.inj this)
            refine ExpTouch.expired _ id en0 hfe (hi'.trans (filter_ir hi id)) g (by rw [he', he]) (hrid ▸ hg)
  unfold pollExpired
  split
  · exact ExpTouch.same _ _ rfl rfl (by intro h; cases h)
  · exact hloop _ s rfl rfl

/-! ### reachable states -/

theorem sinv_init (w : Bool) (limit : Option Nat) (respCap tcap : Nat) (coupled : Bool) :
    SInv w 0 (init 0 limit respCap tcap coupled) := by
  refine ⟨⟨DelayQ.WF_empty, DelayQ.Sound_empty 0, ?_, ?_, ?_, ?_, ?_, ?_, ?_⟩, ?_, ?_⟩
  all_goals simp [init, AbortWhy, OnlyInsertPanic, DelayQ.cores, DelayQ.items]

/-- the virtual time an op advances the clock by -/
def opAdv : SOp → Nat
  | .advance n => n
  | _ => 0

/-- the total virtual time a script advances the clock by -/
def advSum : List SOp → Nat
  | [] => 0
  | op :: ops => opAdv op + advSum ops

theorem applyOp_now (c : Sys) (op : SOp) : (applyOp c op).now = c.now + opAdv op := by
  cases op <;> rfl

theorem foldl_applyOp_now (ops : List SOp) (c : Sys) : (ops.foldl applyOp c).now = c.now + advSum ops := by
  induction ops generalizing c with
  | nil => rfl
  | cons op ops ih => rw [List.foldl_cons, ih, applyOp_now]; simp only [advSum]; omega

theorem advSum_append (l1 l2 : List SOp) : advSum (l1 ++ l2) = advSum l1 + advSum l2 := by
  induction l1 with
  | nil => simp [advSum]
  | cons op l1 ih => simp only [List.cons_append, advSum, ih]; omega

/-- one op keeps the invariant (at the clock the op leaves) -/
theorem sinv_applyOp {w : Bool} (c : Sys) (op : SOp) (h : SInv w c.now c.s) :
    SInv w (applyOp c op).now (applyOp c op).s := by
  by_cases hop : ∃ n, op = .advance n
  · obtain ⟨n, rfl⟩ := hop
    exact (sinv_closed w _).onAdvance _ _ (h.mono (Nat.le_add_right _ _))
  · have hnow : (applyOp c op).now = c.now := by
      cases op <;> first | rfl | exact absurd ⟨_, rfl⟩ hop
    rw [hnow]
    exact (sinv_closed w c.now).applyOp c op h (fun n hn => hop ⟨n, hn⟩)

theorem sinv_reach (w : Bool) (limit : Option Nat) (respCap tcap : Nat) (coupled : Bool) (ops : List SOp) :
    SInv w (ops.foldl applyOp (initSys limit respCap tcap coupled)).now
      (ops.foldl applyOp (initSys limit respCap tcap coupled)).s :=
  reach_inv (SInv w) (sinv_closed w) (fun _ _ _ hle h => h.mono hle) _ (sinv_init w limit respCap tcap coupled) ops

theorem init_cfg (limit : Option Nat) (respCap tcap : Nat) (coupled : Bool) :
    (initSys limit respCap tcap coupled).s.throttleAfterRead = false ∧
    (initSys limit respCap tcap coupled).s.ensureLoop = false := ⟨rfl, rfl⟩

theorem ns_reach (limit : Option Nat) (respCap tcap : Nat) (coupled : Bool) (ops : List SOp) :
    hasSpin (ops.foldl applyOp (initSys limit respCap tcap coupled)).s.obs = false :=
  NS_reach (initSys limit respCap tcap coupled) (by unfold NS; rfl) rfl rfl ops

/-! ### going idle: the last `poll_expired` reported nothing due -/

theorem combine_not_ready {a b : RStatus} (h : combine a b ≠ .ready) : a ≠ .ready ∧ b ≠ .ready := by
  cases a <;> cases b <;> simp_all [combine]

theorem bpOther_not_ready {s : St} {nx : NextRes} (h : (bpOther s nx).2 ≠ .ready) : (bpOther s nx).1 = s := by
  unfold bpOther at *
  split at h
  · exact absurd rfl h
  · exact absurd rfl h
  · rfl
  · rfl

/-- when one iteration of the channel's `poll_next` decides to go idle, its own `poll_expired` call
(made earlier in the same iteration) did not report an expiration and nothing touched the table or
the timers afterwards -/
theorem bpStep_idle (s : St) (now : Nat) (h : (bpStep s now).2 = some .pending ∨ (bpStep s now).2 = some .none) :
    (pollExpired (bpCancel s).1 now).2 ≠ .ready ∧
    (bpStep s now).1.timers = (pollExpired (bpCancel s).1 now).1.timers ∧
    (bpStep s now).1.inflight = (pollExpired (bpCancel s).1 now).1.inflight ∧
    (bpStep s now).1.execs = (pollExpired (bpCancel s).1 now).1.execs := by
  have key : bpSt s now ≠ .ready → (pollExpired (bpCancel s).1 now).2 ≠ .ready ∧
      (bpOther (bp3 s now) (bpNx s now)).1.timers = (pollExpired (bpCancel s).1 now).1.timers ∧
      (bpOther (bp3 s now) (bpNx s now)).1.inflight = (pollExpired (bpCancel s).1 now).1.inflight ∧
      (bpOther (bp3 s now) (bpNx s now)).1.execs = (pollExpired (bpCancel s).1 now).1.execs := by
    intro hne
    unfold bpSt at hne
    obtain ⟨h12, h3⟩ := combine_not_ready hne
    obtain ⟨_, h2⟩ := combine_not_ready h12
    rw [bpOther_not_ready h3]
    refine ⟨fun hr => h2 (by rw [hr]; rfl), ?_, ?_, ?_⟩ <;> simp [bp3, bp2]
  have ho := bpStep_out s now
  generalize bpStep s now = out at *
  cases ho with
  | closed hp hn1 hn2 hpo hc => exact key (by rw [hc]; simp)
  | pending hp hn1 hn2 hpo hc => exact key (by rw [hc]; simp)
  | _ => rcases h with h | h <;> cases h

theorem basePollNext_idle (now : Nat) : ∀ (fuel : Nat) (s : St),
    ((basePollNext fuel s now).2 = .pending ∨ (basePollNext fuel s now).2 = .none) →
    ∃ s1, (pollExpired s1 now).2 ≠ .ready ∧
      (basePollNext fuel s now).1.timers = (pollExpired s1 now).1.timers ∧
      (basePollNext fuel s now).1.inflight = (pollExpired s1 now).1.inflight ∧
      (basePollNext fuel s now).1.execs = (pollExpired s1 now).1.execs := by
  intro fuel
  induction fuel with
  | zero => intro s h; rcases h with h | h <;> cases h
  | succ n ih =>
    intro s
    rw [basePollNext_succ]
    have hb := bpStep_idle s now
    rcases hbs : bpStep s now with ⟨s', r⟩
    rw [hbs] at hb
    cases r with
    | none => exact ih s'
    | some r =>
      intro h
      simp only at h hb
      exact ⟨_, hb (by rcases h with h | h <;> simp [h])⟩

/-- when `poll_expired` reports no expiration, the queue was empty, or the last iteration of its loop —
from a state `s2` reached by re-arming timers — found nothing due (or its `insert` panicked) -/
theorem pollExpired_not_ready {s : St} {now : Nat} (h : (pollExpired s now).2 ≠ .ready) :
    s.timers.isEmpty = true ∨ ∃ s2, (pollExpired s now).1 = (expireStep s2 now).1 ∧
      ((∀ e, (s2.timers.pollExpired now).2 ≠ .expired e) ∨ (expireStep s2 now).1.poisoned = true) := by
  cases he : s.timers.isEmpty with
  | true => exact Or.inl rfl
  | false =>
    right
    obtain ⟨s2, r, hr, heq⟩ := pollExpired_last s now he
    rw [heq] at h ⊢
    refine ⟨s2, rfl, ?_⟩
    have hs := expireStep_shape s2 now
    revert hs hr; generalize expireStep s2 now = p; intro hr hs
    obtain ⟨s', r'⟩ := p
    dsimp only at hs hr h ⊢
    subst hr
    cases hs with
    | idleNone q hp => left; intro e; rw [hp]; simp
    | idlePending q hp => left; intro e; rw [hp]; simp
    | orphan q e hp hf => exact absurd rfl h
    | abort q e en hp hf h0 => exact absurd rfl h
    | panicked q e en hp hf h0 hr => right; simp

/-! ### a finished request stream has been dropped -/

theorem dropServer_dropped (s : St) (hlive : (s.dropped || s.poisoned) = false) : (dropServer s).dropped = true := by
  unfold dropServer
  rw [hlive]
  simp only [Bool.false_eq_true, if_false]
  rw [foldl_wakeExec_frame (fun s => St.dropped s) (by simp)]
  simp only
  rw [foldl_abortExec_frame (fun s => St.dropped s) (by simp)]

theorem dropServer_dropped_mono (s : St) (h : s.dropped = true) : (dropServer s).dropped = true := by
  unfold dropServer
  simp [h]

/-- once `done` is recorded the application has dropped the stream -/
def DoneDropped (s : St) : Prop := s.done.isSome = true → s.dropped = true

theorem pskFinish_frame (s : St) (r : ReqPoll) :
    (pskFinish s r).dropped = s.dropped ∧ (pskFinish s r).poisoned = s.poisoned ∧ (pskFinish s r).inflight = s.inflight := by
  have := pskRet_frame s r
  exact ⟨this.1, this.2.1, this.2.2.2.1⟩

theorem pollServer_eq (s : St) (now : Nat) :
    pollServer s now = if ((pollServerKeep s now).done.isSome && !(pollServerKeep s now).dropped) = true
      then dropServer (pollServerKeep s now)
      else if (decide ((pollServerKeep s now).nextVis > s.nextVis) && !(pollServerKeep s now).dropped) = true
        then { pollServerKeep s now with woken := true }
      else pollServerKeep s now := rfl

/-- what one `pollServer` does, for a live stream -/
theorem pollServer_cases (s : St) (now : Nat) (hlive : (s.dropped || s.done.isSome || s.poisoned) = false) :
    ((pollServerKeep s now).done = none ∧
      (pollServer s now = pollServerKeep s now ∨ pollServer s now = { pollServerKeep s now with woken := true })) ∨
    ((pollServerKeep s now).done.isSome = true ∧ (pollServerKeep s now).dropped = false ∧
      (pollServerKeep s now).poisoned = false ∧ pollServer s now = dropServer (pollServerKeep s now)) := by
  have hl := hlive
  simp only [Bool.or_eq_false_iff] at hl
  rw [pollServer_eq]
  rcases pollServerKeep_cases s now hlive with ⟨hp, hd, hdr⟩ | ⟨hp, heq⟩
  · left
    refine ⟨hd, ?_⟩
    rw [hd]
    simp only [Option.isSome_none, Bool.false_and, Bool.false_eq_true, if_false]
    split
    · exact Or.inr rfl
    · exact Or.inl rfl
  · have hdd := (dd_closed s.done s.dropped now).requestsPollNext (pollFuel { s with woken := false })
      { s with woken := false } ⟨rfl, rfl⟩
    have hfr := pskFinish_frame (requestsPollNext (pollFuel { s with woken := false }) { s with woken := false } now).1
      (requestsPollNext (pollFuel { s with woken := false }) { s with woken := false } now).2
    rw [← heq] at hfr
    have hkd : (pollServerKeep s now).dropped = false := by rw [hfr.1, hdd.2]; exact hl.1.1
    have hkp : (pollServerKeep s now).poisoned = false := by rw [hfr.2.1]; exact hp
    cases hdone : (pollServerKeep s now).done with
    | none =>
      left
      refine ⟨rfl, ?_⟩
      simp only [Option.isSome_none, Bool.false_and, Bool.false_eq_true, if_false]
      split
      · exact Or.inr rfl
      · exact Or.inl rfl
    | some r => right; rw [hkd]; exact ⟨rfl, rfl, hkp, rfl⟩

theorem DoneDropped_pollServer {s : St} (h : DoneDropped s) (now : Nat) : DoneDropped (pollServer s now) := by
  by_cases hl : (s.dropped || s.done.isSome || s.poisoned) = true
  · have hk := pollServerKeep_dead s now hl
    unfold pollServer
    rw [hk]
    simp only [emit_done, emit_dropped]
    split
    · next hc =>
      simp only [Bool.and_eq_true, Bool.not_eq_true'] at hc
      rw [h hc.1] at hc; cases hc.2
    · split
      · exact h
      · exact h
  · have hl' : (s.dropped || s.done.isSome || s.poisoned) = false := by simpa using hl
    rcases pollServer_cases s now hl' with ⟨hd, heq | heq⟩ | ⟨hd, hdr, hp, heq⟩
    · rw [heq]; intro hs; rw [hd] at hs; cases hs
    · rw [heq]; intro hs; simp only [hd] at hs; cases hs
    · rw [heq]; intro _; exact dropServer_dropped _ (by simp [hdr, hp])

theorem DoneDropped_applyOp (c : Sys) (op : SOp) (h : DoneDropped c.s) : DoneDropped (applyOp c op).s := by
  have hc := dd_closed c.s.done c.s.dropped c.now
  have frame : ∀ s' : St, (s'.done = c.s.done ∧ s'.dropped = c.s.dropped) → DoneDropped s' := by
    intro s' hs; unfold DoneDropped; rw [hs.1, hs.2]; exact h
  cases op with
  | pollServer => exact DoneDropped_pollServer h _
  | dropServer =>
    unfold DoneDropped
    simp only [applyOp, dropServer_done]
    intro hd
    exact dropServer_dropped_mono _ (h hd)
  | pollExec r => exact frame _ (hc.pollExec _ _ _ ⟨rfl, rfl⟩)
  | dropExec r => exact frame _ (hc.dropExec _ _ _ ⟨rfl, rfl⟩)
  | finish r res => exact frame _ (hc.finishHandler _ _ _ ⟨rfl, rfl⟩)
  | injectReq id d tr b => exact frame _ (hc.liftT _ _ ⟨rfl, rfl⟩)
  | injectCancel id tr => exact frame _ (hc.liftT _ _ ⟨rfl, rfl⟩)
  | injectErr => exact frame _ (hc.liftT _ _ ⟨rfl, rfl⟩)
  | eof => exact frame _ (hc.liftT _ _ ⟨rfl, rfl⟩)
  | setReady b => exact frame _ (hc.liftT _ _ ⟨rfl, rfl⟩)
  | setFlush b => exact frame _ (hc.liftT _ _ ⟨rfl, rfl⟩)
  | fault k => exact frame _ ⟨rfl, rfl⟩
  | faultSkip n => exact frame _ ⟨rfl, rfl⟩
  | selfWake b => exact frame _ ⟨rfl, rfl⟩
  | take n => exact frame _ (hc.took (c.s.t.take n).2 { c.s with t := (c.s.t.take n).1 } ⟨rfl, rfl⟩)
  | advance n => exact frame _ (hc.onAdvance _ _ ⟨rfl, rfl⟩)

theorem DoneDropped_reach (c : Sys) (h : DoneDropped c.s) (ops : List SOp) : DoneDropped (ops.foldl applyOp c).s := by
  induction ops generalizing c with
  | nil => exact h
  | cons op ops ih => exact ih _ (DoneDropped_applyOp c op h)

/-- the failures observed during one live poll of the request stream, and what the poll recorded -/
theorem pollServerKeep_reports (s : St) (now : Nat) (hlive : (s.dropped || s.done.isSome || s.poisoned) = false)
    (hp : (pollServerKeep s now).poisoned = false) :
    match (pollServerKeep s now).done with
    | some (.readyItemErr a) => fails (pollServerKeep s now) = a :: fails s
    | _ => fails (pollServerKeep s now) = fails s := by
  rcases pollServerKeep_cases s now hlive with ⟨hp', _, _⟩ | ⟨_, heq⟩
  · rw [hp] at hp'; cases hp'
  · have hsh := requestsPollNext_shape now (pollFuel { s with woken := false }) { s with woken := false }
    have hl := hlive
    simp only [Bool.or_eq_false_iff] at hl
    have hd : s.done = none := by
      cases h : s.done
      · rfl
      · rw [h] at hl; simp at hl
    have hdd := (dd_closed s.done s.dropped now).requestsPollNext (pollFuel { s with woken := false })
      { s with woken := false } ⟨rfl, rfl⟩
    rw [heq, pskFinish_done, pskRet_done]
    have hff : ∀ s1 r, fails (pskFinish s1 r) = fails s1 := by
      intro s1 r
      unfold pskFinish
      rw [fails_emit, fails_emit]
      unfold pskRet
      split <;> try rfl
      split
      · simp only [Option.toList]; rw [fails_emit]; rfl
      · rfl
    rw [hff]
    generalize requestsPollNext (pollFuel { s with woken := false }) { s with woken := false } now = p at *
    rcases p with ⟨s1, r⟩
    unfold ErrShape at hsh
    have hfs : fails { s with woken := false } = fails s := rfl
    rw [hfs] at hsh
    cases r with
    | err a => exact hsh
    | none => exact hsh
    | pending => simp only at hdd ⊢; rw [hdd.1, hd]; exact hsh
    | item rid => simp only at hdd ⊢; rw [hdd.1, hd]; exact hsh
    | spin => simp only at hdd ⊢; rw [hdd.1, hd]; exact hsh

/-! ### where `handler … dropped` observations come from -/

/-- `s'` records no handler drop that `s` did not already record -/
def ND (s s' : St) : Prop := ∀ v t, Obs.handler v .dropped t ∈ s'.obs → Obs.handler v .dropped t ∈ s.obs

theorem ND.refl (s : St) : ND s s := fun _ _ h => h
theorem ND.trans {a b c : St} (h1 : ND a b) (h2 : ND b c) : ND a c := fun v t h => h1 v t (h2 v t h)
theorem ND.of_eq {s s' : St} (h : s'.obs = s.obs) : ND s s' := fun v t hm => by rw [h] at hm; exact hm
theorem ND.emit (s : St) (o : Obs) (ho : ∀ v t, o ≠ .handler v .dropped t) : ND s (emit s o) := by
  intro v t hm
  simp only [emit_obs, List.mem_cons] at hm
  rcases hm with hm | hm
  · exact absurd hm.symm (ho v t)
  · exact hm

theorem nd_wakeServer (s : St) : ND s (wakeServer s) := by
  unfold wakeServer; split
  · exact ND.refl _
  · exact ND.trans (ND.of_eq (s' := { s with woken := true }) rfl) (ND.emit _ _ (by intro _ _ h; cases h))

theorem nd_wakeExec (s : St) (r : Nat) : ND s (wakeExec s r) := by
  unfold wakeExec; repeat' split
  all_goals first | exact ND.refl _ | exact ND.trans (ND.of_eq rfl) (ND.emit _ _ (by intro _ _ h; cases h))

theorem nd_rqRelease (s : St) : ND s (rqRelease s) := by
  unfold rqRelease; split
  · exact ND.trans (ND.of_eq rfl) (nd_wakeExec _ _)
  · exact ND.of_eq rfl

theorem nd_queueAndFinish (s : St) (e : Exec) (res : Res) (n : Nat) : ND s (queueAndFinish s e res n) := by
  unfold queueAndFinish
  simp only
  refine ND.trans ?_ (ND.emit _ _ (by intro _ _ h; cases h))
  refine ND.trans ?_ (ND.of_eq rfl)
  split
  · exact ND.refl _
  · split
    · exact ND.trans (ND.of_eq rfl) (nd_wakeServer _)
    · exact ND.of_eq rfl

theorem nd_trySend (s : St) (e : Exec) (res : Res) (n : Nat) : ND s (trySend s e res n) := by
  unfold trySend
  split
  · exact nd_queueAndFinish _ _ _ _
  · split
    · exact ND.trans (ND.of_eq rfl) (nd_queueAndFinish _ _ _ _)
    · split
      · exact ND.trans (ND.of_eq rfl) (ND.emit _ _ (by intro _ _ h; cases h))
      · split
        · exact ND.trans (ND.of_eq rfl) (nd_queueAndFinish _ _ _ _)
        · exact ND.trans (ND.of_eq rfl) (ND.emit _ _ (by intro _ _ h; cases h))

/-- … except possibly `handler vid dropped now`, and then `ab` holds -/
def NDx (vid now : Nat) (ab : Prop) (s s' : St) : Prop :=
  ∀ v t, Obs.handler v .dropped t ∈ s'.obs → Obs.handler v .dropped t ∈ s.obs ∨ (v = vid ∧ t = now ∧ ab)

theorem NDx.of_nd {vid now : Nat} {ab : Prop} {s s' : St} (h : ND s s') : NDx vid now ab s s' :=
  fun v t hm => Or.inl (h v t hm)

theorem NDx.trans_nd {vid now : Nat} {ab : Prop} {a b c : St} (h1 : NDx vid now ab a b) (h2 : ND b c) :
    NDx vid now ab a c := fun v t hm => h1 v t (h2 v t hm)

theorem NDx.nd_trans {vid now : Nat} {ab : Prop} {a b c : St} (h1 : ND a b) (h2 : NDx vid now ab b c) :
    NDx vid now ab a c := fun v t hm => by
  rcases h2 v t hm with h | h
  · exact Or.inl (h1 v t h)
  · exact Or.inr h

theorem NDx.emitDrop {vid now : Nat} {ab : Prop} (s : St) (hab : ab) :
    NDx vid now ab s (emit s (.handler vid .dropped now)) := by
  intro v t hm
  simp only [emit_obs, List.mem_cons] at hm
  rcases hm with hm | hm
  · cases hm; exact Or.inr ⟨rfl, rfl, hab⟩
  · exact Or.inl hm

/-- `pollExec` reports `handler vid dropped now` only for an execution whose abort flag is set. -/
theorem pollExec_dropped_obs (s : St) (vid now : Nat) :
    NDx vid now (∃ e, getExecVis s vid = some e ∧ e.aborted = true ∧ e ∈ s.execs) s (pollExec s vid now) := by
  unfold pollExec
  split
  · exact NDx.of_nd (ND.emit s _ (by intro _ _ h; cases h))
  · next e hg =>
    have hmem : e ∈ s.execs := by unfold getExecVis at hg; exact List.mem_of_find?_eq_some hg
    simp only
    split
    · exact NDx.of_nd (ND.emit s _ (by intro _ _ h; cases h))
    · refine NDx.nd_trans (b := updExec s e.rid (fun x => { x with woken := false })) (ND.of_eq rfl) ?_
      generalize updExec s e.rid (fun x => { x with woken := false }) = s0
      split
      · next hab =>
        refine NDx.trans_nd ?_ (ND.trans (ND.of_eq rfl) (ND.emit _ _ (by intro _ _ h; cases h)))
        split
        · split
          · exact NDx.of_nd (ND.trans (ND.of_eq rfl) (nd_rqRelease _))
          · exact NDx.of_nd (ND.of_eq rfl)
        · split
          · exact NDx.of_nd (ND.refl _)
          · exact NDx.emitDrop _ ⟨e, hg, hab, hmem⟩
      · split
        · split
          · exact NDx.of_nd (nd_trySend _ _ _ _)
          · exact NDx.of_nd (ND.emit _ _ (by intro _ _ h; cases h))
        · split
          · refine NDx.of_nd (ND.trans ?_ (nd_trySend _ _ _ _))
            refine ND.trans (ND.trans (ND.of_eq rfl) (ND.emit _ (.handler vid .polled now) (by intro _ _ h; cases h))) ?_
            exact ND.trans (ND.emit _ (.handler vid .completed now) (by intro _ _ h; cases h)) (ND.of_eq rfl)
          · refine NDx.of_nd (ND.trans ?_ (ND.emit _ _ (by intro _ _ h; cases h)))
            exact ND.trans (ND.trans (ND.of_eq rfl) (ND.emit _ (.handler vid .polled now) (by intro _ _ h; cases h)))
              (ND.of_eq rfl)

end TarpcModel.Server.Flow

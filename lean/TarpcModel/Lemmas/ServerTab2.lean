import TarpcModel.Lemmas.ServerTab1
import TarpcModel.Lemmas.ServerNotLate
/-!
The second coupling (`Tab.X`) walked through one poll of the request stream, on top of `Mon06.J`.
-/
namespace TarpcModel.Server.Tab
open TarpcModel TarpcModel.Server TarpcModel.Server.Flow TarpcModel.Server.ObsMon TarpcModel.Server.Mon06
set_option linter.unusedSimpArgs false
set_option linter.unusedVariables false

/-! ## model steps that only abort, re-arm and forget aborted requests -/

/-- `g` keeps an execution's identity and number, does not revive it and does not clear its abort flag -/
def Gm (g : Exec → Exec) : Prop :=
  ∀ e, (g e).rid = e.rid ∧ (g e).id = e.id ∧ (g e).vis = e.vis ∧ (execLive (g e) = true → execLive e = true) ∧
    (e.aborted = true → (g e).aborted = true)

structure MS (s s' : St) : Prop where
  ex : ∃ g : Exec → Exec, s'.execs = s.execs.map g ∧ Gm g
  ents : ∀ en' ∈ s'.inflight, ∃ en ∈ s.inflight, en.id = en'.id ∧ en.rid = en'.rid ∧
    en'.dueAt + en'.remainder ≤ en.dueAt + en.remainder
  cq : ∀ i ∈ s'.cancelQ, i ∈ s.cancelQ
  rq : ∀ p ∈ s'.respQ, p ∈ s.respQ
  inb : s'.t.inbound = s.t.inbound
  gone : ∀ en ∈ s.inflight, (∃ en' ∈ s'.inflight, en'.rid = en.rid) ∨ Ab en.rid s'

theorem Gm.id : Gm id := fun e => ⟨rfl, rfl, rfl, fun h => h, fun h => h⟩

theorem MS.of_frame {s s' : St} (h1 : s'.execs = s.execs) (h2 : s'.inflight = s.inflight) (h3 : s'.cancelQ = s.cancelQ)
    (h4 : s'.respQ = s.respQ) (h5 : s'.t.inbound = s.t.inbound) : MS s s' :=
  ⟨⟨id, by simp [h1], Gm.id⟩, fun en' h => ⟨en', by rw [← h2]; exact h, rfl, rfl, Nat.le_refl _⟩,
    fun i h => by rw [← h3]; exact h, fun p h => by rw [← h4]; exact h, h5,
    fun en h => Or.inl ⟨en, by rw [h2]; exact h, rfl⟩⟩

theorem MS.refl (s : St) : MS s s := MS.of_frame rfl rfl rfl rfl rfl

theorem MS.trans {a b c : St} (h1 : MS a b) (h2 : MS b c) : MS a c := by
  obtain ⟨g1, e1, i1⟩ := h1.ex
  obtain ⟨g2, e2, i2⟩ := h2.ex
  refine ⟨⟨g2 ∘ g1, by rw [e2, e1, List.map_map], fun e => ?_⟩, ?_, fun i h => h1.cq i (h2.cq i h),
    fun p h => h1.rq p (h2.rq p h), h2.inb.trans h1.inb, ?_⟩
  · obtain ⟨p1, p2, p3, p4, p5⟩ := i1 e
    obtain ⟨q1, q2, q3, q4, q5⟩ := i2 (g1 e)
    exact ⟨q1.trans p1, q2.trans p2, q3.trans p3, fun h => p4 (q4 h), fun h => q5 (p5 h)⟩
  · intro en'' h
    obtain ⟨en', h', a1, a2, a3⟩ := h2.ents en'' h
    obtain ⟨en, h0, b1, b2, b3⟩ := h1.ents en' h'
    exact ⟨en, h0, b1.trans a1, b2.trans a2, Nat.le_trans a3 b3⟩
  · intro en hen
    rcases h1.gone en hen with ⟨en', hen', hr⟩ | hab
    · rcases h2.gone en' hen' with ⟨en'', hen'', hr'⟩ | hab
      · exact Or.inl ⟨en'', hen'', hr'.trans hr⟩
      · exact Or.inr (by rw [← hr]; exact hab)
    · right
      intro e'' he'' hr
      rw [e2] at he''
      obtain ⟨e', he', rfl⟩ := List.mem_map.mp he''
      rw [(i2 e').1] at hr
      exact (i2 e').2.2.2.2 (hab e' he' hr)

theorem MS.pre {s s0 s' : St} (h : MS s0 s') (h1 : s0.execs = s.execs) (h2 : s0.inflight = s.inflight)
    (h3 : s0.cancelQ = s.cancelQ) (h4 : s0.respQ = s.respQ) (h5 : s0.t.inbound = s.t.inbound) : MS s s' :=
  (MS.of_frame h1 h2 h3 h4 h5).trans h

theorem ms_emit (s : St) (o : Obs) : MS s (emit s o) := MS.of_frame rfl rfl rfl rfl rfl

theorem ms_updExec (s : St) (r : Nat) (f : Exec → Exec) (hf : Gm f) : MS s (updExec s r f) := by
  refine ⟨⟨fun e => if e.rid == r then f e else e, rfl, fun e => ?_⟩, fun en' h => ⟨en', h, rfl, rfl, Nat.le_refl _⟩,
    fun i h => h, fun p h => h, rfl, fun en h => Or.inl ⟨en, h, rfl⟩⟩
  simp only; split
  · exact hf e
  · exact Gm.id e

theorem ms_wakeServer (s : St) : MS s (wakeServer s) :=
  MS.of_frame (by simp) (by simp) (by simp) (by simp) (by simp)

theorem ms_wakeExec (s : St) (r : Nat) : MS s (wakeExec s r) := by
  unfold wakeExec; repeat' split
  all_goals first
    | exact MS.refl s
    | exact (ms_updExec s r (fun e => { e with woken := true }) (fun e => ⟨rfl, rfl, rfl, fun h => h, fun h => h⟩)).trans
        (ms_emit _ _)

theorem ms_abortExec (s : St) (r : Nat) : MS s (abortExec s r) := by
  unfold abortExec; split
  · exact MS.refl s
  · simp only
    have h1 : MS s (updExec s r (fun e => { e with aborted := true, abortWaker := false })) :=
      ms_updExec s r _ (fun e => ⟨rfl, rfl, rfl, fun h => h, fun _ => rfl⟩)
    split
    · exact h1.trans (ms_wakeExec _ r)
    · exact h1

theorem ms_removeTimer (s : St) (k : Nat) : MS s (removeTimer s k) :=
  MS.of_frame (by simp) (by simp) (by simp) (by simp) (by simp)

theorem Ab.ms {r : Nat} {s s' : St} (h : Ab r s) (hm : MS s s') : Ab r s' := by
  obtain ⟨g, e, i⟩ := hm.ex
  intro e' he' hr
  rw [e] at he'
  obtain ⟨e0, he0, rfl⟩ := List.mem_map.mp he'
  rw [(i e0).1] at hr
  exact (i e0).2.2.2.2 (h e0 he0 hr)

/-- `cancel_request` / the expiry of a timer: the entries with the id go, the execution of the one found is aborted -/
theorem ms_forget_abort {s : St} (hnd : (s.inflight.map (·.id)).Nodup) (id : Nat) (en : SEntry)
    (hf : findEntry s id = some en) (q : DelayQ) :
    MS s (abortExec { s with timers := q, inflight := s.inflight.filter (·.id != id) } en.rid) := by
  obtain ⟨hen, hid⟩ := findEntry_some hf
  have hm := ms_abortExec { s with timers := q, inflight := s.inflight.filter (·.id != id) } en.rid
  refine ⟨hm.ex, ?_, hm.cq, hm.rq, hm.inb, ?_⟩
  · intro en' h'
    obtain ⟨en0, h0, a1, a2, a3⟩ := hm.ents en' h'
    exact ⟨en0, (List.mem_filter.mp h0).1, a1, a2, a3⟩
  · intro en0 h0
    by_cases hc : en0.id = id
    · have : en0 = en := eq_of_map_nodup (·.id) hnd h0 hen (hc.trans hid.symm)
      subst this
      exact Or.inr (Ab.of_abortExec _ _)
    · rcases hm.gone en0 (List.mem_filter.mpr ⟨h0, by simpa using hc⟩) with h1 | h1
      · exact Or.inl h1
      · exact Or.inr h1


theorem ms_rearm {s s2 : St} {now : Nat} {en : SEntry} (hnd : (s.inflight.map (·.id)).Nodup) (hen : en ∈ s.inflight)
    (h0 : restOf now en ≠ 0) (hr : rearm s now en = some s2) : MS s s2 := by
  obtain ⟨q, key, w, _, rfl⟩ := rearm_some hr
  have hex : (if w = true then wakeServer s else s).execs = s.execs := by cases w <;> simp
  have hcq : (if w = true then wakeServer s else s).cancelQ = s.cancelQ := by cases w <;> simp
  have hrq : (if w = true then wakeServer s else s).respQ = s.respQ := by cases w <;> simp
  have ht : (if w = true then wakeServer s else s).t = s.t := by cases w <;> simp
  refine ⟨⟨id, by simp [hex], Gm.id⟩, ?_, fun i h => by rw [← hcq]; exact h, fun p h => by rw [← hrq]; exact h,
    by show (if w = true then wakeServer s else s).t.inbound = _; rw [ht], ?_⟩
  · intro en' h'
    obtain ⟨x, hx, rfl⟩ := List.mem_map.mp h'
    refine ⟨x, hx, by simp, by simp, ?_⟩
    by_cases hc : x.id = en.id
    · have : x = en := eq_of_map_nodup (·.id) hnd hx hen hc
      subst this
      unfold rearmUpd
      rw [if_pos (by simp)]
      have h3 := clampTimeout_le_self (restOf now x)
      have hrest : restOf now x = x.remainder - (now - x.dueAt) := rfl
      simp only
      omega
    · rw [rearmUpd_ne hc]; exact Nat.le_refl _
  · intro en0 h0'
    exact Or.inl ⟨rearmUpd en.id key now en0, List.mem_map_of_mem h0', by simp⟩

theorem ms_expireStep {now : Nat} {s : St} (h : TInv now s) : MS s (expireStep s now).1 := by
  have hs := expireStep_shape s now
  revert hs; generalize expireStep s now = p; intro hs
  obtain ⟨s', r⟩ := p
  dsimp only at hs ⊢
  cases hs with
  | idleNone q hp => exact MS.of_frame rfl rfl rfl rfl rfl
  | idlePending q hp => exact MS.of_frame rfl rfl rfl rfl rfl
  | orphan q e hp hf => exact MS.of_frame rfl rfl rfl rfl rfl
  | abort q e en hp hf h0 => exact ms_forget_abort h.ids e.val en hf q
  | rearmed q e en s2 hp hf h0 hr =>
    have hen : en ∈ s.inflight := (findEntry_some hf).1
    exact (ms_rearm (s := { s with timers := q }) h.ids hen h0 hr).pre rfl rfl rfl rfl rfl
  | panicked q e en hp hf h0 hr => exact MS.of_frame rfl rfl rfl rfl rfl

theorem ms_pollExpired {now : Nat} {s : St} (h : TInv now s) : MS s (pollExpired s now).1 := by
  have := pollExpired_ind (P := fun s1 => TInv now s1 ∧ MS s s1) now
    (fun s1 h1 => ⟨h1.1.of_sim rfl rfl (ExecsSim.refl _), h1.2.trans (ms_emit _ _)⟩)
    (fun s1 h1 => ⟨h1.1.expireStep, h1.2.trans (ms_expireStep h1.1)⟩) s ⟨h, MS.refl s⟩
  exact this.2

theorem ms_cancelRequest {now : Nat} {s : St} (h : TInv now s) (id : Nat) : MS s (cancelRequest s id).1 := by
  unfold cancelRequest
  split
  · exact MS.refl s
  · next e hf =>
    exact (ms_forget_abort h.ids id e hf s.timers).trans (ms_removeTimer _ _)

theorem ms_foldl_abort (es : List SEntry) (s : St) : MS s (es.foldl (fun s e => abortExec s e.rid) s) := by
  induction es generalizing s with
  | nil => exact MS.refl s
  | cons e es ih => exact (ms_abortExec s e.rid).trans (ih _)

theorem ab_foldl_abort (es : List SEntry) (s : St) : ∀ en ∈ es, Ab en.rid (es.foldl (fun s e => abortExec s e.rid) s) := by
  induction es generalizing s with
  | nil => intro en h; cases h
  | cons e es ih =>
    intro en hen
    rcases List.mem_cons.mp hen with rfl | hen'
    · exact Ab.ms (Ab.of_abortExec s en.rid) (ms_foldl_abort es _)
    · exact ih _ en hen'

theorem ms_foldl_wake (ws : List Nat) (s : St) : MS s (ws.foldl wakeExec s) := by
  induction ws generalizing s with
  | nil => exact MS.refl s
  | cons w ws ih => exact (ms_wakeExec s w).trans (ih _)

theorem ms_dropServer (s : St) : MS s (dropServer s) := by
  unfold dropServer
  split
  · exact ms_emit s _
  · simp only
    have h1 : MS s (s.inflight.foldl (fun s e => abortExec s e.rid) { s with dropped := true, woken := false }) :=
      (ms_foldl_abort _ _).pre rfl rfl rfl rfl rfl
    have ha := ab_foldl_abort s.inflight { s with dropped := true, woken := false }
    generalize (s.inflight.foldl (fun s e => abortExec s e.rid) { s with dropped := true, woken := false }) = s1 at h1 ha ⊢
    have h2 : MS s1 (s1.rqWaiters.foldl wakeExec { s1 with rqWaiters := [] }) := (ms_foldl_wake _ _).pre rfl rfl rfl rfl rfl
    generalize (s1.rqWaiters.foldl wakeExec { s1 with rqWaiters := [] }) = s2 at h2 ⊢
    have h12 := h1.trans h2
    refine ⟨h12.ex, fun en' h => (by cases h), fun i h => (by cases h), fun p h => (by cases h), h12.inb, fun en hen => Or.inr ?_⟩
    exact Ab.of_execs (Ab.ms (ha en hen) h2) rfl

/-! ## from the states to the views -/

theorem X_ms {rest : List Nat} {B : BW} {s s' : St} (hm : MS s s') (h : X rest B (mv s)) : X rest B (mv s') := by
  obtain ⟨g, hg, hid⟩ := hm.ex
  refine h.model s.execs ye (ye ∘ g) rfl (by show s'.execs.map ye = _; rw [hg, List.map_map]) ?_ ?_ ?_ ?_ hm.inb ?_
  · intro a _
    obtain ⟨h1, h2, h3, h4, h5⟩ := hid a
    exact ⟨h1, h2, h3, h4, h5⟩
  · intro en' hen'
    obtain ⟨e0, he0, rfl⟩ := List.mem_map.mp hen'
    obtain ⟨en, hen, a1, a2, a3⟩ := hm.ents e0 he0
    exact ⟨ze en, List.mem_map_of_mem hen, a1, a2, a3⟩
  · intro i hi; exact Or.inl (hm.cq i hi)
  · intro i hi
    obtain ⟨p, hp, rfl⟩ := List.mem_map.mp hi
    exact Or.inl (List.mem_map_of_mem (hm.rq p hp))
  · intro a ha ⟨en, hen, hr⟩
    obtain ⟨en0, hen0, rfl⟩ := List.mem_map.mp hen
    rcases hm.gone en0 hen0 with ⟨en', hen', hr'⟩ | hab
    · exact Or.inl ⟨ze en', List.mem_map_of_mem hen', hr'.trans hr⟩
    · refine Or.inr (Or.inl ?_)
      exact hab (g a) (by rw [hg]; exact List.mem_map_of_mem ha) ((hid a).1.trans hr.symm)

/-- the model's own facts the coupling `K` carries, on states -/
theorem K_eid_st {now : Nat} {pend : Option (Nat × Nat)} {B : BV} {s : St} (h : K now pend B (sview s)) :
    ∀ en ∈ s.inflight, ∀ e ∈ s.execs, e.rid = en.rid → e.id = en.id := by
  intro en hen e he hr
  exact h.eid (SEntry.ir en) (List.mem_map_of_mem hen) (xe e) (List.mem_map_of_mem he) hr

theorem K_eid_mv {now : Nat} {pend : Option (Nat × Nat)} {B : BV} {s : St} (h : K now pend B (sview s)) :
    ∀ en ∈ (mv s).ents, ∀ x ∈ (mv s).execs, x.rid = en.rid → x.id = en.id := by
  intro en hen x hx hr
  obtain ⟨en0, hen0, rfl⟩ := List.mem_map.mp hen
  obtain ⟨e, he, rfl⟩ := List.mem_map.mp hx
  exact K_eid_st h en0 hen0 e he hr

/-- entries are forgotten whose executions are finished or aborted (a queued guard cancellation, a response) -/
theorem X_removeRequest {rest : List Nat} {B : BW} {s : St}
    (heid : ∀ en ∈ s.inflight, ∀ e ∈ s.execs, e.rid = en.rid → e.id = en.id) (h : X rest B (mv s)) (id : Nat)
    (hdead : ∀ e ∈ s.execs, e.id = id → e.aborted = true ∨ execLive e = false) :
    X rest B (mv (removeRequest s id).1) := by
  rcases removeRequest_inflight s id with ⟨_, he, _⟩ | ⟨_, hi⟩
  · rw [he]; exact h
  · refine h.model s.execs ye ye rfl (by show (removeRequest s id).1.execs.map ye = _; simp) ?_ ?_ ?_ ?_ (by show (removeRequest s id).1.t.inbound = s.t.inbound; simp) ?_
    · intro a _; exact ⟨rfl, rfl, rfl, fun h => h, fun h => h⟩
    · intro en' hen'
      obtain ⟨e0, he0, rfl⟩ := List.mem_map.mp hen'
      rw [hi] at he0
      exact ⟨ze e0, List.mem_map_of_mem (List.mem_filter.mp he0).1, rfl, rfl, Nat.le_refl _⟩
    · intro i hi'
      left
      have : (removeRequest s id).1.cancelQ = s.cancelQ := by simp
      show i ∈ s.cancelQ
      rw [← this]; exact hi'
    · intro i hi'
      left
      have : (removeRequest s id).1.respQ = s.respQ := by simp
      show i ∈ s.respQ.map (·.1)
      rw [← this]; exact hi'
    · intro a ha ⟨en, hen, hr⟩
      obtain ⟨en0, hen0, rfl⟩ := List.mem_map.mp hen
      by_cases hc : en0.id = id
      · have := heid en0 hen0 a ha hr.symm
        rcases hdead a ha (this.trans hc) with h1 | h1
        · exact Or.inr (Or.inl h1)
        · exact Or.inr (Or.inr h1)
      · refine Or.inl ⟨ze en0, ?_, hr⟩
        show ze en0 ∈ (removeRequest s id).1.inflight.map ze
        rw [hi]
        exact List.mem_map_of_mem (List.mem_filter.mpr ⟨hen0, by simpa using hc⟩)

/-! ## the walked invariant -/

def N (b0 : Book) (now : Nat) (pend : Option (Nat × Nat)) (rest : List Nat) (s : St) : Prop :=
  (bo b0 s.obs).spun = true ∨
    (K now pend (bview (bo b0 s.obs)) (sview s) ∧ X rest (bw (bo b0 s.obs)) (mv s))

theorem N.toJ {b0 : Book} {now : Nat} {pend : Option (Nat × Nat)} {rest : List Nat} {s : St} (h : N b0 now pend rest s) :
    J b0 now pend s := h.imp id And.left

/-- the `checkC06Rest` verdict on one observation -/
def chk06 (b : Book) (o : Obs) : Option String := (checkC06Rest b () (.obs o)).2

/-- every observation so far passed the check (or the monitor is past a spin / panic) -/
def CK (chk : Book → Obs → Option String) (b0 : Book) : List Obs → Prop
  | [] => True
  | o :: l => CK chk b0 l ∧ ((bo b0 l).spun = true ∨ chk (bo b0 l) o = none)

theorem CK.append {chk : Book → Obs → Option String} {b0 : Book} {l : List Obs} (h : CK chk b0 l) (l' : List Obs)
    (hl : ∀ o ∈ l', ∀ b, chk b o = none) : CK chk b0 (l' ++ l) := by
  induction l' with
  | nil => exact h
  | cons o l' ih =>
    exact ⟨ih (fun o' ho' => hl o' (List.mem_cons_of_mem _ ho')), Or.inr (hl o (List.mem_cons_self ..) _)⟩

theorem chk06_other (b : Book) (o : Obs) (h1 : ∀ r t, o ≠ .handler r .polled t)
    (h2 : ∀ ep id res ok, o ≠ .tSend ep (.response id res) ok) : chk06 b o = none := by
  unfold chk06
  cases o with
  | handler r ev t =>
    cases ev with
    | polled => exact absurd rfl (h1 r t)
    | _ => rfl
  | tSend ep m ok =>
    cases m with
    | response id res => exact absurd rfl (h2 ep id res ok)
    | _ => rfl
  | _ => rfl

theorem chk06_mild (o : Obs) (h1 : isCore o = false) (h2 : isOut o = false) (b : Book) : chk06 b o = none := by
  refine chk06_other b o ?_ ?_
  · intro r t h; rw [h] at h2; cases h2
  · intro ep id res ok h; rw [h] at h1; cases h1

structure NN (b0 : Book) (now : Nat) (pend : Option (Nat × Nat)) (rest : List Nat) (s : St) : Prop where
  n : N b0 now pend rest s
  ck : CK chk06 b0 s.obs

theorem CK.extW {b0 : Book} {s s' : St} (hx : ExtW s s') (h : CK chk06 b0 s.obs) : CK chk06 b0 s'.obs := by
  obtain ⟨l, e, p⟩ := hx
  rw [e]
  exact h.append l (fun o ho b => chk06_mild o (p o ho).1 (p o ho).2 b)

/-- a part of the model that reads nothing and answers nothing runs -/
theorem NN_model {b0 : Book} {now : Nat} {pend pend' : Option (Nat × Nat)} {rest : List Nat} {s s' : St} (hx : ExtW s s')
    (hJ : J b0 now pend s → J b0 now pend' s')
    (hX : K now pend (bview (bo b0 s.obs)) (sview s) → X rest (bw (bo b0 s.obs)) (mv s) →
      X rest (bw (bo b0 s.obs)) (mv s'))
    (h : NN b0 now pend rest s) : NN b0 now pend' rest s' := by
  refine ⟨?_, h.ck.extW hx⟩
  rcases bo_extW b0 hx with hs | ⟨hv, hs, hle⟩
  · exact Or.inl hs
  · rcases h.n with h1 | ⟨hK, hXs⟩
    · exact Or.inl (hs.trans h1)
    · rcases hJ (Or.inr hK) with h2 | h2
      · exact Or.inl h2
      · exact Or.inr ⟨h2, (hX hK hXs).le hle⟩

theorem NN_qm {b0 : Book} {now : Nat} {pend : Option (Nat × Nat)} {rest : List Nat} {s s' : St} (hq : QM s s')
    (h : NN b0 now pend rest s) : NN b0 now pend rest s' :=
  NN_model hq.1 (J_same hq.1.ext (sview_of_mv hq.2)) (fun _ hX => by rw [hq.2]; exact hX) h

theorem NN_ms {b0 : Book} {now : Nat} {pend pend' : Option (Nat × Nat)} {rest : List Nat} {s s' : St} (hx : ExtW s s')
    (hJ : J b0 now pend s → J b0 now pend' s') (hm : MS s s') (h : NN b0 now pend rest s) : NN b0 now pend' rest s' :=
  NN_model hx hJ (fun _ hX => X_ms hm hX) h

/-! ## the primitives of the read side -/

theorem extW_removeRequest (s : St) (id : Nat) : ExtW s (removeRequest s id).1 :=
  extW_of (qsx_removeRequest s id) (flt_removeRequest isOut_pollQuiet s id)

theorem extW_pollExpired (s : St) (now : Nat) : ExtW s (pollExpired s now).1 :=
  extW_of (ext_pollExpired s now) (flt_pollExpired isOut_pollQuiet s now)

theorem extW_cancelRequest (s : St) (id : Nat) : ExtW s (cancelRequest s id).1 :=
  extW_of (ext_cancelRequest s id) (flt_cancelRequest isOut_pollQuiet s id)

theorem extW_startRequest (s : St) (now id d : Nat) (tr : Trace) (b : Nat) : ExtW s (startRequest s now id d tr b).1 := by
  refine extW_of ?_ (flt_startRequest isOut_pollQuiet s now id d tr b)
  rcases startRequest_eff s now id d tr b with ⟨_, h2⟩ | ⟨ex, _, _, _, _, hx, _, _⟩
  · exact h2.1
  · exact hx

theorem extW_dropServer (s : St) : ExtW s (dropServer s) :=
  extW_of (ext_dropServer s) (fx_dropServer isOut_wakeQuiet s)

theorem ms_setCq (s : St) (l : List Nat) (h : ∀ i ∈ l, i ∈ s.cancelQ) : MS s { s with cancelQ := l } :=
  ⟨⟨id, by simp, Gm.id⟩, fun en' h' => ⟨en', h', rfl, rfl, Nat.le_refl _⟩, h, fun p h' => h', rfl,
    fun en h' => Or.inl ⟨en, h', rfl⟩⟩

theorem ms_setRq (s : St) (l : List (Nat × Res)) (h : ∀ p ∈ l, p ∈ s.respQ) : MS s { s with respQ := l } :=
  ⟨⟨id, by simp, Gm.id⟩, fun en' h' => ⟨en', h', rfl, rfl, Nat.le_refl _⟩, fun i h' => h', h, rfl,
    fun en h' => Or.inl ⟨en, h', rfl⟩⟩

theorem dead_of_cq {rest : List Nat} {B : BW} {s : St} (h : X rest B (mv s)) {i : Nat} (hi : i ∈ s.cancelQ) :
    ∀ e ∈ s.execs, e.id = i → e.aborted = true ∨ execLive e = false := by
  intro e he hei
  obtain ⟨x, hx, hxi, hl⟩ := h.cq i hi
  have : ye e = x := h.id_inj (List.mem_map_of_mem he) hx (hei.trans hxi.symm)
  right
  rw [← this] at hl; exact hl

theorem dead_of_rq {rest : List Nat} {B : BW} {s : St} (h : X rest B (mv s)) {p : Nat × Res} (hp : p ∈ s.respQ) :
    ∀ e ∈ s.execs, e.id = p.1 → e.aborted = true ∨ execLive e = false := by
  intro e he hei
  obtain ⟨x, hx, hxi, hl⟩ := h.rq p.1 (List.mem_map_of_mem hp)
  have : ye e = x := h.id_inj (List.mem_map_of_mem he) hx (hei.trans hxi.symm)
  right
  rw [← this] at hl; exact hl

variable {b0 : Book} {now : Nat} {rest : List Nat}

theorem NN_bpCancel {pend : Option (Nat × Nat)} {s : St} (h : NN b0 now pend rest s) :
    NN b0 now pend rest (bpCancel s).1 := by
  have hx : ExtW s (bpCancel s).1 := by
    unfold bpCancel; split
    · exact (extW_removeRequest _ _).pre rfl
    · exact ExtW.of_eq rfl
  refine NN_model hx J_bpCancel (fun hK hX => ?_) h
  unfold bpCancel
  split
  · next i l hq =>
    have h0 : X rest _ (mv { s with cancelQ := l }) :=
      X_ms (ms_setCq s l (fun j hj => by rw [hq]; exact List.mem_cons_of_mem _ hj)) hX
    exact X_removeRequest (s := { s with cancelQ := l }) (K_eid_st hK) h0 i
      (dead_of_cq hX (by rw [hq]; exact List.mem_cons_self ..))
  · exact hX

theorem NN_pollExpired {pend : Option (Nat × Nat)} {s : St} (ht : TInv now s) (h : NN b0 now pend rest s) :
    NN b0 now pend rest (pollExpired s now).1 :=
  NN_ms (extW_pollExpired s now) (J_pollExpired ht) (ms_pollExpired ht) h

/-! ### the transport read -/

theorem sweepOne_failed (b : Book) : b.sweepOne.failed = b.failed := by
  rw [sweepOne_eq]
  have h1 : (so1 b).failed = b.failed := by unfold so1; split <;> rfl
  split
  · exact h1
  · split
    · exact h1
    · exact h1

theorem bw_preRead (b : Book) : BW.le (bw b) (bw (preRead b)) := by
  unfold preRead
  split
  · obtain ⟨h1, h2, _, _, h5, _, _⟩ :=
      sweepOne_spec ({ b with justRead := none, sawT := true, prevReadyP := false } : Book)
    refine ⟨h1, ?_, fun p hp => h5.subset hp, fun hf => ?_⟩
    · show (Book.sweepOne _).execs.map wb = _
      rw [h2]; rfl
    · show (Book.sweepOne _).failed = true
      rw [sweepOne_failed]; exact hf
  · exact ⟨rfl, rfl, fun _ h => h, id⟩

theorem bw_untrack (b : Book) (id : Nat) : BW.le (bw b) (bw (b.untrack id)) :=
  ⟨rfl, rfl, fun p hp => (List.mem_filter.mp hp).1, fun h => h⟩

theorem bw_step_tNext (b : Book) (ep : TaskId) (r : NextRes) : BW.le (bw b) (bw (b.step (.obs (.tNext ep r)))) := by
  rw [step_tNext_eq]
  refine (bw_preRead b).trans ?_
  cases r with
  | item m =>
    cases m with
    | request id d tr body => exact ⟨rfl, rfl, fun _ h => h, fun h => h⟩
    | cancel id tr =>
      simp only
      generalize (preRead b).table.reverse.find? (fun p : Nat × Nat => p.1 == id) = o
      cases o with
      | none => exact bw_untrack _ id
      | some p =>
        obtain ⟨i, r⟩ := p
        simp only
        refine BW.le.trans ?_ (bw_untrack _ id)
        have := updExec_wb (preRead b) r (fun e => { e with cancelRead := true }) (fun e => rfl)
        rw [this]
        exact BW.le.refl _
    | response id res => exact BW.le.refl _
  | pending => exact BW.le.refl _
  | err => exact ⟨rfl, rfl, fun _ h => h, fun _ => rfl⟩
  | eof => exact ⟨rfl, rfl, fun _ h => h, fun h => h⟩

theorem pollNext_inb (t : SimT) :
    (t.pollNext.1.inbound = t.inbound ∧ ∀ m, t.pollNext.2 ≠ .item m) ∨
    (∃ i, t.inbound = i :: t.pollNext.1.inbound ∧ ∀ m, t.pollNext.2 = .item m → i = .msg m) := by
  rcases SimT.pollNext_cases t with ⟨_, he⟩ | ⟨_, u, _, hi, he⟩
  · left; rw [he]; exact ⟨rfl, fun m h => by cases h⟩
  · rw [he, ← hi]
    generalize hl : u.inbound = l
    cases l with
    | nil =>
      left
      simp only
      split
      · refine ⟨?_, fun m h => by cases h⟩
        exact hl
      · exact ⟨rfl, fun m h => by cases h⟩
    | cons a l =>
      right
      cases a with
      | msg m => exact ⟨.msg m, rfl, fun m' h => by cases h; rfl⟩
      | err => exact ⟨.err, rfl, fun m' h => by cases h⟩

theorem tNext_nf (s : St) (h : s.readFused = false) :
    (tNext s).1.t = s.t.pollNext.1 ∧ (tNext s).2 = s.t.pollNext.2 := by
  unfold tNext
  rw [if_neg (by simp [h])]
  constructor
  · simp only; split <;> rfl
  · rfl

theorem mv_tNext (s : St) : mv (tNext s).1 = { mv s with inb := (tNext s).1.t.inbound } := by
  unfold mv; simp

theorem X_tNext {B : BW} {s : St} (hf : s.readFused = false) (h : X rest B (mv s)) :
    X rest B (mv (tNext s).1) ∧
    ∀ i d tr b, (tNext s).2 = .item (.request i d tr b) →
      ((mv (tNext s).1).execs.map (·.id) ++ i :: (inbIds (mv (tNext s).1).inb ++ rest)).Nodup := by
  obtain ⟨ht, hr⟩ := tNext_nf s hf
  rw [mv_tNext, ht, hr]
  rcases pollNext_inb s.t with ⟨h1, h2⟩ | ⟨i0, h1, h2⟩
  · rw [h1]
    exact ⟨h, fun i d tr b hc => absurd hc (h2 _)⟩
  · obtain ⟨hX, hside⟩ := h.read i0 s.t.pollNext.1.inbound h1
    refine ⟨hX, fun i d tr b hc => ?_⟩
    exact hside i d tr b (h2 _ hc)

theorem NN_tNext_other {pend : Option (Nat × Nat)} {s : St}
    (hr : ∀ id tr, (tNext s).2 ≠ .item (.cancel id tr)) (h : NN b0 now pend rest s) :
    NN b0 now pend rest (tNext s).1 ∧
    ∀ i d tr b, (tNext s).2 = .item (.request i d tr b) → (bo b0 (tNext s).1.obs).spun = true ∨
      ((mv (tNext s).1).execs.map (·.id) ++ i :: (inbIds (mv (tNext s).1).inb ++ rest)).Nodup := by
  cases hf : s.readFused with
  | true =>
    rw [tNext_fused_eq s hf]
    exact ⟨h, fun i d tr b hc => by cases hc⟩
  | false =>
    have hobs := tNext_obs s hf
    have hck : CK chk06 b0 (tNext s).1.obs := by
      rw [hobs]
      exact ⟨h.ck, Or.inr (chk06_other _ _ (fun _ _ hc => by cases hc) (fun _ _ _ _ hc => by cases hc))⟩
    rcases h.n with h1 | ⟨hK, hX⟩
    · have hs : (bo b0 (tNext s).1.obs).spun = true := by rw [hobs, bo_cons]; exact step_spun_mono _ _ h1
      exact ⟨⟨Or.inl hs, hck⟩, fun _ _ _ _ _ => Or.inl hs⟩
    · obtain ⟨hX1, hside⟩ := X_tNext hf hX
      have hle : BW.le (bw (bo b0 s.obs)) (bw (bo b0 (tNext s).1.obs)) := by
        rw [hobs, bo_cons]; exact bw_step_tNext _ _ _
      rcases J_tNext_other hr (Or.inr hK) with h2 | h2
      · exact ⟨⟨Or.inl h2, hck⟩, fun _ _ _ _ _ => Or.inl h2⟩
      · exact ⟨⟨Or.inr ⟨h2, hX1.le hle⟩, hck⟩, fun i d tr b hc => Or.inr (hside i d tr b hc)⟩

theorem NN_cancel {s : St} (ht : TInv now (tNext s).1) (id : Nat) (tr : Trace)
    (hr : (tNext s).2 = .item (.cancel id tr)) (h : NN b0 now none rest s) :
    NN b0 now none rest (cancelRequest (tNext s).1 id).1 := by
  have hf : s.readFused = false := by
    cases hf : s.readFused with
    | false => rfl
    | true => rw [tNext_fused_eq s hf] at hr; cases hr
  have hobs := tNext_obs s hf
  have hck3 : CK chk06 b0 (tNext s).1.obs := by
    rw [hobs]
    exact ⟨h.ck, Or.inr (chk06_other _ _ (fun _ _ hc => by cases hc) (fun _ _ _ _ hc => by cases hc))⟩
  have hx := extW_cancelRequest (tNext s).1 id
  refine ⟨?_, hck3.extW hx⟩
  rcases bo_extW b0 hx with hs | ⟨_, hs, hle5⟩
  · exact Or.inl hs
  · rcases h.n with h1 | ⟨hK, hX⟩
    · left
      rw [hs, hobs, bo_cons]; exact step_spun_mono _ _ h1
    · rcases J_cancel id tr hr (Or.inr hK) with h2 | h2
      · exact Or.inl h2
      · refine Or.inr ⟨h2, ?_⟩
        have hle : BW.le (bw (bo b0 s.obs)) (bw (bo b0 (tNext s).1.obs)) := by
          rw [hobs, bo_cons]; exact bw_step_tNext _ _ _
        exact (X_ms (ms_cancelRequest ht id) ((X_tNext hf hX).1.le hle)).le hle5

/-! ### a request is started -/

theorem startRequest_effT (s : St) (now id d : Nat) (tr : Trace) (b : Nat) :
    ((startRequest s now id d tr b).2 = none ∧ QM s (startRequest s now id d tr b).1) ∨
    (∃ ex, (startRequest s now id d tr b).2 = some ex ∧ ex.rid = s.execs.length ∧ ex.id = id ∧
      ∃ z : ZE, z.id = id ∧ z.rid = s.execs.length ∧ now ≤ z.due ∧
      (mv (startRequest s now id d tr b).1).execs = (mv s).execs ++ [⟨s.execs.length, id, d, none, true, false, false⟩] ∧
      (mv (startRequest s now id d tr b).1).ents = (mv s).ents ++ [z] ∧
      (mv (startRequest s now id d tr b).1).cq = (mv s).cq ∧ (mv (startRequest s now id d tr b).1).rq = (mv s).rq ∧
      (mv (startRequest s now id d tr b).1).inb = (mv s).inb) := by
  unfold startRequest
  split
  · exact Or.inl ⟨rfl, QM.refl s⟩
  · split
    · exact Or.inl ⟨rfl, (QM.emit _ _ rfl rfl).pre rfl rfl⟩
    · next q key woke hq =>
      right
      simp only
      cases woke
      · exact ⟨_, rfl, rfl, rfl, ⟨id, s.execs.length, now + clampTimeout (d - now), (d - now) - clampTimeout (d - now)⟩, rfl, rfl, Nat.le_add_right _ _,
          by simp [mv, ye, execLive], by simp [mv, ze], rfl, rfl, rfl⟩
      · simp only [if_true]
        exact ⟨_, rfl, by simp, rfl, ⟨id, s.execs.length, now + clampTimeout (d - now), (d - now) - clampTimeout (d - now)⟩, rfl, rfl, Nat.le_add_right _ _,
          by simp [mv, ye, execLive], by simp [mv, ze], by simp [mv], by simp [mv], by simp [mv]⟩

def PostStart (b0 : Book) (now : Nat) (rest : List Nat) : St × Option Exec → Prop
  | (s', some ex) => NN b0 now (some (ex.rid, ex.id)) rest s'
  | (s', none) => NN b0 now none rest s'

theorem K_fresh {pend : Option (Nat × Nat)} {B : BV} {s : St} (h : K now pend B (sview s)) :
    (∀ x ∈ (mv s).execs, x.rid ≠ s.execs.length) ∧ (∀ en ∈ (mv s).ents, en.rid ≠ s.execs.length) := by
  have hlen : (sview s).execs.length = s.execs.length := by simp [sview]
  constructor
  · intro x hx
    obtain ⟨e, he, rfl⟩ := List.mem_map.mp hx
    have := h.ridLt (xe e) (List.mem_map_of_mem he)
    rw [hlen] at this
    exact Nat.ne_of_lt this
  · intro en hen
    obtain ⟨e, he, rfl⟩ := List.mem_map.mp hen
    have := h.iridLt (SEntry.ir e) (List.mem_map_of_mem he)
    rw [hlen] at this
    exact Nat.ne_of_lt this

theorem NN_startRequest {s : St} (id d : Nat) (tr : Trace) (b : Nat) (h : NN b0 now none rest s)
    (hnd : (bo b0 s.obs).spun = true ∨ ((mv s).execs.map (·.id) ++ id :: (inbIds (mv s).inb ++ rest)).Nodup) :
    PostStart b0 now rest (startRequest s now id d tr b) := by
  rcases startRequest_effT s now id d tr b with ⟨h1, h2⟩ | ⟨ex, h1, hr, hi, z, hz1, hz2, _, he, hen, hcq, hrq, hinb⟩
  · rw [show startRequest s now id d tr b = ((startRequest s now id d tr b).1, none) from Prod.ext rfl h1]
    exact NN_qm h2 h
  · rw [show startRequest s now id d tr b = ((startRequest s now id d tr b).1, some ex) from Prod.ext rfl h1]
    show NN b0 now (some (ex.rid, ex.id)) rest _
    have hx := extW_startRequest s now id d tr b
    have hJ : J b0 now none s → J b0 now (some (ex.rid, ex.id)) (startRequest s now id d tr b).1 := by
      intro hJ
      have := J_startRequest id d tr b hJ
      rw [h1] at this
      exact this
    rcases hnd with hs | hnd
    · refine ⟨?_, h.ck.extW hx⟩
      rcases bo_extW b0 hx with h3 | ⟨_, h3, _⟩
      · exact Or.inl h3
      · exact Or.inl (h3.trans hs)
    · refine NN_model hx hJ (fun hK hX => ?_) h
      obtain ⟨hfx, hfe⟩ := K_fresh hK
      exact hX.start s.execs.length id _ z ⟨rfl, rfl, rfl⟩ ⟨hz1, hz2⟩ he hen hcq hrq hinb hnd hfx hfe

/-! ### one iteration of the channel's loop, the loop -/

theorem NN_bpOther {s2 : St} (hs : SInv false now s2) (h : NN b0 now none rest s2) :
    NN b0 now none rest (bpOther (tNext s2).1 (tNext s2).2).1 := by
  have ht3 : TInv now (tNext s2).1 := ((sinv_closed false now).tNext s2 hs).t
  cases hnx : (tNext s2).2 with
  | item m =>
    cases m with
    | cancel id tr => exact NN_cancel ht3 id tr hnx h
    | request id d tr b => exact (NN_tNext_other (by rw [hnx]; intro id tr h; cases h) h).1
    | response id res => exact (NN_tNext_other (by rw [hnx]; intro id tr h; cases h) h).1
  | pending => exact (NN_tNext_other (by rw [hnx]; intro id tr h; cases h) h).1
  | err => exact (NN_tNext_other (by rw [hnx]; intro id tr h; cases h) h).1
  | eof => exact (NN_tNext_other (by rw [hnx]; intro id tr h; cases h) h).1

def PostRdOT (b0 : Book) (now : Nat) (rest : List Nat) : St × Option (SPoll Exec) → Prop
  | (s', some (.some ex)) => NN b0 now (some (ex.rid, ex.id)) rest s'
  | (s', _) => NN b0 now none rest s'

def PostRdT (b0 : Book) (now : Nat) (rest : List Nat) : St × SPoll Exec → Prop
  | (s', .some ex) => NN b0 now (some (ex.rid, ex.id)) rest s'
  | (s', _) => NN b0 now none rest s'

theorem NN_bpStep {s : St} (hs : SInv false now s) (h : NN b0 now none rest s) :
    PostRdOT b0 now rest (bpStep s now) := by
  have h1 := NN_bpCancel h
  have hs1 : SInv false now (bpCancel s).1 := (sinv_closed false now).bpCancel s hs
  have h2 : NN b0 now none rest (bp2 s now) := NN_pollExpired hs1.t h1
  have hs2 : SInv false now (bp2 s now) := (sinv_closed false now).expire _ hs1
  have hreq : ∀ id d tr b, bpNx s now = .item (.request id d tr b) →
      PostStart b0 now rest (startRequest (bp3 s now) now id d tr b) := by
    intro id d tr b hn
    obtain ⟨hb3, hside⟩ := NN_tNext_other (s := bp2 s now)
      (by intro id tr h; unfold bpNx at hn; rw [hn] at h; cases h) h2
    exact NN_startRequest id d tr b hb3 (hside id d tr b hn)
  have ho := bpStep_out s now
  generalize bpStep s now = out at ho ⊢
  cases ho with
  | poisoned2 hp => exact h2
  | readErr hp hn =>
    exact (NN_tNext_other (s := bp2 s now) (by intro id tr h; unfold bpNx at hn; rw [hn] at h; cases h) h2).1
  | started id d tr b ex hp hn hs' =>
    have := hreq id d tr b hn
    rw [show startRequest (bp3 s now) now id d tr b = ((startRequest (bp3 s now) now id d tr b).1, some ex) from
      Prod.ext rfl hs'] at this
    exact this
  | startPanic id d tr b hp hn hs' hpo =>
    have := hreq id d tr b hn
    rw [show startRequest (bp3 s now) now id d tr b = ((startRequest (bp3 s now) now id d tr b).1, none) from
      Prod.ext rfl hs'] at this
    exact this
  | duplicate id d tr b hp hn hs' hpo =>
    have := hreq id d tr b hn
    rw [show startRequest (bp3 s now) now id d tr b = ((startRequest (bp3 s now) now id d tr b).1, none) from
      Prod.ext rfl hs'] at this
    exact this
  | otherPoisoned hp hn1 hn2 hpo => exact NN_bpOther hs2 h2
  | again hp hn1 hn2 hpo hc => exact NN_bpOther hs2 h2
  | closed hp hn1 hn2 hpo hc => exact NN_bpOther hs2 h2
  | pending hp hn1 hn2 hpo hc => exact NN_bpOther hs2 h2

theorem NN_basePollNext : ∀ (fuel : Nat) (s : St), SInv false now s → NN b0 now none rest s →
    PostRdT b0 now rest (basePollNext fuel s now) := by
  intro fuel
  induction fuel with
  | zero => intro s _ h; exact NN_qm (QM.emit s _ rfl rfl) h
  | succ n ih =>
    intro s hs h
    rw [basePollNext_succ]
    have hb := NN_bpStep hs h
    have hs' := (sinv_closed false now).bpStep s hs
    revert hb hs'
    generalize bpStep s now = p
    obtain ⟨s', r⟩ := p
    intro hb hs'
    cases r with
    | none => exact ih s' hs' hb
    | some r => cases r <;> exact hb

/-! ## the write side -/

theorem NN_armRead {pend : Option (Nat × Nat)} {s : St} (r : SPoll Exec) (h : NN b0 now pend rest s) :
    NN b0 now pend rest (armRead s r) := by
  refine NN_ms ?_ (J_qs (qs_armRead s r)) ?_ h
  · unfold armRead; split
    · exact ExtW.of_eq rfl
    · exact ExtW.refl s
  · unfold armRead; split
    · exact ms_updExec _ _ _ (fun e => ⟨rfl, rfl, rfl, fun h => h, fun h => h⟩)
    · exact MS.refl s

theorem tSend_obs_extT (s : St) (m : Msg) :
    ∃ s0, QM s s0 ∧ (tSend s m).1.obs = .tSend (tid s) m (tSend s m).2 :: s0.obs ∧ mv (tSend s m).1 = mv s0 := by
  refine ⟨emitViolations { s with t := (s.t.startSend m).1 } s.t.violations.length,
    (qm_emitViolations _ _).pre rfl (mv_setT s _ (by simp)), ?_, ?_⟩
  · unfold tSend; rfl
  · unfold tSend; rfl

theorem bw_step_tSend (b : Book) (ep : TaskId) (id : Nat) (res : Res) (ok : Bool) :
    BW.le (bw b) (bw (b.step (.obs (.tSend ep (.response id res) ok)))) := by
  cases ok
  · exact ⟨rfl, rfl, fun p hp => (List.mem_filter.mp hp).1, fun _ => rfl⟩
  · exact ⟨rfl, rfl, fun p hp => (List.mem_filter.mp hp).1, fun h => h⟩

theorem execOfResult_mem {b : Book} {id : Nat} {res : Res} {e : BExec} (h : b.execOfResult id res = some e) :
    e ∈ b.execs ∧ e.id = id := by
  unfold Book.execOfResult at h
  have h1 := List.mem_of_find?_eq_some h
  have h2 := List.find?_some h
  simp only [Bool.and_eq_true, beq_iff_eq] at h2
  exact ⟨List.mem_reverse.mp h1, h2.1⟩

/-- a response is accepted by the enforcement clause if no execution with its id has been seen to expire -/
theorem chk06_tSend (b : Book) (ep : TaskId) (id : Nat) (res : Res) (ok : Bool)
    (h : ∀ e ∈ b.execs, e.id = id → e.expiredSeen = false) : chk06 b (.tSend ep (.response id res) ok) = none := by
  unfold chk06
  simp only [checkC06Rest]
  split
  · next e tp hE hL =>
    obtain ⟨hm, hi⟩ := execOfResult_mem hE
    have hx := h e hm hi
    rw [if_neg (by rw [hx]; simp)]
  · rfl

theorem NN_baseStartSend {pend : Option (Nat × Nat)} {s : St} (id : Nat) (res : Res) (h : NN b0 now pend rest s)
    (hd : (bo b0 s.obs).spun = true ∨ ∀ x ∈ (mv s).execs, x.id = id → x.aborted = true ∨ x.live = false) :
    NN b0 now pend rest (baseStartSend s id res).1 := by
  have hJf := J_baseStartSend (pend := pend) (b0 := b0) (now := now) id res (s := s)
  unfold baseStartSend at hJf ⊢
  have hi := removeRequest_inflight s id
  have hxA := extW_removeRequest s id
  revert hJf hi hxA
  generalize hq : removeRequest s id = q
  obtain ⟨sA, f⟩ := q
  intro hJf hi hxA
  cases f with
  | false =>
    rcases hi with ⟨_, he, _⟩ | ⟨hc, _⟩
    · simp only at he ⊢; rw [he]; exact h
    · cases hc
  | true =>
    have hiA : sA.inflight = s.inflight.filter (·.id != id) := by
      rcases hi with ⟨hc, _⟩ | ⟨_, h2⟩
      · cases hc
      · exact h2
    simp only at hJf hxA ⊢
    -- an entry with the id was tracked
    have htr : findEntry s id ≠ none := by
      intro hn
      have : (removeRequest s id).2 = false := by unfold removeRequest; rw [hn]
      rw [hq] at this; cases this
    obtain ⟨s0, hq0, hobs, hv⟩ := tSend_obs_extT sA (.response id res)
    have hx0 : ExtW s s0 := hxA.trans hq0.1
    have hmvA : mv s0 = mv sA := hq0.2
    -- the book at `s0`
    have hb0 := bo_extW b0 hx0
    have hspun : (bo b0 s0.obs).spun = true → (bo b0 (tSend sA (.response id res)).1.obs).spun = true := by
      intro hs; rw [hobs, bo_cons]; exact step_spun_mono _ _ hs
    have hck0 : CK chk06 b0 s0.obs := h.ck.extW hx0
    -- X at `sA`, with the book at `s`
    have hXA : (bo b0 s.obs).spun = true ∨ (K now pend (bview (bo b0 s.obs)) (sview s) →
        X rest (bw (bo b0 s.obs)) (mv s) → X rest (bw (bo b0 s.obs)) (mv sA)) := by
      rcases hd with hs | hdead
      · exact Or.inl hs
      · right
        intro hK hX
        have := X_removeRequest (K_eid_st hK) hX id
          (fun e he hei => hdead (ye e) (List.mem_map_of_mem he) hei)
        rw [hq] at this; exact this
    refine ⟨?_, ?_⟩
    · rcases hb0 with hs | ⟨_, hs, hle0⟩
      · exact Or.inl (hspun hs)
      · rcases h.n with h1 | ⟨hK, hX⟩
        · exact Or.inl (hspun (hs.trans h1))
        · rcases hJf (Or.inr hK) with h2 | h2
          · exact Or.inl h2
          · rcases hXA with h3 | h3
            · exact Or.inl (hspun (hs.trans h3))
            · refine Or.inr ⟨h2, ?_⟩
              have hXA' := h3 hK hX
              rw [hv, hmvA]
              refine (hXA'.le hle0).le ?_
              rw [hobs, bo_cons]
              exact bw_step_tSend _ _ _ _ _
    · rw [hobs]
      refine ⟨hck0, ?_⟩
      rcases hb0 with hs | ⟨_, hs, hle0⟩
      · exact Or.inl hs
      · rcases h.n with h1 | ⟨hK, hX⟩
        · exact Or.inl (hs.trans h1)
        · right
          apply chk06_tSend
          intro e he hei
          cases hes : e.expiredSeen with
          | false => rfl
          | true =>
            exfalso
            have hmem : wb e ∈ (bw (bo b0 s.obs)).execs := by
              rw [← hle0.execs]; exact List.mem_map_of_mem he
            cases hfe : findEntry s id with
            | none => exact htr hfe
            | some en =>
              obtain ⟨hen, heni⟩ := findEntry_some hfe
              exact hX.expd (wb e) hmem hes (ze en) (List.mem_map_of_mem hen) (heni.trans hei.symm)

theorem mv_rqRelease_pop (s : St) (l : List (Nat × Res)) :
    (mv (rqRelease { s with respQ := l })).execs = (mv s).execs := by
  exact (congrArg MV.execs (qm_rqRelease { s with respQ := l }).2).trans rfl

theorem NN_pumpWrite {pend : Option (Nat × Nat)} {s : St} (rc : Bool) (h : NN b0 now pend rest s) :
    NN b0 now pend rest (pumpWrite s rc).1 := by
  unfold pumpWrite
  have h1 := NN_qm (qm_ensureWriteable s) h
  split
  · next s1 heq => rw [heq] at h1; exact NN_qm (qm_flushArm _ _) h1
  · next s1 a heq => rw [heq] at h1; exact h1
  · next s1 heq => rw [heq] at h1; exact h1
  · next s1 heq =>
    rw [heq] at h1
    split
    · next id res l hq =>
      have hms : MS s1 { s1 with respQ := l } :=
        ms_setRq s1 l (fun p hp => by rw [hq]; exact List.mem_cons_of_mem _ hp)
      have h1' : NN b0 now pend rest { s1 with respQ := l } :=
        NN_ms (s := s1) (s' := { s1 with respQ := l }) (ExtW.of_eq rfl) (J_qs (QS.of_eq rfl rfl)) hms h1
      have h2 : NN b0 now pend rest (rqRelease { s1 with respQ := l }) := NN_qm (qm_rqRelease _) h1'
      have hd : (bo b0 (rqRelease { s1 with respQ := l }).obs).spun = true ∨
          ∀ x ∈ (mv (rqRelease { s1 with respQ := l })).execs, x.id = id → x.aborted = true ∨ x.live = false := by
        rcases h1.n with hs | ⟨_, hX⟩
        · left
          rcases bo_extW b0 ((qm_rqRelease { s1 with respQ := l }).1.pre (s := s1) rfl) with h3 | ⟨_, h3, _⟩
          · exact h3
          · exact h3.trans hs
        · right
          intro x hx hxi
          rw [mv_rqRelease_pop] at hx
          obtain ⟨x0, hx0, hxi0, hl⟩ := hX.rq id (by
            show id ∈ s1.respQ.map (·.1)
            rw [hq]; exact List.mem_cons_self ..)
          have : x = x0 := hX.id_inj hx hx0 (hxi.trans hxi0.symm)
          rw [this]; exact Or.inr hl
      have h3 := NN_baseStartSend id res h2 hd
      simp only
      split
      · next s3 heq3 => rw [heq3] at h3; exact h3
      · next s3 r hne heq3 => rw [heq3] at h3; exact h3
    · exact NN_qm (s := s1) ((qm_flushArm _ _).pre rfl rfl) h1

/-- the request the read pump produced is dropped (the write pump failed) -/
theorem NN_dropOffered {s : St} (rid id : Nat) (h : NN b0 now (some (rid, id)) rest s) :
    NN b0 now none rest (dropOffered s rid id) := by
  have hx : ExtW s (dropOffered s rid id) := by
    unfold dropOffered
    simp only
    split
    · exact ((qm_wakeServer _).1.pre rfl).pre rfl
    · exact ExtW.of_eq rfl
  refine NN_model hx (J_dropOffered rid id id) (fun hK hX => ?_) h
  obtain ⟨_, x0, hx0, hr0, hi0, _⟩ := hK.pnd rid id rfl
  obtain ⟨e0, he0, rfl⟩ := List.mem_map.mp hx0
  let g : Exec → Exec := fun e => if e.rid == rid then { e with phase := .gone, guardArmed := false, woken := false } else e
  have hex : (dropOffered s rid id).execs = s.execs.map g := by
    unfold dropOffered; simp only; split <;> simp [updExec, g]
  have hinf : (dropOffered s rid id).inflight = s.inflight := by
    unfold dropOffered; simp only; split <;> simp
  have hcq : (dropOffered s rid id).cancelQ = s.cancelQ ++ [id] := by
    unfold dropOffered; simp only; split <;> simp
  have hrq : (dropOffered s rid id).respQ = s.respQ := by
    unfold dropOffered; simp only; split <;> simp
  have ht : (dropOffered s rid id).t = s.t := by
    unfold dropOffered; simp only; split <;> simp
  have hg : ∀ e, (g e).rid = e.rid ∧ (g e).id = e.id ∧ (g e).vis = e.vis ∧ (execLive (g e) = true → execLive e = true) ∧
      (e.aborted = true → (g e).aborted = true) := by
    intro e
    simp only [g]
    split
    · exact ⟨rfl, rfl, rfl, fun h => (by cases h), fun h => h⟩
    · exact ⟨rfl, rfl, rfl, fun h => h, fun h => h⟩
  refine hX.model s.execs ye (ye ∘ g) rfl (by show (dropOffered s rid id).execs.map ye = _; rw [hex, List.map_map]) ?_ ?_ ?_ ?_
    (by show (dropOffered s rid id).t.inbound = s.t.inbound; rw [ht]) ?_
  · intro a _
    obtain ⟨h1, h2, h3, h4, h5⟩ := hg a
    exact ⟨h1, h2, h3, h4, h5⟩
  · intro en' hen'
    have : (mv (dropOffered s rid id)).ents = (mv s).ents := congrArg (List.map ze) hinf
    rw [this] at hen'
    exact ⟨en', hen', rfl, rfl, Nat.le_refl _⟩
  · intro i hi
    have : (mv (dropOffered s rid id)).cq = s.cancelQ ++ [id] := hcq
    rw [this] at hi
    rcases List.mem_append.mp hi with h1 | h1
    · exact Or.inl h1
    · simp only [List.mem_singleton] at h1
      subst h1
      refine Or.inr ⟨e0, he0, hi0, ?_⟩
      show execLive (g e0) = false
      have hr0' : e0.rid = rid := hr0
      have : (e0.rid == rid) = true := by simpa using hr0'
      simp only [g, this, if_true]
      rfl
  · intro i hi
    left
    have : (mv (dropOffered s rid id)).rq = (mv s).rq := congrArg (List.map (fun p : Nat × Res => p.1)) hrq
    rw [this] at hi; exact hi
  · intro a ha ⟨en, hen, hr⟩
    refine Or.inl ⟨en, ?_, hr⟩
    show en ∈ (dropOffered s rid id).inflight.map ze
    rw [hinf]; exact hen

/-! ## `Requests::poll_next` (no limiter) -/

def PostRqT (b0 : Book) (now : Nat) (rest : List Nat) : St × ReqPoll → Prop
  | (s', .item rid) => ∃ id, NN b0 now (some (rid, id)) rest s'
  | (s', _) => NN b0 now none rest s'

theorem NN_requestsPollNext : ∀ (fuel : Nat) (s : St), SInv false now s → NN b0 now none rest s →
    s.limit = none → s.ensureLoop = false → PostRqT b0 now rest (requestsPollNext fuel s now) := by
  intro fuel
  induction fuel with
  | zero => intro s _ h _ _; exact NN_qm (QM.emit s _ rfl rfl) h
  | succ n ih =>
    intro s hs h hl hel
    rw [requestsPollNext_succ, channelPollNext_none hl]
    have hch := NN_basePollNext (baseFuel s) s hs h
    have hsc := (sinv_closed false now).basePollNext (baseFuel s) s hs
    have hc1 := (cfg_closed s now).toLoopClosed.basePollNext (baseFuel s) s ⟨rfl, rfl, rfl, rfl⟩
    split
    · next s1 a heq => rw [heq] at hch; exact hch
    · next s1 heq => rw [heq] at hch; exact hch
    · next s1 read hne1 hne2 heq =>
      rw [heq] at hch hsc hc1
      have hel2 : (armRead s1 read).ensureLoop = false := by
        rw [(FlowMon.armRead_cfg s1 read).1, hc1.2.2.1]; exact hel
      have hl2 : (armRead s1 read).limit = none := by
        have : (armRead s1 read).limit = s1.limit := by unfold armRead; split <;> rfl
        rw [this, hc1.2.1]; exact hl
      have hsa : SInv false now (armRead s1 read) := by
        unfold armRead; split
        · exact (sinv_closed false now).upd _ _ _ (fun e => ⟨rfl, rfl, rfl, rfl⟩) hsc
        · exact hsc
      have hsp := (sinv_closed false now).pumpWrite (armRead s1 read) (readClosedOf read) hsa
      have hc3 := (cfg_closed (armRead s1 read) now).pumpWrite (armRead s1 read) (readClosedOf read) ⟨rfl, rfl, rfl, rfl⟩
      have hnsp := pumpWrite_ne_spin (armRead s1 read) (readClosedOf read) hel2
      cases read with
      | some ex =>
        have hp : NN b0 now (some (ex.rid, ex.id)) rest (pumpWrite (armRead s1 (.some ex)) (readClosedOf (.some ex))).1 :=
          NN_pumpWrite _ (NN_armRead _ (show NN b0 now (some (ex.rid, ex.id)) rest s1 from hch))
        split
        · next s3 a heq3 =>
          rw [heq3] at hp
          exact NN_dropOffered ex.rid ex.id hp
        · next s3 heq3 => rw [heq3] at hnsp; exact absurd rfl hnsp
        · next s3 write hne3 hne4 heq3 =>
          rw [heq3] at hp
          split
          case h_2 exq heq' => cases heq'; exact ⟨ex.id, hp⟩
          case h_3 hx => exact (hx ex rfl).elim
          case h_4 _ hx _ => exact (hx ex rfl).elim
          all_goals (rename_i h; cases h)
      | err a => exact absurd rfl (hne1 a)
      | spin => exact absurd rfl hne2
      | pending =>
        have hp : NN b0 now none rest (pumpWrite (armRead s1 .pending) (readClosedOf .pending)).1 :=
          NN_pumpWrite _ (NN_armRead _ (show NN b0 now none rest s1 from hch))
        split
        · next s3 a heq3 => rw [heq3] at hp; exact hp
        · next s3 heq3 => rw [heq3] at hp; exact hp
        · next s3 write hne3 hne4 heq3 =>
          rw [heq3] at hp hsp hc3
          split
          · exact hp
          · next h => cases h
          · exact ih s3 hsp hp (hc3.2.1.trans hl2) (hc3.2.2.1.trans hel2)
          · exact hp
      | none =>
        have hp : NN b0 now none rest (pumpWrite (armRead s1 .none) (readClosedOf .none)).1 :=
          NN_pumpWrite _ (NN_armRead _ (show NN b0 now none rest s1 from hch))
        split
        · next s3 a heq3 => rw [heq3] at hp; exact hp
        · next s3 heq3 => rw [heq3] at hp; exact hp
        · next s3 write hne3 hne4 heq3 =>
          rw [heq3] at hp hsp hc3
          split
          · exact hp
          · next h => cases h
          · exact ih s3 hsp hp (hc3.2.1.trans hl2) (hc3.2.2.1.trans hel2)
          · exact hp

/-! ## a poll that ends `spin` has spun or panicked -/

theorem hasSpin_emit_spin (s : St) (t : TaskId) : hasSpin (emit s (.spin t)).obs = true := by
  unfold hasSpin; simp [Server.emit]

theorem basePollNext_spin (now : Nat) : ∀ (fuel : Nat) (s : St), (basePollNext fuel s now).2 = .spin →
    hasSpin (basePollNext fuel s now).1.obs = true ∨ (basePollNext fuel s now).1.poisoned = true := by
  intro fuel
  induction fuel with
  | zero => intro s _; exact Or.inl (hasSpin_emit_spin s _)
  | succ n ih =>
    intro s
    rw [basePollNext_succ]
    have ho := bpStep_out s now
    generalize bpStep s now = out at ho ⊢
    cases ho with
    | poisoned2 hp => exact fun _ => Or.inr hp
    | readErr hp hn => intro h; cases h
    | started id d tr b ex hp hn hs' => intro h; cases h
    | startPanic id d tr b hp hn hs' hpo => exact fun _ => Or.inr hpo
    | duplicate id d tr b hp hn hs' hpo => exact ih _
    | otherPoisoned hp hn1 hn2 hpo => exact fun _ => Or.inr hpo
    | again hp hn1 hn2 hpo hc => exact ih _
    | closed hp hn1 hn2 hpo hc => intro h; cases h
    | pending hp hn1 hn2 hpo hc => intro h; cases h

theorem requestsPollNext_spin (now : Nat) : ∀ (fuel : Nat) (s : St), s.limit = none → s.ensureLoop = false →
    (requestsPollNext fuel s now).2 = .spin →
    hasSpin (requestsPollNext fuel s now).1.obs = true ∨ (requestsPollNext fuel s now).1.poisoned = true := by
  intro fuel
  induction fuel with
  | zero => intro s _ _ _; exact Or.inl (hasSpin_emit_spin s _)
  | succ n ih =>
    intro s hl hel
    rw [requestsPollNext_succ, channelPollNext_none hl]
    have hb := basePollNext_spin now (baseFuel s) s
    have hc1 := (cfg_closed s now).toLoopClosed.basePollNext (baseFuel s) s ⟨rfl, rfl, rfl, rfl⟩
    split
    · next s1 a heq => intro h; cases h
    · next s1 heq => rw [heq] at hb; exact fun _ => hb rfl
    · next s1 read hne1 hne2 heq =>
      rw [heq] at hc1
      have hel2 : (armRead s1 read).ensureLoop = false := by
        rw [(FlowMon.armRead_cfg s1 read).1, hc1.2.2.1]; exact hel
      have hl2 : (armRead s1 read).limit = none := by
        have : (armRead s1 read).limit = s1.limit := by unfold armRead; split <;> rfl
        rw [this, hc1.2.1]; exact hl
      have hc3 := (cfg_closed (armRead s1 read) now).pumpWrite (armRead s1 read) (readClosedOf read) ⟨rfl, rfl, rfl, rfl⟩
      have hnsp := pumpWrite_ne_spin (armRead s1 read) (readClosedOf read) hel2
      split
      · next s3 a heq3 => intro h; cases h
      · next s3 heq3 => rw [heq3] at hnsp; exact absurd rfl hnsp
      · next s3 write hne3 hne4 heq3 =>
        rw [heq3] at hc3
        split
        · intro h; cases h
        · intro h; cases h
        · exact ih s3 (hc3.2.1.trans hl2) (hc3.2.2.1.trans hel2)
        · intro h; cases h

/-! ## the end of a poll: `yielded`, `ret`, `counts` -/

theorem map_wb_ite (l : List BExec) (c : BExec → Prop) [DecidablePred c] (c' : WB → Prop) [DecidablePred c']
    (hc : ∀ e, c e ↔ c' (wb e)) (g : BExec → BExec) (g' : WB → WB) (hg : ∀ e, wb (g e) = g' (wb e)) :
    (l.map (fun e => if c e then g e else e)).map wb = (l.map wb).map (fun x => if c' x then g' x else x) := by
  rw [List.map_map, List.map_map]
  apply List.map_congr_left
  intro e _
  simp only [Function.comp]
  by_cases h : c e
  · rw [if_pos h, if_pos ((hc e).mp h)]; exact hg e
  · rw [if_neg h, if_neg (fun h' => h ((hc e).mpr h'))]

theorem X_swept {B : BW} {b1 : Book} {S : MV} (l : Option Nat) (h : X rest (bw b1) S)
    (heid : ∀ en ∈ S.ents, ∀ x ∈ S.execs, x.rid = en.rid → x.id = en.id)
    (hidle : ∀ en ∈ S.ents, b1.now < ceilMs en.due * nsPerMs) : X rest (bw (sweptBook b1 l)) S := by
  refine h.sweepG (fun x => x.tick ≤ b1.now) ?_ (fun eb heb hc => h.due_untracked heid b1.now hidle heb hc)
  show (sweptBook b1 l).execs.map wb = _
  rw [swept_execs_eq]
  exact map_wb_ite b1.execs (fun e => e.tick ≤ b1.now) (fun x => x.tick ≤ b1.now) (fun e => Iff.rfl)
    (fun e => { e with expiredSeen := true }) (fun x => { x with expiredSeen := true }) (fun e => rfl)

theorem X_ret_aux {b1 : Book} {S : MV} (c : Bool) (h : X rest (bw b1) S)
    (heid : ∀ en ∈ S.ents, ∀ x ∈ S.execs, x.rid = en.rid → x.id = en.id)
    (hidle : c = true → ∀ en ∈ S.ents, b1.now < ceilMs en.due * nsPerMs) :
    X rest (bw (if c then sweptBook b1 (some b1.now) else b1)) S := by
  cases c
  · exact h
  · exact X_swept (B := bw b1) _ h heid (hidle rfl)

theorem X_step_ret {b : Book} {S : MV} (k : Nat) (r : Ret) (h : X rest (bw b) S)
    (heid : ∀ en ∈ S.ents, ∀ x ∈ S.execs, x.rid = en.rid → x.id = en.id)
    (hidle : (r = .pending ∨ r = .readyNone) → ∀ en ∈ S.ents, b.now < ceilMs en.due * nsPerMs) :
    X rest (bw (b.step (.obs (.ret (.server k) r)))) S := by
  rw [step_ret_eq]
  have hle : ∀ b1 : Book, b1.now = b.now → b1.execs = b.execs → b1.table = b.table → b1.failed = b.failed →
      X rest (bw b1) S := by
    intro b1 h1 h2 h3 h4
    refine h.le ⟨h1, congrArg (List.map wb) h2, fun p hp => ?_, fun hf => ?_⟩
    · show p ∈ b.table
      rw [← h3]; exact hp
    · show b1.failed = true
      rw [h4]; exact hf
  cases r with
  | pending => exact X_ret_aux _ (hle _ rfl rfl rfl rfl) heid (fun _ => hidle (Or.inl rfl))
  | readyNone => exact X_ret_aux _ (hle _ rfl rfl rfl rfl) heid (fun _ => hidle (Or.inr rfl))
  | readyItem => exact X_ret_aux _ (hle _ rfl rfl rfl rfl) heid (fun hc => by simp at hc)
  | readyItemErr a => exact X_ret_aux _ (hle _ rfl rfl rfl rfl) heid (fun hc => by simp at hc)
  | readyOk => exact X_ret_aux _ (hle _ rfl rfl rfl rfl) heid (fun hc => by simp at hc)
  | readyErr a => exact X_ret_aux _ (hle _ rfl rfl rfl rfl) heid (fun hc => by simp at hc)

theorem bw_step_yielded (b : Book) (r id d : Nat) (tr : Trace) :
    (bw (b.step (.obs (.yielded r id d tr)))).execs = (bw b).execs ++ [⟨r, id, d, b.now, false, false, false⟩] := by
  simp [bw, Book.step, wb]

theorem chk06_irrel (b : Book) (o : Obs) (h1 : ∀ r ev t, o ≠ .handler r ev t) (h2 : ∀ ep m ok, o ≠ .tSend ep m ok) :
    chk06 b o = none :=
  chk06_other b o (fun r t => h1 r .polled t) (fun ep id res ok => h2 ep _ ok)

/-- the idle fact on the view -/
theorem idle_mv {s : St} (ht : TInv now s) (hi : DelayQ.Idle now s.timers) :
    ∀ en ∈ (mv s).ents, now < ceilMs en.due * nsPerMs := by
  intro en hen
  obtain ⟨e0, he0, rfl⟩ := List.mem_map.mp hen
  obtain ⟨c, hc, hk, _⟩ := ht.fwd e0 he0
  have h1 := hi.cores c hc
  rw [ht.tk e0 he0 c hc hk] at h1
  exact h1

theorem NN_yield {s : St} {rid id : Nat} {e : Exec} (hg : getExec s rid = some e) (ht : TInv now s)
    (h : NN b0 now (some (rid, id)) rest s) :
    NN b0 now none rest (emit (updExec { s with nextVis := s.nextVis + 1 } rid (fun x => { x with vis := some s.nextVis }))
      (.yielded s.nextVis e.id e.deadline e.trace)) := by
  obtain ⟨hem, her⟩ := getExec_mem hg
  refine ⟨?_, ⟨h.ck, Or.inr (chk06_irrel _ _ (fun _ _ _ hc => by cases hc) (fun _ _ _ hc => by cases hc))⟩⟩
  show ((bo b0 s.obs).step (.obs (.yielded s.nextVis e.id e.deadline e.trace))).spun = true ∨ _
  rcases h.n with h1 | ⟨hK, hX⟩
  · exact Or.inl (step_spun_mono _ _ h1)
  · rcases J_yield hg (Or.inr hK) with h2 | h2
    · exact Or.inl h2
    · refine Or.inr ⟨h2, ?_⟩
      obtain ⟨_, x0, hx0, hr0, hid0, hv0⟩ := hK.pnd rid id rfl
      have hxe : xe e = x0 := eq_of_rid_nodup hK.ridNodup (List.mem_map_of_mem hem) hx0 (her.trans hr0.symm)
      have hid : e.id = id := by rw [← hid0, ← hxe]; rfl
      have hall : ∀ x ∈ (mv s).execs, x.rid = rid → x.vis = none ∧ x.id = id := by
        intro x hx hxr
        obtain ⟨e', he', rfl⟩ := List.mem_map.mp hx
        have : xe e' = x0 := eq_of_rid_nodup hK.ridNodup (List.mem_map_of_mem he') hx0 (hxr.trans hr0.symm)
        constructor
        · show (xe e').vis = none
          rw [this]; exact hv0
        · show (xe e').id = id
          rw [this]; exact hid0
      refine hX.yield rid s.nextVis id e.deadline (bo b0 s.obs).now ?_ rfl rfl rfl rfl ?_ hall
        ⟨ye e, List.mem_map_of_mem hem, her⟩ ?_ ?_ ?_
      · show (List.map (fun e' => if e'.rid == rid then { e' with vis := some s.nextVis } else e') s.execs).map ye = _
        simp only [mv, List.map_map]
        apply List.map_congr_left
        intro e' _
        simp only [Function.comp]
        have hxr : (ye e').rid = e'.rid := rfl
        by_cases hc : (e'.rid == rid) = true
        · rw [if_pos hc, if_pos (by rw [hxr]; exact hc)]; rfl
        · rw [if_neg hc, if_neg (by rw [hxr]; exact hc)]
      · show (bw ((bo b0 s.obs).step (.obs (.yielded s.nextVis e.id e.deadline e.trace)))).execs = _
        rw [bw_step_yielded, hid]
      · intro x hx hxv
        obtain ⟨e', he', rfl⟩ := List.mem_map.mp hx
        have := hK.visLt (xe e') (List.mem_map_of_mem he') s.nextVis hxv
        exact Nat.lt_irrefl _ this
      · intro eb heb hr
        obtain ⟨e0, he0, rfl⟩ := List.mem_map.mp heb
        have := hK.bLt (xb e0) (List.mem_map_of_mem he0)
        have hr' : (xb e0).rid = s.nextVis := hr
        rw [hr'] at this
        exact Nat.lt_irrefl _ this
      · intro en hen hr
        obtain ⟨en0, hen0, rfl⟩ := List.mem_map.mp hen
        obtain ⟨c, hc, hk, _⟩ := ht.fwd en0 hen0
        have hok := ht.dl en0 hen0 c hc hk e hem (her.trans hr.symm)
        have hclk : (bo b0 s.obs).now = now := hK.clk
        rw [hclk]
        exact hok.hi

theorem NN_emit_ret {pend : Option (Nat × Nat)} {s : St} (k : Nat) (r : Ret) (h : NN b0 now pend rest s)
    (hidle : (r = .pending ∨ r = .readyNone) → ∀ en ∈ (mv s).ents, now < ceilMs en.due * nsPerMs) :
    NN b0 now pend rest (emit s (.ret (.server k) r)) := by
  refine ⟨?_, ⟨h.ck, Or.inr (chk06_irrel _ _ (fun _ _ _ hc => by cases hc) (fun _ _ _ hc => by cases hc))⟩⟩
  show ((bo b0 s.obs).step (.obs (.ret (.server k) r))).spun = true ∨ _
  rcases h.n with h1 | ⟨hK, hX⟩
  · exact Or.inl (step_spun_mono _ _ h1)
  · rcases J_emit_ret k r (Or.inr hK) with h2 | h2
    · exact Or.inl h2
    · refine Or.inr ⟨h2, ?_⟩
      have hclk : (bo b0 s.obs).now = now := hK.clk
      have := X_step_ret (b := bo b0 s.obs) (S := mv s) k r hX (K_eid_mv hK)
        (fun hr en hen => by rw [hclk]; exact hidle hr en hen)
      exact this

theorem NN_pskFinish {s : St} {r : ReqPoll} (ht : TInv now s) (h : PostRqT b0 now rest (s, r))
    (hsp : r ≠ .spin) (hidle : (r = .pending ∨ r = .none) → DelayQ.Idle now s.timers) :
    NN b0 now none rest (pskFinish s r) := by
  have hfin : ∀ (s1 : St) (rt : Ret), NN b0 now none rest s1 →
      ((rt = .pending ∨ rt = .readyNone) → ∀ en ∈ (mv s1).ents, now < ceilMs en.due * nsPerMs) →
      NN b0 now none rest (emit (emit s1 (.ret (tid s1) rt)) (.counts (tid s1) s1.inflight.length s1.timers.len)) := by
    intro s1 rt h1 hi
    have h2 : NN b0 now none rest (emit s1 (.ret (tid s1) rt)) := NN_emit_ret s1.sidx rt h1 hi
    refine ⟨?_, ⟨h2.ck, Or.inr (chk06_irrel _ _ (fun _ _ _ hc => by cases hc) (fun _ _ _ hc => by cases hc))⟩⟩
    have hq : QS (emit s1 (.ret (tid s1) rt)) (emit (emit s1 (.ret (tid s1) rt)) (.counts (tid s1) s1.inflight.length s1.timers.len)) :=
      QS.emit _ _ rfl
    rcases bo_ext b0 hq.1 with hs | ⟨hv, hs⟩
    · exact Or.inl hs
    · rcases h2.n with h3 | ⟨hK, hX⟩
      · exact Or.inl (hs.trans h3)
      · refine Or.inr ⟨by rw [hv]; exact hK, ?_⟩
        have : bw (bo b0 (emit (emit s1 (.ret (tid s1) rt)) (.counts (tid s1) s1.inflight.length s1.timers.len)).obs) =
            bw (bo b0 (emit s1 (.ret (tid s1) rt)).obs) := by
          show bw ((bo b0 (emit s1 (.ret (tid s1) rt)).obs).step
            (.obs (.counts (tid s1) s1.inflight.length s1.timers.len))) = _
          rfl
        rw [this]; exact hX
  cases r with
  | pending => exact hfin s .pending h (fun _ => idle_mv ht (hidle (Or.inl rfl)))
  | spin => exact absurd rfl hsp
  | none =>
    refine hfin { s with done := some .readyNone } .readyNone
      (NN_qm (s := s) (s' := { s with done := some .readyNone }) (QM.of_eq rfl rfl) h) (fun _ => ?_)
    exact idle_mv (s := s) ht (hidle (Or.inr rfl))
  | err a =>
    refine hfin { s with done := some (.readyItemErr a) } (.readyItemErr a)
      (NN_qm (s := s) (s' := { s with done := some (.readyItemErr a) }) (QM.of_eq rfl rfl) h) (fun hr => ?_)
    rcases hr with hr | hr <;> cases hr
  | item rid =>
    obtain ⟨id, hN⟩ := h
    simp only [pskFinish, pskRet]
    split
    · next e he =>
      refine hfin _ .readyItem (NN_yield he ht hN) (fun hr => ?_)
      rcases hr with hr | hr <;> cases hr
    · next he =>
      refine hfin s .readyItem ?_ (fun hr => by rcases hr with hr | hr <;> cases hr)
      refine ⟨?_, hN.ck⟩
      rcases hN.n with hs | ⟨hK, _⟩
      · exact Or.inl hs
      · exfalso
        obtain ⟨_, x0, hx0, hr0, _, _⟩ := hK.pnd rid id rfl
        obtain ⟨e, hem, rfl⟩ := List.mem_map.mp hx0
        unfold getExec at he
        have := List.find?_eq_none.mp he e hem
        simp at this
        exact this hr0

/-! ## one poll of the request stream by the application -/

theorem NN_dropServer {pend : Option (Nat × Nat)} {s : St} (h : NN b0 now pend rest s)
    (hd : (bo b0 s.obs).spun = true ∨ (bo b0 s.obs).dropped = true) : NN b0 now pend rest (dropServer s) :=
  NN_ms (extW_dropServer s) (fun hJ => J_dropServer hJ hd) (ms_dropServer s) h

/-- between ops: the couplings hold with nothing pending — or the channel is poisoned -/
def NP (b0 : Book) (now : Nat) (rest : List Nat) (s : St) : Prop :=
  NN b0 now none rest s ∨ (s.poisoned = true ∧ ∃ pend, NN b0 now pend rest s)

theorem NP.toJP {s : St} (h : NP b0 now rest s) : JP b0 now s := by
  rcases h with h | ⟨hp, pend, h⟩
  · exact Or.inl h.n.toJ
  · exact Or.inr ⟨hp, pend, h.n.toJ⟩

theorem NP.qm {s s' : St} (hq : QM s s') (hp : s'.poisoned = s.poisoned) (h : NP b0 now rest s) : NP b0 now rest s' := by
  rcases h with h | ⟨hpo, pend, h⟩
  · exact Or.inl (NN_qm hq h)
  · exact Or.inr ⟨hp.trans hpo, pend, NN_qm hq h⟩

theorem NN_pollServerKeep {s : St} (hf : ClampFits) (hn : now < panicFreeNs) (h0 : s.obs = []) (hs : SInv false now s)
    (hq : QC now s) (h : NP b0 now rest s) (hl : s.limit = none) (hcfg : s.throttleAfterRead = false)
    (hel : s.ensureLoop = false) : NP b0 now rest (pollServerKeep s now) := by
  rw [pollServerKeep_eq]
  split
  · exact h.qm (QM.emit s _ rfl rfl) rfl
  · next hlive =>
    simp only [Bool.or_eq_true, not_or, Bool.not_eq_true] at hlive
    have hN0 : NN b0 now none rest { s with woken := false } := by
      rcases h with h | ⟨hp, _⟩
      · exact NN_qm (s := s) (QM.of_eq rfl rfl) h
      · rw [hlive.2] at hp; cases hp
    have hs0 : SInv false now { s with woken := false } :=
      (sinv_closed false now).inert s _ (by constructor <;> rfl) hs
    have hq0 : QC now { s with woken := false } := hq.of_timers rfl
    have hns : NS s := by unfold NS; rw [h0]; rfl
    have h1 := NS_requestsPollNext now (pollFuel { s with woken := false }) { s with woken := false }
      (by unfold pollFuel; simp only; omega) (NS_of_obs hns rfl) hcfg hel
    have hp := NN_requestsPollNext (b0 := b0) (rest := rest) (pollFuel { s with woken := false }) { s with woken := false }
      hs0 hN0 hl hel
    have hidle := requestsPollNext_idle_timers hf hn (pollFuel { s with woken := false }) { s with woken := false } hl hq0
    have hspin := requestsPollNext_spin now (pollFuel { s with woken := false }) { s with woken := false } hl hel
    have ht1 := ((sinv_closed false now).requestsPollNext (pollFuel { s with woken := false }) { s with woken := false } hs0).t
    revert h1 hp hidle hspin ht1
    generalize requestsPollNext (pollFuel { s with woken := false }) { s with woken := false } now = p
    obtain ⟨s1, r⟩ := p
    intro h1 hp hidle hspin ht1
    simp only at h1 hp hidle hspin ht1 ⊢
    split
    · next hsp =>
      exfalso
      unfold NS at hns h1
      simp [hns, h1] at hsp
    · split
      · next hpo =>
        cases r with
        | item rid => obtain ⟨id, h⟩ := hp; exact Or.inr ⟨hpo, _, h⟩
        | pending => exact Or.inl hp
        | none => exact Or.inl hp
        | err a => exact Or.inl hp
        | spin => exact Or.inl hp
      · next hpo =>
        refine Or.inl (NN_pskFinish ht1 hp ?_ ?_)
        · intro hr
          rcases hspin hr with h2 | h2
          · unfold NS at h1; rw [h1] at h2; cases h2
          · exact hpo h2
        · intro hr
          rcases hr with hr | hr
          · exact hidle (Or.inl hr)
          · exact hidle (Or.inr hr)

theorem NN_pollServer {s : St} (hf : ClampFits) (hn : now < panicFreeNs) (h0 : s.obs = []) (hs : SInv false now s)
    (hq : QC now s) (hdd : DoneDropped s) (h : NP b0 now rest s) (hl : s.limit = none)
    (hcfg : s.throttleAfterRead = false) (hel : s.ensureLoop = false) : NP b0 now rest (pollServer s now) := by
  have hk := NN_pollServerKeep hf hn h0 hs hq h hl hcfg hel
  have hdone := (J_pollServerKeep hs h.toJP hcfg hel).2
  unfold pollServer
  simp only
  split
  · next hc =>
    simp only [Bool.and_eq_true, Bool.not_eq_true'] at hc
    have hd : (bo b0 (pollServerKeep s now).obs).spun = true ∨ (bo b0 (pollServerKeep s now).obs).dropped = true := by
      rcases hdone hc.1 with h | h
      · exfalso
        have hdr := hdd h
        have : pollServerKeep s now = emit s .noop := pollServerKeep_dead s now (by simp [hdr])
        rw [this] at hc
        simp only [emit_dropped, hdr] at hc
        exact absurd hc.2 (by simp)
      · exact h
    rcases hk with h | ⟨hp, pend, h⟩
    · exact Or.inl (NN_dropServer h hd)
    · exact Or.inr ⟨by simp [hp], pend, NN_dropServer h hd⟩
  · split
    · exact NP.qm (s := pollServerKeep s now) (QM.of_eq rfl rfl) rfl hk
    · exact hk

end TarpcModel.Server.Tab

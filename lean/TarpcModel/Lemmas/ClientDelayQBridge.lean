import TarpcModel.Lemmas.ClientPanic
import TarpcModel.Lemmas.DelayQReach
/-!
Bridge between the client model and the completeness results for the timer wheel (`Lemmas/DelayQComplete.lean`,
`Lemmas/DelayQReach.lean`).

**What the client does to its `DelayQueue`.**  `QClosed now P`: the predicate `P` on timer queues is kept by the
operations the client model applies to its queue at clock `now` — `insert` of a *clamped* timeout at `now`
(`insert_request`, the re-arm in `poll_expired`), `remove` of a key, `poll_expired` at `now`, `clear`
(`shut_down_with_terminal_error`), replacing the queue by the empty one (the dispatch is dropped) and taking the stored
waker (`onAdvance`: the timer fires).  `QClosed.applyOp`: every operation of the client model keeps every such
predicate — the model does nothing else to the queue.

**Instance.**  While the clock is below `2^35` ms (`panicFreeNs`) and the clamp fits (`ClampFits`, the fact about the
generated constant behind `C16_client_flags`), every clamped insert is in the strict range (`DelayQ.InRangeStrict`), so
the two-sided wheel invariant `DelayQ.Complete` is such a predicate: it holds in every reachable state.
-/
namespace TarpcModel.Client
open TarpcModel

/-! ### the functions that leave the timer queue alone -/

theorem foldl_tm {α : Type} (f : St → α → St) (hf : ∀ s a, (f s a).timers = s.timers) (l : List α) (s : St) :
    (l.foldl f s).timers = s.timers := by
  induction l generalizing s with
  | nil => rfl
  | cons a l ih => rw [List.foldl_cons, ih, hf]

@[simp] theorem pqRelease_tm (s : St) : (pqRelease s).timers = s.timers := by
  unfold pqRelease; split <;> simp

@[simp] theorem pqRecv_tm (s : St) : (pqRecv s).1.timers = s.timers := by
  unfold pqRecv; split
  · simp
  · split
    · rfl
    · split <;> rfl

@[simp] theorem pqClose_tm (s : St) : (pqClose s).timers = s.timers := by
  unfold pqClose; simp only; rw [foldl_tm _ (fun s a => wakeCall_timers s a)]

@[simp] theorem pqPush_tm (s : St) (r : DReq) : (pqPush s r).timers = s.timers := by
  unfold pqPush; simp only; split <;> simp

@[simp] theorem cqPush_tm (s : St) (id : Nat) : (cqPush s id).timers = s.timers := by
  unfold cqPush; split
  · rfl
  · simp only; split <;> simp

@[simp] theorem cqRecv_tm (s : St) : (cqRecv s).1.timers = s.timers := by
  unfold cqRecv; split
  · rfl
  · split <;> rfl

@[simp] theorem tReady_tm (s : St) : (tReady s).1.timers = s.timers := Flow.tReady_timers s
@[simp] theorem tFlush_tm (s : St) : (tFlush s).1.timers = s.timers := Flow.tFlush_timers s
@[simp] theorem tClose_tm (s : St) : (tClose s).1.timers = s.timers := Flow.tClose_timers s
@[simp] theorem tSend_tm (s : St) (m : Msg) : (tSend s m).1.timers = s.timers := Flow.tSend_timers s m
@[simp] theorem tNext_tm (s : St) : (tNext s).1.timers = s.timers := Flow.tNext_timers s

@[simp] theorem ensureLoop_tm (fuel : Nat) (s : St) : (ensureLoop fuel s).1.timers = s.timers := by
  induction fuel generalizing s with
  | zero => rfl
  | succ n ih =>
    unfold ensureLoop
    have h1 := tReady_tm s
    generalize tReady s = p at h1 ⊢
    obtain ⟨s1, r⟩ := p
    cases r with
    | ready => exact h1
    | err => exact h1
    | pending =>
      simp only
      have h2 := tFlush_tm s1
      generalize tFlush s1 = p at h2 ⊢
      obtain ⟨s2, f⟩ := p
      cases f with
      | pending => exact h2.trans h1
      | err => exact h2.trans h1
      | ready => exact (ih s2).trans (h2.trans h1)

@[simp] theorem ensureOnce_tm (s : St) : (ensureOnce s).1.timers = s.timers := by
  unfold ensureOnce
  have h1 := tReady_tm s
  generalize tReady s = p at h1 ⊢
  obtain ⟨s1, r⟩ := p
  cases r with
  | ready => exact h1
  | err => exact h1
  | pending =>
    simp only
    have h2 := tFlush_tm s1
    generalize tFlush s1 = p at h2 ⊢
    obtain ⟨s2, f⟩ := p
    cases f with
    | pending => exact h2.trans h1
    | err => exact h2.trans h1
    | ready =>
      simp only
      have h3 := tReady_tm s2
      generalize tReady s2 = p at h3 ⊢
      obtain ⟨s3, r2⟩ := p
      cases r2 <;> exact h3.trans (h2.trans h1)

@[simp] theorem ensureWriteable_tm (s : St) : (ensureWriteable s).1.timers = s.timers := by
  unfold ensureWriteable; split
  · exact ensureLoop_tm _ _
  · exact ensureOnce_tm _

@[simp] theorem nextRequestLoop_tm (fuel : Nat) (s : St) : (nextRequestLoop fuel s).1.timers = s.timers := by
  induction fuel generalizing s with
  | zero => rfl
  | succ n ih =>
    unfold nextRequestLoop
    have h1 := pqRecv_tm s
    generalize pqRecv s = p at h1 ⊢
    obtain ⟨s1, r⟩ := p
    cases r with
    | pending => exact h1
    | closed => exact h1
    | item r =>
      simp only
      split
      · exact (ih s1).trans h1
      · exact h1

@[simp] theorem pollNextRequest_tm (s : St) : (pollNextRequest s).1.timers = s.timers := by
  unfold pollNextRequest
  split
  · rfl
  · have h1 := ensureWriteable_tm s
    generalize ensureWriteable s = p at h1 ⊢
    obtain ⟨s1, r⟩ := p
    cases r with
    | pending => exact h1
    | err a => exact h1
    | spin => exact h1
    | ready => exact (nextRequestLoop_tm _ s1).trans h1

@[simp] theorem drainLoop_tm (fuel : Nat) (s : St) (a : Activity) : (drainLoop fuel s a).1.timers = s.timers := by
  induction fuel generalizing s with
  | zero => rfl
  | succ n ih =>
    unfold drainLoop
    have h1 := pqRecv_tm s
    generalize pqRecv s = p at h1 ⊢
    obtain ⟨s1, r⟩ := p
    cases r with
    | pending => exact h1
    | closed => exact h1
    | item r =>
      simp only
      split
      · exact (ih s1).trans h1
      · exact (ih _).trans ((osSend_timers _ _ _).trans h1)

@[simp] theorem guardClose_tm (s : St) (cid : Nat) : (guardClose s cid).timers = s.timers := rfl

@[simp] theorem afterCallGone_tm (s : St) : (afterCallGone s).timers = s.timers := by
  unfold afterCallGone
  split
  · simp only
    split <;> split <;> simp
  · rfl

@[simp] theorem resolve_tm (s : St) (cid : Nat) (o : Outcome) (now : Nat) : (resolve s cid o now).timers = s.timers := by
  unfold resolve; simp

@[simp] theorem failShutdown_tm (s : St) (cid id now : Nat) : (failShutdown s cid id now).timers = s.timers := by
  unfold failShutdown; simp

@[simp] theorem pollOneshot_tm (s : St) (cid now : Nat) : (pollOneshot s cid now).timers = s.timers := by
  unfold pollOneshot
  split
  · rfl
  · split
    · simp
    · split <;> simp

@[simp] theorem enqueue_tm (s : St) (c : Call) (now : Nat) : (enqueue s c now).timers = s.timers := by
  unfold enqueue; simp

@[simp] theorem pollCall_tm (s : St) (cid now : Nat) : (pollCall s cid now).timers = s.timers := by
  unfold pollCall
  split
  · rfl
  · split
    · rfl
    · rfl
    · simp only
      split
      · simp
      · split <;> simp
    · simp only
      split
      · simp
      · split <;> simp
    · simp

@[simp] theorem dropPre_tm (s : St) (cid : Nat) : (dropPre s cid).timers = s.timers := by
  unfold dropPre
  split
  · rfl
  · split
    · simp only
      split <;> simp
    · rfl

@[simp] theorem dropClose_tm (s : St) (cid : Nat) : (dropClose s cid).timers = s.timers := by
  unfold dropClose
  split
  · rfl
  · split <;> rfl

@[simp] theorem dropCancel_tm (s : St) (cid : Nat) : (dropCancel s cid).timers = s.timers := by
  unfold dropCancel
  split
  · rfl
  · split <;> simp

@[simp] theorem dropFinish_tm (s : St) (cid : Nat) : (dropFinish s cid).timers = s.timers := by
  unfold dropFinish
  split
  · rfl
  · split <;> simp

@[simp] theorem newCall_tm (s : St) (h : Nat) (ctx : Ctx) (body : Nat) : (newCall s h ctx body).timers = s.timers := by
  unfold newCall; split <;> rfl

@[simp] theorem cloneHandle_tm (s : St) (h : Nat) : (cloneHandle s h).timers = s.timers := by
  unfold cloneHandle; split <;> rfl

@[simp] theorem dropHandle_tm (s : St) (h : Nat) : (dropHandle s h).timers = s.timers := by
  unfold dropHandle; split <;> simp

@[simp] theorem liftT_tm (s : St) (r : SimT × Bool) : (liftT s r).timers = s.timers := by
  unfold liftT; simp only; split <;> simp

/-! ### what the client does to its timer queue -/

/-- `P` is kept by everything the client model does to its `DelayQueue` at clock `now`. -/
structure QClosed (now : Nat) (P : DelayQ → Prop) : Prop where
  insert : ∀ {q q' : DelayQ} {t v : Nat} {r : DelayQ.InsertRes} {w : Bool}, P q →
    q.insert now (clampTimeout t) v = (q', r, w) → P q'
  remove : ∀ {q q' : DelayQ} {k : Nat} {w : Bool}, P q → q.remove k = some (q', w) → P q'
  poll : ∀ {q : DelayQ}, P q → P (q.pollExpired now).1
  clear : ∀ {q : DelayQ}, P q → P q.clear
  empty : P {}
  waker : ∀ {q : DelayQ} (b : Bool), P q → P { q with waker := b }

variable {now : Nat} {P : DelayQ → Prop}

theorem QClosed.removeTimer (hc : QClosed now P) {s : St} (h : P s.timers) (k : Nat) : P (removeTimer s k).timers := by
  unfold Client.removeTimer
  cases hr : s.timers.remove k with
  | none => exact h
  | some p =>
    obtain ⟨q, w⟩ := p
    have hq := hc.remove h hr
    simp only
    split
    · rw [wakeDispatch_timers]; exact hq
    · exact hq

theorem QClosed.completeRequest (hc : QClosed now P) {s : St} (h : P s.timers) (id : Nat) (o : Outcome) :
    P (completeRequest s id o).1.timers := by
  unfold Client.completeRequest
  split
  · exact h
  · simp only [osSend_timers]
    exact hc.removeTimer (s := { s with inflight := s.inflight.filter (·.id != id) }) h _

theorem QClosed.cancelRequest (hc : QClosed now P) {s : St} (h : P s.timers) (id : Nat) :
    P (cancelRequest s id).1.timers := by
  unfold Client.cancelRequest
  split
  · exact h
  · exact hc.removeTimer (s := { s with inflight := s.inflight.filter (·.id != id) }) h _

theorem QClosed.insertRequest (hc : QClosed now P) {s s' : St} (h : P s.timers) {r : DReq}
    (hi : insertRequest s now r = some s') : P s'.timers := by
  unfold Client.insertRequest at hi
  split at hi
  · cases hi; exact h
  · rcases hins : s.timers.insert now (clampTimeout (r.ctx.deadline - now)) r.id with ⟨q, res, w⟩
    have hq := hc.insert h hins
    rw [hins] at hi
    cases res with
    | panic => cases hi; exact h
    | ok key =>
      simp only [Option.some.injEq] at hi
      subst hi
      split
      · rw [wakeDispatch_timers]; exact hq
      · exact hq

theorem QClosed.pollWriteRequest (hc : QClosed now P) {s : St} (h : P s.timers) :
    P (pollWriteRequest s now).1.timers := by
  unfold Client.pollWriteRequest
  have h1 : P (pollNextRequest s).1.timers := by rw [pollNextRequest_tm]; exact h
  generalize pollNextRequest s = p at h1 ⊢
  obtain ⟨s1, res⟩ := p
  cases res with
  | pending => exact h1
  | none => exact h1
  | err a => exact h1
  | spin => exact h1
  | some r =>
    simp only
    cases hi : Client.insertRequest s1 now r with
    | none => exact h1
    | some s2 =>
      simp only
      have h3 := hc.insertRequest h1 hi
      split
      · exact h3
      · have hq := tSend_tm s2 (.request r.id r.ctx.deadline r.ctx.trace r.body)
        generalize tSend s2 (.request r.id r.ctx.deadline r.ctx.trace r.body) = p at hq ⊢
        obtain ⟨s3, ok⟩ := p
        simp only at hq ⊢
        split
        · rw [hq]; exact h3
        · exact hc.completeRequest (by rw [hq]; exact h3) r.id .send

theorem QClosed.nextCancelLoop (hc : QClosed now P) (fuel : Nat) {s : St} (h : P s.timers) :
    P (nextCancelLoop fuel s).1.timers := by
  induction fuel generalizing s with
  | zero => exact h
  | succ fuel ih =>
    unfold Client.nextCancelLoop
    have hq := cqRecv_tm s
    generalize cqRecv s = p at hq ⊢
    obtain ⟨s1, res⟩ := p
    simp only at hq
    cases res with
    | pending => rw [hq]; exact h
    | closed => rw [hq]; exact h
    | item id =>
      simp only
      have h2 := hc.cancelRequest (s := s1) (by rw [hq]; exact h) id
      generalize Client.cancelRequest s1 id = p at h2 ⊢
      obtain ⟨s2, oe⟩ := p
      cases oe with
      | some e => exact h2
      | none => exact ih h2

theorem QClosed.pollNextCancellation (hc : QClosed now P) {s : St} (h : P s.timers) :
    P (pollNextCancellation s).1.timers := by
  unfold Client.pollNextCancellation
  have hq := ensureWriteable_tm s
  generalize ensureWriteable s = p at hq ⊢
  obtain ⟨s1, ew⟩ := p
  simp only at hq
  cases ew with
  | pending => rw [hq]; exact h
  | err a => rw [hq]; exact h
  | spin => rw [hq]; exact h
  | ready => exact hc.nextCancelLoop _ (by rw [hq]; exact h)

theorem QClosed.pollWriteCancel (hc : QClosed now P) {s : St} (h : P s.timers) :
    P (pollWriteCancel s).1.timers := by
  unfold Client.pollWriteCancel
  have h1 := hc.pollNextCancellation h
  generalize Client.pollNextCancellation s = p at h1 ⊢
  obtain ⟨s1, res⟩ := p
  cases res with
  | pending => exact h1
  | none => exact h1
  | err a => exact h1
  | spin => exact h1
  | some e =>
    simp only
    have hq := tSend_tm s1 (.cancel e.id e.ctx.trace)
    generalize tSend s1 (.cancel e.id e.ctx.trace) = p at hq ⊢
    obtain ⟨s2, ok⟩ := p
    simp only at hq ⊢
    split <;> (rw [hq]; exact h1)

/-- one iteration of `poll_expired`, on the result `r` of polling the queue -/
theorem QClosed.expireWith (hc : QClosed now P) {s : St} (h : P s.timers) (r : DelayQ × DelayQ.PollRes) (hr : P r.1) :
    P (expireWith s now r).st.timers := by
  unfold Client.expireWith
  split
  · rename_i q e
    split
    · rename_i en hf
      split
      · unfold Client.rearm
        rcases rearmWith_cases s e.val (now - en.dueAt + clampTimeout (en.remainder - (now - en.dueAt)))
            (now + clampTimeout (en.remainder - (now - en.dueAt)))
            (q.insert now (clampTimeout (en.remainder - (now - en.dueAt))) e.val) with
          ⟨q', w, hins, hrw⟩ | ⟨q', key, w, hins, hrw⟩
        · rw [hrw]
          -- the state is frozen as it was before the iteration: its queue is the one before the poll
          exact h
        · rw [hrw]
          have hq' := hc.insert hr hins
          show P (ExpStep.st (.again (if w = true then _ else _))).timers
          simp only [ExpStep.st]
          split
          · rw [wakeDispatch_timers]; exact hq'
          · exact hq'
      · simp only [ExpStep.st, osSend_timers]; exact hr
    · exact hr
  · exact hr

theorem QClosed.expireStep (hc : QClosed now P) {s : St} (h : P s.timers) : P (expireStep s now).st.timers :=
  hc.expireWith h _ (hc.poll h)

theorem QClosed.pollExpiredLoop (hc : QClosed now P) (fuel : Nat) {s : St} (h : P s.timers) :
    P (pollExpiredLoop fuel s now).1.timers := by
  induction fuel generalizing s with
  | zero => exact h
  | succ fuel ih =>
    have h1 := hc.expireStep h
    unfold Client.pollExpiredLoop; split <;> rename_i heq <;> rw [heq] at h1
    · exact ih h1
    · exact h1

theorem QClosed.pollExpired (hc : QClosed now P) {s : St} (h : P s.timers) : P (pollExpired s now).1.timers :=
  hc.pollExpiredLoop _ h

theorem QClosed.pumpWrite (hc : QClosed now P) {s : St} (h : P s.timers) : P (pumpWrite s now).1.timers := by
  unfold Client.pumpWrite
  have h1 := hc.pollWriteRequest h
  generalize Client.pollWriteRequest s now = p at h1 ⊢
  obtain ⟨s1, r1⟩ := p
  cases r1 <;> simp only <;> try exact h1
  all_goals
    have h2 := hc.pollWriteCancel h1
    generalize Client.pollWriteCancel s1 = p at h2 ⊢
    obtain ⟨s2, r2⟩ := p
    cases r2 <;> simp only <;> try exact h2
    all_goals
      have h3 := hc.pollExpired h2
      generalize Client.pollExpired s2 now = p at h3 ⊢
      obtain ⟨s3, ex⟩ := p
      simp only at h3 ⊢
      split
      · exact h3
      · split
        · exact h3
        split
        · have hq := tClose_tm s3
          generalize tClose s3 = p at hq ⊢
          obtain ⟨s4, r4⟩ := p
          cases r4 <;> (simp only at hq ⊢; rw [hq]; exact h3)
        · have hq := tFlush_tm s3
          generalize tFlush s3 = p at hq ⊢
          obtain ⟨s4, r4⟩ := p
          cases r4 <;> (simp only at hq ⊢; rw [hq]; exact h3)

theorem QClosed.pumpRead (hc : QClosed now P) {s : St} (h : P s.timers) : P (pumpRead s).1.timers := by
  unfold Client.pumpRead
  have hq := tNext_tm s
  generalize tNext s = p at hq ⊢
  obtain ⟨s1, r⟩ := p
  simp only at hq
  have h1 : P s1.timers := by rw [hq]; exact h
  cases r with
  | pending => exact h1
  | eof => exact h1
  | err => exact h1
  | item m =>
    cases m with
    | response id res => exact hc.completeRequest h1 id _
    | request _ _ _ _ => exact h1
    | cancel _ _ => exact h1

theorem QClosed.run (hc : QClosed now P) (fuel : Nat) {s : St} (h : P s.timers) : P (run fuel s now).1.timers := by
  induction fuel generalizing s with
  | zero => exact h
  | succ fuel ih =>
    unfold Client.run
    have h1 := hc.pumpRead h
    generalize Client.pumpRead s = p at h1 ⊢
    obtain ⟨s1, rd⟩ := p
    have h2 := hc.pumpWrite h1
    cases rd <;> simp only <;> try exact h1
    all_goals
      generalize Client.pumpWrite s1 now = p at h2 ⊢
      obtain ⟨s2, wr⟩ := p
      cases wr <;> simp only <;> try exact h2
      all_goals try (split <;> first | exact h2 | exact ih h2)
      all_goals try exact ih h2

theorem QClosed.failAll (hc : QClosed now P) {s : St} (h : P s.timers) (a : Activity) : P (failAll s a).timers := by
  unfold Client.failAll
  simp only
  rw [foldl_tm (fun s (e : Entry) => osSend s e.cid (.channel a)) (fun s e => osSend_timers s e.cid _)]
  exact hc.clear h

theorem QClosed.shutDown (hc : QClosed now P) {s : St} (h : P s.timers) (a : Activity) : P (shutDown s a).1.timers := by
  unfold Client.shutDown
  simp only [drainLoop_tm]
  exact hc.failAll (by rw [pqClose_tm]; exact h) a

theorem QClosed.pollDispatchCore (hc : QClosed now P) {s : St} (h : P s.timers) :
    P (pollDispatchCore s now).1.timers := by
  unfold Client.pollDispatchCore
  split
  · rename_i a _
    have h1 := hc.shutDown h a
    generalize Client.shutDown s a = p at h1 ⊢
    obtain ⟨s1, fin⟩ := p
    exact h1
  · have h1 := hc.run (runFuel s) h
    generalize Client.run (runFuel s) s now = p at h1 ⊢
    obtain ⟨s1, r⟩ := p
    cases r with
    | pending => exact h1
    | ok => exact h1
    | spin => exact h1
    | err a =>
      simp only
      have h3 := hc.shutDown (s := { s1 with termErr := some a }) h1 a
      generalize Client.shutDown { s1 with termErr := some a } a = p at h3 ⊢
      obtain ⟨s2, fin⟩ := p
      exact h3

theorem QClosed.pollDispatchKeep (hc : QClosed now P) {s : St} (h : P s.timers) :
    P (pollDispatchKeep s now).timers := by
  unfold Client.pollDispatchKeep
  split
  · exact h
  · simp only
    have h1 := hc.pollDispatchCore (s := { s with dWoken := false }) h
    generalize Client.pollDispatchCore { s with dWoken := false } now = p at h1 ⊢
    obtain ⟨s1, r⟩ := p
    simp only at h1 ⊢
    have keep : ∀ s2 : St, P s2.timers →
        P (match r with | .pending => s2 | _ => { s2 with done := some r }).timers := by
      intro s2 h2
      cases r <;> exact h2
    apply keep
    split
    · exact h1
    · split
      · exact h1
      · exact h1

theorem QClosed.dropDispatch (hc : QClosed now P) {s : St} (h : P s.timers) : P (dropDispatch s).timers := by
  unfold Client.dropDispatch
  split
  · exact h
  · simp only
    rw [foldl_tm (fun s (e : Entry) => osDropTx s e.cid) (fun s (e : Entry) => osDropTx_timers s e.cid)]
    exact hc.empty

theorem QClosed.pollDispatch (hc : QClosed now P) {s : St} (h : P s.timers) : P (pollDispatch s now).timers := by
  unfold Client.pollDispatch
  simp only
  split
  · exact hc.dropDispatch (hc.pollDispatchKeep h)
  · exact hc.pollDispatchKeep h

theorem QClosed.dropCall (hc : QClosed now P) {s : St} (h : P s.timers) (cid : Nat) (at_ : DropAt) :
    P (dropCall s cid at_ now).timers := by
  rw [dropCall_eq]
  generalize (match getCall s cid with
      | some c => c.phase == Phase.reserving || c.phase == Phase.awaiting
      | none => false) = g
  unfold dropCallG
  simp only
  rw [dropFinish_tm]
  have step : ∀ (b : Bool) (s1 : St), P s1.timers → P (if b = true then Client.pollDispatch s1 now else s1).timers := by
    intro b s1 hs1
    split
    · exact hc.pollDispatch hs1
    · exact hs1
  refine step _ _ ?_
  rw [dropCancel_tm]
  refine step _ _ ?_
  rw [dropClose_tm]
  refine step _ _ ?_
  rw [dropPre_tm]
  exact h

theorem QClosed.onAdvance (hc : QClosed now P) {s : St} (h : P s.timers) (n : Nat) : P (onAdvance s n).timers := by
  unfold Client.onAdvance
  split
  · split
    · rw [wakeDispatch_timers]; exact hc.waker false h
    · exact h
  · exact h

theorem took_tm (ms : List Msg) (s : St) : (ms.foldl (fun s m => emit s (.took (tid s) m)) s).timers = s.timers :=
  foldl_tm (fun s m => emit s (.took (tid s) m)) (fun _ _ => rfl) ms s

/-- **Every operation of the client model except `advance` keeps a predicate that is closed under the queue
operations at the current clock** (`advance` moves the clock; see `QClosed.reach`). -/
theorem QClosed.applyOp {c : Sys} (hc : QClosed c.now P) (h : P c.s.timers) (op : COp) (hop : ∀ n, op ≠ .advance n) :
    P (applyOp c op).s.timers := by
  cases op with
  | call hd d tr b => simp only [Client.applyOp, newCall_tm]; exact h
  | pollCall cid => simp only [Client.applyOp, pollCall_tm]; exact h
  | dropCall cid site => exact hc.dropCall h cid site
  | clone hd => simp only [Client.applyOp, cloneHandle_tm]; exact h
  | dropHandle hd => simp only [Client.applyOp, dropHandle_tm]; exact h
  | pollDispatch => exact hc.pollDispatch h
  | dropDispatch => exact hc.dropDispatch h
  | injectResp id res => simp only [Client.applyOp, liftT_tm]; exact h
  | injectErr => simp only [Client.applyOp, liftT_tm]; exact h
  | eof => simp only [Client.applyOp, liftT_tm]; exact h
  | setReady b => simp only [Client.applyOp, liftT_tm]; exact h
  | setFlush b => simp only [Client.applyOp, liftT_tm]; exact h
  | fault k => exact h
  | faultSkip n => exact h
  | selfWake b => exact h
  | take n =>
    simp only [Client.applyOp]
    rw [took_tm]; exact h
  | advance n => exact absurd rfl (hop n)

/-- Lifting to scripts: a clock-indexed family of predicates on timer queues, each closed under the queue operations
at its clock and monotone in the clock, holds of the timer queue of every reachable state. -/
theorem QClosed.reach (Q : Nat → DelayQ → Prop) (hc : ∀ now, QClosed now (Q now))
    (hmono : ∀ now now' q, now ≤ now' → Q now q → Q now' q) (c : Sys) (h : Q c.now c.s.timers) (ops : List COp) :
    Q (ops.foldl Client.applyOp c).now (ops.foldl Client.applyOp c).s.timers := by
  induction ops generalizing c with
  | nil => exact h
  | cons op ops ih =>
    simp only [List.foldl_cons]
    apply ih
    by_cases hop : ∃ n, op = .advance n
    · obtain ⟨n, rfl⟩ := hop
      exact (hc _).onAdvance (hmono _ _ _ (Nat.le_add_right _ _) h) _
    · have hnow : (Client.applyOp c op).now = c.now := by
        cases op <;> first | rfl | exact absurd ⟨_, rfl⟩ hop
      rw [hnow]
      exact (hc _).applyOp h op (fun n hn => hop ⟨n, hn⟩)

/-! ### the instance: the two-sided wheel invariant -/

/-- clamped timeouts armed before `panicFreeNs` (2^35 ms) are in the strict range of the wheel, whatever the state of
the queue: `ceilMs (now + clamp) ≤ now_ms + clamp_ms + 1 < 2^36`. -/
theorem clamp_inRangeStrict (hf : ClampFits) (q : DelayQ) (now t : Nat) (hn : now < panicFreeNs) :
    DelayQ.InRangeStrict q now (clampTimeout t) := by
  apply DelayQ.inRangeStrict_of_horizon
  have ht := clampTimeout_le hf.1 t
  have h2 := hf.2
  unfold ceilMs nsPerMs
  unfold panicFreeNs nsPerMs at hn
  unfold clampNs at ht
  unfold delayQMaxMs at h2
  generalize clampTimeout t = T at ht
  generalize Gen.clientTimerClampSecs = S at ht h2
  simp only [Nat.reducePow] at *
  omega

theorem complete_waker {q : DelayQ} (h : DelayQ.Complete q) (b : Bool) : DelayQ.Complete { q with waker := b } :=
  ⟨h.strict.of_eq rfl rfl, ⟨h.dok.dsome, h.dok.dle⟩, h.exp⟩

theorem complete_clear (q : DelayQ) : DelayQ.Complete q.clear :=
  ⟨⟨by simp [DelayQ.clear], by simp [DelayQ.clear]⟩, ⟨fun _ => rfl, by simp [DelayQ.clear]⟩, by simp [DelayQ.clear]⟩

/-- the timer queue satisfies the two-sided wheel invariant (while the clock is below `2^35` ms) -/
def QC (now : Nat) (q : DelayQ) : Prop := now < panicFreeNs → DelayQ.Complete q

theorem qc_closed (hf : ClampFits) (now : Nat) : QClosed now (QC now) where
  insert := fun h hi hn => DelayQ.insert_complete hi (h hn) (clamp_inRangeStrict hf _ now _ hn)
  remove := fun h hr hn => DelayQ.remove_complete hr (h hn)
  poll := fun h hn => (DelayQ.pollExpired_complete now (h hn)).1
  clear := fun _ _ => complete_clear _
  empty := fun _ => DelayQ.Complete_empty
  waker := fun b h hn => complete_waker (h hn) b

/-- **Bridge (client).**  In every reachable state whose clock is below `2^35` ms, the dispatch's `DelayQueue`
satisfies the two-sided wheel invariant. -/
theorem qc_reach (hf : ClampFits) (m b tc : Nat) (coupled : Bool) (ops : List COp) :
    QC (ops.foldl applyOp (initSys m b tc coupled)).now (ops.foldl applyOp (initSys m b tc coupled)).s.timers :=
  QClosed.reach QC (qc_closed hf) (fun _ _ _ hle h hn => h (Nat.lt_of_le_of_lt hle hn)) _
    (fun _ => DelayQ.Complete_empty) ops

end TarpcModel.Client

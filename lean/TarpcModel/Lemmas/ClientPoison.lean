import TarpcModel.Lemmas.ClientGeneric
/-!
Poisoning has a visible cause: in every reachable state, `poisoned = true` only if a `panic` or a `spin`
observation was emitted (`isStop`).  One more instance of the `Pres` interface (`Lemmas/ClientPres.lean`): the view's
`rel` keeps the `isStop` observations (`relevant_of_isStop`), and the transitions that set `poisoned` (`panic`,
`poison`, `trunc`, `sendReqFail` / `readHit` with a panicking `remove`) all come with such an observation.

Used by `Lemmas/ClientPanic.lean` / `Props/C16Client.lean`: no panic (bounded clock) and no spin (fixed
`ensure_writeable`) ⇒ never poisoned.
-/
namespace TarpcModel.Client

/-- the dispatch is poisoned only if a stop observation (`panic` / `spin`) is on record -/
def PoisonStop (v : View) : Prop := v.poisoned = true → v.rel.any isStop = true

theorem PoisonStop.of_same {v v' : View} (h : PoisonStop v) (hp : v'.poisoned = v.poisoned)
    (hr : ∀ o ∈ v.rel, o ∈ v'.rel) : PoisonStop v' := by
  intro hp'
  rw [hp] at hp'
  obtain ⟨o, ho, hs⟩ := List.any_eq_true.mp (h hp')
  exact List.any_eq_true.mpr ⟨o, hr o ho, hs⟩

theorem PoisonStop.of_stop {v' : View} {o : Obs} (ho : o ∈ v'.rel) (hs : isStop o = true) : PoisonStop v' :=
  fun _ => List.any_eq_true.mpr ⟨o, ho, hs⟩

/-- the common shape of `sendReqFail` / `readHit`: an entry is removed (its `remove` may panic), an observation is
recorded and a value is sent on a oneshot -/
theorem PoisonStop.removeSend {v : View} (h : PoisonStop v) (inf : List Entry) (pn : Bool) (t : TaskId) (site : String)
    (o : Obs) (cid : Nat) (oc : Outcome) :
    PoisonStop (View.send { v with inflight := inf, poisoned := v.poisoned || pn,
                                   rel := stopObs pn t site ++ o :: v.rel } cid oc) := by
  intro hp
  rw [View.send_poisoned] at hp
  rw [View.send_rel]
  cases pn with
  | true => exact List.any_eq_true.mpr ⟨.panic t site, by simp [stopObs], rfl⟩
  | false =>
    simp only [Bool.or_false] at hp
    obtain ⟨o', ho', hs⟩ := List.any_eq_true.mp (h hp)
    exact List.any_eq_true.mpr ⟨o', by simp [stopObs, ho'], hs⟩

def Poi (x : Option Nat) (v : View) : Prop := Inv x v ∧ PoisonStop v

theorem Poi.presD : PresD Poi where
  inv := fun h => h.1
  stop := fun o h ho => ⟨Inv.presD.stop o h.1 ho, h.2.of_same rfl (fun _ h => List.mem_cons_of_mem _ h)⟩
  panic := fun t site h => ⟨Inv.presD.panic t site h.1, PoisonStop.of_stop (o := .panic t site) List.mem_cons_self rfl⟩
  poison := fun {x v} h hs => ⟨Inv.presD.poison h.1 hs, fun _ => by
    rcases hs with hs | hs
    · exact hs
    · exact h.2 hs⟩
  trunc := fun t h0 h => ⟨Inv.presD.trunc t h0.1 h.1, PoisonStop.of_stop (o := .spin t) List.mem_cons_self rfl⟩
  pqPop := fun h hpq => ⟨Inv.presD.pqPop h.1 hpq, h.2.of_same rfl (fun _ h => h)⟩
  cqPop := fun h hcq => ⟨Inv.presD.cqPop h.1 hcq, h.2.of_same rfl (fun _ h => h)⟩
  infRemove := fun id' h => ⟨Inv.presD.infRemove id' h.1, h.2.of_same rfl (fun _ h => h)⟩
  drop_x := fun h hx => ⟨Inv.presD.drop_x h.1 hx, h.2⟩
  popInsert := fun key rem due h hpq hnc => ⟨Inv.presD.popInsert key rem due h.1 hpq hnc, h.2.of_same rfl (fun _ h => h)⟩
  infRearm := fun id key t due h => ⟨Inv.presD.infRearm id key t due h.1, h.2.of_same rfl (fun _ h => h)⟩
  sendReqOk := fun t body h hp he hid hb =>
    ⟨Inv.presD.sendReqOk t body h.1 hp he hid hb, h.2.of_same rfl (fun _ h => List.mem_cons_of_mem _ h)⟩
  sendReqFail := fun t body pn t' site h hp he hid hb =>
    ⟨Inv.presD.sendReqFail t body pn t' site h.1 hp he hid hb, h.2.removeSend _ pn t' site _ _ _⟩
  sendCancel := fun t ok h hc => ⟨Inv.presD.sendCancel t ok h.1 hc, h.2.of_same rfl (fun _ h => List.mem_cons_of_mem _ h)⟩
  send := fun cid o h h1 h2 h3 h4 => ⟨Inv.presD.send cid o h.1 h1 h2 h3 h4,
    h.2.of_same (View.send_poisoned _ _ _) (fun _ h => by rw [View.send_rel]; exact h)⟩
  readMiss := fun t id' res h hm => ⟨Inv.presD.readMiss t id' res h.1 hm, h.2.of_same rfl (fun _ h => List.mem_cons_of_mem _ h)⟩
  readHit := fun t res pn t' site h he =>
    ⟨Inv.presD.readHit t res pn t' site h.1 he, h.2.removeSend _ pn t' site _ _ _⟩
  infClear := fun h => ⟨Inv.presD.infClear h.1, h.2.of_same rfl (fun _ h => h)⟩
  pqClear := fun h => ⟨Inv.presD.pqClear h.1, h.2.of_same rfl (fun _ h => h)⟩
  cqClear := fun h => ⟨Inv.presD.cqClear h.1, h.2.of_same rfl (fun _ h => h)⟩

theorem Poi.pres : Pres Poi where
  toPresD := Poi.presD
  assign := fun h hc hp => ⟨Inv.pres.assign h.1 hc hp, h.2.of_same rfl (fun _ h => h)⟩
  enqueue := fun h hc hp => ⟨Inv.pres.enqueue h.1 hc hp, h.2.of_same rfl (fun _ h => h)⟩
  resolveVal := fun now h hc hp hv => ⟨Inv.pres.resolveVal now h.1 hc hp hv, h.2.of_same rfl (fun _ h => List.mem_cons_of_mem _ h)⟩
  resolveShut := fun now h hc hp => ⟨Inv.pres.resolveShut now h.1 hc hp, h.2.of_same rfl (fun _ h => List.mem_cons_of_mem _ h)⟩
  guardClose := fun h hc hp => ⟨Inv.pres.guardClose h.1 hc hp, h.2.of_same rfl (fun _ h => h)⟩
  cqPush := fun h hc hp hr => ⟨Inv.pres.cqPush h.1 hc hp hr, h.2.of_same rfl (fun _ h => h)⟩
  dropGuarded := fun h hc hp hr => ⟨Inv.pres.dropGuarded h.1 hc hp hr, h.2.of_same rfl (fun _ h => h)⟩
  dropNP := fun h hc hp => ⟨Inv.pres.dropNP h.1 hc hp, h.2.of_same rfl (fun _ h => h)⟩

theorem applyOp_poi {c : Sys} (h : Poi none (view c.s)) (op : COp) : Poi none (view (applyOp c op).s) := by
  cases op with
  | call hd d tr b =>
    rcases view_newCall c.s hd { deadline := d, trace := tr } b with hv | ⟨_, hv⟩
    · exact hv ▸ h
    · show Poi none (view (newCall c.s hd { deadline := d, trace := tr } b))
      rw [hv]
      exact ⟨h.1.newCall _ _, h.2.of_same rfl (fun _ h => h)⟩
  | pollCall cid => exact pollCall_pres Poi.pres h cid c.now
  | dropCall cid site => exact dropCall_pres Poi.pres h cid site c.now
  | pollDispatch => exact pollDispatch_pres Poi.presD h c.now
  | dropDispatch => exact dropDispatch_pres Poi.presD h
  | clone hd =>
    show Poi none (view (cloneHandle c.s hd))
    rw [view_cloneHandle]; split
    · exact ⟨h.1.of_handles _ _, h.2.of_same rfl (fun _ h => h)⟩
    · exact h
  | dropHandle hd =>
    show Poi none (view (dropHandle c.s hd))
    rw [view_dropHandle]; exact ⟨h.1.of_handles _ _, h.2.of_same rfl (fun _ h => h)⟩
  | injectResp _ _ => rw [view_applyOp_env _ _ trivial]; exact h
  | injectErr => rw [view_applyOp_env _ _ trivial]; exact h
  | eof => rw [view_applyOp_env _ _ trivial]; exact h
  | setReady _ => rw [view_applyOp_env _ _ trivial]; exact h
  | setFlush _ => rw [view_applyOp_env _ _ trivial]; exact h
  | fault _ => rw [view_applyOp_env _ _ trivial]; exact h
  | faultSkip _ => rw [view_applyOp_env _ _ trivial]; exact h
  | selfWake _ => rw [view_applyOp_env _ _ trivial]; exact h
  | take _ => rw [view_applyOp_env _ _ trivial]; exact h
  | advance _ => rw [view_applyOp_env _ _ trivial]; exact h

theorem foldl_poi (ops : List COp) {c : Sys} (h : Poi none (view c.s)) : Poi none (view (ops.foldl applyOp c).s) := by
  induction ops generalizing c with
  | nil => exact h
  | cons op ops ih => exact ih (applyOp_poi h op)

/-- **Poisoning has a visible cause.**  In every state a script reaches, if the dispatch is poisoned then a `panic`
or a `spin` observation is among the observations emitted so far. -/
theorem reach_poisoned_stop (m b tc : Nat) (coupled : Bool) (ops : List COp)
    (hp : (ops.foldl applyOp (initSys m b tc coupled)).s.poisoned = true) :
    ∃ o ∈ (ops.foldl applyOp (initSys m b tc coupled)).s.obs, isStop o = true := by
  have h0 : Poi none (view (initSys m b tc coupled).s) := ⟨init_inv 0 m b tc coupled, fun hp => by cases hp⟩
  obtain ⟨o, ho, hs⟩ := List.any_eq_true.mp ((foldl_poi ops h0).2 hp)
  exact ⟨o, (List.mem_filter.mp ho).1, hs⟩

end TarpcModel.Client

import TarpcModel.Lemmas.ClientFlowSink
/-!
# What the client does to its transport — a closure principle

Every relation `R` on client states that is reflexive and transitive, holds across transport-free steps (`FrameA`:
the transport, `termErr`, `readFused`, the configuration untouched, no transport observation emitted), across each of
the five transport calls (`tReady`, `tFlush`, `tClose`, `tSend`, `tNext`), across the recording of a terminal error and
the spin detector's observation, and keeps the `ensure_writeable` variant, holds across **every op** of a script with the
fixed `ensure_writeable` (`applyOp_trel`; the external transport events are a parameter `X`): the dispatch — its pumps,
the `run` loop, the shutdown path, the polls `drop-call` runs at the guard's yield points — does nothing else to its
transport and emits transport observations nowhere else.  (The client counterpart of `Server.Flow.PrimClosed`, for
properties of the transport and of the transport observations.)
-/
set_option linter.unusedVariables false
namespace TarpcModel.Client.Flow

structure TRel (R : St → St → Prop) : Prop where
  refl : ∀ s, R s s
  trans : ∀ {a b c}, R a b → R b c → R a c
  el : ∀ {s s'}, R s s' → s'.ensureLoop = s.ensureLoop
  frameA : ∀ {s s'}, FrameA s s' → R s s'
  ready : ∀ s, R s (tReady s).1
  flush : ∀ s, R s (tFlush s).1
  close : ∀ s, R s (tClose s).1
  send : ∀ s m, R s (tSend s m).1
  next : ∀ s, R s (tNext s).1
  term : ∀ s a, R s { s with termErr := some a }
  spin : ∀ s, R s (emit s (.spin (tid s)))

section
variable {R : St → St → Prop} (hR : TRel R)
include hR

theorem ensureOnce_trel (s : St) : R s (ensureOnce s).1 := by
  refine ensureOnce_cases (motive := fun p => R s p.1) s ?_ ?_ ?_ ?_ ?_
  · intro s1 h1; have f1 := hR.ready s; rw [h1] at f1; exact f1
  · intro s1 h1; have f1 := hR.ready s; rw [h1] at f1; exact f1
  · intro s1 s2 h1 h2
    have f1 := hR.ready s; rw [h1] at f1
    have f2 := hR.flush s1; rw [h2] at f2
    exact hR.trans f1 f2
  · intro s1 s2 h1 h2
    have f1 := hR.ready s; rw [h1] at f1
    have f2 := hR.flush s1; rw [h2] at f2
    exact hR.trans f1 f2
  · intro s1 s2 s3 r h1 h2 h3
    have f1 := hR.ready s; rw [h1] at f1
    have f2 := hR.flush s1; rw [h2] at f2
    have f3 := hR.ready s2; rw [h3] at f3
    exact hR.trans (hR.trans f1 f2) f3

theorem ensureWriteable_trel (s : St) (hel : s.ensureLoop = false) : R s (ensureWriteable s).1 := by
  unfold ensureWriteable; rw [hel]; exact ensureOnce_trel hR s

theorem pollNextRequest_trel (s : St) (hel : s.ensureLoop = false) : R s (pollNextRequest s).1 := by
  refine pollNextRequest_cases (motive := fun p => R s p.1) s ?_ ?_ ?_
  · intro _; exact hR.refl _
  · intro s1 e _ h1 hne
    have f1 := ensureWriteable_trel hR s hel; rw [h1] at f1; exact f1
  · intro s1 _ h1
    have f1 := ensureWriteable_trel hR s hel; rw [h1] at f1
    exact hR.trans f1 (hR.frameA (nextRequestLoop_frameA (s1.pq.length + 1) s1))

theorem pollWriteRequest_trel (s : St) (now : Nat) (hel : s.ensureLoop = false) : R s (pollWriteRequest s now).1 := by
  have hp := pollNextRequest_trel hR s hel
  refine pollWriteRequest_cases (motive := fun p => R s p.1) s now ?_ ?_ ?_ ?_
  · intro s1 r h1 hns; rw [h1] at hp; exact hp
  · intro s1 r s2 h1 h2 _
    rw [h1] at hp
    exact hR.trans hp (hR.frameA (insertRequest_frameA h2))
  · intro s1 r s2 s3 h1 h2 _ h3
    rw [h1] at hp
    have f3 := hR.send s2 (.request r.id r.ctx.deadline r.ctx.trace r.body); rw [h3] at f3
    exact hR.trans (hR.trans hp (hR.frameA (insertRequest_frameA h2))) f3
  · intro s1 r s2 s3 h1 h2 _ h3
    rw [h1] at hp
    have f3 := hR.send s2 (.request r.id r.ctx.deadline r.ctx.trace r.body); rw [h3] at f3
    exact hR.trans (hR.trans (hR.trans hp (hR.frameA (insertRequest_frameA h2))) f3)
      (hR.frameA (completeRequest_frameA _ _ _))

theorem pollNextCancellation_trel (s : St) (hel : s.ensureLoop = false) : R s (pollNextCancellation s).1 := by
  refine pollNextCancellation_cases (motive := fun p => R s p.1) s ?_ ?_
  · intro s1 e h1 hne
    have f1 := ensureWriteable_trel hR s hel; rw [h1] at f1; exact f1
  · intro s1 h1
    have f1 := ensureWriteable_trel hR s hel; rw [h1] at f1
    exact hR.trans f1 (hR.frameA (nextCancelLoop_frameA (s1.cq.length + 1) s1))

theorem pollWriteCancel_trel (s : St) (hel : s.ensureLoop = false) : R s (pollWriteCancel s).1 := by
  have hp := pollNextCancellation_trel hR s hel
  refine pollWriteCancel_cases (motive := fun p => R s p.1) s ?_ ?_ ?_
  · intro s1 r h1 hns; rw [h1] at hp; exact hp
  · intro s1 e s2 h1 h3
    rw [h1] at hp
    have f3 := hR.send s1 (.cancel e.id e.ctx.trace); rw [h3] at f3
    exact hR.trans hp f3
  · intro s1 e s2 h1 h3
    rw [h1] at hp
    have f3 := hR.send s1 (.cancel e.id e.ctx.trace); rw [h3] at f3
    exact hR.trans hp f3

theorem pumpWrite_trel (s : St) (now : Nat) (hel : s.ensureLoop = false) : R s (pumpWrite s now).1 := by
  refine pumpWrite_cases (motive := fun p => R s p.1) s now ?_ ?_ ?_ ?_ ?_ ?_
  · intro s1 r1 h1 _
    have f1 := pollWriteRequest_trel hR s now hel; rw [h1] at f1; exact f1
  · intro s1 r1 s2 r2 h1 _ h2 _
    have f1 := pollWriteRequest_trel hR s now hel; rw [h1] at f1
    have f2 := pollWriteCancel_trel hR s1 ((hR.el f1).trans hel); rw [h2] at f2
    exact hR.trans f1 f2
  · intro s1 r1 s2 r2 s3 h1 _ h2 _ h3
    have f1 := pollWriteRequest_trel hR s now hel; rw [h1] at f1
    have f2 := pollWriteCancel_trel hR s1 ((hR.el f1).trans hel); rw [h2] at f2
    have f3 := hR.frameA (pollExpired_frameA s2 now); rw [h3] at f3
    exact hR.trans (hR.trans f1 f2) f3
  · intro s1 r1 s2 r2 s3 h1 _ h2 _ h3 _
    have f1 := pollWriteRequest_trel hR s now hel; rw [h1] at f1
    have f2 := pollWriteCancel_trel hR s1 ((hR.el f1).trans hel); rw [h2] at f2
    have f3 := hR.frameA (pollExpired_frameA s2 now); rw [h3] at f3
    exact hR.trans (hR.trans f1 f2) f3
  · intro s1 s2 s3 s4 r4 h1 h2 h3 h4
    have f1 := pollWriteRequest_trel hR s now hel; rw [h1] at f1
    have f2 := pollWriteCancel_trel hR s1 ((hR.el f1).trans hel); rw [h2] at f2
    have f3 := hR.frameA (pollExpired_frameA s2 now); rw [h3] at f3
    have f4 := hR.close s3; rw [h4] at f4
    exact hR.trans (hR.trans (hR.trans f1 f2) f3) f4
  · intro s1 r1 s2 r2 s3 s4 r4 h1 _ h2 _ _ h3 h4
    have f1 := pollWriteRequest_trel hR s now hel; rw [h1] at f1
    have f2 := pollWriteCancel_trel hR s1 ((hR.el f1).trans hel); rw [h2] at f2
    have f3 := hR.frameA (pollExpired_frameA s2 now); rw [h3] at f3
    have f4 := hR.flush s3; rw [h4] at f4
    exact hR.trans (hR.trans (hR.trans f1 f2) f3) f4

theorem pumpRead_trel (s : St) : R s (pumpRead s).1 := by
  have key := hR.next s
  refine pumpRead_cases (motive := fun p => R s p.1) s ?_ ?_ ?_ ?_ ?_
  · intro s1 h1; rw [h1] at key; exact key
  · intro s1 h1; rw [h1] at key; exact key
  · intro s1 h1; rw [h1] at key; exact key
  · intro s1 id res h1
    rw [h1] at key
    exact hR.trans key (hR.frameA (completeRequest_frameA _ _ _))
  · intro s1 m h1 _; rw [h1] at key; exact key

theorem run_trel (now : Nat) : ∀ (fuel : Nat) (s : St), s.ensureLoop = false → R s (run fuel s now).1 := by
  intro fuel
  induction fuel with
  | zero => intro s _; exact hR.spin s
  | succ fuel ih =>
    intro s hel
    have pr := pumpRead_trel hR s
    refine run_cases (motive := fun p => R s p.1) fuel s now ?_ ?_ ?_ ?_ ?_ ?_ ?_ ?_ ?_
    · intro s1 a h1; rw [h1] at pr; exact pr
    · intro s1 h1; rw [h1] at pr; exact pr
    · intro s1 rd s2 a h1 h2
      rw [h1] at pr
      have pw := pumpWrite_trel hR s1 now ((hR.el pr).trans hel); rw [h2] at pw
      exact hR.trans pr pw
    · intro s1 rd s2 h1 h2
      rw [h1] at pr
      have pw := pumpWrite_trel hR s1 now ((hR.el pr).trans hel); rw [h2] at pw
      exact hR.trans pr pw
    · intro s1 s2 wr h1 h2 _
      rw [h1] at pr
      have pw := pumpWrite_trel hR s1 now ((hR.el pr).trans hel); rw [h2] at pw
      exact hR.trans pr pw
    · intro s1 rd s2 h1 _ h2 _
      rw [h1] at pr
      have pw := pumpWrite_trel hR s1 now ((hR.el pr).trans hel); rw [h2] at pw
      exact hR.trans pr pw
    · intro s1 s2 h1 h2 _
      rw [h1] at pr
      have pw := pumpWrite_trel hR s1 now ((hR.el pr).trans hel); rw [h2] at pw
      exact hR.trans pr pw
    · intro s1 rd s2 wr h1 h2 hw
      rw [h1] at pr
      have pw := pumpWrite_trel hR s1 now ((hR.el pr).trans hel); rw [h2] at pw
      have step := hR.trans pr pw
      exact hR.trans step (ih s2 ((hR.el step).trans hel))
    · intro s1 s2 h1 h2
      rw [h1] at pr
      have pw := pumpWrite_trel hR s1 now ((hR.el pr).trans hel); rw [h2] at pw
      exact hR.trans pr pw

theorem pollDispatchCore_trel (s : St) (now : Nat) (hel : s.ensureLoop = false) : R s (pollDispatchCore s now).1 := by
  refine pollDispatchCore_cases (motive := fun p => R s p.1) s now ?_ ?_ ?_ ?_ ?_
  · intro a s1 fin _ h1
    have := hR.frameA (shutDown_frameA s a); rw [h1] at this; exact this
  · intro s1 _ h1; have := run_trel hR now (runFuel s) s hel; rw [h1] at this; exact this
  · intro s1 _ h1; have := run_trel hR now (runFuel s) s hel; rw [h1] at this; exact this
  · intro s1 _ h1
    have := run_trel hR now (runFuel s) s hel; rw [h1] at this
    exact hR.trans this (hR.frameA (by frameA_rfl))
  · intro s1 a s2 fin _ h1 h2
    have h := run_trel hR now (runFuel s) s hel; rw [h1] at h
    have h3 := hR.frameA (shutDown_frameA { s1 with termErr := some a } a); rw [h2] at h3
    exact hR.trans (hR.trans h (hR.term s1 a)) h3

end

/-- one dispatch poll's core observes no spin (fixed `ensure_writeable`) -/
theorem pollDispatchCore_no_spin (s : St) (now : Nat) (hel : s.ensureLoop = false) :
    (pollDispatchCore s now).1.obs.filter isSpinObs = s.obs.filter isSpinObs := by
  have hf : runMeasure s < runFuel s := runMeasure_lt_runFuel _
  refine pollDispatchCore_cases (motive := fun p => p.1.obs.filter isSpinObs = s.obs.filter isSpinObs) s now ?_ ?_ ?_ ?_ ?_
  · intro a s1 fin _ h1
    have := filter_spinObs_of_tObs (shutDown_frameA s a).tobs
    rw [h1] at this; exact this
  · intro s1 _ h1
    have := run_no_spin (runFuel s) s now hel hf
    rw [h1] at this; exact this
  · intro s1 _ h1
    have := run_no_spin (runFuel s) s now hel hf
    rw [h1] at this; exact this
  · intro s1 _ h1
    have := run_no_spin (runFuel s) s now hel hf
    rw [h1] at this; exact this
  · intro s1 a s2 fin _ h1 h2
    have h := run_no_spin (runFuel s) s now hel hf
    rw [h1] at h
    have := filter_spinObs_of_tObs (shutDown_frameA { s1 with termErr := some a } a).tobs
    rw [h2] at this; exact this.trans h

section
variable {R : St → St → Prop} (hR : TRel R)
include hR

theorem pollDispatchKeep_trel (s : St) (now : Nat) (hel : s.ensureLoop = false) : R s (pollDispatchKeep s now) := by
  rw [pollDispatchKeep_eq]
  split
  · exact hR.frameA (emit_frameA _ _ rfl)
  · have h0 : R s { s with dWoken := false } := hR.frameA (by frameA_rfl)
    have hcore := pollDispatchCore_trel hR { s with dWoken := false } now hel
    have hsp := pollDispatchCore_no_spin { s with dWoken := false } now hel
    revert hcore hsp
    generalize pollDispatchCore { s with dWoken := false } now = p
    obtain ⟨s1, r⟩ := p
    intro hcore hsp
    simp only at hcore hsp ⊢
    have hk : R s1 (keepFinish s.obs s1 r) := by
      unfold keepFinish
      have hsp' : s1.obs.filter isSpinObs = s.obs.filter isSpinObs := hsp
      rw [any_eq_filter_ne_nil, any_eq_filter_ne_nil, hsp']
      simp only [Bool.and_not_self, Bool.false_eq_true, ↓reduceIte]
      split
      · exact hR.refl _
      · exact hR.trans (hR.frameA (emit_frameA _ _ rfl)) (hR.frameA (emit_frameA _ _ rfl))
    have hd : R (keepFinish s.obs s1 r) (keepDone r (keepFinish s.obs s1 r)) := by
      unfold keepDone
      split
      · exact hR.refl _
      · exact hR.frameA (by frameA_rfl)
    exact hR.trans (hR.trans (hR.trans h0 hcore) hk) hd

theorem pollDispatch_trel (s : St) (now : Nat) (hel : s.ensureLoop = false) : R s (pollDispatch s now) := by
  have hk := pollDispatchKeep_trel hR s now hel
  rw [pollDispatch_eq]
  split
  · exact hR.trans hk (hR.frameA (dropDispatch_frameA _))
  · exact hk

theorem dropCall_trel (s : St) (cid : Nat) (at_ : DropAt) (now : Nat) (hel : s.ensureLoop = false) :
    R s (dropCall s cid at_ now) := by
  unfold dropCall
  dsimp only
  have step : ∀ (b : Bool) (x : St), R s x → R s (if b = true then pollDispatch x now else x) := by
    intro b x hx; split
    · exact hR.trans hx (pollDispatch_trel hR x now ((hR.el hx).trans hel))
    · exact hx
  exact hR.trans (step _ _ (hR.trans (step _ _ (hR.trans (step _ _ (hR.frameA (dropPre_frameA s cid)))
    (hR.frameA (dropClose_frameA _ cid)))) (hR.frameA (dropCancel_frameA _ cid))))
    (hR.frameA (dropFinish_frameA _ cid))

/-- **Every op.**  (`X`: what the external transport events — injections, end of stream, readiness switches, armed
faults, the harness taking written messages — may do to the transport.) -/
theorem applyOp_trel (X : SimT → SimT → Prop) (hX : ∀ s t', X s.t t' → R s { s with t := t' })
    (hinj : ∀ t i, X t (t.inject i).1) (heof : ∀ t, X t t.setEof.1) (hrd : ∀ t b, X t (t.setReady b).1)
    (hfl : ∀ t b, X t (t.setFlush b).1) (hfault : ∀ t k, X t (armFault t k)) (hskip : ∀ t n, X t { t with faultSkip := n })
    (hsw : ∀ t b, X t { t with selfWake := b }) (htake : ∀ t n, X t (t.take n).1)
    (c : Sys) (op : COp) (hel : c.s.ensureLoop = false) : R c.s (applyOp c op).s := by
  have hlift : ∀ r : SimT × Bool, X c.s.t r.1 → R c.s (liftT c.s r) := by
    intro r hx
    unfold liftT; dsimp only; split
    · exact hR.trans (hX c.s r.1 hx) (hR.frameA (wakeDispatch_frameA _))
    · exact hX c.s r.1 hx
  cases op with
  | call hd d tr b => exact hR.frameA (newCall_frameA _ _ _ _)
  | pollCall cid => exact hR.frameA (pollCall_frameA _ _ _)
  | dropCall cid site => exact dropCall_trel hR _ _ _ _ hel
  | clone hd => exact hR.frameA (cloneHandle_frameA _ _)
  | dropHandle hd => exact hR.frameA (dropHandle_frameA _ _)
  | pollDispatch => exact pollDispatch_trel hR _ _ hel
  | dropDispatch => exact hR.frameA (dropDispatch_frameA _)
  | injectResp id res => exact hlift _ (hinj _ _)
  | injectErr => exact hlift _ (hinj _ _)
  | eof => exact hlift _ (heof _)
  | setReady b => exact hlift _ (hrd _ _)
  | setFlush b => exact hlift _ (hfl _ _)
  | fault k => exact hX c.s _ (hfault _ _)
  | faultSkip n => exact hX c.s _ (hskip _ _)
  | selfWake b => exact hX c.s _ (hsw _ _)
  | take n =>
    have h1 : R c.s { c.s with t := (c.s.t.take n).1 } := hX c.s _ (htake _ _)
    show R c.s ((c.s.t.take n).2.foldl (fun s m => emit s (.took (tid s) m)) { c.s with t := (c.s.t.take n).1 })
    generalize ({ c.s with t := (c.s.t.take n).1 } : St) = s1 at h1
    generalize (c.s.t.take n).2 = ms
    induction ms generalizing s1 with
    | nil => exact h1
    | cons m ms ih => exact ih _ (hR.trans h1 (hR.frameA (emit_frameA _ _ rfl)))
  | advance n => exact hR.frameA (onAdvance_frameA _ _)

end

end TarpcModel.Client.Flow

import TarpcModel.Lemmas.ClientIds
/-!
The interface between the model functions and a view-level invariant: `Pres P` lists the view-level
transitions the client model is made of; a predicate `P` closed under them (and implying `Inv`) is
preserved by every model function (`Lemmas/ClientGeneric.lean`).  `Inv` itself is one instance; the coupling with
the monitors' bookkeeping is another (`Lemmas/ClientBook.lean`).
-/
namespace TarpcModel.Client

def isStop : Obs → Bool
  | .spin _ => true
  | .panic _ _ => true
  | _ => false

theorem relevant_of_isStop {o : Obs} (h : isStop o = true) : relevant o = true := by
  cases o <;> simp_all [isStop, relevant]

/-- What is known about an entry taken out of the in-flight table by a queued cancellation. -/
structure CanOk (v : View) (e : Entry) : Prop where
  sent : v.poisoned = false → e.id ∈ reqIds v.sentLog
  notCancelled : e.id ∉ cancelIds v.sentLog
  notInf : ∀ e' ∈ v.inflight, e'.id ≠ e.id
  call : ∃ i c, v.get i = some c ∧ c.polled ∧ c.id = e.id ∧ e.ctx.trace = c.trace ∧ c.rxClosed = true ∧
          okLike c.outcome = false ∧ okLike c.val = false

def stopObs (pn : Bool) (t : TaskId) (site : String) : List Obs := if pn then [.panic t site] else []

/-- the transitions of the dispatch task -/
structure PresD (P : Option Nat → View → Prop) : Prop where
  inv : ∀ {x v}, P x v → Inv x v
  stop : ∀ {x v} (o : Obs), P x v → isStop o = true → P x { v with rel := o :: v.rel }
  panic : ∀ {x v} (t : TaskId) (site : String), P x v → P x { v with poisoned := true, rel := .panic t site :: v.rel }
  poison : ∀ {x v}, P x v → (v.rel.any isStop = true ∨ v.poisoned = true) → P x { v with poisoned := true }
  trunc : ∀ {x y v0 v} (t : TaskId), P x v0 → P y v → P y { v with rel := .spin t :: v0.rel, poisoned := true }
  pqPop : ∀ {x v r rest}, P x v → v.pq = r :: rest → P x { v with pq := rest }
  cqPop : ∀ {x v i rest}, P x v → v.cq = i :: rest → P x { v with cq := rest }
  infRemove : ∀ {x v} (id : Nat), P x v → P x { v with inflight := v.inflight.filter (·.id != id) }
  drop_x : ∀ {v id}, P (some id) v → (v.poisoned = true ∨ ∀ e ∈ v.inflight, e.id ≠ id) → P none v
  popInsert : ∀ {v r rest} (key rem due : Nat), P none v → v.pq = r :: rest → (∃ c, v.get r.cid = some c ∧ c.rxClosed = false) →
      P (some r.id) { v with pq := rest, inflight := v.inflight ++ [{ id := r.id, cid := r.cid, ctx := r.ctx, timerKey := key, remainder := rem, dueAt := due }] }
  /-- a deadline timer is re-armed: the entry gets a new timer key and a smaller remainder -/
  infRearm : ∀ {x v} (id key t due : Nat), P x v → P x { v with inflight := v.inflight.map (rearmEntry id key t due) }
  sendReqOk : ∀ {v id e} (t : TaskId) (body : Nat), P (some id) v → v.poisoned = false → e ∈ v.inflight → e.id = id →
      (∃ c, v.get e.cid = some c ∧ c.rxClosed = false ∧ body = c.body) →
      P none { v with sentLog := v.sentLog ++ [Msg.request id e.ctx.deadline e.ctx.trace body], rel := .tSend t (Msg.request id e.ctx.deadline e.ctx.trace body) true :: v.rel }
  sendReqFail : ∀ {v id e} (t : TaskId) (body : Nat) (pn : Bool) (t' : TaskId) (site : String),
      P (some id) v → v.poisoned = false → e ∈ v.inflight → e.id = id →
      (∃ c, v.get e.cid = some c ∧ c.rxClosed = false ∧ body = c.body) →
      P none (View.send { v with inflight := v.inflight.filter (·.id != id), poisoned := v.poisoned || pn, rel := stopObs pn t' site ++ .tSend t (Msg.request id e.ctx.deadline e.ctx.trace body) false :: v.rel } e.cid .send)
  sendCancel : ∀ {v e} (t : TaskId) (ok : Bool), P none v → CanOk v e →
      P none { v with sentLog := if ok then v.sentLog ++ [Msg.cancel e.id e.ctx.trace] else v.sentLog, rel := .tSend t (Msg.cancel e.id e.ctx.trace) ok :: v.rel }
  send : ∀ {x v} (cid : Nat) (o : Outcome), P x v → (∀ r ∈ v.pq, r.cid ≠ cid) → (∀ e ∈ v.inflight, e.cid ≠ cid) →
      (∀ c, v.get cid = some c → c.enq) → okLike (some o) = false → P x (v.send cid o)
  readMiss : ∀ {v} (t : TaskId) (id : Nat) (res : Res), P none v → (∀ e ∈ v.inflight, e.id ≠ id) →
      P none { v with rel := .tNext t (.item (.response id res)) :: v.rel }
  readHit : ∀ {v e} (t : TaskId) (res : Res) (pn : Bool) (t' : TaskId) (site : String), P none v → e ∈ v.inflight →
      P none (View.send { v with inflight := v.inflight.filter (·.id != e.id), poisoned := v.poisoned || pn, rel := stopObs pn t' site ++ .tNext t (.item (.response e.id res)) :: v.rel } e.cid (outcomeOf res))
  infClear : ∀ {x v}, P x v → P x { v with inflight := [] }
  pqClear : ∀ {x v}, P x v → P x { v with pq := [] }
  cqClear : ∀ {x v}, P x v → P x { v with cq := [] }

/-- ... and those of the call futures -/
structure Pres (P : Option Nat → View → Prop) : Prop extends PresD P where
  assign : ∀ {x v cid c}, P x v → v.get cid = some c → c.phase = .notPolled →
      P x (v.assign cid { c.ctx.trace with span := .fresh v.nextFresh })
  enqueue : ∀ {x v cid c}, P x v → v.get cid = some c → c.phase = .reserving →
      P x { v.upd cid (fun c => { c with phase := .awaiting }) with pq := v.pq ++ [{ cid := cid, id := c.id, ctx := { deadline := c.ctx.deadline, trace := c.trace }, body := c.body }] }
  resolveVal : ∀ {x v cid c o} (now : Nat), P x v → v.get cid = some c → c.phase = .awaiting → c.val = some o →
      P x { v.upd cid (fun c => { c with val := none, phase := .resolved, outcome := some o, rxClosed := true }) with rel := .resolved cid o now :: v.rel }
  resolveShut : ∀ {x v cid c} (now : Nat), P x v → v.get cid = some c → (c.phase = .reserving ∨ c.phase = .awaiting) →
      P x { v.upd cid (fun c => { c with phase := .resolved, outcome := some .shutdown, rxClosed := true }) with rel := .resolved cid .shutdown now :: v.rel }
  guardClose : ∀ {x v cid c}, P x v → v.get cid = some c → (c.phase = .reserving ∨ c.phase = .awaiting) →
      P x (v.upd cid (fun c => { c with rxClosed := true }))
  cqPush : ∀ {x v cid c}, P x v → v.get cid = some c → c.polled → c.rxClosed = true → P x { v with cq := v.cq ++ [c.id] }
  dropGuarded : ∀ {x v cid c}, P x v → v.get cid = some c → (c.phase = .reserving ∨ c.phase = .awaiting) → c.rxClosed = true →
      P x (v.upd cid (fun c => { c with phase := .dropped }))
  dropNP : ∀ {x v cid c}, P x v → v.get cid = some c → c.phase = .notPolled → P x (v.upd cid (fun c => { c with phase := .dropped }))

/-- after an entry is removed its call is an orphan: nothing tracked refers to it -/
theorem Inv.orphan {x : Option Nat} {v : View} (hi : Inv x v) {e : Entry} (he : e ∈ v.inflight) :
    (∀ r ∈ v.pq, r.cid ≠ e.cid) ∧ (∀ e' ∈ v.inflight.filter (·.id != e.id), e'.cid ≠ e.cid) ∧
    (∀ c, v.get e.cid = some c → c.enq) ∧
    (∀ c tr, v.get e.cid = some c → Msg.cancel c.id tr ∉ v.sentLog) := by
  obtain ⟨c, hc, a1, a2, a4, a5, a6⟩ := hi.inf e he
  refine ⟨?_, ?_, ?_, ?_⟩
  · intro r hr h
    obtain ⟨c1, hc1, _, b2, _⟩ := hi.pq r hr
    have hc1' : v.get e.cid = some c1 := h ▸ hc1
    rw [hc] at hc1'; injection hc1' with hc1'; subst hc1'
    exact hi.disj r hr e he (by omega)
  · intro e' he' h
    have hm := List.mem_filter.mp he'
    obtain ⟨c1, hc1, _, b2, _⟩ := hi.inf e' hm.1
    have hc1' : v.get e.cid = some c1 := h ▸ hc1
    rw [hc] at hc1'; injection hc1' with hc1'; subst hc1'
    have := hm.2
    simp only [bne_iff_ne, ne_eq] at this
    omega
  · intro c' hc'
    rw [hc] at hc'; injection hc' with hc'; subst hc'; exact a1
  · intro c' tr hc' hm
    rw [hc] at hc'; injection hc' with hc'; subst hc'
    obtain ⟨_, b, _⟩ := hi.canCall c.id tr hm
    exact b e he a2.symm

/-- `Inv` is closed under the transitions. -/
theorem Inv.presD : PresD Inv where
  inv := id
  stop := fun _ hi _ => hi.of_rel _
  panic := fun _ _ hi => hi.poison.of_rel _
  poison := fun hi _ => hi.poison
  trunc := fun {_ _ v0 _} t _ hi => (hi.of_rel (.spin t :: v0.rel)).poison
  pqPop := fun hi h => (hi.pqPop h).1
  cqPop := fun hi h => (hi.cqPop h).1
  infRemove := fun id hi => hi.infRemove id
  drop_x := fun hi h => hi.drop_x h
  popInsert := fun key rem due hi hpq hnc => (hi.pqPop hpq).1.infInsert (hi.pqPop hpq).2 hnc key rem due
  infRearm := fun id key t due hi => hi.infMap _ (rearmEntry_same id key t due)
  sendReqOk := fun _ body hi hp he hid hb =>
    (hi.sendReq hp he hid body (fun c hc => by
      obtain ⟨c', hc', _, h⟩ := hb; rw [hc] at hc'; injection hc' with hc'; subst hc'; exact h)).of_rel _
  sendReqFail := fun {v id e} t body pn t' site hi _ he hid _ => by
    subst hid
    obtain ⟨o1, o2, o3, _⟩ := hi.orphan he
    have h1 : Inv (some e.id) { v with inflight := v.inflight.filter (·.id != e.id), poisoned := v.poisoned || pn, rel := stopObs pn t' site ++ .tSend t (Msg.request e.id e.ctx.deadline e.ctx.trace body) false :: v.rel } := by
      cases pn with
      | false => simpa using (hi.infRemove e.id).of_rel _
      | true => simpa using ((hi.infRemove e.id).of_rel _).poison
    have h2 := h1.send e.cid .send o1 o2 o3 (fun h => by cases h)
    refine h2.drop_x (Or.inr ?_)
    intro e' he'
    rw [View.send_inflight] at he'
    have := (List.mem_filter.mp he').2
    simpa using this
  sendCancel := fun _ ok hi hc => by
    cases ok with
    | true => exact (hi.sendCancel _ _ hc.sent hc.notCancelled hc.notInf hc.call).of_rel _
    | false => exact hi.of_rel _
  send := fun cid o hi h1 h2 h3 h4 => hi.send cid o h1 h2 h3 (fun h => by rw [h4] at h; cases h)
  readMiss := fun _ _ _ hi _ => hi.of_rel _
  readHit := fun {v e} t res pn t' site hi he => by
    obtain ⟨o1, o2, o3, o4⟩ := hi.orphan he
    have h1 : Inv none { v with inflight := v.inflight.filter (·.id != e.id), poisoned := v.poisoned || pn, rel := stopObs pn t' site ++ .tNext t (.item (.response e.id res)) :: v.rel } := by
      cases pn with
      | false => simpa using (hi.infRemove e.id).of_rel _
      | true => simpa using ((hi.infRemove e.id).of_rel _).poison
    exact h1.send e.cid _ o1 o2 o3 (fun _ c tr hc => o4 c tr hc)
  infClear := fun hi => hi.infClear
  pqClear := fun hi => hi.pqClear
  cqClear := fun hi => hi.cqClear

theorem Inv.pres : Pres Inv where
  toPresD := Inv.presD
  assign := fun hi hc hp => hi.assign hc hp _ rfl
  enqueue := fun hi hc hp => hi.enqueue hc hp
  resolveVal := fun _ hi hc hp hv => (hi.resolveVal hc hp hv).of_rel _
  resolveShut := fun _ hi hc hp => (hi.resolveShut hc hp).of_rel _
  guardClose := fun hi hc hp => hi.guardClose hc hp
  cqPush := fun hi hc hp hr => hi.cqPush hc hp hr
  dropGuarded := fun hi hc hp hr => hi.dropGuarded hc hp hr
  dropNP := fun hi hc hp => hi.dropNP hc hp

/-- removing an entry (possibly panicking on its timer) and sending a non-reply on its call's oneshot -/
theorem PresD.completeN {P : Option Nat → View → Prop} (hP : PresD P) {x : Option Nat} {v : View} {e : Entry}
    (h : P x v) (he : e ∈ v.inflight) (o : Outcome) (ho : okLike (some o) = false)
    (pn : Bool) (t : TaskId) (site : String) :
    P x (View.send { v with inflight := v.inflight.filter (·.id != e.id), poisoned := v.poisoned || pn, rel := stopObs pn t site ++ v.rel } e.cid o) := by
  obtain ⟨o1, o2, o3, _⟩ := (hP.inv h).orphan he
  have h1 := hP.infRemove e.id h
  cases pn with
  | false =>
    have : ({ v with inflight := v.inflight.filter (·.id != e.id), poisoned := v.poisoned || false, rel := stopObs false t site ++ v.rel } : View) = { v with inflight := v.inflight.filter (·.id != e.id) } := by
      simp [stopObs]
    rw [this]
    exact hP.send e.cid o h1 o1 o2 o3 ho
  | true =>
    have : ({ v with inflight := v.inflight.filter (·.id != e.id), poisoned := v.poisoned || true, rel := stopObs true t site ++ v.rel } : View) = { ({ v with inflight := v.inflight.filter (·.id != e.id) } : View) with poisoned := true, rel := .panic t site :: v.rel } := by
      simp [stopObs]
    rw [this]
    exact hP.send e.cid o (hP.panic t site h1) o1 o2 o3 ho

/-- a queued cancellation finds its entry: the entry is removed (possibly panicking on its timer) -/
theorem PresD.cancelEntry {P : Option Nat → View → Prop} (hP : PresD P) {v : View} {e : Entry}
    (h : P none v) (he : e ∈ v.inflight)
    (hcl : ∃ j c, v.get j = some c ∧ c.polled ∧ c.id = e.id ∧ c.rxClosed = true)
    (pn : Bool) (t : TaskId) (site : String) :
    P none { v with inflight := v.inflight.filter (·.id != e.id), poisoned := v.poisoned || pn, rel := stopObs pn t site ++ v.rel } ∧
    CanOk { v with inflight := v.inflight.filter (·.id != e.id), poisoned := v.poisoned || pn, rel := stopObs pn t site ++ v.rel } e := by
  have hi := hP.inv h
  constructor
  · have h1 := hP.infRemove e.id h
    cases pn with
    | false =>
      have : ({ v with inflight := v.inflight.filter (·.id != e.id), poisoned := v.poisoned || false, rel := stopObs false t site ++ v.rel } : View) = { v with inflight := v.inflight.filter (·.id != e.id) } := by
        simp [stopObs]
      rw [this]; exact h1
    | true =>
      have : ({ v with inflight := v.inflight.filter (·.id != e.id), poisoned := v.poisoned || true, rel := stopObs true t site ++ v.rel } : View) = { ({ v with inflight := v.inflight.filter (·.id != e.id) } : View) with poisoned := true, rel := .panic t site :: v.rel } := by
        simp [stopObs]
      rw [this]; exact hP.panic t site h1
  · refine ⟨fun hp => hi.infSent (by simp only [Bool.or_eq_false_iff] at hp; exact hp.1) e he (by simp), ?_, ?_, ?_⟩
    · intro h
      obtain ⟨tr, hm⟩ := mem_cancelIds.mp h
      exact (hi.canCall e.id tr hm).2.1 e he rfl
    · intro e' he'
      have := (List.mem_filter.mp he').2
      simpa using this
    · obtain ⟨c, hc, a1, a2, a4, a5, a6⟩ := hi.inf e he
      obtain ⟨j, c0, hc0, p0, id0, rx0⟩ := hcl
      have : j = e.cid := hi.idInj j e.cid c0 c hc0 hc p0 a1.polled (by omega)
      subst this
      rw [hc] at hc0; injection hc0 with hc0; subst hc0
      exact ⟨e.cid, c, hc, p0, a2, by rw [a4], rx0, a6, by rw [a5]; rfl⟩

/-! ### sending on the oneshots of orphaned calls -/

theorem View.get_send {v : View} {cid : Nat} {o : Outcome} {i : Nat} {c' : CallV}
    (h : (v.send cid o).get i = some c') : ∃ c, v.get i = some c ∧ c'.phase = c.phase ∧ c'.rxClosed = c.rxClosed := by
  unfold View.send at h
  split at h
  · exact ⟨c', h, rfl, rfl⟩
  · split at h
    · exact ⟨c', h, rfl, rfl⟩
    · rw [View.get_upd] at h
      split at h
      · cases hg : v.get i with
        | none => rw [hg] at h; simp at h
        | some c => rw [hg] at h; simp at h; exact ⟨c, rfl, by rw [← h], by rw [← h]⟩
      · exact ⟨c', h, rfl, rfl⟩

theorem PresD.sendAll {P : Option Nat → View → Prop} (hP : PresD P) {x : Option Nat} (o : Outcome)
    (ho : okLike (some o) = false) (es : List Entry) {v : View} (h : P x v) (hinf : v.inflight = [])
    (hes : ∀ e ∈ es, (∀ r ∈ v.pq, r.cid ≠ e.cid) ∧ ∀ c, v.get e.cid = some c → c.enq) :
    P x (es.foldl (fun v e => v.send e.cid o) v) := by
  induction es generalizing v with
  | nil => exact h
  | cons e es ih =>
    simp only [List.foldl_cons]
    obtain ⟨h1, h2⟩ := hes e List.mem_cons_self
    refine ih (hP.send e.cid o h h1 (by rw [hinf]; intro _ h; cases h) h2 ho) (by simp [hinf]) ?_
    intro e' he'
    obtain ⟨h3, h4⟩ := hes e' (List.mem_cons_of_mem _ he')
    refine ⟨by simpa using h3, fun c' hc' => ?_⟩
    obtain ⟨c, hc, hp, hr⟩ := View.get_send hc'
    have := h4 c hc
    simp only [CallV.enq] at this ⊢
    rw [hp, hr]; exact this

theorem Deq.orphan {x : Option Nat} {v : View} (hi : Inv x v) {r : DReq} (hd : Deq v r) :
    (∀ r' ∈ v.pq, r'.cid ≠ r.cid) ∧ (∀ e ∈ v.inflight, e.cid ≠ r.cid) ∧ (∀ c, v.get r.cid = some c → c.enq) := by
  obtain ⟨c, hc, a1, a2, _⟩ := hd.call
  refine ⟨fun r' hr' h => ?_, fun e he h => ?_, fun c' hc' => ?_⟩
  · obtain ⟨c1, hc1, _, b2, _⟩ := hi.pq r' hr'
    rw [h, hc] at hc1; injection hc1 with hc1; subst hc1
    exact hd.notPq r' hr' (by omega)
  · obtain ⟨c1, hc1, _, b2, _⟩ := hi.inf e he
    rw [h, hc] at hc1; injection hc1 with hc1; subst hc1
    exact hd.notInf e he (by omega)
  · rw [hc] at hc'; injection hc' with hc'; subst hc'; exact a1

/-! ### the dispatch does not touch the phases of the calls and never re-opens a receiver -/

def Frame (v0 v : View) : Prop :=
  ∀ i c', v.get i = some c' → ∃ c, v0.get i = some c ∧ c'.phase = c.phase ∧ (c.rxClosed = true → c'.rxClosed = true)

theorem Frame.refl (v : View) : Frame v v := fun _ c' h => ⟨c', h, rfl, id⟩

theorem Frame.send {v0 v : View} (h : Frame v0 v) (cid : Nat) (o : Outcome) : Frame v0 (v.send cid o) := by
  intro i c' hc'
  obtain ⟨c1, hc1, hp, hr⟩ := View.get_send hc'
  obtain ⟨c, hc, hp2, hr2⟩ := h i c1 hc1
  exact ⟨c, hc, by rw [hp, hp2], fun hx => by rw [hr]; exact hr2 hx⟩

theorem PresD.withFrame {P : Option Nat → View → Prop} (hP : PresD P) (v0 : View) :
    PresD (fun x v => P x v ∧ Frame v0 v) where
  inv := fun h => hP.inv h.1
  stop := fun o h ho => ⟨hP.stop o h.1 ho, h.2⟩
  panic := fun t site h => ⟨hP.panic t site h.1, h.2⟩
  poison := fun h hs => ⟨hP.poison h.1 hs, h.2⟩
  trunc := fun t h0 h => ⟨hP.trunc t h0.1 h.1, h.2⟩
  pqPop := fun h hpq => ⟨hP.pqPop h.1 hpq, h.2⟩
  cqPop := fun h hcq => ⟨hP.cqPop h.1 hcq, h.2⟩
  infRemove := fun id h => ⟨hP.infRemove id h.1, h.2⟩
  drop_x := fun h hx => ⟨hP.drop_x h.1 hx, h.2⟩
  popInsert := fun key rem due h hpq hnc => ⟨hP.popInsert key rem due h.1 hpq hnc, h.2⟩
  infRearm := fun id key t due h => ⟨hP.infRearm id key t due h.1, h.2⟩
  sendReqOk := fun t body h hp he hid hb => ⟨hP.sendReqOk t body h.1 hp he hid hb, h.2⟩
  sendReqFail := fun {v id e} t body pn t' site h hp he hid hb => ⟨hP.sendReqFail t body pn t' site h.1 hp he hid hb,
    Frame.send (v := { v with inflight := v.inflight.filter (·.id != id), poisoned := v.poisoned || pn, rel := stopObs pn t' site ++ .tSend t (Msg.request id e.ctx.deadline e.ctx.trace body) false :: v.rel }) h.2 e.cid _⟩
  sendCancel := fun t ok h hc => ⟨hP.sendCancel t ok h.1 hc, h.2⟩
  send := fun cid o h h1 h2 h3 h4 => ⟨hP.send cid o h.1 h1 h2 h3 h4, h.2.send cid o⟩
  readMiss := fun t id res h hm => ⟨hP.readMiss t id res h.1 hm, h.2⟩
  readHit := fun {v e} t res pn t' site h he => ⟨hP.readHit t res pn t' site h.1 he,
    Frame.send (v := { v with inflight := v.inflight.filter (·.id != e.id), poisoned := v.poisoned || pn, rel := stopObs pn t' site ++ .tNext t (.item (.response e.id res)) :: v.rel }) h.2 e.cid _⟩
  infClear := fun h => ⟨hP.infClear h.1, h.2⟩
  pqClear := fun h => ⟨hP.pqClear h.1, h.2⟩
  cqClear := fun h => ⟨hP.cqClear h.1, h.2⟩

/-! ### a new call future -/

def CallV.fresh (cid : Nat) (ctx : Ctx) (body : Nat) : CallV :=
  { cid := cid, ctx := ctx, body := body, phase := .notPolled, id := 0, trace := ctx.trace, rxClosed := false,
    val := none, outcome := none }

theorem View.get_append (v : View) (c : CallV) (i : Nat) :
    View.get { v with calls := v.calls ++ [c] } i = (v.get i).or (if c.cid = i then some c else none) := by
  simp only [View.get, List.find?_append, List.find?_cons, List.find?_nil]
  by_cases h : c.cid = i
  · simp [h]
  · have : (c.cid == i) = false := by simpa using h
    simp [h, this]

theorem Inv.get_newCall {x : Option Nat} {v : View} (hi : Inv x v) (ctx : Ctx) (body : Nat) (i : Nat) :
    View.get { v with calls := v.calls ++ [CallV.fresh v.calls.length ctx body] } i =
      if i = v.calls.length then some (CallV.fresh v.calls.length ctx body) else v.get i := by
  rw [View.get_append]
  by_cases h : i = v.calls.length
  · subst h
    cases hg : v.get v.calls.length with
    | none => simp [CallV.fresh]
    | some c => exact absurd (hi.cidLt _ c hg) (Nat.lt_irrefl _)
  · have : ¬ (CallV.fresh v.calls.length ctx body).cid = i := fun h' => h h'.symm
    simp [this, h]

theorem Inv.newCall {x : Option Nat} {v : View} (hi : Inv x v) (ctx : Ctx) (body : Nat) :
    Inv x { v with calls := v.calls ++ [CallV.fresh v.calls.length ctx body] } := by
  have hg := hi.get_newCall ctx body
  have old : ∀ i c, v.get i = some c → View.get { v with calls := v.calls ++ [CallV.fresh v.calls.length ctx body] } i = some c := by
    intro i c hc
    rw [hg, if_neg (Nat.ne_of_lt (hi.cidLt i c hc))]; exact hc
  have cases' : ∀ i c, View.get { v with calls := v.calls ++ [CallV.fresh v.calls.length ctx body] } i = some c →
      (i = v.calls.length ∧ c = CallV.fresh v.calls.length ctx body) ∨ v.get i = some c := by
    intro i c hc
    rw [hg] at hc
    split at hc
    · left; injection hc with hc; exact ⟨‹_›, hc.symm⟩
    · right; exact hc
  have hnp : ¬ (CallV.fresh v.calls.length ctx body).polled := by simp [CallV.polled, CallV.fresh]
  constructor
  · simp only [List.map_append, List.map_cons, List.map_nil, List.length_append, List.length_cons, List.length_nil]
    rw [List.range_succ, hi.cids]; rfl
  · intro i c hc
    simp only [List.length_append, List.length_cons, List.length_nil]
    rcases cases' i c hc with ⟨h, _⟩ | h
    · omega
    · have := hi.cidLt i c h; omega
  · exact hi.fresh
  · intro i c hc hp
    rcases cases' i c hc with ⟨_, h⟩ | h
    · subst h; exact absurd hp hnp
    · exact hi.idLt i c h hp
  · intro i j c d hc hd pc pd hid
    rcases cases' i c hc with ⟨_, h⟩ | h
    · subst h; exact absurd pc hnp
    · rcases cases' j d hd with ⟨_, h'⟩ | h'
      · subst h'; exact absurd pd hnp
      · exact hi.idInj i j c d h h' pc pd hid
  · intro i c hc hp
    rcases cases' i c hc with ⟨_, h⟩ | h
    · subst h; exact absurd hp hnp
    · exact hi.tr i c h hp
  · intro i c hc
    rcases cases' i c hc with ⟨_, h⟩ | h
    · subst h; simp [CallV.fresh]
    · exact hi.outc i c h
  · intro i c hc
    rcases cases' i c hc with ⟨_, h⟩ | h
    · subst h; simp [CallV.fresh]
    · exact hi.np i c h
  · intro i c hc
    rcases cases' i c hc with ⟨_, h⟩ | h
    · subst h; simp [CallV.fresh]
    · exact hi.early i c h
  · intro r hr
    obtain ⟨c, hc, a⟩ := hi.pq r hr
    exact ⟨c, old _ c hc, a⟩
  · exact hi.pqNodup
  · intro e he
    obtain ⟨c, hc, a⟩ := hi.inf e he
    exact ⟨c, old _ c hc, a⟩
  · exact hi.infNodup
  · exact hi.disj
  · intro id hid
    obtain ⟨i, c, hc, a⟩ := hi.cq id hid
    exact ⟨i, c, old _ c hc, a⟩
  · exact hi.reqNodup
  · exact hi.pqNotSent
  · exact hi.infSent
  · exact hi.xNotSent
  · intro id dl tr b hm
    obtain ⟨i, c, hc, a⟩ := hi.reqCall id dl tr b hm
    exact ⟨i, c, old _ c hc, a⟩
  · exact hi.canNodup
  · intro id tr hm
    obtain ⟨b1, b2, i, c, hc, a⟩ := hi.canCall id tr hm
    exact ⟨b1, b2, i, c, old _ c hc, a⟩
  · exact hi.canAfter

end TarpcModel.Client

import TarpcModel.Monitors.Client
/-!
Helper lemmas and the state invariant for the client-side properties C01, C03, C18.

* field frame lemmas for the primitive updates (`emit`, `wakeDispatch`, `updCall`, `wakeCall`, `osSend`, `osDropTx`);
* `view : St → View`, the part of the state the invariants talk about: the calls (`CallV`: context, phase, request
  id, child trace, receiver-closed flag, oneshot value, outcome), the request / cancellation queues, the in-flight
  table, the id counters, the transport's `sentLog`, `poisoned`, the handles, and `rel` — the observations of the
  current op that the bookkeeping of `monC01` / `monC03` / `monC18` reacts to (`relevant`);
* view equations for the primitives (`view (wakeCall s c) = view s`, `view (osSend s c o) = (view s).send c o`, …);
* `Inv x v`: ids (distinct per polled call, below the counter, child trace = caller's trace with span `fresh id`),
  tracking (every queued request / in-flight entry belongs to one enqueued call whose oneshot is still empty; ids
  pairwise distinct; an id is in at most one of the two), the wire (`Request id` at most once; in flight ⇒ written;
  `Cancel id` once, after `Request id`, not in flight, receiver closed, call not resolved from a reply), and
  receiver-closed-before-cancel (`cq`).  `x = some id` marks the moment inside `pollWriteRequest` between the
  insertion of `id` and its write.  The clauses relating the table to the wire are stated for `poisoned = false`
  (the dispatch has not panicked);
* the view-level transitions under which `Inv` is preserved (`Inv.pqPop`, `Inv.infInsert`, `Inv.sendReq`,
  `Inv.sendCancel`, `Inv.send`, `Inv.assign`, `Inv.enqueue`, `Inv.resolveVal`, …).

`Lemmas/ClientPres.lean` packages those transitions as an interface, `Lemmas/ClientGeneric.lean` proves once and for all
that every model function is a composition of them, `Lemmas/ClientBook.lean` / `ClientTop.lean` instantiate the
interface with the coupling to the monitors' book.
-/
namespace TarpcModel.Client

/-! ### frame lemmas: `emit`, `wakeDispatch`, `updCall`, `wakeCall` -/

@[simp] theorem emit_obs (s : St) (o : Obs) : (emit s o).obs = o :: s.obs := rfl
theorem emit_eq (s : St) (o : Obs) : emit s o = { s with obs := o :: s.obs } := rfl

/-- Everything but the observation log, the wake flags of tasks and the `rxWaker`/`woken` bits. -/
theorem completeRequest_unknown (s : St) (id : Nat) (o : Outcome) (h : findEntry s id = none) :
    completeRequest s id o = (s, false) := by
  simp [completeRequest, h]

theorem tNext_item (s : St) (m : Msg) (rest : List Inb)
    (hf : s.readFused = false) (hfault : s.t.faultNext = false) (hin : s.t.inbound = .msg m :: rest) :
    tNext s = ({ s with t := { s.t with inbound := rest }, obs := .tNext (tid s) (.item m) :: s.obs }, .item m) := by
  simp [tNext, hf, SimT.pollNext, SimT.fires, SimT.letThrough, hfault, hin, emit]

theorem pumpRead_unknown_id (s : St) (id : Nat) (res : Res) (rest : List Inb)
    (hf : s.readFused = false) (hfault : s.t.faultNext = false)
    (hin : s.t.inbound = .msg (.response id res) :: rest)
    (hun : findEntry s id = none) :
    (pumpRead s).1 =
      { s with t := { s.t with inbound := rest }, obs := .tNext (tid s) (.item (.response id res)) :: s.obs } := by
  unfold pumpRead
  rw [tNext_item s _ rest hf hfault hin]
  simp only
  rw [completeRequest_unknown _ _ _ (by exact hun)]

/-! ### A: `completeRequest` touches only the call recorded in the entry -/

theorem findEntry_some {s : St} {id : Nat} {e : Entry} (h : findEntry s id = some e) :
    e ∈ s.inflight ∧ e.id = id := by
  unfold findEntry at h
  exact ⟨List.mem_of_find?_eq_some h, by simpa using List.find?_some h⟩

/-! ### field frame lemmas for the primitive updates -/

@[simp] theorem emit_k (s : St) (o : Obs) : (emit s o).k = s.k := by rfl
@[simp] theorem emit_maxInFlight (s : St) (o : Obs) : (emit s o).maxInFlight = s.maxInFlight := by rfl
@[simp] theorem emit_bufCap (s : St) (o : Obs) : (emit s o).bufCap = s.bufCap := by rfl
@[simp] theorem emit_ensureLoop (s : St) (o : Obs) : (emit s o).ensureLoop = s.ensureLoop := by rfl
@[simp] theorem emit_handles (s : St) (o : Obs) : (emit s o).handles = s.handles := by rfl
@[simp] theorem emit_nextHandle (s : St) (o : Obs) : (emit s o).nextHandle = s.nextHandle := by rfl
@[simp] theorem emit_nextId (s : St) (o : Obs) : (emit s o).nextId = s.nextId := by rfl
@[simp] theorem emit_nextFresh (s : St) (o : Obs) : (emit s o).nextFresh = s.nextFresh := by rfl
@[simp] theorem emit_calls (s : St) (o : Obs) : (emit s o).calls = s.calls := by rfl
@[simp] theorem emit_pq (s : St) (o : Obs) : (emit s o).pq = s.pq := by rfl
@[simp] theorem emit_pqAvail (s : St) (o : Obs) : (emit s o).pqAvail = s.pqAvail := by rfl
@[simp] theorem emit_pqWaiters (s : St) (o : Obs) : (emit s o).pqWaiters = s.pqWaiters := by rfl
@[simp] theorem emit_pqAssigned (s : St) (o : Obs) : (emit s o).pqAssigned = s.pqAssigned := by rfl
@[simp] theorem emit_pqClosed (s : St) (o : Obs) : (emit s o).pqClosed = s.pqClosed := by rfl
@[simp] theorem emit_pqRxWaker (s : St) (o : Obs) : (emit s o).pqRxWaker = s.pqRxWaker := by rfl
@[simp] theorem emit_cq (s : St) (o : Obs) : (emit s o).cq = s.cq := by rfl
@[simp] theorem emit_cqRxWaker (s : St) (o : Obs) : (emit s o).cqRxWaker = s.cqRxWaker := by rfl
@[simp] theorem emit_inflight (s : St) (o : Obs) : (emit s o).inflight = s.inflight := by rfl
@[simp] theorem emit_timers (s : St) (o : Obs) : (emit s o).timers = s.timers := by rfl
@[simp] theorem emit_termErr (s : St) (o : Obs) : (emit s o).termErr = s.termErr := by rfl
@[simp] theorem emit_readFused (s : St) (o : Obs) : (emit s o).readFused = s.readFused := by rfl
@[simp] theorem emit_done (s : St) (o : Obs) : (emit s o).done = s.done := by rfl
@[simp] theorem emit_dDropped (s : St) (o : Obs) : (emit s o).dDropped = s.dDropped := by rfl
@[simp] theorem emit_dWoken (s : St) (o : Obs) : (emit s o).dWoken = s.dWoken := by rfl
@[simp] theorem emit_poisoned (s : St) (o : Obs) : (emit s o).poisoned = s.poisoned := by rfl
@[simp] theorem emit_t (s : St) (o : Obs) : (emit s o).t = s.t := by rfl
@[simp] theorem tid_emit (s : St) (o : Obs) : tid (emit s o) = tid s := rfl
@[simp] theorem wakeDispatch_k (s : St)  : (wakeDispatch s ).k = s.k := by unfold wakeDispatch; split <;> rfl
@[simp] theorem wakeDispatch_maxInFlight (s : St)  : (wakeDispatch s ).maxInFlight = s.maxInFlight := by unfold wakeDispatch; split <;> rfl
@[simp] theorem wakeDispatch_bufCap (s : St)  : (wakeDispatch s ).bufCap = s.bufCap := by unfold wakeDispatch; split <;> rfl
@[simp] theorem wakeDispatch_ensureLoop (s : St)  : (wakeDispatch s ).ensureLoop = s.ensureLoop := by unfold wakeDispatch; split <;> rfl
@[simp] theorem wakeDispatch_handles (s : St)  : (wakeDispatch s ).handles = s.handles := by unfold wakeDispatch; split <;> rfl
@[simp] theorem wakeDispatch_nextHandle (s : St)  : (wakeDispatch s ).nextHandle = s.nextHandle := by unfold wakeDispatch; split <;> rfl
@[simp] theorem wakeDispatch_nextId (s : St)  : (wakeDispatch s ).nextId = s.nextId := by unfold wakeDispatch; split <;> rfl
@[simp] theorem wakeDispatch_nextFresh (s : St)  : (wakeDispatch s ).nextFresh = s.nextFresh := by unfold wakeDispatch; split <;> rfl
@[simp] theorem wakeDispatch_calls (s : St)  : (wakeDispatch s ).calls = s.calls := by unfold wakeDispatch; split <;> rfl
@[simp] theorem wakeDispatch_pq (s : St)  : (wakeDispatch s ).pq = s.pq := by unfold wakeDispatch; split <;> rfl
@[simp] theorem wakeDispatch_pqAvail (s : St)  : (wakeDispatch s ).pqAvail = s.pqAvail := by unfold wakeDispatch; split <;> rfl
@[simp] theorem wakeDispatch_pqWaiters (s : St)  : (wakeDispatch s ).pqWaiters = s.pqWaiters := by unfold wakeDispatch; split <;> rfl
@[simp] theorem wakeDispatch_pqAssigned (s : St)  : (wakeDispatch s ).pqAssigned = s.pqAssigned := by unfold wakeDispatch; split <;> rfl
@[simp] theorem wakeDispatch_pqClosed (s : St)  : (wakeDispatch s ).pqClosed = s.pqClosed := by unfold wakeDispatch; split <;> rfl
@[simp] theorem wakeDispatch_pqRxWaker (s : St)  : (wakeDispatch s ).pqRxWaker = s.pqRxWaker := by unfold wakeDispatch; split <;> rfl
@[simp] theorem wakeDispatch_cq (s : St)  : (wakeDispatch s ).cq = s.cq := by unfold wakeDispatch; split <;> rfl
@[simp] theorem wakeDispatch_cqRxWaker (s : St)  : (wakeDispatch s ).cqRxWaker = s.cqRxWaker := by unfold wakeDispatch; split <;> rfl
@[simp] theorem wakeDispatch_inflight (s : St)  : (wakeDispatch s ).inflight = s.inflight := by unfold wakeDispatch; split <;> rfl
@[simp] theorem wakeDispatch_timers (s : St)  : (wakeDispatch s ).timers = s.timers := by unfold wakeDispatch; split <;> rfl
@[simp] theorem wakeDispatch_termErr (s : St)  : (wakeDispatch s ).termErr = s.termErr := by unfold wakeDispatch; split <;> rfl
@[simp] theorem wakeDispatch_readFused (s : St)  : (wakeDispatch s ).readFused = s.readFused := by unfold wakeDispatch; split <;> rfl
@[simp] theorem wakeDispatch_done (s : St)  : (wakeDispatch s ).done = s.done := by unfold wakeDispatch; split <;> rfl
@[simp] theorem wakeDispatch_dDropped (s : St)  : (wakeDispatch s ).dDropped = s.dDropped := by unfold wakeDispatch; split <;> rfl
@[simp] theorem wakeDispatch_poisoned (s : St)  : (wakeDispatch s ).poisoned = s.poisoned := by unfold wakeDispatch; split <;> rfl
@[simp] theorem wakeDispatch_t (s : St)  : (wakeDispatch s ).t = s.t := by unfold wakeDispatch; split <;> rfl
@[simp] theorem updCall_k (s : St) (cid : Nat) (f : Call → Call) : (updCall s cid f).k = s.k := by rfl
@[simp] theorem updCall_maxInFlight (s : St) (cid : Nat) (f : Call → Call) : (updCall s cid f).maxInFlight = s.maxInFlight := by rfl
@[simp] theorem updCall_bufCap (s : St) (cid : Nat) (f : Call → Call) : (updCall s cid f).bufCap = s.bufCap := by rfl
@[simp] theorem updCall_ensureLoop (s : St) (cid : Nat) (f : Call → Call) : (updCall s cid f).ensureLoop = s.ensureLoop := by rfl
@[simp] theorem updCall_handles (s : St) (cid : Nat) (f : Call → Call) : (updCall s cid f).handles = s.handles := by rfl
@[simp] theorem updCall_nextHandle (s : St) (cid : Nat) (f : Call → Call) : (updCall s cid f).nextHandle = s.nextHandle := by rfl
@[simp] theorem updCall_nextId (s : St) (cid : Nat) (f : Call → Call) : (updCall s cid f).nextId = s.nextId := by rfl
@[simp] theorem updCall_nextFresh (s : St) (cid : Nat) (f : Call → Call) : (updCall s cid f).nextFresh = s.nextFresh := by rfl
@[simp] theorem updCall_pq (s : St) (cid : Nat) (f : Call → Call) : (updCall s cid f).pq = s.pq := by rfl
@[simp] theorem updCall_pqAvail (s : St) (cid : Nat) (f : Call → Call) : (updCall s cid f).pqAvail = s.pqAvail := by rfl
@[simp] theorem updCall_pqWaiters (s : St) (cid : Nat) (f : Call → Call) : (updCall s cid f).pqWaiters = s.pqWaiters := by rfl
@[simp] theorem updCall_pqAssigned (s : St) (cid : Nat) (f : Call → Call) : (updCall s cid f).pqAssigned = s.pqAssigned := by rfl
@[simp] theorem updCall_pqClosed (s : St) (cid : Nat) (f : Call → Call) : (updCall s cid f).pqClosed = s.pqClosed := by rfl
@[simp] theorem updCall_pqRxWaker (s : St) (cid : Nat) (f : Call → Call) : (updCall s cid f).pqRxWaker = s.pqRxWaker := by rfl
@[simp] theorem updCall_cq (s : St) (cid : Nat) (f : Call → Call) : (updCall s cid f).cq = s.cq := by rfl
@[simp] theorem updCall_cqRxWaker (s : St) (cid : Nat) (f : Call → Call) : (updCall s cid f).cqRxWaker = s.cqRxWaker := by rfl
@[simp] theorem updCall_inflight (s : St) (cid : Nat) (f : Call → Call) : (updCall s cid f).inflight = s.inflight := by rfl
@[simp] theorem updCall_timers (s : St) (cid : Nat) (f : Call → Call) : (updCall s cid f).timers = s.timers := by rfl
@[simp] theorem updCall_termErr (s : St) (cid : Nat) (f : Call → Call) : (updCall s cid f).termErr = s.termErr := by rfl
@[simp] theorem updCall_readFused (s : St) (cid : Nat) (f : Call → Call) : (updCall s cid f).readFused = s.readFused := by rfl
@[simp] theorem updCall_done (s : St) (cid : Nat) (f : Call → Call) : (updCall s cid f).done = s.done := by rfl
@[simp] theorem updCall_dDropped (s : St) (cid : Nat) (f : Call → Call) : (updCall s cid f).dDropped = s.dDropped := by rfl
@[simp] theorem updCall_dWoken (s : St) (cid : Nat) (f : Call → Call) : (updCall s cid f).dWoken = s.dWoken := by rfl
@[simp] theorem updCall_poisoned (s : St) (cid : Nat) (f : Call → Call) : (updCall s cid f).poisoned = s.poisoned := by rfl
@[simp] theorem updCall_t (s : St) (cid : Nat) (f : Call → Call) : (updCall s cid f).t = s.t := by rfl
@[simp] theorem updCall_obs (s : St) (cid : Nat) (f : Call → Call) : (updCall s cid f).obs = s.obs := rfl
@[simp] theorem wakeCall_k (s : St) (cid : Nat) : (wakeCall s cid).k = s.k := by unfold wakeCall; split <;> (try split) <;> rfl
@[simp] theorem wakeCall_maxInFlight (s : St) (cid : Nat) : (wakeCall s cid).maxInFlight = s.maxInFlight := by unfold wakeCall; split <;> (try split) <;> rfl
@[simp] theorem wakeCall_bufCap (s : St) (cid : Nat) : (wakeCall s cid).bufCap = s.bufCap := by unfold wakeCall; split <;> (try split) <;> rfl
@[simp] theorem wakeCall_ensureLoop (s : St) (cid : Nat) : (wakeCall s cid).ensureLoop = s.ensureLoop := by unfold wakeCall; split <;> (try split) <;> rfl
@[simp] theorem wakeCall_handles (s : St) (cid : Nat) : (wakeCall s cid).handles = s.handles := by unfold wakeCall; split <;> (try split) <;> rfl
@[simp] theorem wakeCall_nextHandle (s : St) (cid : Nat) : (wakeCall s cid).nextHandle = s.nextHandle := by unfold wakeCall; split <;> (try split) <;> rfl
@[simp] theorem wakeCall_nextId (s : St) (cid : Nat) : (wakeCall s cid).nextId = s.nextId := by unfold wakeCall; split <;> (try split) <;> rfl
@[simp] theorem wakeCall_nextFresh (s : St) (cid : Nat) : (wakeCall s cid).nextFresh = s.nextFresh := by unfold wakeCall; split <;> (try split) <;> rfl
@[simp] theorem wakeCall_pq (s : St) (cid : Nat) : (wakeCall s cid).pq = s.pq := by unfold wakeCall; split <;> (try split) <;> rfl
@[simp] theorem wakeCall_pqAvail (s : St) (cid : Nat) : (wakeCall s cid).pqAvail = s.pqAvail := by unfold wakeCall; split <;> (try split) <;> rfl
@[simp] theorem wakeCall_pqWaiters (s : St) (cid : Nat) : (wakeCall s cid).pqWaiters = s.pqWaiters := by unfold wakeCall; split <;> (try split) <;> rfl
@[simp] theorem wakeCall_pqAssigned (s : St) (cid : Nat) : (wakeCall s cid).pqAssigned = s.pqAssigned := by unfold wakeCall; split <;> (try split) <;> rfl
@[simp] theorem wakeCall_pqClosed (s : St) (cid : Nat) : (wakeCall s cid).pqClosed = s.pqClosed := by unfold wakeCall; split <;> (try split) <;> rfl
@[simp] theorem wakeCall_pqRxWaker (s : St) (cid : Nat) : (wakeCall s cid).pqRxWaker = s.pqRxWaker := by unfold wakeCall; split <;> (try split) <;> rfl
@[simp] theorem wakeCall_cq (s : St) (cid : Nat) : (wakeCall s cid).cq = s.cq := by unfold wakeCall; split <;> (try split) <;> rfl
@[simp] theorem wakeCall_cqRxWaker (s : St) (cid : Nat) : (wakeCall s cid).cqRxWaker = s.cqRxWaker := by unfold wakeCall; split <;> (try split) <;> rfl
@[simp] theorem wakeCall_inflight (s : St) (cid : Nat) : (wakeCall s cid).inflight = s.inflight := by unfold wakeCall; split <;> (try split) <;> rfl
@[simp] theorem wakeCall_timers (s : St) (cid : Nat) : (wakeCall s cid).timers = s.timers := by unfold wakeCall; split <;> (try split) <;> rfl
@[simp] theorem wakeCall_termErr (s : St) (cid : Nat) : (wakeCall s cid).termErr = s.termErr := by unfold wakeCall; split <;> (try split) <;> rfl
@[simp] theorem wakeCall_readFused (s : St) (cid : Nat) : (wakeCall s cid).readFused = s.readFused := by unfold wakeCall; split <;> (try split) <;> rfl
@[simp] theorem wakeCall_done (s : St) (cid : Nat) : (wakeCall s cid).done = s.done := by unfold wakeCall; split <;> (try split) <;> rfl
@[simp] theorem wakeCall_dDropped (s : St) (cid : Nat) : (wakeCall s cid).dDropped = s.dDropped := by unfold wakeCall; split <;> (try split) <;> rfl
@[simp] theorem wakeCall_dWoken (s : St) (cid : Nat) : (wakeCall s cid).dWoken = s.dWoken := by unfold wakeCall; split <;> (try split) <;> rfl
@[simp] theorem wakeCall_poisoned (s : St) (cid : Nat) : (wakeCall s cid).poisoned = s.poisoned := by unfold wakeCall; split <;> (try split) <;> rfl
@[simp] theorem wakeCall_t (s : St) (cid : Nat) : (wakeCall s cid).t = s.t := by unfold wakeCall; split <;> (try split) <;> rfl
@[simp] theorem osSend_k (s : St) (cid : Nat) (o : Outcome) : (osSend s cid o).k = s.k := by unfold osSend; split <;> (try split) <;> (try split) <;> simp
@[simp] theorem osSend_maxInFlight (s : St) (cid : Nat) (o : Outcome) : (osSend s cid o).maxInFlight = s.maxInFlight := by unfold osSend; split <;> (try split) <;> (try split) <;> simp
@[simp] theorem osSend_bufCap (s : St) (cid : Nat) (o : Outcome) : (osSend s cid o).bufCap = s.bufCap := by unfold osSend; split <;> (try split) <;> (try split) <;> simp
@[simp] theorem osSend_ensureLoop (s : St) (cid : Nat) (o : Outcome) : (osSend s cid o).ensureLoop = s.ensureLoop := by unfold osSend; split <;> (try split) <;> (try split) <;> simp
@[simp] theorem osSend_handles (s : St) (cid : Nat) (o : Outcome) : (osSend s cid o).handles = s.handles := by unfold osSend; split <;> (try split) <;> (try split) <;> simp
@[simp] theorem osSend_nextHandle (s : St) (cid : Nat) (o : Outcome) : (osSend s cid o).nextHandle = s.nextHandle := by unfold osSend; split <;> (try split) <;> (try split) <;> simp
@[simp] theorem osSend_nextId (s : St) (cid : Nat) (o : Outcome) : (osSend s cid o).nextId = s.nextId := by unfold osSend; split <;> (try split) <;> (try split) <;> simp
@[simp] theorem osSend_nextFresh (s : St) (cid : Nat) (o : Outcome) : (osSend s cid o).nextFresh = s.nextFresh := by unfold osSend; split <;> (try split) <;> (try split) <;> simp
@[simp] theorem osSend_pq (s : St) (cid : Nat) (o : Outcome) : (osSend s cid o).pq = s.pq := by unfold osSend; split <;> (try split) <;> (try split) <;> simp
@[simp] theorem osSend_pqAvail (s : St) (cid : Nat) (o : Outcome) : (osSend s cid o).pqAvail = s.pqAvail := by unfold osSend; split <;> (try split) <;> (try split) <;> simp
@[simp] theorem osSend_pqWaiters (s : St) (cid : Nat) (o : Outcome) : (osSend s cid o).pqWaiters = s.pqWaiters := by unfold osSend; split <;> (try split) <;> (try split) <;> simp
@[simp] theorem osSend_pqAssigned (s : St) (cid : Nat) (o : Outcome) : (osSend s cid o).pqAssigned = s.pqAssigned := by unfold osSend; split <;> (try split) <;> (try split) <;> simp
@[simp] theorem osSend_pqClosed (s : St) (cid : Nat) (o : Outcome) : (osSend s cid o).pqClosed = s.pqClosed := by unfold osSend; split <;> (try split) <;> (try split) <;> simp
@[simp] theorem osSend_pqRxWaker (s : St) (cid : Nat) (o : Outcome) : (osSend s cid o).pqRxWaker = s.pqRxWaker := by unfold osSend; split <;> (try split) <;> (try split) <;> simp
@[simp] theorem osSend_cq (s : St) (cid : Nat) (o : Outcome) : (osSend s cid o).cq = s.cq := by unfold osSend; split <;> (try split) <;> (try split) <;> simp
@[simp] theorem osSend_cqRxWaker (s : St) (cid : Nat) (o : Outcome) : (osSend s cid o).cqRxWaker = s.cqRxWaker := by unfold osSend; split <;> (try split) <;> (try split) <;> simp
@[simp] theorem osSend_inflight (s : St) (cid : Nat) (o : Outcome) : (osSend s cid o).inflight = s.inflight := by unfold osSend; split <;> (try split) <;> (try split) <;> simp
@[simp] theorem osSend_timers (s : St) (cid : Nat) (o : Outcome) : (osSend s cid o).timers = s.timers := by unfold osSend; split <;> (try split) <;> (try split) <;> simp
@[simp] theorem osSend_termErr (s : St) (cid : Nat) (o : Outcome) : (osSend s cid o).termErr = s.termErr := by unfold osSend; split <;> (try split) <;> (try split) <;> simp
@[simp] theorem osSend_readFused (s : St) (cid : Nat) (o : Outcome) : (osSend s cid o).readFused = s.readFused := by unfold osSend; split <;> (try split) <;> (try split) <;> simp
@[simp] theorem osSend_done (s : St) (cid : Nat) (o : Outcome) : (osSend s cid o).done = s.done := by unfold osSend; split <;> (try split) <;> (try split) <;> simp
@[simp] theorem osSend_dDropped (s : St) (cid : Nat) (o : Outcome) : (osSend s cid o).dDropped = s.dDropped := by unfold osSend; split <;> (try split) <;> (try split) <;> simp
@[simp] theorem osSend_dWoken (s : St) (cid : Nat) (o : Outcome) : (osSend s cid o).dWoken = s.dWoken := by unfold osSend; split <;> (try split) <;> (try split) <;> simp
@[simp] theorem osSend_poisoned (s : St) (cid : Nat) (o : Outcome) : (osSend s cid o).poisoned = s.poisoned := by unfold osSend; split <;> (try split) <;> (try split) <;> simp
@[simp] theorem osSend_t (s : St) (cid : Nat) (o : Outcome) : (osSend s cid o).t = s.t := by unfold osSend; split <;> (try split) <;> (try split) <;> simp
@[simp] theorem osDropTx_k (s : St) (cid : Nat) : (osDropTx s cid).k = s.k := by unfold osDropTx; split <;> (try split) <;> (try split) <;> simp
@[simp] theorem osDropTx_maxInFlight (s : St) (cid : Nat) : (osDropTx s cid).maxInFlight = s.maxInFlight := by unfold osDropTx; split <;> (try split) <;> (try split) <;> simp
@[simp] theorem osDropTx_bufCap (s : St) (cid : Nat) : (osDropTx s cid).bufCap = s.bufCap := by unfold osDropTx; split <;> (try split) <;> (try split) <;> simp
@[simp] theorem osDropTx_ensureLoop (s : St) (cid : Nat) : (osDropTx s cid).ensureLoop = s.ensureLoop := by unfold osDropTx; split <;> (try split) <;> (try split) <;> simp
@[simp] theorem osDropTx_handles (s : St) (cid : Nat) : (osDropTx s cid).handles = s.handles := by unfold osDropTx; split <;> (try split) <;> (try split) <;> simp
@[simp] theorem osDropTx_nextHandle (s : St) (cid : Nat) : (osDropTx s cid).nextHandle = s.nextHandle := by unfold osDropTx; split <;> (try split) <;> (try split) <;> simp
@[simp] theorem osDropTx_nextId (s : St) (cid : Nat) : (osDropTx s cid).nextId = s.nextId := by unfold osDropTx; split <;> (try split) <;> (try split) <;> simp
@[simp] theorem osDropTx_nextFresh (s : St) (cid : Nat) : (osDropTx s cid).nextFresh = s.nextFresh := by unfold osDropTx; split <;> (try split) <;> (try split) <;> simp
@[simp] theorem osDropTx_pq (s : St) (cid : Nat) : (osDropTx s cid).pq = s.pq := by unfold osDropTx; split <;> (try split) <;> (try split) <;> simp
@[simp] theorem osDropTx_pqAvail (s : St) (cid : Nat) : (osDropTx s cid).pqAvail = s.pqAvail := by unfold osDropTx; split <;> (try split) <;> (try split) <;> simp
@[simp] theorem osDropTx_pqWaiters (s : St) (cid : Nat) : (osDropTx s cid).pqWaiters = s.pqWaiters := by unfold osDropTx; split <;> (try split) <;> (try split) <;> simp
@[simp] theorem osDropTx_pqAssigned (s : St) (cid : Nat) : (osDropTx s cid).pqAssigned = s.pqAssigned := by unfold osDropTx; split <;> (try split) <;> (try split) <;> simp
@[simp] theorem osDropTx_pqClosed (s : St) (cid : Nat) : (osDropTx s cid).pqClosed = s.pqClosed := by unfold osDropTx; split <;> (try split) <;> (try split) <;> simp
@[simp] theorem osDropTx_pqRxWaker (s : St) (cid : Nat) : (osDropTx s cid).pqRxWaker = s.pqRxWaker := by unfold osDropTx; split <;> (try split) <;> (try split) <;> simp
@[simp] theorem osDropTx_cq (s : St) (cid : Nat) : (osDropTx s cid).cq = s.cq := by unfold osDropTx; split <;> (try split) <;> (try split) <;> simp
@[simp] theorem osDropTx_cqRxWaker (s : St) (cid : Nat) : (osDropTx s cid).cqRxWaker = s.cqRxWaker := by unfold osDropTx; split <;> (try split) <;> (try split) <;> simp
@[simp] theorem osDropTx_inflight (s : St) (cid : Nat) : (osDropTx s cid).inflight = s.inflight := by unfold osDropTx; split <;> (try split) <;> (try split) <;> simp
@[simp] theorem osDropTx_timers (s : St) (cid : Nat) : (osDropTx s cid).timers = s.timers := by unfold osDropTx; split <;> (try split) <;> (try split) <;> simp
@[simp] theorem osDropTx_termErr (s : St) (cid : Nat) : (osDropTx s cid).termErr = s.termErr := by unfold osDropTx; split <;> (try split) <;> (try split) <;> simp
@[simp] theorem osDropTx_readFused (s : St) (cid : Nat) : (osDropTx s cid).readFused = s.readFused := by unfold osDropTx; split <;> (try split) <;> (try split) <;> simp
@[simp] theorem osDropTx_done (s : St) (cid : Nat) : (osDropTx s cid).done = s.done := by unfold osDropTx; split <;> (try split) <;> (try split) <;> simp
@[simp] theorem osDropTx_dDropped (s : St) (cid : Nat) : (osDropTx s cid).dDropped = s.dDropped := by unfold osDropTx; split <;> (try split) <;> (try split) <;> simp
@[simp] theorem osDropTx_dWoken (s : St) (cid : Nat) : (osDropTx s cid).dWoken = s.dWoken := by unfold osDropTx; split <;> (try split) <;> (try split) <;> simp
@[simp] theorem osDropTx_poisoned (s : St) (cid : Nat) : (osDropTx s cid).poisoned = s.poisoned := by unfold osDropTx; split <;> (try split) <;> (try split) <;> simp
@[simp] theorem osDropTx_t (s : St) (cid : Nat) : (osDropTx s cid).t = s.t := by unfold osDropTx; split <;> (try split) <;> (try split) <;> simp

/-! ### the view: the part of the state the id / wire invariants talk about -/

structure CallV where
  cid : Nat
  ctx : Ctx
  body : Nat
  phase : Phase
  id : Nat
  trace : Trace
  rxClosed : Bool
  val : Option Outcome
  outcome : Option Outcome
deriving DecidableEq

def Call.v (c : Call) : CallV :=
  { cid := c.cid, ctx := c.ctx, body := c.body, phase := c.phase, id := c.id, trace := c.trace,
    rxClosed := c.os.rxClosed, val := c.os.val, outcome := c.outcome }

/-- The observations the bookkeeping of the C01 / C03 / C18 monitors reacts to. -/
def relevant : Obs → Bool
  | .tSend _ _ _ => true
  | .tNext _ (.item (.response _ _)) => true
  | .resolved _ _ _ => true
  | .spin _ => true
  | .panic _ _ => true
  | _ => false

structure View where
  calls : List CallV
  pq : List DReq
  cq : List Nat
  inflight : List Entry
  nextId : Nat
  nextFresh : Nat
  sentLog : List Msg
  poisoned : Bool
  /-- the relevant observations of the current op, most recent first -/
  rel : List Obs
  handles : List Nat
  nextHandle : Nat

def view (s : St) : View :=
  { calls := s.calls.map Call.v, pq := s.pq, cq := s.cq, inflight := s.inflight, nextId := s.nextId,
    nextFresh := s.nextFresh, sentLog := s.t.sentLog, poisoned := s.poisoned, rel := s.obs.filter relevant,
    handles := s.handles, nextHandle := s.nextHandle }

def View.get (v : View) (cid : Nat) : Option CallV := v.calls.find? (·.cid == cid)

/-- Update of the calls with id `cid` (the id itself is kept). -/
def View.upd (v : View) (cid : Nat) (g : CallV → CallV) : View :=
  { v with calls := v.calls.map (fun c => if c.cid == cid then { g c with cid := c.cid } else c) }

theorem view_get (s : St) (cid : Nat) : (view s).get cid = (getCall s cid).map Call.v := by
  simp only [View.get, view, getCall, List.find?_map]
  congr

theorem view_getCall_some {s : St} {cid : Nat} {c : Call} (h : getCall s cid = some c) :
    (view s).get cid = some c.v := by simp [view_get, h]

theorem view_getCall_none {s : St} {cid : Nat} (h : getCall s cid = none) :
    (view s).get cid = none := by simp [view_get, h]

theorem getCall_cid {s : St} {cid : Nat} {c : Call} (h : getCall s cid = some c) : c.cid = cid := by
  simpa using List.find?_some h

theorem View.get_cid {v : View} {cid : Nat} {c : CallV} (h : v.get cid = some c) : c.cid = cid := by
  simpa using List.find?_some h

theorem View.get_mem {v : View} {cid : Nat} {c : CallV} (h : v.get cid = some c) : c ∈ v.calls :=
  List.mem_of_find?_eq_some h

theorem View.get_upd (v : View) (cid : Nat) (g : CallV → CallV) (i : Nat) :
    (v.upd cid g).get i = if i = cid then (v.get i).map (fun c => { g c with cid := c.cid }) else v.get i := by
  simp only [View.get, View.upd]
  induction v.calls with
  | nil => simp
  | cons c cs ih =>
    simp only [List.map_cons, List.find?_cons]
    by_cases h1 : c.cid = cid <;> by_cases h2 : c.cid = i <;> simp_all <;> grind

theorem view_updCall (s : St) (cid : Nat) (f : Call → Call) (g : CallV → CallV)
    (_hcid : ∀ c, (f c).cid = c.cid) (h : ∀ c, (f c).v = { g c.v with cid := c.cid }) :
    view (updCall s cid f) = (view s).upd cid g := by
  simp only [view, updCall, View.upd, List.map_map]
  congr 1
  apply List.map_congr_left
  intro c _
  by_cases hc : c.cid = cid
  · simp only [Function.comp, hc, beq_self_eq_true, ↓reduceIte, h]
    simp [Call.v, hc]
  · simp [hc, Call.v]

theorem view_updCall_same (s : St) (cid : Nat) (f : Call → Call) (h : ∀ c, (f c).v = c.v) :
    view (updCall s cid f) = view s := by
  simp only [view, updCall, List.map_map]
  congr 1
  apply List.map_congr_left
  intro c _
  by_cases hc : c.cid = cid <;> simp [hc, h]

theorem view_emit (s : St) (o : Obs) :
    view (emit s o) = if relevant o then { view s with rel := o :: (view s).rel } else view s := by
  by_cases h : relevant o = true
  · simp [view, emit, h]
  · simp [view, emit, h]

theorem view_emit_irr (s : St) (o : Obs) (h : relevant o = false) : view (emit s o) = view s := by
  simp [view_emit, h]

theorem view_emit_rel (s : St) (o : Obs) (h : relevant o = true) :
    view (emit s o) = { view s with rel := o :: (view s).rel } := by
  simp [view_emit, h]

@[simp] theorem view_wakeDispatch (s : St) : view (wakeDispatch s) = view s := by
  unfold wakeDispatch; split
  · rfl
  · rw [view_emit_irr _ _ rfl]; rfl

@[simp] theorem view_wakeCall (s : St) (cid : Nat) : view (wakeCall s cid) = view s := by
  unfold wakeCall
  split
  · split
    · rw [view_emit_irr _ _ rfl]; exact view_updCall_same _ _ _ (fun c => rfl)
    · rfl
  · rfl

@[simp] theorem view_osDropTx (s : St) (cid : Nat) : view (osDropTx s cid) = view s := by
  unfold osDropTx
  split
  · rfl
  · split
    · rfl
    · simp only
      split
      · rw [view_wakeCall]; exact view_updCall_same _ _ _ (fun c => rfl)
      · exact view_updCall_same _ _ _ (fun c => rfl)

theorem view_osSend (s : St) (cid : Nat) (o : Outcome) :
    view (osSend s cid o) =
      match (view s).get cid with
      | none => view s
      | some c => if c.rxClosed then view s else (view s).upd cid (fun c => { c with val := some o }) := by
  unfold osSend
  cases hg : getCall s cid with
  | none => simp [view_getCall_none hg]
  | some c =>
    simp only [view_getCall_some hg]
    by_cases hc : c.os.rxClosed = true
    · simp [hc, Call.v]
    · have hv : c.v.rxClosed = false := by simpa [Call.v] using hc
      simp only [hc, hv, Bool.false_eq_true, ↓reduceIte]
      have := view_updCall s cid (fun c => { c with os := { c.os with val := some o, rxWaker := false } })
        (fun c => { c with val := some o }) (fun _ => rfl) (fun _ => rfl)
      split
      · rw [view_wakeCall]; exact this
      · exact this

/-! ### the invariant -/

def reqIds (l : List Msg) : List Nat :=
  l.filterMap (fun m => match m with | .request id _ _ _ => some id | _ => none)

def cancelIds (l : List Msg) : List Nat :=
  l.filterMap (fun m => match m with | .cancel id _ => some id | _ => none)

/-- the outcome is a server reply (`Ok` or a server-side error), i.e. it came from a `Response` -/
def okLike : Option Outcome → Bool
  | some (.ok _) => true
  | some (.server _) => true
  | _ => false

/-- the call has been polled at least once (it owns a request id) -/
def CallV.polled (c : CallV) : Prop :=
  c.phase = .reserving ∨ c.phase = .awaiting ∨ c.phase = .resolved ∨ (c.phase = .dropped ∧ c.rxClosed = true)

/-- the request of this call has been handed to the request queue -/
def CallV.enq (c : CallV) : Prop :=
  c.phase = .awaiting ∨ c.phase = .resolved ∨ (c.phase = .dropped ∧ c.rxClosed = true)

theorem CallV.enq.polled {c : CallV} (h : c.enq) : c.polled := by
  unfold CallV.enq at h; unfold CallV.polled; grind

/-- `x`: an id that has just been inserted in the in-flight table and whose `Request` is about to be
written (`pollWriteRequest` inserts before it writes). -/
structure Inv (x : Option Nat) (v : View) : Prop where
  cids : v.calls.map (·.cid) = List.range v.calls.length
  cidLt : ∀ i c, v.get i = some c → i < v.calls.length
  fresh : v.nextFresh = v.nextId
  idLt : ∀ i c, v.get i = some c → c.polled → c.id < v.nextId
  idInj : ∀ i j c d, v.get i = some c → v.get j = some d → c.polled → d.polled → c.id = d.id → i = j
  tr : ∀ i c, v.get i = some c → c.polled → c.trace = { c.ctx.trace with span := .fresh c.id }
  outc : ∀ i c, v.get i = some c → (c.outcome.isSome ↔ c.phase = .resolved)
  np : ∀ i c, v.get i = some c → c.phase = .notPolled → c.rxClosed = false
  early : ∀ i c, v.get i = some c → (c.phase = .notPolled ∨ c.phase = .reserving) → c.val = none
  pq : ∀ r ∈ v.pq, ∃ c, v.get r.cid = some c ∧ c.enq ∧ c.id = r.id ∧ r.body = c.body ∧
        r.ctx = { deadline := c.ctx.deadline, trace := c.trace } ∧ c.val = none ∧ okLike c.outcome = false ∧
        (c.rxClosed = false → c.phase = .awaiting)
  pqNodup : (v.pq.map (·.id)).Nodup
  inf : ∀ e ∈ v.inflight, ∃ c, v.get e.cid = some c ∧ c.enq ∧ c.id = e.id ∧
        e.ctx = { deadline := c.ctx.deadline, trace := c.trace } ∧ c.val = none ∧ okLike c.outcome = false
  infNodup : (v.inflight.map (·.id)).Nodup
  disj : ∀ r ∈ v.pq, ∀ e ∈ v.inflight, r.id ≠ e.id
  cq : ∀ id ∈ v.cq, ∃ i c, v.get i = some c ∧ c.polled ∧ c.id = id ∧ c.rxClosed = true
  reqNodup : (reqIds v.sentLog).Nodup
  pqNotSent : ∀ r ∈ v.pq, r.id ∉ reqIds v.sentLog
  infSent : v.poisoned = false → ∀ e ∈ v.inflight, some e.id ≠ x → e.id ∈ reqIds v.sentLog
  xNotSent : v.poisoned = false → ∀ id, x = some id → id ∉ reqIds v.sentLog
  reqCall : ∀ id dl tr body, Msg.request id dl tr body ∈ v.sentLog →
        ∃ i c, v.get i = some c ∧ c.enq ∧ c.id = id ∧ tr = c.trace ∧ body = c.body ∧ dl = c.ctx.deadline
  canNodup : (cancelIds v.sentLog).Nodup
  canCall : ∀ id tr, Msg.cancel id tr ∈ v.sentLog →
        (v.poisoned = false → id ∈ reqIds v.sentLog) ∧ (∀ e ∈ v.inflight, e.id ≠ id) ∧
        ∃ i c, v.get i = some c ∧ c.polled ∧ c.id = id ∧ tr = c.trace ∧ c.rxClosed = true ∧
          okLike c.outcome = false ∧ okLike c.val = false
  canAfter : v.poisoned = false → ∀ l1 id tr l2, v.sentLog = l1 ++ Msg.cancel id tr :: l2 → id ∈ reqIds l1

theorem Inv.of_eq {x : Option Nat} {v v' : View} (h : v' = v) (hi : Inv x v) : Inv x v' := h ▸ hi

/-- What an update of one call may do to it without further ado. -/
structure CallStep (c c' : CallV) : Prop where
  cid : c'.cid = c.cid
  ctx : c'.ctx = c.ctx
  body : c'.body = c.body
  id : c'.id = c.id
  trace : c'.trace = c.trace
  pol : c'.polled ↔ c.polled
  enq : c.enq → c'.enq
  rx : c.rxClosed = true → c'.rxClosed = true
  outc : c'.outcome.isSome ↔ c'.phase = .resolved
  np : c'.phase = .notPolled → c'.rxClosed = false
  early : (c'.phase = .notPolled ∨ c'.phase = .reserving) → c'.val = none

/-- Generic preservation: the views differ only in the call `cid`, which made a `CallStep`, and the
new call record still satisfies what its roles (queued / in flight / cancelled) demand. -/
theorem Inv.call_step {x : Option Nat} {v v' : View} (hi : Inv x v) (cid : Nat)
    (hcids : v'.calls.map (·.cid) = v.calls.map (·.cid))
    (hpq : v'.pq = v.pq) (hcq : v'.cq = v.cq) (hinf : v'.inflight = v.inflight)
    (hnid : v'.nextId = v.nextId) (hnf : v'.nextFresh = v.nextFresh) (hlog : v'.sentLog = v.sentLog)
    (hpois : v'.poisoned = v.poisoned)
    (fwd : ∀ i c, v.get i = some c → ∃ c', v'.get i = some c' ∧ (i ≠ cid → c' = c) ∧ (i = cid → CallStep c c'))
    (bwd : ∀ i c', v'.get i = some c' → ∃ c, v.get i = some c ∧ (i ≠ cid → c' = c) ∧ (i = cid → CallStep c c'))
    (rpq : ∀ r ∈ v.pq, r.cid = cid → ∀ c', v'.get cid = some c' →
        c'.val = none ∧ okLike c'.outcome = false ∧ (c'.rxClosed = false → c'.phase = .awaiting))
    (rinf : ∀ e ∈ v.inflight, e.cid = cid → ∀ c', v'.get cid = some c' → c'.val = none ∧ okLike c'.outcome = false)
    (rcan : ∀ id tr, Msg.cancel id tr ∈ v.sentLog → ∀ c', v'.get cid = some c' → c'.id = id →
        okLike c'.outcome = false ∧ okLike c'.val = false) :
    Inv x v' := by
  have hlen : v'.calls.length = v.calls.length := by
    have := congrArg List.length hcids; simpa using this
  constructor
  · rw [hcids, hlen]; exact hi.cids
  · intro i c' h; obtain ⟨c, hc, -, -⟩ := bwd i c' h; rw [hlen]; exact hi.cidLt i c hc
  · rw [hnf, hnid]; exact hi.fresh
  · intro i c' h hp
    obtain ⟨c, hc, h1, h2⟩ := bwd i c' h
    rw [hnid]
    by_cases e : i = cid
    · have st := h2 e; rw [st.id]; exact hi.idLt i c hc (st.pol.mp hp)
    · rw [h1 e]; rw [h1 e] at hp; exact hi.idLt i c hc hp
  · intro i j c' d' hc' hd' pc pd hid
    obtain ⟨c, hc, h1, h2⟩ := bwd i c' hc'
    obtain ⟨d, hd, h3, h4⟩ := bwd j d' hd'
    have e1 : c.polled ∧ c.id = c'.id := by
      by_cases e : i = cid
      · have st := h2 e; exact ⟨st.pol.mp pc, st.id.symm⟩
      · rw [h1 e] at pc ⊢; exact ⟨pc, rfl⟩
    have e2 : d.polled ∧ d.id = d'.id := by
      by_cases e : j = cid
      · have st := h4 e; exact ⟨st.pol.mp pd, st.id.symm⟩
      · rw [h3 e] at pd ⊢; exact ⟨pd, rfl⟩
    exact hi.idInj i j c d hc hd e1.1 e2.1 (by omega)
  · intro i c' h hp
    obtain ⟨c, hc, h1, h2⟩ := bwd i c' h
    by_cases e : i = cid
    · have st := h2 e; rw [st.trace, st.ctx, st.id]; exact hi.tr i c hc (st.pol.mp hp)
    · rw [h1 e]; rw [h1 e] at hp; exact hi.tr i c hc hp
  · intro i c' h
    obtain ⟨c, hc, h1, h2⟩ := bwd i c' h
    by_cases e : i = cid
    · exact (h2 e).outc
    · rw [h1 e]; exact hi.outc i c hc
  · intro i c' h
    obtain ⟨c, hc, h1, h2⟩ := bwd i c' h
    by_cases e : i = cid
    · exact (h2 e).np
    · rw [h1 e]; exact hi.np i c hc
  · intro i c' h
    obtain ⟨c, hc, h1, h2⟩ := bwd i c' h
    by_cases e : i = cid
    · exact (h2 e).early
    · rw [h1 e]; exact hi.early i c hc
  · intro r hr
    rw [hpq] at hr
    obtain ⟨c, hc, a1, a2, a3, a4, a5, a6, a7⟩ := hi.pq r hr
    obtain ⟨c', hc', h1, h2⟩ := fwd _ c hc
    by_cases e : r.cid = cid
    · have st := h2 e
      have := rpq r hr e c' (e ▸ hc')
      exact ⟨c', hc', st.enq a1, by rw [st.id]; exact a2, by rw [st.body]; exact a3,
        by rw [st.ctx, st.trace]; exact a4, this.1, this.2.1, this.2.2⟩
    · rw [h1 e] at hc'; exact ⟨c, hc', a1, a2, a3, a4, a5, a6, a7⟩
  · rw [hpq]; exact hi.pqNodup
  · intro e' he
    rw [hinf] at he
    obtain ⟨c, hc, a1, a2, a4, a5, a6⟩ := hi.inf e' he
    obtain ⟨c', hc', h1, h2⟩ := fwd _ c hc
    by_cases e : e'.cid = cid
    · have st := h2 e
      have := rinf e' he e c' (e ▸ hc')
      exact ⟨c', hc', st.enq a1, by rw [st.id]; exact a2,
        by rw [st.ctx, st.trace]; exact a4, this.1, this.2⟩
    · rw [h1 e] at hc'; exact ⟨c, hc', a1, a2, a4, a5, a6⟩
  · rw [hinf]; exact hi.infNodup
  · rw [hpq, hinf]; exact hi.disj
  · intro id hid
    rw [hcq] at hid
    obtain ⟨i, c, hc, a1, a2, a3⟩ := hi.cq id hid
    obtain ⟨c', hc', h1, h2⟩ := fwd _ c hc
    by_cases e : i = cid
    · have st := h2 e
      exact ⟨i, c', hc', st.pol.mpr a1, by rw [st.id]; exact a2, st.rx a3⟩
    · rw [h1 e] at hc'; exact ⟨i, c, hc', a1, a2, a3⟩
  · rw [hlog]; exact hi.reqNodup
  · rw [hlog, hpq]; exact hi.pqNotSent
  · rw [hlog, hinf, hpois]; exact hi.infSent
  · rw [hlog, hpois]; exact hi.xNotSent
  · intro id dl tr body hm
    rw [hlog] at hm
    obtain ⟨i, c, hc, a1, a2, a3, a4, a5⟩ := hi.reqCall id dl tr body hm
    obtain ⟨c', hc', h1, h2⟩ := fwd _ c hc
    by_cases e : i = cid
    · have st := h2 e
      exact ⟨i, c', hc', st.enq a1, by rw [st.id]; exact a2, by rw [st.trace]; exact a3,
        by rw [st.body]; exact a4, by rw [st.ctx]; exact a5⟩
    · rw [h1 e] at hc'; exact ⟨i, c, hc', a1, a2, a3, a4, a5⟩
  · rw [hlog]; exact hi.canNodup
  · intro id tr hm
    rw [hlog] at hm
    obtain ⟨b1, b2, i, c, hc, a1, a2, a3, a4, a5, a6⟩ := hi.canCall id tr hm
    rw [hlog, hinf, hpois]
    refine ⟨b1, b2, ?_⟩
    obtain ⟨c', hc', h1, h2⟩ := fwd _ c hc
    by_cases e : i = cid
    · have st := h2 e
      have := rcan id tr hm c' (e ▸ hc') (by rw [st.id]; exact a2)
      exact ⟨i, c', hc', st.pol.mpr a1, by rw [st.id]; exact a2, by rw [st.trace]; exact a3, st.rx a4,
        this.1, this.2⟩
    · rw [h1 e] at hc'; exact ⟨i, c, hc', a1, a2, a3, a4, a5, a6⟩
  · rw [hlog, hpois]; exact hi.canAfter

@[simp] theorem View.upd_pq (v : View) (cid g) : (v.upd cid g).pq = v.pq := rfl
@[simp] theorem View.upd_cq (v : View) (cid g) : (v.upd cid g).cq = v.cq := rfl
@[simp] theorem View.upd_inflight (v : View) (cid g) : (v.upd cid g).inflight = v.inflight := rfl
@[simp] theorem View.upd_nextId (v : View) (cid g) : (v.upd cid g).nextId = v.nextId := rfl
@[simp] theorem View.upd_nextFresh (v : View) (cid g) : (v.upd cid g).nextFresh = v.nextFresh := rfl
@[simp] theorem View.upd_sentLog (v : View) (cid g) : (v.upd cid g).sentLog = v.sentLog := rfl
@[simp] theorem View.upd_poisoned (v : View) (cid g) : (v.upd cid g).poisoned = v.poisoned := rfl
@[simp] theorem View.upd_rel (v : View) (cid g) : (v.upd cid g).rel = v.rel := rfl
@[simp] theorem View.upd_calls_length (v : View) (cid g) : (v.upd cid g).calls.length = v.calls.length := by
  simp [View.upd]

theorem View.upd_cids (v : View) (cid : Nat) (g : CallV → CallV) :
    (v.upd cid g).calls.map (·.cid) = v.calls.map (·.cid) := by
  simp only [View.upd, List.map_map]
  apply List.map_congr_left
  intro c _
  by_cases h : c.cid = cid <;> simp [h]

theorem View.get_upd_self (v : View) (cid : Nat) (g : CallV → CallV) :
    (v.upd cid g).get cid = (v.get cid).map (fun c => { g c with cid := c.cid }) := by
  rw [View.get_upd]; simp

theorem View.get_upd_ne (v : View) (cid : Nat) (g : CallV → CallV) {i : Nat} (h : i ≠ cid) :
    (v.upd cid g).get i = v.get i := by
  rw [View.get_upd]; simp [h]

/-- `Inv.call_step` for `View.upd`. -/
theorem Inv.upd {x : Option Nat} {v : View} (hi : Inv x v) (cid : Nat) (g : CallV → CallV)
    (hstep : ∀ c, v.get cid = some c → CallStep c { g c with cid := c.cid })
    (rpq : ∀ r ∈ v.pq, r.cid = cid → ∀ c, v.get cid = some c →
        (g c).val = none ∧ okLike (g c).outcome = false ∧ ((g c).rxClosed = false → (g c).phase = .awaiting))
    (rinf : ∀ e ∈ v.inflight, e.cid = cid → ∀ c, v.get cid = some c → (g c).val = none ∧ okLike (g c).outcome = false)
    (rcan : ∀ tr c, v.get cid = some c → Msg.cancel c.id tr ∈ v.sentLog →
        okLike (g c).outcome = false ∧ okLike (g c).val = false) :
    Inv x (v.upd cid g) := by
  refine hi.call_step cid (View.upd_cids v cid g) rfl rfl rfl rfl rfl rfl rfl ?_ ?_ ?_ ?_ ?_
  · intro i c hc
    by_cases e : i = cid
    · subst e
      exact ⟨_, by rw [View.get_upd_self, hc]; rfl, fun h => absurd rfl h, fun _ => hstep c hc⟩
    · exact ⟨c, by rw [View.get_upd_ne _ _ _ e, hc], fun _ => rfl, fun h => absurd h e⟩
  · intro i c' hc'
    by_cases e : i = cid
    · subst e
      rw [View.get_upd_self] at hc'
      cases hc : v.get i with
      | none => simp [hc] at hc'
      | some c =>
        simp only [hc, Option.map_some, Option.some.injEq] at hc'
        exact ⟨c, rfl, fun h => absurd rfl h, fun _ => hc' ▸ hstep c hc⟩
    · rw [View.get_upd_ne _ _ _ e] at hc'
      exact ⟨c', hc', fun _ => rfl, fun h => absurd h e⟩
  · intro r hr e c' hc'
    rw [View.get_upd_self] at hc'
    cases hc : v.get cid with
    | none => simp [hc] at hc'
    | some c =>
      simp only [hc, Option.map_some, Option.some.injEq] at hc'
      subst hc'
      exact rpq r hr e c hc
  · intro e' he e c' hc'
    rw [View.get_upd_self] at hc'
    cases hc : v.get cid with
    | none => simp [hc] at hc'
    | some c =>
      simp only [hc, Option.map_some, Option.some.injEq] at hc'
      subst hc'
      exact rinf e' he e c hc
  · intro id tr hm c' hc' hid
    rw [View.get_upd_self] at hc'
    cases hc : v.get cid with
    | none => simp [hc] at hc'
    | some c =>
      simp only [hc, Option.map_some, Option.some.injEq] at hc'
      subst hc'
      have hs := hstep c hc
      have : c.id = id := by rw [← hs.id]; exact hid
      exact rcan tr c hc (this ▸ hm)

/-! ### view-level transitions of the queues and the in-flight table -/

/-- What is known about a request taken off the request queue. -/
structure Deq (v : View) (r : DReq) : Prop where
  call : ∃ c, v.get r.cid = some c ∧ c.enq ∧ c.id = r.id ∧ r.body = c.body ∧
        r.ctx = { deadline := c.ctx.deadline, trace := c.trace } ∧ c.val = none ∧ okLike c.outcome = false ∧
        (c.rxClosed = false → c.phase = .awaiting)
  notPq : ∀ r' ∈ v.pq, r'.id ≠ r.id
  notInf : ∀ e ∈ v.inflight, e.id ≠ r.id
  notSent : r.id ∉ reqIds v.sentLog

theorem Inv.pqPop {x : Option Nat} {v : View} (hi : Inv x v) {r : DReq} {rest : List DReq}
    (h : v.pq = r :: rest) : Inv x { v with pq := rest } ∧ Deq { v with pq := rest } r := by
  have hnd := hi.pqNodup
  rw [h] at hnd
  simp only [List.map_cons, List.nodup_cons, List.mem_map, not_exists, not_and] at hnd
  have hsub : ∀ r' ∈ rest, r' ∈ v.pq := fun r' hr' => by rw [h]; exact List.mem_cons_of_mem _ hr'
  have hr : r ∈ v.pq := by rw [h]; exact List.mem_cons_self
  refine ⟨{ hi with pq := fun r' hr' => hi.pq r' (hsub r' hr'), pqNodup := hnd.2,
                    disj := fun r' hr' => hi.disj r' (hsub r' hr'),
                    pqNotSent := fun r' hr' => hi.pqNotSent r' (hsub r' hr') }, ?_⟩
  exact ⟨hi.pq r hr, fun r' hr' e => hnd.1 r' hr' e, fun e he => (hi.disj r hr e he).symm, hi.pqNotSent r hr⟩

theorem Inv.cqPop {x : Option Nat} {v : View} (hi : Inv x v) {i : Nat} {rest : List Nat}
    (h : v.cq = i :: rest) :
    Inv x { v with cq := rest } ∧ ∃ j c, v.get j = some c ∧ c.polled ∧ c.id = i ∧ c.rxClosed = true := by
  have hsub : ∀ r' ∈ rest, r' ∈ v.cq := fun r' hr' => by rw [h]; exact List.mem_cons_of_mem _ hr'
  exact ⟨{ hi with cq := fun r' hr' => hi.cq r' (hsub r' hr') }, hi.cq i (by rw [h]; exact List.mem_cons_self)⟩

theorem Inv.cqClear {x : Option Nat} {v : View} (hi : Inv x v) : Inv x { v with cq := [] } :=
  { hi with cq := fun _ h => by simp at h }

theorem Inv.of_rel {x : Option Nat} {v : View} (hi : Inv x v) (l : List Obs) : Inv x { v with rel := l } :=
  { hi with }

theorem Inv.of_handles {x : Option Nat} {v : View} (hi : Inv x v) (l : List Nat) (n : Nat) :
    Inv x { v with handles := l, nextHandle := n } :=
  { hi with }

theorem Inv.poison {x : Option Nat} {v : View} (hi : Inv x v) : Inv x { v with poisoned := true } :=
  { hi with
    infSent := fun h => by cases h
    xNotSent := fun h => by cases h
    canCall := fun id tr hm => by
      obtain ⟨_, b, c⟩ := hi.canCall id tr hm
      exact ⟨fun h => (by cases h), b, c⟩
    canAfter := fun h => by cases h }

theorem Inv.infRemove {x : Option Nat} {v : View} (hi : Inv x v) (id : Nat) :
    Inv x { v with inflight := v.inflight.filter (·.id != id) } := by
  have hsub : ∀ e ∈ v.inflight.filter (·.id != id), e ∈ v.inflight := fun e he => (List.mem_filter.mp he).1
  exact { hi with
    inf := fun e he => hi.inf e (hsub e he)
    infNodup := (List.filter_sublist.map _).nodup hi.infNodup
    disj := fun r hr e he => hi.disj r hr e (hsub e he)
    infSent := fun hp e he => hi.infSent hp e (hsub e he)
    canCall := fun id' tr hm => by
      obtain ⟨a, b, c⟩ := hi.canCall id' tr hm
      exact ⟨a, fun e he => b e (hsub e he), c⟩ }

/-- Re-keying entries (a re-armed deadline timer: new `timerKey`, smaller `remainder`) changes nothing the invariant
reads: `id`, `cid` and `ctx` stay. -/
theorem Inv.infMap {x : Option Nat} {v : View} (hi : Inv x v) (f : Entry → Entry)
    (hf : ∀ e, (f e).id = e.id ∧ (f e).cid = e.cid ∧ (f e).ctx = e.ctx) :
    Inv x { v with inflight := v.inflight.map f } := by
  have hback : ∀ e' ∈ v.inflight.map f, ∃ e ∈ v.inflight, e' = f e := fun e' he' => by
    obtain ⟨e, he, rfl⟩ := List.mem_map.mp he'; exact ⟨e, he, rfl⟩
  have hids : (v.inflight.map f).map (·.id) = v.inflight.map (·.id) := by
    rw [List.map_map]; apply List.map_congr_left; intro e _; exact (hf e).1
  exact { hi with
    inf := fun e' he' => by
      obtain ⟨e, he, rfl⟩ := hback e' he'
      rw [(hf e).1, (hf e).2.1, (hf e).2.2]; exact hi.inf e he
    infNodup := by show ((v.inflight.map f).map (·.id)).Nodup; rw [hids]; exact hi.infNodup
    disj := fun r hr e' he' => by
      obtain ⟨e, he, rfl⟩ := hback e' he'
      rw [(hf e).1]; exact hi.disj r hr e he
    infSent := fun hp e' he' hx => by
      obtain ⟨e, he, rfl⟩ := hback e' he'
      rw [(hf e).1] at hx ⊢; exact hi.infSent hp e he hx
    canCall := fun id' tr hm => by
      obtain ⟨a, b, c⟩ := hi.canCall id' tr hm
      refine ⟨a, fun e' he' => ?_, c⟩
      obtain ⟨e, he, rfl⟩ := hback e' he'
      rw [(hf e).1]; exact b e he }

theorem rearmEntry_same (id key t due : Nat) (e : Entry) :
    (rearmEntry id key t due e).id = e.id ∧ (rearmEntry id key t due e).cid = e.cid ∧ (rearmEntry id key t due e).ctx = e.ctx := by
  unfold rearmEntry; split <;> exact ⟨rfl, rfl, rfl⟩

/-- the pending write is no longer owed: the dispatch panicked, or the entry is gone -/
theorem Inv.drop_x {v : View} {id : Nat} (hi : Inv (some id) v)
    (h : v.poisoned = true ∨ ∀ e ∈ v.inflight, e.id ≠ id) : Inv none v :=
  { hi with
    infSent := fun hp e he _ => by
      rcases h with h | h
      · rw [h] at hp; cases hp
      · exact hi.infSent hp e he (by simpa using h e he)
    xNotSent := fun _ _ h => by cases h }

theorem Inv.infClear {x : Option Nat} {v : View} (hi : Inv x v) : Inv x { v with inflight := [] } :=
  { hi with
    inf := fun _ h => by simp at h
    infNodup := by simp
    disj := fun _ _ _ h => by simp at h
    infSent := fun _ _ h => by simp at h
    canCall := fun id' tr hm => by
      obtain ⟨a, _, c⟩ := hi.canCall id' tr hm
      exact ⟨a, fun _ h => by simp at h, c⟩ }

theorem Inv.pqClear {x : Option Nat} {v : View} (hi : Inv x v) : Inv x { v with pq := [] } :=
  { hi with
    pq := fun _ h => by simp at h
    pqNodup := by simp
    disj := fun _ h => by simp at h
    pqNotSent := fun _ h => by simp at h }

theorem Inv.infInsert {v : View} (hi : Inv none v) {r : DReq} (hd : Deq v r)
    (hnc : ∃ c, v.get r.cid = some c ∧ c.rxClosed = false) (key rem due : Nat) :
    Inv (some r.id) { v with inflight := v.inflight ++ [{ id := r.id, cid := r.cid, ctx := r.ctx, timerKey := key, remainder := rem, dueAt := due }] } := by
  obtain ⟨c, hc, a1, a2, a3, a4, a5, a6, a7⟩ := hd.call
  exact { hi with
    inf := fun e he => by
      simp only [List.mem_append, List.mem_singleton] at he
      rcases he with he | rfl
      · exact hi.inf e he
      · exact ⟨c, hc, a1, a2, a4, a5, a6⟩
    infNodup := by
      simp only [List.map_append, List.map_cons, List.map_nil]
      refine List.nodup_append.mpr ⟨hi.infNodup, by simp, ?_⟩
      intro a ha b hb
      simp only [List.mem_map] at ha
      obtain ⟨e, he, rfl⟩ := ha
      simp only [List.mem_singleton] at hb
      subst hb
      exact hd.notInf e he
    disj := fun r' hr' e he => by
      simp only [List.mem_append, List.mem_singleton] at he
      rcases he with he | rfl
      · exact hi.disj r' hr' e he
      · exact hd.notPq r' hr'
    infSent := fun hp e he hx => by
      simp only [List.mem_append, List.mem_singleton] at he
      rcases he with he | rfl
      · exact hi.infSent hp e he (by simp)
      · simp at hx
    xNotSent := fun _ id h => by cases h; exact hd.notSent
    canCall := fun id' tr hm => by
      obtain ⟨a, b, i, c2, hc2, p2, id2, t2, rx2, rest⟩ := hi.canCall id' tr hm
      refine ⟨a, fun e he => ?_, i, c2, hc2, p2, id2, t2, rx2, rest⟩
      simp only [List.mem_append, List.mem_singleton] at he
      rcases he with he | rfl
      · exact b e he
      · intro h
        simp only at h
        obtain ⟨c', hc', hrx⟩ := hnc
        rw [hc] at hc'; injection hc' with hc'; subst hc'
        have : i = r.cid := hi.idInj i r.cid c2 c hc2 hc p2 a1.polled (by omega)
        subst this
        rw [hc] at hc2; injection hc2 with hc2; subst hc2
        rw [hrx] at rx2; cases rx2 }

/-! ### writes -/

@[simp] theorem reqIds_append (l1 l2 : List Msg) : reqIds (l1 ++ l2) = reqIds l1 ++ reqIds l2 := by
  simp [reqIds]
@[simp] theorem cancelIds_append (l1 l2 : List Msg) : cancelIds (l1 ++ l2) = cancelIds l1 ++ cancelIds l2 := by
  simp [cancelIds]
@[simp] theorem reqIds_request (id dl tr b) : reqIds [Msg.request id dl tr b] = [id] := rfl
@[simp] theorem reqIds_cancel (id tr) : reqIds [Msg.cancel id tr] = [] := rfl
@[simp] theorem cancelIds_request (id dl tr b) : cancelIds [Msg.request id dl tr b] = [] := rfl
@[simp] theorem cancelIds_cancel (id tr) : cancelIds [Msg.cancel id tr] = [id] := rfl

theorem mem_reqIds {l : List Msg} {id : Nat} : id ∈ reqIds l ↔ ∃ dl tr b, Msg.request id dl tr b ∈ l := by
  simp only [reqIds, List.mem_filterMap]
  constructor
  · rintro ⟨m, hm, h⟩
    cases m <;> simp at h
    subst h; exact ⟨_, _, _, hm⟩
  · rintro ⟨dl, tr, b, h⟩; exact ⟨_, h, rfl⟩

theorem mem_cancelIds {l : List Msg} {id : Nat} : id ∈ cancelIds l ↔ ∃ tr, Msg.cancel id tr ∈ l := by
  simp only [cancelIds, List.mem_filterMap]
  constructor
  · rintro ⟨m, hm, h⟩
    cases m <;> simp at h
    subst h; exact ⟨_, hm⟩
  · rintro ⟨tr, h⟩; exact ⟨_, h, rfl⟩

/-- splitting `l ++ [m]` at an element -/
theorem snoc_split {α} {l l1 l2 : List α} {m a : α} (h : l ++ [m] = l1 ++ a :: l2) :
    (l2 = [] ∧ l = l1 ∧ m = a) ∨ ∃ l2', l2 = l2' ++ [m] ∧ l = l1 ++ a :: l2' := by
  rcases List.eq_nil_or_concat l2 with rfl | ⟨l2', b, rfl⟩
  · left
    have : l ++ [m] = l1 ++ [a] := h
    have := List.append_inj' this rfl
    simp_all
  · right
    have : l ++ [m] = (l1 ++ a :: l2') ++ [b] := by simpa using h
    have := List.append_inj' this rfl
    refine ⟨l2', ?_, this.1⟩
    simp_all

theorem Inv.sendReq {v : View} {id : Nat} (hi : Inv (some id) v) (hp : v.poisoned = false)
    {e : Entry} (he : e ∈ v.inflight) (hid : e.id = id) (body : Nat)
    (hb : ∀ c, v.get e.cid = some c → body = c.body) :
    Inv none { v with sentLog := v.sentLog ++ [Msg.request id e.ctx.deadline e.ctx.trace body] } := by
  have hx := hi.xNotSent hp id rfl
  exact { hi with
    reqNodup := by
      simp only [reqIds_append, reqIds_request]
      exact List.nodup_append.mpr ⟨hi.reqNodup, by simp, by intro a ha b hb; simp at hb; subst hb; intro h; exact hx (h ▸ ha)⟩
    pqNotSent := fun r hr => by
      simp only [reqIds_append, reqIds_request, List.mem_append, List.mem_singleton, not_or]
      exact ⟨hi.pqNotSent r hr, fun h => hi.disj r hr e he (by omega)⟩
    infSent := fun _ e' he' _ => by
      simp only [reqIds_append, reqIds_request, List.mem_append, List.mem_singleton]
      by_cases h : e'.id = id
      · exact Or.inr h
      · exact Or.inl (hi.infSent hp e' he' (by simpa using h))
    xNotSent := fun _ _ h => by cases h
    reqCall := fun id' dl tr b hm => by
      simp only [List.mem_append, List.mem_singleton] at hm
      rcases hm with hm | hm
      · exact hi.reqCall id' dl tr b hm
      · injection hm with h1 h2 h3 h4
        obtain ⟨c, hc, a1, a2, a4, _, _⟩ := hi.inf e he
        refine ⟨e.cid, c, hc, a1, by omega, ?_, ?_, ?_⟩
        · rw [h3, a4]
        · rw [h4]; exact hb c hc
        · rw [h2, a4]
    canNodup := by simpa using hi.canNodup
    canCall := fun id' tr hm => by
      simp only [List.mem_append, List.mem_singleton] at hm
      rcases hm with hm | hm
      · obtain ⟨a, b, c⟩ := hi.canCall id' tr hm
        exact ⟨fun _ => by simp only [reqIds_append, List.mem_append]; exact Or.inl (a hp), b, c⟩
      · cases hm
    canAfter := fun _ l1 id' tr l2 h => by
      rcases snoc_split h with ⟨_, _, h3⟩ | ⟨l2', _, h2⟩
      · cases h3
      · exact hi.canAfter hp l1 id' tr l2' h2 }

theorem Inv.sendCancel {v : View} (hi : Inv none v) (id : Nat) (tr : Trace)
    (hreq : v.poisoned = false → id ∈ reqIds v.sentLog) (hnc : id ∉ cancelIds v.sentLog) (hninf : ∀ e ∈ v.inflight, e.id ≠ id)
    (hcall : ∃ i c, v.get i = some c ∧ c.polled ∧ c.id = id ∧ tr = c.trace ∧ c.rxClosed = true ∧
          okLike c.outcome = false ∧ okLike c.val = false) :
    Inv none { v with sentLog := v.sentLog ++ [Msg.cancel id tr] } :=
  { hi with
    reqNodup := by simpa using hi.reqNodup
    pqNotSent := fun r hr => by simpa using hi.pqNotSent r hr
    infSent := fun hp e he h => by simpa using hi.infSent hp e he h
    xNotSent := fun _ _ h => by cases h
    reqCall := fun id' dl tr' b hm => by
      simp only [List.mem_append, List.mem_singleton] at hm
      rcases hm with hm | hm
      · exact hi.reqCall id' dl tr' b hm
      · cases hm
    canNodup := by
      simp only [cancelIds_append, cancelIds_cancel]
      exact List.nodup_append.mpr ⟨hi.canNodup, by simp, by intro a ha b hb; simp at hb; subst hb; intro h; exact hnc (h ▸ ha)⟩
    canCall := fun id' tr' hm => by
      simp only [List.mem_append, List.mem_singleton] at hm
      simp only [reqIds_append, reqIds_cancel, List.append_nil]
      rcases hm with hm | hm
      · exact hi.canCall id' tr' hm
      · injection hm with h1 h2
        subst h1 h2
        exact ⟨hreq, hninf, hcall⟩
    canAfter := fun hp l1 id' tr' l2 h => by
      rcases snoc_split h with ⟨_, h2, h3⟩ | ⟨l2', _, h2⟩
      · injection h3 with h3 h4
        subst h2 h3
        exact hreq hp
      · exact hi.canAfter hp l1 id' tr' l2' h2 }

/-! ### oneshot send at view level -/

def View.send (v : View) (cid : Nat) (o : Outcome) : View :=
  match v.get cid with
  | none => v
  | some c => if c.rxClosed then v else v.upd cid (fun c => { c with val := some o })

theorem view_osSend' (s : St) (cid : Nat) (o : Outcome) : view (osSend s cid o) = (view s).send cid o := by
  rw [view_osSend]; rfl

@[simp] theorem View.send_pq (v : View) (cid o) : (v.send cid o).pq = v.pq := by
  unfold View.send; split <;> (try split) <;> rfl
@[simp] theorem View.send_cq (v : View) (cid o) : (v.send cid o).cq = v.cq := by
  unfold View.send; split <;> (try split) <;> rfl
@[simp] theorem View.send_inflight (v : View) (cid o) : (v.send cid o).inflight = v.inflight := by
  unfold View.send; split <;> (try split) <;> rfl
@[simp] theorem View.send_sentLog (v : View) (cid o) : (v.send cid o).sentLog = v.sentLog := by
  unfold View.send; split <;> (try split) <;> rfl
@[simp] theorem View.send_nextId (v : View) (cid o) : (v.send cid o).nextId = v.nextId := by
  unfold View.send; split <;> (try split) <;> rfl
@[simp] theorem View.send_poisoned (v : View) (cid o) : (v.send cid o).poisoned = v.poisoned := by
  unfold View.send; split <;> (try split) <;> rfl
@[simp] theorem View.send_rel (v : View) (cid o) : (v.send cid o).rel = v.rel := by
  unfold View.send; split <;> (try split) <;> rfl

theorem Inv.send {x : Option Nat} {v : View} (hi : Inv x v) (cid : Nat) (o : Outcome)
    (hpq : ∀ r ∈ v.pq, r.cid ≠ cid) (hinf : ∀ e ∈ v.inflight, e.cid ≠ cid)
    (henq : ∀ c, v.get cid = some c → c.enq)
    (hcan : okLike (some o) = true → ∀ c tr, v.get cid = some c → Msg.cancel c.id tr ∉ v.sentLog) :
    Inv x (v.send cid o) := by
  unfold View.send
  split
  · exact hi
  · rename_i c hc
    split
    · exact hi
    · refine hi.upd cid _ ?_ ?_ ?_ ?_
      · intro c' hc'
        have hen := henq c' hc'
        refine ⟨rfl, rfl, rfl, rfl, rfl, Iff.rfl, id, id, hi.outc cid c' hc', hi.np cid c' hc', ?_⟩
        intro h; simp only at h; unfold CallV.enq at hen; grind
      · intro r hr e; exact absurd e (hpq r hr)
      · intro e he h; exact absurd h (hinf e he)
      · intro tr c' hc' hm
        obtain ⟨_, _, i, c2, hc2, p2, id2, _, _, o2, _⟩ := hi.canCall c'.id tr hm
        have : i = cid := hi.idInj i cid c2 c' hc2 hc' p2 (henq c' hc').polled id2
        subst this
        rw [hc'] at hc2; injection hc2 with hc2; subst hc2
        refine ⟨o2, ?_⟩
        simp only
        cases ho : okLike (some o) with
        | false => rfl
        | true => exact absurd hm (hcan ho c' tr hc')

/-! ### what the roles of a call say about its record -/

theorem Inv.pq_role {x : Option Nat} {v : View} (hi : Inv x v) {r : DReq} (hr : r ∈ v.pq) {c : CallV}
    (hc : v.get r.cid = some c) :
    c.enq ∧ c.id = r.id ∧ c.val = none ∧ okLike c.outcome = false ∧ (c.rxClosed = false → c.phase = .awaiting) := by
  obtain ⟨c1, hc1, a1, a2, _, _, a5, a6, a7⟩ := hi.pq r hr
  rw [hc] at hc1; injection hc1 with hc1; subst hc1
  exact ⟨a1, a2, a5, a6, a7⟩

theorem Inv.inf_role {x : Option Nat} {v : View} (hi : Inv x v) {e : Entry} (he : e ∈ v.inflight) {c : CallV}
    (hc : v.get e.cid = some c) :
    c.enq ∧ c.id = e.id ∧ c.val = none ∧ okLike c.outcome = false := by
  obtain ⟨c1, hc1, a1, a2, _, a5, a6⟩ := hi.inf e he
  rw [hc] at hc1; injection hc1 with hc1; subst hc1
  exact ⟨a1, a2, a5, a6⟩

theorem Inv.can_role {x : Option Nat} {v : View} (hi : Inv x v) {cid : Nat} {c : CallV} {tr : Trace}
    (hc : v.get cid = some c) (hp : c.polled) (hm : Msg.cancel c.id tr ∈ v.sentLog) :
    okLike c.outcome = false ∧ okLike c.val = false ∧ c.rxClosed = true := by
  obtain ⟨_, _, i, c2, hc2, p2, id2, _, rx2, o2, v2⟩ := hi.canCall c.id tr hm
  have : i = cid := hi.idInj i cid c2 c hc2 hc p2 hp id2
  subst this
  rw [hc] at hc2; injection hc2 with hc2; subst hc2
  exact ⟨o2, v2, rx2⟩

/-- the id of a polled call that is not yet enqueued is not tracked anywhere -/
theorem Inv.unqueued {x : Option Nat} {v : View} (hi : Inv x v) {cid : Nat} {c : CallV}
    (hc : v.get cid = some c) (hp : c.polled) (hne : ¬ c.enq) :
    (∀ r ∈ v.pq, r.id ≠ c.id) ∧ (∀ e ∈ v.inflight, e.id ≠ c.id) ∧ c.id ∉ reqIds v.sentLog := by
  refine ⟨fun r hr h => ?_, fun e he h => ?_, fun h => ?_⟩
  · obtain ⟨c1, hc1, a1, a2, _⟩ := hi.pq r hr
    have : r.cid = cid := hi.idInj _ _ c1 c hc1 hc a1.polled hp (by omega)
    subst this; rw [hc] at hc1; injection hc1 with hc1; subst hc1; exact hne a1
  · obtain ⟨c1, hc1, a1, a2, _⟩ := hi.inf e he
    have : e.cid = cid := hi.idInj _ _ c1 c hc1 hc a1.polled hp (by omega)
    subst this; rw [hc] at hc1; injection hc1 with hc1; subst hc1; exact hne a1
  · obtain ⟨dl, tr, b, hm⟩ := mem_reqIds.mp h
    obtain ⟨i, c1, hc1, a1, a2, _⟩ := hi.reqCall _ _ _ _ hm
    have : i = cid := hi.idInj _ _ c1 c hc1 hc a1.polled hp a2
    subst this; rw [hc] at hc1; injection hc1 with hc1; subst hc1; exact hne a1

/-! ### view-level transitions of the call futures -/

theorem Inv.guardClose {x : Option Nat} {v : View} (hi : Inv x v) {cid : Nat} {c : CallV}
    (hc : v.get cid = some c) (hph : c.phase = .reserving ∨ c.phase = .awaiting) :
    Inv x (v.upd cid (fun c => { c with rxClosed := true })) := by
  refine hi.upd cid _ ?_ ?_ ?_ ?_
  · intro c' hc'; rw [hc] at hc'; injection hc' with hc'; subst hc'
    refine ⟨rfl, rfl, rfl, rfl, rfl, ?_, ?_, fun _ => rfl, hi.outc cid c hc, ?_, hi.early cid c hc⟩
    · simp only [CallV.polled]; grind
    · simp only [CallV.enq]; grind
    · intro h; simp only at h; grind
  · intro r hr e c' hc'; subst e
    obtain ⟨_, _, a, b, _⟩ := hi.pq_role hr hc'
    exact ⟨a, b, fun h => by simp at h⟩
  · intro e he h c' hc'; subst h
    obtain ⟨_, _, a, b⟩ := hi.inf_role he hc'
    exact ⟨a, b⟩
  · intro tr c' hc' hm
    have hp : c'.polled := by
      rw [hc] at hc'; injection hc' with hc'; subst hc'; simp only [CallV.polled]; grind
    obtain ⟨a, b, _⟩ := hi.can_role hc' hp hm
    exact ⟨a, b⟩

theorem Inv.resolveShut {x : Option Nat} {v : View} (hi : Inv x v) {cid : Nat} {c : CallV}
    (hc : v.get cid = some c) (hph : c.phase = .reserving ∨ c.phase = .awaiting) :
    Inv x (v.upd cid (fun c => { c with phase := .resolved, outcome := some .shutdown, rxClosed := true })) := by
  refine hi.upd cid _ ?_ ?_ ?_ ?_
  · intro c' hc'; rw [hc] at hc'; injection hc' with hc'; subst hc'
    refine ⟨rfl, rfl, rfl, rfl, rfl, ?_, ?_, fun _ => rfl, by simp, by simp, by simp⟩
    · simp only [CallV.polled]; grind
    · simp only [CallV.enq]; grind
  · intro r hr e c' hc'; subst e
    obtain ⟨_, _, a, _, _⟩ := hi.pq_role hr hc'
    exact ⟨a, rfl, fun h => by simp at h⟩
  · intro e he h c' hc'; subst h
    obtain ⟨_, _, a, _⟩ := hi.inf_role he hc'
    exact ⟨a, rfl⟩
  · intro tr c' hc' hm
    have hp : c'.polled := by
      rw [hc] at hc'; injection hc' with hc'; subst hc'; simp only [CallV.polled]; grind
    obtain ⟨_, b, _⟩ := hi.can_role hc' hp hm
    exact ⟨rfl, b⟩

theorem Inv.resolveVal {x : Option Nat} {v : View} (hi : Inv x v) {cid : Nat} {c : CallV} {o : Outcome}
    (hc : v.get cid = some c) (hph : c.phase = .awaiting) (hv : c.val = some o) :
    Inv x (v.upd cid (fun c => { c with val := none, phase := .resolved, outcome := some o, rxClosed := true })) := by
  refine hi.upd cid _ ?_ ?_ ?_ ?_
  · intro c' hc'; rw [hc] at hc'; injection hc' with hc'; subst hc'
    refine ⟨rfl, rfl, rfl, rfl, rfl, ?_, ?_, fun _ => rfl, by simp, by simp, by simp⟩
    · simp only [CallV.polled]; grind
    · simp only [CallV.enq]; grind
  · intro r hr e c' hc'; subst e
    obtain ⟨_, _, a, _, _⟩ := hi.pq_role hr hc'
    rw [hc] at hc'; injection hc' with hc'; subst hc'; rw [hv] at a; cases a
  · intro e he h c' hc'; subst h
    obtain ⟨_, _, a, _⟩ := hi.inf_role he hc'
    rw [hc] at hc'; injection hc' with hc'; subst hc'; rw [hv] at a; cases a
  · intro tr c' hc' hm
    have hp : c'.polled := by
      rw [hc] at hc'; injection hc' with hc'; subst hc'; simp only [CallV.polled]; grind
    obtain ⟨_, b, _⟩ := hi.can_role hc' hp hm
    rw [hc] at hc'; injection hc' with hc'; subst hc'
    rw [hv] at b
    exact ⟨b, rfl⟩

theorem Inv.dropGuarded {x : Option Nat} {v : View} (hi : Inv x v) {cid : Nat} {c : CallV}
    (hc : v.get cid = some c) (hph : c.phase = .reserving ∨ c.phase = .awaiting) (hrx : c.rxClosed = true) :
    Inv x (v.upd cid (fun c => { c with phase := .dropped })) := by
  have hout : c.outcome = none := by
    have := hi.outc cid c hc
    cases h : c.outcome with
    | none => rfl
    | some o => rw [h] at this; simp at this; grind
  refine hi.upd cid _ ?_ ?_ ?_ ?_
  · intro c' hc'; rw [hc] at hc'; injection hc' with hc'; subst hc'
    refine ⟨rfl, rfl, rfl, rfl, rfl, ?_, ?_, fun h => h, by simp [hout], by simp, by simp⟩
    · simp only [CallV.polled]; grind
    · simp only [CallV.enq]; grind
  · intro r hr e c' hc'; subst e
    obtain ⟨_, _, a, b, _⟩ := hi.pq_role hr hc'
    rw [hc] at hc'; injection hc' with hc'; subst hc'
    exact ⟨a, b, fun h => by simp [hrx] at h⟩
  · intro e he h c' hc'; subst h
    obtain ⟨_, _, a, b⟩ := hi.inf_role he hc'
    exact ⟨a, b⟩
  · intro tr c' hc' hm
    have hp : c'.polled := by
      rw [hc] at hc'; injection hc' with hc'; subst hc'; simp only [CallV.polled]; grind
    obtain ⟨a, b, _⟩ := hi.can_role hc' hp hm
    exact ⟨a, b⟩

theorem Inv.dropNP {x : Option Nat} {v : View} (hi : Inv x v) {cid : Nat} {c : CallV}
    (hc : v.get cid = some c) (hph : c.phase = .notPolled) :
    Inv x (v.upd cid (fun c => { c with phase := .dropped })) := by
  have hout : c.outcome = none := by
    have := hi.outc cid c hc
    cases h : c.outcome with
    | none => rfl
    | some o => rw [h] at this; simp at this; grind
  have hrx := hi.np cid c hc hph
  have hval := hi.early cid c hc (Or.inl hph)
  refine hi.upd cid _ ?_ ?_ ?_ ?_
  · intro c' hc'; rw [hc] at hc'; injection hc' with hc'; subst hc'
    refine ⟨rfl, rfl, rfl, rfl, rfl, ?_, ?_, fun h => h, by simp [hout], by simp, by simp⟩
    · simp only [CallV.polled]; grind
    · simp only [CallV.enq]; grind
  · intro r hr e c' hc'; subst e
    obtain ⟨a, _⟩ := hi.pq_role hr hc'
    rw [hc] at hc'; injection hc' with hc'; subst hc'
    simp only [CallV.enq] at a; grind
  · intro e he h c' hc'; subst h
    obtain ⟨a, _⟩ := hi.inf_role he hc'
    rw [hc] at hc'; injection hc' with hc'; subst hc'
    simp only [CallV.enq] at a; grind
  · intro tr c' hc' hm
    rw [hc] at hc'; injection hc' with hc'; subst hc'
    simp [hout, hval, okLike]

theorem Inv.cqPush {x : Option Nat} {v : View} (hi : Inv x v) {cid : Nat} {c : CallV}
    (hc : v.get cid = some c) (hp : c.polled) (hrx : c.rxClosed = true) :
    Inv x { v with cq := v.cq ++ [c.id] } :=
  { hi with
    cq := fun id hid => by
      simp only [List.mem_append, List.mem_singleton] at hid
      rcases hid with hid | rfl
      · exact hi.cq id hid
      · exact ⟨cid, c, hc, hp, rfl, hrx⟩ }

theorem Inv.pqPush {x : Option Nat} {v : View} (hi : Inv x v) (r : DReq)
    (hcall : ∃ c, v.get r.cid = some c ∧ c.enq ∧ c.id = r.id ∧ r.body = c.body ∧
        r.ctx = { deadline := c.ctx.deadline, trace := c.trace } ∧ c.val = none ∧ okLike c.outcome = false ∧
        (c.rxClosed = false → c.phase = .awaiting))
    (hnpq : ∀ r' ∈ v.pq, r'.id ≠ r.id) (hninf : ∀ e ∈ v.inflight, e.id ≠ r.id)
    (hns : r.id ∉ reqIds v.sentLog) :
    Inv x { v with pq := v.pq ++ [r] } :=
  { hi with
    pq := fun r' hr' => by
      simp only [List.mem_append, List.mem_singleton] at hr'
      rcases hr' with hr' | rfl
      · exact hi.pq r' hr'
      · exact hcall
    pqNodup := by
      simp only [List.map_append, List.map_cons, List.map_nil]
      refine List.nodup_append.mpr ⟨hi.pqNodup, by simp, ?_⟩
      intro a ha b hb
      simp only [List.mem_map] at ha
      obtain ⟨e, he, rfl⟩ := ha
      simp only [List.mem_singleton] at hb
      subst hb
      exact hnpq e he
    disj := fun r' hr' e he => by
      simp only [List.mem_append, List.mem_singleton] at hr'
      rcases hr' with hr' | rfl
      · exact hi.disj r' hr' e he
      · exact (hninf e he).symm
    pqNotSent := fun r' hr' => by
      simp only [List.mem_append, List.mem_singleton] at hr'
      rcases hr' with hr' | rfl
      · exact hi.pqNotSent r' hr'
      · exact hns }

theorem Inv.enqueue {x : Option Nat} {v : View} (hi : Inv x v) {cid : Nat} {c : CallV}
    (hc : v.get cid = some c) (hph : c.phase = .reserving) :
    Inv x { v.upd cid (fun c => { c with phase := .awaiting }) with
            pq := v.pq ++ [{ cid := cid, id := c.id, ctx := { deadline := c.ctx.deadline, trace := c.trace }, body := c.body }] } := by
  have hout : c.outcome = none := by
    have := hi.outc cid c hc
    cases h : c.outcome with
    | none => rfl
    | some o => rw [h] at this; simp at this; grind
  have hval := hi.early cid c hc (Or.inr hph)
  have hpol : c.polled := Or.inl hph
  have hne : ¬ c.enq := by simp only [CallV.enq]; grind
  obtain ⟨u1, u2, u3⟩ := hi.unqueued hc hpol hne
  have h1 : Inv x (v.upd cid (fun c => { c with phase := .awaiting })) := by
    refine hi.upd cid _ ?_ ?_ ?_ ?_
    · intro c' hc'; rw [hc] at hc'; injection hc' with hc'; subst hc'
      refine ⟨rfl, rfl, rfl, rfl, rfl, ?_, ?_, fun h => h, by simp [hout], by simp, by simp⟩
      · simp only [CallV.polled]; grind
      · simp only [CallV.enq]; grind
    · intro r hr e c' hc'; subst e
      obtain ⟨a, _⟩ := hi.pq_role hr hc'
      rw [hc] at hc'; injection hc' with hc'; subst hc'
      exact absurd a hne
    · intro e he h c' hc'; subst h
      obtain ⟨a, _⟩ := hi.inf_role he hc'
      rw [hc] at hc'; injection hc' with hc'; subst hc'
      exact absurd a hne
    · intro tr c' hc' hm
      rw [hc] at hc'; injection hc' with hc'; subst hc'
      simp [hout, hval, okLike]
  refine h1.pqPush _ ?_ u1 u2 u3
  refine ⟨{ c with phase := .awaiting }, ?_, Or.inl rfl, rfl, rfl, rfl, hval, by simp [hout, okLike], fun _ => rfl⟩
  rw [View.get_upd_self, hc]
  simp [View.get_cid hc]

/-- first poll of a call: it draws a request id and a span id (and starts waiting for a permit) -/
def View.assign (v : View) (cid : Nat) (tr : Trace) : View :=
  { v.upd cid (fun c => { c with id := v.nextId, trace := tr, phase := .reserving }) with nextId := v.nextId + 1, nextFresh := v.nextFresh + 1 }

theorem Inv.assign {x : Option Nat} {v : View} (hi : Inv x v) {cid : Nat} {c : CallV}
    (hc : v.get cid = some c) (hph : c.phase = .notPolled) (tr : Trace)
    (htr : tr = { c.ctx.trace with span := .fresh v.nextFresh }) :
    Inv x (v.assign cid tr) := by
  have hout : c.outcome = none := by
    have := hi.outc cid c hc
    cases h : c.outcome with
    | none => rfl
    | some o => rw [h] at this; simp at this; grind
  have hval := hi.early cid c hc (Or.inl hph)
  have hrx := hi.np cid c hc hph
  have hnp : ¬ c.polled := by simp only [CallV.polled]; grind
  -- the calls other than `cid` are untouched; `cid` itself is described by `hself`
  have hne : ∀ i, i ≠ cid → ∀ d, (v.assign cid tr).get i = some d ↔ v.get i = some d := by
    intro i hi' d
    have := View.get_upd_ne v cid (fun c => { c with id := v.nextId, trace := tr, phase := .reserving }) hi'
    constructor <;> intro h
    · rw [← this]; exact h
    · rw [← this] at h; exact h
  have hself : ∀ d, (v.assign cid tr).get cid = some d →
        d = { c with id := v.nextId, trace := tr, phase := .reserving } := by
    intro d h
    have := View.get_upd_self v cid (fun c => { c with id := v.nextId, trace := tr, phase := .reserving })
    have h' : (v.upd cid _).get cid = some d := h
    rw [this, hc] at h'
    simp only [Option.map_some, Option.some.injEq] at h'
    rw [← h']
  -- a polled call of the old view is not `cid`
  have hold : ∀ i d, v.get i = some d → d.polled → i ≠ cid := by
    intro i d hd hp e; subst e; rw [hc] at hd; injection hd with hd; subst hd; exact hnp hp
  constructor
  · show (v.upd cid _).calls.map (·.cid) = List.range (v.upd cid _).calls.length
    rw [View.upd_cids, View.upd_calls_length]; exact hi.cids
  · intro i d h
    by_cases e : i = cid
    · subst e; show i < (v.upd i _).calls.length; rw [View.upd_calls_length]; exact hi.cidLt i c hc
    · show i < (v.upd cid _).calls.length; rw [View.upd_calls_length]; exact hi.cidLt i d ((hne i e d).mp h)
  · show v.nextFresh + 1 = v.nextId + 1
    rw [hi.fresh]
  · intro i d h hp
    show d.id < v.nextId + 1
    by_cases e : i = cid
    · subst e; rw [hself d h]; simp
    · have := hi.idLt i d ((hne i e d).mp h) hp; omega
  · intro i j d1 d2 h1 h2 p1 p2 hid
    by_cases e1 : i = cid <;> by_cases e2 : j = cid
    · omega
    · subst e1
      have := hi.idLt j d2 ((hne j e2 d2).mp h2) p2
      rw [hself d1 h1] at hid; simp only at hid; omega
    · subst e2
      have := hi.idLt i d1 ((hne i e1 d1).mp h1) p1
      rw [hself d2 h2] at hid; simp only at hid; omega
    · exact hi.idInj i j d1 d2 ((hne i e1 d1).mp h1) ((hne j e2 d2).mp h2) p1 p2 hid
  · intro i d h hp
    by_cases e : i = cid
    · subst e; rw [hself d h]; simp [hi.fresh, htr]
    · exact hi.tr i d ((hne i e d).mp h) hp
  · intro i d h
    by_cases e : i = cid
    · subst e; rw [hself d h]; simp [hout]
    · exact hi.outc i d ((hne i e d).mp h)
  · intro i d h
    by_cases e : i = cid
    · subst e; rw [hself d h]; simp
    · exact hi.np i d ((hne i e d).mp h)
  · intro i d h
    by_cases e : i = cid
    · subst e; rw [hself d h]; simp [hval]
    · exact hi.early i d ((hne i e d).mp h)
  · intro r hr
    obtain ⟨c1, hc1, a⟩ := hi.pq r hr
    have e := hold _ _ hc1 a.1.polled
    exact ⟨c1, (hne _ e c1).mpr hc1, a⟩
  · exact hi.pqNodup
  · intro e' he
    obtain ⟨c1, hc1, a⟩ := hi.inf e' he
    have e := hold _ _ hc1 a.1.polled
    exact ⟨c1, (hne _ e c1).mpr hc1, a⟩
  · exact hi.infNodup
  · exact hi.disj
  · intro id hid
    obtain ⟨i, c1, hc1, a⟩ := hi.cq id hid
    have e := hold _ _ hc1 a.1
    exact ⟨i, c1, (hne _ e c1).mpr hc1, a⟩
  · exact hi.reqNodup
  · exact hi.pqNotSent
  · exact hi.infSent
  · exact hi.xNotSent
  · intro id dl tr body hm
    obtain ⟨i, c1, hc1, a⟩ := hi.reqCall id dl tr body hm
    have e := hold _ _ hc1 a.1.polled
    exact ⟨i, c1, (hne _ e c1).mpr hc1, a⟩
  · exact hi.canNodup
  · intro id tr hm
    obtain ⟨b1, b2, i, c1, hc1, a⟩ := hi.canCall id tr hm
    have e := hold _ _ hc1 a.1
    exact ⟨b1, b2, i, c1, (hne _ e c1).mpr hc1, a⟩
  · exact hi.canAfter

end TarpcModel.Client

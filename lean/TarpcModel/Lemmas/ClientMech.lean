import TarpcModel.Lemmas.ClientGeneric
/-! Mechanism lemmas about single functions of the client model (no invariant needed). -/
namespace TarpcModel.Client

/-! ### `completeRequest` touches only the call of the entry -/

/-- the calls with an id other than `cid` are literally unchanged -/
def OtherCallsSame (cid : Nat) (s s' : St) : Prop :=
  s'.calls.length = s.calls.length ∧ ∀ (i : Nat) (c : Call), s.calls[i]? = some c → c.cid ≠ cid → s'.calls[i]? = some c

theorem OtherCallsSame.refl (cid : Nat) (s : St) : OtherCallsSame cid s s := ⟨rfl, fun _ _ h _ => h⟩

theorem OtherCallsSame.of_calls_eq {cid : Nat} {s s' : St} (h : s'.calls = s.calls) : OtherCallsSame cid s s' :=
  ⟨by rw [h], fun _ _ hc _ => by rw [h]; exact hc⟩

theorem OtherCallsSame.trans {cid : Nat} {a b c : St} (h1 : OtherCallsSame cid a b) (h2 : OtherCallsSame cid b c) :
    OtherCallsSame cid a c :=
  ⟨h2.1.trans h1.1, fun i x hx hne => h2.2 i x (h1.2 i x hx hne) hne⟩

theorem updCall_other (s : St) (cid : Nat) (f : Call → Call) : OtherCallsSame cid s (updCall s cid f) := by
  refine ⟨by simp [updCall], fun i c hc hne => ?_⟩
  simp only [updCall, List.getElem?_map, hc, Option.map_some]
  simp [hne]

theorem wakeCall_other (s : St) (cid : Nat) : OtherCallsSame cid s (wakeCall s cid) := by
  unfold wakeCall
  split
  · split
    · exact OtherCallsSame.trans (updCall_other s cid _) (OtherCallsSame.of_calls_eq rfl)
    · exact OtherCallsSame.refl _ _
  · exact OtherCallsSame.refl _ _

theorem osSend_other (s : St) (cid : Nat) (o : Outcome) : OtherCallsSame cid s (osSend s cid o) := by
  unfold osSend
  split
  · exact OtherCallsSame.refl _ _
  · split
    · exact OtherCallsSame.refl _ _
    · simp only
      split
      · exact (updCall_other s cid _).trans (wakeCall_other _ cid)
      · exact updCall_other s cid _

theorem removeTimer_calls (s : St) (k : Nat) : (removeTimer s k).calls = s.calls := by
  unfold removeTimer; split
  · simp only; split <;> simp
  · rfl
theorem removeTimer_pq (s : St) (k : Nat) : (removeTimer s k).pq = s.pq := by
  unfold removeTimer; split
  · simp only; split <;> simp
  · rfl
theorem removeTimer_cq (s : St) (k : Nat) : (removeTimer s k).cq = s.cq := by
  unfold removeTimer; split
  · simp only; split <;> simp
  · rfl
theorem removeTimer_inflight (s : St) (k : Nat) : (removeTimer s k).inflight = s.inflight := by
  unfold removeTimer; split
  · simp only; split <;> simp
  · rfl
theorem removeTimer_t (s : St) (k : Nat) : (removeTimer s k).t = s.t := by
  unfold removeTimer; split
  · simp only; split <;> simp
  · rfl

theorem completeRequest_targets {s : St} {id : Nat} {e : Entry} (hf : findEntry s id = some e) (o : Outcome) :
    (completeRequest s id o).2 = true ∧
    (completeRequest s id o).1.inflight = s.inflight.filter (·.id != id) ∧
    (completeRequest s id o).1.pq = s.pq ∧ (completeRequest s id o).1.cq = s.cq ∧
    (completeRequest s id o).1.t = s.t ∧
    OtherCallsSame e.cid s (completeRequest s id o).1 := by
  unfold completeRequest
  rw [hf]
  simp only [osSend_inflight, osSend_pq, osSend_cq, osSend_t, removeTimer_inflight, removeTimer_pq, removeTimer_cq,
    removeTimer_t, true_and]
  exact OtherCallsSame.trans (b := removeTimer { s with inflight := s.inflight.filter (·.id != id) } e.timerKey)
    (OtherCallsSame.of_calls_eq (removeTimer_calls _ _)) (osSend_other _ _ _)

/-! ### the dequeue loop skips requests whose receiver is closed -/

theorem nextRequestLoop_skip_closed (fuel : Nat) (s : St) (r : DReq) (h : (nextRequestLoop fuel s).2 = .some r) :
    osIsClosed (nextRequestLoop fuel s).1 r.cid = false := by
  induction fuel generalizing s with
  | zero => simp [nextRequestLoop] at h
  | succ fuel ih =>
    unfold nextRequestLoop at h ⊢
    rcases hr : pqRecv s with ⟨s1, res⟩
    rw [hr] at h
    cases res with
    | pending => simp at h
    | closed => simp at h
    | item r' =>
      simp only at h ⊢
      by_cases hc : osIsClosed s1 r'.cid = true
      · simp only [hc, ↓reduceIte] at h ⊢; exact ih s1 h
      · simp only [hc, Bool.false_eq_true, ↓reduceIte] at h ⊢
        injection h with h; subst h; simpa using hc

/-! ### a `Cancel` is written only for a tracked request, with the context stored in its entry -/

theorem ensureLoop_view (fuel : Nat) (s : St) : ∃ l, view (ensureLoop fuel s).1 = { view s with rel := l } := by
  induction fuel generalizing s with
  | zero => exact ⟨_, by unfold ensureLoop; rw [view_emit_rel _ _ rfl]⟩
  | succ fuel ih =>
    unfold ensureLoop
    have h1 := view_tReady s
    rcases hr : tReady s with ⟨s1, r⟩
    rw [hr] at h1
    simp only at h1
    cases r with
    | ready => exact ⟨(view s).rel, h1⟩
    | err => exact ⟨(view s).rel, h1⟩
    | pending =>
      simp only
      have h2 := view_tFlush s1
      rcases hf : tFlush s1 with ⟨s2, f⟩
      rw [hf] at h2
      simp only at h2
      cases f with
      | pending => exact ⟨(view s).rel, by rw [h2, h1]⟩
      | err => exact ⟨(view s).rel, by rw [h2, h1]⟩
      | ready =>
        obtain ⟨l, hl⟩ := ih s2
        exact ⟨l, by rw [hl, h2, h1]⟩

theorem ensureWriteable_view (s : St) : ∃ l, view (ensureWriteable s).1 = { view s with rel := l } := by
  unfold ensureWriteable; split
  · exact ensureLoop_view _ _
  · exact ⟨(view s).rel, (view_ensureOnce s).1⟩

/-- a queued cancellation found its entry `e` in the in-flight table and took it out -/
def CancelTaken (s s' : St) (e : Entry) : Prop :=
  findEntry s e.id = some e ∧ s'.inflight = s.inflight.filter (·.id != e.id)

/-- the cancellation loop: either nothing tracked changes, or one tracked entry is taken out -/
theorem nextCancelLoop_spec (fuel : Nat) (s : St) :
    (nextCancelLoop fuel s).1.t.sentLog = s.t.sentLog ∧
    (∀ e, (nextCancelLoop fuel s).2 = .some e → CancelTaken s (nextCancelLoop fuel s).1 e) ∧
    ((∀ e, (nextCancelLoop fuel s).2 ≠ .some e) → (nextCancelLoop fuel s).1.inflight = s.inflight) := by
  induction fuel generalizing s with
  | zero => exact ⟨rfl, fun e h => (by simp [nextCancelLoop] at h), fun _ => rfl⟩
  | succ fuel ih =>
    unfold nextCancelLoop
    rcases cqRecv_cases s with ⟨i, rest, hcq, heq⟩ | ⟨_, hv, hne⟩
    · rw [heq]
      simp only
      rcases hc : cancelRequest { s with cq := rest } i with ⟨s2, oe⟩
      cases oe with
      | none =>
        have := cancelRequest_none hc
        subst this
        exact ih { s with cq := rest }
      | some e =>
        obtain ⟨hfe, pn, hv⟩ := cancelRequest_some hc
        obtain ⟨_, hid⟩ := findEntry_some hfe
        simp only
        have h1 : s2.t.sentLog = s.t.sentLog := by
          have : (view s2).sentLog = (view s).sentLog := by rw [hv]; rfl
          exact this
        have h2 : s2.inflight = s.inflight.filter (·.id != i) := by
          have : (view s2).inflight = (view s).inflight.filter (·.id != i) := by rw [hv]; rfl
          exact this
        refine ⟨h1, fun e' he' => ?_, fun hn => absurd rfl (hn e)⟩
        injection he' with he'
        subst he'
        exact ⟨hid ▸ hfe, hid ▸ h2⟩
    · rcases hr : cqRecv s with ⟨s1, res⟩
      rw [hr] at hv hne
      have hinf : s1.inflight = s.inflight := by
        have : (view s1).inflight = (view s).inflight := by rw [hv]
        exact this
      have hlog : s1.t.sentLog = s.t.sentLog := by
        have : (view s1).sentLog = (view s).sentLog := by rw [hv]
        exact this
      cases res with
      | pending => exact ⟨hlog, fun e h => (by cases h), fun _ => hinf⟩
      | closed => exact ⟨hlog, fun e h => (by cases h), fun _ => hinf⟩
      | item r => exact absurd rfl (hne r)

theorem tSend_inflight (s : St) (m : Msg) : (tSend s m).1.inflight = s.inflight := by
  have := view_tSend s m
  have h2 : (view (tSend s m).1).inflight = (view s).inflight := by rw [this]
  exact h2

theorem tSend_sentLog (s : St) (m : Msg) :
    (tSend s m).1.t.sentLog = if (tSend s m).2 then s.t.sentLog ++ [m] else s.t.sentLog := by
  have := view_tSend s m
  have h2 : (view (tSend s m).1).sentLog = if (tSend s m).2 then (view s).sentLog ++ [m] else (view s).sentLog := by rw [this]
  exact h2

/-- `pollWriteCancel` writes `Cancel id` only for an id that was in flight, removes that entry, and uses the trace
context stored in the entry. -/
theorem pollWriteCancel_spec (s : St) :
    ((pollWriteCancel s).1.t.sentLog = s.t.sentLog) ∨
     ∃ e, findEntry s e.id = some e ∧
       (pollWriteCancel s).1.t.sentLog = s.t.sentLog ++ [Msg.cancel e.id e.ctx.trace] ∧
       findEntry (pollWriteCancel s).1 e.id = none := by
  unfold pollWriteCancel pollNextCancellation
  obtain ⟨l, hl⟩ := ensureWriteable_view s
  rcases he : ensureWriteable s with ⟨s1, ew⟩
  rw [he] at hl
  simp only at hl
  have hlog1 : s1.t.sentLog = s.t.sentLog := by
    have : (view s1).sentLog = (view s).sentLog := by rw [hl]
    exact this
  have hinf1 : s1.inflight = s.inflight := by
    have : (view s1).inflight = (view s).inflight := by rw [hl]
    exact this
  cases ew with
  | pending => exact Or.inl hlog1
  | err a => exact Or.inl hlog1
  | spin => exact Or.inl hlog1
  | ready =>
    simp only
    obtain ⟨h1, h2, h3⟩ := nextCancelLoop_spec (s1.cq.length + 1) s1
    rcases hn : nextCancelLoop (s1.cq.length + 1) s1 with ⟨s2, res⟩
    rw [hn] at h1 h2 h3
    simp only at h1 h2 h3
    cases res with
    | pending => exact Or.inl (h1.trans hlog1)
    | none => exact Or.inl (h1.trans hlog1)
    | err a => exact Or.inl (h1.trans hlog1)
    | spin => exact Or.inl (h1.trans hlog1)
    | some e =>
      obtain ⟨hfe, hinf2⟩ := h2 e rfl
      simp only
      have hts := tSend_sentLog s2 (.cancel e.id e.ctx.trace)
      have hti := tSend_inflight s2 (.cancel e.id e.ctx.trace)
      rcases ht : tSend s2 (.cancel e.id e.ctx.trace) with ⟨s3, ok⟩
      rw [ht] at hts hti
      simp only at hts hti
      cases ok with
      | false =>
        simp only [Bool.false_eq_true, ↓reduceIte] at hts ⊢
        exact Or.inl (hts.trans (h1.trans hlog1))
      | true =>
        simp only [↓reduceIte] at hts ⊢
        right
        refine ⟨e, ?_, by rw [hts, h1, hlog1], ?_⟩
        · unfold findEntry at hfe ⊢; rw [← hinf1]; exact hfe
        · unfold findEntry
          rw [hti, hinf2]
          apply List.find?_eq_none.mpr
          intro x hx
          have := (List.mem_filter.mp hx).2
          simpa using this

end TarpcModel.Client

import Lean.Elab.Tactic
/-! A small tactic used by the server-side invariant proofs. -/
namespace TarpcModel
theorem fst_of_eq_mk {α β} {p : α × β} {a : α} {b : β} (h : p = (a, b)) : p.1 = a := by subst h; rfl
theorem snd_of_eq_mk {α β} {p : α × β} {a : α} {b : β} (h : p = (a, b)) : p.2 = b := by subst h; rfl

open Lean Elab Tactic Meta in
/-- For every *anonymous* hypothesis `h : e = (x, y)` (as `split` introduces them) in which `x` or `y` is a local variable not occurring in
`e`, replace `h` by `e.1 = x` and `e.2 = y` and substitute the variables away.  (After `split` on a
`match f s with | (s', r) => …` this turns `s'` into `(f s).1`, on which frame lemmas fire.) -/
elab "pair_subst" : tactic => do
  let rec go (fuel : Nat) : TacticM Unit := do
    if fuel = 0 then return
    let progressed ← withMainContext do
      let lctx ← getLCtx
      for d in lctx do
        if d.isImplementationDetail then continue
        if !d.userName.hasMacroScopes then continue   -- only anonymous hypotheses (from `split`)
        let ty ← instantiateMVars d.type
        if let some (_, lhs, rhs) := ty.eq? then
          if rhs.isAppOfArity ``Prod.mk 4 then
            let a := rhs.getArg! 2
            let b := rhs.getArg! 3
            let okA := a.isFVar && !lhs.containsFVar a.fvarId!
            let okB := b.isFVar && !lhs.containsFVar b.fvarId!
            if okA || okB then
              let g ← getMainGoal
              let p1 ← mkAppM ``fst_of_eq_mk #[d.toExpr]
              let p2 ← mkAppM ``snd_of_eq_mk #[d.toExpr]
              let g ← g.assert `hps1 (← inferType p1) p1
              let (f1, g) ← g.intro1
              let g ← g.assert `hps2 (← inferType p2) p2
              let (f2, g) ← g.intro1
              let g ← g.tryClear d.fvarId
              let (sb, g) ← if okA then substCore g f1 (symm := true) else pure ({}, g)
              let g ← if okB && !(okA && a == b) then
                  (do match sb.get f2 with
                      | .fvar f2' => let (_, g') ← substCore g f2' (symm := true); pure g'
                      | _ => pure g)
                else pure g
              replaceMainGoal [g]
              return true
      return false
    if progressed then go (fuel - 1)
  go 40
end TarpcModel

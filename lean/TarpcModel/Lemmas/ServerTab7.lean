import TarpcModel.Lemmas.ServerTab6
/-!
The last clause of the C11 monitor (`checkC11Bound`), part 2: the fourth coupling (`Tab.Z`) walked through one poll of
the request stream (`NZ`), next to the second and third (`NN`, `NY`).
-/
namespace TarpcModel.Server.Tab
open TarpcModel TarpcModel.Server TarpcModel.Server.Flow TarpcModel.Server.ObsMon TarpcModel.Server.Mon06
open TarpcModel.Server.Mon11
set_option linter.unusedSimpArgs false
set_option linter.unusedVariables false

def chk11b (b : Book) (o : Obs) : Option String := (checkC11Bound b () (.obs o)).2

theorem chk11b_other (b : Book) (o : Obs) (h : ∀ k a t, o ≠ .counts (.server k) a t) : chk11b b o = none := by
  unfold chk11b
  cases o with
  | counts ep a t =>
    cases ep with
    | server k => exact absurd rfl (h k a t)
    | _ => rfl
  | _ => rfl

theorem chk11b_mild (o : Obs) (h2 : isOut o = false) (b : Book) : chk11b b o = none :=
  chk11b_other b o (fun k a t hc => by rw [hc] at h2; cases h2)

theorem CK11b.extW {b0 : Book} {s s' : St} (hx : ExtW s s') (h : CK chk11b b0 s.obs) : CK chk11b b0 s'.obs := by
  obtain ⟨l, e, p⟩ := hx
  rw [e]
  exact h.append l (fun o ho b => chk11b_mild o (p o ho).2 b)

/-- the walked invariant, next to `NY` (`m`: see `Z`) -/
structure NZ (b0 : Book) (now : Nat) (pend : Option (Nat × Nat)) (m : Option Bool) (rest : List Nat) (s : St) : Prop where
  ny : NY b0 now pend rest s
  ck : CK chk11b b0 s.obs
  fu : m = none → s.readFused = true
  z : (bo b0 s.obs).spun = true ∨ (bo b0 s.obs).failed = true ∨ s.dropped = true ∨
    Z pend m (bw (bo b0 s.obs)) (bo b0 s.obs).abandonOrder (mv s)

variable {b0 : Book} {now : Nat} {rest : List Nat}

/-- a part of the model that reads nothing and answers nothing runs -/
theorem NZ_model {pend pend' : Option (Nat × Nat)} {m m' : Option Bool} {s s' : St} (hx : ExtW s s')
    (hny : NY b0 now pend' rest s') (hfu : m' = none → s'.readFused = true) (hdr : s.dropped = true → s'.dropped = true)
    (hZ : K now pend (bview (bo b0 s.obs)) (sview s) → X rest (bw (bo b0 s.obs)) (mv s) →
      Y now pend (bw (bo b0 s.obs)) (mv s) → Z pend m (bw (bo b0 s.obs)) (bo b0 s.obs).abandonOrder (mv s) →
      Z pend' m' (bw (bo b0 s.obs)) (bo b0 s.obs).abandonOrder (mv s'))
    (h : NZ b0 now pend m rest s) : NZ b0 now pend' m' rest s' := by
  refine ⟨hny, CK11b.extW hx h.ck, hfu, ?_⟩
  rcases bo_extW b0 hx with hs | ⟨hv, hs, hle⟩
  · exact Or.inl hs
  · rcases h.z with h1 | h1 | h1 | hZ0
    · exact Or.inl (hs.trans h1)
    · exact Or.inr (Or.inl (hle.failed h1))
    · exact Or.inr (Or.inr (Or.inl (hdr h1)))
    · rcases h.ny.y with h1 | hY
      · exact Or.inl (hs.trans h1)
      · rcases h.ny.nn.n with h1 | ⟨hK, hX⟩
        · exact Or.inl (hs.trans h1)
        · right; right; right
          have hao : (bo b0 s'.obs).abandonOrder = (bo b0 s.obs).abandonOrder := congrArg BV.ao hv
          have htb : (bo b0 s'.obs).table = (bo b0 s.obs).table := congrArg BV.table hv
          rw [hao]
          exact (hZ hK hX hY hZ0).book hle.execs htb

theorem NZ_qm {pend : Option (Nat × Nat)} {m : Option Bool} {s s' : St} (hq : QM s s')
    (hf : s.readFused = true → s'.readFused = true) (h : NZ b0 now pend m rest s) : NZ b0 now pend m rest s' :=
  NZ_model hq.1 (NY_qm hq h.ny) (fun hm => hf (h.fu hm))
    (fun hd => by
      have : (mv s').dropped = (mv s).dropped := by rw [hq.2]
      exact this.trans hd)
    (fun _ _ _ hZ => by rw [hq.2]; exact hZ) h

theorem NZ.forget {pend : Option (Nat × Nat)} {m : Option Bool} {s : St} (h : NZ b0 now pend m rest s)
    (hf : s.readFused = true) : NZ b0 now pend none rest s :=
  ⟨h.ny, h.ck, fun _ => hf, h.z.imp (fun h => h) (Or.imp (fun h => h) (Or.imp (fun h => h) Z.forget))⟩

/-! ### one iteration of the channel's loop -/

theorem removeRequest_ents (s : St) (i : Nat) :
    (∀ en ∈ (removeRequest s i).1.inflight, en ∈ s.inflight ∧ en.id ≠ i) := by
  intro en hen
  rcases removeRequest_inflight s i with ⟨_, he, hf⟩ | ⟨_, hi⟩
  · rw [he] at hen; exact ⟨hen, findEntry_none hf en hen⟩
  · rw [hi] at hen
    exact ⟨(List.mem_filter.mp hen).1, by simpa using (List.mem_filter.mp hen).2⟩

theorem bpCancel_fused (s : St) : (bpCancel s).1.readFused = s.readFused := by
  unfold bpCancel; split
  · simp
  · rfl

theorem bpCancel_dropped (s : St) : (bpCancel s).1.dropped = s.dropped := by
  unfold bpCancel; split
  · simp
  · rfl

def popM : Option Bool → Option Bool
  | some _ => some true
  | none => none

theorem NZ_bpCancel {m : Option Bool} {s : St} (hm : m ≠ some true) (h : NZ b0 now none m rest s) :
    NZ b0 now none (popM m) rest (bpCancel s).1 := by
  have hx : ExtW s (bpCancel s).1 := by
    unfold bpCancel; split
    · exact (extW_removeRequest _ _).pre rfl
    · exact ExtW.of_eq rfl
  refine NZ_model hx (NY_bpCancel h.ny) (fun hp => ?_) (fun hd => by rw [bpCancel_dropped]; exact hd)
    (fun hK hX hY hZ => ?_) h
  · rw [bpCancel_fused]
    cases m with
    | none => exact h.fu rfl
    | some b => cases hp
  · cases m with
    | some b =>
      cases b with
      | true => exact absurd rfl hm
      | false =>
        show Z none (some true) _ _ _
        unfold bpCancel
        split
        · next i l hq =>
          refine hZ.pop1 hX (K_eid_mv hK) i l hq (by show List.map ye _ = List.map ye _; simp) (by show (removeRequest _ i).1.cancelQ = l; simp) ?_
          intro en' hen'
          obtain ⟨e0, he0, rfl⟩ := List.mem_map.mp hen'
          have := removeRequest_ents { s with cancelQ := l } i e0 he0
          exact ⟨List.mem_map_of_mem this.1, this.2⟩
        · next hq => exact hZ.pop0 hq rfl rfl rfl
    | none =>
      show Z none none _ _ _
      unfold bpCancel
      split
      · next i l hq =>
        refine hZ.model (fun _ _ h => h) (fun _ hp _ => hp) s.execs ye ye rfl (by show List.map ye _ = List.map ye _; simp)
          (fun _ _ => ⟨rfl, rfl⟩) ?_ (fun hc => absurd rfl hc)
        intro en' hen'
        obtain ⟨e0, he0, rfl⟩ := List.mem_map.mp hen'
        exact List.mem_map_of_mem (removeRequest_ents { s with cancelQ := l } i e0 he0).1
      · exact hZ.congr rfl rfl rfl


theorem ME.book {B B' : BW} {ao : List Nat} {S : MV} (h : ME now B ao S) (hBe : B'.execs = B.execs)
    (hBt : B'.table = B.table) : ME now B' ao S := by
  rcases h with h | ⟨eb, h1, h2, h3⟩
  · exact Or.inl h
  · exact Or.inr ⟨eb, by rw [hBe]; exact h1, by rw [hBt]; exact h2, h3⟩

/-- the expiry step of an iteration: the coupling is kept; and either nothing tracked is due any more or the request
that expired had the earliest tick (`ME`) -/
theorem NZ_pollExpired (hf : ClampFits) (hn : now < panicFreeNs) {m : Option Bool} {s : St} (ht : TInv now s)
    (ht' : TInv now (pollExpired s now).1) (hc : QC now s) (hq : SQ s) (h : NZ b0 now none m rest s) :
    NZ b0 now none m rest (pollExpired s now).1 ∧
    (m = some true → (pollExpired s now).1.poisoned = false →
      (bo b0 (pollExpired s now).1.obs).spun = true ∨ (bo b0 (pollExpired s now).1.obs).failed = true ∨
      (pollExpired s now).1.dropped = true ∨
      ME now (bw (bo b0 (pollExpired s now).1.obs)) (bo b0 (pollExpired s now).1.obs).abandonOrder
        (mv (pollExpired s now).1)) := by
  have hx := extW_pollExpired s now
  have hdd := (dd_closed s.done s.dropped now).expire s ⟨rfl, rfl⟩
  have hfu : s.readFused = true → (pollExpired s now).1.readFused = true := (fused_closed now).expire s
  refine ⟨NZ_model hx (NY_pollExpired ht h.ny) (fun hm => hfu (h.fu hm)) (fun hd => by rw [hdd.2]; exact hd)
    (fun _ _ hY hZ => Z_my (my_pollExpired (rem0_st hY)) hZ) h, ?_⟩
  intro hm hpo
  subst hm
  rcases bo_extW b0 hx with hs | ⟨hv, hs, hle⟩
  · exact Or.inl hs
  · rcases h.z with h1 | h1 | h1 | hZ0
    · exact Or.inl (hs.trans h1)
    · exact Or.inr (Or.inl (hle.failed h1))
    · exact Or.inr (Or.inr (Or.inl (by rw [hdd.2]; exact h1)))
    · rcases h.ny.y with h1 | hY
      · exact Or.inl (hs.trans h1)
      · rcases h.ny.nn.n with h1 | ⟨hK, hX⟩
        · exact Or.inl (hs.trans h1)
        · cases hd : s.dropped with
          | true => exact Or.inr (Or.inr (Or.inl (by rw [hdd.2]; exact hd)))
          | false =>
            right; right; right
            have hao : (bo b0 (pollExpired s now).1.obs).abandonOrder = (bo b0 s.obs).abandonOrder := congrArg BV.ao hv
            have htb : (bo b0 (pollExpired s now).1.obs).table = (bo b0 s.obs).table := congrArg BV.table hv
            rw [hao]
            refine ME.book ?_ hle.execs htb
            by_cases hr : (pollExpired s now).2 = .ready
            · obtain ⟨en0, hen0, hgone, hdue, hmin⟩ := pollExpired_minS hf hn ht (hc hn) hq (rem0_st hY) hr
              refine ME.of_min (S := mv s) hZ0 hX hY hd (en0 := ze en0) (List.mem_map_of_mem hen0) ?_ hdue ?_
              · intro en hen
                obtain ⟨e1, he1, rfl⟩ := List.mem_map.mp hen
                exact ⟨List.mem_map_of_mem (hgone e1 he1).1, (hgone e1 he1).2⟩
              · intro en hen
                obtain ⟨e1, he1, rfl⟩ := List.mem_map.mp hen
                exact hmin e1 he1
            · exact Or.inl (idle_mv ht' (pollExpired_idle hf hn (hc hn) hr hpo))

/-! ### the transport read -/

/-- the book's `sweepOne` at the read of an iteration in which the channel has processed a guard cancellation and an
expiration -/
theorem Z_preRead {b : Book} {S : MV} (htp : b.topPoll = true) (h : Z none (some true) (bw b) b.abandonOrder S)
    (hme : ME now (bw b) b.abandonOrder S) (hX : X rest (bw b) S) (hY : Y now none (bw b) S)
    (heid : ∀ en ∈ S.ents, ∀ x ∈ S.execs, x.rid = en.rid → x.id = en.id) (hnow : b.now = now)
    (hbnd : (b.execs.map (·.rid)).Nodup) :
    Z none (some false) (bw (preRead b)) (preRead b).abandonOrder S := by
  unfold preRead
  rw [if_pos htp]
  generalize hb1 : ({ b with justRead := none, sawT := true, prevReadyP := false } : Book) = b1
  have e1 : b1.table = b.table := by rw [← hb1]
  have e2 : b1.execs = b.execs := by rw [← hb1]
  have e3 : b1.abandonOrder = b.abandonOrder := by rw [← hb1]
  have e4 : b1.now = b.now := by rw [← hb1]
  have hex : ∀ r, b1.exec r = b.exec r := by intro r; unfold Book.exec; rw [e2]
  obtain ⟨_, h2, _⟩ := sweepOne_spec b1
  rw [sweepOne_ao, e3]
  refine h.sweep1 hme hX hY heid (by show b1.sweepOne.execs.map wb = b.execs.map wb; rw [h2, e2]) hnow ?_
  intro p hp
  have hp1 : p ∈ b1.table := by rw [e1]; exact hp
  rcases sweepOne_min b1 p hp1 with hk | ⟨r, l, hao, hr⟩ | ⟨e, he, hle, hlt⟩
  · exact Or.inl hk
  · exact Or.inr (Or.inl ⟨r, l, by rw [← e3]; exact hao, hr⟩)
  · right; right
    rw [hex] at he
    have hem : e ∈ b.execs := List.mem_of_find?_eq_some he
    have her : e.rid = p.2 := by simpa using List.find?_some he
    refine ⟨wb e, List.mem_map_of_mem hem, her, by rw [e4] at hle; exact hle, ?_⟩
    intro p' hp' hnh hne eb' heb' hr' hd'
    obtain ⟨e', he', rfl⟩ := List.mem_map.mp heb'
    have hr'' : e'.rid = p'.2 := hr'
    have hfe : b.exec p'.2 = some e' := by
      have := find_nodup (·.rid) hbnd he'
      unfold Book.exec
      rw [← hr'']
      exact this
    have hp1' : p' ∈ (so1 b1).table :=
      (so1_table_mem b1 p').mpr ⟨by rw [e1]; exact hp', fun r l hao => hnh r l (by rw [← e3]; exact hao)⟩
    exact hlt p' hp1' hne e' (by rw [hex]; exact hfe) (by rw [e4]; exact hd')

/-- the mode after the read of an iteration -/
def rdM (s : St) : Option Bool := if s.readFused then none else some false

theorem rdM_ne (s : St) : rdM s ≠ some true := by
  unfold rdM; split <;> intro h <;> cases h

theorem preRead_failed (b : Book) : (preRead b).failed = b.failed := by
  unfold preRead; split
  · rw [sweepOne_failed]
  · rfl

theorem NZ_tNext_other {m : Option Bool} {s : St} (htp : b0.topPoll = true) (hm : m ≠ some false)
    (hr : ∀ id tr, (tNext s).2 ≠ .item (.cancel id tr)) (h : NZ b0 now none m rest s)
    (hme : m = some true → (bo b0 s.obs).spun = true ∨ (bo b0 s.obs).failed = true ∨ s.dropped = true ∨
      ME now (bw (bo b0 s.obs)) (bo b0 s.obs).abandonOrder (mv s)) :
    NZ b0 now none (rdM s) rest (tNext s).1 := by
  have hny := (NY_tNext_other hr h.ny).1
  cases hf : s.readFused with
  | true =>
    have hrd : rdM s = none := by unfold rdM; rw [hf]; rfl
    rw [hrd, tNext_fused_eq s hf]
    exact h.forget hf
  | false =>
    have hrd : rdM s = some false := by unfold rdM; rw [hf]; rfl
    rw [hrd]
    have hmt : m = some true := by
      cases m with
      | none => have := h.fu rfl; rw [hf] at this; cases this
      | some b => cases b with
        | true => rfl
        | false => exact absurd rfl hm
    subst hmt
    have hobs := tNext_obs s hf
    refine ⟨hny, ?_, fun hc => (by cases hc), ?_⟩
    · rw [hobs]
      exact ⟨h.ck, Or.inr (chk11b_other _ _ (fun _ _ _ hc => by cases hc))⟩
    · rw [hobs, bo_cons, tNext_dropped]
      have hspun : (bo b0 s.obs).spun = true → ((bo b0 s.obs).step (.obs (.tNext (tid s) (tNext s).2))).spun = true :=
        step_spun_mono _ _
      have hle := bw_step_tNext (bo b0 s.obs) (tid s) (tNext s).2
      rcases hme rfl with h1 | h1 | h1 | hME
      · exact Or.inl (hspun h1)
      · exact Or.inr (Or.inl (hle.failed h1))
      · exact Or.inr (Or.inr (Or.inl h1))
      · rcases h.z with h1 | h1 | h1 | hZ0
        · exact Or.inl (hspun h1)
        · exact Or.inr (Or.inl (hle.failed h1))
        · exact Or.inr (Or.inr (Or.inl h1))
        · rcases h.ny.y with h1 | hY
          · exact Or.inl (hspun h1)
          · rcases h.ny.nn.n with h1 | ⟨hK, hX⟩
            · exact Or.inl (hspun h1)
            · have htp' : (bo b0 s.obs).topPoll = true := by rw [bo_topPoll]; exact htp
              have hbnd : ((bo b0 s.obs).execs.map (·.rid)).Nodup := by
                have := hK.bNodup
                have heq : (bview (bo b0 s.obs)).execs.map (·.rid) = (bo b0 s.obs).execs.map (·.rid) := by
                  simp only [bview, List.map_map]; rfl
                rw [heq] at this; exact this
              have hZ1 := Z_preRead htp' hZ0 hME hX hY (K_eid_mv hK) hK.clk hbnd
              have hZ2 : Z none (some false) (bw (preRead (bo b0 s.obs))) (preRead (bo b0 s.obs)).abandonOrder
                  (mv (tNext s).1) := by
                rw [mv_tNext]; exact hZ1.congr rfl rfl rfl
              rw [step_tNext_eq]
              cases hres : (tNext s).2 with
              | item msg =>
                cases msg with
                | cancel id tr => exact absurd hres (hr id tr)
                | request id d tr body => exact Or.inr (Or.inr (Or.inr (hZ2.book rfl rfl)))
                | response id res => exact Or.inr (Or.inr (Or.inr hZ2))
              | pending => exact Or.inr (Or.inr (Or.inr hZ2))
              | err => exact Or.inr (Or.inl rfl)
              | eof => exact Or.inr (Or.inr (Or.inr (hZ2.book rfl rfl)))


/-- from an exact step of the model and a step of the book that keeps the entries of the requests still tracked -/
theorem Z_myB {pend : Option (Nat × Nat)} {m : Option Bool} {B B' : BW} {ao : List Nat} {s s' : St} (hm : MY s s')
    (h : Z pend m B ao (mv s)) (hBe : B'.execs = B.execs)
    (hBt : ∀ p ∈ B.table, (∃ en' ∈ s'.inflight, en'.id = p.1) → p ∈ B'.table) : Z pend m B' ao (mv s') := by
  obtain ⟨g, hg, hid⟩ := hm.ex
  refine h.model (fun r i ⟨eb, h1, h2⟩ => ⟨eb, by rw [hBe]; exact h1, h2⟩) ?_ s.execs ye (ye ∘ g) rfl
    (by show s'.execs.map ye = _; rw [hg, List.map_map]) (fun a _ => ⟨(hid a).1, (hid a).2.2.1⟩) ?_ (fun _ => hm.cq)
  · intro p hp ⟨en', hen', hi⟩
    obtain ⟨e0, he0, rfl⟩ := List.mem_map.mp hen'
    exact hBt p hp ⟨e0, he0, hi⟩
  · intro en' hen'
    obtain ⟨e0, he0, rfl⟩ := List.mem_map.mp hen'
    exact List.mem_map_of_mem (hm.ents e0 he0)

theorem cancelRequest_ents (s : St) (id : Nat) : ∀ en ∈ (cancelRequest s id).1.inflight, en.id ≠ id := by
  intro en hen
  rcases cancelRequest_eff s id with ⟨hf, h2⟩ | ⟨en', _, _, h3⟩
  · rw [h2] at hen; exact findEntry_none hf en hen
  · rw [h3] at hen; simpa using (List.mem_filter.mp hen).2

theorem NZ_cancel {m : Option Bool} {s : St} (htp : b0.topPoll = true) (hm : m ≠ some false)
    (ht : TInv now (tNext s).1) (id : Nat) (tr : Trace)
    (hr : (tNext s).2 = .item (.cancel id tr)) (h : NZ b0 now none m rest s)
    (hme : m = some true → (bo b0 s.obs).spun = true ∨ (bo b0 s.obs).failed = true ∨ s.dropped = true ∨
      ME now (bw (bo b0 s.obs)) (bo b0 s.obs).abandonOrder (mv s)) :
    NZ b0 now none (rdM s) rest (cancelRequest (tNext s).1 id).1 := by
  have hf : s.readFused = false := by
    cases hf : s.readFused with
    | false => rfl
    | true => rw [tNext_fused_eq s hf] at hr; cases hr
  have hrd : rdM s = some false := by unfold rdM; rw [hf]; rfl
  rw [hrd]
  have hmt : m = some true := by
    cases m with
    | none => have := h.fu rfl; rw [hf] at this; cases this
    | some b => cases b with
      | true => rfl
      | false => exact absurd rfl hm
  subst hmt
  have hobs := tNext_obs s hf
  have hck3 : CK chk11b b0 (tNext s).1.obs := by
    rw [hobs]
    exact ⟨h.ck, Or.inr (chk11b_other _ _ (fun _ _ _ hc => by cases hc))⟩
  have hx := extW_cancelRequest (tNext s).1 id
  refine ⟨NY_cancel ht id tr hr h.ny, CK11b.extW hx hck3, fun hc => (by cases hc), ?_⟩
  have hdr : (cancelRequest (tNext s).1 id).1.dropped = s.dropped := by
    have : (cancelRequest (tNext s).1 id).1.dropped = (tNext s).1.dropped := by
      unfold cancelRequest; split
      · rfl
      · simp
    rw [this, tNext_dropped]
  rw [hdr]
  rcases bo_extW b0 hx with hs | ⟨hv5, hs, hle5⟩
  · exact Or.inl hs
  · have hspun : (bo b0 s.obs).spun = true → (bo b0 (cancelRequest (tNext s).1 id).1.obs).spun = true := by
      intro h1; rw [hs, hobs, bo_cons]; exact step_spun_mono _ _ h1
    have hle := bw_step_tNext (bo b0 s.obs) (tid s) (tNext s).2
    have hfail : (bo b0 s.obs).failed = true → (bo b0 (cancelRequest (tNext s).1 id).1.obs).failed = true := by
      intro h1
      refine hle5.failed ?_
      rw [hobs, bo_cons]
      exact hle.failed h1
    rcases hme rfl with h1 | h1 | h1 | hME
    · exact Or.inl (hspun h1)
    · exact Or.inr (Or.inl (hfail h1))
    · exact Or.inr (Or.inr (Or.inl h1))
    · rcases h.z with h1 | h1 | h1 | hZ0
      · exact Or.inl (hspun h1)
      · exact Or.inr (Or.inl (hfail h1))
      · exact Or.inr (Or.inr (Or.inl h1))
      · rcases h.ny.y with h1 | hY
        · exact Or.inl (hspun h1)
        · rcases h.ny.nn.n with h1 | ⟨hK, hX⟩
          · exact Or.inl (hspun h1)
          · right; right; right
            have htp' : (bo b0 s.obs).topPoll = true := by rw [bo_topPoll]; exact htp
            have hbnd : ((bo b0 s.obs).execs.map (·.rid)).Nodup := by
              have := hK.bNodup
              have heq : (bview (bo b0 s.obs)).execs.map (·.rid) = (bo b0 s.obs).execs.map (·.rid) := by
                simp only [bview, List.map_map]; rfl
              rw [heq] at this; exact this
            have hZ1 := Z_preRead htp' hZ0 hME hX hY (K_eid_mv hK) hK.clk hbnd
            have hZ2 : Z none (some false) (bw (preRead (bo b0 s.obs))) (preRead (bo b0 s.obs)).abandonOrder
                (mv (tNext s).1) := by
              rw [mv_tNext]; exact hZ1.congr rfl rfl rfl
            have hao : (bo b0 (cancelRequest (tNext s).1 id).1.obs).abandonOrder = (bo b0 (tNext s).1.obs).abandonOrder :=
              congrArg BV.ao hv5
            have htb : (bo b0 (cancelRequest (tNext s).1 id).1.obs).table = (bo b0 (tNext s).1.obs).table :=
              congrArg BV.table hv5
            rw [hao]
            refine Z.book ?_ hle5.execs htb
            rw [hobs, bo_cons, hr, step_tNext_eq]
            simp only
            have hfin : ∀ b3 : Book, bw b3 = bw (preRead (bo b0 s.obs)) →
                b3.abandonOrder = (preRead (bo b0 s.obs)).abandonOrder →
                Z none (some false) (bw (b3.untrack id)) (b3.untrack id).abandonOrder
                  (mv (cancelRequest (tNext s).1 id).1) := by
              intro b3 e1 e2
              show Z none (some false) _ b3.abandonOrder _
              rw [e2]
              refine Z_myB (my_cancelRequest (tNext s).1 id) hZ2 ?_ ?_
              · show b3.execs.map wb = _
                exact congrArg BW.execs e1
              · intro p hp ⟨en', hen', hi⟩
                show p ∈ b3.table.filter (·.1 != id)
                have e3 : b3.table = (preRead (bo b0 s.obs)).table := congrArg BW.table e1
                rw [e3]
                refine List.mem_filter.mpr ⟨hp, ?_⟩
                have := cancelRequest_ents (tNext s).1 id en' hen'
                rw [hi] at this
                simpa using this
            generalize (preRead (bo b0 s.obs)).table.reverse.find? (fun p : Nat × Nat => p.1 == id) = o
            cases o with
            | none => exact hfin _ rfl rfl
            | some p =>
              obtain ⟨i, r⟩ := p
              exact hfin _ (updExec_wb _ _ _ (fun e => rfl)) rfl

/-! ### a request is started -/

def PostStartZ (b0 : Book) (now : Nat) (m : Option Bool) (rest : List Nat) : St × Option Exec → Prop
  | (s', some ex) => NZ b0 now (some (ex.rid, ex.id)) m rest s'
  | (s', none) => NZ b0 now none m rest s'

theorem NZ_startRequest {m : Option Bool} {s : St} (hm : m ≠ some true) (id d : Nat) (tr : Trace) (b : Nat)
    (h : NZ b0 now none m rest s)
    (hnd : (bo b0 s.obs).spun = true ∨
      (((mv s).execs.map (·.id) ++ id :: (inbIds (mv s).inb ++ rest)).Nodup ∧ d ≤ clampNs)) :
    PostStartZ b0 now m rest (startRequest s now id d tr b) := by
  have hny := NY_startRequest id d tr b h.ny hnd
  have hfu : s.readFused = true → (startRequest s now id d tr b).1.readFused = true :=
    (fused_closed now).start s id d tr b
  have hdd := (dd_closed s.done s.dropped now).start s id d tr b ⟨rfl, rfl⟩
  rcases startRequest_effT s now id d tr b with ⟨h1, h2⟩ | ⟨ex, h1, hr, hi, z, hz1, hz2, _, he, hen, hcq, _, _⟩
  · rw [show startRequest s now id d tr b = ((startRequest s now id d tr b).1, none) from Prod.ext rfl h1] at hny ⊢
    exact NZ_qm h2 hfu h
  · rw [show startRequest s now id d tr b = ((startRequest s now id d tr b).1, some ex) from Prod.ext rfl h1] at hny ⊢
    show NZ b0 now (some (ex.rid, ex.id)) m rest _
    have hny' : NY b0 now (some (ex.rid, ex.id)) rest (startRequest s now id d tr b).1 := hny
    refine NZ_model (extW_startRequest s now id d tr b) hny' (fun hc => hfu (h.fu hc))
      (fun hd => by rw [hdd.2]; exact hd) (fun hK hX hY hZ => ?_) h
    obtain ⟨hfx, hfe⟩ := K_fresh hK
    rw [hr, hi]
    exact hZ.start hm s.execs.length id _ z rfl hz2 he hen hcq hfx hfe


/-! ### one iteration of the channel's loop, the loop -/

theorem popM_ne (m : Option Bool) : popM m ≠ some false := by
  cases m <;> intro h <;> cases h

theorem NZ_bpOther {m : Option Bool} {s2 : St} (htp : b0.topPoll = true) (hm : m ≠ some false)
    (hs : SInv false now s2) (h : NZ b0 now none m rest s2)
    (hme : m = some true → (bo b0 s2.obs).spun = true ∨ (bo b0 s2.obs).failed = true ∨ s2.dropped = true ∨
      ME now (bw (bo b0 s2.obs)) (bo b0 s2.obs).abandonOrder (mv s2)) :
    NZ b0 now none (rdM s2) rest (bpOther (tNext s2).1 (tNext s2).2).1 := by
  have ht3 : TInv now (tNext s2).1 := ((sinv_closed false now).tNext s2 hs).t
  cases hnx : (tNext s2).2 with
  | item msg =>
    cases msg with
    | cancel id tr => exact NZ_cancel htp hm ht3 id tr hnx h hme
    | request id d tr b => exact NZ_tNext_other htp hm (by rw [hnx]; intro id tr h; cases h) h hme
    | response id res => exact NZ_tNext_other htp hm (by rw [hnx]; intro id tr h; cases h) h hme
  | pending => exact NZ_tNext_other htp hm (by rw [hnx]; intro id tr h; cases h) h hme
  | err => exact NZ_tNext_other htp hm (by rw [hnx]; intro id tr h; cases h) h hme
  | eof => exact NZ_tNext_other htp hm (by rw [hnx]; intro id tr h; cases h) h hme

def PostRdOZ (b0 : Book) (now : Nat) (rest : List Nat) : St × Option (SPoll Exec) → Prop
  | (s', some (.some ex)) => ∃ m, m ≠ some true ∧ NZ b0 now (some (ex.rid, ex.id)) m rest s'
  | (s', some .spin) => ∃ m, NZ b0 now none m rest s'
  | (s', _) => ∃ m, m ≠ some true ∧ NZ b0 now none m rest s'

def PostRdZ (b0 : Book) (now : Nat) (rest : List Nat) : St × SPoll Exec → Prop
  | (s', .some ex) => ∃ m, m ≠ some true ∧ NZ b0 now (some (ex.rid, ex.id)) m rest s'
  | (s', .spin) => ∃ m, NZ b0 now none m rest s'
  | (s', _) => ∃ m, m ≠ some true ∧ NZ b0 now none m rest s'

theorem NZ_bpStep (hf : ClampFits) (hn : now < panicFreeNs) {m : Option Bool} {s : St} (htp : b0.topPoll = true)
    (hm : m ≠ some true) (hs : SInv false now s) (hq : QC now s) (hsq : SQ s) (h : NZ b0 now none m rest s) :
    PostRdOZ b0 now rest (bpStep s now) := by
  have h1 := NZ_bpCancel hm h
  have hs1 : SInv false now (bpCancel s).1 := (sinv_closed false now).bpCancel s hs
  have hq1 : QC now (bpCancel s).1 := (qc_closed hf now).toStepClosed.bpCancel s hq
  have hsq1 : SQ (bpCancel s).1 := (sq_closed now).toStepClosed.bpCancel s hsq
  have hs2 : SInv false now (bp2 s now) := (sinv_closed false now).expire _ hs1
  obtain ⟨h2', hme2'⟩ := NZ_pollExpired hf hn hs1.t hs2.t hq1 hsq1 h1
  have h2 : NZ b0 now none (popM m) rest (bp2 s now) := h2'
  have hme2 : popM m = some true → (bp2 s now).poisoned = false →
      (bo b0 (bp2 s now).obs).spun = true ∨ (bo b0 (bp2 s now).obs).failed = true ∨ (bp2 s now).dropped = true ∨
      ME now (bw (bo b0 (bp2 s now).obs)) (bo b0 (bp2 s now).obs).abandonOrder (mv (bp2 s now)) := hme2'
  have hpm := popM_ne m
  have hreq : (bp2 s now).poisoned = false → ∀ id d tr b, bpNx s now = .item (.request id d tr b) →
      PostStartZ b0 now (rdM (bp2 s now)) rest (startRequest (bp3 s now) now id d tr b) := by
    intro hp id d tr b hnx
    have hr' : ∀ id tr, (tNext (bp2 s now)).2 ≠ .item (.cancel id tr) := by
      intro id tr h; unfold bpNx at hnx; rw [hnx] at h; cases h
    have hb3 := NZ_tNext_other htp hpm hr' h2 (fun hmm => hme2 hmm hp)
    obtain ⟨_, hside⟩ := NY_tNext_other (s := bp2 s now) hr' h2.ny
    exact NZ_startRequest (rdM_ne _) id d tr b hb3 (hside id d tr b hnx)
  have ho := bpStep_out s now
  generalize bpStep s now = out at ho ⊢
  cases ho with
  | poisoned2 hp => exact ⟨_, h2⟩
  | readErr hp hnx =>
    exact ⟨_, rdM_ne _, NZ_tNext_other htp hpm (by intro id tr h; unfold bpNx at hnx; rw [hnx] at h; cases h) h2
      (fun hmm => hme2 hmm hp)⟩
  | started id d tr b ex hp hnx hs' =>
    have := hreq hp id d tr b hnx
    rw [show startRequest (bp3 s now) now id d tr b = ((startRequest (bp3 s now) now id d tr b).1, some ex) from
      Prod.ext rfl hs'] at this
    exact ⟨_, rdM_ne _, this⟩
  | startPanic id d tr b hp hnx hs' hpo =>
    have := hreq hp id d tr b hnx
    rw [show startRequest (bp3 s now) now id d tr b = ((startRequest (bp3 s now) now id d tr b).1, none) from
      Prod.ext rfl hs'] at this
    exact ⟨_, this⟩
  | duplicate id d tr b hp hnx hs' hpo =>
    have := hreq hp id d tr b hnx
    rw [show startRequest (bp3 s now) now id d tr b = ((startRequest (bp3 s now) now id d tr b).1, none) from
      Prod.ext rfl hs'] at this
    exact ⟨_, rdM_ne _, this⟩
  | otherPoisoned hp hn1 hn2 hpo => exact ⟨_, NZ_bpOther htp hpm hs2 h2 (fun hmm => hme2 hmm hp)⟩
  | again hp hn1 hn2 hpo hc => exact ⟨_, rdM_ne _, NZ_bpOther htp hpm hs2 h2 (fun hmm => hme2 hmm hp)⟩
  | closed hp hn1 hn2 hpo hc => exact ⟨_, rdM_ne _, NZ_bpOther htp hpm hs2 h2 (fun hmm => hme2 hmm hp)⟩
  | pending hp hn1 hn2 hpo hc => exact ⟨_, rdM_ne _, NZ_bpOther htp hpm hs2 h2 (fun hmm => hme2 hmm hp)⟩

theorem NZ_basePollNext (hf : ClampFits) (hn : now < panicFreeNs) (htp : b0.topPoll = true) : ∀ (fuel : Nat) (s : St)
    (m : Option Bool), m ≠ some true → SInv false now s → QC now s → SQ s → NZ b0 now none m rest s →
    PostRdZ b0 now rest (basePollNext fuel s now) := by
  intro fuel
  induction fuel with
  | zero => intro s m _ _ _ _ h; exact ⟨m, NZ_qm (QM.emit s _ rfl rfl) (fun h => h) h⟩
  | succ n ih =>
    intro s m hm hs hq hsq h
    rw [Flow.basePollNext_succ]
    have hb := NZ_bpStep hf hn htp hm hs hq hsq h
    have hs' := (sinv_closed false now).bpStep s hs
    have hq' := (qc_closed hf now).toStepClosed.bpStep s hq
    have hsq' := (sq_closed now).toStepClosed.bpStep s hsq
    revert hb hs' hq' hsq'
    generalize bpStep s now = p
    obtain ⟨s', r⟩ := p
    intro hb hs' hq' hsq'
    cases r with
    | none =>
      obtain ⟨m', hm', hb'⟩ := hb
      exact ih s' m' hm' hs' hq' hsq' hb'
    | some r => cases r <;> exact hb


/-! ## the write side: a transport failure is recorded by the book -/

theorem step_failed_extW (b : Book) (o : Obs) (hc : isCore o = false) (ho : isOut o = false)
    (h : b.spun = true ∨ b.failed = true) : (b.step (.obs o)).spun = true ∨ (b.step (.obs o)).failed = true := by
  rcases h with h | h
  · exact Or.inl (step_spun_mono _ _ h)
  · exact Or.inr ((stepW b o hc ho).failed h)

theorem bo_failed_mem (b0 : Book) (base : List Obs) : ∀ (l : List Obs), (∀ o ∈ l, isCore o = false ∧ isOut o = false) →
    ∀ o ∈ l, ((∃ ep, o = .tReady ep .err) ∨ (∃ ep, o = .tFlush ep .err)) →
    (bo b0 (l ++ base)).spun = true ∨ (bo b0 (l ++ base)).failed = true := by
  intro l
  induction l with
  | nil => intro _ o ho; cases ho
  | cons o' l ih =>
    intro hl o ho hk
    show ((bo b0 (l ++ base)).step (.obs o')).spun = true ∨ ((bo b0 (l ++ base)).step (.obs o')).failed = true
    rcases List.mem_cons.mp ho with rfl | ho'
    · rcases hk with ⟨ep, rfl⟩ | ⟨ep, rfl⟩
      · right
        simp only [Book.step, beq_self_eq_true, if_true]
        (repeat' split) <;> rfl
      · right
        simp only [Book.step, beq_self_eq_true, if_true]
    · exact step_failed_extW _ o' (hl o' (List.mem_cons_self ..)).1 (hl o' (List.mem_cons_self ..)).2
        (ih (fun o1 h1 => hl o1 (List.mem_cons_of_mem _ h1)) o ho' hk)

/-- a failure of `poll_ready` or `poll_flush` observed in a part of the poll that reads nothing and answers nothing: the
book records it -/
theorem failed_of_shape (b0 : Book) {s s' : St} (hx : ExtW s s') (a : Activity) (hsh : fails s' = a :: fails s)
    (ha : a = .ready ∨ a = .flush) : (bo b0 s'.obs).spun = true ∨ (bo b0 s'.obs).failed = true := by
  obtain ⟨l, e, p⟩ := hx
  have h1 : l.filterMap failOf = [a] := by
    unfold fails at hsh
    rw [e, List.filterMap_append] at hsh
    exact List.append_cancel_right (hsh.trans (List.singleton_append).symm)
  have h2 : a ∈ l.filterMap failOf := by rw [h1]; exact List.mem_singleton.mpr rfl
  obtain ⟨o, ho, hfo⟩ := List.mem_filterMap.mp h2
  rw [e]
  refine bo_failed_mem b0 s.obs l p o ho ?_
  cases o with
  | tReady ep r =>
    cases r with
    | err => exact Or.inl ⟨ep, rfl⟩
    | _ => cases hfo
  | tFlush ep r =>
    cases r with
    | err => exact Or.inr ⟨ep, rfl⟩
    | _ => cases hfo
  | tNext ep r =>
    exfalso
    have := (p _ ho).1
    cases this
  | tSend ep msg ok =>
    exfalso
    cases ok with
    | true => cases hfo
    | false =>
      have : a = .write := by
        have : failOf (.tSend ep msg false) = some .write := rfl
        rw [this] at hfo
        exact (Option.some.inj hfo).symm
      rcases ha with h | h <;> rw [h] at this <;> cases this
  | _ => cases hfo

theorem ensureOnce_err (s : St) (a : Activity) (h : (ensureOnce s).2 = .err a) : a = .ready ∨ a = .flush := by
  unfold ensureOnce at h
  (repeat' split at h) <;> first | (cases h; exact Or.inl rfl) | (cases h; exact Or.inr rfl) | (cases h)

theorem flushArm_err (s : St) (rc : Bool) (a : Activity) (h : (flushArm s rc).2 = .err a) : a = .flush := by
  unfold flushArm at h
  (repeat' split at h) <;> first | (cases h; rfl) | (cases h)

theorem armRead_fused (s : St) (r : SPoll Exec) : (armRead s r).readFused = s.readFused := by
  unfold armRead; split <;> rfl

theorem armRead_dropped (s : St) (r : SPoll Exec) : (armRead s r).dropped = s.dropped := by
  unfold armRead; split <;> rfl

theorem NZ_armRead {pend : Option (Nat × Nat)} {m : Option Bool} {s : St} (r : SPoll Exec) (h : NZ b0 now pend m rest s) :
    NZ b0 now pend m rest (armRead s r) := by
  have hx : ExtW s (armRead s r) := by
    unfold armRead; split
    · exact ExtW.of_eq rfl
    · exact ExtW.refl s
  exact NZ_model hx (NY_armRead r h.ny) (fun hc => by rw [armRead_fused]; exact h.fu hc)
    (fun hd => by rw [armRead_dropped]; exact hd) (fun _ _ _ hZ => Z_my (my_armRead s r) hZ) h

theorem step_tSend_bw (b : Book) (ep : TaskId) (id : Nat) (res : Res) (ok : Bool) :
    (bw (b.step (.obs (.tSend ep (.response id res) ok)))).execs = (bw b).execs ∧
    (b.step (.obs (.tSend ep (.response id res) ok))).table = b.table.filter (·.1 != id) ∧
    (b.step (.obs (.tSend ep (.response id res) ok))).abandonOrder = b.abandonOrder ∧
    (ok = false → (b.step (.obs (.tSend ep (.response id res) ok))).failed = true) := by
  cases ok
  · exact ⟨rfl, rfl, rfl, fun _ => rfl⟩
  · exact ⟨rfl, rfl, rfl, fun h => by cases h⟩

theorem NZ_baseStartSend {pend : Option (Nat × Nat)} {m : Option Bool} {s : St} (id : Nat) (res : Res)
    (h : NZ b0 now pend m rest s)
    (hd : (bo b0 s.obs).spun = true ∨ ∀ x ∈ (mv s).execs, x.id = id → x.live = false) :
    NZ b0 now pend m rest (baseStartSend s id res).1 ∧
    ((baseStartSend s id res).2 = some false →
      (bo b0 (baseStartSend s id res).1.obs).spun = true ∨ (bo b0 (baseStartSend s id res).1.obs).failed = true) := by
  have hny := NY_baseStartSend id res h.ny hd
  have hfu : s.readFused = true → (baseStartSend s id res).1.readFused = true :=
    (fused_closed now).toStepClosed.baseStartSend s id res
  have hdd := ((dd_closed s.done s.dropped now).toStepClosed.baseStartSend s id res ⟨rfl, rfl⟩).2
  unfold baseStartSend at hny hfu hdd ⊢
  have hi := removeRequest_inflight s id
  have hxA := extW_removeRequest s id
  have hmyA := my_removeRequest s id
  have hentsA := removeRequest_ents s id
  revert hny hfu hdd hi hxA hmyA hentsA
  generalize hq : removeRequest s id = q
  obtain ⟨sA, f⟩ := q
  intro hny hfu hdd hi hxA hmyA hentsA
  cases f with
  | false =>
    rcases hi with ⟨_, he, _⟩ | ⟨hc, _⟩
    · simp only at he ⊢; rw [he]; exact ⟨h, fun hc => by cases hc⟩
    · cases hc
  | true =>
    simp only at hny hfu hdd hxA hmyA hentsA ⊢
    obtain ⟨s0, hq0, hobs, hv⟩ := tSend_obs_extT sA (.response id res)
    have hx0 : ExtW s s0 := hxA.trans hq0.1
    have hmvA : mv s0 = mv sA := hq0.2
    have hb0 := bo_extW b0 hx0
    have hspun : (bo b0 s0.obs).spun = true → (bo b0 (tSend sA (.response id res)).1.obs).spun = true := by
      intro hs; rw [hobs, bo_cons]; exact step_spun_mono _ _ hs
    obtain ⟨t1, t2, t3, t4⟩ := step_tSend_bw (bo b0 s0.obs) (tid sA) id res (tSend sA (.response id res)).2
    have hleS := bw_step_tSend (bo b0 s0.obs) (tid sA) id res (tSend sA (.response id res)).2
    refine ⟨⟨hny, ?_, fun hc => hfu (h.fu hc), ?_⟩, ?_⟩
    · rw [hobs]
      exact ⟨CK11b.extW hx0 h.ck, Or.inr (chk11b_other _ _ (fun _ _ _ hc => by cases hc))⟩
    · rw [hdd]
      rcases hb0 with hs | ⟨hv0, hs, hle0⟩
      · exact Or.inl (hspun hs)
      · rcases h.z with h1 | h1 | h1 | hZ0
        · exact Or.inl (hspun (hs.trans h1))
        · right; left
          rw [hobs, bo_cons]
          exact hleS.failed (hle0.failed h1)
        · exact Or.inr (Or.inr (Or.inl h1))
        · right; right; right
          rw [hobs, bo_cons, t3, hv, hmvA]
          have hao : (bo b0 s0.obs).abandonOrder = (bo b0 s.obs).abandonOrder := congrArg BV.ao hv0
          have htb : (bo b0 s0.obs).table = (bo b0 s.obs).table := congrArg BV.table hv0
          rw [hao]
          refine Z_myB hmyA hZ0 (t1.trans hle0.execs) ?_
          intro p hp ⟨en', hen', hi'⟩
          show p ∈ ((bo b0 s0.obs).step _).table
          rw [t2, htb]
          refine List.mem_filter.mpr ⟨hp, ?_⟩
          have := (hentsA en' hen').2
          rw [hi'] at this
          simpa using this
    · intro hok
      have hok' : (tSend sA (.response id res)).2 = false := by
        have := Option.some.inj hok
        exact this
      right
      rw [hobs, bo_cons]
      exact t4 hok'

theorem NZ_pumpWrite {pend : Option (Nat × Nat)} {m : Option Bool} {s : St} (hel : s.ensureLoop = false) (rc : Bool)
    (h : NZ b0 now pend m rest s) :
    NZ b0 now pend m rest (pumpWrite s rc).1 ∧
    (∀ a, (pumpWrite s rc).2 = .err a →
      (bo b0 (pumpWrite s rc).1.obs).spun = true ∨ (bo b0 (pumpWrite s rc).1.obs).failed = true) := by
  have hfuW : s.readFused = true → (ensureWriteable s).1.readFused = true :=
    (fused_closed now).toLoopClosed.ensureWriteable s
  have hfuF : ∀ s1 : St, s1.readFused = true → (flushArm s1 rc).1.readFused = true :=
    fun s1 => (fused_closed now).toStepClosed.flushArm s1 rc
  have hew : ensureWriteable s = ensureOnce s := by unfold ensureWriteable; rw [hel]; rfl
  unfold pumpWrite
  have h1 := NZ_qm (qm_ensureWriteable s) hfuW h
  have hsh := ensureWriteable_shape s
  have hxw : ExtW s (ensureWriteable s).1 := (qm_ensureWriteable s).1
  have hek : ∀ a, (ensureWriteable s).2 = .err a → a = .ready ∨ a = .flush := by
    intro a ha; rw [hew] at ha; exact ensureOnce_err s a ha
  split
  · next s1 heq =>
    rw [heq] at h1
    refine ⟨NZ_qm (qm_flushArm _ _) (hfuF s1) h1, ?_⟩
    intro a ha
    have hs2 := flushArm_shape s1 rc
    rw [ha] at hs2
    exact failed_of_shape b0 (qm_flushArm s1 rc).1 a hs2 (Or.inr (flushArm_err s1 rc a ha))
  · next s1 a heq =>
    rw [heq] at h1 hsh hxw hek
    refine ⟨h1, ?_⟩
    intro a' ha'
    cases ha'
    exact failed_of_shape b0 hxw a hsh (hek a rfl)
  · next s1 heq => rw [heq] at h1; exact ⟨h1, fun a ha => by cases ha⟩
  · next s1 heq =>
    rw [heq] at h1
    split
    · next id res l hq =>
      have hms : MS s1 { s1 with respQ := l } :=
        ms_setRq s1 l (fun p hp => by rw [hq]; exact List.mem_cons_of_mem _ hp)
      have h1' : NZ b0 now pend m rest { s1 with respQ := l } :=
        NZ_model (s := s1) (s' := { s1 with respQ := l }) (ExtW.of_eq rfl)
          (by
            have hnn1 : NN b0 now pend rest { s1 with respQ := l } :=
              NN_ms (s := s1) (s' := { s1 with respQ := l }) (ExtW.of_eq rfl) (J_qs (QS.of_eq rfl rfl)) hms h1.ny.nn
            exact NY_model (s := s1) (s' := { s1 with respQ := l }) (ExtW.of_eq rfl) hnn1
              (fun _ _ hY => hY.congr rfl rfl rfl rfl rfl) h1.ny)
          h1.fu (fun hd => hd) (fun _ _ _ hZ => hZ.congr rfl rfl rfl) h1
      have h2 : NZ b0 now pend m rest (rqRelease { s1 with respQ := l }) :=
        NZ_qm (qm_rqRelease _) ((fused_closed now).toExecClosed.rqRelease _) h1'
      have hd : (bo b0 (rqRelease { s1 with respQ := l }).obs).spun = true ∨
          ∀ x ∈ (mv (rqRelease { s1 with respQ := l })).execs, x.id = id → x.live = false := by
        rcases h1.ny.nn.n with hs | ⟨_, hX⟩
        · left
          rcases bo_extW b0 ((qm_rqRelease { s1 with respQ := l }).1.pre (s := s1) rfl) with h3 | ⟨_, h3, _⟩
          · exact h3
          · exact h3.trans hs
        · right
          intro x hx hxi
          rw [mv_rqRelease_pop] at hx
          obtain ⟨x0, hx0, hxi0, hl⟩ := hX.rq id (by
            show id ∈ s1.respQ.map (·.1)
            rw [hq]; exact List.mem_cons_self ..)
          have : x = x0 := hX.id_inj hx hx0 (hxi.trans hxi0.symm)
          rw [this]; exact hl
      obtain ⟨h3, h3f⟩ := NZ_baseStartSend id res h2 hd
      simp only
      split
      · next s3 heq3 =>
        rw [heq3] at h3 h3f
        exact ⟨h3, fun a _ => h3f rfl⟩
      · next s3 r hne heq3 =>
        rw [heq3] at h3
        exact ⟨h3, fun a ha => by cases ha⟩
    · have hq' : QM s1 (flushArm { s1 with rqRxWaker := true } rc).1 := (qm_flushArm _ _).pre rfl rfl
      refine ⟨NZ_qm (s := s1) hq' (fun hf => hfuF { s1 with rqRxWaker := true } hf) h1, ?_⟩
      intro a ha
      have hs2 := flushArm_shape { s1 with rqRxWaker := true } rc
      rw [ha] at hs2
      exact failed_of_shape b0 (s := s1) hq'.1 a hs2 (Or.inr (flushArm_err _ rc a ha))


/-- the request the read pump produced is dropped: the write pump failed, and the book has recorded the failure -/
theorem NZ_dropOffered {m : Option Bool} {s : St} (rid id : Nat) (h : NZ b0 now (some (rid, id)) m rest s)
    (hfail : (bo b0 s.obs).spun = true ∨ (bo b0 s.obs).failed = true) :
    NZ b0 now none m rest (dropOffered s rid id) := by
  have hx : ExtW s (dropOffered s rid id) := by
    unfold dropOffered
    simp only
    split
    · exact ((qm_wakeServer _).1.pre rfl).pre rfl
    · exact ExtW.of_eq rfl
  refine ⟨NY_dropOffered rid id h.ny, CK11b.extW hx h.ck,
    fun hc => (fused_closed now).toStepClosed.dropOffered s rid id (h.fu hc), ?_⟩
  rcases bo_extW b0 hx with hs | ⟨_, hs, hle⟩
  · exact Or.inl hs
  · rcases hfail with h1 | h1
    · exact Or.inl (hs.trans h1)
    · exact Or.inr (Or.inl (hle.failed h1))

/-! ## `Requests::poll_next` (no limiter) -/

def PostRqZ (b0 : Book) (now : Nat) (rest : List Nat) : St × ReqPoll → Prop
  | (s', .item rid) => ∃ id m, m ≠ some true ∧ NZ b0 now (some (rid, id)) m rest s' ∧ ArmedV rid (mv s')
  | (s', .spin) => ∃ m, NZ b0 now none m rest s'
  | (s', _) => ∃ m, m ≠ some true ∧ NZ b0 now none m rest s'

theorem NZ_requestsPollNext (hf : ClampFits) (hn : now < panicFreeNs) (htp : b0.topPoll = true) : ∀ (fuel : Nat) (s : St)
    (m : Option Bool), m ≠ some true → SInv false now s → QC now s → SQ s → NZ b0 now none m rest s →
    s.limit = none → s.ensureLoop = false → PostRqZ b0 now rest (requestsPollNext fuel s now) := by
  intro fuel
  induction fuel with
  | zero => intro s m _ _ _ _ h _ _; exact ⟨m, NZ_qm (QM.emit s _ rfl rfl) (fun h => h) h⟩
  | succ n ih =>
    intro s m hm hs hq hsq h hl hel
    rw [Flow.requestsPollNext_succ, channelPollNext_none hl]
    have hch := NZ_basePollNext hf hn htp (baseFuel s) s m hm hs hq hsq h
    have hsc := (sinv_closed false now).basePollNext (baseFuel s) s hs
    have hqc := (qc_closed hf now).toLoopClosed.basePollNext (baseFuel s) s hq
    have hsqc := (sq_closed now).toLoopClosed.basePollNext (baseFuel s) s hsq
    have hc1 := (cfg_closed s now).toLoopClosed.basePollNext (baseFuel s) s ⟨rfl, rfl, rfl, rfl⟩
    split
    · next s1 a heq => rw [heq] at hch; exact hch
    · next s1 heq => rw [heq] at hch; exact hch
    · next s1 read hne1 hne2 heq =>
      rw [heq] at hch hsc hqc hsqc hc1
      have hel2 : (armRead s1 read).ensureLoop = false := by
        rw [(FlowMon.armRead_cfg s1 read).1, hc1.2.2.1]; exact hel
      have hl2 : (armRead s1 read).limit = none := by
        have : (armRead s1 read).limit = s1.limit := by unfold armRead; split <;> rfl
        rw [this, hc1.2.1]; exact hl
      have hsa : SInv false now (armRead s1 read) := by
        unfold armRead; split
        · exact (sinv_closed false now).upd _ _ _ (fun e => ⟨rfl, rfl, rfl, rfl⟩) hsc
        · exact hsc
      have hqa : QC now (armRead s1 read) := hqc.of_timers (by unfold armRead; split <;> rfl)
      have hsqa : SQ (armRead s1 read) := hsqc.of_timers (by unfold armRead; split <;> rfl)
      have hsp := (sinv_closed false now).pumpWrite (armRead s1 read) (Flow.readClosedOf read) hsa
      have hqp := (qc_closed hf now).toLoopClosed.pumpWrite (armRead s1 read) (Flow.readClosedOf read) hqa
      have hsqp := (sq_closed now).toLoopClosed.pumpWrite (armRead s1 read) (Flow.readClosedOf read) hsqa
      have hc3 := (cfg_closed (armRead s1 read) now).pumpWrite (armRead s1 read) (Flow.readClosedOf read) ⟨rfl, rfl, rfl, rfl⟩
      have hnsp := pumpWrite_ne_spin (armRead s1 read) (Flow.readClosedOf read) hel2
      cases read with
      | some ex =>
        obtain ⟨m1, hm1, hch1⟩ := hch
        obtain ⟨hp, hpf⟩ := NZ_pumpWrite (b0 := b0) (now := now) (rest := rest) hel2 (Flow.readClosedOf (.some ex))
          (NZ_armRead (.some ex) hch1)
        have harm : ArmedV ex.rid (mv (pumpWrite (armRead s1 (.some ex)) (Flow.readClosedOf (.some ex))).1) := by
          intro x hx hr
          have : (mv (pumpWrite (armRead s1 (.some ex)) (Flow.readClosedOf (.some ex))).1).execs =
              (mv (armRead s1 (.some ex))).execs := pumpWrite_execs_ye _ _
          rw [this] at hx
          exact armRead_armed s1 ex x hx hr
        split
        · next s3 a heq3 =>
          rw [heq3] at hp hpf
          exact ⟨m1, hm1, NZ_dropOffered ex.rid ex.id hp (hpf a rfl)⟩
        · next s3 heq3 => rw [heq3] at hnsp; exact absurd rfl hnsp
        · next s3 write hne3 hne4 heq3 =>
          rw [heq3] at hp harm
          split
          case h_2 exq heq' => cases heq'; exact ⟨ex.id, m1, hm1, hp, harm⟩
          case h_3 hx => exact (hx ex rfl).elim
          case h_4 _ hx _ => exact (hx ex rfl).elim
          all_goals (rename_i h; cases h)
      | err a => exact absurd rfl (hne1 a)
      | spin => exact absurd rfl hne2
      | pending =>
        obtain ⟨m1, hm1, hch1⟩ := hch
        obtain ⟨hp, hpf⟩ := NZ_pumpWrite (b0 := b0) (now := now) (rest := rest) hel2 (Flow.readClosedOf .pending)
          (NZ_armRead .pending hch1)
        split
        · next s3 a heq3 => rw [heq3] at hp; exact ⟨m1, hm1, hp⟩
        · next s3 heq3 => rw [heq3] at hp; exact ⟨m1, hp⟩
        · next s3 write hne3 hne4 heq3 =>
          rw [heq3] at hp hsp hqp hsqp hc3
          split
          · exact ⟨m1, hm1, hp⟩
          · next h => cases h
          · exact ih s3 m1 hm1 hsp hqp hsqp hp (hc3.2.1.trans hl2) (hc3.2.2.1.trans hel2)
          · exact ⟨m1, hm1, hp⟩
      | none =>
        obtain ⟨m1, hm1, hch1⟩ := hch
        obtain ⟨hp, hpf⟩ := NZ_pumpWrite (b0 := b0) (now := now) (rest := rest) hel2 (Flow.readClosedOf .none)
          (NZ_armRead .none hch1)
        split
        · next s3 a heq3 => rw [heq3] at hp; exact ⟨m1, hm1, hp⟩
        · next s3 heq3 => rw [heq3] at hp; exact ⟨m1, hp⟩
        · next s3 write hne3 hne4 heq3 =>
          rw [heq3] at hp hsp hqp hsqp hc3
          split
          · exact ⟨m1, hm1, hp⟩
          · next h => cases h
          · exact ih s3 m1 hm1 hsp hqp hsqp hp (hc3.2.1.trans hl2) (hc3.2.2.1.trans hel2)
          · exact ⟨m1, hm1, hp⟩


/-! ## the end of a poll: the request is handed out; `ret`, `counts` -/

theorem NZ_yield {m : Option Bool} {s : St} {rid id : Nat} {e : Exec} (hm : m ≠ some true) (hg : getExec s rid = some e)
    (ht : TInv now s) (h : NZ b0 now (some (rid, id)) m rest s) (harm : ArmedV rid (mv s)) :
    NZ b0 now none m rest (emit (updExec { s with nextVis := s.nextVis + 1 } rid (fun x => { x with vis := some s.nextVis }))
      (.yielded s.nextVis e.id e.deadline e.trace)) := by
  obtain ⟨hem, her⟩ := getExec_mem hg
  refine ⟨NY_yield hg ht h.ny harm, ⟨h.ck, Or.inr (chk11b_other _ _ (fun _ _ _ hc => by cases hc))⟩, h.fu, ?_⟩
  show ((bo b0 s.obs).step (.obs (.yielded s.nextVis e.id e.deadline e.trace))).spun = true ∨
    ((bo b0 s.obs).step (.obs (.yielded s.nextVis e.id e.deadline e.trace))).failed = true ∨ s.dropped = true ∨ _
  rcases h.z with h1 | h1 | h1 | hZ
  · exact Or.inl (step_spun_mono _ _ h1)
  · exact Or.inr (Or.inl h1)
  · exact Or.inr (Or.inr (Or.inl h1))
  · rcases h.ny.y with h1 | hY
    · exact Or.inl (step_spun_mono _ _ h1)
    · rcases h.ny.nn.n with h1 | ⟨hK, hX⟩
      · exact Or.inl (step_spun_mono _ _ h1)
      · right; right; right
        obtain ⟨_, x0, hx0, hr0, hid0, hv0⟩ := hK.pnd rid id rfl
        have hxe : xe e = x0 := eq_of_rid_nodup hK.ridNodup (List.mem_map_of_mem hem) hx0 (her.trans hr0.symm)
        have hid : e.id = id := by rw [← hid0, ← hxe]; rfl
        show Z none m (bw ((bo b0 s.obs).step (.obs (.yielded s.nextVis e.id e.deadline e.trace))))
          (bo b0 s.obs).abandonOrder _
        refine hZ.yield hm s.nextVis ?_ rfl rfl ?_ ?_ ?_ ?_
        · show (List.map (fun e' => if e'.rid == rid then { e' with vis := some s.nextVis } else e') s.execs).map ye = _
          simp only [mv, List.map_map]
          apply List.map_congr_left
          intro e' _
          simp only [Function.comp]
          have hxr : (ye e').rid = e'.rid := rfl
          by_cases hc : (e'.rid == rid) = true
          · rw [if_pos hc, if_pos (by rw [hxr]; exact hc)]; rfl
          · rw [if_neg hc, if_neg (by rw [hxr]; exact hc)]
        · intro r i ⟨eb, h1, h2⟩
          exact ⟨eb, by rw [bw_step_yielded]; exact List.mem_append_left _ h1, h2⟩
        · rw [bw_step_yielded_table, hid]
        · intro en hen hr
          obtain ⟨en0, hen0, rfl⟩ := List.mem_map.mp hen
          have := K_eid_st hK en0 hen0 e hem (her.trans hr.symm)
          exact this.symm.trans hid
        · intro en hen hr hi
          obtain ⟨en0, hen0, rfl⟩ := List.mem_map.mp hen
          obtain ⟨⟨en1, hen1, hen1i, hen1r, _⟩, _⟩ := hY.pnd rid id rfl
          obtain ⟨en1', hen1', rfl⟩ := List.mem_map.mp hen1
          have : en0 = en1' := eq_of_map_nodup (·.id) ht.ids hen0 hen1' (hi.trans hen1i.symm)
          rw [this] at hr
          exact hr hen1r

/-- a channel poll that goes idle: the entries of the requests still tracked survive the book's sweep -/
theorem idle_keep {b1 b1' : Book} {s : St} (l : Option Nat)
    (hK : K now none (bview b1) (sview s)) (hX : X rest (bw b1) (mv s)) (hY : Y now none (bw b1) (mv s))
    (he : b1'.execs = b1.execs) (htb : b1'.table = b1.table) (hnw : b1'.now = b1.now)
    (hidle : ∀ en ∈ (mv s).ents, now < ceilMs en.due * nsPerMs) (hcq : s.cancelQ = []) (hdr : s.dropped = false) :
    ∀ p ∈ b1'.table, (∃ en ∈ (mv s).ents, en.id = p.1) → p ∈ (sweptBook b1' l).table := by
  intro p hp ⟨en, hen, hei⟩
  obtain ⟨i, r⟩ := p
  have hclk : b1.now = now := hK.clk
  rcases swept_table_mem b1' l i r hp with hk | ⟨e, hex, hbad⟩
  · exact hk
  · exfalso
    have hex1 : b1.exec r = some e := by
      have : b1'.exec r = b1.exec r := by unfold Book.exec; rw [he]
      rw [← this]; exact hex
    have hem : e ∈ b1.execs := List.mem_of_find?_eq_some hex1
    have her : e.rid = r := by simpa using List.find?_some hex1
    have hwm : wb e ∈ (bw b1).execs := List.mem_map_of_mem hem
    rw [htb] at hp
    obtain ⟨eb, heb, hbr, hbi, _⟩ := hY.i2 hdr (i, r) hp
    have hbnd : ((bw b1).execs.map (·.rid)).Nodup := by
      have := hK.bNodup
      have heq : (bview b1).execs.map (·.rid) = (bw b1).execs.map (·.rid) := by
        simp only [bview, bw, List.map_map]; rfl
      rw [heq] at this; exact this
    have hsame : wb e = eb := eq_of_map_nodup (·.rid) hbnd hwm heb (her.trans hbr.symm)
    have hbi' : (wb e).id = i := by rw [hsame]; exact hbi
    obtain ⟨x, hx, hxv⟩ := hX.bsrc (wb e) hwm
    have hxid := hX.bid (wb e) hwm x hx hxv
    obtain ⟨x', hx', hxr'⟩ := hX.esrc en hen
    have hxid' := K_eid_mv hK en hen x' hx' hxr'
    have hxx : x = x' := hX.id_inj hx hx' (by rw [hxid, hxid', hbi']; exact hei.symm)
    rw [← hxx] at hxr'
    rcases hbad with hd | ha
    · have htk := tick_eq hX hY hen hx hxr' hwm hxv
      have h1 : (wb e).tick = e.tick := rfl
      rw [h1] at htk
      rw [hnw, hclk] at hd
      have := hidle en hen
      omega
    · have := hY.i3 hdr en hen x hx hxr' (wb e) hwm hxv ha
      have h2 : en.id ∈ s.cancelQ := this
      rw [hcq] at h2; cases h2

theorem Z_ret_aux {pend : Option (Nat × Nat)} {m : Option Bool} {b1 : Book} {S : MV} (c : Bool) (hm : m ≠ some true)
    (h : Z pend m (bw b1) b1.abandonOrder S)
    (hk : c = true → S.cq = [] ∧ ∀ p ∈ b1.table, (∃ en ∈ S.ents, en.id = p.1) → p ∈ (sweptBook b1 (some b1.now)).table) :
    Z pend m (bw (if c then sweptBook b1 (some b1.now) else b1))
      (if c then sweptBook b1 (some b1.now) else b1).abandonOrder S := by
  cases c
  · exact h
  · obtain ⟨hcq, hkeep⟩ := hk rfl
    refine ⟨?_, ?_⟩
    · intro en hen x hx hr
      rcases h.sub en hen x hx hr with hp | ⟨v, hv, ht⟩
      · exact Or.inl hp
      · exact Or.inr ⟨v, hv, hkeep _ ht ⟨en, hen, rfl⟩⟩
    · intro pop hp
      cases pop with
      | true => exact absurd hp hm
      | false =>
        show All2 _ [] S.cq
        rw [hcq]; exact .nil

theorem Z_step_ret {pend : Option (Nat × Nat)} {m : Option Bool} {b : Book} {S : MV} (k : Nat) (r : Ret) (hm : m ≠ some true)
    (h : Z pend m (bw b) b.abandonOrder S)
    (hk : (r = .pending ∨ r = .readyNone) → S.cq = [] ∧ ∀ b1' : Book, b1'.execs = b.execs → b1'.table = b.table →
      b1'.now = b.now → ∀ p ∈ b1'.table, (∃ en ∈ S.ents, en.id = p.1) → p ∈ (sweptBook b1' (some b1'.now)).table) :
    Z pend m (bw (b.step (.obs (.ret (.server k) r)))) (b.step (.obs (.ret (.server k) r))).abandonOrder S := by
  rw [step_ret_eq]
  have hle : ∀ b1 : Book, b1.execs = b.execs → b1.table = b.table → b1.abandonOrder = b.abandonOrder →
      Z pend m (bw b1) b1.abandonOrder S := by
    intro b1 h2 h3 h4
    rw [h4]
    exact h.book (congrArg (List.map wb) h2) h3
  cases r with
  | pending =>
    exact Z_ret_aux _ hm (hle _ rfl rfl rfl) (fun _ => ⟨(hk (Or.inl rfl)).1, (hk (Or.inl rfl)).2 _ rfl rfl rfl⟩)
  | readyNone =>
    exact Z_ret_aux _ hm (hle _ rfl rfl rfl) (fun _ => ⟨(hk (Or.inr rfl)).1, (hk (Or.inr rfl)).2 _ rfl rfl rfl⟩)
  | readyItem => exact Z_ret_aux _ hm (hle _ rfl rfl rfl) (fun hc => by simp at hc)
  | readyItemErr a => exact Z_ret_aux _ hm (hle _ rfl rfl rfl) (fun hc => by simp at hc)
  | readyOk => exact Z_ret_aux _ hm (hle _ rfl rfl rfl) (fun hc => by simp at hc)
  | readyErr a => exact Z_ret_aux _ hm (hle _ rfl rfl rfl) (fun hc => by simp at hc)

theorem chk11b_counts (b' : Book) (k a t : Nat) (h : b'.failed = true ∨ a ≤ b'.table.length) :
    chk11b b' (.counts (.server k) a t) = none := by
  unfold chk11b
  simp only [checkC11Bound]
  rw [if_neg]
  rcases h with h | h
  · simp [h]
  · simp only [Bool.and_eq_true, Bool.not_eq_true', decide_eq_true_eq, not_and]
    intro _; omega

theorem step_ret_failed (b : Book) (k : Nat) (r : Ret) (h : b.failed = true) :
    (b.step (.obs (.ret (.server k) r))).failed = true := by
  rw [step_ret_eq]
  cases r <;> (simp only; split <;> exact h)

/-- the `ret` and `counts` observations that end a poll -/
theorem NZ_fin {m : Option Bool} {s1 : St} (rt : Ret) (hm : m ≠ some true) (h1 : NZ b0 now none m rest s1)
    (ht1 : TInv now s1) (hdr : s1.dropped = false)
    (hny : NY b0 now none rest (emit (emit s1 (.ret (tid s1) rt)) (.counts (tid s1) s1.inflight.length s1.timers.len)))
    (hidle : (rt = .pending ∨ rt = .readyNone) → DelayQ.Idle now s1.timers ∧ s1.cancelQ = []) :
    NZ b0 now none m rest (emit (emit s1 (.ret (tid s1) rt)) (.counts (tid s1) s1.inflight.length s1.timers.len)) := by
  -- the coupling after the `ret`
  have hz : ((bo b0 s1.obs).step (.obs (.ret (tid s1) rt))).spun = true ∨
      ((bo b0 s1.obs).step (.obs (.ret (tid s1) rt))).failed = true ∨
      Z none m (bw ((bo b0 s1.obs).step (.obs (.ret (tid s1) rt))))
        ((bo b0 s1.obs).step (.obs (.ret (tid s1) rt))).abandonOrder (mv s1) := by
    rcases h1.z with hs | hs | hs | hZ
    · exact Or.inl (step_spun_mono _ _ hs)
    · exact Or.inr (Or.inl (step_ret_failed _ s1.sidx rt hs))
    · rw [hdr] at hs; cases hs
    · rcases h1.ny.y with hs | hY
      · exact Or.inl (step_spun_mono _ _ hs)
      · rcases h1.ny.nn.n with hs | ⟨hK, hX⟩
        · exact Or.inl (step_spun_mono _ _ hs)
        · right; right
          refine Z_step_ret s1.sidx rt hm hZ (fun hr => ?_)
          obtain ⟨hi, hcq⟩ := hidle hr
          exact ⟨hcq, fun b1' he htb hnw => idle_keep (some b1'.now) hK hX hY he htb hnw (idle_mv ht1 hi) hcq hdr⟩
  refine ⟨hny, ?_, h1.fu, ?_⟩
  · show CK chk11b b0 (.counts (tid s1) s1.inflight.length s1.timers.len :: .ret (tid s1) rt :: s1.obs)
    refine ⟨⟨h1.ck, Or.inr (chk11b_other _ _ (fun _ _ _ hc => by cases hc))⟩, ?_⟩
    show ((bo b0 s1.obs).step (.obs (.ret (tid s1) rt))).spun = true ∨ _
    rcases hz with hs | hs | hZ
    · exact Or.inl hs
    · exact Or.inr (chk11b_counts _ s1.sidx _ _ (Or.inl hs))
    · rcases h1.ny.nn.n with hs | ⟨hK, hX⟩
      · exact Or.inl (step_spun_mono _ _ hs)
      · right
        refine chk11b_counts _ s1.sidx _ _ (Or.inr ?_)
        have hnd : ((mv s1).ents.map (·.id)).Nodup := by
          have := ht1.ids
          have heq : (mv s1).ents.map (·.id) = s1.inflight.map (·.id) := by simp only [mv, List.map_map]; rfl
          rw [heq]; exact this
        -- `X` over the book after the `ret` (same executions)
        have hcnt : (mv s1).ents.length ≤ (bw ((bo b0 s1.obs).step (.obs (.ret (tid s1) rt)))).table.length := by
          have h1' : ∀ a ∈ (mv s1).ents.map (·.id),
              a ∈ (bw ((bo b0 s1.obs).step (.obs (.ret (tid s1) rt)))).table.map (·.1) := by
            intro a ha
            obtain ⟨en, hen, rfl⟩ := List.mem_map.mp ha
            obtain ⟨x, hx, hr⟩ := hX.esrc en hen
            rcases hZ.sub en hen x hx hr with ⟨i, hp⟩ | ⟨v, _, ht⟩
            · cases hp
            · exact List.mem_map.mpr ⟨_, ht, rfl⟩
          have := nodup_sub_length hnd h1'
          simpa using this
        have hl : (mv s1).ents.length = s1.inflight.length := by simp [mv]
        rw [← hl]; exact hcnt
  · show ((bo b0 s1.obs).step (.obs (.ret (tid s1) rt))).spun = true ∨
      ((bo b0 s1.obs).step (.obs (.ret (tid s1) rt))).failed = true ∨ s1.dropped = true ∨
      Z none m (bw ((bo b0 s1.obs).step (.obs (.ret (tid s1) rt))))
        ((bo b0 s1.obs).step (.obs (.ret (tid s1) rt))).abandonOrder (mv s1)
    rcases hz with hs | hs | hZ
    · exact Or.inl hs
    · exact Or.inr (Or.inl hs)
    · exact Or.inr (Or.inr (Or.inr hZ))


theorem PostRqZ.toY {s : St} {r : ReqPoll} (h : PostRqZ b0 now rest (s, r)) : PostRqY b0 now rest (s, r) := by
  cases r with
  | item rid => obtain ⟨id, m, _, h1, h2⟩ := h; exact ⟨id, h1.ny, h2⟩
  | pending => obtain ⟨m, _, h1⟩ := h; exact h1.ny
  | none => obtain ⟨m, _, h1⟩ := h; exact h1.ny
  | err a => obtain ⟨m, _, h1⟩ := h; exact h1.ny
  | spin => obtain ⟨m, h1⟩ := h; exact h1.ny

theorem NZ_pskFinish {s : St} {r : ReqPoll} (ht : TInv now s) (h : PostRqZ b0 now rest (s, r)) (hsp : r ≠ .spin)
    (hbl : BL b0) (hnr : ∀ o ∈ s.obs, ∀ k r, o ≠ .ret (.server k) r) (hdr : s.dropped = false)
    (hidle : (r = .pending ∨ r = .none) → DelayQ.Idle now s.timers ∧ s.cancelQ = []) :
    ∃ m, m ≠ some true ∧ NZ b0 now none m rest (pskFinish s r) := by
  have hny := NY_pskFinish ht h.toY hsp hbl hnr (fun hr => ⟨(hidle hr).1, (hidle hr).2, hdr⟩)
  cases r with
  | pending =>
    obtain ⟨m, hm, h1⟩ := h
    exact ⟨m, hm, NZ_fin .pending hm h1 ht hdr hny (fun _ => hidle (Or.inl rfl))⟩
  | spin => exact absurd rfl hsp
  | none =>
    obtain ⟨m, hm, h0⟩ := h
    have h1 : NZ b0 now none m rest { s with done := some .readyNone } :=
      NZ_qm (s := s) (s' := { s with done := some .readyNone }) (QM.of_eq rfl rfl) (fun hf => hf) h0
    exact ⟨m, hm, NZ_fin (s1 := { s with done := some .readyNone }) .readyNone hm h1
      (ht.of_sim rfl rfl (ExecsSim.refl _)) hdr hny (fun _ => hidle (Or.inr rfl))⟩
  | err a =>
    obtain ⟨m, hm, h0⟩ := h
    have h1 : NZ b0 now none m rest { s with done := some (.readyItemErr a) } :=
      NZ_qm (s := s) (s' := { s with done := some (.readyItemErr a) }) (QM.of_eq rfl rfl) (fun hf => hf) h0
    exact ⟨m, hm, NZ_fin (s1 := { s with done := some (.readyItemErr a) }) (.readyItemErr a) hm h1
      (ht.of_sim rfl rfl (ExecsSim.refl _)) hdr hny (fun hr => by rcases hr with hr | hr <;> cases hr)⟩
  | item rid =>
    obtain ⟨id, m, hm, hN, harm⟩ := h
    refine ⟨m, hm, ?_⟩
    simp only [pskFinish, pskRet] at hny ⊢
    split
    · next e he =>
      rw [he] at hny
      have hty : TInv now (emit (updExec { s with nextVis := s.nextVis + 1 } rid (fun x => { x with vis := some s.nextVis }))
          (.yielded s.nextVis e.id e.deadline e.trace)) :=
        ht.of_sim rfl rfl (updExec_sim { s with nextVis := s.nextVis + 1 } rid _ (fun e => ⟨rfl, rfl, rfl⟩))
      exact NZ_fin .readyItem hm (NZ_yield hm he ht hN harm) hty hdr hny
        (fun hr => by rcases hr with hr | hr <;> cases hr)
    · next he =>
      rw [he] at hny
      have hno : ∀ {P : Prop}, K now (some (rid, id)) (bview (bo b0 s.obs)) (sview s) → P := by
        intro P hK
        exfalso
        obtain ⟨_, x0, hx0, hr0, _, _⟩ := hK.pnd rid id rfl
        obtain ⟨e, hem, rfl⟩ := List.mem_map.mp hx0
        unfold getExec at he
        have := List.find?_eq_none.mp he e hem
        simp at this
        exact this hr0
      have hs : (bo b0 s.obs).spun = true := by
        rcases hN.ny.nn.n with hs | ⟨hK, _⟩
        · exact hs
        · exact hno hK
      have h1 : NZ b0 now none m rest s :=
        ⟨⟨⟨Or.inl hs, hN.ny.nn.ck⟩, hN.ny.ck, Or.inl hs⟩, hN.ck, hN.fu, Or.inl hs⟩
      exact NZ_fin .readyItem hm h1 ht hdr hny (fun hr => by rcases hr with hr | hr <;> cases hr)


/-! ## the request stream is dropped; one poll by the application -/

theorem NZ_dropServer {m : Option Bool} {s : St} (h : NZ b0 now none m rest s)
    (hd : (bo b0 s.obs).spun = true ∨ (bo b0 s.obs).dropped = true) : NZ b0 now none m rest (dropServer s) := by
  have hx := extW_dropServer s
  refine ⟨NY_dropServer h.ny hd, CK11b.extW hx h.ck, fun hc => (fused_closed now).drop s (h.fu hc), ?_⟩
  cases hlive : (s.dropped || s.poisoned) with
  | false => exact Or.inr (Or.inr (Or.inl (dropServer_dropped s hlive)))
  | true =>
    have hdead : (s.dropped || s.poisoned) = true := hlive
    have he : dropServer s = emit s .noop := by unfold dropServer; rw [if_pos hdead]
    rw [he]
    exact (NZ_qm (QM.emit s _ rfl rfl) (fun hf => hf) h).z

/-- between ops: the couplings hold with nothing pending — or the channel is poisoned -/
def NPZ (b0 : Book) (now : Nat) (rest : List Nat) (s : St) : Prop :=
  (∃ m, m ≠ some true ∧ NZ b0 now none m rest s) ∨
    (s.poisoned = true ∧ CK chk11 b0 s.obs ∧ CK chk11b b0 s.obs ∧ ∃ pend, NN b0 now pend rest s)

theorem NPZ.toNPY {s : St} (h : NPZ b0 now rest s) : NPY b0 now rest s := by
  rcases h with ⟨m, _, h⟩ | ⟨hp, hck, _, pend, h⟩
  · exact Or.inl h.ny
  · exact Or.inr ⟨hp, hck, pend, h⟩

theorem NPZ.qm {s s' : St} (hq : QM s s') (hp : s'.poisoned = s.poisoned) (hf : s.readFused = true → s'.readFused = true)
    (h : NPZ b0 now rest s) : NPZ b0 now rest s' := by
  rcases h with ⟨m, hm, h⟩ | ⟨hpo, hck, hckb, pend, h⟩
  · exact Or.inl ⟨m, hm, NZ_qm hq hf h⟩
  · exact Or.inr ⟨hp.trans hpo, CK11.extW hq.1 hck, CK11b.extW hq.1 hckb, pend, NN_qm hq h⟩

theorem NZ_pollServerKeep {s : St} (hf : ClampFits) (hn : now < panicFreeNs) (h0 : s.obs = []) (hs : SInv false now s)
    (hq : QC now s) (hsq : SQ s) (h : NPZ b0 now rest s) (hbl : BL b0) (htp : b0.topPoll = true) (hl : s.limit = none)
    (hcfg : s.throttleAfterRead = false) (hel : s.ensureLoop = false) : NPZ b0 now rest (pollServerKeep s now) := by
  rw [pollServerKeep_eq]
  split
  · exact h.qm (QM.emit s _ rfl rfl) rfl (fun hf => hf)
  · next hlive =>
    simp only [Bool.or_eq_true, not_or, Bool.not_eq_true] at hlive
    obtain ⟨m0, hm0, hN0'⟩ : ∃ m, m ≠ some true ∧ NZ b0 now none m rest s := by
      rcases h with h | ⟨hp, _⟩
      · exact h
      · rw [hlive.2] at hp; cases hp
    have hN0 : NZ b0 now none m0 rest { s with woken := false } :=
      NZ_qm (s := s) (s' := { s with woken := false }) (QM.of_eq rfl rfl) (fun hf => hf) hN0'
    have hs0 : SInv false now { s with woken := false } :=
      (sinv_closed false now).inert s _ (by constructor <;> rfl) hs
    have hq0 : QC now { s with woken := false } := hq.of_timers rfl
    have hsq0 : SQ { s with woken := false } := hsq.of_timers rfl
    have hns : NS s := by unfold NS; rw [h0]; rfl
    have h1 := NS_requestsPollNext now (pollFuel { s with woken := false }) { s with woken := false }
      (by unfold pollFuel; simp only; omega) (NS_of_obs hns rfl) hcfg hel
    have hp := NZ_requestsPollNext (b0 := b0) (rest := rest) hf hn htp (pollFuel { s with woken := false })
      { s with woken := false } m0 hm0 hs0 hq0 hsq0 hN0 hl hel
    have hidle := requestsPollNext_idle_timers hf hn (pollFuel { s with woken := false }) { s with woken := false } hl hq0
    have hicq := requestsPollNext_idle_cq now (pollFuel { s with woken := false }) { s with woken := false } hl
    have hspin := requestsPollNext_spin now (pollFuel { s with woken := false }) { s with woken := false } hl hel
    have ht1 := ((sinv_closed false now).requestsPollNext (pollFuel { s with woken := false }) { s with woken := false } hs0).t
    have hdd := (dd_closed s.done s.dropped now).requestsPollNext (pollFuel { s with woken := false })
      { s with woken := false } ⟨rfl, rfl⟩
    have hflt := flt_requestsPollNext isRS_pollQuiet now (pollFuel { s with woken := false }) { s with woken := false }
    revert h1 hp hidle hicq hspin ht1 hdd hflt
    generalize requestsPollNext (pollFuel { s with woken := false }) { s with woken := false } now = p
    obtain ⟨s1, r⟩ := p
    intro h1 hp hidle hicq hspin ht1 hdd hflt
    simp only at h1 hp hidle hicq hspin ht1 hdd hflt ⊢
    split
    · next hsp =>
      exfalso
      unfold NS at hns h1
      simp [hns, h1] at hsp
    · split
      · next hpo =>
        cases r with
        | item rid =>
          obtain ⟨id, m, _, h, _⟩ := hp
          exact Or.inr ⟨hpo, h.ny.ck, h.ck, _, h.ny.nn⟩
        | pending => obtain ⟨m, hm, h⟩ := hp; exact Or.inl ⟨m, hm, h⟩
        | none => obtain ⟨m, hm, h⟩ := hp; exact Or.inl ⟨m, hm, h⟩
        | err a => obtain ⟨m, hm, h⟩ := hp; exact Or.inl ⟨m, hm, h⟩
        | spin => obtain ⟨m, h⟩ := hp; exact Or.inr ⟨hpo, h.ny.ck, h.ck, _, h.ny.nn⟩
      · next hpo =>
        have hnr : ∀ o ∈ s1.obs, ∀ k r, o ≠ .ret (.server k) r := by
          intro o ho k r' hc
          unfold Flt at hflt
          simp only at hflt
          have : o ∈ s1.obs.filter isRS := List.mem_filter.mpr ⟨ho, by rw [hc]; rfl⟩
          rw [hflt, h0] at this
          cases this
        refine Or.inl (NZ_pskFinish ht1 hp ?_ hbl hnr (by rw [hdd.2]; exact hlive.1.1) ?_)
        · intro hr
          rcases hspin hr with h2 | h2
          · unfold NS at h1; rw [h1] at h2; cases h2
          · exact hpo h2
        · intro hr
          refine ⟨?_, hicq hr⟩
          rcases hr with hr | hr
          · exact hidle (Or.inl hr)
          · exact hidle (Or.inr hr)

theorem NZ_pollServer {s : St} (hf : ClampFits) (hn : now < panicFreeNs) (h0 : s.obs = []) (hs : SInv false now s)
    (hq : QC now s) (hsq : SQ s) (hdd : DoneDropped s) (h : NPZ b0 now rest s) (hbl : BL b0) (htp : b0.topPoll = true)
    (hl : s.limit = none) (hcfg : s.throttleAfterRead = false) (hel : s.ensureLoop = false) :
    NPZ b0 now rest (pollServer s now) := by
  have hk := NZ_pollServerKeep hf hn h0 hs hq hsq h hbl htp hl hcfg hel
  have hdone := (J_pollServerKeep hs h.toNPY.toNP.toJP hcfg hel).2
  unfold pollServer
  simp only
  split
  · next hc =>
    simp only [Bool.and_eq_true, Bool.not_eq_true'] at hc
    have hd : (bo b0 (pollServerKeep s now).obs).spun = true ∨ (bo b0 (pollServerKeep s now).obs).dropped = true := by
      rcases hdone hc.1 with h | h
      · exfalso
        have hdr := hdd h
        have : pollServerKeep s now = emit s .noop := pollServerKeep_dead s now (by simp [hdr])
        rw [this] at hc
        simp only [emit_dropped, hdr] at hc
        exact absurd hc.2 (by simp)
      · exact h
    rcases hk with ⟨m, hm, h⟩ | ⟨hp, hck, hckb, pend, h⟩
    · exact Or.inl ⟨m, hm, NZ_dropServer h hd⟩
    · exact Or.inr ⟨by simp [hp], CK11.extW (extW_dropServer _) hck, CK11b.extW (extW_dropServer _) hckb, pend,
        NN_dropServer h hd⟩
  · split
    · exact NPZ.qm (s := pollServerKeep s now) (QM.of_eq rfl rfl) rfl (fun hf => hf) hk
    · exact hk

end TarpcModel.Server.Tab

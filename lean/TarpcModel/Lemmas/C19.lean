import TarpcModel.Monitors.C19
/-
Helper definitions and lemmas for the C19 property theorems (`Props/C19.lean`).
-/
namespace TarpcModel.Hooks

/-- The context after the (passing) before-hooks `hs` have edited it in order. -/
def applyEdits (hs : List Hook) (c : Ctx) : Ctx := hs.foldl (fun c h => h.edit.apply c) c

def allPass (hs : List Hook) : Prop := ∀ h ∈ hs, h.fail = false

def Event.isBefore : Event → Bool
  | .before .. => true
  | _ => false

def Event.isBeforeOk : Event → Bool
  | .before _ _ _ false => true
  | _ => false

def Event.isHandler : Event → Bool
  | .handler .. => true
  | _ => false

def Event.isAfter : Event → Bool
  | .after .. => true
  | _ => false

@[simp] theorem isBefore_before (t c q f) : (Event.before t c q f).isBefore = true := rfl
@[simp] theorem isBefore_handler (t c q) : (Event.handler t c q).isBefore = false := rfl
@[simp] theorem isBefore_after (t c r) : (Event.after t c r).isBefore = false := rfl
@[simp] theorem isHandler_before (t c q f) : (Event.before t c q f).isHandler = false := rfl
@[simp] theorem isHandler_handler (t c q) : (Event.handler t c q).isHandler = true := rfl
@[simp] theorem isHandler_after (t c r) : (Event.after t c r).isHandler = false := rfl
@[simp] theorem isAfter_before (t c q f) : (Event.before t c q f).isAfter = false := rfl
@[simp] theorem isAfter_handler (t c q) : (Event.handler t c q).isAfter = false := rfl
@[simp] theorem isAfter_after (t c r) : (Event.after t c r).isAfter = true := rfl

/-- Number of after-hook invocations. -/
def afterCount (evs : List Event) : Nat := (evs.filter Event.isAfter).length

/-- All before-hooks of a stack in the order outermost wrapper first, list elements left to right. -/
def befores : Serve → List Hook
  | .leaf _ _ => []
  | .before h s => h :: befores s
  | .beforeList hs s => hs ++ befores s
  | .after s _ => befores s
  | .both h s => h :: befores s

def handlerTag : Serve → Nat
  | .leaf t _ => t
  | .before _ s => handlerTag s
  | .beforeList _ s => handlerTag s
  | .after s _ => handlerTag s
  | .both _ s => handlerTag s

/-- Replace every hook's after-part context edit. -/
def Hook.withAedit (h : Hook) (e : CtxEdit) : Hook := { h with aedit := e }

def setAedits (f : Hook → CtxEdit) : Serve → Serve
  | .leaf t r => .leaf t r
  | .before h s => .before (h.withAedit (f h)) (setAedits f s)
  | .beforeList hs s => .beforeList (hs.map fun h => h.withAedit (f h)) (setAedits f s)
  | .after s h => .after (setAedits f s) (h.withAedit (f h))
  | .both h s => .both (h.withAedit (f h)) (setAedits f s)

/-! ### `then`, lists -/

theorem thenL_eq_append (l : List Hook) (h : Hook) : thenL l h = l ++ [h] := by
  induction l with
  | nil => rfl
  | cons f r ih => simp [thenL, ih]

theorem foldl_thenL (acc hs : List Hook) : hs.foldl thenL acc = acc ++ hs := by
  induction hs generalizing acc with
  | nil => simp
  | cons h hs ih => simp [ih, thenL_eq_append]

theorem chain_eq (hs : List Hook) : chain hs = hs := by
  simp [chain, foldl_thenL]

@[simp] theorem applyEdits_nil (c : Ctx) : applyEdits [] c = c := rfl

@[simp] theorem applyEdits_cons (h : Hook) (hs : List Hook) (c : Ctx) :
    applyEdits (h :: hs) c = applyEdits hs (h.edit.apply c) := rfl

theorem applyEdits_append (l1 l2 : List Hook) (c : Ctx) :
    applyEdits (l1 ++ l2) c = applyEdits l2 (applyEdits l1 c) := by
  simp [applyEdits, List.foldl_append]

theorem runList_append (l1 l2 : List Hook) (c : Ctx) (q : Req) :
    runList (l1 ++ l2) c q =
      match (runList l1 c q).2 with
      | .err e => ((runList l1 c q).1, .err e)
      | .ok c' => ((runList l1 c q).1 ++ (runList l2 c' q).1, (runList l2 c' q).2) := by
  induction l1 generalizing c with
  | nil => simp [runList]
  | cons h hs ih =>
    by_cases hf : h.fail = true
    · simp [runList, hf]
    · simp only [List.cons_append, runList, hf]
      rw [ih]
      cases hr : (runList hs (h.edit.apply c) q).2 <;> simp

theorem runList_allPass (hs : List Hook) (c : Ctx) (q : Req) (hp : allPass hs) :
    (runList hs c q).2 = .ok (applyEdits hs c) ∧ (runList hs c q).1.length = hs.length ∧
      ∀ e ∈ (runList hs c q).1, e.isBeforeOk = true := by
  induction hs generalizing c with
  | nil => simp [runList]
  | cons h hs ih =>
    have h1 : h.fail = false := hp h (by simp)
    have h2 : allPass hs := fun x hx => hp x (by simp [hx])
    have := ih (h.edit.apply c) h2
    simp [runList, h1, this, Event.isBeforeOk]
    exact this.2.2

/-- A failing hook after passing ones: it is the last invocation and its error is the outcome. -/
theorem runList_first_failure (pre post : List Hook) (h : Hook) (c : Ctx) (q : Req)
    (hp : allPass pre) (hf : h.fail = true) :
    runList (pre ++ h :: post) c q =
      ((runList pre c q).1 ++ [.before h.tag (applyEdits pre c) q true], .err h.tag) := by
  rw [runList_append, (runList_allPass pre c q hp).1]
  simp [runList, hf]

theorem runList_pass_at (pre post : List Hook) (h : Hook) (c : Ctx) (q : Req)
    (hp : allPass pre) (hf : h.fail = false) :
    runList (pre ++ h :: post) c q =
      ((runList pre c q).1 ++ .before h.tag (applyEdits pre c) q false ::
          (runList post (applyEdits (pre ++ [h]) c) q).1,
        (runList post (applyEdits (pre ++ [h]) c) q).2) := by
  rw [runList_append, (runList_allPass pre c q hp).1]
  simp [runList, hf, applyEdits_append]

/-- The outcome of a list is either the fully edited context (all pass) or the error of the first
failing hook. -/
theorem runList_outcome (hs : List Hook) (c : Ctx) (q : Req) :
    (allPass hs ∧ (runList hs c q).2 = .ok (applyEdits hs c)) ∨
    (∃ pre h post, hs = pre ++ h :: post ∧ allPass pre ∧ h.fail = true ∧
        (runList hs c q).2 = .err h.tag) := by
  induction hs generalizing c with
  | nil => left; simp [runList, allPass]
  | cons h hs ih =>
    by_cases hf : h.fail = true
    · right; exact ⟨[], h, hs, rfl, by simp [allPass], hf, by simp [runList, hf]⟩
    · have hf' : h.fail = false := by simpa using hf
      rcases ih (h.edit.apply c) with ⟨hp, ho⟩ | ⟨pre, x, post, he, hp, hx, ho⟩
      · left
        refine ⟨?_, by simp [runList, hf', ho]⟩
        intro y hy
        rcases List.mem_cons.mp hy with rfl | hy
        · exact hf'
        · exact hp y hy
      · right
        refine ⟨h :: pre, x, post, by simp [he], ?_, hx, by simp [runList, hf', ho]⟩
        intro y hy
        rcases List.mem_cons.mp hy with rfl | hy
        · exact hf'
        · exact hp y hy

/-! ### equations of `eval` in rewriting form -/

theorem eval_leaf (t : Nat) (r : Res) (c : Ctx) (q : Req) :
    eval (.leaf t r) c q = ([.handler t c q], r) := rfl

theorem eval_before_fail (h : Hook) (s : Serve) (c : Ctx) (q : Req) (hf : h.fail = true) :
    eval (.before h s) c q = ([.before h.tag c q true], .err h.tag) := by
  simp [eval, hf]

theorem eval_before_pass (h : Hook) (s : Serve) (c : Ctx) (q : Req) (hf : h.fail = false) :
    eval (.before h s) c q =
      (.before h.tag c q false :: (eval s (h.edit.apply c) q).1, (eval s (h.edit.apply c) q).2) := by
  simp [eval, hf]

theorem eval_beforeList_err (hs : List Hook) (s : Serve) (c : Ctx) (q : Req) (e : Nat)
    (hr : (runList hs c q).2 = .err e) :
    eval (.beforeList hs s) c q = ((runList hs c q).1, .err e) := by
  simp [eval, hr]

theorem eval_beforeList_ok (hs : List Hook) (s : Serve) (c c' : Ctx) (q : Req)
    (hr : (runList hs c q).2 = .ok c') :
    eval (.beforeList hs s) c q = ((runList hs c q).1 ++ (eval s c' q).1, (eval s c' q).2) := by
  simp [eval, hr]

theorem eval_after (s : Serve) (h : Hook) (c : Ctx) (q : Req) :
    eval (.after s h) c q =
      ((eval s c q).1 ++ [.after h.tag c (eval s c q).2], h.redit.apply (eval s c q).2) := by
  simp [eval]

theorem eval_both_fail (h : Hook) (s : Serve) (c : Ctx) (q : Req) (hf : h.fail = true) :
    eval (.both h s) c q = ([.before h.tag c q true], .err h.tag) := by
  simp [eval, hf]

theorem eval_both_pass (h : Hook) (s : Serve) (c : Ctx) (q : Req) (hf : h.fail = false) :
    eval (.both h s) c q =
      (.before h.tag c q false ::
          ((eval s (h.edit.apply c) q).1 ++
            [.after h.tag (h.edit.apply c) (eval s (h.edit.apply c) q).2]),
        h.redit.apply (eval s (h.edit.apply c) q).2) := by
  simp [eval, hf]

/-! ### `serving` / `beforeList` -/

theorem eval_beforeList_nil (s : Serve) (c : Ctx) (q : Req) :
    eval (.beforeList [] s) c q = eval s c q := by
  rw [eval_beforeList_ok [] s c c q (by simp [runList])]
  simp [runList]

theorem eval_serving (hs : List Hook) (s : Serve) (c : Ctx) (q : Req) :
    eval (serving hs s) c q = eval (.beforeList hs s) c q := by
  cases hs with
  | nil => simp [serving, eval_beforeList_nil]
  | cons h hs => rfl

theorem eval_beforeList_cons (h : Hook) (hs : List Hook) (s : Serve) (c : Ctx) (q : Req) :
    eval (.beforeList (h :: hs) s) c q = eval (.before h (.beforeList hs s)) c q := by
  by_cases hf : h.fail = true
  · rw [eval_before_fail _ _ _ _ hf, eval_beforeList_err _ _ _ _ h.tag (by simp [runList, hf])]
    simp [runList, hf]
  · have hf' : h.fail = false := by simpa using hf
    rw [eval_before_pass _ _ _ _ hf']
    cases hr : (runList hs (h.edit.apply c) q).2 with
    | err e =>
      rw [eval_beforeList_err _ _ _ _ e hr, eval_beforeList_err _ _ _ _ e (by simp [runList, hf', hr])]
      simp [runList, hf']
    | ok c' =>
      rw [eval_beforeList_ok _ _ _ c' _ hr, eval_beforeList_ok _ _ _ c' _ (by simp [runList, hf', hr])]
      simp [runList, hf']

theorem eval_beforeList_append (l1 l2 : List Hook) (s : Serve) (c : Ctx) (q : Req) :
    eval (.beforeList (l1 ++ l2) s) c q = eval (.beforeList l1 (.beforeList l2 s)) c q := by
  induction l1 generalizing c with
  | nil => simp [eval_beforeList_nil]
  | cons h hs ih =>
    rw [List.cons_append, eval_beforeList_cons, eval_beforeList_cons]
    by_cases hf : h.fail = true
    · rw [eval_before_fail _ _ _ _ hf, eval_before_fail _ _ _ _ hf]
    · have hf' : h.fail = false := by simpa using hf
      rw [eval_before_pass _ _ _ _ hf', eval_before_pass _ _ _ _ hf', ih]

/-! ### shape of the invocation sequence -/

/-- `before-ok* (handler | before-fail) after*`, and a failing before-hook's error is what the next
after-hook sees or, when no after-hook follows, the response. -/
def Shape (evs : List Event) (r : Res) : Prop :=
  ∃ bs m as, evs = bs ++ m :: as ∧ (∀ e ∈ bs, e.isBeforeOk = true) ∧ (∀ e ∈ as, e.isAfter = true) ∧
    ((∃ t c q, m = .handler t c q) ∨
     (∃ t c q, m = .before t c q true ∧
        ((as = [] ∧ r = .err t) ∨ (∃ t' c' as', as = .after t' c' (.err t) :: as'))))

theorem Shape.cons_before {evs : List Event} {r : Res} (t : Nat) (c : Ctx) (q : Req)
    (h : Shape evs r) : Shape (.before t c q false :: evs) r := by
  obtain ⟨bs, m, as, he, hb, ha, hm⟩ := h
  refine ⟨.before t c q false :: bs, m, as, by simp [he], ?_, ha, hm⟩
  intro e he'
  rcases List.mem_cons.mp he' with rfl | he'
  · rfl
  · exact hb e he'

theorem Shape.snoc_after {evs : List Event} {r : Res} (t : Nat) (c : Ctx) (r' : Res)
    (h : Shape evs r) : Shape (evs ++ [.after t c r]) r' := by
  obtain ⟨bs, m, as, he, hb, ha, hm⟩ := h
  refine ⟨bs, m, as ++ [.after t c r], by simp [he], hb, ?_, ?_⟩
  · intro e he'
    rcases List.mem_append.mp he' with he' | he'
    · exact ha e he'
    · simp at he'; subst he'; rfl
  · rcases hm with hm | ⟨t0, c0, q0, hm, hx⟩
    · exact Or.inl hm
    · refine Or.inr ⟨t0, c0, q0, hm, Or.inr ?_⟩
      rcases hx with ⟨hnil, hr⟩ | ⟨t', c', as', has⟩
      · exact ⟨t, c, [], by simp [hnil, hr]⟩
      · exact ⟨t', c', as' ++ [.after t c r], by simp [has]⟩

theorem Shape.fail (t : Nat) (c : Ctx) (q : Req) : Shape [.before t c q true] (.err t) :=
  ⟨[], .before t c q true, [], rfl, by simp, by simp, Or.inr ⟨t, c, q, rfl, Or.inl ⟨rfl, rfl⟩⟩⟩

theorem eval_shape (s : Serve) (c : Ctx) (q : Req) : Shape (eval s c q).1 (eval s c q).2 := by
  induction s generalizing c with
  | leaf t r => exact ⟨[], .handler t c q, [], rfl, by simp, by simp, Or.inl ⟨t, c, q, rfl⟩⟩
  | before h s ih =>
    by_cases hf : h.fail = true
    · rw [eval_before_fail _ _ _ _ hf]; exact Shape.fail _ _ _
    · have hf' : h.fail = false := by simpa using hf
      rw [eval_before_pass _ _ _ _ hf']; exact (ih _).cons_before _ _ _
  | beforeList hs s ih =>
    induction hs generalizing c with
    | nil => rw [eval_beforeList_nil]; exact ih c
    | cons h hs ihl =>
      rw [eval_beforeList_cons]
      by_cases hf : h.fail = true
      · rw [eval_before_fail _ _ _ _ hf]; exact Shape.fail _ _ _
      · have hf' : h.fail = false := by simpa using hf
        rw [eval_before_pass _ _ _ _ hf']; exact (ihl _).cons_before _ _ _
  | after s h ih => rw [eval_after]; exact (ih c).snoc_after _ _ _
  | both h s ih =>
    by_cases hf : h.fail = true
    · rw [eval_both_fail _ _ _ _ hf]; exact Shape.fail _ _ _
    · have hf' : h.fail = false := by simpa using hf
      rw [eval_both_pass _ _ _ _ hf']; exact ((ih _).snoc_after _ _ _).cons_before _ _ _

theorem shapeRun_append (p : Option Phase) (l1 l2 : List Event) :
    shapeRun p (l1 ++ l2) = shapeRun (shapeRun p l1) l2 := by
  simp [shapeRun, List.foldl_append]

theorem shapeRun_beforeOk (bs : List Event) (hb : ∀ e ∈ bs, e.isBeforeOk = true) :
    shapeRun (some .down) bs = some .down := by
  induction bs with
  | nil => rfl
  | cons e bs ih =>
    have he := hb e (by simp)
    have := ih (fun x hx => hb x (by simp [hx]))
    cases e with
    | before t c q f => cases f <;> simp_all [shapeRun, shapeStep, Event.isBeforeOk]
    | handler t c q => simp [Event.isBeforeOk] at he
    | after t c r => simp [Event.isBeforeOk] at he

theorem shapeRun_after_up (as : List Event) (ha : ∀ e ∈ as, e.isAfter = true) :
    shapeRun (some .up) as = some .up := by
  induction as with
  | nil => rfl
  | cons e as ih =>
    have he := ha e (by simp)
    have := ih (fun x hx => ha x (by simp [hx]))
    cases e with
    | before t c q f => simp [Event.isAfter] at he
    | handler t c q => simp [Event.isAfter] at he
    | after t c r => simp_all [shapeRun, shapeStep]

theorem shapeOk_of_shape {evs : List Event} {r : Res} (h : Shape evs r) : shapeOk evs r = true := by
  obtain ⟨bs, m, as, he, hb, ha, hm⟩ := h
  subst he
  unfold shapeOk
  rw [shapeRun_append, shapeRun_beforeOk bs hb]
  rcases hm with ⟨t, c, q, rfl⟩ | ⟨t, c, q, rfl, hx⟩
  · have : shapeRun (some .down) (.handler t c q :: as) = shapeRun (some .up) as := rfl
    rw [this, shapeRun_after_up as ha]
  · have h1 : shapeRun (some .down) (.before t c q true :: as) = shapeRun (some (.failed t)) as := rfl
    rw [h1]
    rcases hx with ⟨rfl, rfl⟩ | ⟨t', c', as', rfl⟩
    · simp [shapeRun]
    · have h2 : shapeRun (some (.failed t)) (.after t' c' (.err t) :: as') = shapeRun (some .up) as' := by
        simp [shapeRun, shapeStep]
      rw [h2, shapeRun_after_up as' (fun x hx => ha x (by simp [hx]))]

/-! ### `conforms` is exactly "is the behaviour of `eval`" -/

theorem conformsList_run_ok (q : Req) (r : Res) (k : Ctx → List Event → Bool) (hs : List Hook)
    (c c' : Ctx) (rest : List Event) (hr : (runList hs c q).2 = .ok c') :
    conformsList q r k hs c ((runList hs c q).1 ++ rest) = k c' rest := by
  induction hs generalizing c with
  | nil => simp [runList] at hr; simp [conformsList, runList, hr]
  | cons h hs ih =>
    by_cases hf : h.fail = true
    · simp [runList, hf] at hr
    · have hf' : h.fail = false := by simpa using hf
      simp only [runList, hf'] at hr
      simp [runList, hf', conformsList, ih _ hr]

theorem conformsList_run_err (q : Req) (k : Ctx → List Event → Bool) (hs : List Hook)
    (c : Ctx) (e : Nat) (hr : (runList hs c q).2 = .err e) :
    conformsList q (.err e) k hs c (runList hs c q).1 = true := by
  induction hs generalizing c with
  | nil => simp [runList] at hr
  | cons h hs ih =>
    by_cases hf : h.fail = true
    · simp [runList, hf] at hr
      simp [runList, hf, conformsList, hr]
    · have hf' : h.fail = false := by simpa using hf
      simp only [runList, hf'] at hr
      simp [runList, hf', conformsList, ih _ hr]

theorem conforms_eval (s : Serve) (c : Ctx) (q : Req) :
    conforms s c q (eval s c q).1 (eval s c q).2 = true := by
  induction s generalizing c with
  | leaf t r => simp [eval, conforms]
  | before h s ih =>
    by_cases hf : h.fail = true
    · simp [eval_before_fail _ _ _ _ hf, conforms, hf]
    · have hf' : h.fail = false := by simpa using hf
      simp [eval_before_pass _ _ _ _ hf', conforms, hf', ih]
  | beforeList hs s ih =>
    cases hr : (runList hs c q).2 with
    | err e =>
      rw [eval_beforeList_err _ _ _ _ e hr]
      simp only [conforms]
      exact conformsList_run_err _ _ _ _ _ hr
    | ok c' =>
      rw [eval_beforeList_ok _ _ _ c' _ hr]
      simp only [conforms]
      rw [conformsList_run_ok _ _ _ _ _ c' _ hr]
      exact ih c'
  | after s h ih => simp [eval_after, conforms, ih]
  | both h s ih =>
    by_cases hf : h.fail = true
    · simp [eval_both_fail _ _ _ _ hf, conforms, hf]
    · have hf' : h.fail = false := by simpa using hf
      simp [eval_both_pass _ _ _ _ hf', conforms, hf', ih]

theorem conformsList_sound (q : Req) (r : Res) (k : Ctx → List Event → Bool) (hs : List Hook)
    (c : Ctx) (evs : List Event) (hc : conformsList q r k hs c evs = true) :
    (∃ e, (runList hs c q).2 = .err e ∧ evs = (runList hs c q).1 ∧ r = .err e) ∨
    (∃ c' rest, (runList hs c q).2 = .ok c' ∧ evs = (runList hs c q).1 ++ rest ∧ k c' rest = true) := by
  induction hs generalizing c evs with
  | nil => right; exact ⟨c, evs, by simp [runList], by simp [runList], by simpa [conformsList] using hc⟩
  | cons h hs ih =>
    cases evs with
    | nil => simp [conformsList] at hc
    | cons ev rest =>
      cases ev with
      | handler t c1 q1 => simp [conformsList] at hc
      | after t c1 r1 => simp [conformsList] at hc
      | before t c1 q1 f =>
        by_cases hf : h.fail = true
        · simp [conformsList, hf] at hc
          obtain ⟨⟨⟨⟨rfl, rfl⟩, rfl⟩, rfl⟩, rfl, rfl⟩ := hc
          left; exact ⟨h.tag, by simp [runList, hf], by simp [runList, hf], rfl⟩
        · have hf' : h.fail = false := by simpa using hf
          simp [conformsList, hf'] at hc
          obtain ⟨⟨⟨⟨rfl, rfl⟩, rfl⟩, rfl⟩, hc⟩ := hc
          rcases ih _ _ hc with ⟨e, h1, h2, h3⟩ | ⟨c', rest', h1, h2, h3⟩
          · left; exact ⟨e, by simp [runList, hf', h1], by simp [runList, hf', h2], h3⟩
          · right; exact ⟨c', rest', by simp [runList, hf', h1], by simp [runList, hf', h2], h3⟩

theorem eq_dropLast_append_of_getLast? {α} {l : List α} {a : α} (h : l.getLast? = some a) :
    l = l.dropLast ++ [a] := by
  induction l with
  | nil => simp at h
  | cons x xs ih =>
    cases xs with
    | nil => simp at h; simp [h]
    | cons y ys =>
      have : (y :: ys).getLast? = some a := by simpa [List.getLast?_cons_cons] using h
      have := ih this
      simp only [List.dropLast_cons_cons, List.cons_append]
      rw [← this]

theorem conforms_sound (s : Serve) (c : Ctx) (q : Req) (evs : List Event) (r : Res)
    (hc : conforms s c q evs r = true) : eval s c q = (evs, r) := by
  induction s generalizing c evs r with
  | leaf t r0 => simp [conforms] at hc; simp [eval, hc]
  | before h s ih =>
    cases evs with
    | nil => simp [conforms] at hc
    | cons ev rest =>
      cases ev with
      | handler t c1 q1 => simp [conforms] at hc
      | after t c1 r1 => simp [conforms] at hc
      | before t c1 q1 f =>
        by_cases hf : h.fail = true
        · simp [conforms, hf] at hc
          obtain ⟨⟨⟨⟨rfl, rfl⟩, rfl⟩, rfl⟩, rfl, rfl⟩ := hc
          exact eval_before_fail _ _ _ _ hf
        · have hf' : h.fail = false := by simpa using hf
          simp [conforms, hf'] at hc
          obtain ⟨⟨⟨⟨rfl, rfl⟩, rfl⟩, rfl⟩, hc⟩ := hc
          rw [eval_before_pass _ _ _ _ hf', ih _ _ _ hc]
  | beforeList hs s ih =>
    simp only [conforms] at hc
    rcases conformsList_sound _ _ _ _ _ _ hc with ⟨e, h1, h2, h3⟩ | ⟨c', rest, h1, h2, h3⟩
    · rw [eval_beforeList_err _ _ _ _ e h1, h2, h3]
    · rw [eval_beforeList_ok _ _ _ c' _ h1, ih _ _ _ h3, h2]
  | after s h ih =>
    simp only [conforms] at hc
    cases hl : evs.getLast? with
    | none => simp [hl] at hc
    | some ev =>
      cases ev with
      | handler t c1 q1 => simp [hl] at hc
      | before t c1 q1 f => simp [hl] at hc
      | after t c1 rin =>
        simp [hl] at hc
        obtain ⟨⟨⟨rfl, rfl⟩, rfl⟩, hc⟩ := hc
        have := eq_dropLast_append_of_getLast? hl
        rw [eval_after, ih _ _ _ hc]
        simp only
        rw [← this]
  | both h s ih =>
    cases evs with
    | nil => simp [conforms] at hc
    | cons ev rest =>
      cases ev with
      | handler t c1 q1 => simp [conforms] at hc
      | after t c1 r1 => simp [conforms] at hc
      | before t c1 q1 f =>
        by_cases hf : h.fail = true
        · simp [conforms, hf] at hc
          obtain ⟨⟨⟨⟨rfl, rfl⟩, rfl⟩, rfl⟩, rfl, rfl⟩ := hc
          exact eval_both_fail _ _ _ _ hf
        · have hf' : h.fail = false := by simpa using hf
          simp only [conforms, hf'] at hc
          cases hl : rest.getLast? with
          | none => simp [hl] at hc
          | some ev =>
            cases ev with
            | handler t2 c2 q2 => simp [hl] at hc
            | before t2 c2 q2 f2 => simp [hl] at hc
            | after t2 c2 rin =>
              simp [hl] at hc
              obtain ⟨⟨⟨⟨rfl, rfl⟩, rfl⟩, rfl⟩, ⟨⟨rfl, rfl⟩, rfl⟩, hc⟩ := hc
              have := eq_dropLast_append_of_getLast? hl
              rw [eval_both_pass _ _ _ _ hf', ih _ _ _ hc]
              simp only
              rw [← this]

/-! ### the before-hooks of a whole stack behave as one flat list -/

theorem runList_cons_pass (h : Hook) (hs : List Hook) (c : Ctx) (q : Req) (hf : h.fail = false) :
    runList (h :: hs) c q =
      (.before h.tag c q false :: (runList hs (h.edit.apply c) q).1, (runList hs (h.edit.apply c) q).2) := by
  simp [runList, hf]

theorem runList_cons_fail (h : Hook) (hs : List Hook) (c : Ctx) (q : Req) (hf : h.fail = true) :
    runList (h :: hs) c q = ([.before h.tag c q true], .err h.tag) := by
  simp [runList, hf]

theorem filter_isBefore_runList (hs : List Hook) (c : Ctx) (q : Req) :
    (runList hs c q).1.filter Event.isBefore = (runList hs c q).1 := by
  induction hs generalizing c with
  | nil => simp [runList]
  | cons h hs ih =>
    by_cases hf : h.fail = true
    · simp [runList, hf, Event.isBefore]
    · have hf' : h.fail = false := by simpa using hf
      simp only [runList_cons_pass _ _ _ _ hf', List.filter_cons, Event.isBefore, ↓reduceIte, ih]

theorem filter_isHandler_runList (hs : List Hook) (c : Ctx) (q : Req) :
    (runList hs c q).1.filter Event.isHandler = [] := by
  induction hs generalizing c with
  | nil => simp [runList]
  | cons h hs ih =>
    by_cases hf : h.fail = true
    · simp [runList, hf, Event.isHandler]
    · have hf' : h.fail = false := by simpa using hf
      simp only [runList_cons_pass _ _ _ _ hf', List.filter_cons, Event.isHandler, ih]
      simp

/-- What the handler-invocations of a call must be, given the outcome of all before-hooks. -/
def handlerEvents (t : Nat) (q : Req) : BOut → List Event
  | .ok c' => [.handler t c' q]
  | .err _ => []

theorem eval_befores (s : Serve) (c : Ctx) (q : Req) :
    (eval s c q).1.filter Event.isBefore = (runList (befores s) c q).1 ∧
    (eval s c q).1.filter Event.isHandler =
      handlerEvents (handlerTag s) q (runList (befores s) c q).2 := by
  induction s generalizing c with
  | leaf t r => simp [eval, befores, runList, Event.isBefore, Event.isHandler, handlerEvents, handlerTag]
  | before h s ih =>
    by_cases hf : h.fail = true
    · simp [eval_before_fail _ _ _ _ hf, befores, runList_cons_fail _ _ _ _ hf, Event.isBefore,
        Event.isHandler, handlerEvents]
    · have hf' : h.fail = false := by simpa using hf
      have := ih (h.edit.apply c)
      simp [eval_before_pass _ _ _ _ hf', befores, runList_cons_pass _ _ _ _ hf', List.filter_cons,
        this, handlerTag]
  | beforeList hs s ih =>
    simp only [befores, handlerTag]
    rw [runList_append]
    cases hr : (runList hs c q).2 with
    | err e =>
      rw [eval_beforeList_err _ _ _ _ e hr]
      simp [filter_isBefore_runList, filter_isHandler_runList, handlerEvents]
    | ok c' =>
      rw [eval_beforeList_ok _ _ _ c' _ hr]
      have := ih c'
      simp [filter_isBefore_runList, filter_isHandler_runList, this]
  | after s h ih =>
    have := ih c
    simp [eval_after, befores, Event.isBefore, Event.isHandler, this, handlerTag]
  | both h s ih =>
    by_cases hf : h.fail = true
    · simp [eval_both_fail _ _ _ _ hf, befores, runList_cons_fail _ _ _ _ hf, Event.isBefore,
        Event.isHandler, handlerEvents]
    · have hf' : h.fail = false := by simpa using hf
      have := ih (h.edit.apply c)
      simp [eval_both_pass _ _ _ _ hf', befores, runList_cons_pass _ _ _ _ hf', List.filter_cons,
        this, handlerTag]

/-! ### an after-hook's own context edit is invisible -/

theorem runList_withAedit (f : Hook → CtxEdit) (hs : List Hook) (c : Ctx) (q : Req) :
    runList (hs.map fun h => h.withAedit (f h)) c q = runList hs c q := by
  induction hs generalizing c with
  | nil => rfl
  | cons h hs ih =>
    simp only [List.map_cons, runList, ih]
    rfl

theorem eval_setAedits (f : Hook → CtxEdit) (s : Serve) (c : Ctx) (q : Req) :
    eval (setAedits f s) c q = eval s c q := by
  induction s generalizing c with
  | leaf t r => rfl
  | before h s ih => simp [setAedits, eval, Hook.withAedit, ih]
  | beforeList hs s ih => simp [setAedits, eval, runList_withAedit, ih]
  | after s h ih => simp [setAedits, eval, Hook.withAedit, ih]
  | both h s ih => simp [setAedits, eval, Hook.withAedit, ih]

/-! ### the monitor accepts every sequence of model calls -/

theorem foldl_monStep_evs (m : MonSt) (x : Serve × Ctx × Req) (hm : m.cur = some x) (evs : List Event) :
    (evs.map Obs.ev).foldl monStep m = { m with evs := evs.reverse ++ m.evs } := by
  induction evs generalizing m with
  | nil => simp
  | cons e evs ih =>
    simp only [List.map_cons, List.foldl_cons]
    have h1 : monStep m (.ev e) = { m with evs := e :: m.evs } := by simp [monStep, hm]
    rw [h1, ih _ (by simpa using hm)]
    simp

theorem mon_callObs (m : MonSt) (hok : m.ok = true) (hcur : m.cur = none) (hevs : m.evs = [])
    (s : Serve) (c : Ctx) (q : Req) :
    (callObs s c q).foldl monStep m = m := by
  unfold callObs
  simp only [List.foldl_cons, List.foldl_append, List.foldl_nil]
  have h1 : monStep m (.call s c q) = { m with cur := some (s, c, q), evs := [] } := by
    simp [monStep, hcur]
  rw [h1, foldl_monStep_evs _ (s, c, q) rfl]
  simp [monStep, shapeOk_of_shape (eval_shape s c q), conforms_eval]
  cases m; simp_all

end TarpcModel.Hooks

import TarpcModel.Lemmas.ClientBook
/-!
From states to traces: the per-op step of the coupling, the induction over op lists, and the frame facts
(call bodies, handles) the op level needs.
-/
namespace TarpcModel.Client

/-! ### no model function changes the body of a call -/

theorem View.upd_bodies (v : View) (cid : Nat) (g : CallV → CallV) (hg : ∀ c, (g c).body = c.body) :
    (v.upd cid g).calls.map (·.body) = v.calls.map (·.body) := by
  simp only [View.upd, List.map_map]
  apply List.map_congr_left
  intro c _
  by_cases e : c.cid = cid <;> simp [e, hg]

theorem View.send_bodies (v : View) (cid : Nat) (o : Outcome) :
    (v.send cid o).calls.map (·.body) = v.calls.map (·.body) := by
  unfold View.send
  split
  · rfl
  · split
    · rfl
    · exact View.upd_bodies _ _ _ (fun _ => rfl)

theorem bodies_upd_step {v : View} {L : List Nat} {cid : Nat} {g : CallV → CallV} (h : v.calls.map (·.body) = L)
    (hg : ∀ c, (g c).body = c.body) : (v.upd cid g).calls.map (·.body) = L :=
  (View.upd_bodies v cid g hg).trans h

def BodiesAre (L : List Nat) (x : Option Nat) (v : View) : Prop := Inv x v ∧ v.calls.map (·.body) = L

theorem BodiesAre.presD (L : List Nat) : PresD (BodiesAre L) where
  inv := fun h => h.1
  stop := fun o h ho => ⟨Inv.presD.stop o h.1 ho, h.2⟩
  panic := fun t site h => ⟨Inv.presD.panic t site h.1, h.2⟩
  poison := fun h hs => ⟨Inv.presD.poison h.1 hs, h.2⟩
  trunc := fun t h0 h => ⟨Inv.presD.trunc t h0.1 h.1, h.2⟩
  pqPop := fun h hpq => ⟨Inv.presD.pqPop h.1 hpq, h.2⟩
  cqPop := fun h hcq => ⟨Inv.presD.cqPop h.1 hcq, h.2⟩
  infRemove := fun id h => ⟨Inv.presD.infRemove id h.1, h.2⟩
  drop_x := fun h hx => ⟨Inv.presD.drop_x h.1 hx, h.2⟩
  popInsert := fun key rem due h hpq hnc => ⟨Inv.presD.popInsert key rem due h.1 hpq hnc, h.2⟩
  infRearm := fun id key t due h => ⟨Inv.presD.infRearm id key t due h.1, h.2⟩
  sendReqOk := fun t body h hp he hid hb => ⟨Inv.presD.sendReqOk t body h.1 hp he hid hb, h.2⟩
  sendReqFail := fun t body pn t' site h hp he hid hb => ⟨Inv.presD.sendReqFail t body pn t' site h.1 hp he hid hb,
    (View.send_bodies _ _ _).trans h.2⟩
  sendCancel := fun t ok h hc => ⟨Inv.presD.sendCancel t ok h.1 hc, h.2⟩
  send := fun cid o h h1 h2 h3 h4 => ⟨Inv.presD.send cid o h.1 h1 h2 h3 h4, (View.send_bodies _ _ _).trans h.2⟩
  readMiss := fun t id res h hm => ⟨Inv.presD.readMiss t id res h.1 hm, h.2⟩
  readHit := fun t res pn t' site h he => ⟨Inv.presD.readHit t res pn t' site h.1 he, (View.send_bodies _ _ _).trans h.2⟩
  infClear := fun h => ⟨Inv.presD.infClear h.1, h.2⟩
  pqClear := fun h => ⟨Inv.presD.pqClear h.1, h.2⟩
  cqClear := fun h => ⟨Inv.presD.cqClear h.1, h.2⟩

theorem BodiesAre.pres (L : List Nat) : Pres (BodiesAre L) where
  toPresD := BodiesAre.presD L
  assign := fun h hc hp => ⟨Inv.pres.assign h.1 hc hp, by exact bodies_upd_step h.2 (fun _ => rfl)⟩
  enqueue := fun h hc hp => ⟨Inv.pres.enqueue h.1 hc hp, by exact bodies_upd_step h.2 (fun _ => rfl)⟩
  resolveVal := fun now h hc hp hv => ⟨Inv.pres.resolveVal now h.1 hc hp hv, by exact bodies_upd_step h.2 (fun _ => rfl)⟩
  resolveShut := fun now h hc hp => ⟨Inv.pres.resolveShut now h.1 hc hp, by exact bodies_upd_step h.2 (fun _ => rfl)⟩
  guardClose := fun h hc hp => ⟨Inv.pres.guardClose h.1 hc hp, by exact bodies_upd_step h.2 (fun _ => rfl)⟩
  cqPush := fun h hc hp hr => ⟨Inv.pres.cqPush h.1 hc hp hr, h.2⟩
  dropGuarded := fun h hc hp hr => ⟨Inv.pres.dropGuarded h.1 hc hp hr, by exact bodies_upd_step h.2 (fun _ => rfl)⟩
  dropNP := fun h hc hp => ⟨Inv.pres.dropNP h.1 hc hp, by exact bodies_upd_step h.2 (fun _ => rfl)⟩

/-! ### the monitor along a trace -/

theorem foldl_obs_eq (m : Mon C01St) (l : List Obs) :
    (l.reverse.map CEv.obs).foldl (Mon.step chk) m = monOf m l := by
  induction l with
  | nil => rfl
  | cons o l ih =>
    simp only [List.reverse_cons, List.map_append, List.map_cons, List.map_nil, List.foldl_append, List.foldl_cons,
      List.foldl_nil, ih, monOf_cons]

theorem trace_cons (c : Sys) (op : COp) (ops : List COp) :
    trace c (op :: ops) = CEv.op op :: ((stepOp c op).2.map CEv.obs ++ trace (stepOp c op).1 ops) := rfl

theorem Book.endOp_spun (b : Book) : b.endOp.spun = b.spun := by
  unfold Book.endOp
  cases b.curDrop <;> rfl

theorem Book.spun_step_op (b : Book) (o : COp) : (b.step (.op o)).spun = b.spun := by
  unfold Book.step
  simp only
  cases o <;> simp only [] <;> (try split) <;> exact Book.endOp_spun b

/-- once a task span or panicked the monitors stop judging: they accept whatever follows -/
theorem spun_run (evs : List CEv) (m : Mon C01St) (hb : m.bad = none) (hs : m.book.spun = true) :
    (evs.foldl (Mon.step chk) m).bad = none := by
  induction evs generalizing m with
  | nil => exact hb
  | cons e evs ih =>
    simp only [List.foldl_cons]
    have hpre : (m.pre e).spun = true := by
      unfold Mon.pre
      cases e with
      | op o => simp only; rw [Book.endOp_spun]; exact hs
      | obs o => exact hs
    have hres : Mon.res chk m e = (m.st, none) := by unfold Mon.res; rw [hpre]; rfl
    refine ih _ (Mon.step_bad_none.mpr ⟨hb, by rw [hres]⟩) ?_
    rw [Mon.step_book]
    cases e with
    | op o => rw [Book.spun_step_op]; exact hs
    | obs o => rw [Book.spun_step, hs]; rfl

theorem Mon.step_op (m : Mon C01St) (o : COp) :
    (Mon.step chk m (.op o)).book = m.book.step (.op o) ∧ (Mon.step chk m (.op o)).st = m.st ∧
    (Mon.step chk m (.op o)).bad = m.bad := by
  have hres : Mon.res chk m (.op o) = (m.st, none) := by
    unfold Mon.res; split <;> rfl
  refine ⟨Mon.step_book _ _ _, by rw [Mon.step_st, hres], ?_⟩
  rw [Mon.step_bad, hres]
  cases m.bad <;> rfl

theorem Book.curDrop_step_obs (b : Book) (o : Obs) : (b.step (.obs o)).curDrop = b.curDrop := by
  cases o with
  | tSend ep m ok => cases m <;> (try cases ok) <;> rfl
  | tNext ep r => cases r with
    | item m => cases m <;> rfl
    | _ => rfl
  | tReady ep r => cases r <;> rfl
  | tFlush ep r => cases r <;> rfl
  | tClose ep r => cases r <;> rfl
  | ret t r => cases t <;> (try (unfold Book.step; simp only; split)) <;> rfl
  | _ => rfl

theorem monOf_curDrop (m : Mon C01St) (l : List Obs) : (monOf m l).book.curDrop = m.book.curDrop := by
  induction l with
  | nil => rfl
  | cons o l ih => rw [monOf_cons, Mon.step_book, Book.curDrop_step_obs, ih]

theorem Book.curDrop_step_op (b : Book) (o : COp) :
    (b.step (.op o)).curDrop = match o with | .dropCall k _ => some k | _ => none := by
  have h1 : b.endOp.curDrop = none := by unfold Book.endOp; cases b.curDrop <;> rfl
  unfold Book.step
  simp only
  generalize b.endOp = b1 at h1
  cases o <;> simp only [] <;> (try split) <;> first | exact h1 | rfl

/-! ### the book at an op boundary -/

/-- what the previous op (a `drop-call`) left behind -/
def DropDone (v : View) (b : Book) : Prop :=
  ∀ k, b.curDrop = some k → ∀ cv, v.get k = some cv → cv.phase = .resolved ∨ cv.phase = .dropped

theorem Cpl.endOp {x v b used} (hc : Cpl x v b used) (hi : Inv x v) (hd : DropDone v b) : Cpl x v b.endOp used := by
  have key : CallsRel b.endOp.calls v.calls := by
    unfold Book.endOp
    cases hk : b.curDrop with
    | none => exact hc.calls
    | some k =>
      simp only [Book.updCall]
      have := hc.calls.map₂' (fun c => if c.cid == k then (if c.resolved.isNone then { c with dropped := true } else c) else c) id ?_
      · simpa using this
      · intro bc c hmem hr
        simp only [id]
        by_cases e : bc.cid = k
        · simp only [e, beq_self_eq_true, ↓reduceIte]
          by_cases hn : bc.resolved.isNone = true
          · simp only [hn, ↓reduceIte]
            refine ⟨e ▸ hr.cid, hr.body, hr.trace, hr.resolved, fun _ => ?_⟩
            have hg := hi.get_of_mem hmem
            rw [← hr.cid, e] at hg
            have hout : c.outcome = none := by
              rw [← hr.resolved]; simpa using hn
            have hnr : c.phase ≠ .resolved := by
              intro h
              have := (hi.outc k c hg).mpr h
              rw [hout] at this; cases this
            rcases hd k hk c hg with h | h
            · exact absurd h hnr
            · exact h
          · simp only [hn, Bool.false_eq_true, ↓reduceIte]; exact hr
        · simp only [e, beq_iff_eq, ↓reduceIte]; exact hr
  have hh : b.endOp.handles = b.handles := by unfold Book.endOp; cases b.curDrop <;> rfl
  have hn : b.endOp.nextHandle = b.nextHandle := by unfold Book.endOp; cases b.curDrop <;> rfl
  have hs : b.endOp.sends = b.sends := by unfold Book.endOp; cases b.curDrop <;> rfl
  have hr : b.endOp.reads = b.reads := by unfold Book.endOp; cases b.curDrop <;> rfl
  have hcn : b.endOp.cancels = b.cancels := by unfold Book.endOp; cases b.curDrop <;> rfl
  exact {
    calls := key
    bodies := hc.bodies
    spans := hc.spans
    handles := by rw [hh]; exact hc.handles
    nextHandle := by rw [hn]; exact hc.nextHandle
    sends := by rw [hs]; exact hc.sends
    sendsNodup := by rw [hs]; exact hc.sendsNodup
    pqNotSent := by rw [hs]; exact hc.pqNotSent
    xNotSent := by rw [hs]; exact hc.xNotSent
    logSent := by rw [hs]; exact hc.logSent
    cancels := by rw [hcn]; exact hc.cancels
    reads := by rw [hr, hs]; exact hc.reads
    used := hc.used }

/-- `Cpl` only looks at the fields `norm` keeps -/
theorem Cpl.of_fields {x v b b' used} (hc : Cpl x v b used) (h1 : b'.calls = b.calls) (h2 : b'.handles = b.handles)
    (h3 : b'.nextHandle = b.nextHandle) (h4 : b'.sends = b.sends) (h5 : b'.cancels = b.cancels) (h6 : b'.reads = b.reads) :
    Cpl x v b' used where
  calls := by rw [h1]; exact hc.calls
  bodies := hc.bodies
  spans := hc.spans
  handles := by rw [h2]; exact hc.handles
  nextHandle := by rw [h3]; exact hc.nextHandle
  sends := by rw [h4]; exact hc.sends
  sendsNodup := by rw [h4]; exact hc.sendsNodup
  pqNotSent := by rw [h4]; exact hc.pqNotSent
  xNotSent := by rw [h4]; exact hc.xNotSent
  logSent := by rw [h4]; exact hc.logSent
  cancels := by rw [h5]; exact hc.cancels
  reads := by rw [h6, h4]; exact hc.reads
  used := hc.used

theorem Cpl.of_norm {x v b b' used} (hc : Cpl x v b used) (h : b'.norm = b.norm) : Cpl x v b' used :=
  hc.of_fields (show b'.norm.calls = b.norm.calls by rw [h]) (show b'.norm.handles = b.norm.handles by rw [h])
    (show b'.norm.nextHandle = b.norm.nextHandle by rw [h]) (show b'.norm.sends = b.norm.sends by rw [h])
    (show b'.norm.cancels = b.norm.cancels by rw [h]) (show b'.norm.reads = b.norm.reads by rw [h])

/-- `Cpl` does not look at the observations, nor at the queues' receivers -/
theorem Cpl.of_rel {x v b used} (hc : Cpl x v b used) (l : List Obs) : Cpl x { v with rel := l } b used :=
  { hc with }

/-! ### `drop-call` leaves the call resolved or dropped -/

theorem dropFinish_post (s : St) (k : Nat) (cv : CallV) (h : (view (dropFinish s k)).get k = some cv) :
    cv.phase = .resolved ∨ cv.phase = .dropped := by
  unfold dropFinish at h
  cases hg : getCall s k with
  | none =>
    rw [hg] at h
    simp only at h
    rw [view_emit_irr _ _ rfl, view_getCall_none hg] at h; cases h
  | some c =>
    rw [hg] at h
    have hgv := view_getCall_some hg
    have e : view (afterCallGone (updCall s k (fun c => { c with phase := .dropped, woken := false })))
        = (view s).upd k (fun c => { c with phase := .dropped }) := by
      rw [view_afterCallGone]
      exact view_updCall _ _ _ _ (fun _ => rfl) (fun _ => rfl)
    have dropped : (view (afterCallGone (updCall s k (fun c => { c with phase := .dropped, woken := false })))).get k = some cv →
        cv.phase = .dropped := by
      intro h
      rw [e, View.get_upd_self, hgv] at h
      simp only [Option.map_some, Option.some.injEq] at h
      rw [← h]
    have same : (view (emit s .noop)).get k = some cv → cv.phase = c.phase := by
      intro h
      rw [view_emit_irr _ _ rfl, hgv] at h
      injection h with h; rw [← h]; rfl
    simp only at h
    cases hph : c.phase with
    | reserving => rw [hph] at h; exact Or.inr (dropped h)
    | awaiting => rw [hph] at h; exact Or.inr (dropped h)
    | notPolled => rw [hph] at h; exact Or.inr (dropped h)
    | resolved => rw [hph] at h; left; rw [same h, hph]
    | dropped => rw [hph] at h; right; rw [same h, hph]

theorem dropCall_post (s : St) (k : Nat) (at_ : DropAt) (now : Nat) (cv : CallV)
    (h : (view (dropCall s k at_ now)).get k = some cv) : cv.phase = .resolved ∨ cv.phase = .dropped := by
  unfold dropCall at h
  exact dropFinish_post _ _ _ h

/-! ### one op -/

def callBodies : List COp → List Nat
  | [] => []
  | .call _ _ _ b :: ops => b :: callBodies ops
  | _ :: ops => callBodies ops

/-- the ops whose effect on the book is matched by an effect on the model inside the same op -/
def COp.structural : COp → Bool
  | .call _ _ _ _ => true
  | .clone _ => true
  | .dropHandle _ => true
  | _ => false

structure Good (m : Mon C01St) (c : Sys) (ops : List COp) : Prop where
  obs : c.s.obs = []
  j : J m none (view c.s)
  drop : DropDone (view c.s) m.book
  fut : ((view c.s).calls.map (·.body) ++ callBodies ops).Nodup

theorem Book.step_op_fields (b : Book) (op : COp) (h : op.structural = false) :
    (b.step (.op op)).calls = b.endOp.calls ∧ (b.step (.op op)).handles = b.endOp.handles ∧
    (b.step (.op op)).nextHandle = b.endOp.nextHandle ∧ (b.step (.op op)).sends = b.endOp.sends ∧
    (b.step (.op op)).cancels = b.endOp.cancels ∧ (b.step (.op op)).reads = b.endOp.reads := by
  cases op <;> first | (simp [COp.structural] at h; done) | exact ⟨rfl, rfl, rfl, rfl, rfl, rfl⟩

theorem Sys.obs_nil_eq (c : Sys) (h : c.s.obs = []) : ({ c with s := { c.s with obs := [] } } : Sys) = c := by
  cases c with
  | mk s now =>
    cases s
    simp_all

/-- the monitor state after the `op` event, against a model state `v'` with no observations yet -/
theorem Good.opEvent {m : Mon C01St} {c : Sys} {op : COp} {ops : List COp} (g : Good m c (op :: ops)) {v' : View}
    (hi : Inv none v') (hrel' : v'.rel = []) (hp' : v'.poisoned = (view c.s).poisoned)
    (hc' : Cpl none (view c.s) m.book m.st → Cpl none v' (m.book.step (.op op)) m.st) :
    J (Mon.step chk m (.op op)) none v' := by
  obtain ⟨hb1, hs1, hbad1⟩ := Mon.step_op m op
  have hrel : (view c.s).rel = [] := by simp [view, g.obs]
  have hj := g.j
  have hm : monOf m (view c.s).rel = m := by rw [hrel]; rfl
  have hm1 : monOf (Mon.step chk m (.op op)) v'.rel = Mon.step chk m (.op op) := by rw [hrel']; rfl
  refine ⟨hi, by rw [hm1, hbad1]; have := hj.ok; rw [hm] at this; exact this, ?_, ?_⟩
  · intro hp
    rw [hm1, hb1, Book.spun_step_op]
    rw [hp'] at hp
    have := hj.pois hp; rw [hm] at this; exact this
  · rw [hm1, hb1, hs1, Book.spun_step_op]
    have hc := hj.cpl
    rw [hm] at hc
    rcases hc with hc | hc
    · exact Or.inl hc
    · exact Or.inr (hc' hc)

theorem Good.afterOpEvent {m : Mon C01St} {c : Sys} {op : COp} {ops : List COp} (g : Good m c (op :: ops))
    (hop : op.structural = false) : J (Mon.step chk m (.op op)) none (view c.s) := by
  have hrel : (view c.s).rel = [] := by simp [view, g.obs]
  refine g.opEvent g.j.inv hrel rfl (fun hc => ?_)
  obtain ⟨f1, f2, f3, f4, f5, f6⟩ := Book.step_op_fields m.book op hop
  exact (hc.endOp g.j.inv g.drop).of_fields f1 f2 f3 f4 f5 f6

theorem Good.nonStructural {m : Mon C01St} {c : Sys} {op : COp} {ops : List COp} (g : Good m c (op :: ops))
    (hop : op.structural = false) : J (Mon.step chk m (.op op)) none (view (applyOp c op).s) := by
  have hB := g.afterOpEvent hop
  cases op with
  | call _ _ _ _ => simp [COp.structural] at hop
  | clone _ => simp [COp.structural] at hop
  | dropHandle _ => simp [COp.structural] at hop
  | pollCall cid => exact pollCall_pres (J.pres _) hB cid c.now
  | dropCall cid site => exact dropCall_pres (J.pres _) hB cid site c.now
  | pollDispatch => exact pollDispatch_pres (J.presD _) hB c.now
  | dropDispatch => exact dropDispatch_pres (J.presD _) hB
  | injectResp _ _ => rw [view_applyOp_env _ _ trivial]; exact hB
  | injectErr => rw [view_applyOp_env _ _ trivial]; exact hB
  | eof => rw [view_applyOp_env _ _ trivial]; exact hB
  | setReady _ => rw [view_applyOp_env _ _ trivial]; exact hB
  | setFlush _ => rw [view_applyOp_env _ _ trivial]; exact hB
  | fault _ => rw [view_applyOp_env _ _ trivial]; exact hB
  | faultSkip _ => rw [view_applyOp_env _ _ trivial]; exact hB
  | selfWake _ => rw [view_applyOp_env _ _ trivial]; exact hB
  | take _ => rw [view_applyOp_env _ _ trivial]; exact hB
  | advance _ => rw [view_applyOp_env _ _ trivial]; exact hB

theorem Good.opClone {m : Mon C01St} {c : Sys} {h : Nat} {ops : List COp} (g : Good m c (.clone h :: ops)) :
    J (Mon.step chk m (.op (.clone h))) none (view (applyOp c (.clone h)).s) := by
  have hrel : (view c.s).rel = [] := by simp [view, g.obs]
  show J _ none (view (cloneHandle c.s h))
  rw [view_cloneHandle]
  by_cases hh : c.s.handles.contains h = true
  · simp only [hh, ↓reduceIte]
    refine g.opEvent (g.j.inv.of_handles _ _) hrel rfl (fun hc => ?_)
    have he := hc.endOp g.j.inv g.drop
    have h1 : m.book.endOp.handles = c.s.handles := he.handles
    have h2 : m.book.endOp.nextHandle = c.s.nextHandle := he.nextHandle
    have hb : m.book.step (.op (.clone h)) = { m.book.endOp with handles := m.book.endOp.handles ++ [m.book.endOp.nextHandle], nextHandle := m.book.endOp.nextHandle + 1 } := by
      show (if m.book.endOp.handles.contains h then _ else _) = _
      rw [h1, hh]; rfl
    rw [hb]
    exact { he with handles := by show _ ++ [_] = _ ++ [_]; rw [h1, h2], nextHandle := by show _ + 1 = _ + 1; rw [h2] }
  · simp only [hh, Bool.false_eq_true, ↓reduceIte]
    refine g.opEvent g.j.inv hrel rfl (fun hc => ?_)
    have he := hc.endOp g.j.inv g.drop
    have h1 : m.book.endOp.handles = c.s.handles := he.handles
    have hb : m.book.step (.op (.clone h)) = m.book.endOp := by
      show (if m.book.endOp.handles.contains h then _ else _) = _
      rw [h1]; simp only [hh, Bool.false_eq_true, ↓reduceIte]
    rw [hb]; exact he

theorem Good.opDropHandle {m : Mon C01St} {c : Sys} {h : Nat} {ops : List COp} (g : Good m c (.dropHandle h :: ops)) :
    J (Mon.step chk m (.op (.dropHandle h))) none (view (applyOp c (.dropHandle h)).s) := by
  have hrel : (view c.s).rel = [] := by simp [view, g.obs]
  show J _ none (view (dropHandle c.s h))
  rw [view_dropHandle]
  refine g.opEvent (g.j.inv.of_handles _ _) hrel rfl (fun hc => ?_)
  have he := hc.endOp g.j.inv g.drop
  have h1 : m.book.endOp.handles = c.s.handles := he.handles
  have hb : m.book.step (.op (.dropHandle h)) = { m.book.endOp with handles := m.book.endOp.handles.filter (· != h) } := rfl
  rw [hb]
  exact { he with handles := by show List.filter _ _ = List.filter _ _; rw [h1] }

theorem Good.opCall {m : Mon C01St} {c : Sys} {h d : Nat} {tr : Trace} {body : Nat} {ops : List COp}
    (g : Good m c (.call h d tr body :: ops)) (hsp : ∃ n, tr.span = .given n) :
    J (Mon.step chk m (.op (.call h d tr body))) none (view (applyOp c (.call h d tr body)).s) := by
  have hrel : (view c.s).rel = [] := by simp [view, g.obs]
  show J _ none (view (newCall c.s h { deadline := d, trace := tr } body))
  by_cases hh : c.s.handles.contains h = true
  · have hv : view (newCall c.s h { deadline := d, trace := tr } body)
        = { view c.s with calls := (view c.s).calls ++ [CallV.fresh (view c.s).calls.length { deadline := d, trace := tr } body] } := by
      rcases view_newCall c.s h { deadline := d, trace := tr } body with hv | ⟨_, hv⟩
      · unfold newCall at hv ⊢
        simp only [hh, ↓reduceIte] at hv ⊢
        simp [view, CallV.fresh, Call.v]
      · exact hv
    rw [hv]
    refine g.opEvent (g.j.inv.newCall _ _) hrel rfl (fun hc => ?_)
    have he := hc.endOp g.j.inv g.drop
    have h1 : m.book.endOp.handles = c.s.handles := he.handles
    have hb : m.book.step (.op (.call h d tr body)) = { m.book.endOp with calls := m.book.endOp.calls ++ [{ cid := m.book.endOp.calls.length, body := body, deadline := d, trace := tr }] } := by
      have hc2 : m.book.endOp.handles.contains h = true := by rw [h1]; exact hh
      show (if m.book.endOp.handles.contains h then _ else _) = _
      rw [if_pos hc2]
    rw [hb]
    have hget := g.j.inv.get_newCall { deadline := d, trace := tr } body
    refine he.call_step (b' := _) (used' := m.st) ?_ ?_ ?_ rfl rfl rfl rfl rfl rfl rfl (fun r hr => Or.inl hr) rfl ?_ ?_ (fun _ h => Or.inl h)
    · refine he.calls.append₂ ⟨?_, rfl, rfl, rfl, fun h => by cases h⟩
      exact he.calls.length
    · have := g.fut
      simp only [callBodies] at this
      simp only [List.map_append, List.map_cons, List.map_nil, CallV.fresh]
      refine List.Nodup.sublist ?_ this
      exact List.Sublist.append (List.Sublist.refl _) (List.Sublist.cons_cons _ (List.nil_sublist _))
    · intro c' hc'
      simp only [List.mem_append, List.mem_singleton] at hc'
      rcases hc' with hc' | rfl
      · exact he.spans c' hc'
      · exact hsp
    · intro i c0 hg0 hen
      refine ⟨c0, ?_, hen, rfl, rfl, rfl, fun h => h⟩
      rw [hget, if_neg (Nat.ne_of_lt (g.j.inv.cidLt i c0 hg0))]; exact hg0
    · intro i c' o res hg' hv' _
      rw [hget] at hg'
      split at hg'
      · injection hg' with hg'; rw [← hg'] at hv'; simp [CallV.fresh] at hv'
      · exact Or.inl ⟨c', hg', hv', rfl⟩
  · have hv : view (newCall c.s h { deadline := d, trace := tr } body) = view c.s := by
      unfold newCall
      simp only [hh, Bool.false_eq_true, ↓reduceIte]
      exact view_emit_irr _ _ rfl
    rw [hv]
    refine g.opEvent g.j.inv hrel rfl (fun hc => ?_)
    have he := hc.endOp g.j.inv g.drop
    have h1 : m.book.endOp.handles = c.s.handles := he.handles
    have hb : m.book.step (.op (.call h d tr body)) = m.book.endOp := by
      show (if m.book.endOp.handles.contains h then _ else _) = _
      rw [h1]; simp only [hh, Bool.false_eq_true, ↓reduceIte]
    rw [hb]; exact he

/-- callers hand in span ids of their own (the code under test draws the `fresh` ones) -/
def SpanOk : COp → Prop
  | .call _ _ tr _ => ∃ n, tr.span = .given n
  | _ => True

theorem Good.applied {m : Mon C01St} {c : Sys} {op : COp} {ops : List COp} (g : Good m c (op :: ops)) (hs : SpanOk op) :
    J (Mon.step chk m (.op op)) none (view (applyOp c op).s) := by
  cases op with
  | call h d tr b => exact g.opCall hs
  | clone h => exact g.opClone
  | dropHandle h => exact g.opDropHandle
  | pollCall cid => exact g.nonStructural rfl
  | dropCall cid site => exact g.nonStructural rfl
  | pollDispatch => exact g.nonStructural rfl
  | dropDispatch => exact g.nonStructural rfl
  | injectResp _ _ => exact g.nonStructural rfl
  | injectErr => exact g.nonStructural rfl
  | eof => exact g.nonStructural rfl
  | setReady _ => exact g.nonStructural rfl
  | setFlush _ => exact g.nonStructural rfl
  | fault _ => exact g.nonStructural rfl
  | faultSkip _ => exact g.nonStructural rfl
  | selfWake _ => exact g.nonStructural rfl
  | take _ => exact g.nonStructural rfl
  | advance _ => exact g.nonStructural rfl

theorem Good.fut_step {m : Mon C01St} {c : Sys} {op : COp} {ops : List COp} (g : Good m c (op :: ops)) :
    ((view (applyOp c op).s).calls.map (·.body) ++ callBodies ops).Nodup := by
  have hi := g.j.inv
  have hf := g.fut
  have same : ∀ {op'}, callBodies (op' :: ops) = callBodies ops →
      (view (applyOp c op').s).calls.map (·.body) = (view c.s).calls.map (·.body) →
      ((view (applyOp c op').s).calls.map (·.body) ++ callBodies ops).Nodup →
      ((view (applyOp c op').s).calls.map (·.body) ++ callBodies ops).Nodup := fun _ _ h => h
  cases op with
  | call h d tr b =>
    simp only [callBodies] at hf
    show ((view (newCall c.s h { deadline := d, trace := tr } b)).calls.map (·.body) ++ callBodies ops).Nodup
    rcases view_newCall c.s h { deadline := d, trace := tr } b with hv | ⟨_, hv⟩
    · rw [hv]
      refine List.Nodup.sublist ?_ hf
      exact List.Sublist.append (List.Sublist.refl _) (List.Sublist.cons _ (List.Sublist.refl _))
    · rw [hv]
      simp only [List.map_append, List.map_cons, List.map_nil, CallV.fresh, List.append_assoc, List.cons_append, List.nil_append]
      exact hf
  | pollCall cid =>
    have := (pollCall_pres (BodiesAre.pres _) (s := c.s) ⟨hi, rfl⟩ cid c.now).2
    show ((view (pollCall c.s cid c.now)).calls.map (·.body) ++ callBodies ops).Nodup
    rw [this]; exact hf
  | dropCall cid site =>
    have := (dropCall_pres (BodiesAre.pres _) (s := c.s) ⟨hi, rfl⟩ cid site c.now).2
    show ((view (dropCall c.s cid site c.now)).calls.map (·.body) ++ callBodies ops).Nodup
    rw [this]; exact hf
  | pollDispatch =>
    have := (pollDispatch_pres (BodiesAre.presD _) (s := c.s) ⟨hi, rfl⟩ c.now).2
    show ((view (pollDispatch c.s c.now)).calls.map (·.body) ++ callBodies ops).Nodup
    rw [this]; exact hf
  | dropDispatch =>
    have := (dropDispatch_pres (BodiesAre.presD _) (s := c.s) (x := none) ⟨hi, rfl⟩).2
    show ((view (dropDispatch c.s)).calls.map (·.body) ++ callBodies ops).Nodup
    rw [this]; exact hf
  | clone h =>
    show ((view (cloneHandle c.s h)).calls.map (·.body) ++ callBodies ops).Nodup
    rw [view_cloneHandle]; split <;> exact hf
  | dropHandle h =>
    show ((view (TarpcModel.Client.dropHandle c.s h)).calls.map (·.body) ++ callBodies ops).Nodup
    rw [view_dropHandle]; exact hf
  | injectResp _ _ => rw [view_applyOp_env _ _ trivial]; exact hf
  | injectErr => rw [view_applyOp_env _ _ trivial]; exact hf
  | eof => rw [view_applyOp_env _ _ trivial]; exact hf
  | setReady _ => rw [view_applyOp_env _ _ trivial]; exact hf
  | setFlush _ => rw [view_applyOp_env _ _ trivial]; exact hf
  | fault _ => rw [view_applyOp_env _ _ trivial]; exact hf
  | faultSkip _ => rw [view_applyOp_env _ _ trivial]; exact hf
  | selfWake _ => rw [view_applyOp_env _ _ trivial]; exact hf
  | take _ => rw [view_applyOp_env _ _ trivial]; exact hf
  | advance _ => rw [view_applyOp_env _ _ trivial]; exact hf

theorem MEq.spun {m m' : Mon C01St} (h : MEq m m') : m.book.spun = m'.book.spun := by
  have := congrArg Book.spun h.book; exact this

theorem MEq.curDrop {m m' : Mon C01St} (h : MEq m m') : m.book.curDrop = m'.book.curDrop := by
  have := congrArg Book.curDrop h.book; exact this

/-- One op of a script: the monitors stay content; unless a task span or panicked the coupling is re-established. -/
theorem Good.step {m : Mon C01St} {c : Sys} {op : COp} {ops : List COp} (g : Good m c (op :: ops)) (hs : SpanOk op) :
    (((stepOp c op).2.map CEv.obs).foldl (Mon.step chk) (Mon.step chk m (.op op))).bad = none ∧
    ((((stepOp c op).2.map CEv.obs).foldl (Mon.step chk) (Mon.step chk m (.op op))).book.spun = true ∨
      Good (((stepOp c op).2.map CEv.obs).foldl (Mon.step chk) (Mon.step chk m (.op op))) (stepOp c op).1 ops) := by
  have hc0 := Sys.obs_nil_eq c g.obs
  unfold stepOp
  simp only [hc0]
  rw [foldl_obs_eq]
  generalize hm1 : Mon.step chk m (.op op) = m1
  have hA : J m1 none (view (applyOp c op).s) := hm1 ▸ g.applied hs
  have hfut := g.fut_step
  generalize hs1 : (applyOp c op).s = s1 at hA hfut
  have heq : MEq (monOf m1 s1.obs) (monOf m1 (view s1).rel) := monOf_filter m1 s1.obs
  refine ⟨by rw [heq.bad]; exact hA.ok, ?_⟩
  by_cases hsp : (monOf m1 s1.obs).book.spun = true
  · exact Or.inl hsp
  · right
    have hsp2 : ¬ (monOf m1 (view s1).rel).book.spun = true := by rw [← heq.spun]; exact hsp
    have hcpl : Cpl none (view s1) (monOf m1 (view s1).rel).book (monOf m1 (view s1).rel).st := by
      rcases hA.cpl with h | h
      · exact absurd h hsp2
      · exact h
    refine ⟨rfl, ?_, ?_, ?_⟩
    · have hv : view { s1 with obs := [] } = { view s1 with rel := [] } := by simp [view]
      show J _ none (view { s1 with obs := [] })
      rw [hv]
      refine ⟨hA.inv.of_rel _, by show (monOf m1 s1.obs).bad = none; rw [heq.bad]; exact hA.ok, ?_, ?_⟩
      · intro hp
        show (monOf m1 s1.obs).book.spun = true
        rw [heq.spun]; exact hA.pois hp
      · right
        show Cpl none { view s1 with rel := [] } (monOf m1 s1.obs).book (monOf m1 s1.obs).st
        rw [heq.st]
        exact (hcpl.of_norm heq.book).of_rel []
    · intro k hk cv hcv
      have hv : view { s1 with obs := [] } = { view s1 with rel := [] } := by simp [view]
      have hcv' : (view s1).get k = some cv := by
        have : (view { s1 with obs := [] }).get k = some cv := hcv
        rw [hv] at this; exact this
      have hk' : m1.book.curDrop = some k := by
        have : (monOf m1 s1.obs).book.curDrop = some k := hk
        rw [monOf_curDrop] at this; exact this
      rw [← hm1, (Mon.step_op m op).1, Book.curDrop_step_op] at hk'
      cases op with
      | dropCall k' site =>
        simp only [Option.some.injEq] at hk'
        subst hk'
        have : s1 = dropCall c.s k' site c.now := hs1.symm
        rw [this] at hcv'
        exact dropCall_post _ _ _ _ _ hcv'
      | _ => simp at hk'
    · have hv : view { s1 with obs := [] } = { view s1 with rel := [] } := by simp [view]
      show ((view { s1 with obs := [] }).calls.map (·.body) ++ callBodies ops).Nodup
      rw [hv]; exact hfut

/-! ### all ops -/

theorem run_ok (ops : List COp) (m : Mon C01St) (c : Sys) (hbad : m.bad = none)
    (h : m.book.spun = true ∨ Good m c ops) (hsp : ∀ op ∈ ops, SpanOk op) :
    ((trace c ops).foldl (Mon.step chk) m).bad = none := by
  induction ops generalizing m c with
  | nil => exact hbad
  | cons op ops ih =>
    rcases h with h | g
    · exact spun_run _ m hbad h
    · rw [trace_cons, List.foldl_cons, List.foldl_append]
      obtain ⟨hb', hg'⟩ := g.step (hsp op List.mem_cons_self)
      exact ih _ _ hb' hg' (fun op' h' => hsp op' (List.mem_cons_of_mem _ h'))

theorem init_good (mi b tc : Nat) (coupled : Bool) (ops : List COp) (hb : (callBodies ops).Nodup) :
    Good ({ st := [] } : Mon C01St) (initSys mi b tc coupled) ops := by
  refine ⟨rfl, ⟨init_inv _ _ _ _ _, rfl, fun h => (by cases h), Or.inr ?_⟩, fun k h => (by cases h), by simpa [initSys, init, view] using hb⟩
  constructor <;> simp [view, init, initSys, monOf, CallsRel, reqIds, cancelIds, View.get]

/-- The combined monitor accepts every trace of the model (for scripts whose calls have pairwise distinct bodies
and caller-supplied span ids). -/
theorem combined_accepts (mi b tc : Nat) (coupled : Bool) (ops : List COp) (hb : (callBodies ops).Nodup)
    (hsp : ∀ op ∈ ops, SpanOk op) :
    (Mon.run chk [] (trace (initSys mi b tc coupled) ops)).bad = none :=
  run_ok ops _ _ rfl (Or.inr (init_good mi b tc coupled ops hb)) hsp

end TarpcModel.Client

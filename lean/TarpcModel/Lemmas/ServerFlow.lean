import TarpcModel.Server.Run
import TarpcModel.Lemmas.DelayQFacts
import TarpcModel.Lemmas.ServerExpire
/-!
Control-flow facts about the server model (`Server/Model.lean`): frame lemmas for the primitive
updates, a staged presentation of `basePollNext` (one iteration = `bpStep`), generic
"every primitive keeps `P` ⇒ the pump keeps `P`" lemmas, and the transport-contract facts
(`send-without-ready`, flush before idle, failure tags, fuel adequacy).
-/
namespace TarpcModel

/-! ## `SimT` -/
namespace SimT

/-- the owner never sent without a preceding `poll_ready → Ready` -/
def NoSWR (t : SimT) : Prop := "send-without-ready" ∉ t.violations

@[simp] theorem useAfter_gotReady (t : SimT) (w : String) : (t.useAfter w).gotReady = t.gotReady := by
  unfold useAfter violate; repeat' split
  all_goals rfl

@[simp] theorem useAfter_buffered (t : SimT) (w : String) : (t.useAfter w).buffered = t.buffered := by
  unfold useAfter violate; repeat' split
  all_goals rfl

@[simp] theorem useAfter_inbound (t : SimT) (w : String) : (t.useAfter w).inbound = t.inbound := by
  unfold useAfter violate; repeat' split
  all_goals rfl

theorem useAfter_violations (t : SimT) (w : String) :
    (t.useAfter w).violations = t.violations ∨ (t.useAfter w).violations = (w ++ "-after-failure") :: t.violations
    ∨ (t.useAfter w).violations = (w ++ "-after-close") :: t.violations := by
  unfold useAfter violate; repeat' split
  all_goals simp

theorem NoSWR_useAfter {t : SimT} (h : NoSWR t) (w : String) (h1 : "send-without-ready" ≠ w ++ "-after-failure")
    (h2 : "send-without-ready" ≠ w ++ "-after-close") : NoSWR (t.useAfter w) := by
  unfold NoSWR at *
  rcases useAfter_violations t w with h' | h' | h' <;> rw [h'] <;> simp [h, h1, h2]

/-! ### fault countdown: `fires` / `letThrough` -/

@[simp] theorem letThrough_cap (t : SimT) (a : Bool) : (t.letThrough a).cap = t.cap := by
  unfold letThrough; split <;> rfl

@[simp] theorem letThrough_coupled (t : SimT) (a : Bool) : (t.letThrough a).coupled = t.coupled := by
  unfold letThrough; split <;> rfl

@[simp] theorem letThrough_buffered (t : SimT) (a : Bool) : (t.letThrough a).buffered = t.buffered := by
  unfold letThrough; split <;> rfl

@[simp] theorem letThrough_wire (t : SimT) (a : Bool) : (t.letThrough a).wire = t.wire := by
  unfold letThrough; split <;> rfl

@[simp] theorem letThrough_sentLog (t : SimT) (a : Bool) : (t.letThrough a).sentLog = t.sentLog := by
  unfold letThrough; split <;> rfl

@[simp] theorem letThrough_inbound (t : SimT) (a : Bool) : (t.letThrough a).inbound = t.inbound := by
  unfold letThrough; split <;> rfl

@[simp] theorem letThrough_eof (t : SimT) (a : Bool) : (t.letThrough a).eof = t.eof := by
  unfold letThrough; split <;> rfl

@[simp] theorem letThrough_readyOpen (t : SimT) (a : Bool) : (t.letThrough a).readyOpen = t.readyOpen := by
  unfold letThrough; split <;> rfl

@[simp] theorem letThrough_flushOpen (t : SimT) (a : Bool) : (t.letThrough a).flushOpen = t.flushOpen := by
  unfold letThrough; split <;> rfl

@[simp] theorem letThrough_faultReady (t : SimT) (a : Bool) : (t.letThrough a).faultReady = t.faultReady := by
  unfold letThrough; split <;> rfl

@[simp] theorem letThrough_faultSend (t : SimT) (a : Bool) : (t.letThrough a).faultSend = t.faultSend := by
  unfold letThrough; split <;> rfl

@[simp] theorem letThrough_faultFlush (t : SimT) (a : Bool) : (t.letThrough a).faultFlush = t.faultFlush := by
  unfold letThrough; split <;> rfl

@[simp] theorem letThrough_faultClose (t : SimT) (a : Bool) : (t.letThrough a).faultClose = t.faultClose := by
  unfold letThrough; split <;> rfl

@[simp] theorem letThrough_faultNext (t : SimT) (a : Bool) : (t.letThrough a).faultNext = t.faultNext := by
  unfold letThrough; split <;> rfl

@[simp] theorem letThrough_selfWake (t : SimT) (a : Bool) : (t.letThrough a).selfWake = t.selfWake := by
  unfold letThrough; split <;> rfl

@[simp] theorem letThrough_closed (t : SimT) (a : Bool) : (t.letThrough a).closed = t.closed := by
  unfold letThrough; split <;> rfl

@[simp] theorem letThrough_failed (t : SimT) (a : Bool) : (t.letThrough a).failed = t.failed := by
  unfold letThrough; split <;> rfl

@[simp] theorem letThrough_gotReady (t : SimT) (a : Bool) : (t.letThrough a).gotReady = t.gotReady := by
  unfold letThrough; split <;> rfl

@[simp] theorem letThrough_readWaker (t : SimT) (a : Bool) : (t.letThrough a).readWaker = t.readWaker := by
  unfold letThrough; split <;> rfl

@[simp] theorem letThrough_writeWaker (t : SimT) (a : Bool) : (t.letThrough a).writeWaker = t.writeWaker := by
  unfold letThrough; split <;> rfl

@[simp] theorem letThrough_violations (t : SimT) (a : Bool) : (t.letThrough a).violations = t.violations := by
  unfold letThrough; split <;> rfl

@[simp] theorem letThrough_isReadyNow (t : SimT) (a : Bool) : (t.letThrough a).isReadyNow = t.isReadyNow := by
  unfold isReadyNow; simp

@[simp] theorem letThrough_false (t : SimT) : t.letThrough false = t := rfl

theorem fires_false (t : SimT) : t.fires false = false := rfl

/-- the three outcomes of `poll_ready`: the armed fault fires; ready; pending (waker registered) -/
theorem pollReady_cases (t : SimT) :
    ((t.useAfter "ready").fires (t.useAfter "ready").faultReady = true ∧
      t.pollReady = ({ t.useAfter "ready" with faultReady := false, failed := true }, .err, false)) ∨
    ((t.useAfter "ready").fires (t.useAfter "ready").faultReady = false ∧ (t.useAfter "ready").isReadyNow = true ∧
      t.pollReady = ({ (t.useAfter "ready").letThrough (t.useAfter "ready").faultReady with gotReady := true }, .ready, false)) ∨
    ((t.useAfter "ready").fires (t.useAfter "ready").faultReady = false ∧ (t.useAfter "ready").isReadyNow = false ∧
      t.pollReady = ({ (t.useAfter "ready").letThrough (t.useAfter "ready").faultReady with writeWaker := true }, .pending, false)) := by
  unfold pollReady
  generalize t.useAfter "ready" = u
  cases hf : u.fires u.faultReady
  · cases hr : u.isReadyNow
    · right; right; simp [hf, hr]
    · right; left; simp [hf, hr]
  · left; simp [hf]

theorem NoSWR_letThrough {t : SimT} (h : NoSWR t) (a : Bool) : NoSWR (t.letThrough a) := by
  unfold NoSWR at *; simpa using h

theorem NoSWR_pollReady {t : SimT} (h : NoSWR t) : NoSWR t.pollReady.1 := by
  have := NoSWR_useAfter h "ready" (by decide) (by decide)
  rcases pollReady_cases t with ⟨_, he⟩ | ⟨_, _, he⟩ | ⟨_, _, he⟩ <;> rw [he]
  · exact this
  · exact NoSWR_letThrough this _
  · exact NoSWR_letThrough this _

theorem pollReady_ready {t : SimT} (h : t.pollReady.2.1 = .ready) : t.pollReady.1.gotReady = true := by
  rcases pollReady_cases t with ⟨_, he⟩ | ⟨_, _, he⟩ | ⟨_, _, he⟩ <;> rw [he] at h ⊢ <;> (try cases h) <;> (try rfl)

theorem pollReady_gotReady {t : SimT} (h : t.gotReady = true) : t.pollReady.1.gotReady = true := by
  rcases pollReady_cases t with ⟨_, he⟩ | ⟨_, _, he⟩ | ⟨_, _, he⟩ <;> rw [he] <;> simp [h]

@[simp] theorem pollReady_inbound (t : SimT) : t.pollReady.1.inbound = t.inbound := by
  rcases pollReady_cases t with ⟨_, he⟩ | ⟨_, _, he⟩ | ⟨_, _, he⟩ <;> rw [he] <;> simp

/-- the outcomes of `poll_flush`: the armed fault fires; blocked (pending, waker registered); drained -/
theorem pollFlush_cases (t : SimT) :
    ((t.useAfter "flush").fires (t.useAfter "flush").faultFlush = true ∧
      t.pollFlush = ({ t.useAfter "flush" with faultFlush := false, failed := true }, .err, false)) ∨
    ((t.useAfter "flush").fires (t.useAfter "flush").faultFlush = false ∧
      t.pollFlush = ({ (t.useAfter "flush").letThrough (t.useAfter "flush").faultFlush with writeWaker := true }, .pending, false)) ∨
    ((t.useAfter "flush").fires (t.useAfter "flush").faultFlush = false ∧
      t.pollFlush = (((t.useAfter "flush").letThrough (t.useAfter "flush").faultFlush).drain.1, .ready,
        ((t.useAfter "flush").letThrough (t.useAfter "flush").faultFlush).drain.2)) := by
  unfold pollFlush
  generalize t.useAfter "flush" = u
  cases hf : u.fires u.faultFlush
  · by_cases h2 : (u.coupled && !u.flushOpen && !u.buffered.isEmpty) = true
    · right; left; simp [hf, h2]
    · right; right; simp [hf, h2]
  · left; simp [hf]

theorem drain_fst (t : SimT) :
    t.drain.1 = { t with wire := t.wire ++ t.buffered, buffered := [] } ∨
    t.drain.1 = { t with wire := t.wire ++ t.buffered, buffered := [], writeWaker := false } := by
  unfold drain; simp only; split
  · right; rfl
  · left; rfl

theorem NoSWR_pollFlush {t : SimT} (h : NoSWR t) : NoSWR t.pollFlush.1 := by
  have := NoSWR_letThrough (NoSWR_useAfter h "flush" (by decide) (by decide)) (t.useAfter "flush").faultFlush
  rcases pollFlush_cases t with ⟨_, he⟩ | ⟨_, he⟩ | ⟨_, he⟩ <;> rw [he]
  · exact NoSWR_useAfter h "flush" (by decide) (by decide)
  · exact this
  · simp only
    rcases drain_fst ((t.useAfter "flush").letThrough (t.useAfter "flush").faultFlush) with hd | hd <;> rw [hd] <;> exact this

@[simp] theorem pollFlush_gotReady (t : SimT) : t.pollFlush.1.gotReady = t.gotReady := by
  rcases pollFlush_cases t with ⟨_, he⟩ | ⟨_, he⟩ | ⟨_, he⟩ <;> rw [he] <;> simp
  rcases drain_fst ((t.useAfter "flush").letThrough (t.useAfter "flush").faultFlush) with hd | hd <;> rw [hd] <;> simp

@[simp] theorem pollFlush_inbound (t : SimT) : t.pollFlush.1.inbound = t.inbound := by
  rcases pollFlush_cases t with ⟨_, he⟩ | ⟨_, he⟩ | ⟨_, he⟩ <;> rw [he] <;> simp
  rcases drain_fst ((t.useAfter "flush").letThrough (t.useAfter "flush").faultFlush) with hd | hd <;> rw [hd] <;> simp

/-- `poll_flush → Pending` leaves the owner's waker registered. -/
theorem pollFlush_pending {t : SimT} (h : t.pollFlush.2.1 = .pending) : t.pollFlush.1.writeWaker = true := by
  rcases pollFlush_cases t with ⟨_, he⟩ | ⟨_, he⟩ | ⟨_, he⟩ <;> rw [he] at h ⊢ <;> (try cases h) <;> (try rfl)

@[simp] theorem drain_buffered (t : SimT) : t.drain.1.buffered = [] := by
  unfold drain; simp only; split <;> rfl

/-- `poll_flush → Ready` leaves nothing buffered. -/
theorem pollFlush_ready {t : SimT} (h : t.pollFlush.2.1 = .ready) : t.pollFlush.1.buffered = [] := by
  rcases pollFlush_cases t with ⟨_, he⟩ | ⟨_, he⟩ | ⟨_, he⟩ <;> rw [he] at h ⊢ <;> (try cases h)
  exact drain_buffered _

theorem NoSWR_startSend {t : SimT} (h : NoSWR t) (hg : t.gotReady = true) (m : Msg) : NoSWR (t.startSend m).1 := by
  have := NoSWR_useAfter h "send" (by decide) (by decide)
  unfold startSend
  simp only [useAfter_gotReady, hg, if_true]
  split
  · exact this
  · exact NoSWR_letThrough this _

@[simp] theorem startSend_inbound (t : SimT) (m : Msg) : (t.startSend m).1.inbound = t.inbound := by
  unfold startSend violate
  simp only
  repeat' split
  all_goals simp

/-- the write side of the transport: everything `pollNext` leaves alone -/
def wside (t : SimT) :=
  (t.cap, t.coupled, t.buffered, t.wire, t.sentLog, t.readyOpen, t.flushOpen, t.faultReady, t.faultSend,
   t.faultFlush, t.faultClose, t.closed, t.failed, t.gotReady, t.writeWaker, t.violations)

theorem wside_letThrough (t : SimT) (a : Bool) : wside (t.letThrough a) = wside t := by
  unfold letThrough; split <;> rfl

theorem wside_pollNext (t : SimT) : wside t.pollNext.1 = wside t := by
  unfold SimT.pollNext
  split
  · rfl
  · simp only
    rw [← wside_letThrough t t.faultNext]
    generalize t.letThrough t.faultNext = u
    split <;> try rfl
    split <;> rfl

theorem wside_gotReady {t t' : SimT} (h : wside t' = wside t) : t'.gotReady = t.gotReady := by
  simp only [wside, Prod.mk.injEq] at h; exact h.2.2.2.2.2.2.2.2.2.2.2.2.2.1

theorem wside_violations {t t' : SimT} (h : wside t' = wside t) : t'.violations = t.violations := by
  simp only [wside, Prod.mk.injEq] at h; exact h.2.2.2.2.2.2.2.2.2.2.2.2.2.2.2

theorem wside_buffered {t t' : SimT} (h : wside t' = wside t) : t'.buffered = t.buffered := by
  simp only [wside, Prod.mk.injEq] at h; exact h.2.2.1

theorem wside_writeWaker {t t' : SimT} (h : wside t' = wside t) : t'.writeWaker = t.writeWaker := by
  simp only [wside, Prod.mk.injEq] at h; exact h.2.2.2.2.2.2.2.2.2.2.2.2.2.2.1

/-- `poll_next`, with the state after the fault countdown named -/
theorem pollNext_cases (t : SimT) :
    (t.fires t.faultNext = true ∧ t.pollNext = ({ t with faultNext := false }, .err)) ∨
    (t.fires t.faultNext = false ∧ ∃ u : SimT, u = t.letThrough t.faultNext ∧ u.inbound = t.inbound ∧
      t.pollNext = (match u.inbound with
        | .msg m :: rest => ({ u with inbound := rest }, .item m)
        | .err :: rest => ({ u with inbound := rest }, .err)
        | [] => if u.eof then (u, .eof) else ({ u with readWaker := true }, .pending))) := by
  unfold SimT.pollNext
  cases hf : t.fires t.faultNext
  · right
    refine ⟨rfl, t.letThrough t.faultNext, rfl, by simp, ?_⟩
    rfl
  · left; exact ⟨rfl, by simp⟩

theorem pollNext_inbound_le (t : SimT) : t.pollNext.1.inbound.length ≤ t.inbound.length := by
  rcases pollNext_cases t with ⟨_, he⟩ | ⟨_, u, _, hi, he⟩ <;> rw [he]
  · simp
  · rw [← hi]
    repeat' split
    all_goals simp_all

theorem pollNext_inbound_lt {t : SimT} {m : Msg} (h : t.pollNext.2 = .item m) :
    t.pollNext.1.inbound.length < t.inbound.length := by
  rcases pollNext_cases t with ⟨_, he⟩ | ⟨_, u, _, hi, he⟩ <;> rw [he] at h ⊢
  · cases h
  · rw [← hi]
    repeat' split at h
    all_goals simp_all

end SimT

namespace Server.Flow
open TarpcModel

open Lean in
/-- `frames name binders : e ~ s => f₁ f₂ … by tac` states `e.fᵢ = s.fᵢ` (simp lemmas `name_fᵢ`). -/
macro "frames " n:ident bs:bracketedBinder* " : " e:term " ~ " s:term " => " flds:ident+ " by " tac:tacticSeq : command => do
  let cmds ← flds.mapM fun fld => do
    let nm := mkIdent (n.getId.appendAfter ("_" ++ fld.getId.toString))
    `(@[simp] theorem $nm $bs* : ($e).$fld:ident = ($s).$fld:ident := by $tac)
  return ⟨mkNullNode cmds⟩

/-! ## frame lemmas for the primitive updates -/

frames emit (s : St) (o : Obs) : emit s o ~ s =>
  sidx limit ensureLoop throttleAfterRead inflight timers cancelQ cancelRxWaker respQ readFused execs done dropped
  poisoned t rqWaiters rqAssigned rqAvail nextVis
  by rfl

@[simp] theorem emit_obs (s : St) (o : Obs) : (emit s o).obs = o :: s.obs := rfl

theorem emitViolations_eq (s : St) (n : Nat) : ∃ o, emitViolations s n = { s with obs := o } := by
  unfold emitViolations
  generalize ((s.t.violations.take (s.t.violations.length - n)).reverse) = l
  induction l generalizing s with
  | nil => exact ⟨s.obs, rfl⟩
  | cons a l ih =>
    simp only [List.foldl_cons]
    obtain ⟨o, h⟩ := ih (emit s (.tViolation (tid s) a))
    exact ⟨o, by rw [h]; rfl⟩

frames emitViolations (s : St) (n : Nat) : emitViolations s n ~ s =>
  sidx limit ensureLoop throttleAfterRead inflight timers cancelQ cancelRxWaker respQ readFused execs done dropped
  poisoned t rqWaiters rqAssigned rqAvail nextVis
  by (obtain ⟨o, h⟩ := emitViolations_eq s n; rw [h])

frames wakeServer (s : St) : wakeServer s ~ s =>
  sidx limit ensureLoop throttleAfterRead inflight timers cancelQ cancelRxWaker respQ readFused execs done dropped
  poisoned t rqWaiters rqAssigned rqAvail nextVis
  by (unfold wakeServer; split <;> rfl)

frames updExec (s : St) (r : Nat) (f : Exec → Exec) : updExec s r f ~ s =>
  sidx limit ensureLoop throttleAfterRead inflight timers cancelQ cancelRxWaker respQ readFused done dropped
  poisoned t rqWaiters rqAssigned rqAvail nextVis obs
  by rfl

frames wakeExec (s : St) (r : Nat) : wakeExec s r ~ s =>
  sidx limit ensureLoop throttleAfterRead inflight timers cancelQ cancelRxWaker respQ readFused done dropped
  poisoned t rqWaiters rqAssigned rqAvail nextVis
  by (unfold wakeExec; repeat' split) <;> rfl

frames abortExec (s : St) (r : Nat) : abortExec s r ~ s =>
  sidx limit ensureLoop throttleAfterRead inflight timers cancelQ cancelRxWaker respQ readFused done dropped
  poisoned t rqWaiters rqAssigned rqAvail nextVis
  by (unfold abortExec; repeat' split) <;> simp

/-! ### transport calls -/

theorem tReady_t (s : St) : (tReady s).1.t = s.t.pollReady.1 := by
  unfold tReady
  simp only
  split <;> simp

theorem tReady_res (s : St) : (tReady s).2 = s.t.pollReady.2.1 := by
  unfold tReady
  simp

frames tReady (s : St) : (tReady s).1 ~ s =>
  sidx limit ensureLoop throttleAfterRead inflight timers cancelQ cancelRxWaker respQ readFused execs done dropped
  poisoned rqWaiters rqAssigned rqAvail nextVis
  by (unfold tReady; simp only; split <;> simp)

theorem tFlush_t (s : St) : (tFlush s).1.t = s.t.pollFlush.1 := by
  unfold tFlush
  simp only
  split <;> simp

theorem tFlush_res (s : St) : (tFlush s).2 = s.t.pollFlush.2.1 := by
  unfold tFlush
  simp

frames tFlush (s : St) : (tFlush s).1 ~ s =>
  sidx limit ensureLoop throttleAfterRead inflight timers cancelQ cancelRxWaker respQ readFused execs done dropped
  poisoned rqWaiters rqAssigned rqAvail nextVis
  by (unfold tFlush; simp only; split <;> simp)

theorem tSend_t (s : St) (m : Msg) : (tSend s m).1.t = (s.t.startSend m).1 := by
  unfold tSend
  simp

theorem tSend_res (s : St) (m : Msg) : (tSend s m).2 = (s.t.startSend m).2 := by
  unfold tSend
  simp

frames tSend (s : St) (m : Msg) : (tSend s m).1 ~ s =>
  sidx limit ensureLoop throttleAfterRead inflight timers cancelQ cancelRxWaker respQ readFused execs done dropped
  poisoned rqWaiters rqAssigned rqAvail nextVis
  by (unfold tSend; simp)

theorem tNext_t (s : St) : (tNext s).1.t = if s.readFused then s.t else s.t.pollNext.1 := by
  unfold tNext
  split
  · rfl
  · simp only; split <;> simp

theorem tNext_res (s : St) : (tNext s).2 = if s.readFused then .eof else s.t.pollNext.2 := by
  unfold tNext
  split <;> simp

frames tNext (s : St) : (tNext s).1 ~ s =>
  sidx limit ensureLoop throttleAfterRead inflight timers cancelQ cancelRxWaker respQ execs done dropped
  poisoned rqWaiters rqAssigned rqAvail nextVis
  by (unfold tNext; split; rfl; (simp only; split <;> simp))

theorem tNext_wside (s : St) : SimT.wside (tNext s).1.t = SimT.wside s.t := by
  rw [tNext_t]; split
  · rfl
  · exact SimT.wside_pollNext _

/-! ### in-flight table -/

frames removeTimer (s : St) (k : Nat) : removeTimer s k ~ s =>
  sidx limit ensureLoop throttleAfterRead inflight cancelQ cancelRxWaker respQ readFused execs done dropped
  t rqWaiters rqAssigned rqAvail nextVis
  by (unfold removeTimer; split) <;> (try simp only []) <;> (try split) <;> (try simp only [wakeServer_sidx, wakeServer_limit, wakeServer_ensureLoop, wakeServer_throttleAfterRead, wakeServer_inflight, wakeServer_cancelQ, wakeServer_cancelRxWaker, wakeServer_respQ, wakeServer_readFused, wakeServer_execs, wakeServer_done, wakeServer_dropped, wakeServer_t, wakeServer_rqWaiters, wakeServer_rqAssigned, wakeServer_rqAvail, wakeServer_nextVis]) <;> rfl

frames removeRequest (s : St) (id : Nat) : (removeRequest s id).1 ~ s =>
  sidx limit ensureLoop throttleAfterRead cancelQ cancelRxWaker respQ readFused execs done dropped
  t rqWaiters rqAssigned rqAvail nextVis
  by (unfold removeRequest; split <;> simp)

frames cancelRequest (s : St) (id : Nat) : (cancelRequest s id).1 ~ s =>
  sidx limit ensureLoop throttleAfterRead cancelQ cancelRxWaker respQ readFused done dropped
  t rqWaiters rqAssigned rqAvail nextVis
  by (unfold cancelRequest; split <;> simp)

/-! #### `poll_expired`: the re-arm, one iteration, the loop (`Lemmas/ServerExpire.lean`) -/

frames expireStep (s : St) (now : Nat) : (expireStep s now).1 ~ s =>
  sidx limit ensureLoop throttleAfterRead cancelQ cancelRxWaker respQ readFused done dropped
  t rqWaiters rqAssigned rqAvail nextVis
  by (have h := expireStep_shape s now; revert h; generalize expireStep s now = p; intro h; obtain ⟨s', r⟩ := p;
      dsimp only at h ⊢; cases h <;> (try simp) <;> (rename_i hr; have := rearm_frame hr; cases this; assumption))

/-- the fields `poll_expired` never touches -/
structure ExpFrame (s s' : St) : Prop where
  sidx : s'.sidx = s.sidx
  limit : s'.limit = s.limit
  ensureLoop : s'.ensureLoop = s.ensureLoop
  throttleAfterRead : s'.throttleAfterRead = s.throttleAfterRead
  cancelQ : s'.cancelQ = s.cancelQ
  cancelRxWaker : s'.cancelRxWaker = s.cancelRxWaker
  respQ : s'.respQ = s.respQ
  readFused : s'.readFused = s.readFused
  done : s'.done = s.done
  dropped : s'.dropped = s.dropped
  t : s'.t = s.t
  rqWaiters : s'.rqWaiters = s.rqWaiters
  rqAssigned : s'.rqAssigned = s.rqAssigned
  rqAvail : s'.rqAvail = s.rqAvail
  nextVis : s'.nextVis = s.nextVis

theorem pollExpired_frame (s : St) (now : Nat) : ExpFrame s (pollExpired s now).1 := by
  refine pollExpired_ind (P := ExpFrame s) now (fun s1 h => ?_) (fun s1 h => ?_) s ?_
  · obtain ⟨h0, h1, h2, h3, h4, h5, h6, h7, h8, h9, h10, h11, h12, h13, h14⟩ := h
    constructor <;> simp [*]
  · obtain ⟨h0, h1, h2, h3, h4, h5, h6, h7, h8, h9, h10, h11, h12, h13, h14⟩ := h
    constructor <;> simp [*]
  · constructor <;> rfl

frames pollExpired (s : St) (now : Nat) : (pollExpired s now).1 ~ s =>
  sidx limit ensureLoop throttleAfterRead cancelQ cancelRxWaker respQ readFused done dropped t rqWaiters rqAssigned rqAvail nextVis
  by (have h := pollExpired_frame s now; cases h; assumption)

frames startRequest (s : St) (now id d : Nat) (tr : Trace) (b : Nat) : (startRequest s now id d tr b).1 ~ s =>
  sidx limit ensureLoop throttleAfterRead cancelQ cancelRxWaker respQ readFused done dropped
  t rqWaiters rqAssigned rqAvail nextVis
  by (unfold startRequest; repeat' split) <;> simp

/-! ## `basePollNext`, staged -/

def bpCancel (s : St) : St × RStatus :=
  match s.cancelQ with
  | id :: rest => ((removeRequest { s with cancelQ := rest } id).1, RStatus.ready)
  | [] => ({ s with cancelRxWaker := true }, RStatus.closed)

def expStatus : ExpRes → RStatus
  | .ready => .ready | .closed => .closed | .pending => .pending

def bpOther (s : St) : NextRes → St × RStatus
  | .item (.cancel id _) => ((cancelRequest s id).1, RStatus.ready)
  | .item _ => (s, RStatus.ready)
  | .eof => (s, RStatus.closed)
  | _ => (s, RStatus.pending)

/-- one iteration of `basePollNext`; `none` = go round again -/
def bpStep (s : St) (now : Nat) : St × Option (SPoll Exec) :=
  let s1 := (bpCancel s).1
  let s2 := (pollExpired s1 now).1
  if s2.poisoned then (s2, some .spin) else
  let s3 := (tNext s2).1
  match (tNext s2).2 with
  | .err => (s3, some (.err .read))
  | .item (.request id d tr b) =>
      let s4 := (startRequest s3 now id d tr b).1
      match (startRequest s3 now id d tr b).2 with
      | some ex => (s4, some (.some ex))
      | none => if s4.poisoned then (s4, some .spin) else (s4, none)
  | nx =>
      let s5 := (bpOther s3 nx).1
      if s5.poisoned then (s5, some .spin) else
      match combine (combine (bpCancel s).2 (expStatus (pollExpired s1 now).2)) (bpOther s3 nx).2 with
      | .ready => (s5, none)
      | .closed => (s5, some .none)
      | .pending => (s5, some .pending)

theorem basePollNext_succ (fuel : Nat) (s : St) (now : Nat) :
    basePollNext (fuel + 1) s now =
      match bpStep s now with
      | (s', some r) => (s', r)
      | (s', none) => basePollNext fuel s' now := by
  rw [basePollNext]
  unfold bpStep bpCancel
  cases hq : s.cancelQ
  all_goals
    dsimp only
    generalize pollExpired _ now = p
    rcases p with ⟨s2, e⟩
    dsimp only
    by_cases hpo : s2.poisoned = true
    · simp [hpo]
    · simp only [hpo]
      rcases hn : tNext s2 with ⟨s3, nx⟩
      cases nx with
      | err => simp
      | pending => by_cases hp3 : s3.poisoned = true <;> cases e <;> simp [bpOther, expStatus, combine, hp3]
      | eof => by_cases hp3 : s3.poisoned = true <;> cases e <;> simp [bpOther, expStatus, combine, hp3]
      | item m =>
        cases m with
        | request id d tr b =>
          simp only
          rcases hs : startRequest s3 now id d tr b with ⟨s4, r⟩
          cases r <;> simp
          split <;> simp
        | cancel id tr =>
          by_cases hp3 : (cancelRequest s3 id).fst.poisoned = true <;> cases e <;>
            simp [bpOther, expStatus, combine, hp3]
        | response id r => by_cases hp3 : s3.poisoned = true <;> cases e <;> simp [bpOther, expStatus, combine, hp3]

theorem basePollNext_zero (s : St) (now : Nat) : basePollNext 0 s now = (emit s (.spin (tid s)), .spin) := rfl

/-- Loop principle: whatever one iteration and the out-of-fuel exit keep, `basePollNext` keeps. -/
theorem basePollNext_loop (P : St → Prop) (now : Nat) (hstep : ∀ s, P s → P (bpStep s now).1)
    (hspin : ∀ s, P s → P (emit s (.spin (tid s)))) : ∀ fuel s, P s → P (basePollNext fuel s now).1 := by
  intro fuel
  induction fuel with
  | zero => intro s h; exact hspin s h
  | succ n ih =>
    intro s h
    rw [basePollNext_succ]
    have := hstep s h
    rcases hb : bpStep s now with ⟨s', r⟩
    rw [hb] at this
    cases r with
    | none => exact ih s' this
    | some r => exact this

/-! ## a closure principle for state invariants -/

/-- every observation except the two that poison the model -/
def Quiet : Obs → Prop
  | .spin _ => False
  | .panic _ _ => False
  | _ => True

/-- `s'` differs from `s` only in bookkeeping the table / timer / execution invariants do not
mention: the queues between the tasks, wakers, `nextVis`. -/
structure Inert (s s' : St) : Prop where
  sidx : s'.sidx = s.sidx
  limit : s'.limit = s.limit
  ensureLoop : s'.ensureLoop = s.ensureLoop
  throttleAfterRead : s'.throttleAfterRead = s.throttleAfterRead
  inflight : s'.inflight = s.inflight
  timers : s'.timers = s.timers
  execs : s'.execs = s.execs
  nextFresh : s'.nextFresh = s.nextFresh
  done : s'.done = s.done
  dropped : s'.dropped = s.dropped
  poisoned : s'.poisoned = s.poisoned
  obs : s'.obs = s.obs
  t : s'.t = s.t
  readFused : s'.readFused = s.readFused

/-- the updates the model applies to an execution outside `abortExec` -/
def Stable (f : Exec → Exec) : Prop :=
  ∀ e, (f e).rid = e.rid ∧ (f e).id = e.id ∧ (f e).deadline = e.deadline ∧ (f e).aborted = e.aborted

/-- closure under what the execution-side operations (`pollExec`, `dropExec`, `finishHandler`) do -/
structure ExecClosed (P : St → Prop) : Prop where
  inert : ∀ s s', Inert s s' → P s → P s'
  emit : ∀ s o, Quiet o → P s → P (emit s o)
  upd : ∀ s r f, Stable f → P s → P (updExec s r f)

/-- closure under the loop-free primitives of the channel / `Requests` pumps at clock `now` -/
structure StepClosed (now : Nat) (P : St → Prop) : Prop extends ExecClosed P where
  setT : ∀ s t, P s → P { s with t := t }
  setFused : ∀ s, P s → P { s with readFused := true }
  removeReq : ∀ s id, P s → P (removeRequest s id).1
  cancel : ∀ s id tr, P s → (tNext s).2 = .item (.cancel id tr) → P (cancelRequest (tNext s).1 id).1
  expire : ∀ s, P s → P (pollExpired s now).1
  start : ∀ s id d tr b, P s → P (startRequest s now id d tr b).1
  timerWaker : ∀ s b, P s → P { s with timers := { s.timers with waker := b } }

/-- … and under the out-of-fuel exit of the model's loops: enough for `requestsPollNext` -/
structure LoopClosed (now : Nat) (P : St → Prop) : Prop extends StepClosed now P where
  spin : ∀ s, P s → P (Server.emit s (.spin (tid s)))

/-- What a state predicate must be closed under to be an invariant of every server operation at
clock `now`. -/
structure PrimClosed (now : Nat) (P : St → Prop) : Prop extends LoopClosed now P where
  spunReset : ∀ s0 s, P s0 → P s → P { s with obs := .spin (tid s) :: s0.obs, poisoned := true }
  setDone : ∀ s r, P s → P { s with done := some r }
  drop : ∀ s, P s → P (dropServer s)

macro "inert_tac" : tactic => `(tactic| (constructor <;> first | rfl | simp))

variable {now : Nat} {P : St → Prop}

theorem ExecClosed.emitViolations (hc : ExecClosed P) (s : St) (n : Nat) (h : P s) : P (emitViolations s n) := by
  unfold Server.emitViolations
  generalize ((s.t.violations.take (s.t.violations.length - n)).reverse) = l
  induction l generalizing s with
  | nil => exact h
  | cons a l ih => exact ih _ (hc.emit _ _ trivial h)

theorem ExecClosed.wakeServer (hc : ExecClosed P) (s : St) (h : P s) : P (wakeServer s) := by
  unfold Server.wakeServer
  split
  · exact h
  · exact hc.emit _ _ trivial (hc.inert s _ (by inert_tac) h)

theorem ExecClosed.wakeExec (hc : ExecClosed P) (s : St) (r : Nat) (h : P s) : P (wakeExec s r) := by
  unfold Server.wakeExec
  repeat' split
  all_goals first | exact h | skip
  exact hc.emit _ _ trivial (hc.upd _ _ _ (fun e => ⟨rfl, rfl, rfl, rfl⟩) h)

theorem StepClosed.tReady (hc : StepClosed now P) (s : St) (h : P s) : P (tReady s).1 := by
  unfold Server.tReady
  simp only
  have h1 : P (Server.emit (Server.emitViolations { s with t := s.t.pollReady.1 } s.t.violations.length)
      (.tReady (tid s) s.t.pollReady.2.1)) :=
    hc.emit _ _ trivial (hc.emitViolations _ _ (hc.setT s _ h))
  split
  · exact hc.wakeServer _ h1
  · exact h1

theorem StepClosed.tFlush (hc : StepClosed now P) (s : St) (h : P s) : P (tFlush s).1 := by
  unfold Server.tFlush
  simp only
  have h1 : P (Server.emit (Server.emitViolations { s with t := s.t.pollFlush.1 } s.t.violations.length)
      (.tFlush (tid s) s.t.pollFlush.2.1)) :=
    hc.emit _ _ trivial (hc.emitViolations _ _ (hc.setT s _ h))
  split
  · exact hc.wakeServer _ h1
  · exact h1

theorem StepClosed.tSend (hc : StepClosed now P) (s : St) (m : Msg) (h : P s) : P (tSend s m).1 := by
  unfold Server.tSend
  simp only
  exact hc.emit _ _ trivial (hc.emitViolations _ _ (hc.setT s _ h))

theorem StepClosed.tNext (hc : StepClosed now P) (s : St) (h : P s) : P (tNext s).1 := by
  unfold Server.tNext
  split
  · exact h
  · simp only
    have h1 : P (Server.emit { s with t := s.t.pollNext.1 } (.tNext (tid s) s.t.pollNext.2)) :=
      hc.emit _ _ trivial (hc.setT s _ h)
    split
    · exact hc.setFused _ h1
    · exact h1

theorem StepClosed.bpCancel (hc : StepClosed now P) (s : St) (h : P s) : P (bpCancel s).1 := by
  unfold Flow.bpCancel
  split
  · exact hc.removeReq _ _ (hc.inert s _ (by inert_tac) h)
  · exact hc.inert s _ (by inert_tac) h

theorem StepClosed.bpStep (hc : StepClosed now P) (s : St) (h : P s) : P (bpStep s now).1 := by
  unfold Flow.bpStep
  have h1 := hc.bpCancel s h
  have h2 := hc.expire _ h1
  simp only
  split
  · exact h2
  · have h3 := hc.tNext _ h2
    split
    · exact h3
    · next id d tr b _ =>
      have h4 := hc.start _ id d tr b h3
      split
      · exact h4
      · split <;> exact h4
    · next nx hn1 hn2 =>
      have h5 : P (bpOther (Server.tNext (pollExpired (Flow.bpCancel s).1 now).1).1
          (Server.tNext (pollExpired (Flow.bpCancel s).1 now).1).2).1 := by
        unfold bpOther
        split
        · next id tr heq => exact hc.cancel _ id tr h2 heq
        all_goals exact h3
      split
      · exact h5
      · split <;> exact h5

theorem LoopClosed.basePollNext (hc : LoopClosed now P) (fuel : Nat) (s : St) (h : P s) :
    P (basePollNext fuel s now).1 :=
  basePollNext_loop P now hc.bpStep hc.spin fuel s h

theorem StepClosed.baseStartSend (hc : StepClosed now P) (s : St) (id : Nat) (res : Res) (h : P s) :
    P (baseStartSend s id res).1 := by
  unfold Server.baseStartSend
  have h1 := hc.removeReq s id h
  split
  · next s' heq => rw [heq] at h1; exact hc.tSend _ _ h1
  · next s' heq => rw [heq] at h1; exact h1

theorem LoopClosed.limitedLegacy (hc : LoopClosed now P) (limit : Nat) :
    ∀ (fuel : Nat) (s : St), P s → P (limitedPollNextLegacy limit fuel s now).1 := by
  intro fuel
  induction fuel with
  | zero => intro s h; exact hc.spin s h
  | succ n ih =>
    intro s h
    unfold limitedPollNextLegacy
    split
    · have h1 := hc.tReady s h
      split
      · next s1 heq => rw [heq] at h1; exact h1
      · next s1 heq => rw [heq] at h1; exact h1
      · next s1 heq =>
        rw [heq] at h1
        have h2 := hc.basePollNext (baseFuel s1) s1 h1
        split
        · next s2 ex heq2 =>
          rw [heq2] at h2
          have h3 := hc.baseStartSend s2 ex.id (.err throttleKindIdx) h2
          split
          · next s3 heq3 => rw [heq3] at h3; exact h3
          · next s3 r hne heq3 =>
            rw [heq3] at h3
            exact ih _ (hc.upd _ _ _ (fun e => ⟨rfl, rfl, rfl, rfl⟩) h3)
        · next r hne => exact h2
    · exact hc.basePollNext _ s h

def fixedPre (limit : Nat) (s : St) : St × Option (SPoll Exec) :=
  if decide (s.inflight.length ≥ limit) then
    match tReady s with
    | (s, .pending) => (s, some .pending)
    | (s, .err) => (s, some (.err .ready))
    | (s, .ready) => (s, none)
  else (s, none)

theorem limitedPollNextFixed_succ (limit fuel : Nat) (s : St) (now : Nat) :
    limitedPollNextFixed limit (fuel + 1) s now =
      match fixedPre limit s with
      | (s, some r) => (s, r)
      | (s, none) =>
          match basePollNext (baseFuel s) s now with
          | (s, .some ex) =>
              if s.inflight.length > limit then
                match baseStartSend s ex.id (.err throttleKindIdx) with
                | (s, some false) => (s, .err .write)
                | (s, _) =>
                    limitedPollNextFixed limit fuel (updExec s ex.rid (fun e => { e with phase := .gone, woken := false })) now
              else (s, .some ex)
          | r => r := by
  rw [limitedPollNextFixed]; rfl

theorem StepClosed.fixedPre (hc : StepClosed now P) (limit : Nat) (s : St) (h : P s) : P (fixedPre limit s).1 := by
  unfold Flow.fixedPre
  split
  · have h1 := hc.tReady s h
    split <;> (rename_i heq; rw [heq] at h1; exact h1)
  · exact h

theorem LoopClosed.limitedFixed (hc : LoopClosed now P) (limit : Nat) :
    ∀ (fuel : Nat) (s : St), P s → P (limitedPollNextFixed limit fuel s now).1 := by
  intro fuel
  induction fuel with
  | zero => intro s h; exact hc.spin s h
  | succ n ih =>
    intro s h
    rw [limitedPollNextFixed_succ]
    have hpre := hc.fixedPre limit s h
    split
    · next s1 r heq => rw [heq] at hpre; exact hpre
    · next s1 heq =>
      rw [heq] at hpre
      have h2 := hc.basePollNext (baseFuel s1) s1 hpre
      split
      · next s2 ex heq2 =>
        rw [heq2] at h2
        split
        · have h3 := hc.baseStartSend s2 ex.id (.err throttleKindIdx) h2
          split
          · next s3 heq3 => rw [heq3] at h3; exact h3
          · next s3 r hne heq3 =>
            rw [heq3] at h3
            exact ih _ (hc.upd _ _ _ (fun e => ⟨rfl, rfl, rfl, rfl⟩) h3)
        · exact h2
      · exact h2

theorem LoopClosed.channelPollNext (hc : LoopClosed now P) (s : St) (h : P s) : P (channelPollNext s now).1 := by
  unfold Server.channelPollNext
  split
  · exact hc.basePollNext _ s h
  · split
    · exact hc.limitedFixed _ _ s h
    · exact hc.limitedLegacy _ _ s h

theorem StepClosed.ensureOnce (hc : StepClosed now P) (s : St) (h : P s) : P (ensureOnce s).1 := by
  unfold Server.ensureOnce
  have h1 := hc.tReady s h
  split
  · next s1 heq => rw [heq] at h1; exact h1
  · next s1 heq => rw [heq] at h1; exact h1
  · next s1 heq =>
    rw [heq] at h1
    have h2 := hc.tFlush s1 h1
    split
    · next s2 heq2 => rw [heq2] at h2; exact h2
    · next s2 heq2 => rw [heq2] at h2; exact h2
    · next s2 heq2 =>
      rw [heq2] at h2
      have h3 := hc.tReady s2 h2
      split <;> (rename_i heq3; rw [heq3] at h3; exact h3)

theorem LoopClosed.ensureLoop (hc : LoopClosed now P) : ∀ (fuel : Nat) (s : St), P s → P (ensureLoop fuel s).1 := by
  intro fuel
  induction fuel with
  | zero => intro s h; exact hc.spin s h
  | succ n ih =>
    intro s h
    unfold Server.ensureLoop
    have h1 := hc.tReady s h
    split
    · next s1 heq => rw [heq] at h1; exact h1
    · next s1 heq => rw [heq] at h1; exact h1
    · next s1 heq =>
      rw [heq] at h1
      have h2 := hc.tFlush s1 h1
      split
      · next s2 heq2 => rw [heq2] at h2; exact h2
      · next s2 heq2 => rw [heq2] at h2; exact h2
      · next s2 heq2 => rw [heq2] at h2; exact ih s2 h2

theorem LoopClosed.ensureWriteable (hc : LoopClosed now P) (s : St) (h : P s) : P (ensureWriteable s).1 := by
  unfold Server.ensureWriteable
  split
  · exact hc.ensureLoop _ s h
  · exact hc.ensureOnce s h

theorem ExecClosed.rqRelease (hc : ExecClosed P) (s : St) (h : P s) : P (rqRelease s) := by
  unfold Server.rqRelease
  split
  · exact hc.wakeExec _ _ (hc.inert s _ (by inert_tac) h)
  · exact hc.inert s _ (by inert_tac) h

theorem StepClosed.flushArm (hc : StepClosed now P) (s : St) (rc : Bool) (h : P s) : P (flushArm s rc).1 := by
  unfold Server.flushArm
  have h1 := hc.tFlush s h
  split
  · next s1 heq => rw [heq] at h1; exact h1
  · next s1 heq => rw [heq] at h1; exact h1
  · next s1 heq => rw [heq] at h1; split <;> exact h1

theorem LoopClosed.pumpWrite (hc : LoopClosed now P) (s : St) (rc : Bool) (h : P s) : P (pumpWrite s rc).1 := by
  unfold Server.pumpWrite
  have h1 := hc.ensureWriteable s h
  split
  · next s1 heq => rw [heq] at h1; exact hc.flushArm _ _ h1
  · next s1 a heq => rw [heq] at h1; exact h1
  · next s1 heq => rw [heq] at h1; exact h1
  · next s1 heq =>
    rw [heq] at h1
    split
    · next id res rest hq =>
      have h2 := hc.baseStartSend _ id res (hc.rqRelease _ (hc.inert s1 { s1 with respQ := rest } (by inert_tac) h1))
      simp only
      split
      · next s3 heq3 => rw [heq3] at h2; exact h2
      · next s3 r hne heq3 => rw [heq3] at h2; exact h2
    · exact hc.flushArm _ _ (hc.inert s1 _ (by inert_tac) h1)

theorem StepClosed.dropOffered (hc : StepClosed now P) (s : St) (rid id : Nat) (h : P s) : P (dropOffered s rid id) := by
  unfold Server.dropOffered
  simp only
  have h0 := hc.upd s rid (fun e => { e with phase := .gone, guardArmed := false, woken := false })
    (fun e => ⟨rfl, rfl, rfl, rfl⟩) h
  split
  · exact hc.wakeServer _ (hc.inert _ _ (by inert_tac) h0)
  · exact hc.inert _ _ (by inert_tac) h0

/-- `pump_read` arms the guard of a request it yields -/
def armRead (s : St) : SPoll Exec → St
  | .some ex => updExec s ex.rid (fun e => { e with guardArmed := true })
  | _ => s

def readClosedOf : SPoll Exec → Bool
  | .none => true
  | _ => false

def dropRead (s : St) : SPoll Exec → St
  | .some ex => dropOffered s ex.rid ex.id
  | _ => s

theorem requestsPollNext_succ (fuel : Nat) (s : St) (now : Nat) :
    requestsPollNext (fuel + 1) s now =
      match channelPollNext s now with
      | (s, .err a) => (s, .err a)
      | (s, .spin) => (s, .spin)
      | (s, read) =>
          match pumpWrite (armRead s read) (readClosedOf read) with
          | (s, .err a) => (dropRead s read, .err a)
          | (s, .spin) => (s, .spin)
          | (s, write) =>
              match read, write with
              | .none, .none => (s, .none)
              | .some ex, _ => (s, .item ex.rid)
              | _, .some () => requestsPollNext fuel s now
              | _, _ => (s, .pending) := by
  rw [requestsPollNext]; rfl

theorem LoopClosed.requestsPollNext (hc : LoopClosed now P) :
    ∀ (fuel : Nat) (s : St), P s → P (requestsPollNext fuel s now).1 := by
  intro fuel
  induction fuel with
  | zero => intro s h; exact hc.spin s h
  | succ n ih =>
    intro s h
    rw [requestsPollNext_succ]
    have h1 := hc.channelPollNext s h
    split
    · next s1 a heq => rw [heq] at h1; exact h1
    · next s1 heq => rw [heq] at h1; exact h1
    · next s1 read hne1 hne2 heq =>
      rw [heq] at h1
      have h2 : P (armRead s1 read) := by
        unfold armRead
        split
        · exact hc.upd _ _ _ (fun e => ⟨rfl, rfl, rfl, rfl⟩) h1
        · exact h1
      have h3 := hc.pumpWrite _ (readClosedOf read) h2
      split
      · next s3 a heq3 =>
        rw [heq3] at h3
        unfold dropRead
        split
        · exact hc.dropOffered _ _ _ h3
        · exact h3
      · next s3 heq3 => rw [heq3] at h3; exact h3
      · next s3 write hne3 hne4 heq3 =>
        rw [heq3] at h3
        split
        · exact h3
        · exact h3
        · exact ih _ h3
        · exact h3

/-- what `pollServerKeep` does with the result of `requestsPollNext` -/
def pskRet (s : St) : ReqPoll → St × Ret
  | .pending => (s, Ret.pending)
  | .none => ({ s with done := some .readyNone }, Ret.readyNone)
  | .err a => ({ s with done := some (.readyItemErr a) }, Ret.readyItemErr a)
  | .spin => (s, Ret.pending)
  | .item rid =>
      match getExec s rid with
      | some e =>
          (emit (updExec { s with nextVis := s.nextVis + 1 } rid (fun x => { x with vis := some s.nextVis }))
            (.yielded s.nextVis e.id e.deadline e.trace), Ret.readyItem)
      | none => (s, Ret.readyItem)

def pskFinish (s : St) (r : ReqPoll) : St :=
  emit (emit (pskRet s r).1 (.ret (tid (pskRet s r).1) (pskRet s r).2))
    (.counts (tid (pskRet s r).1) (pskRet s r).1.inflight.length (pskRet s r).1.timers.len)

def hasSpin (l : List Obs) : Bool := l.any (fun o => match o with | .spin _ => true | _ => false)

theorem pollServerKeep_eq (s : St) (now : Nat) :
    pollServerKeep s now =
      if s.dropped || s.done.isSome || s.poisoned then emit s .noop
      else
        let p := requestsPollNext (pollFuel { s with woken := false }) { s with woken := false } now
        if (!hasSpin s.obs && hasSpin p.1.obs) = true then { p.1 with obs := .spin (tid p.1) :: s.obs, poisoned := true }
        else if p.1.poisoned then p.1
        else pskFinish p.1 p.2 := by
  unfold pollServerKeep pskFinish hasSpin
  split
  · rfl
  · simp only
    rcases requestsPollNext (pollFuel { s with woken := false }) { s with woken := false } now with ⟨s1, r⟩
    cases r <;> rfl

theorem PrimClosed.pskRet (hc : PrimClosed now P) (s : St) (r : ReqPoll) (h : P s) : P (pskRet s r).1 := by
  unfold Flow.pskRet
  split
  · exact h
  · exact hc.setDone _ _ h
  · exact hc.setDone _ _ h
  · exact h
  · split
    · exact hc.emit _ _ trivial (hc.upd _ _ _ (fun e => ⟨rfl, rfl, rfl, rfl⟩) (hc.inert s _ (by inert_tac) h))
    · exact h

theorem PrimClosed.pskFinish (hc : PrimClosed now P) (s : St) (r : ReqPoll) (h : P s) : P (pskFinish s r) :=
  hc.emit _ _ trivial (hc.emit _ _ trivial (hc.pskRet s r h))

theorem PrimClosed.pollServerKeep (hc : PrimClosed now P) (s : St) (h : P s) : P (pollServerKeep s now) := by
  rw [pollServerKeep_eq]
  split
  · exact hc.emit _ _ trivial h
  · have h1 := hc.requestsPollNext (pollFuel { s with woken := false }) { s with woken := false }
      (hc.inert s _ (by inert_tac) h)
    simp only
    split
    · exact hc.spunReset s _ h h1
    · split
      · exact h1
      · exact hc.pskFinish _ _ h1

theorem PrimClosed.pollServer (hc : PrimClosed now P) (s : St) (h : P s) : P (pollServer s now) := by
  unfold Server.pollServer
  simp only
  split
  · exact hc.drop _ (hc.pollServerKeep s h)
  · split
    · exact hc.inert _ _ (by inert_tac) (hc.pollServerKeep s h)
    · exact hc.pollServerKeep s h

/-! ### executions and external events -/

theorem ExecClosed.guardDrop (hc : ExecClosed P) (s : St) (e : Exec) (h : P s) : P (guardDrop s e) := by
  unfold Server.guardDrop
  split
  · simp only
    split
    · exact hc.wakeServer _ (hc.inert s _ (by inert_tac) h)
    · exact hc.inert s _ (by inert_tac) h
  · exact h

theorem ExecClosed.queueAndFinish (hc : ExecClosed P) (s : St) (e : Exec) (res : Res) (n : Nat) (h : P s) :
    P (queueAndFinish s e res n) := by
  unfold Server.queueAndFinish
  simp only
  refine hc.emit _ _ trivial (hc.upd _ _ _ (fun e => ⟨rfl, rfl, rfl, rfl⟩) ?_)
  split
  · exact h
  · split
    · exact hc.wakeServer _ (hc.inert s _ (by inert_tac) h)
    · exact hc.inert s _ (by inert_tac) h

theorem ExecClosed.trySend (hc : ExecClosed P) (s : St) (e : Exec) (res : Res) (n : Nat) (h : P s) :
    P (trySend s e res n) := by
  unfold Server.trySend
  split
  · exact hc.queueAndFinish _ _ _ _ h
  · split
    · exact hc.queueAndFinish _ _ _ _ (hc.inert s _ (by inert_tac) h)
    · split
      · exact hc.emit _ _ trivial (hc.upd _ _ _ (fun e => ⟨rfl, rfl, rfl, rfl⟩) h)
      · split
        · exact hc.queueAndFinish _ _ _ _ (hc.inert s _ (by inert_tac) h)
        · exact hc.emit _ _ trivial (hc.upd _ _ _ (fun e => ⟨rfl, rfl, rfl, rfl⟩) (hc.inert s _ (by inert_tac) h))

theorem ExecClosed.pollExec (hc : ExecClosed P) (s : St) (vid n : Nat) (h : P s) : P (pollExec s vid n) := by
  unfold Server.pollExec
  split
  · exact hc.emit _ _ trivial h
  · next e _ =>
    simp only
    split
    · exact hc.emit _ _ trivial h
    · have h0 := hc.upd s e.rid (fun x => { x with woken := false }) (fun e => ⟨rfl, rfl, rfl, rfl⟩) h
      split
      · refine hc.emit _ _ trivial (hc.upd _ _ _ (fun e => ⟨rfl, rfl, rfl, rfl⟩) ?_)
        split
        · try simp only
          split
          · exact hc.rqRelease _ (hc.inert _ _ (by inert_tac) h0)
          · exact hc.inert _ _ (by inert_tac) h0
        · split
          · exact h0
          · exact hc.emit _ _ trivial h0
      · split
        · split
          · exact hc.trySend _ _ _ _ h0
          · exact hc.emit _ _ trivial h0
        · have h1 := hc.emit _ (.handler vid .polled n) trivial
            (hc.upd _ e.rid (fun x => { x with phase := .running }) (fun e => ⟨rfl, rfl, rfl, rfl⟩) h0)
          split
          · exact hc.trySend _ _ _ _ (hc.upd _ _ _ (fun e => ⟨rfl, rfl, rfl, rfl⟩) (hc.emit _ _ trivial h1))
          · exact hc.emit _ _ trivial (hc.upd _ _ _ (fun e => ⟨rfl, rfl, rfl, rfl⟩) h1)

theorem ExecClosed.dropExec (hc : ExecClosed P) (s : St) (vid n : Nat) (h : P s) : P (dropExec s vid n) := by
  unfold Server.dropExec
  split
  · exact hc.emit _ _ trivial h
  · next e _ =>
    simp only
    split
    · exact hc.emit _ _ trivial h
    · refine hc.guardDrop _ _ (hc.upd _ _ _ (fun e => ⟨rfl, rfl, rfl, rfl⟩) ?_)
      split
      · split
        · exact h
        · exact hc.emit _ _ trivial h
      · try simp only
        split
        · exact hc.rqRelease _ (hc.inert _ _ (by inert_tac) h)
        · exact hc.inert _ _ (by inert_tac) h
      · exact h

theorem ExecClosed.finishHandler (hc : ExecClosed P) (s : St) (vid : Nat) (res : Res) (h : P s) :
    P (finishHandler s vid res) := by
  unfold Server.finishHandler
  split
  · exact hc.emit _ _ trivial h
  · simp only
    split
    · exact hc.emit _ _ trivial h
    · have h0 := hc.upd s ‹Exec›.rid (fun x => { x with finishCmd := some res }) (fun e => ⟨rfl, rfl, rfl, rfl⟩) h
      split
      · exact hc.wakeExec _ _ h0
      · exact h0

theorem StepClosed.liftT (hc : StepClosed now P) (s : St) (r : SimT × Bool) (h : P s) : P (liftT s r) := by
  unfold Server.liftT
  simp only
  split
  · exact hc.wakeServer _ (hc.setT s _ h)
  · exact hc.setT s _ h

theorem StepClosed.onAdvance (hc : StepClosed now P) (s : St) (n : Nat) (h : P s) : P (onAdvance s n) := by
  unfold Server.onAdvance
  split
  · split
    · exact hc.wakeServer _ (hc.timerWaker s false h)
    · exact h
  · exact h

theorem StepClosed.took (hc : StepClosed now P) (ms : List Msg) (s : St) (h : P s) :
    P (ms.foldl (fun s m => Server.emit s (.took (tid s) m)) s) := by
  induction ms generalizing s with
  | nil => exact h
  | cons m ms ih => exact ih _ (hc.emit _ _ trivial h)

/-- every operation except `advance` (which moves the clock) keeps a primitive-closed predicate -/
theorem PrimClosed.applyOp (c : Sys) (hc : PrimClosed c.now P) (op : SOp) (h : P c.s)
    (hop : ∀ n, op ≠ .advance n) : P (applyOp c op).s := by
  cases op with
  | pollServer => exact hc.pollServer _ h
  | dropServer => exact hc.drop _ h
  | pollExec r => exact hc.pollExec _ _ _ h
  | dropExec r => exact hc.dropExec _ _ _ h
  | finish r res => exact hc.finishHandler _ _ _ h
  | injectReq id d tr b => exact hc.liftT _ _ h
  | injectCancel id tr => exact hc.liftT _ _ h
  | injectErr => exact hc.liftT _ _ h
  | eof => exact hc.liftT _ _ h
  | setReady b => exact hc.liftT _ _ h
  | setFlush b => exact hc.liftT _ _ h
  | fault k => exact hc.setT _ _ h
  | faultSkip n => exact hc.setT _ _ h
  | selfWake b => exact hc.setT _ _ h
  | take n => exact hc.took _ _ (hc.setT _ _ h)
  | advance n => exact absurd rfl (hop n)

/-- Lifting to op lists: a clock-indexed family of primitive-closed predicates that is monotone in the
clock holds in every reachable state. -/
theorem reach_inv (Q : Nat → St → Prop) (hc : ∀ now, PrimClosed now (Q now))
    (hmono : ∀ now now' s, now ≤ now' → Q now s → Q now' s) (c : Sys) (h : Q c.now c.s) (ops : List SOp) :
    Q (ops.foldl Server.applyOp c).now (ops.foldl Server.applyOp c).s := by
  induction ops generalizing c with
  | nil => exact h
  | cons op ops ih =>
    simp only [List.foldl_cons]
    apply ih
    by_cases hop : ∃ n, op = .advance n
    · obtain ⟨n, rfl⟩ := hop
      exact (hc _).onAdvance _ _ (hmono _ _ _ (Nat.le_add_right _ _) h)
    · have hnow : (Server.applyOp c op).now = c.now := by
        cases op <;> first | rfl | exact absurd ⟨_, rfl⟩ hop
      rw [hnow]
      exact (hc _).applyOp c op h (fun n hn => hop ⟨n, hn⟩)

/-! ## C14: no send without a preceding `poll_ready → Ready` -/

/-- the transport has not recorded a `send-without-ready` violation -/
def W (s : St) : Prop := SimT.NoSWR s.t

theorem W_tReady {s : St} (h : W s) : W (tReady s).1 := by
  unfold W; rw [tReady_t]; exact SimT.NoSWR_pollReady h

theorem tReady_ready {s s' : St} (h : tReady s = (s', .ready)) : s'.t.gotReady = true := by
  have h1 := tReady_t s; have h2 := tReady_res s
  rw [h] at h1 h2
  simp only at h1 h2
  rw [h1]; exact SimT.pollReady_ready h2.symm

theorem W_tFlush {s : St} (h : W s) : W (tFlush s).1 := by
  unfold W; rw [tFlush_t]; exact SimT.NoSWR_pollFlush h

theorem W_tSend {s : St} (h : W s) (hg : s.t.gotReady = true) (m : Msg) : W (tSend s m).1 := by
  unfold W; rw [tSend_t]; exact SimT.NoSWR_startSend h hg m

theorem bpCancel_t (s : St) : (bpCancel s).1.t = s.t := by
  unfold bpCancel; split <;> simp

theorem bpOther_t (s : St) (nx : NextRes) : (bpOther s nx).1.t = s.t := by
  unfold bpOther; split <;> simp

theorem bpStep_wside (s : St) (now : Nat) : SimT.wside (bpStep s now).1.t = SimT.wside s.t := by
  have h3 : SimT.wside (tNext (pollExpired (bpCancel s).1 now).1).1.t = SimT.wside s.t := by
    rw [tNext_wside]; simp [bpCancel_t]
  unfold bpStep
  simp only
  split
  · simp [bpCancel_t]
  · split
    · exact h3
    · split
      · simpa using h3
      · split <;> simpa using h3
    · split
      · simpa [bpOther_t] using h3
      · split <;> simpa [bpOther_t] using h3

theorem basePollNext_wside (fuel : Nat) (s : St) (now : Nat) :
    SimT.wside (basePollNext fuel s now).1.t = SimT.wside s.t :=
  basePollNext_loop (fun s' => SimT.wside s'.t = SimT.wside s.t) now
    (fun s' h => by rw [bpStep_wside]; exact h) (fun s' h => h) fuel s rfl

theorem W_basePollNext {s : St} (h : W s) (fuel now : Nat) : W (basePollNext fuel s now).1 := by
  unfold W SimT.NoSWR; rw [SimT.wside_violations (basePollNext_wside fuel s now)]; exact h

theorem basePollNext_gotReady (fuel : Nat) (s : St) (now : Nat) :
    (basePollNext fuel s now).1.t.gotReady = s.t.gotReady :=
  SimT.wside_gotReady (basePollNext_wside fuel s now)

theorem W_baseStartSend {s : St} (h : W s) (hg : s.t.gotReady = true) (id : Nat) (res : Res) :
    W (baseStartSend s id res).1 := by
  unfold baseStartSend
  have ht := removeRequest_t s id
  split
  · next s' heq =>
    rw [heq] at ht
    exact W_tSend (by unfold W; rw [ht]; exact h) (by rw [ht]; exact hg) _
  · next s' heq =>
    rw [heq] at ht
    unfold W; rw [ht]; exact h

theorem W_limitedLegacy (limit now : Nat) : ∀ (fuel : Nat) (s : St), W s → W (limitedPollNextLegacy limit fuel s now).1 := by
  intro fuel
  induction fuel with
  | zero => intro s h; exact h
  | succ n ih =>
    intro s h
    unfold limitedPollNextLegacy
    split
    · have h1 := W_tReady h
      split
      · next s1 heq => rw [heq] at h1; exact h1
      · next s1 heq => rw [heq] at h1; exact h1
      · next s1 heq =>
        rw [heq] at h1
        have hg := tReady_ready heq
        have h2 := W_basePollNext h1 (baseFuel s1) now
        have hg2 := basePollNext_gotReady (baseFuel s1) s1 now
        split
        · next s2 ex heq2 =>
          rw [heq2] at h2 hg2
          have h3 := W_baseStartSend h2 (hg2.trans hg) ex.id (.err throttleKindIdx)
          split
          · next s3 heq3 => rw [heq3] at h3; exact h3
          · next s3 r hne heq3 =>
            rw [heq3] at h3
            exact ih _ h3
        · next r hne => exact h2
    · exact W_basePollNext h _ _

/-! ### configuration fields never change -/

theorem foldl_abortExec_frame {α : Type} (g : St → α) (hg : ∀ s r, g (abortExec s r) = g s)
    (es : List SEntry) (s : St) : g (es.foldl (fun s e => abortExec s e.rid) s) = g s := by
  induction es generalizing s with
  | nil => rfl
  | cons e es ih => simp only [List.foldl_cons]; rw [ih, hg]

theorem foldl_wakeExec_frame {α : Type} (g : St → α) (hg : ∀ s r, g (wakeExec s r) = g s)
    (ws : List Nat) (s : St) : g (ws.foldl wakeExec s) = g s := by
  induction ws generalizing s with
  | nil => rfl
  | cons e es ih => simp only [List.foldl_cons]; rw [ih, hg]

frames dropServer (s : St) : dropServer s ~ s =>
  sidx limit ensureLoop throttleAfterRead readFused done poisoned t nextVis
  by (unfold dropServer; split; rfl; simp only;
      first
      | rw [foldl_wakeExec_frame (fun s => St.sidx s) (by simp), foldl_abortExec_frame (fun s => St.sidx s) (by simp)]
      | rw [foldl_wakeExec_frame (fun s => St.limit s) (by simp), foldl_abortExec_frame (fun s => St.limit s) (by simp)]
      | rw [foldl_wakeExec_frame (fun s => St.ensureLoop s) (by simp), foldl_abortExec_frame (fun s => St.ensureLoop s) (by simp)]
      | rw [foldl_wakeExec_frame (fun s => St.throttleAfterRead s) (by simp), foldl_abortExec_frame (fun s => St.throttleAfterRead s) (by simp)]
      | rw [foldl_wakeExec_frame (fun s => St.readFused s) (by simp), foldl_abortExec_frame (fun s => St.readFused s) (by simp)]
      | rw [foldl_wakeExec_frame (fun s => St.done s) (by simp), foldl_abortExec_frame (fun s => St.done s) (by simp)]
      | rw [foldl_wakeExec_frame (fun s => St.poisoned s) (by simp), foldl_abortExec_frame (fun s => St.poisoned s) (by simp)]
      | rw [foldl_wakeExec_frame (fun s => St.t s) (by simp), foldl_abortExec_frame (fun s => St.t s) (by simp)]
      | rw [foldl_wakeExec_frame (fun s => St.nextVis s) (by simp), foldl_abortExec_frame (fun s => St.nextVis s) (by simp)])

/-- the configuration of `s` is that of `c` -/
def Cfg (c s : St) : Prop :=
  s.sidx = c.sidx ∧ s.limit = c.limit ∧ s.ensureLoop = c.ensureLoop ∧ s.throttleAfterRead = c.throttleAfterRead

theorem cfg_closed (c : St) (now : Nat) : PrimClosed now (Cfg c) where
  inert := fun s s' hi h => by
    unfold Cfg at *; rw [hi.sidx, hi.limit, hi.ensureLoop, hi.throttleAfterRead]; exact h
  emit := fun s o _ h => h
  upd := fun s r f _ h => h
  setT := fun s t h => h
  setFused := fun s h => h
  spin := fun s h => h
  removeReq := fun s id h => by simpa [Cfg] using h
  cancel := fun s id tr h _ => by simpa [Cfg] using h
  expire := fun s h => by simpa [Cfg] using h
  start := fun s id d tr b h => by simpa [Cfg] using h
  spunReset := fun s0 s _ h => h
  setDone := fun s r h => h
  drop := fun s h => by simpa [Cfg] using h
  timerWaker := fun s b h => h

theorem W_ensureOnce {s : St} (h : W s) : W (ensureOnce s).1 ∧ ((ensureOnce s).2 = .ready → (ensureOnce s).1.t.gotReady = true) := by
  unfold ensureOnce
  have h1 := W_tReady h
  split
  · next s1 heq => rw [heq] at h1; exact ⟨h1, fun _ => tReady_ready heq⟩
  · next s1 heq => rw [heq] at h1; exact ⟨h1, fun h => by cases h⟩
  · next s1 heq =>
    rw [heq] at h1
    have h2 := W_tFlush h1
    split
    · next s2 heq2 => rw [heq2] at h2; exact ⟨h2, fun h => by cases h⟩
    · next s2 heq2 => rw [heq2] at h2; exact ⟨h2, fun h => by cases h⟩
    · next s2 heq2 =>
      rw [heq2] at h2
      have h3 := W_tReady h2
      split
      · next s3 heq3 => rw [heq3] at h3; exact ⟨h3, fun _ => tReady_ready heq3⟩
      · next s3 heq3 => rw [heq3] at h3; exact ⟨h3, fun h => by cases h⟩
      · next s3 heq3 => rw [heq3] at h3; exact ⟨h3, fun h => by cases h⟩

theorem W_ensureLoop : ∀ (fuel : Nat) (s : St), W s →
    W (ensureLoop fuel s).1 ∧ ((ensureLoop fuel s).2 = .ready → (ensureLoop fuel s).1.t.gotReady = true) := by
  intro fuel
  induction fuel with
  | zero => intro s h; exact ⟨h, fun h => by cases h⟩
  | succ n ih =>
    intro s h
    unfold ensureLoop
    have h1 := W_tReady h
    split
    · next s1 heq => rw [heq] at h1; exact ⟨h1, fun _ => tReady_ready heq⟩
    · next s1 heq => rw [heq] at h1; exact ⟨h1, fun h => by cases h⟩
    · next s1 heq =>
      rw [heq] at h1
      have h2 := W_tFlush h1
      split
      · next s2 heq2 => rw [heq2] at h2; exact ⟨h2, fun h => by cases h⟩
      · next s2 heq2 => rw [heq2] at h2; exact ⟨h2, fun h => by cases h⟩
      · next s2 heq2 => rw [heq2] at h2; exact ih s2 h2

theorem W_ensureWriteable {s : St} (h : W s) :
    W (ensureWriteable s).1 ∧ ((ensureWriteable s).2 = .ready → (ensureWriteable s).1.t.gotReady = true) := by
  unfold ensureWriteable
  split
  · exact W_ensureLoop _ s h
  · exact W_ensureOnce h

theorem W_flushArm {s : St} (h : W s) (rc : Bool) : W (flushArm s rc).1 := by
  unfold flushArm
  have h1 := W_tFlush h
  split
  · next s1 heq => rw [heq] at h1; exact h1
  · next s1 heq => rw [heq] at h1; exact h1
  · next s1 heq => rw [heq] at h1; split <;> exact h1

frames rqRelease (s : St) : rqRelease s ~ s =>
  sidx limit ensureLoop throttleAfterRead inflight timers cancelQ cancelRxWaker respQ readFused done dropped
  poisoned t nextVis
  by (unfold rqRelease; split <;> simp)

theorem W_pumpWrite {s : St} (h : W s) (rc : Bool) : W (pumpWrite s rc).1 := by
  unfold pumpWrite
  obtain ⟨h1, hg⟩ := W_ensureWriteable h
  split
  · next s1 heq => rw [heq] at h1; exact W_flushArm h1 _
  · next s1 a heq => rw [heq] at h1; exact h1
  · next s1 heq => rw [heq] at h1; exact h1
  · next s1 heq =>
    rw [heq] at h1 hg
    split
    · next id res rest hq =>
      have h2 : W (baseStartSend (rqRelease { s1 with respQ := rest }) id res).1 :=
        W_baseStartSend (by unfold W at *; simpa using h1) (by simpa using hg rfl) id res
      simp only
      split
      · next s3 heq3 => rw [heq3] at h2; exact h2
      · next s3 r hne heq3 => rw [heq3] at h2; exact h2
    · exact W_flushArm (by unfold W; exact h1) _

theorem W_channelPollNext {s : St} (h : W s) (hcfg : s.throttleAfterRead = false) (now : Nat) :
    W (channelPollNext s now).1 := by
  unfold channelPollNext
  split
  · exact W_basePollNext h _ _
  · simp only [hcfg]
    exact W_limitedLegacy _ _ _ s h

theorem dropOffered_t (s : St) (rid id : Nat) : (dropOffered s rid id).t = s.t := by
  unfold dropOffered; simp only; split <;> simp

theorem armRead_t (s : St) (r : SPoll Exec) : (armRead s r).t = s.t := by
  unfold armRead; split <;> simp

theorem W_requestsPollNext (now : Nat) : ∀ (fuel : Nat) (s : St), W s → s.throttleAfterRead = false →
    W (requestsPollNext fuel s now).1 := by
  intro fuel
  induction fuel with
  | zero => intro s h _; exact h
  | succ n ih =>
    intro s h hcfg
    rw [requestsPollNext_succ]
    have h1 := W_channelPollNext h hcfg now
    have hc1 : (channelPollNext s now).1.throttleAfterRead = false :=
      ((cfg_closed s now).channelPollNext s ⟨rfl, rfl, rfl, rfl⟩).2.2.2.trans hcfg
    split
    · next s1 a heq => rw [heq] at h1; exact h1
    · next s1 heq => rw [heq] at h1; exact h1
    · next s1 read hne1 hne2 heq =>
      rw [heq] at h1 hc1
      have h2 : W (armRead s1 read) := by unfold W; rw [armRead_t]; exact h1
      have h3 := W_pumpWrite h2 (readClosedOf read)
      have hc3 : (pumpWrite (armRead s1 read) (readClosedOf read)).1.throttleAfterRead = false := by
        have := ((cfg_closed (armRead s1 read) now).pumpWrite (armRead s1 read) (readClosedOf read) ⟨rfl, rfl, rfl, rfl⟩).2.2.2
        rw [this]; unfold armRead; split <;> simpa using hc1
      split
      · next s3 a heq3 =>
        rw [heq3] at h3
        unfold dropRead
        split
        · unfold W; rw [dropOffered_t]; exact h3
        · exact h3
      · next s3 heq3 => rw [heq3] at h3; exact h3
      · next s3 write hne3 hne4 heq3 =>
        rw [heq3] at h3 hc3
        split
        · exact h3
        · exact h3
        · exact ih _ h3 hc3
        · exact h3

theorem pskRet_t (s : St) (r : ReqPoll) : (pskRet s r).1.t = s.t := by
  unfold pskRet; split <;> try rfl
  split <;> rfl

theorem pskFinish_t (s : St) (r : ReqPoll) : (pskFinish s r).t = s.t := by
  unfold pskFinish; simp [pskRet_t]

theorem W_pollServerKeep {s : St} (h : W s) (hcfg : s.throttleAfterRead = false) (now : Nat) :
    W (pollServerKeep s now) := by
  rw [pollServerKeep_eq]
  split
  · exact h
  · have h1 := W_requestsPollNext now (pollFuel { s with woken := false }) { s with woken := false } h hcfg
    simp only
    split
    · exact h1
    · split
      · exact h1
      · unfold W; rw [pskFinish_t]; exact h1

theorem W_pollServer {s : St} (h : W s) (hcfg : s.throttleAfterRead = false) (now : Nat) :
    W (pollServer s now) := by
  unfold pollServer
  simp only
  split
  · unfold W; rw [dropServer_t]; exact W_pollServerKeep h hcfg now
  · split
    · exact W_pollServerKeep h hcfg now
    · exact W_pollServerKeep h hcfg now

theorem tFrame_closed (t0 : SimT) : ExecClosed (fun s => s.t = t0) where
  inert := fun s s' hi h => by rw [hi.t]; exact h
  emit := fun s o _ h => h
  upd := fun s r f _ h => h

@[simp] theorem pollExec_t (s : St) (vid n : Nat) : (pollExec s vid n).t = s.t :=
  (tFrame_closed s.t).pollExec s vid n rfl
@[simp] theorem dropExec_t (s : St) (vid n : Nat) : (dropExec s vid n).t = s.t :=
  (tFrame_closed s.t).dropExec s vid n rfl
@[simp] theorem finishHandler_t (s : St) (vid : Nat) (res : Res) : (finishHandler s vid res).t = s.t :=
  (tFrame_closed s.t).finishHandler s vid res rfl

theorem liftT_t (s : St) (r : SimT × Bool) : (liftT s r).t = r.1 := by
  unfold liftT; simp only; split <;> simp

theorem onAdvance_t (s : St) (n : Nat) : (onAdvance s n).t = s.t := by
  unfold onAdvance; repeat' split
  all_goals simp

theorem took_t (ms : List Msg) (s : St) : (ms.foldl (fun s m => emit s (.took (tid s) m)) s).t = s.t := by
  induction ms generalizing s with
  | nil => rfl
  | cons m ms ih => simp only [List.foldl_cons]; rw [ih]; rfl

theorem wakeIfReady_violations (t : SimT) : t.wakeIfReady.1.violations = t.violations := by
  unfold SimT.wakeIfReady; split <;> rfl

theorem W_applyOp (c : Sys) (op : SOp) (h : W c.s) (hcfg : c.s.throttleAfterRead = false) : W (applyOp c op).s := by
  cases op with
  | pollServer => exact W_pollServer h hcfg _
  | dropServer => unfold W; simp only [applyOp, dropServer_t]; exact h
  | pollExec r => unfold W; simp only [applyOp, pollExec_t]; exact h
  | dropExec r => unfold W; simp only [applyOp, dropExec_t]; exact h
  | finish r res => unfold W; simp only [applyOp, finishHandler_t]; exact h
  | injectReq id d tr b => unfold W SimT.NoSWR; simp only [applyOp, liftT_t, SimT.inject]; exact h
  | injectCancel id tr => unfold W SimT.NoSWR; simp only [applyOp, liftT_t, SimT.inject]; exact h
  | injectErr => unfold W SimT.NoSWR; simp only [applyOp, liftT_t, SimT.inject]; exact h
  | eof => unfold W SimT.NoSWR; simp only [applyOp, liftT_t, SimT.setEof]; exact h
  | setReady b => unfold W SimT.NoSWR; simp only [applyOp, liftT_t, SimT.setReady, wakeIfReady_violations]; exact h
  | setFlush b => unfold W SimT.NoSWR; simp only [applyOp, liftT_t, SimT.setFlush, wakeIfReady_violations]; exact h
  | fault k => unfold W SimT.NoSWR; simp only [applyOp]; cases k <;> exact h
  | faultSkip n => exact h
  | selfWake b => exact h
  | take n => unfold W SimT.NoSWR; simp only [applyOp, SimT.take, took_t]; exact h
  | advance n => unfold W; simp only [applyOp, onAdvance_t]; exact h

theorem cfg_reach (c : Sys) (ops : List SOp) : Cfg c.s (ops.foldl applyOp c).s :=
  reach_inv (fun _ => Cfg c.s) (fun now => cfg_closed c.s now) (fun _ _ _ _ h => h) c ⟨rfl, rfl, rfl, rfl⟩ ops

theorem W_reach (c : Sys) (h : W c.s) (hcfg : c.s.throttleAfterRead = false) (ops : List SOp) :
    W (ops.foldl applyOp c).s := by
  induction ops generalizing c with
  | nil => exact h
  | cons op ops ih =>
    simp only [List.foldl_cons]
    exact ih _ (W_applyOp c op h hcfg) ((cfg_reach c [op]).2.2.2.trans hcfg)

/-! ### the paths through one iteration of `basePollNext` -/

/-- state after the cancellation and expiry stages -/
def bp2 (s : St) (now : Nat) : St := (pollExpired (bpCancel s).1 now).1
/-- state after the transport read -/
def bp3 (s : St) (now : Nat) : St := (tNext (bp2 s now)).1
def bpNx (s : St) (now : Nat) : NextRes := (tNext (bp2 s now)).2
def bpSt (s : St) (now : Nat) : RStatus :=
  combine (combine (bpCancel s).2 (expStatus (pollExpired (bpCancel s).1 now).2)) (bpOther (bp3 s now) (bpNx s now)).2

inductive BpOut (s : St) (now : Nat) : St × Option (SPoll Exec) → Prop
  | poisoned2 : (bp2 s now).poisoned = true → BpOut s now (bp2 s now, some .spin)
  | readErr : (bp2 s now).poisoned = false → bpNx s now = .err → BpOut s now (bp3 s now, some (.err .read))
  | started (id d : Nat) (tr : Trace) (b : Nat) (ex : Exec) : (bp2 s now).poisoned = false →
      bpNx s now = .item (.request id d tr b) → (startRequest (bp3 s now) now id d tr b).2 = some ex →
      BpOut s now ((startRequest (bp3 s now) now id d tr b).1, some (.some ex))
  | startPanic (id d : Nat) (tr : Trace) (b : Nat) : (bp2 s now).poisoned = false →
      bpNx s now = .item (.request id d tr b) → (startRequest (bp3 s now) now id d tr b).2 = none →
      (startRequest (bp3 s now) now id d tr b).1.poisoned = true →
      BpOut s now ((startRequest (bp3 s now) now id d tr b).1, some .spin)
  | duplicate (id d : Nat) (tr : Trace) (b : Nat) : (bp2 s now).poisoned = false →
      bpNx s now = .item (.request id d tr b) → (startRequest (bp3 s now) now id d tr b).2 = none →
      (startRequest (bp3 s now) now id d tr b).1.poisoned = false →
      BpOut s now ((startRequest (bp3 s now) now id d tr b).1, none)
  | otherPoisoned : (bp2 s now).poisoned = false → bpNx s now ≠ .err →
      (∀ id d tr b, bpNx s now ≠ .item (.request id d tr b)) →
      (bpOther (bp3 s now) (bpNx s now)).1.poisoned = true →
      BpOut s now ((bpOther (bp3 s now) (bpNx s now)).1, some .spin)
  | again : (bp2 s now).poisoned = false → bpNx s now ≠ .err →
      (∀ id d tr b, bpNx s now ≠ .item (.request id d tr b)) →
      (bpOther (bp3 s now) (bpNx s now)).1.poisoned = false → bpSt s now = .ready →
      BpOut s now ((bpOther (bp3 s now) (bpNx s now)).1, none)
  | closed : (bp2 s now).poisoned = false → bpNx s now ≠ .err →
      (∀ id d tr b, bpNx s now ≠ .item (.request id d tr b)) →
      (bpOther (bp3 s now) (bpNx s now)).1.poisoned = false → bpSt s now = .closed →
      BpOut s now ((bpOther (bp3 s now) (bpNx s now)).1, some .none)
  | pending : (bp2 s now).poisoned = false → bpNx s now ≠ .err →
      (∀ id d tr b, bpNx s now ≠ .item (.request id d tr b)) →
      (bpOther (bp3 s now) (bpNx s now)).1.poisoned = false → bpSt s now = .pending →
      BpOut s now ((bpOther (bp3 s now) (bpNx s now)).1, some .pending)

theorem bpStep_out (s : St) (now : Nat) : BpOut s now (bpStep s now) := by
  unfold bpStep
  show BpOut s now (if (bp2 s now).poisoned = true then (bp2 s now, some .spin) else
    match bpNx s now with
    | .err => (bp3 s now, some (.err .read))
    | .item (.request id d tr b) =>
        match (startRequest (bp3 s now) now id d tr b).2 with
        | some ex => ((startRequest (bp3 s now) now id d tr b).1, some (.some ex))
        | none => if (startRequest (bp3 s now) now id d tr b).1.poisoned then
            ((startRequest (bp3 s now) now id d tr b).1, some .spin) else ((startRequest (bp3 s now) now id d tr b).1, none)
    | nx =>
        if (bpOther (bp3 s now) nx).1.poisoned then ((bpOther (bp3 s now) nx).1, some .spin) else
        match combine (combine (bpCancel s).2 (expStatus (pollExpired (bpCancel s).1 now).2)) (bpOther (bp3 s now) nx).2 with
        | .ready => ((bpOther (bp3 s now) nx).1, none)
        | .closed => ((bpOther (bp3 s now) nx).1, some .none)
        | .pending => ((bpOther (bp3 s now) nx).1, some .pending))
  by_cases hp : (bp2 s now).poisoned = true
  · rw [if_pos hp]; exact .poisoned2 hp
  · rw [if_neg hp]
    have hp' : (bp2 s now).poisoned = false := by simpa using hp
    split
    · next heq => exact .readErr hp' heq
    · next id d tr b heq =>
      split
      · next ex hs => exact .started id d tr b ex hp' heq hs
      · next hs =>
        split
        · next hpo => exact .startPanic id d tr b hp' heq hs hpo
        · next hpo => exact .duplicate id d tr b hp' heq hs (by simpa using hpo)
    · next nx hn1 hn2 =>
      split
      · next hpo => exact .otherPoisoned hp' hn1 hn2 hpo
      · next hpo =>
        have hpo' : (bpOther (bp3 s now) (bpNx s now)).1.poisoned = false := by simpa using hpo
        split
        · next hc => exact .again hp' hn1 hn2 hpo' hc
        · next hc => exact .closed hp' hn1 hn2 hpo' hc
        · next hc => exact .pending hp' hn1 hn2 hpo' hc

/-! ## fuel adequacy: no `Obs.spin` when `ensure_writeable` does not loop -/

/-- no `spin` observation so far -/
def NS (s : St) : Prop := hasSpin s.obs = false

theorem NS_emit {s : St} {o : Obs} (h : NS s) (ho : ∀ t, o ≠ .spin t) : NS (emit s o) := by
  unfold NS hasSpin at *
  cases o <;> first | (simp only [emit_obs, List.any_cons, h, Bool.or_false]; done) | exact absurd rfl (ho _)

theorem NS_of_obs {s s' : St} (h : NS s) (ho : s'.obs = s.obs) : NS s' := by unfold NS at *; rw [ho]; exact h

theorem NS_wakeServer {s : St} (h : NS s) : NS (wakeServer s) := by
  unfold wakeServer; split
  · exact h
  · exact NS_emit (NS_of_obs h rfl) (by simp)

theorem NS_wakeExec {s : St} (r : Nat) (h : NS s) : NS (wakeExec s r) := by
  unfold wakeExec; repeat' split
  all_goals first | exact h | exact NS_emit (NS_of_obs h rfl) (by simp)

theorem NS_abortExec {s : St} (r : Nat) (h : NS s) : NS (abortExec s r) := by
  unfold abortExec; repeat' split
  · exact h
  · exact NS_wakeExec _ (NS_of_obs h rfl)
  · exact NS_of_obs h rfl

theorem NS_removeTimer {s : St} (k : Nat) (h : NS s) : NS (removeTimer s k) := by
  unfold removeTimer; split
  · simp only; split
    · exact NS_wakeServer (NS_of_obs h rfl)
    · exact NS_of_obs h rfl
  · exact NS_emit (NS_of_obs h rfl) (by simp)

theorem NS_removeRequest {s : St} (id : Nat) (h : NS s) : NS (removeRequest s id).1 := by
  unfold removeRequest; split
  · exact h
  · exact NS_removeTimer _ (NS_of_obs h rfl)

theorem NS_cancelRequest {s : St} (id : Nat) (h : NS s) : NS (cancelRequest s id).1 := by
  unfold cancelRequest; split
  · exact h
  · exact NS_removeTimer _ (NS_abortExec _ (NS_of_obs h rfl))

theorem NS_rearm {s s2 : St} {now : Nat} {en : SEntry} (hr : rearm s now en = some s2) (h : NS s) : NS s2 := by
  rcases rearm_cases s now en with ⟨_, he⟩ | ⟨q, key, w, _, he⟩ <;> rw [he] at hr <;> cases hr
  cases w
  · exact NS_of_obs h rfl
  · exact NS_of_obs (s := wakeServer s) (NS_wakeServer h) rfl

theorem NS_expireStep {s : St} (now : Nat) (h : NS s) : NS (expireStep s now).1 := by
  have hs := expireStep_shape s now
  revert hs; generalize expireStep s now = p; intro hs
  obtain ⟨s', r⟩ := p
  dsimp only at hs ⊢
  cases hs with
  | idleNone q hp => exact NS_of_obs h rfl
  | idlePending q hp => exact NS_of_obs h rfl
  | orphan q e hp hf => exact NS_of_obs h rfl
  | abort q e en hp hf h0 => exact NS_abortExec _ (NS_of_obs h rfl)
  | rearmed q e en s2 hp hf h0 hr => exact NS_rearm hr (NS_of_obs h rfl)
  | panicked q e en hp hf h0 hr => exact NS_emit (NS_of_obs h rfl) (by simp)

/-! #### the loop of `poll_expired` never runs out of fuel: every `continue` uses up a re-arm -/

/-- the re-arms the tracked entries still have in them -/
def rearmBudget (s : St) : Nat := (s.inflight.map (fun en => rearmSteps en.remainder)).sum

theorem expireFuel_eq (s : St) : expireFuel s = rearmBudget s + 1 := rfl

theorem rearmSteps_le (r : Nat) : rearmSteps (r - clampTimeout r) ≤ rearmSteps r := by
  unfold rearmSteps clampTimeout
  generalize Gen.serverTimerClampSecs = k
  by_cases hk : k = 0
  · subst hk; simp
  · have hk' : (k == 0) = false := by simpa using hk
    simp only [hk', Bool.false_eq_true, if_false]
    exact Nat.div_le_div_right (by omega)

theorem rearmSteps_lt (r : Nat) (hr : r ≠ 0) : rearmSteps (r - clampTimeout r) < rearmSteps r := by
  unfold rearmSteps clampTimeout
  generalize Gen.serverTimerClampSecs = k
  by_cases hk : k = 0
  · subst hk; simp [hr]
  · have hk' : (k == 0) = false := by simpa using hk
    simp only [hk', Bool.false_eq_true, if_false]
    generalize hc : k * 1000000000 = c
    have hcpos : 0 < c := by omega
    by_cases hle : r ≤ c
    · have h1 : r - min r c + c - 1 = c - 1 := by rw [Nat.min_eq_left hle]; omega
      rw [h1, Nat.div_eq_of_lt (by omega)]
      exact Nat.div_pos (by omega) hcpos
    · have h1 : r - min r c + c - 1 = r - 1 := by rw [Nat.min_eq_right (by omega)]; omega
      have h2 : r + c - 1 = (r - 1) + c := by omega
      rw [h1, h2, Nat.add_div_right _ hcpos]
      exact Nat.lt_succ_self _

theorem sum_map_lt {α : Type} (f g : α → Nat) : ∀ (l : List α), (∀ x ∈ l, g x ≤ f x) → (∃ x ∈ l, g x < f x) →
    (l.map g).sum < (l.map f).sum := by
  intro l
  induction l with
  | nil => intro _ ⟨x, hx, _⟩; cases hx
  | cons a l ih =>
    intro hle ⟨x, hx, hlt⟩
    simp only [List.map_cons, List.sum_cons]
    have ha := hle a List.mem_cons_self
    have hl : (l.map g).sum ≤ (l.map f).sum := by
      clear ih hx hlt
      induction l with
      | nil => exact Nat.le_refl _
      | cons b l ih2 =>
        simp only [List.map_cons, List.sum_cons]
        have := hle b (List.mem_cons_of_mem _ List.mem_cons_self)
        have := ih2 (fun y hy => by
          rcases List.mem_cons.mp hy with rfl | hy
          · exact ha
          · exact hle y (List.mem_cons_of_mem _ (List.mem_cons_of_mem _ hy)))
        omega
    rcases List.mem_cons.mp hx with rfl | hx
    · omega
    · have := ih (fun y hy => hle y (List.mem_cons_of_mem _ hy)) ⟨x, hx, hlt⟩
      omega

theorem rearmSteps_mono {r r' : Nat} (h : r ≤ r') : rearmSteps r ≤ rearmSteps r' := by
  unfold rearmSteps
  generalize Gen.serverTimerClampSecs = k
  by_cases hk : k = 0
  · subst hk
    simp only [beq_self_eq_true, if_true]
    by_cases h0 : r = 0
    · simp [h0]
    · have : r' ≠ 0 := by omega
      simp [h0, this]
  · have hk' : (k == 0) = false := by simpa using hk
    simp only [hk', Bool.false_eq_true, if_false]
    exact Nat.div_le_div_right (by omega)

theorem restOf_le (now : Nat) (x : SEntry) : restOf now x ≤ x.remainder := Nat.sub_le _ _

theorem rearmUpd_steps_le (id key now : Nat) (x : SEntry) :
    rearmSteps (rearmUpd id key now x).remainder ≤ rearmSteps x.remainder := by
  unfold rearmUpd
  split
  · exact Nat.le_trans (rearmSteps_le (restOf now x)) (rearmSteps_mono (restOf_le now x))
  · exact Nat.le_refl _

theorem rearmUpd_steps_lt (key now : Nat) (en : SEntry) (h0 : restOf now en ≠ 0) :
    rearmSteps (rearmUpd en.id key now en).remainder < rearmSteps en.remainder := by
  unfold rearmUpd
  rw [if_pos (by simp)]
  exact Nat.lt_of_lt_of_le (rearmSteps_lt (restOf now en) h0) (rearmSteps_mono (restOf_le now en))

theorem rearm_inflight_of_some {s s2 : St} {now : Nat} {en : SEntry} (hr : rearm s now en = some s2) :
    ∃ key, s2.inflight = s.inflight.map (rearmUpd en.id key now) := by
  obtain ⟨q', key, w, _, rfl⟩ := rearm_some hr
  exact ⟨key, rfl⟩

theorem rearm_budget {s s2 : St} {now : Nat} {en : SEntry} (hmem : en ∈ s.inflight)
    (h0 : restOf now en ≠ 0) (hr : rearm s now en = some s2) : rearmBudget s2 < rearmBudget s := by
  obtain ⟨key, hk⟩ := rearm_inflight_of_some hr
  unfold rearmBudget
  rw [hk]
  simp only [List.map_map, Function.comp_def]
  exact sum_map_lt (fun x => rearmSteps x.remainder) (fun x => rearmSteps (rearmUpd en.id key now x).remainder) s.inflight
    (fun x _ => rearmUpd_steps_le en.id key now x) ⟨en, hmem, rearmUpd_steps_lt key now en h0⟩

/-- a `continue` (re-arm) strictly decreases the budget -/
theorem expireStep_budget (s : St) (now : Nat) (h : (expireStep s now).2 = none) :
    rearmBudget (expireStep s now).1 < rearmBudget s := by
  have hs := expireStep_shape s now
  revert hs h; generalize expireStep s now = p; intro h hs
  obtain ⟨s', r⟩ := p
  dsimp only at hs h ⊢
  subst h
  cases hs with
  | rearmed q e en s2 hp hf h0 hr =>
    have hmem : en ∈ s.inflight := by unfold findEntry at hf; exact List.mem_of_find?_eq_some hf
    exact rearm_budget (s := { s with timers := q }) hmem h0 hr

theorem NS_pollExpiredLoop (now : Nat) : ∀ (fuel : Nat) (s : St), rearmBudget s < fuel → NS s →
    NS (pollExpiredLoop fuel s now).1 := by
  intro fuel
  induction fuel with
  | zero => intro s hb; omega
  | succ n ih =>
    intro s hb h
    rw [pollExpiredLoop_succ]
    have h1 := NS_expireStep now h
    have h2 := expireStep_budget s now
    revert h1 h2
    generalize expireStep s now = p
    intro h1 h2
    rcases p with ⟨s', r⟩
    cases r with
    | some r => exact h1
    | none => exact ih s' (by have := h2 rfl; simp only at this; omega) h1

/-- **Fuel adequacy.**  With more fuel than re-arms are left, the loop of `poll_expired` ends in an
iteration that returns (it never takes the out-of-fuel exit): the result is that of one `expireStep`,
from a state `s2` reached by re-arms only. -/
theorem pollExpiredLoop_last (now : Nat) : ∀ (fuel : Nat) (s : St), rearmBudget s < fuel →
    ∃ s2 r, (expireStep s2 now).2 = some r ∧ pollExpiredLoop fuel s now = ((expireStep s2 now).1, r) := by
  intro fuel
  induction fuel with
  | zero => intro s hb; omega
  | succ n ih =>
    intro s hb
    rw [pollExpiredLoop_succ]
    have h2 := expireStep_budget s now
    rcases hp : expireStep s now with ⟨s', r⟩
    rw [hp] at h2
    cases r with
    | some r => exact ⟨s, r, by rw [hp], by rw [hp]⟩
    | none => exact ih s' (by have := h2 rfl; simp only at this; omega)

theorem pollExpired_last (s : St) (now : Nat) (hne : s.timers.isEmpty = false) :
    ∃ s2 r, (expireStep s2 now).2 = some r ∧ pollExpired s now = ((expireStep s2 now).1, r) := by
  unfold pollExpired
  rw [if_neg (by simp [hne])]
  exact pollExpiredLoop_last now _ s (by rw [expireFuel_eq]; omega)

theorem NS_pollExpired {s : St} (now : Nat) (h : NS s) : NS (pollExpired s now).1 := by
  unfold pollExpired; split
  · exact h
  · exact NS_pollExpiredLoop now _ s (by rw [expireFuel_eq]; omega) h

theorem NS_startRequest {s : St} (now id d : Nat) (tr : Trace) (b : Nat) (h : NS s) :
    NS (startRequest s now id d tr b).1 := by
  unfold startRequest; split
  · exact h
  · split
    · exact NS_emit (NS_of_obs h rfl) (by simp)
    · simp only; split
      · exact NS_of_obs (s := wakeServer s) (NS_wakeServer h) rfl
      · exact NS_of_obs h rfl

theorem NS_foldl_abort (es : List SEntry) {s : St} (h : NS s) : NS (es.foldl (fun s e => abortExec s e.rid) s) := by
  induction es generalizing s with
  | nil => exact h
  | cons e es ih => exact ih (NS_abortExec _ h)

theorem NS_foldl_wake (ws : List Nat) {s : St} (h : NS s) : NS (ws.foldl wakeExec s) := by
  induction ws generalizing s with
  | nil => exact h
  | cons e es ih => exact ih (NS_wakeExec _ h)

theorem NS_dropServer {s : St} (h : NS s) : NS (dropServer s) := by
  unfold dropServer; split
  · exact NS_emit h (by simp)
  · simp only
    refine NS_of_obs (NS_foldl_wake _ (s := _) ?_) rfl
    refine NS_of_obs (NS_foldl_abort s.inflight (s := { s with dropped := true, woken := false }) (NS_of_obs h rfl)) rfl

theorem ns_closed (now : Nat) : StepClosed now NS where
  inert := fun s s' hi h => NS_of_obs h hi.obs
  emit := fun s o hq h => NS_emit h (by intro t ht; subst ht; exact hq)
  upd := fun s r f _ h => NS_of_obs h rfl
  setT := fun s t h => NS_of_obs h rfl
  setFused := fun s h => NS_of_obs h rfl
  removeReq := fun s id h => NS_removeRequest id h
  cancel := fun s id tr h _ => NS_cancelRequest id ((ns_tNext s) h)
  expire := fun s h => NS_pollExpired now h
  start := fun s id d tr b h => NS_startRequest now id d tr b h
  timerWaker := fun s b h => NS_of_obs h rfl
where
  ns_tNext (s : St) : NS s → NS (tNext s).1 := fun h => by
    unfold tNext; split
    · exact h
    · simp only; split
      · exact NS_of_obs (NS_emit (NS_of_obs (s := s) h rfl) (by simp)) rfl
      · exact NS_emit (NS_of_obs (s := s) h rfl) (by simp)

/-! ### the measure that bounds the iterations of `basePollNext` -/

def mu (s : St) : Nat := s.cancelQ.length + s.timers.len + s.t.inbound.length

theorem removeTimer_len (s : St) (k : Nat) : (removeTimer s k).timers.len ≤ s.timers.len := by
  unfold removeTimer
  split
  · next q w heq =>
    have := Nat.le_of_lt (DelayQ.remove_len heq)
    simp only; split
    · rw [wakeServer_timers]; exact this
    · exact this
  · exact Nat.le_refl _

theorem removeRequest_len (s : St) (id : Nat) : (removeRequest s id).1.timers.len ≤ s.timers.len := by
  unfold removeRequest
  split
  · exact Nat.le_refl _
  · exact removeTimer_len _ _

theorem cancelRequest_len (s : St) (id : Nat) : (cancelRequest s id).1.timers.len ≤ s.timers.len := by
  unfold cancelRequest
  split
  · exact Nat.le_refl _
  · refine Nat.le_trans (removeTimer_len _ _) ?_
    simp

theorem pollExpired_len (s : St) (now : Nat) :
    (pollExpired s now).1.timers.len ≤ s.timers.len ∧
      ((pollExpired s now).2 = .ready → (pollExpired s now).1.timers.len < s.timers.len) := by
  have hstep : ∀ s : St, (expireStep s now).1.timers.len ≤ s.timers.len ∧
      ((expireStep s now).2 = some .ready → (expireStep s now).1.timers.len < s.timers.len) := by
    intro s
    have hs := expireStep_shape s now
    revert hs; generalize expireStep s now = p; intro hs
    obtain ⟨s', r⟩ := p
    dsimp only at hs ⊢
    cases hs with
    | idleNone q hp => exact ⟨DelayQ.pollExpired_len_le hp, fun h => by cases h⟩
    | idlePending q hp => exact ⟨DelayQ.pollExpired_len_le hp, fun h => by cases h⟩
    | orphan q e hp hf => have := DelayQ.pollExpired_len_lt hp; exact ⟨Nat.le_of_lt this, fun _ => this⟩
    | abort q e en hp hf h0 =>
      have := DelayQ.pollExpired_len_lt hp
      simp only [abortExec_timers]; exact ⟨Nat.le_of_lt this, fun _ => this⟩
    | rearmed q e en s2 hp hf h0 hr =>
      have := DelayQ.pollExpired_len_lt hp
      rcases rearm_cases { s with timers := q } now en with ⟨_, he⟩ | ⟨q', key, w, hi, he⟩
      · rw [he] at hr; cases hr
      · rw [he] at hr; cases hr
        have hl := DelayQ.insert_len hi
        simp only at hl ⊢
        exact ⟨by omega, fun h => by cases h⟩
    | panicked q e en hp hf h0 hr =>
      simp only [emit_timers]; exact ⟨Nat.le_refl _, fun h => by cases h⟩
  have hloop : ∀ (fuel : Nat) (s : St), (pollExpiredLoop fuel s now).1.timers.len ≤ s.timers.len ∧
      ((pollExpiredLoop fuel s now).2 = .ready → (pollExpiredLoop fuel s now).1.timers.len < s.timers.len) := by
    intro fuel
    induction fuel with
    | zero => intro s; rw [pollExpiredLoop_zero]; exact ⟨by simp, fun h => by cases h⟩
    | succ n ih =>
      intro s
      rw [pollExpiredLoop_succ]
      have h1 := hstep s
      revert h1; generalize expireStep s now = p; intro h1
      rcases p with ⟨s', r⟩
      cases r with
      | some r =>
        dsimp only at h1 ⊢
        exact ⟨h1.1, fun h => h1.2 (by rw [h])⟩
      | none =>
        dsimp only at h1 ⊢
        have h2 := ih s'
        exact ⟨by omega, fun h => by have := h2.2 h; omega⟩
  unfold pollExpired
  split
  · exact ⟨Nat.le_refl _, fun h => by cases h⟩
  · exact hloop _ s

theorem tNext_inbound (s : St) :
    (tNext s).1.t.inbound.length ≤ s.t.inbound.length ∧
      (∀ m, (tNext s).2 = .item m → (tNext s).1.t.inbound.length < s.t.inbound.length) := by
  rw [tNext_t, tNext_res]
  split
  · exact ⟨Nat.le_refl _, fun m h => by cases h⟩
  · exact ⟨SimT.pollNext_inbound_le _, fun m h => SimT.pollNext_inbound_lt h⟩

theorem startRequest_none {s : St} {now id d : Nat} {tr : Trace} {b : Nat}
    (h : (startRequest s now id d tr b).2 = none) (hp : (startRequest s now id d tr b).1.poisoned = false) :
    (startRequest s now id d tr b).1 = s := by
  unfold startRequest at *
  by_cases hf : (findEntry s id).isSome = true
  · rw [if_pos hf]
  · rw [if_neg hf] at h hp ⊢
    generalize s.timers.insert now (clampTimeout (d - now)) id = ins at *
    rcases ins with ⟨q, r, w⟩
    cases r with
    | panic => simp [emit] at hp
    | ok k => simp at h

theorem bpCancel_mu (s : St) : mu (bpCancel s).1 ≤ mu s ∧ ((bpCancel s).2 = .ready → mu (bpCancel s).1 < mu s) := by
  unfold bpCancel mu
  split
  · next id rest hq =>
    have := removeRequest_len { s with cancelQ := rest } id
    simp only [removeRequest_cancelQ, removeRequest_t, hq, List.length_cons] at *
    omega
  · exact ⟨Nat.le_refl _, fun h => by cases h⟩

theorem pollExpired_mu (s : St) (now : Nat) :
    mu (pollExpired s now).1 ≤ mu s ∧ ((pollExpired s now).2 = .ready → mu (pollExpired s now).1 < mu s) := by
  have := pollExpired_len s now
  unfold mu
  simp only [pollExpired_cancelQ, pollExpired_t]
  constructor
  · omega
  · intro h; have := this.2 h; omega

theorem tNext_mu (s : St) :
    mu (tNext s).1 ≤ mu s ∧ (∀ m, (tNext s).2 = .item m → mu (tNext s).1 < mu s) := by
  have := tNext_inbound s
  unfold mu
  simp only [tNext_cancelQ, tNext_timers]
  constructor
  · omega
  · intro m hm; have := this.2 m hm; omega

theorem bpOther_mu (s : St) (nx : NextRes) : mu (bpOther s nx).1 ≤ mu s := by
  unfold bpOther
  split
  · have := cancelRequest_len s ‹Nat›
    unfold mu; simp only [cancelRequest_cancelQ, cancelRequest_t]; omega
  all_goals exact Nat.le_refl _

theorem bpOther_ready {s : St} {nx : NextRes} (h : (bpOther s nx).2 = .ready) : ∃ m, nx = .item m := by
  unfold bpOther at h
  split at h
  · exact ⟨_, rfl⟩
  · exact ⟨_, rfl⟩
  · cases h
  · cases h

theorem combine_ready {a b : RStatus} (h : combine a b = .ready) : a = .ready ∨ b = .ready := by
  cases a <;> cases b <;> simp_all [combine]

theorem bpStep_mu (s : St) (now : Nat) (h : (bpStep s now).2 = none) : mu (bpStep s now).1 < mu s := by
  have c1 := bpCancel_mu s
  have c2 := pollExpired_mu (bpCancel s).1 now
  have c3 := tNext_mu (bp2 s now)
  have c5 := bpOther_mu (bp3 s now) (bpNx s now)
  have ho := bpStep_out s now
  generalize bpStep s now = out at *
  cases ho with
  | duplicate id d tr b hp hnx hs hpo =>
    simp only
    rw [startRequest_none hs hpo]
    have := c3.2 _ hnx
    simp only [bp2, bp3] at *; omega
  | again hp hn1 hn2 hpo hc =>
    simp only
    unfold bpSt at hc
    rcases combine_ready hc with h' | h'
    · rcases combine_ready h' with h'' | h''
      · have := c1.2 h''; simp only [bp2, bp3] at *; omega
      · have : (pollExpired (bpCancel s).1 now).2 = .ready := by
          revert h''; cases (pollExpired (bpCancel s).1 now).2 <;> simp [expStatus]
        have := c2.2 this; simp only [bp2, bp3] at *; omega
    · obtain ⟨m, hm⟩ := bpOther_ready h'
      have := c3.2 m hm; simp only [bp2, bp3] at *; omega
  | _ => cases h

theorem bpOther_inbound (s : St) (nx : NextRes) : (bpOther s nx).1.t = s.t := bpOther_t s nx

theorem bpStep_inbound (s : St) (now : Nat) :
    (bpStep s now).1.t.inbound.length ≤ s.t.inbound.length ∧
      (∀ ex, (bpStep s now).2 = some (.some ex) → (bpStep s now).1.t.inbound.length < s.t.inbound.length) := by
  have h2 : (bp2 s now).t = s.t := by simp [bp2, bpCancel_t]
  have c3 := tNext_inbound (bp2 s now)
  rw [h2] at c3
  have ho := bpStep_out s now
  generalize bpStep s now = out at *
  cases ho with
  | poisoned2 => simp only [h2]; exact ⟨Nat.le_refl _, fun ex h => by cases h⟩
  | readErr => exact ⟨c3.1, fun ex h => by cases h⟩
  | started id d tr b ex hp hnx hs =>
    simp only [startRequest_t]
    exact ⟨c3.1, fun _ _ => c3.2 _ hnx⟩
  | startPanic => simp only [startRequest_t]; exact ⟨c3.1, fun ex h => by cases h⟩
  | duplicate => simp only [startRequest_t]; exact ⟨c3.1, fun ex h => by cases h⟩
  | otherPoisoned => simp only [bpOther_t]; exact ⟨c3.1, fun ex h => by cases h⟩
  | again => simp only [bpOther_t]; exact ⟨c3.1, fun ex h => by cases h⟩
  | closed => simp only [bpOther_t]; exact ⟨c3.1, fun ex h => by cases h⟩
  | pending => simp only [bpOther_t]; exact ⟨c3.1, fun ex h => by cases h⟩

theorem basePollNext_inbound (now : Nat) : ∀ (fuel : Nat) (s : St),
    (basePollNext fuel s now).1.t.inbound.length ≤ s.t.inbound.length ∧
      (∀ ex, (basePollNext fuel s now).2 = .some ex → (basePollNext fuel s now).1.t.inbound.length < s.t.inbound.length) := by
  intro fuel
  induction fuel with
  | zero => intro s; exact ⟨Nat.le_refl _, fun ex h => by cases h⟩
  | succ n ih =>
    intro s
    rw [basePollNext_succ]
    have hb := bpStep_inbound s now
    rcases hbs : bpStep s now with ⟨s', r⟩
    rw [hbs] at hb
    cases r with
    | none =>
      have := ih s'
      simp only at hb ⊢
      exact ⟨Nat.le_trans this.1 hb.1, fun ex h => Nat.lt_of_lt_of_le (this.2 ex h) hb.1⟩
    | some r =>
      simp only at hb ⊢
      exact ⟨hb.1, fun ex h => hb.2 ex (by rw [h])⟩

/-- with enough fuel the out-of-fuel exit is never taken -/
theorem basePollNext_loop_fuel (P : St → Prop) (now : Nat) (hstep : ∀ s, P s → P (bpStep s now).1) :
    ∀ fuel s, mu s < fuel → P s → P (basePollNext fuel s now).1 := by
  intro fuel
  induction fuel with
  | zero => intro s h; omega
  | succ n ih =>
    intro s hm h
    rw [basePollNext_succ]
    have := hstep s h
    have hmu := bpStep_mu s now
    rcases hb : bpStep s now with ⟨s', r⟩
    rw [hb] at this hmu
    cases r with
    | none => exact ih s' (by have := hmu rfl; simp only at this; omega) this
    | some r => exact this

theorem NS_basePollNext {s : St} (h : NS s) (now : Nat) : NS (basePollNext (baseFuel s) s now).1 :=
  basePollNext_loop_fuel NS now (ns_closed now).bpStep _ s (by unfold baseFuel mu; omega) h

theorem baseStartSend_inbound (s : St) (id : Nat) (res : Res) :
    (baseStartSend s id res).1.t.inbound = s.t.inbound := by
  unfold baseStartSend
  have := removeRequest_t s id
  split
  · next s' heq => rw [heq] at this; simp only at this ⊢; rw [tSend_t, SimT.startSend_inbound, this]
  · next s' heq => rw [heq] at this; simp only at this ⊢; rw [this]

theorem tReady_inbound (s : St) : (tReady s).1.t.inbound = s.t.inbound := by
  rw [tReady_t, SimT.pollReady_inbound]

theorem NS_limitedLegacy (limit now : Nat) : ∀ (fuel : Nat) (s : St), s.t.inbound.length < fuel → NS s →
    NS (limitedPollNextLegacy limit fuel s now).1 := by
  intro fuel
  induction fuel with
  | zero => intro s h; omega
  | succ n ih =>
    intro s hf h
    unfold limitedPollNextLegacy
    split
    · have h1 := (ns_closed now).tReady s h
      have hi1 := tReady_inbound s
      split
      · next s1 heq => rw [heq] at h1; exact h1
      · next s1 heq => rw [heq] at h1; exact h1
      · next s1 heq =>
        rw [heq] at h1 hi1
        have h2 := NS_basePollNext h1 now
        have hi2 := basePollNext_inbound now (baseFuel s1) s1
        split
        · next s2 ex heq2 =>
          rw [heq2] at h2 hi2
          have h3 := (ns_closed now).baseStartSend s2 ex.id (.err throttleKindIdx) h2
          have hi3 := baseStartSend_inbound s2 ex.id (.err throttleKindIdx)
          split
          · next s3 heq3 => rw [heq3] at h3; exact h3
          · next s3 r hne heq3 =>
            rw [heq3] at h3 hi3
            refine ih _ ?_ (NS_of_obs h3 rfl)
            have := hi2.2 ex rfl
            simp only at hi1 hi3 this
            simp only [limitedPollNextLegacy.markThrottled, updExec_t, hi3]
            rw [hi1] at this
            omega
        · next r hne => exact h2
    · exact NS_basePollNext h now

/-! ### the response queue is only touched by the write pump -/

theorem bpStep_respQ (s : St) (now : Nat) : (bpStep s now).1.respQ = s.respQ := by
  have h2 : (bp2 s now).respQ = s.respQ := by
    simp only [bp2, pollExpired_respQ]; unfold bpCancel; split <;> simp
  have h3 : (bp3 s now).respQ = s.respQ := by simp only [bp3, tNext_respQ, h2]
  have h5 : ∀ nx, (bpOther (bp3 s now) nx).1.respQ = s.respQ := by
    intro nx; unfold bpOther; split <;> simp [h3]
  have ho := bpStep_out s now
  generalize bpStep s now = out at *
  cases ho <;> simp [h2, h3, h5]

theorem basePollNext_respQ (fuel : Nat) (s : St) (now : Nat) : (basePollNext fuel s now).1.respQ = s.respQ :=
  basePollNext_loop (fun s' => s'.respQ = s.respQ) now (fun s' h => by rw [bpStep_respQ]; exact h)
    (fun s' h => h) fuel s rfl

theorem baseStartSend_respQ (s : St) (id : Nat) (res : Res) : (baseStartSend s id res).1.respQ = s.respQ := by
  unfold baseStartSend
  have := removeRequest_respQ s id
  split
  · next s' heq => rw [heq] at this; simp only at this ⊢; rw [tSend_respQ, this]
  · next s' heq => rw [heq] at this; exact this

theorem limitedLegacy_respQ (limit now : Nat) : ∀ (fuel : Nat) (s : St),
    (limitedPollNextLegacy limit fuel s now).1.respQ = s.respQ := by
  intro fuel
  induction fuel with
  | zero => intro s; rfl
  | succ n ih =>
    intro s
    unfold limitedPollNextLegacy
    split
    · have h1 := tReady_respQ s
      split
      · next s1 heq => rw [heq] at h1; exact h1
      · next s1 heq => rw [heq] at h1; exact h1
      · next s1 heq =>
        rw [heq] at h1
        have h2 := basePollNext_respQ (baseFuel s1) s1 now
        split
        · next s2 ex heq2 =>
          rw [heq2] at h2
          have h3 := baseStartSend_respQ s2 ex.id (.err throttleKindIdx)
          split
          · next s3 heq3 => rw [heq3] at h3; simp only at *; rw [h3, h2, h1]
          · next s3 r hne heq3 =>
            rw [heq3] at h3
            rw [ih]; simp only [limitedPollNextLegacy.markThrottled, updExec_respQ] at *; rw [h3, h2, h1]
        · next r hne => simp only at *; rw [h2, h1]
    · exact basePollNext_respQ _ _ _

theorem channelPollNext_respQ {s : St} (hcfg : s.throttleAfterRead = false) (now : Nat) :
    (channelPollNext s now).1.respQ = s.respQ := by
  unfold channelPollNext
  split
  · exact basePollNext_respQ _ _ _
  · simp only [hcfg]; exact limitedLegacy_respQ _ _ _ _

theorem NS_channelPollNext {s : St} (h : NS s) (hcfg : s.throttleAfterRead = false) (now : Nat) :
    NS (channelPollNext s now).1 := by
  unfold channelPollNext
  split
  · exact NS_basePollNext h now
  · simp only [hcfg]; exact NS_limitedLegacy _ _ _ s (by omega) h

theorem ensureOnce_respQ (s : St) : (ensureOnce s).1.respQ = s.respQ := by
  unfold ensureOnce
  have h1 := tReady_respQ s
  split
  · next s1 heq => rw [heq] at h1; exact h1
  · next s1 heq => rw [heq] at h1; exact h1
  · next s1 heq =>
    rw [heq] at h1
    have h2 := tFlush_respQ s1
    split
    · next s2 heq2 => rw [heq2] at h2; simp only at *; rw [h2, h1]
    · next s2 heq2 => rw [heq2] at h2; simp only at *; rw [h2, h1]
    · next s2 heq2 =>
      rw [heq2] at h2
      have h3 := tReady_respQ s2
      split <;> (rename_i heq3; rw [heq3] at h3; simp only at *; rw [h3, h2, h1])

theorem flushArm_respQ (s : St) (rc : Bool) : (flushArm s rc).1.respQ = s.respQ := by
  unfold flushArm
  have h1 := tFlush_respQ s
  split
  · next s1 heq => rw [heq] at h1; exact h1
  · next s1 heq => rw [heq] at h1; exact h1
  · next s1 heq => rw [heq] at h1; split <;> exact h1

/-- `pumpWrite` without the `ensure_writeable` loop: no spin, and a written response leaves the queue -/
theorem pumpWrite_noLoop {s : St} (hel : s.ensureLoop = false) (now : Nat) (rc : Bool) (h : NS s) :
    NS (pumpWrite s rc).1 ∧ ((pumpWrite s rc).2 = .some () → (pumpWrite s rc).1.respQ.length < s.respQ.length) := by
  have hew : ensureWriteable s = ensureOnce s := by unfold ensureWriteable; simp [hel]
  unfold pumpWrite
  rw [hew]
  have h1 := (ns_closed now).ensureOnce s h
  have hq1 := ensureOnce_respQ s
  split
  · next s1 heq =>
    rw [heq] at h1
    refine ⟨(ns_closed now).flushArm _ _ h1, fun hs => ?_⟩
    unfold flushArm at hs
    repeat' split at hs
    all_goals cases hs
  · next s1 a heq => rw [heq] at h1; exact ⟨h1, fun hs => by cases hs⟩
  · next s1 heq => rw [heq] at h1; exact ⟨h1, fun hs => by cases hs⟩
  · next s1 heq =>
    rw [heq] at h1 hq1
    split
    · next id res rest hq =>
      have h2 := (ns_closed now).baseStartSend _ id res
        ((ns_closed now).rqRelease _ (NS_of_obs (s' := { s1 with respQ := rest }) h1 rfl))
      have hq2 := baseStartSend_respQ (rqRelease { s1 with respQ := rest }) id res
      simp only at hq1 ⊢
      have hlen : (baseStartSend (rqRelease { s1 with respQ := rest }) id res).1.respQ.length < s.respQ.length := by
        rw [hq2, rqRelease_respQ, ← hq1, hq]; simp
      split
      · next s3 heq3 => rw [heq3] at h2; exact ⟨h2, fun hs => by cases hs⟩
      · next s3 r hne heq3 => rw [heq3] at h2 hlen; exact ⟨h2, fun _ => hlen⟩
    · refine ⟨(ns_closed now).flushArm _ _ (NS_of_obs h1 rfl), fun hs => ?_⟩
      unfold flushArm at hs
      repeat' split at hs
      all_goals cases hs

theorem armRead_respQ (s : St) (r : SPoll Exec) : (armRead s r).respQ = s.respQ := by
  unfold armRead; split <;> rfl

theorem NS_requestsPollNext (now : Nat) : ∀ (fuel : Nat) (s : St), s.respQ.length < fuel → NS s →
    s.throttleAfterRead = false → s.ensureLoop = false → NS (requestsPollNext fuel s now).1 := by
  intro fuel
  induction fuel with
  | zero => intro s h; omega
  | succ n ih =>
    intro s hf h hcfg hel
    rw [requestsPollNext_succ]
    have h1 := NS_channelPollNext h hcfg now
    have hq1 := channelPollNext_respQ hcfg now
    have hc1 := (cfg_closed s now).channelPollNext s ⟨rfl, rfl, rfl, rfl⟩
    split
    · next s1 a heq => rw [heq] at h1; exact h1
    · next s1 heq => rw [heq] at h1; exact h1
    · next s1 read hne1 hne2 heq =>
      rw [heq] at h1 hq1 hc1
      have h2 : NS (armRead s1 read) := by unfold armRead; split <;> exact NS_of_obs h1 rfl
      have hel2 : (armRead s1 read).ensureLoop = false := by
        unfold armRead; split <;> simpa using hc1.2.2.1.trans hel
      obtain ⟨h3, hq3⟩ := pumpWrite_noLoop hel2 now (readClosedOf read) h2
      have hc3 := (cfg_closed (armRead s1 read) now).pumpWrite (armRead s1 read) (readClosedOf read) ⟨rfl, rfl, rfl, rfl⟩
      split
      · next s3 a heq3 =>
        rw [heq3] at h3
        unfold dropRead
        split
        · exact (ns_closed now).dropOffered _ _ _ h3
        · exact h3
      · next s3 heq3 => rw [heq3] at h3; exact h3
      · next s3 write hne3 hne4 heq3 =>
        rw [heq3] at h3 hq3 hc3
        split
        · exact h3
        · exact h3
        · refine ih _ ?_ h3 ?_ ?_
          · have := hq3 rfl
            simp only [armRead_respQ] at this hq1
            rw [hq1] at this
            omega
          · rw [hc3.2.2.2]; unfold armRead; split <;> simpa using hc1.2.2.2.trans hcfg
          · rw [hc3.2.2.1]; exact hel2
        · exact h3

theorem NS_pskFinish (s : St) (r : ReqPoll) (h : NS s) : NS (pskFinish s r) := by
  unfold pskFinish
  refine NS_emit (NS_emit ?_ (by simp)) (by simp)
  unfold pskRet
  split
  · exact h
  · exact NS_of_obs h rfl
  · exact NS_of_obs h rfl
  · exact h
  · split
    · exact NS_emit (NS_of_obs h rfl) (by simp)
    · exact h

theorem NS_pollServerKeep {s : St} (h : NS s) (hcfg : s.throttleAfterRead = false) (hel : s.ensureLoop = false)
    (now : Nat) : NS (pollServerKeep s now) := by
  rw [pollServerKeep_eq]
  split
  · exact NS_emit h (by simp)
  · have h1 := NS_requestsPollNext now (pollFuel { s with woken := false }) { s with woken := false }
      (by unfold pollFuel; simp only; omega) (NS_of_obs h rfl) hcfg hel
    simp only
    split
    · next hsp =>
      unfold NS at h h1
      simp [h, h1] at hsp
    · split
      · exact h1
      · exact NS_pskFinish _ _ h1

theorem NS_pollServer {s : St} (h : NS s) (hcfg : s.throttleAfterRead = false) (hel : s.ensureLoop = false)
    (now : Nat) : NS (pollServer s now) := by
  unfold pollServer
  simp only
  split
  · exact NS_dropServer (NS_pollServerKeep h hcfg hel now)
  · split
    · exact NS_of_obs (NS_pollServerKeep h hcfg hel now) rfl
    · exact NS_pollServerKeep h hcfg hel now

theorem NS_applyOp (c : Sys) (op : SOp) (h : NS c.s) (hcfg : c.s.throttleAfterRead = false)
    (hel : c.s.ensureLoop = false) : NS (applyOp c op).s := by
  have hc := ns_closed c.now
  cases op with
  | pollServer => exact NS_pollServer h hcfg hel _
  | dropServer => exact NS_dropServer h
  | pollExec r => exact hc.pollExec _ _ _ h
  | dropExec r => exact hc.dropExec _ _ _ h
  | finish r res => exact hc.finishHandler _ _ _ h
  | injectReq id d tr b => exact hc.liftT _ _ h
  | injectCancel id tr => exact hc.liftT _ _ h
  | injectErr => exact hc.liftT _ _ h
  | eof => exact hc.liftT _ _ h
  | setReady b => exact hc.liftT _ _ h
  | setFlush b => exact hc.liftT _ _ h
  | fault k => exact NS_of_obs h rfl
  | faultSkip n => exact NS_of_obs h rfl
  | selfWake b => exact NS_of_obs h rfl
  | take n => exact hc.took _ _ (NS_of_obs (s' := { c.s with t := (c.s.t.take n).1 }) h rfl)
  | advance n => exact hc.onAdvance _ _ h

theorem NS_reach (c : Sys) (h : NS c.s) (hcfg : c.s.throttleAfterRead = false) (hel : c.s.ensureLoop = false)
    (ops : List SOp) : NS (ops.foldl applyOp c).s := by
  induction ops generalizing c with
  | nil => exact h
  | cons op ops ih =>
    simp only [List.foldl_cons]
    have hc := cfg_reach c [op]
    exact ih _ (NS_applyOp c op h hcfg hel) (hc.2.2.2.trans hcfg) (hc.2.2.1.trans hel)

/-! ## C14 flush before idle / C10 orderly end -/

/-- nothing is buffered, or a flush is pending (the transport holds the owner's waker) -/
def FlushedOrArmed (s : St) : Prop := s.t.buffered = [] ∨ s.t.writeWaker = true

theorem tFlush_spec (s : St) :
    ((tFlush s).2 = .pending → (tFlush s).1.t.writeWaker = true) ∧
    ((tFlush s).2 = .ready → (tFlush s).1.t.buffered = []) := by
  rw [tFlush_t, tFlush_res]
  exact ⟨SimT.pollFlush_pending, SimT.pollFlush_ready⟩

theorem flushArm_spec (s : St) (rc : Bool) :
    (((flushArm s rc).2 = .pending ∨ (flushArm s rc).2 = .none) → FlushedOrArmed (flushArm s rc).1) ∧
    ((flushArm s rc).2 = .none → rc = true ∧ (flushArm s rc).1.inflight = [] ∧ (flushArm s rc).1.t.buffered = []) ∧
    (∀ u, (flushArm s rc).2 ≠ .some u) := by
  unfold flushArm
  have hs := tFlush_spec s
  split
  · next s1 heq =>
    rw [heq] at hs
    exact ⟨fun _ => Or.inr (hs.1 rfl), (fun h => by cases h), (fun u h => by cases h)⟩
  · next s1 heq =>
    exact ⟨(fun h => by rcases h with h | h <;> cases h), (fun h => by cases h), (fun u h => by cases h)⟩
  · next s1 heq =>
    rw [heq] at hs
    split
    · next hc =>
      simp only [Bool.and_eq_true, List.isEmpty_iff] at hc
      exact ⟨fun _ => Or.inl (hs.2 rfl), (fun _ => ⟨hc.1, hc.2, hs.2 rfl⟩), (fun u h => by cases h)⟩
    · exact ⟨fun _ => Or.inl (hs.2 rfl), (fun h => by cases h), (fun u h => by cases h)⟩

theorem pumpWrite_spec (s : St) (rc : Bool) :
    (((pumpWrite s rc).2 = .pending ∨ (pumpWrite s rc).2 = .none) → FlushedOrArmed (pumpWrite s rc).1) ∧
    ((pumpWrite s rc).2 = .none → rc = true ∧ (pumpWrite s rc).1.inflight = [] ∧ (pumpWrite s rc).1.t.buffered = []) := by
  unfold pumpWrite
  split
  · next s1 heq => exact ⟨(flushArm_spec s1 rc).1, (flushArm_spec s1 rc).2.1⟩
  · exact ⟨(fun h => by rcases h with h | h <;> cases h), (fun h => by cases h)⟩
  · exact ⟨(fun h => by rcases h with h | h <;> cases h), (fun h => by cases h)⟩
  · next s1 heq =>
    split
    · simp only
      split
      · exact ⟨(fun h => by rcases h with h | h <;> cases h), (fun h => by cases h)⟩
      · exact ⟨(fun h => by rcases h with h | h <;> cases h), (fun h => by cases h)⟩
    · exact ⟨(flushArm_spec _ rc).1, (flushArm_spec _ rc).2.1⟩

/-! `readFused` is never cleared -/

theorem tNext_fused (s : St) : (s.readFused = true ∨ (tNext s).2 = .eof) → (tNext s).1.readFused = true := by
  unfold tNext
  split
  · intro _; assumption
  · simp only
    intro h
    rcases h with h | h
    · split <;> simp [h]
    · simp [h]

theorem fused_closed (now : Nat) : PrimClosed now (fun s => s.readFused = true) where
  inert := fun s s' hi h => by rw [hi.readFused]; exact h
  emit := fun s o _ h => h
  upd := fun s r f _ h => h
  setT := fun s t h => h
  setFused := fun s h => rfl
  removeReq := fun s id h => by simpa using h
  cancel := fun s id tr h _ => by simpa using tNext_fused s (Or.inl h)
  expire := fun s h => by simpa using h
  start := fun s id d tr b h => by simpa using h
  setDone := fun s r h => h
  drop := fun s h => by simpa using h
  timerWaker := fun s b h => h
  spin := fun s h => h
  spunReset := fun s0 s _ h => h

theorem bpOther_closed {s : St} {nx : NextRes} (h : (bpOther s nx).2 = .closed) : nx = .eof ∧ (bpOther s nx).1 = s := by
  unfold bpOther at *
  split at h
  · cases h
  · cases h
  · exact ⟨rfl, rfl⟩
  · cases h

theorem combine_closed {a b : RStatus} (h : combine a b = .closed) : a = .closed ∧ b = .closed := by
  cases a <;> cases b <;> simp_all [combine]

/-- the channel's stream ends only after the transport reported end-of-stream -/
theorem bpStep_none_fused (s : St) (now : Nat) (h : (bpStep s now).2 = some .none) :
    (bpStep s now).1.readFused = true := by
  have ho := bpStep_out s now
  generalize bpStep s now = out at *
  cases ho with
  | closed hp hn1 hn2 hpo hc =>
    unfold bpSt at hc
    obtain ⟨heof, hst⟩ := bpOther_closed (combine_closed hc).2
    simp only [hst]
    exact tNext_fused _ (Or.inr heof)
  | _ => cases h

theorem basePollNext_none_fused (now : Nat) : ∀ (fuel : Nat) (s : St), (basePollNext fuel s now).2 = .none →
    (basePollNext fuel s now).1.readFused = true := by
  intro fuel
  induction fuel with
  | zero => intro s h; cases h
  | succ n ih =>
    intro s
    rw [basePollNext_succ]
    have hb := bpStep_none_fused s now
    rcases hbs : bpStep s now with ⟨s', r⟩
    rw [hbs] at hb
    cases r with
    | none => exact ih s'
    | some r => intro h; simp only at h; exact hb (by rw [h])

theorem limitedLegacy_none_fused (limit now : Nat) : ∀ (fuel : Nat) (s : St),
    (limitedPollNextLegacy limit fuel s now).2 = .none → (limitedPollNextLegacy limit fuel s now).1.readFused = true := by
  intro fuel
  induction fuel with
  | zero => intro s h; cases h
  | succ n ih =>
    intro s
    unfold limitedPollNextLegacy
    split
    · split
      · intro h; cases h
      · intro h; cases h
      · next s1 heq =>
        have h2 := basePollNext_none_fused now (baseFuel s1) s1
        split
        · next s2 ex heq2 =>
          split
          · intro h; cases h
          · exact ih _
        · next r hne => exact h2
    · exact basePollNext_none_fused now _ s

theorem limitedFixed_none_fused (limit now : Nat) : ∀ (fuel : Nat) (s : St),
    (limitedPollNextFixed limit fuel s now).2 = .none → (limitedPollNextFixed limit fuel s now).1.readFused = true := by
  intro fuel
  induction fuel with
  | zero => intro s h; cases h
  | succ n ih =>
    intro s
    rw [limitedPollNextFixed_succ]
    split
    · next s1 r heq =>
      intro h
      simp only at h
      subst h
      unfold fixedPre at heq
      split at heq
      · split at heq <;> cases heq
      · cases heq
    · next s1 heq =>
      have h2 := basePollNext_none_fused now (baseFuel s1) s1
      split
      · next s2 ex heq2 =>
        split
        · split
          · intro h; cases h
          · exact ih _
        · intro h; cases h
      · next r hne => exact h2

theorem channelPollNext_none_fused (s : St) (now : Nat) (h : (channelPollNext s now).2 = .none) :
    (channelPollNext s now).1.readFused = true := by
  unfold channelPollNext at *
  split
  · next hl => simp only [hl] at h; exact basePollNext_none_fused now _ s h
  · next l hl =>
    simp only [hl] at h
    split
    · next ht => rw [if_pos ht] at h; exact limitedFixed_none_fused _ now _ s h
    · next ht => rw [if_neg ht] at h; exact limitedLegacy_none_fused _ now _ s h

/-- **Flush before idle**: when `Requests::poll_next` returns `Pending` or ends, whatever it wrote has
been flushed or the flush is pending with the transport holding the waker; it ends (`None`) only if
the inbound side ended, nothing is in flight and the last flush completed. -/
theorem requestsPollNext_spec (now : Nat) : ∀ (fuel : Nat) (s : St),
    (((requestsPollNext fuel s now).2 = .pending ∨ (requestsPollNext fuel s now).2 = .none) →
        FlushedOrArmed (requestsPollNext fuel s now).1) ∧
    ((requestsPollNext fuel s now).2 = .none →
        (requestsPollNext fuel s now).1.readFused = true ∧ (requestsPollNext fuel s now).1.inflight = [] ∧
        (requestsPollNext fuel s now).1.t.buffered = []) := by
  intro fuel
  induction fuel with
  | zero => intro s; exact ⟨(fun h => by rcases h with h | h <;> cases h), (fun h => by cases h)⟩
  | succ n ih =>
    intro s
    rw [requestsPollNext_succ]
    have hf1 := channelPollNext_none_fused s now
    split
    · exact ⟨(fun h => by rcases h with h | h <;> cases h), (fun h => by cases h)⟩
    · exact ⟨(fun h => by rcases h with h | h <;> cases h), (fun h => by cases h)⟩
    · next s1 read hne1 hne2 heq =>
      rw [heq] at hf1
      have hw := pumpWrite_spec (armRead s1 read) (readClosedOf read)
      have hfw := (fused_closed now).pumpWrite (armRead s1 read) (readClosedOf read)
      split
      · exact ⟨(fun h => by rcases h with h | h <;> cases h), (fun h => by cases h)⟩
      · exact ⟨(fun h => by rcases h with h | h <;> cases h), (fun h => by cases h)⟩
      · next s3 write hne3 hne4 heq3 =>
        rw [heq3] at hw hfw
        split
        · refine ⟨fun _ => hw.1 (Or.inr rfl), fun _ => ⟨hfw ?_, (hw.2 rfl).2⟩⟩
          simpa [armRead] using hf1 rfl
        · exact ⟨(fun h => by rcases h with h | h <;> cases h), (fun h => by cases h)⟩
        · exact ih s3
        · next hn1 hn2 hn3 =>
          refine ⟨fun _ => hw.1 ?_, (fun h => by cases h)⟩
          cases write with
          | pending => exact Or.inl rfl
          | none => exact Or.inr rfl
          | some u => first | exact absurd rfl (hn3 u) | exact absurd rfl (hn2 u) | exact absurd rfl (hn1 u) | (cases u; exact absurd rfl hn3) | (cases u; exact absurd rfl hn2)
          | err a => exact absurd rfl (hne3 a)
          | spin => exact absurd rfl hne4

/-! ## `done` / `dropped` bookkeeping -/

/-- `requestsPollNext` itself never touches `done`, `dropped` -/
theorem dd_closed (d : Option Ret) (b : Bool) (now : Nat) : LoopClosed now (fun s => s.done = d ∧ s.dropped = b) where
  inert := fun s s' hi h => by rw [hi.done, hi.dropped]; exact h
  emit := fun s o _ h => h
  upd := fun s r f _ h => h
  setT := fun s t h => h
  setFused := fun s h => h
  removeReq := fun s id h => by simpa using h
  cancel := fun s id tr h _ => by simpa using h
  expire := fun s h => by simpa using h
  start := fun s id d tr b h => by simpa using h
  timerWaker := fun s b h => h
  spin := fun s h => h

theorem pskRet_done (s : St) (r : ReqPoll) :
    (pskRet s r).1.done = match r with
      | .none => some .readyNone
      | .err a => some (.readyItemErr a)
      | _ => s.done := by
  unfold pskRet
  split <;> try rfl
  split <;> rfl

theorem pskFinish_done (s : St) (r : ReqPoll) : (pskFinish s r).done = (pskRet s r).1.done := rfl

theorem pskRet_frame (s : St) (r : ReqPoll) :
    (pskRet s r).1.dropped = s.dropped ∧ (pskRet s r).1.poisoned = s.poisoned ∧ (pskRet s r).1.readFused = s.readFused ∧
    (pskRet s r).1.inflight = s.inflight ∧ (pskRet s r).1.t = s.t ∧ (pskRet s r).1.timers = s.timers := by
  unfold pskRet
  split <;> try exact ⟨rfl, rfl, rfl, rfl, rfl, rfl⟩
  split <;> exact ⟨rfl, rfl, rfl, rfl, rfl, rfl⟩

/-- The three ways a live poll of the request stream can go. -/
theorem pollServerKeep_cases (s : St) (now : Nat) (hlive : (s.dropped || s.done.isSome || s.poisoned) = false) :
    let p := requestsPollNext (pollFuel { s with woken := false }) { s with woken := false } now
    ((pollServerKeep s now).poisoned = true ∧ (pollServerKeep s now).done = none ∧ (pollServerKeep s now).dropped = false) ∨
    (p.1.poisoned = false ∧ pollServerKeep s now = pskFinish p.1 p.2) := by
  intro p
  have hdd : p.1.done = s.done ∧ p.1.dropped = s.dropped :=
    (dd_closed s.done s.dropped now).requestsPollNext (pollFuel { s with woken := false })
      { s with woken := false } ⟨rfl, rfl⟩
  have hl := hlive
  simp only [Bool.or_eq_false_iff] at hl
  have hd : s.done = none := by
    cases h : s.done
    · rfl
    · rw [h] at hl; simp at hl
  have hk : pollServerKeep s now =
      (if (!hasSpin s.obs && hasSpin p.1.obs) = true then { p.1 with obs := .spin (tid p.1) :: s.obs, poisoned := true }
       else if p.1.poisoned then p.1 else pskFinish p.1 p.2) := by
    rw [pollServerKeep_eq, hlive]; rfl
  rw [hk]
  split
  · exact Or.inl ⟨rfl, hdd.1.trans hd, hdd.2.trans hl.1.1⟩
  · split
    · next hp => exact Or.inl ⟨hp, hdd.1.trans hd, hdd.2.trans hl.1.1⟩
    · next hp => exact Or.inr ⟨by simpa using hp, rfl⟩

theorem pollServerKeep_dead (s : St) (now : Nat) (hdead : (s.dropped || s.done.isSome || s.poisoned) = true) :
    pollServerKeep s now = emit s .noop := by
  rw [pollServerKeep_eq, if_pos hdead]

/-! ## C09: transport failures and how they are reported -/

def failOf : Obs → Option Activity
  | .tReady _ .err => some .ready
  | .tFlush _ .err => some .flush
  | .tNext _ .err => some .read
  | .tSend _ _ false => some .write
  | _ => none

/-- the transport failures observed so far, most recent first -/
def fails (s : St) : List Activity := s.obs.filterMap failOf

theorem fails_emit (s : St) (o : Obs) : fails (emit s o) = (failOf o).toList ++ fails s := by
  unfold fails; simp only [emit_obs, List.filterMap_cons]; cases failOf o <;> rfl

theorem fails_of_obs {s s' : St} (h : s'.obs = s.obs) : fails s' = fails s := by unfold fails; rw [h]

@[simp] theorem fails_emitViolations (s : St) (n : Nat) : fails (emitViolations s n) = fails s := by
  unfold emitViolations
  generalize ((s.t.violations.take (s.t.violations.length - n)).reverse) = l
  induction l generalizing s with
  | nil => rfl
  | cons a l ih => simp only [List.foldl_cons]; rw [ih, fails_emit]; rfl

@[simp] theorem fails_wakeServer (s : St) : fails (wakeServer s) = fails s := by
  unfold wakeServer; split
  · rfl
  · rw [fails_emit]; rfl

@[simp] theorem fails_updExec (s : St) (r : Nat) (f : Exec → Exec) : fails (updExec s r f) = fails s := rfl

@[simp] theorem fails_wakeExec (s : St) (r : Nat) : fails (wakeExec s r) = fails s := by
  unfold wakeExec; repeat' split
  all_goals first | rfl | (rw [fails_emit]; rfl)

@[simp] theorem fails_abortExec (s : St) (r : Nat) : fails (abortExec s r) = fails s := by
  unfold abortExec; repeat' split
  all_goals simp

@[simp] theorem fails_removeTimer (s : St) (k : Nat) : fails (removeTimer s k) = fails s := by
  unfold removeTimer; split
  · simp only; split
    · rw [fails_wakeServer]; rfl
    · rfl
  · rw [fails_emit]; rfl

@[simp] theorem fails_removeRequest (s : St) (id : Nat) : fails (removeRequest s id).1 = fails s := by
  unfold removeRequest; split
  · rfl
  · simp only [fails_removeTimer]; rfl

@[simp] theorem fails_cancelRequest (s : St) (id : Nat) : fails (cancelRequest s id).1 = fails s := by
  unfold cancelRequest; split
  · rfl
  · simp only [fails_removeTimer, fails_abortExec]; rfl

theorem fails_rearm {s s2 : St} {now : Nat} {en : SEntry} (hr : rearm s now en = some s2) : fails s2 = fails s := by
  rcases rearm_cases s now en with ⟨_, he⟩ | ⟨q, key, w, _, he⟩ <;> rw [he] at hr <;> cases hr
  cases w
  · rfl
  · exact fails_wakeServer s

@[simp] theorem fails_pollExpired (s : St) (now : Nat) : fails (pollExpired s now).1 = fails s := by
  refine pollExpired_ind (P := fun s' => fails s' = fails s) now (fun s1 h => ?_) (fun s1 h => ?_) s rfl
  · rw [fails_emit]; exact h
  · rw [← h]
    have hs := expireStep_shape s1 now
    revert hs; generalize expireStep s1 now = p; intro hs
    obtain ⟨s', r⟩ := p
    dsimp only at hs ⊢
    cases hs with
    | idleNone q hp => rfl
    | idlePending q hp => rfl
    | orphan q e hp hf => rfl
    | abort q e en hp hf h0 => simp only [fails_abortExec]; rfl
    | rearmed q e en s2 hp hf h0 hr => rw [fails_rearm hr]; rfl
    | panicked q e en hp hf h0 hr => rw [fails_emit]; rfl

@[simp] theorem fails_startRequest (s : St) (now id d : Nat) (tr : Trace) (b : Nat) :
    fails (startRequest s now id d tr b).1 = fails s := by
  unfold startRequest; split
  · rfl
  · split
    · rw [fails_emit]; rfl
    · simp only; split
      · exact fails_wakeServer s
      · rfl

@[simp] theorem fails_rqRelease (s : St) : fails (rqRelease s) = fails s := by
  unfold rqRelease; split
  · simp only [fails_wakeExec]; rfl
  · rfl

@[simp] theorem fails_dropOffered (s : St) (rid id : Nat) : fails (dropOffered s rid id) = fails s := by
  unfold dropOffered; simp only; split
  · simp only [fails_wakeServer]; rfl
  · rfl

theorem fails_tReady (s : St) :
    fails (tReady s).1 = (if (tReady s).2 = .err then [Activity.ready] else []) ++ fails s := by
  unfold tReady
  simp only
  have : fails (emit (emitViolations { s with t := s.t.pollReady.1 } s.t.violations.length)
      (.tReady (tid s) s.t.pollReady.2.1)) = (if s.t.pollReady.2.1 = .err then [Activity.ready] else []) ++ fails s := by
    rw [fails_emit, fails_emitViolations]
    cases s.t.pollReady.2.1 <;> rfl
  split
  · simp only [fails_wakeServer]; exact this
  · exact this

theorem fails_tFlush (s : St) :
    fails (tFlush s).1 = (if (tFlush s).2 = .err then [Activity.flush] else []) ++ fails s := by
  unfold tFlush
  simp only
  have : fails (emit (emitViolations { s with t := s.t.pollFlush.1 } s.t.violations.length)
      (.tFlush (tid s) s.t.pollFlush.2.1)) = (if s.t.pollFlush.2.1 = .err then [Activity.flush] else []) ++ fails s := by
    rw [fails_emit, fails_emitViolations]
    cases s.t.pollFlush.2.1 <;> rfl
  split
  · simp only [fails_wakeServer]; exact this
  · exact this

theorem fails_tSend (s : St) (m : Msg) :
    fails (tSend s m).1 = (if (tSend s m).2 = false then [Activity.write] else []) ++ fails s := by
  unfold tSend
  simp only
  rw [fails_emit, fails_emitViolations]
  cases (s.t.startSend m).2 <;> rfl

theorem fails_tNext (s : St) :
    fails (tNext s).1 = (if (tNext s).2 = .err then [Activity.read] else []) ++ fails s := by
  unfold tNext
  split
  · rfl
  · simp only
    have : fails (emit { s with t := s.t.pollNext.1 } (.tNext (tid s) s.t.pollNext.2)) =
        (if s.t.pollNext.2 = .err then [Activity.read] else []) ++ fails s := by
      rw [fails_emit]
      cases s.t.pollNext.2 <;> rfl
    split
    · next h => exact (fails_of_obs rfl).trans this
    · exact this

def errOfSP {α : Type} : SPoll α → Option Activity
  | .err a => some a
  | _ => none

def errOfEW : EW → Option Activity
  | .err a => some a
  | _ => none

def errOfRP : ReqPoll → Option Activity
  | .err a => some a
  | _ => none

/-- between `s` and `s'` exactly the transport failure `o` (or none) was observed -/
def ErrShape (s s' : St) (o : Option Activity) : Prop := fails s' = o.toList ++ fails s

theorem ErrShape.refl (s : St) : ErrShape s s none := rfl

theorem ErrShape.of_eq {s s' : St} (h : fails s' = fails s) : ErrShape s s' none := h

theorem ErrShape.trans {s s' s'' : St} {o : Option Activity} (h1 : ErrShape s s' none) (h2 : ErrShape s' s'' o) :
    ErrShape s s'' o := by
  unfold ErrShape at *; rw [h2, h1]; rfl

theorem ErrShape.trans' {s s' s'' : St} {o : Option Activity} (h1 : ErrShape s s' o) (h2 : ErrShape s' s'' none) :
    ErrShape s s'' o := by
  unfold ErrShape at *; rw [h2, h1]; rfl

theorem tReady_shape (s : St) : ErrShape s (tReady s).1 (if (tReady s).2 = .err then some .ready else none) := by
  unfold ErrShape; rw [fails_tReady]; split <;> rfl

theorem tFlush_shape (s : St) : ErrShape s (tFlush s).1 (if (tFlush s).2 = .err then some .flush else none) := by
  unfold ErrShape; rw [fails_tFlush]; split <;> rfl

theorem tSend_shape (s : St) (m : Msg) :
    ErrShape s (tSend s m).1 (if (tSend s m).2 = false then some .write else none) := by
  unfold ErrShape; rw [fails_tSend]; split <;> rfl

theorem tNext_shape (s : St) : ErrShape s (tNext s).1 (if (tNext s).2 = .err then some .read else none) := by
  unfold ErrShape; rw [fails_tNext]; split <;> rfl

theorem bpCancel_fails (s : St) : fails (bpCancel s).1 = fails s := by
  unfold bpCancel; split
  · simp only [fails_removeRequest]; rfl
  · rfl

theorem bpOther_fails (s : St) (nx : NextRes) : fails (bpOther s nx).1 = fails s := by
  unfold bpOther; split <;> simp

theorem bpStep_shape (s : St) (now : Nat) :
    ErrShape s (bpStep s now).1 (match (bpStep s now).2 with | some r => errOfSP r | none => none) ∧
    (∀ a, (bpStep s now).2 = some (.err a) → a = .read) := by
  have h2 : fails (bp2 s now) = fails s := by simp [bp2, bpCancel_fails]
  have h3 := tNext_shape (bp2 s now)
  have ho := bpStep_out s now
  generalize bpStep s now = out at *
  cases ho with
  | poisoned2 => exact ⟨ErrShape.of_eq h2, fun a h => by cases h⟩
  | readErr hp hnx =>
    refine ⟨?_, fun a h => by cases h; rfl⟩
    unfold bpNx at hnx
    rw [hnx] at h3
    exact ErrShape.trans (ErrShape.of_eq h2) h3
  | started id d tr b ex hp hnx hs =>
    refine ⟨?_, fun a h => by cases h⟩
    unfold bpNx at hnx; rw [hnx] at h3
    exact ErrShape.trans (ErrShape.of_eq h2) (ErrShape.trans h3 (ErrShape.of_eq (by simp [bp3])))
  | startPanic id d tr b hp hnx hs hpo =>
    refine ⟨?_, fun a h => by cases h⟩
    unfold bpNx at hnx; rw [hnx] at h3
    exact ErrShape.trans (ErrShape.of_eq h2) (ErrShape.trans h3 (ErrShape.of_eq (by simp [bp3])))
  | duplicate id d tr b hp hnx hs hpo =>
    refine ⟨?_, fun a h => by cases h⟩
    unfold bpNx at hnx; rw [hnx] at h3
    exact ErrShape.trans (ErrShape.of_eq h2) (ErrShape.trans h3 (ErrShape.of_eq (by simp [bp3])))
  | otherPoisoned hp hn1 hn2 hpo =>
    refine ⟨?_, fun a h => by cases h⟩
    unfold bpNx at hn1; rw [if_neg hn1] at h3
    exact ErrShape.trans (ErrShape.of_eq h2) (ErrShape.trans h3 (ErrShape.of_eq (by simp [bp3, bpOther_fails])))
  | again hp hn1 hn2 hpo hc =>
    refine ⟨?_, fun a h => by cases h⟩
    unfold bpNx at hn1; rw [if_neg hn1] at h3
    exact ErrShape.trans (ErrShape.of_eq h2) (ErrShape.trans h3 (ErrShape.of_eq (by simp [bp3, bpOther_fails])))
  | closed hp hn1 hn2 hpo hc =>
    refine ⟨?_, fun a h => by cases h⟩
    unfold bpNx at hn1; rw [if_neg hn1] at h3
    exact ErrShape.trans (ErrShape.of_eq h2) (ErrShape.trans h3 (ErrShape.of_eq (by simp [bp3, bpOther_fails])))
  | pending hp hn1 hn2 hpo hc =>
    refine ⟨?_, fun a h => by cases h⟩
    unfold bpNx at hn1; rw [if_neg hn1] at h3
    exact ErrShape.trans (ErrShape.of_eq h2) (ErrShape.trans h3 (ErrShape.of_eq (by simp [bp3, bpOther_fails])))

theorem basePollNext_shape (now : Nat) : ∀ (fuel : Nat) (s : St),
    ErrShape s (basePollNext fuel s now).1 (errOfSP (basePollNext fuel s now).2) ∧
    (∀ a, (basePollNext fuel s now).2 = .err a → a = .read) := by
  intro fuel
  induction fuel with
  | zero => intro s; exact ⟨ErrShape.of_eq (by rw [basePollNext_zero, fails_emit]; rfl), fun a h => by cases h⟩
  | succ n ih =>
    intro s
    rw [basePollNext_succ]
    have hb := bpStep_shape s now
    rcases hbs : bpStep s now with ⟨s', r⟩
    rw [hbs] at hb
    cases r with
    | none => exact ⟨ErrShape.trans hb.1 (ih s').1, (ih s').2⟩
    | some r => exact ⟨hb.1, fun a h => hb.2 a (by simp only at h; rw [h])⟩

theorem baseStartSend_shape (s : St) (id : Nat) (res : Res) :
    ErrShape s (baseStartSend s id res).1 (if (baseStartSend s id res).2 = some false then some .write else none) := by
  unfold baseStartSend
  have h1 := fails_removeRequest s id
  split
  · next s' heq =>
    rw [heq] at h1
    have h2 := tSend_shape s' (.response id res)
    simp only
    by_cases hok : (tSend s' (.response id res)).2 = false
    · rw [if_pos hok] at h2; rw [if_pos (by rw [hok])]; exact ErrShape.trans (ErrShape.of_eq h1) h2
    · rw [if_neg hok] at h2; rw [if_neg (fun h => hok (Option.some.inj h))]
      exact ErrShape.trans (ErrShape.of_eq h1) h2
  · next s' heq => rw [heq] at h1; exact ErrShape.of_eq h1

theorem limitedLegacy_shape (limit now : Nat) : ∀ (fuel : Nat) (s : St),
    ErrShape s (limitedPollNextLegacy limit fuel s now).1 (errOfSP (limitedPollNextLegacy limit fuel s now).2) := by
  intro fuel
  induction fuel with
  | zero => intro s; exact ErrShape.of_eq (by unfold limitedPollNextLegacy; rw [fails_emit]; rfl)
  | succ n ih =>
    intro s
    unfold limitedPollNextLegacy
    split
    · have h1 := tReady_shape s
      split
      · next s1 heq => rw [heq] at h1; exact h1
      · next s1 heq => rw [heq] at h1; exact h1
      · next s1 heq =>
        rw [heq] at h1
        have h2 := (basePollNext_shape now (baseFuel s1) s1).1
        split
        · next s2 ex heq2 =>
          rw [heq2] at h2
          have h3 := baseStartSend_shape s2 ex.id (.err throttleKindIdx)
          split
          · next s3 heq3 => rw [heq3] at h3; exact ErrShape.trans h1 (ErrShape.trans h2 h3)
          · next s3 r hne heq3 =>
            rw [heq3] at h3
            have h3' : ErrShape s2 s3 none := by
              simp only at h3
              rw [if_neg (fun h => hne h)] at h3
              exact h3
            exact ErrShape.trans h1 (ErrShape.trans h2 (ErrShape.trans h3' (ErrShape.trans (ErrShape.of_eq rfl) (ih _))))
        · next r hne => exact ErrShape.trans h1 h2
    · exact (basePollNext_shape now _ s).1

theorem fixedPre_shape (limit : Nat) (s : St) :
    ErrShape s (fixedPre limit s).1 (match (fixedPre limit s).2 with | some r => errOfSP r | none => none) := by
  unfold fixedPre
  split
  · have h1 := tReady_shape s
    split <;> (rename_i heq; rw [heq] at h1; exact h1)
  · exact ErrShape.refl s

theorem limitedFixed_shape (limit now : Nat) : ∀ (fuel : Nat) (s : St),
    ErrShape s (limitedPollNextFixed limit fuel s now).1 (errOfSP (limitedPollNextFixed limit fuel s now).2) := by
  intro fuel
  induction fuel with
  | zero => intro s; exact ErrShape.of_eq (by unfold limitedPollNextFixed; rw [fails_emit]; rfl)
  | succ n ih =>
    intro s
    rw [limitedPollNextFixed_succ]
    have h1 := fixedPre_shape limit s
    split
    · next s1 r heq => rw [heq] at h1; exact h1
    · next s1 heq =>
      rw [heq] at h1
      have h2 := (basePollNext_shape now (baseFuel s1) s1).1
      split
      · next s2 ex heq2 =>
        rw [heq2] at h2
        split
        · have h3 := baseStartSend_shape s2 ex.id (.err throttleKindIdx)
          split
          · next s3 heq3 => rw [heq3] at h3; exact ErrShape.trans h1 (ErrShape.trans h2 h3)
          · next s3 r hne heq3 =>
            rw [heq3] at h3
            have h3' : ErrShape s2 s3 none := by
              simp only at h3
              rw [if_neg (fun h => hne h)] at h3
              exact h3
            exact ErrShape.trans h1 (ErrShape.trans h2 (ErrShape.trans h3' (ErrShape.trans (ErrShape.of_eq rfl) (ih _))))
        · exact ErrShape.trans h1 h2
      · next r hne => exact ErrShape.trans h1 h2

theorem channelPollNext_shape (s : St) (now : Nat) :
    ErrShape s (channelPollNext s now).1 (errOfSP (channelPollNext s now).2) := by
  unfold channelPollNext
  split
  · exact (basePollNext_shape now _ s).1
  · split
    · exact limitedFixed_shape _ now _ s
    · exact limitedLegacy_shape _ now _ s

theorem ensureOnce_shape (s : St) : ErrShape s (ensureOnce s).1 (errOfEW (ensureOnce s).2) := by
  unfold ensureOnce
  have h1 := tReady_shape s
  split
  · next s1 heq => rw [heq] at h1; exact h1
  · next s1 heq => rw [heq] at h1; exact h1
  · next s1 heq =>
    rw [heq] at h1
    have h2 := tFlush_shape s1
    split
    · next s2 heq2 => rw [heq2] at h2; exact ErrShape.trans h1 h2
    · next s2 heq2 => rw [heq2] at h2; exact ErrShape.trans h1 h2
    · next s2 heq2 =>
      rw [heq2] at h2
      have h3 := tReady_shape s2
      split <;> (rename_i heq3; rw [heq3] at h3; exact ErrShape.trans h1 (ErrShape.trans h2 h3))

theorem ensureLoop_shape : ∀ (fuel : Nat) (s : St), ErrShape s (ensureLoop fuel s).1 (errOfEW (ensureLoop fuel s).2) := by
  intro fuel
  induction fuel with
  | zero => intro s; exact ErrShape.of_eq (by unfold ensureLoop; rw [fails_emit]; rfl)
  | succ n ih =>
    intro s
    unfold ensureLoop
    have h1 := tReady_shape s
    split
    · next s1 heq => rw [heq] at h1; exact h1
    · next s1 heq => rw [heq] at h1; exact h1
    · next s1 heq =>
      rw [heq] at h1
      have h2 := tFlush_shape s1
      split
      · next s2 heq2 => rw [heq2] at h2; exact ErrShape.trans h1 h2
      · next s2 heq2 => rw [heq2] at h2; exact ErrShape.trans h1 h2
      · next s2 heq2 => rw [heq2] at h2; exact ErrShape.trans h1 (ErrShape.trans h2 (ih s2))

theorem ensureWriteable_shape (s : St) : ErrShape s (ensureWriteable s).1 (errOfEW (ensureWriteable s).2) := by
  unfold ensureWriteable
  split
  · exact ensureLoop_shape _ s
  · exact ensureOnce_shape s

theorem flushArm_shape (s : St) (rc : Bool) : ErrShape s (flushArm s rc).1 (errOfSP (flushArm s rc).2) := by
  unfold flushArm
  have h1 := tFlush_shape s
  split
  · next s1 heq => rw [heq] at h1; exact h1
  · next s1 heq => rw [heq] at h1; exact h1
  · next s1 heq => rw [heq] at h1; split <;> exact h1

theorem pumpWrite_shape (s : St) (rc : Bool) : ErrShape s (pumpWrite s rc).1 (errOfSP (pumpWrite s rc).2) := by
  unfold pumpWrite
  have h1 := ensureWriteable_shape s
  split
  · next s1 heq => rw [heq] at h1; exact ErrShape.trans h1 (flushArm_shape s1 rc)
  · next s1 a heq => rw [heq] at h1; exact h1
  · next s1 heq => rw [heq] at h1; exact h1
  · next s1 heq =>
    rw [heq] at h1
    split
    · next id res rest hq =>
      have h2 := baseStartSend_shape (rqRelease { s1 with respQ := rest }) id res
      have h0 : ErrShape s1 (rqRelease { s1 with respQ := rest }) none := ErrShape.of_eq (by simp; rfl)
      simp only
      split
      · next s3 heq3 => rw [heq3] at h2; exact ErrShape.trans h1 (ErrShape.trans h0 h2)
      · next s3 r hne heq3 =>
        rw [heq3] at h2
        simp only at h2
        rw [if_neg (fun h => hne h)] at h2
        exact ErrShape.trans h1 (ErrShape.trans h0 h2)
    · exact ErrShape.trans h1 (ErrShape.trans (ErrShape.of_eq rfl) (flushArm_shape _ rc))

theorem requestsPollNext_shape (now : Nat) : ∀ (fuel : Nat) (s : St),
    ErrShape s (requestsPollNext fuel s now).1 (errOfRP (requestsPollNext fuel s now).2) := by
  intro fuel
  induction fuel with
  | zero => intro s; exact ErrShape.of_eq (by unfold requestsPollNext; rw [fails_emit]; rfl)
  | succ n ih =>
    intro s
    rw [requestsPollNext_succ]
    have h1 := channelPollNext_shape s now
    split
    · next s1 a heq => rw [heq] at h1; exact h1
    · next s1 heq => rw [heq] at h1; exact h1
    · next s1 read hne1 hne2 heq =>
      rw [heq] at h1
      have h1' : ErrShape s s1 none := by
        cases read <;> first | exact h1 | exact absurd rfl (hne1 _) 
      have h2 : ErrShape s1 (armRead s1 read) none := ErrShape.of_eq (by unfold armRead; split <;> rfl)
      have h3 := pumpWrite_shape (armRead s1 read) (readClosedOf read)
      split
      · next s3 a heq3 =>
        rw [heq3] at h3
        refine ErrShape.trans h1' (ErrShape.trans h2 (ErrShape.trans' h3 (ErrShape.of_eq ?_)))
        unfold dropRead; split <;> simp
      · next s3 heq3 => rw [heq3] at h3; exact ErrShape.trans h1' (ErrShape.trans h2 h3)
      · next s3 write hne3 hne4 heq3 =>
        rw [heq3] at h3
        have h3' : ErrShape (armRead s1 read) s3 none := by
          cases write <;> first | exact h3 | exact absurd rfl (hne3 _)
        have h13 := ErrShape.trans h1' (ErrShape.trans h2 h3')
        split
        · exact h13
        · exact h13
        · exact ErrShape.trans h13 (ih s3)
        · exact h13

end Server.Flow
end TarpcModel

import TarpcModel.Lemmas.ServerDelayQBridge
/-!
The pre/post form of "the server aborts at the deadline": a tracked request that is *due* when
`BaseChannel::poll_next` is called (its timer tick has passed and nothing is left to arm after taking off the lateness)
stays due — it is never re-armed — until it is removed, and it is removed either by the expiry path or by a `Cancel`
(both abort the handler) or by a queued guard cancellation (the application had already dropped the request).  Since an
idle poll leaves no due timer behind (`basePollNext_idle_timers`), such a request is gone when the poll goes idle.
-/
namespace TarpcModel.Server.Flow
open TarpcModel

/-- every execution with rid `rid` has its abort flag set -/
def Ab (rid : Nat) (s : St) : Prop := ∀ ex ∈ s.execs, ex.rid = rid → ex.aborted = true

theorem Ab.of_execs {rid : Nat} {s s' : St} (h : Ab rid s) (he : s'.execs = s.execs) : Ab rid s' := by
  unfold Ab; rw [he]; exact h

theorem Ab.abortExec {rid : Nat} {s : St} (h : Ab rid s) (r : Nat) : Ab rid (Server.abortExec s r) := by
  obtain ⟨g, hg, hm, _⟩ := abortExec_map s r
  intro ex hex hr
  rw [hg] at hex
  obtain ⟨e0, he0, rfl⟩ := List.mem_map.1 hex
  exact hm.keep e0 (h e0 he0 (by rw [← hm.rid e0]; exact hr))

theorem Ab.of_abortExec (s : St) (rid : Nat) : Ab rid (Server.abortExec s rid) := by
  obtain ⟨g, hg, hm, hset⟩ := abortExec_map s rid
  intro ex hex hr
  rw [hg] at hex
  obtain ⟨e0, he0, rfl⟩ := List.mem_map.1 hex
  exact hset e0 he0 (by rw [← hm.rid e0]; exact hr)

/-- the tracked entry with id `id` (guarding execution `rid`) is due for expiry at `now`: its timer tick has passed and
nothing of its remainder is left after taking off the lateness (measured from the exact due time `dueAt`) -/
def DueEntry (id rid now : Nat) (s : St) : Prop :=
  ∃ en ∈ s.inflight, en.id = id ∧ en.rid = rid ∧ ∃ k ∈ s.timers.cores, k.1 = en.timerKey ∧
    k.2.2 * nsPerMs ≤ now ∧ en.remainder ≤ now - en.dueAt

/-- no entry with id `id` is tracked, and if it was not a queued guard cancellation (`cq0`) that removed it, every
execution with rid `rid` has been aborted -/
def Gone (id rid : Nat) (cq0 : List Nat) (s : St) : Prop :=
  (∀ en ∈ s.inflight, en.id ≠ id) ∧ (id ∈ cq0 ∨ Ab rid s)

structure DueOr (id rid now : Nat) (cq0 : List Nat) (s : St) : Prop where
  cq : ∀ x ∈ s.cancelQ, x ∈ cq0
  st : DueEntry id rid now s ∨ Gone id rid cq0 s

variable {id rid now : Nat} {cq0 : List Nat}

/-- distinct tracked entries have distinct timer keys -/
theorem TInv.key_ne {s : St} (h : TInv now s) {a b : SEntry} (ha : a ∈ s.inflight) (hb : b ∈ s.inflight)
    (hne : a.id ≠ b.id) : a.timerKey ≠ b.timerKey := by
  intro hk
  obtain ⟨c, hc, hck, hcv⟩ := h.fwd a ha
  obtain ⟨c', hc', hck', hcv'⟩ := h.fwd b hb
  have : c = c' := DelayQ.cores_key_unique h.wf hc hc' (by rw [hck, hck', hk])
  subst this
  exact hne (hcv.symm.trans hcv')

theorem DueOr.same {s s' : St} (hd : DueOr id rid now cq0 s) (hi : s'.inflight = s.inflight)
    (hc : ∀ c, c ∈ s'.timers.cores ↔ c ∈ s.timers.cores) (he : s'.execs = s.execs)
    (hq : ∀ x ∈ s'.cancelQ, x ∈ s.cancelQ) : DueOr id rid now cq0 s' := by
  refine ⟨fun x hx => hd.cq x (hq x hx), ?_⟩
  rcases hd.st with ⟨en, hen, h1, h2, k, hk, h3, h4, h5⟩ | ⟨hno, hw⟩
  · exact .inl ⟨en, hi ▸ hen, h1, h2, k, (hc k).2 hk, h3, h4, h5⟩
  · exact .inr ⟨hi ▸ hno, hw.imp (fun x => x) (fun h => h.of_execs he)⟩

/-- the entry `e` is removed together with its timer -/
theorem DueOr.removed {s s' : St} (h : TInv now s) (hd : DueOr id rid now cq0 s) {e : SEntry} (he : e ∈ s.inflight)
    (hi : s'.inflight = s.inflight.filter (·.id != e.id))
    (hc : ∀ c, c ∈ s'.timers.cores ↔ c ∈ s.timers.cores ∧ c.1 ≠ e.timerKey)
    (hq : ∀ x ∈ s'.cancelQ, x ∈ s.cancelQ) (hab : Ab rid s → Ab rid s')
    (hwhy : e.id = id → e.rid = rid → id ∈ cq0 ∨ Ab rid s') : DueOr id rid now cq0 s' := by
  refine ⟨fun x hx => hd.cq x (hq x hx), ?_⟩
  rcases hd.st with ⟨en, hen, h1, h2, k, hk, h3, h4, h5⟩ | ⟨hno, hw⟩
  · by_cases hid : e.id = id
    · right
      have hee : en = e := eq_of_map_nodup (·.id) h.ids hen he (h1.trans hid.symm)
      subst hee
      refine ⟨?_, hwhy hid h2⟩
      intro en' hen'
      rw [hi] at hen'
      have := (List.mem_filter.1 hen').2
      simp only [bne_iff_ne, ne_eq] at this
      rw [← hid]; exact this
    · left
      have hne : en.id ≠ e.id := fun hh => hid (hh.symm.trans h1)
      refine ⟨en, ?_, h1, h2, k, (hc k).2 ⟨hk, ?_⟩, h3, h4, h5⟩
      · rw [hi]; exact List.mem_filter.2 ⟨hen, by simpa using hne⟩
      · rw [h3]; exact h.key_ne hen he hne
  · right
    refine ⟨?_, hw.imp (fun x => x) hab⟩
    intro en' hen'
    rw [hi] at hen'
    exact hno en' (List.mem_filter.1 hen').1

/-- another entry's timer is re-armed -/
theorem DueOr.rearmedOther {s s' : St} (h : TInv now s) (hd : DueOr id rid now cq0 s) {e : SEntry} (he : e ∈ s.inflight)
    (hne : e.id ≠ id) (key t : Nat)
    (hi : s'.inflight = s.inflight.map (rearmUpd e.id key t))
    (hc : ∀ c, c ∈ s.timers.cores → c.1 ≠ e.timerKey → c ∈ s'.timers.cores)
    (hex : s'.execs = s.execs) (hq : ∀ x ∈ s'.cancelQ, x ∈ s.cancelQ) : DueOr id rid now cq0 s' := by
  refine ⟨fun x hx => hd.cq x (hq x hx), ?_⟩
  rcases hd.st with ⟨en, hen, h1, h2, k, hk, h3, h4, h5⟩ | ⟨hno, hw⟩
  · left
    have hne' : en.id ≠ e.id := fun hh => hne (hh.symm.trans h1)
    refine ⟨en, ?_, h1, h2, k, hc k hk ?_, h3, h4, h5⟩
    · rw [hi]; exact List.mem_map.2 ⟨en, hen, rearmUpd_ne hne'⟩
    · rw [h3]; exact h.key_ne hen he hne'
  · right
    refine ⟨?_, hw.imp (fun x => x) (fun h => h.of_execs hex)⟩
    intro en' hen'
    rw [hi] at hen'
    obtain ⟨x, hx, rfl⟩ := List.mem_map.1 hen'
    rw [rearmUpd_id]; exact hno x hx

theorem DueOr.removeReq {s : St} (h : TInv now s) (hd : DueOr id rid now cq0 s) (x : Nat) (hx : x ∈ cq0) :
    DueOr id rid now cq0 (removeRequest s x).1 := by
  unfold Server.removeRequest
  split
  · exact hd
  · next e hf =>
    obtain ⟨hen, hid⟩ := findEntry_some hf
    obtain ⟨q', w, hr⟩ := h.remove_some hen
    unfold removeTimer
    simp only [hr]
    subst hid
    have hcore : DueOr id rid now cq0 { s with inflight := s.inflight.filter (·.id != e.id), timers := q' } :=
      hd.removed h hen rfl (DelayQ.remove_some hr).2 (fun _ hx => hx) (fun ha => ha.of_execs rfl)
        (fun hid _ => .inl (hid ▸ hx))
    split
    · exact hcore.same (wakeServer_inflight _) (fun c => by rw [wakeServer_timers]) (wakeServer_execs _)
        (fun x hx => by rw [wakeServer_cancelQ] at hx; exact hx)
    · exact hcore

theorem DueOr.cancelReq {s : St} (h : TInv now s) (hd : DueOr id rid now cq0 s) (x : Nat) :
    DueOr id rid now cq0 (cancelRequest s x).1 := by
  unfold Server.cancelRequest
  split
  · exact hd
  · next e hf =>
    obtain ⟨hen, hid⟩ := findEntry_some hf
    obtain ⟨q', w, hr⟩ := h.remove_some hen
    unfold removeTimer
    simp only [abortExec_timers, hr]
    subst hid
    have hcore : DueOr id rid now cq0
        { abortExec { s with inflight := s.inflight.filter (·.id != e.id) } e.rid with timers := q' } :=
      hd.removed h hen (by simp) (by simpa using (DelayQ.remove_some hr).2)
        (fun x hx => by simpa using hx)
        (fun ha => (Ab.abortExec (s := { s with inflight := s.inflight.filter (·.id != e.id) })
          (ha.of_execs rfl) e.rid).of_execs rfl)
        (fun _ hrid => .inr (by
          rw [← hrid]
          exact (Ab.of_abortExec { s with inflight := s.inflight.filter (·.id != e.id) } e.rid).of_execs rfl))
    split
    · exact hcore.same (wakeServer_inflight _) (fun c => by rw [wakeServer_timers]) (wakeServer_execs _)
        (fun x hx => by rw [wakeServer_cancelQ] at hx; exact hx)
    · exact hcore

/-- the entry `poll_expired` finds for a timer the queue yielded has that timer's key -/
theorem TInv.found_key {s : St} (h : TInv now s) {q : DelayQ} {e : DqEntry} {en : SEntry}
    (hp : s.timers.pollExpired now = (q, .expired e)) (hf : findEntry { s with timers := q } e.val = some en) :
    en ∈ s.inflight ∧ en.id = e.val ∧ en.timerKey = e.key := by
  obtain ⟨hen, hid⟩ := findEntry_some hf
  refine ⟨hen, hid, ?_⟩
  obtain ⟨en', hen', hk', hv'⟩ := h.bwd _ (DelayQ.pollExpired_expired hp h.wf).1
  have : en' = en := eq_of_map_nodup (·.id) h.ids hen' hen (by rw [hv', hid]; rfl)
  subst this
  exact hk'

theorem DueOr.expireStep {s : St} (h : TInv now s) (hd : DueOr id rid now cq0 s) :
    DueOr id rid now cq0 (Server.expireStep s now).1 := by
  have hs := expireStep_shape s now
  revert hs
  generalize Server.expireStep s now = p
  intro hs
  obtain ⟨s', r⟩ := p
  dsimp only at hs ⊢
  cases hs with
  | idleNone q hp =>
    exact hd.same rfl (DelayQ.pollExpired_other hp h.wf (fun _ hh => by cases hh)) rfl (fun _ hx => hx)
  | idlePending q hp =>
    exact hd.same rfl (DelayQ.pollExpired_other hp h.wf (fun _ hh => by cases hh)) rfl (fun _ hx => hx)
  | orphan q e hp hf =>
    exfalso
    obtain ⟨en', hen', _, hv'⟩ := h.bwd _ (DelayQ.pollExpired_expired hp h.wf).1
    exact findEntry_none hf en' hen' hv'
  | abort q e en hp hf h0 =>
    obtain ⟨hen, hid, hkey⟩ := h.found_key hp hf
    refine hd.removed h hen (by simp [hid]) ?_ (fun x hx => by simpa using hx)
      (fun ha => Ab.abortExec (s := { s with timers := q, inflight := s.inflight.filter (·.id != e.val) })
          (ha.of_execs rfl) en.rid)
      (fun _ hrid => .inr (by rw [← hrid]; exact Ab.of_abortExec _ en.rid))
    intro c
    rw [abortExec_timers, hkey]
    exact (DelayQ.pollExpired_expired hp h.wf).2 c
  | rearmed q e en s2 hp hf h0 hr =>
    obtain ⟨hen, hid, hkey⟩ := h.found_key hp hf
    obtain ⟨q2, key, w, hins, rfl⟩ := rearm_some hr
    have hfr := rearm_frame hr
    have hcores : ∀ c, c ∈ s.timers.cores → c.1 ≠ en.timerKey → c ∈ q2.cores := by
      intro c hc hne
      exact ((DelayQ.insert_ok hins).2.2 c).2 (.inl (((DelayQ.pollExpired_expired hp h.wf).2 c).2 ⟨hc, hkey ▸ hne⟩))
    by_cases hval : en.id = id
    · -- a due entry is never re-armed
      exfalso
      rcases hd.st with ⟨en', hen', h1, h2, k, hk, h3, h4, h5⟩ | ⟨hno, _⟩
      · have hee : en' = en := eq_of_map_nodup (·.id) h.ids hen' hen (h1.trans hval.symm)
        subst hee
        have hkc : k = DelayQ.core e :=
          DelayQ.cores_key_unique h.wf hk (DelayQ.pollExpired_expired hp h.wf).1 (by rw [h3, hkey]; rfl)
        subst hkc
        apply h0
        show en'.remainder - (now - en'.dueAt) = 0
        omega
      · exact hno en hen hval
    · refine hd.rearmedOther h hen hval key now ?_ hcores ?_ ?_
      · cases w <;> simp
      · cases w <;> simp
      · intro x hx
        have : x ∈ ({ s with timers := q } : St).cancelQ := by
          cases w
          · simpa using hx
          · simpa using hx
        exact this
  | panicked q e en hp hf h0 hr =>
    exact hd.same rfl (fun _ => Iff.rfl) rfl (fun _ hx => hx)

theorem DueOr.expire {s : St} (h : TInv now s) (hd : DueOr id rid now cq0 s) :
    DueOr id rid now cq0 (pollExpired s now).1 :=
  (pollExpired_ind (P := fun s => TInv now s ∧ DueOr id rid now cq0 s) now
    (fun _ h1 => ⟨h1.1.of_sim rfl rfl (ExecsSim.refl _), h1.2.same rfl (fun _ => Iff.rfl) rfl (fun _ hx => hx)⟩)
    (fun _ h1 => ⟨h1.1.expireStep, h1.2.expireStep h1.1⟩) s ⟨h, hd⟩).2

theorem DueOr.bpCancel {s : St} (h : TInv now s) (hd : DueOr id rid now cq0 s) :
    DueOr id rid now cq0 (Flow.bpCancel s).1 := by
  unfold Flow.bpCancel
  cases hq : s.cancelQ with
  | nil => dsimp only; exact hd.same rfl (fun _ => Iff.rfl) rfl (fun _ hx => by rw [hq]; exact hx)
  | cons x rest =>
    dsimp only
    have hd' : DueOr id rid now cq0 { s with cancelQ := rest } :=
      hd.same rfl (fun _ => Iff.rfl) rfl (fun y hy => by rw [hq]; exact List.mem_cons_of_mem _ hy)
    exact DueOr.removeReq (s := { s with cancelQ := rest }) (h.of_sim rfl rfl (ExecsSim.refl _)) hd' x (hd.cq x (by rw [hq]; exact List.mem_cons_self))

theorem DueOr.bpOther {s : St} (h : TInv now s) (hd : DueOr id rid now cq0 s) (nx : NextRes) :
    DueOr id rid now cq0 (Flow.bpOther s nx).1 := by
  unfold Flow.bpOther
  split
  · exact hd.cancelReq h _
  · exact hd
  · exact hd
  · exact hd

/-- one iteration of `BaseChannel::poll_next` that goes round again or goes idle keeps "due or gone" -/
theorem bpStep_dueOr {s : St} (h : SInv false now s) (hd : DueOr id rid now cq0 s)
    (hr : (bpStep s now).2 = none ∨ (bpStep s now).2 = some .pending ∨ (bpStep s now).2 = some .none) :
    DueOr id rid now cq0 (bpStep s now).1 := by
  have hc := (sinv_closed false now).toStepClosed
  have h1 : SInv false now (bpCancel s).1 := hc.bpCancel s h
  have d1 := hd.bpCancel h.t
  have h2 : SInv false now (bp2 s now) := hc.expire _ h1
  have d2 : DueOr id rid now cq0 (bp2 s now) := d1.expire h1.t
  have h3 : SInv false now (bp3 s now) := hc.tNext _ h2
  have d3 : DueOr id rid now cq0 (bp3 s now) :=
    d2.same (tNext_inflight _) (fun c => by rw [show (bp3 s now).timers = (bp2 s now).timers from tNext_timers _])
      (tNext_execs _) (fun x hx => by rw [show (bp3 s now).cancelQ = (bp2 s now).cancelQ from tNext_cancelQ _] at hx; exact hx)
  have ho := bpStep_out s now
  revert ho hr
  generalize bpStep s now = out
  intro hr ho
  cases ho with
  | duplicate id' d tr b hp hnx hs hpo => rw [startRequest_none hs hpo]; exact d3
  | again _ _ _ _ _ => exact d3.bpOther h3.t _
  | closed _ _ _ _ _ => exact d3.bpOther h3.t _
  | pending _ _ _ _ _ => exact d3.bpOther h3.t _
  | _ => rcases hr with hr | hr | hr <;> cases hr

/-- **Pre/post.**  `BaseChannel::poll_next` going idle keeps "due or gone" … -/
theorem basePollNext_dueOr : ∀ (fuel : Nat) (s : St), SInv false now s → DueOr id rid now cq0 s →
    ((basePollNext fuel s now).2 = .pending ∨ (basePollNext fuel s now).2 = .none) →
    DueOr id rid now cq0 (basePollNext fuel s now).1 := by
  intro fuel
  induction fuel with
  | zero => intro s _ _ h; rcases h with h | h <;> cases h
  | succ n ih =>
    intro s h hd
    rw [basePollNext_succ]
    have hb := bpStep_dueOr h hd
    have h' : SInv false now (bpStep s now).1 := (sinv_closed false now).toStepClosed.bpStep s h
    revert hb h'
    generalize bpStep s now = out
    intro hb h'
    rcases out with ⟨s', r⟩
    cases r with
    | none => exact ih s' h' (hb (.inl rfl))
    | some r =>
      intro hi
      dsimp only at hi hb ⊢
      exact hb (by rcases hi with hi | hi <;> simp [hi])

/-- … and since nothing due is left behind, a request that was due when the poll began is gone when it goes idle. -/
theorem basePollNext_due_gone (hf : ClampFits) (hn : now < panicFreeNs) (fuel : Nat) {s : St} (h : SInv false now s)
    (hq : QC now s) (hd : DueEntry id rid now s)
    (hi : (basePollNext fuel s now).2 = .pending ∨ (basePollNext fuel s now).2 = .none) :
    Gone id rid s.cancelQ (basePollNext fuel s now).1 := by
  have hd' := basePollNext_dueOr fuel s h ⟨fun _ hx => hx, .inl hd⟩ hi
  rcases hd'.st with ⟨en, _, _, _, k, hk, _, hdue, _⟩ | hg
  · have := (basePollNext_idle_timers hf hn fuel s hq hi).cores k hk
    omega
  · exact hg

end TarpcModel.Server.Flow

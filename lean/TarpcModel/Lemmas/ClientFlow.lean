import TarpcModel.Client.Run
/-
Frame lemmas and case principles for the client model (`Client/Model.lean`).

* `FrameA s s'` ("not a transport call"): the configuration (`k`, `maxInFlight`, `bufCap`,
  `ensureLoop`), the transport `t`, `termErr` and `readFused` are unchanged and no transport
  observation (`tReady/tSend/tFlush/tClose/tNext/tViolation/spin`) was emitted.  Holds for every model
  function that does not call the transport: queues, oneshots, in-flight table, call futures, handles,
  `shutDown`, `dropDispatch`, …
* `FrameD s s'` ("dispatch side"): the configuration, the handles and every call's `(cid, phase)` are
  unchanged and the two queues did not grow.  Holds for everything the dispatch does (including the
  transport calls and the whole of `pollDispatch`), hence `senders` is constant during a dispatch poll.
* Each `…_frameA` / `…_frameD` theorem is re-exported as `@[simp]` field equalities
  (`(wakeCall s c).t = s.t`, `senders (pumpWrite s now).1 = senders s`, …); `emit` and `updCall` have one
  `@[simp]` lemma per field.
* `…_cases`: one elimination principle per function of the pumps (`ensureOnce`, `ensureLoop`, `pollNextRequest`,
  `pollWriteRequest`, `pollNextCancellation`, `pollWriteCancel`, `pumpWrite`, `pumpRead`, `run`,
  `pollDispatchCore`) — a goal about `f s` splits into one goal per control-flow path, with the equations of
  the sub-calls made on that path.  `pollDispatchKeep_eq` / `pollDispatch_eq` split the top-level poll into
  `keepFinish` / `keepDone` / `dropDispatch`.

(The `@[simp]` projections are generated mechanically from the frame theorems.)
-/
namespace TarpcModel.Client.Flow

/-! ### transport observations -/

/-- Observations produced by a transport call of the dispatch (or by its spin detector). -/
def isT : Obs → Bool
  | .tReady _ _ | .tSend _ _ _ | .tFlush _ _ | .tClose _ _ | .tNext _ _ | .tViolation _ _ | .spin _ => true
  | _ => false

@[simp] theorem isT_tReady (ep r) : isT (.tReady ep r) = true := rfl
@[simp] theorem isT_tSend (ep m ok) : isT (.tSend ep m ok) = true := rfl
@[simp] theorem isT_tFlush (ep r) : isT (.tFlush ep r) = true := rfl
@[simp] theorem isT_tClose (ep r) : isT (.tClose ep r) = true := rfl
@[simp] theorem isT_tNext (ep r) : isT (.tNext ep r) = true := rfl
@[simp] theorem isT_tViolation (ep w) : isT (.tViolation ep w) = true := rfl
@[simp] theorem isT_spin (t) : isT (.spin t) = true := rfl
@[simp] theorem isT_wake (t) : isT (.wake t) = false := rfl
@[simp] theorem isT_ret (t r) : isT (.ret t r) = false := rfl
@[simp] theorem isT_resolved (c o n) : isT (.resolved c o n) = false := rfl
@[simp] theorem isT_yielded (r i d tr) : isT (.yielded r i d tr) = false := rfl
@[simp] theorem isT_handler (r e n) : isT (.handler r e n) = false := rfl
@[simp] theorem isT_counts (ep a b) : isT (.counts ep a b) = false := rfl
@[simp] theorem isT_panic (t w) : isT (.panic t w) = false := rfl
@[simp] theorem isT_took (ep m) : isT (.took ep m) = false := rfl
@[simp] theorem isT_noop : isT .noop = false := rfl

/-- The transport observations of the state, most recent first. -/
abbrev tObs (s : St) : List Obs := s.obs.filter isT

@[simp] theorem emit_obs (s : St) (o : Obs) : (emit s o).obs = o :: s.obs := rfl
@[simp] theorem emit_k (s : St) (o : Obs) : (emit s o).k = s.k := rfl
@[simp] theorem emit_maxInFlight (s : St) (o : Obs) : (emit s o).maxInFlight = s.maxInFlight := rfl
@[simp] theorem emit_bufCap (s : St) (o : Obs) : (emit s o).bufCap = s.bufCap := rfl
@[simp] theorem emit_ensureLoop (s : St) (o : Obs) : (emit s o).ensureLoop = s.ensureLoop := rfl
@[simp] theorem emit_handles (s : St) (o : Obs) : (emit s o).handles = s.handles := rfl
@[simp] theorem emit_nextHandle (s : St) (o : Obs) : (emit s o).nextHandle = s.nextHandle := rfl
@[simp] theorem emit_nextId (s : St) (o : Obs) : (emit s o).nextId = s.nextId := rfl
@[simp] theorem emit_nextFresh (s : St) (o : Obs) : (emit s o).nextFresh = s.nextFresh := rfl
@[simp] theorem emit_calls (s : St) (o : Obs) : (emit s o).calls = s.calls := rfl
@[simp] theorem emit_pq (s : St) (o : Obs) : (emit s o).pq = s.pq := rfl
@[simp] theorem emit_pqAvail (s : St) (o : Obs) : (emit s o).pqAvail = s.pqAvail := rfl
@[simp] theorem emit_pqWaiters (s : St) (o : Obs) : (emit s o).pqWaiters = s.pqWaiters := rfl
@[simp] theorem emit_pqAssigned (s : St) (o : Obs) : (emit s o).pqAssigned = s.pqAssigned := rfl
@[simp] theorem emit_pqClosed (s : St) (o : Obs) : (emit s o).pqClosed = s.pqClosed := rfl
@[simp] theorem emit_pqRxWaker (s : St) (o : Obs) : (emit s o).pqRxWaker = s.pqRxWaker := rfl
@[simp] theorem emit_cq (s : St) (o : Obs) : (emit s o).cq = s.cq := rfl
@[simp] theorem emit_cqRxWaker (s : St) (o : Obs) : (emit s o).cqRxWaker = s.cqRxWaker := rfl
@[simp] theorem emit_inflight (s : St) (o : Obs) : (emit s o).inflight = s.inflight := rfl
@[simp] theorem emit_timers (s : St) (o : Obs) : (emit s o).timers = s.timers := rfl
@[simp] theorem emit_termErr (s : St) (o : Obs) : (emit s o).termErr = s.termErr := rfl
@[simp] theorem emit_readFused (s : St) (o : Obs) : (emit s o).readFused = s.readFused := rfl
@[simp] theorem emit_done (s : St) (o : Obs) : (emit s o).done = s.done := rfl
@[simp] theorem emit_dDropped (s : St) (o : Obs) : (emit s o).dDropped = s.dDropped := rfl
@[simp] theorem emit_dWoken (s : St) (o : Obs) : (emit s o).dWoken = s.dWoken := rfl
@[simp] theorem emit_poisoned (s : St) (o : Obs) : (emit s o).poisoned = s.poisoned := rfl
@[simp] theorem emit_t (s : St) (o : Obs) : (emit s o).t = s.t := rfl
@[simp] theorem updCall_k (s : St) (cid : Nat) (f : Call → Call) : (updCall s cid f).k = s.k := rfl
@[simp] theorem updCall_maxInFlight (s : St) (cid : Nat) (f : Call → Call) : (updCall s cid f).maxInFlight = s.maxInFlight := rfl
@[simp] theorem updCall_bufCap (s : St) (cid : Nat) (f : Call → Call) : (updCall s cid f).bufCap = s.bufCap := rfl
@[simp] theorem updCall_ensureLoop (s : St) (cid : Nat) (f : Call → Call) : (updCall s cid f).ensureLoop = s.ensureLoop := rfl
@[simp] theorem updCall_handles (s : St) (cid : Nat) (f : Call → Call) : (updCall s cid f).handles = s.handles := rfl
@[simp] theorem updCall_nextHandle (s : St) (cid : Nat) (f : Call → Call) : (updCall s cid f).nextHandle = s.nextHandle := rfl
@[simp] theorem updCall_nextId (s : St) (cid : Nat) (f : Call → Call) : (updCall s cid f).nextId = s.nextId := rfl
@[simp] theorem updCall_nextFresh (s : St) (cid : Nat) (f : Call → Call) : (updCall s cid f).nextFresh = s.nextFresh := rfl
@[simp] theorem updCall_pq (s : St) (cid : Nat) (f : Call → Call) : (updCall s cid f).pq = s.pq := rfl
@[simp] theorem updCall_pqAvail (s : St) (cid : Nat) (f : Call → Call) : (updCall s cid f).pqAvail = s.pqAvail := rfl
@[simp] theorem updCall_pqWaiters (s : St) (cid : Nat) (f : Call → Call) : (updCall s cid f).pqWaiters = s.pqWaiters := rfl
@[simp] theorem updCall_pqAssigned (s : St) (cid : Nat) (f : Call → Call) : (updCall s cid f).pqAssigned = s.pqAssigned := rfl
@[simp] theorem updCall_pqClosed (s : St) (cid : Nat) (f : Call → Call) : (updCall s cid f).pqClosed = s.pqClosed := rfl
@[simp] theorem updCall_pqRxWaker (s : St) (cid : Nat) (f : Call → Call) : (updCall s cid f).pqRxWaker = s.pqRxWaker := rfl
@[simp] theorem updCall_cq (s : St) (cid : Nat) (f : Call → Call) : (updCall s cid f).cq = s.cq := rfl
@[simp] theorem updCall_cqRxWaker (s : St) (cid : Nat) (f : Call → Call) : (updCall s cid f).cqRxWaker = s.cqRxWaker := rfl
@[simp] theorem updCall_inflight (s : St) (cid : Nat) (f : Call → Call) : (updCall s cid f).inflight = s.inflight := rfl
@[simp] theorem updCall_timers (s : St) (cid : Nat) (f : Call → Call) : (updCall s cid f).timers = s.timers := rfl
@[simp] theorem updCall_termErr (s : St) (cid : Nat) (f : Call → Call) : (updCall s cid f).termErr = s.termErr := rfl
@[simp] theorem updCall_readFused (s : St) (cid : Nat) (f : Call → Call) : (updCall s cid f).readFused = s.readFused := rfl
@[simp] theorem updCall_done (s : St) (cid : Nat) (f : Call → Call) : (updCall s cid f).done = s.done := rfl
@[simp] theorem updCall_dDropped (s : St) (cid : Nat) (f : Call → Call) : (updCall s cid f).dDropped = s.dDropped := rfl
@[simp] theorem updCall_dWoken (s : St) (cid : Nat) (f : Call → Call) : (updCall s cid f).dWoken = s.dWoken := rfl
@[simp] theorem updCall_poisoned (s : St) (cid : Nat) (f : Call → Call) : (updCall s cid f).poisoned = s.poisoned := rfl
@[simp] theorem updCall_t (s : St) (cid : Nat) (f : Call → Call) : (updCall s cid f).t = s.t := rfl
@[simp] theorem updCall_obs (s : St) (cid : Nat) (f : Call → Call) : (updCall s cid f).obs = s.obs := rfl

/-! ### FrameA -/

structure FrameA (s s' : St) : Prop where
  k : s'.k = s.k
  maxInFlight : s'.maxInFlight = s.maxInFlight
  bufCap : s'.bufCap = s.bufCap
  ensureLoop : s'.ensureLoop = s.ensureLoop
  t : s'.t = s.t
  termErr : s'.termErr = s.termErr
  readFused : s'.readFused = s.readFused
  tobs : s'.obs.filter isT = s.obs.filter isT

/-- closes `FrameA s { s with … }` when none of the framed fields is updated -/
macro "frameA_rfl" : tactic => `(tactic| exact ⟨rfl, rfl, rfl, rfl, rfl, rfl, rfl, rfl⟩)

theorem FrameA.refl (s : St) : FrameA s s := by frameA_rfl

theorem FrameA.trans {s s1 s2 : St} (h1 : FrameA s s1) (h2 : FrameA s1 s2) : FrameA s s2 :=
  ⟨h2.k.trans h1.k, h2.maxInFlight.trans h1.maxInFlight, h2.bufCap.trans h1.bufCap,
   h2.ensureLoop.trans h1.ensureLoop, h2.t.trans h1.t, h2.termErr.trans h1.termErr,
   h2.readFused.trans h1.readFused, h2.tobs.trans h1.tobs⟩

theorem FrameA.foldl {α : Type} (f : St → α → St) (hf : ∀ s x, FrameA s (f s x)) (l : List α) (s : St) :
    FrameA s (l.foldl f s) := by
  induction l generalizing s with
  | nil => exact .refl _
  | cons x l ih => exact .trans (hf s x) (ih _)

theorem emit_frameA (s : St) (o : Obs) (h : isT o = false) : FrameA s (emit s o) :=
  ⟨rfl, rfl, rfl, rfl, rfl, rfl, rfl, by simp [emit, h]⟩

/-- closes `FrameA s e` by rewriting with the `@[simp]` frame equalities proved so far -/
macro "frameA_simp" : tactic => `(tactic| (refine ⟨?_, ?_, ?_, ?_, ?_, ?_, ?_, ?_⟩ <;> simp))

theorem wakeDispatch_frameA (s : St) : FrameA s (wakeDispatch s) := by
  unfold wakeDispatch; split
  · exact .refl _
  · exact .trans (by frameA_rfl) (emit_frameA _ _ rfl)
@[simp] theorem wakeDispatch_k (s : St) : (wakeDispatch s).k = s.k := (wakeDispatch_frameA s).k
@[simp] theorem wakeDispatch_maxInFlight (s : St) : (wakeDispatch s).maxInFlight = s.maxInFlight := (wakeDispatch_frameA s).maxInFlight
@[simp] theorem wakeDispatch_bufCap (s : St) : (wakeDispatch s).bufCap = s.bufCap := (wakeDispatch_frameA s).bufCap
@[simp] theorem wakeDispatch_ensureLoop (s : St) : (wakeDispatch s).ensureLoop = s.ensureLoop := (wakeDispatch_frameA s).ensureLoop
@[simp] theorem wakeDispatch_t (s : St) : (wakeDispatch s).t = s.t := (wakeDispatch_frameA s).t
@[simp] theorem wakeDispatch_termErr (s : St) : (wakeDispatch s).termErr = s.termErr := (wakeDispatch_frameA s).termErr
@[simp] theorem wakeDispatch_readFused (s : St) : (wakeDispatch s).readFused = s.readFused := (wakeDispatch_frameA s).readFused
@[simp] theorem wakeDispatch_tObs (s : St) : (wakeDispatch s).obs.filter isT = s.obs.filter isT := (wakeDispatch_frameA s).tobs
/-! `wakeDispatch` only sets `dWoken` and emits a `wake` (needed since `removeTimer` / `insertRequest` self-wake). -/
@[simp] theorem wakeDispatch_nextHandle (s : St) : (wakeDispatch s).nextHandle = s.nextHandle := by unfold wakeDispatch; split <;> rfl
@[simp] theorem wakeDispatch_nextId (s : St) : (wakeDispatch s).nextId = s.nextId := by unfold wakeDispatch; split <;> rfl
@[simp] theorem wakeDispatch_nextFresh (s : St) : (wakeDispatch s).nextFresh = s.nextFresh := by unfold wakeDispatch; split <;> rfl
@[simp] theorem wakeDispatch_calls (s : St) : (wakeDispatch s).calls = s.calls := by unfold wakeDispatch; split <;> rfl
@[simp] theorem wakeDispatch_pq (s : St) : (wakeDispatch s).pq = s.pq := by unfold wakeDispatch; split <;> rfl
@[simp] theorem wakeDispatch_pqAvail (s : St) : (wakeDispatch s).pqAvail = s.pqAvail := by unfold wakeDispatch; split <;> rfl
@[simp] theorem wakeDispatch_pqWaiters (s : St) : (wakeDispatch s).pqWaiters = s.pqWaiters := by unfold wakeDispatch; split <;> rfl
@[simp] theorem wakeDispatch_pqAssigned (s : St) : (wakeDispatch s).pqAssigned = s.pqAssigned := by unfold wakeDispatch; split <;> rfl
@[simp] theorem wakeDispatch_pqClosed (s : St) : (wakeDispatch s).pqClosed = s.pqClosed := by unfold wakeDispatch; split <;> rfl
@[simp] theorem wakeDispatch_pqRxWaker (s : St) : (wakeDispatch s).pqRxWaker = s.pqRxWaker := by unfold wakeDispatch; split <;> rfl
@[simp] theorem wakeDispatch_cq (s : St) : (wakeDispatch s).cq = s.cq := by unfold wakeDispatch; split <;> rfl
@[simp] theorem wakeDispatch_cqRxWaker (s : St) : (wakeDispatch s).cqRxWaker = s.cqRxWaker := by unfold wakeDispatch; split <;> rfl
@[simp] theorem wakeDispatch_inflight (s : St) : (wakeDispatch s).inflight = s.inflight := by unfold wakeDispatch; split <;> rfl
@[simp] theorem wakeDispatch_timers (s : St) : (wakeDispatch s).timers = s.timers := by unfold wakeDispatch; split <;> rfl
@[simp] theorem wakeDispatch_done (s : St) : (wakeDispatch s).done = s.done := by unfold wakeDispatch; split <;> rfl
@[simp] theorem wakeDispatch_dDropped (s : St) : (wakeDispatch s).dDropped = s.dDropped := by unfold wakeDispatch; split <;> rfl
@[simp] theorem wakeDispatch_poisoned (s : St) : (wakeDispatch s).poisoned = s.poisoned := by unfold wakeDispatch; split <;> rfl

theorem updCall_frameA (s : St) (cid : Nat) (f : Call → Call) : FrameA s (updCall s cid f) := by
  unfold updCall; frameA_rfl
@[simp] theorem updCall_tObs (s : St) (cid : Nat) (f : Call → Call) : (updCall s cid f).obs.filter isT = s.obs.filter isT := (updCall_frameA s cid f).tobs

theorem wakeCall_frameA (s : St) (cid : Nat) : FrameA s (wakeCall s cid) := by
  unfold wakeCall; split
  · split
    · exact .trans (updCall_frameA _ _ _) (emit_frameA _ _ rfl)
    · exact .refl _
  · exact .refl _
@[simp] theorem wakeCall_k (s : St) (cid : Nat) : (wakeCall s cid).k = s.k := (wakeCall_frameA s cid).k
@[simp] theorem wakeCall_maxInFlight (s : St) (cid : Nat) : (wakeCall s cid).maxInFlight = s.maxInFlight := (wakeCall_frameA s cid).maxInFlight
@[simp] theorem wakeCall_bufCap (s : St) (cid : Nat) : (wakeCall s cid).bufCap = s.bufCap := (wakeCall_frameA s cid).bufCap
@[simp] theorem wakeCall_ensureLoop (s : St) (cid : Nat) : (wakeCall s cid).ensureLoop = s.ensureLoop := (wakeCall_frameA s cid).ensureLoop
@[simp] theorem wakeCall_t (s : St) (cid : Nat) : (wakeCall s cid).t = s.t := (wakeCall_frameA s cid).t
@[simp] theorem wakeCall_termErr (s : St) (cid : Nat) : (wakeCall s cid).termErr = s.termErr := (wakeCall_frameA s cid).termErr
@[simp] theorem wakeCall_readFused (s : St) (cid : Nat) : (wakeCall s cid).readFused = s.readFused := (wakeCall_frameA s cid).readFused
@[simp] theorem wakeCall_tObs (s : St) (cid : Nat) : (wakeCall s cid).obs.filter isT = s.obs.filter isT := (wakeCall_frameA s cid).tobs

theorem osSend_frameA (s : St) (cid : Nat) (o : Outcome) : FrameA s (osSend s cid o) := by
  unfold osSend; split
  · exact .refl _
  · split
    · exact .refl _
    · simp only; split
      · exact .trans (updCall_frameA _ _ _) (wakeCall_frameA _ _)
      · exact updCall_frameA _ _ _
@[simp] theorem osSend_k (s : St) (cid : Nat) (o : Outcome) : (osSend s cid o).k = s.k := (osSend_frameA s cid o).k
@[simp] theorem osSend_maxInFlight (s : St) (cid : Nat) (o : Outcome) : (osSend s cid o).maxInFlight = s.maxInFlight := (osSend_frameA s cid o).maxInFlight
@[simp] theorem osSend_bufCap (s : St) (cid : Nat) (o : Outcome) : (osSend s cid o).bufCap = s.bufCap := (osSend_frameA s cid o).bufCap
@[simp] theorem osSend_ensureLoop (s : St) (cid : Nat) (o : Outcome) : (osSend s cid o).ensureLoop = s.ensureLoop := (osSend_frameA s cid o).ensureLoop
@[simp] theorem osSend_t (s : St) (cid : Nat) (o : Outcome) : (osSend s cid o).t = s.t := (osSend_frameA s cid o).t
@[simp] theorem osSend_termErr (s : St) (cid : Nat) (o : Outcome) : (osSend s cid o).termErr = s.termErr := (osSend_frameA s cid o).termErr
@[simp] theorem osSend_readFused (s : St) (cid : Nat) (o : Outcome) : (osSend s cid o).readFused = s.readFused := (osSend_frameA s cid o).readFused
@[simp] theorem osSend_tObs (s : St) (cid : Nat) (o : Outcome) : (osSend s cid o).obs.filter isT = s.obs.filter isT := (osSend_frameA s cid o).tobs

theorem osDropTx_frameA (s : St) (cid : Nat) : FrameA s (osDropTx s cid) := by
  unfold osDropTx; split
  · exact .refl _
  · split
    · exact .refl _
    · simp only; split
      · exact .trans (updCall_frameA _ _ _) (wakeCall_frameA _ _)
      · exact updCall_frameA _ _ _
@[simp] theorem osDropTx_k (s : St) (cid : Nat) : (osDropTx s cid).k = s.k := (osDropTx_frameA s cid).k
@[simp] theorem osDropTx_maxInFlight (s : St) (cid : Nat) : (osDropTx s cid).maxInFlight = s.maxInFlight := (osDropTx_frameA s cid).maxInFlight
@[simp] theorem osDropTx_bufCap (s : St) (cid : Nat) : (osDropTx s cid).bufCap = s.bufCap := (osDropTx_frameA s cid).bufCap
@[simp] theorem osDropTx_ensureLoop (s : St) (cid : Nat) : (osDropTx s cid).ensureLoop = s.ensureLoop := (osDropTx_frameA s cid).ensureLoop
@[simp] theorem osDropTx_t (s : St) (cid : Nat) : (osDropTx s cid).t = s.t := (osDropTx_frameA s cid).t
@[simp] theorem osDropTx_termErr (s : St) (cid : Nat) : (osDropTx s cid).termErr = s.termErr := (osDropTx_frameA s cid).termErr
@[simp] theorem osDropTx_readFused (s : St) (cid : Nat) : (osDropTx s cid).readFused = s.readFused := (osDropTx_frameA s cid).readFused
@[simp] theorem osDropTx_tObs (s : St) (cid : Nat) : (osDropTx s cid).obs.filter isT = s.obs.filter isT := (osDropTx_frameA s cid).tobs

theorem pqRelease_frameA (s : St) : FrameA s (pqRelease s) := by
  unfold pqRelease; split
  · exact .trans (by frameA_rfl) (wakeCall_frameA _ _)
  · frameA_rfl
@[simp] theorem pqRelease_k (s : St) : (pqRelease s).k = s.k := (pqRelease_frameA s).k
@[simp] theorem pqRelease_maxInFlight (s : St) : (pqRelease s).maxInFlight = s.maxInFlight := (pqRelease_frameA s).maxInFlight
@[simp] theorem pqRelease_bufCap (s : St) : (pqRelease s).bufCap = s.bufCap := (pqRelease_frameA s).bufCap
@[simp] theorem pqRelease_ensureLoop (s : St) : (pqRelease s).ensureLoop = s.ensureLoop := (pqRelease_frameA s).ensureLoop
@[simp] theorem pqRelease_t (s : St) : (pqRelease s).t = s.t := (pqRelease_frameA s).t
@[simp] theorem pqRelease_termErr (s : St) : (pqRelease s).termErr = s.termErr := (pqRelease_frameA s).termErr
@[simp] theorem pqRelease_readFused (s : St) : (pqRelease s).readFused = s.readFused := (pqRelease_frameA s).readFused
@[simp] theorem pqRelease_tObs (s : St) : (pqRelease s).obs.filter isT = s.obs.filter isT := (pqRelease_frameA s).tobs

theorem pqRecv_frameA (s : St) : FrameA s (pqRecv s).1 := by
  unfold pqRecv; split
  · exact .trans (by frameA_rfl) (pqRelease_frameA _)
  · split
    · exact .refl _
    · split
      · exact .refl _
      · frameA_rfl
@[simp] theorem pqRecv_k (s : St) : ((pqRecv s).1).k = s.k := (pqRecv_frameA s).k
@[simp] theorem pqRecv_maxInFlight (s : St) : ((pqRecv s).1).maxInFlight = s.maxInFlight := (pqRecv_frameA s).maxInFlight
@[simp] theorem pqRecv_bufCap (s : St) : ((pqRecv s).1).bufCap = s.bufCap := (pqRecv_frameA s).bufCap
@[simp] theorem pqRecv_ensureLoop (s : St) : ((pqRecv s).1).ensureLoop = s.ensureLoop := (pqRecv_frameA s).ensureLoop
@[simp] theorem pqRecv_t (s : St) : ((pqRecv s).1).t = s.t := (pqRecv_frameA s).t
@[simp] theorem pqRecv_termErr (s : St) : ((pqRecv s).1).termErr = s.termErr := (pqRecv_frameA s).termErr
@[simp] theorem pqRecv_readFused (s : St) : ((pqRecv s).1).readFused = s.readFused := (pqRecv_frameA s).readFused
@[simp] theorem pqRecv_tObs (s : St) : ((pqRecv s).1).obs.filter isT = s.obs.filter isT := (pqRecv_frameA s).tobs

theorem pqClose_frameA (s : St) : FrameA s (pqClose s) := by
  unfold pqClose
  exact .trans (by frameA_rfl) (FrameA.foldl _ wakeCall_frameA _ _)
@[simp] theorem pqClose_k (s : St) : (pqClose s).k = s.k := (pqClose_frameA s).k
@[simp] theorem pqClose_maxInFlight (s : St) : (pqClose s).maxInFlight = s.maxInFlight := (pqClose_frameA s).maxInFlight
@[simp] theorem pqClose_bufCap (s : St) : (pqClose s).bufCap = s.bufCap := (pqClose_frameA s).bufCap
@[simp] theorem pqClose_ensureLoop (s : St) : (pqClose s).ensureLoop = s.ensureLoop := (pqClose_frameA s).ensureLoop
@[simp] theorem pqClose_t (s : St) : (pqClose s).t = s.t := (pqClose_frameA s).t
@[simp] theorem pqClose_termErr (s : St) : (pqClose s).termErr = s.termErr := (pqClose_frameA s).termErr
@[simp] theorem pqClose_readFused (s : St) : (pqClose s).readFused = s.readFused := (pqClose_frameA s).readFused
@[simp] theorem pqClose_tObs (s : St) : (pqClose s).obs.filter isT = s.obs.filter isT := (pqClose_frameA s).tobs

theorem pqPush_frameA (s : St) (r : DReq) : FrameA s (pqPush s r) := by
  unfold pqPush; simp only; split
  · exact .trans (by frameA_rfl) (wakeDispatch_frameA _)
  · frameA_rfl
@[simp] theorem pqPush_k (s : St) (r : DReq) : (pqPush s r).k = s.k := (pqPush_frameA s r).k
@[simp] theorem pqPush_maxInFlight (s : St) (r : DReq) : (pqPush s r).maxInFlight = s.maxInFlight := (pqPush_frameA s r).maxInFlight
@[simp] theorem pqPush_bufCap (s : St) (r : DReq) : (pqPush s r).bufCap = s.bufCap := (pqPush_frameA s r).bufCap
@[simp] theorem pqPush_ensureLoop (s : St) (r : DReq) : (pqPush s r).ensureLoop = s.ensureLoop := (pqPush_frameA s r).ensureLoop
@[simp] theorem pqPush_t (s : St) (r : DReq) : (pqPush s r).t = s.t := (pqPush_frameA s r).t
@[simp] theorem pqPush_termErr (s : St) (r : DReq) : (pqPush s r).termErr = s.termErr := (pqPush_frameA s r).termErr
@[simp] theorem pqPush_readFused (s : St) (r : DReq) : (pqPush s r).readFused = s.readFused := (pqPush_frameA s r).readFused
@[simp] theorem pqPush_tObs (s : St) (r : DReq) : (pqPush s r).obs.filter isT = s.obs.filter isT := (pqPush_frameA s r).tobs

theorem cqPush_frameA (s : St) (id : Nat) : FrameA s (cqPush s id) := by
  unfold cqPush; split
  · exact .refl _
  · simp only; split
    · exact .trans (by frameA_rfl) (wakeDispatch_frameA _)
    · frameA_rfl
@[simp] theorem cqPush_k (s : St) (id : Nat) : (cqPush s id).k = s.k := (cqPush_frameA s id).k
@[simp] theorem cqPush_maxInFlight (s : St) (id : Nat) : (cqPush s id).maxInFlight = s.maxInFlight := (cqPush_frameA s id).maxInFlight
@[simp] theorem cqPush_bufCap (s : St) (id : Nat) : (cqPush s id).bufCap = s.bufCap := (cqPush_frameA s id).bufCap
@[simp] theorem cqPush_ensureLoop (s : St) (id : Nat) : (cqPush s id).ensureLoop = s.ensureLoop := (cqPush_frameA s id).ensureLoop
@[simp] theorem cqPush_t (s : St) (id : Nat) : (cqPush s id).t = s.t := (cqPush_frameA s id).t
@[simp] theorem cqPush_termErr (s : St) (id : Nat) : (cqPush s id).termErr = s.termErr := (cqPush_frameA s id).termErr
@[simp] theorem cqPush_readFused (s : St) (id : Nat) : (cqPush s id).readFused = s.readFused := (cqPush_frameA s id).readFused
@[simp] theorem cqPush_tObs (s : St) (id : Nat) : (cqPush s id).obs.filter isT = s.obs.filter isT := (cqPush_frameA s id).tobs

theorem cqRecv_frameA (s : St) : FrameA s (cqRecv s).1 := by
  unfold cqRecv; split
  · frameA_rfl
  · split
    · exact .refl _
    · frameA_rfl
@[simp] theorem cqRecv_k (s : St) : ((cqRecv s).1).k = s.k := (cqRecv_frameA s).k
@[simp] theorem cqRecv_maxInFlight (s : St) : ((cqRecv s).1).maxInFlight = s.maxInFlight := (cqRecv_frameA s).maxInFlight
@[simp] theorem cqRecv_bufCap (s : St) : ((cqRecv s).1).bufCap = s.bufCap := (cqRecv_frameA s).bufCap
@[simp] theorem cqRecv_ensureLoop (s : St) : ((cqRecv s).1).ensureLoop = s.ensureLoop := (cqRecv_frameA s).ensureLoop
@[simp] theorem cqRecv_t (s : St) : ((cqRecv s).1).t = s.t := (cqRecv_frameA s).t
@[simp] theorem cqRecv_termErr (s : St) : ((cqRecv s).1).termErr = s.termErr := (cqRecv_frameA s).termErr
@[simp] theorem cqRecv_readFused (s : St) : ((cqRecv s).1).readFused = s.readFused := (cqRecv_frameA s).readFused
@[simp] theorem cqRecv_tObs (s : St) : ((cqRecv s).1).obs.filter isT = s.obs.filter isT := (cqRecv_frameA s).tobs

theorem removeTimer_frameA (s : St) (key : Nat) : FrameA s (removeTimer s key) := by
  unfold removeTimer; split
  · simp only; split
    · exact .trans (by frameA_rfl) (wakeDispatch_frameA _)
    · frameA_rfl
  · exact .trans (by frameA_rfl) (emit_frameA _ _ rfl)
@[simp] theorem removeTimer_k (s : St) (key : Nat) : (removeTimer s key).k = s.k := (removeTimer_frameA s key).k
@[simp] theorem removeTimer_maxInFlight (s : St) (key : Nat) : (removeTimer s key).maxInFlight = s.maxInFlight := (removeTimer_frameA s key).maxInFlight
@[simp] theorem removeTimer_bufCap (s : St) (key : Nat) : (removeTimer s key).bufCap = s.bufCap := (removeTimer_frameA s key).bufCap
@[simp] theorem removeTimer_ensureLoop (s : St) (key : Nat) : (removeTimer s key).ensureLoop = s.ensureLoop := (removeTimer_frameA s key).ensureLoop
@[simp] theorem removeTimer_t (s : St) (key : Nat) : (removeTimer s key).t = s.t := (removeTimer_frameA s key).t
@[simp] theorem removeTimer_termErr (s : St) (key : Nat) : (removeTimer s key).termErr = s.termErr := (removeTimer_frameA s key).termErr
@[simp] theorem removeTimer_readFused (s : St) (key : Nat) : (removeTimer s key).readFused = s.readFused := (removeTimer_frameA s key).readFused
@[simp] theorem removeTimer_tObs (s : St) (key : Nat) : (removeTimer s key).obs.filter isT = s.obs.filter isT := (removeTimer_frameA s key).tobs

theorem completeRequest_frameA (s : St) (id : Nat) (o : Outcome) : FrameA s (completeRequest s id o).1 := by
  unfold completeRequest; split
  · exact .refl _
  · exact .trans (.trans (by frameA_rfl) (removeTimer_frameA _ _)) (osSend_frameA _ _ _)
@[simp] theorem completeRequest_k (s : St) (id : Nat) (o : Outcome) : ((completeRequest s id o).1).k = s.k := (completeRequest_frameA s id o).k
@[simp] theorem completeRequest_maxInFlight (s : St) (id : Nat) (o : Outcome) : ((completeRequest s id o).1).maxInFlight = s.maxInFlight := (completeRequest_frameA s id o).maxInFlight
@[simp] theorem completeRequest_bufCap (s : St) (id : Nat) (o : Outcome) : ((completeRequest s id o).1).bufCap = s.bufCap := (completeRequest_frameA s id o).bufCap
@[simp] theorem completeRequest_ensureLoop (s : St) (id : Nat) (o : Outcome) : ((completeRequest s id o).1).ensureLoop = s.ensureLoop := (completeRequest_frameA s id o).ensureLoop
@[simp] theorem completeRequest_t (s : St) (id : Nat) (o : Outcome) : ((completeRequest s id o).1).t = s.t := (completeRequest_frameA s id o).t
@[simp] theorem completeRequest_termErr (s : St) (id : Nat) (o : Outcome) : ((completeRequest s id o).1).termErr = s.termErr := (completeRequest_frameA s id o).termErr
@[simp] theorem completeRequest_readFused (s : St) (id : Nat) (o : Outcome) : ((completeRequest s id o).1).readFused = s.readFused := (completeRequest_frameA s id o).readFused
@[simp] theorem completeRequest_tObs (s : St) (id : Nat) (o : Outcome) : ((completeRequest s id o).1).obs.filter isT = s.obs.filter isT := (completeRequest_frameA s id o).tobs

theorem cancelRequest_frameA (s : St) (id : Nat) : FrameA s (cancelRequest s id).1 := by
  unfold cancelRequest; split
  · exact .refl _
  · exact .trans (by frameA_rfl) (removeTimer_frameA _ _)
@[simp] theorem cancelRequest_k (s : St) (id : Nat) : ((cancelRequest s id).1).k = s.k := (cancelRequest_frameA s id).k
@[simp] theorem cancelRequest_maxInFlight (s : St) (id : Nat) : ((cancelRequest s id).1).maxInFlight = s.maxInFlight := (cancelRequest_frameA s id).maxInFlight
@[simp] theorem cancelRequest_bufCap (s : St) (id : Nat) : ((cancelRequest s id).1).bufCap = s.bufCap := (cancelRequest_frameA s id).bufCap
@[simp] theorem cancelRequest_ensureLoop (s : St) (id : Nat) : ((cancelRequest s id).1).ensureLoop = s.ensureLoop := (cancelRequest_frameA s id).ensureLoop
@[simp] theorem cancelRequest_t (s : St) (id : Nat) : ((cancelRequest s id).1).t = s.t := (cancelRequest_frameA s id).t
@[simp] theorem cancelRequest_termErr (s : St) (id : Nat) : ((cancelRequest s id).1).termErr = s.termErr := (cancelRequest_frameA s id).termErr
@[simp] theorem cancelRequest_readFused (s : St) (id : Nat) : ((cancelRequest s id).1).readFused = s.readFused := (cancelRequest_frameA s id).readFused
@[simp] theorem cancelRequest_tObs (s : St) (id : Nat) : ((cancelRequest s id).1).obs.filter isT = s.obs.filter isT := (cancelRequest_frameA s id).tobs

theorem insertRequest_frameA {s s' : St} {now : Nat} {r : DReq} (h : insertRequest s now r = some s') :
    FrameA s s' := by
  unfold insertRequest at h; split at h
  · cases h; exact .trans (by frameA_rfl) (emit_frameA _ _ rfl)
  · split at h
    · cases h; exact .trans (by frameA_rfl) (emit_frameA _ _ rfl)
    · cases h; split
      · exact .trans (by frameA_rfl) (wakeDispatch_frameA _)
      · frameA_rfl

theorem nextRequestLoop_frameA (fuel : Nat) (s : St) : FrameA s (nextRequestLoop fuel s).1 := by
  induction fuel generalizing s with
  | zero => exact .refl _
  | succ fuel ih =>
    unfold nextRequestLoop
    have h := pqRecv_frameA s
    split <;> rename_i heq <;> rw [heq] at h
    · exact h
    · exact h
    · split
      · exact .trans h (ih _)
      · exact h
@[simp] theorem nextRequestLoop_k (fuel : Nat) (s : St) : ((nextRequestLoop fuel s).1).k = s.k := (nextRequestLoop_frameA fuel s).k
@[simp] theorem nextRequestLoop_maxInFlight (fuel : Nat) (s : St) : ((nextRequestLoop fuel s).1).maxInFlight = s.maxInFlight := (nextRequestLoop_frameA fuel s).maxInFlight
@[simp] theorem nextRequestLoop_bufCap (fuel : Nat) (s : St) : ((nextRequestLoop fuel s).1).bufCap = s.bufCap := (nextRequestLoop_frameA fuel s).bufCap
@[simp] theorem nextRequestLoop_ensureLoop (fuel : Nat) (s : St) : ((nextRequestLoop fuel s).1).ensureLoop = s.ensureLoop := (nextRequestLoop_frameA fuel s).ensureLoop
@[simp] theorem nextRequestLoop_t (fuel : Nat) (s : St) : ((nextRequestLoop fuel s).1).t = s.t := (nextRequestLoop_frameA fuel s).t
@[simp] theorem nextRequestLoop_termErr (fuel : Nat) (s : St) : ((nextRequestLoop fuel s).1).termErr = s.termErr := (nextRequestLoop_frameA fuel s).termErr
@[simp] theorem nextRequestLoop_readFused (fuel : Nat) (s : St) : ((nextRequestLoop fuel s).1).readFused = s.readFused := (nextRequestLoop_frameA fuel s).readFused
@[simp] theorem nextRequestLoop_tObs (fuel : Nat) (s : St) : ((nextRequestLoop fuel s).1).obs.filter isT = s.obs.filter isT := (nextRequestLoop_frameA fuel s).tobs

theorem nextCancelLoop_frameA (fuel : Nat) (s : St) : FrameA s (nextCancelLoop fuel s).1 := by
  induction fuel generalizing s with
  | zero => exact .refl _
  | succ fuel ih =>
    unfold nextCancelLoop
    have h := cqRecv_frameA s
    split <;> rename_i heq <;> rw [heq] at h
    · exact h
    · exact h
    · rename_i s1 id
      have h2 := cancelRequest_frameA s1 id
      split <;> rename_i heq2 <;> rw [heq2] at h2
      · exact .trans h h2
      · exact .trans (.trans h h2) (ih _)
@[simp] theorem nextCancelLoop_k (fuel : Nat) (s : St) : ((nextCancelLoop fuel s).1).k = s.k := (nextCancelLoop_frameA fuel s).k
@[simp] theorem nextCancelLoop_maxInFlight (fuel : Nat) (s : St) : ((nextCancelLoop fuel s).1).maxInFlight = s.maxInFlight := (nextCancelLoop_frameA fuel s).maxInFlight
@[simp] theorem nextCancelLoop_bufCap (fuel : Nat) (s : St) : ((nextCancelLoop fuel s).1).bufCap = s.bufCap := (nextCancelLoop_frameA fuel s).bufCap
@[simp] theorem nextCancelLoop_ensureLoop (fuel : Nat) (s : St) : ((nextCancelLoop fuel s).1).ensureLoop = s.ensureLoop := (nextCancelLoop_frameA fuel s).ensureLoop
@[simp] theorem nextCancelLoop_t (fuel : Nat) (s : St) : ((nextCancelLoop fuel s).1).t = s.t := (nextCancelLoop_frameA fuel s).t
@[simp] theorem nextCancelLoop_termErr (fuel : Nat) (s : St) : ((nextCancelLoop fuel s).1).termErr = s.termErr := (nextCancelLoop_frameA fuel s).termErr
@[simp] theorem nextCancelLoop_readFused (fuel : Nat) (s : St) : ((nextCancelLoop fuel s).1).readFused = s.readFused := (nextCancelLoop_frameA fuel s).readFused
@[simp] theorem nextCancelLoop_tObs (fuel : Nat) (s : St) : ((nextCancelLoop fuel s).1).obs.filter isT = s.obs.filter isT := (nextCancelLoop_frameA fuel s).tobs

theorem rearmWith_frameA (s : St) (id t due : Nat) (r : DelayQ × DelayQ.InsertRes × Bool) :
    FrameA s (rearmWith s id t due r).st := by
  unfold rearmWith; split
  · exact .trans (by frameA_rfl) (emit_frameA _ _ rfl)
  · show FrameA s (if _ then _ else _)
    split
    · exact .trans (by frameA_rfl) (wakeDispatch_frameA _)
    · frameA_rfl

theorem expireWith_frameA (s : St) (now : Nat) (r : DelayQ × DelayQ.PollRes) : FrameA s (expireWith s now r).st := by
  unfold expireWith; split
  · split
    · split
      · exact rearmWith_frameA _ _ _ _ _
      · exact .trans (by frameA_rfl) (osSend_frameA _ _ _)
    · frameA_rfl
  · frameA_rfl

theorem expireStep_frameA (s : St) (now : Nat) : FrameA s (expireStep s now).st := expireWith_frameA _ _ _

theorem pollExpiredLoop_frameA (fuel : Nat) (s : St) (now : Nat) : FrameA s (pollExpiredLoop fuel s now).1 := by
  induction fuel generalizing s with
  | zero => exact .refl _
  | succ fuel ih =>
    have h := expireStep_frameA s now
    unfold pollExpiredLoop; split <;> rename_i heq <;> rw [heq] at h
    · exact .trans h (ih _)
    · exact h

theorem pollExpired_frameA (s : St) (now : Nat) : FrameA s (pollExpired s now).1 :=
  pollExpiredLoop_frameA _ s now
@[simp] theorem pollExpired_k (s : St) (now : Nat) : ((pollExpired s now).1).k = s.k := (pollExpired_frameA s now).k
@[simp] theorem pollExpired_maxInFlight (s : St) (now : Nat) : ((pollExpired s now).1).maxInFlight = s.maxInFlight := (pollExpired_frameA s now).maxInFlight
@[simp] theorem pollExpired_bufCap (s : St) (now : Nat) : ((pollExpired s now).1).bufCap = s.bufCap := (pollExpired_frameA s now).bufCap
@[simp] theorem pollExpired_ensureLoop (s : St) (now : Nat) : ((pollExpired s now).1).ensureLoop = s.ensureLoop := (pollExpired_frameA s now).ensureLoop
@[simp] theorem pollExpired_t (s : St) (now : Nat) : ((pollExpired s now).1).t = s.t := (pollExpired_frameA s now).t
@[simp] theorem pollExpired_termErr (s : St) (now : Nat) : ((pollExpired s now).1).termErr = s.termErr := (pollExpired_frameA s now).termErr
@[simp] theorem pollExpired_readFused (s : St) (now : Nat) : ((pollExpired s now).1).readFused = s.readFused := (pollExpired_frameA s now).readFused
@[simp] theorem pollExpired_tObs (s : St) (now : Nat) : ((pollExpired s now).1).obs.filter isT = s.obs.filter isT := (pollExpired_frameA s now).tobs

theorem failAll_frameA (s : St) (a : Activity) : FrameA s (failAll s a) := by
  unfold failAll
  exact .trans (by frameA_rfl) (FrameA.foldl _ (fun s e => osSend_frameA s _ _) _ _)
@[simp] theorem failAll_k (s : St) (a : Activity) : (failAll s a).k = s.k := (failAll_frameA s a).k
@[simp] theorem failAll_maxInFlight (s : St) (a : Activity) : (failAll s a).maxInFlight = s.maxInFlight := (failAll_frameA s a).maxInFlight
@[simp] theorem failAll_bufCap (s : St) (a : Activity) : (failAll s a).bufCap = s.bufCap := (failAll_frameA s a).bufCap
@[simp] theorem failAll_ensureLoop (s : St) (a : Activity) : (failAll s a).ensureLoop = s.ensureLoop := (failAll_frameA s a).ensureLoop
@[simp] theorem failAll_t (s : St) (a : Activity) : (failAll s a).t = s.t := (failAll_frameA s a).t
@[simp] theorem failAll_termErr (s : St) (a : Activity) : (failAll s a).termErr = s.termErr := (failAll_frameA s a).termErr
@[simp] theorem failAll_readFused (s : St) (a : Activity) : (failAll s a).readFused = s.readFused := (failAll_frameA s a).readFused
@[simp] theorem failAll_tObs (s : St) (a : Activity) : (failAll s a).obs.filter isT = s.obs.filter isT := (failAll_frameA s a).tobs

theorem drainLoop_frameA (fuel : Nat) (s : St) (a : Activity) : FrameA s (drainLoop fuel s a).1 := by
  induction fuel generalizing s with
  | zero => exact .refl _
  | succ fuel ih =>
    unfold drainLoop
    have h := pqRecv_frameA s
    split <;> rename_i heq <;> rw [heq] at h
    · exact h
    · exact h
    · split
      · exact .trans h (ih _)
      · exact .trans (.trans h (osSend_frameA _ _ _)) (ih _)
@[simp] theorem drainLoop_k (fuel : Nat) (s : St) (a : Activity) : ((drainLoop fuel s a).1).k = s.k := (drainLoop_frameA fuel s a).k
@[simp] theorem drainLoop_maxInFlight (fuel : Nat) (s : St) (a : Activity) : ((drainLoop fuel s a).1).maxInFlight = s.maxInFlight := (drainLoop_frameA fuel s a).maxInFlight
@[simp] theorem drainLoop_bufCap (fuel : Nat) (s : St) (a : Activity) : ((drainLoop fuel s a).1).bufCap = s.bufCap := (drainLoop_frameA fuel s a).bufCap
@[simp] theorem drainLoop_ensureLoop (fuel : Nat) (s : St) (a : Activity) : ((drainLoop fuel s a).1).ensureLoop = s.ensureLoop := (drainLoop_frameA fuel s a).ensureLoop
@[simp] theorem drainLoop_t (fuel : Nat) (s : St) (a : Activity) : ((drainLoop fuel s a).1).t = s.t := (drainLoop_frameA fuel s a).t
@[simp] theorem drainLoop_termErr (fuel : Nat) (s : St) (a : Activity) : ((drainLoop fuel s a).1).termErr = s.termErr := (drainLoop_frameA fuel s a).termErr
@[simp] theorem drainLoop_readFused (fuel : Nat) (s : St) (a : Activity) : ((drainLoop fuel s a).1).readFused = s.readFused := (drainLoop_frameA fuel s a).readFused
@[simp] theorem drainLoop_tObs (fuel : Nat) (s : St) (a : Activity) : ((drainLoop fuel s a).1).obs.filter isT = s.obs.filter isT := (drainLoop_frameA fuel s a).tobs

theorem shutDown_frameA (s : St) (a : Activity) : FrameA s (shutDown s a).1 := by
  unfold shutDown
  exact .trans (.trans (pqClose_frameA _) (failAll_frameA _ _)) (drainLoop_frameA _ _ _)
@[simp] theorem shutDown_k (s : St) (a : Activity) : ((shutDown s a).1).k = s.k := (shutDown_frameA s a).k
@[simp] theorem shutDown_maxInFlight (s : St) (a : Activity) : ((shutDown s a).1).maxInFlight = s.maxInFlight := (shutDown_frameA s a).maxInFlight
@[simp] theorem shutDown_bufCap (s : St) (a : Activity) : ((shutDown s a).1).bufCap = s.bufCap := (shutDown_frameA s a).bufCap
@[simp] theorem shutDown_ensureLoop (s : St) (a : Activity) : ((shutDown s a).1).ensureLoop = s.ensureLoop := (shutDown_frameA s a).ensureLoop
@[simp] theorem shutDown_t (s : St) (a : Activity) : ((shutDown s a).1).t = s.t := (shutDown_frameA s a).t
@[simp] theorem shutDown_termErr (s : St) (a : Activity) : ((shutDown s a).1).termErr = s.termErr := (shutDown_frameA s a).termErr
@[simp] theorem shutDown_readFused (s : St) (a : Activity) : ((shutDown s a).1).readFused = s.readFused := (shutDown_frameA s a).readFused
@[simp] theorem shutDown_tObs (s : St) (a : Activity) : ((shutDown s a).1).obs.filter isT = s.obs.filter isT := (shutDown_frameA s a).tobs

theorem dropDispatch_frameA (s : St) : FrameA s (dropDispatch s) := by
  have hA : ∀ s1 : St, FrameA s1 (s1.pq.foldl (fun s r => osDropTx s r.cid)
      { s1 with pq := [], pqAvail := s1.bufCap - s1.pqAssigned.length }) := fun s1 =>
    .trans (by frameA_rfl) (FrameA.foldl _ (fun s r => osDropTx_frameA s _) _ _)
  have hB : ∀ s2 : St, FrameA s2 (s2.inflight.foldl (fun s e => osDropTx s e.cid)
      { s2 with inflight := [], timers := {} }) := fun s2 =>
    .trans (by frameA_rfl) (FrameA.foldl _ (fun s e => osDropTx_frameA s _) _ _)
  have hC : ∀ s3 : St, FrameA s3 { s3 with cq := [] } := fun s3 => by frameA_rfl
  unfold dropDispatch; split
  · exact emit_frameA _ _ rfl
  · exact .trans (.trans (.trans (.trans (by frameA_rfl) (pqClose_frameA _)) (hA _)) (hB _)) (hC _)
@[simp] theorem dropDispatch_k (s : St) : (dropDispatch s).k = s.k := (dropDispatch_frameA s).k
@[simp] theorem dropDispatch_maxInFlight (s : St) : (dropDispatch s).maxInFlight = s.maxInFlight := (dropDispatch_frameA s).maxInFlight
@[simp] theorem dropDispatch_bufCap (s : St) : (dropDispatch s).bufCap = s.bufCap := (dropDispatch_frameA s).bufCap
@[simp] theorem dropDispatch_ensureLoop (s : St) : (dropDispatch s).ensureLoop = s.ensureLoop := (dropDispatch_frameA s).ensureLoop
@[simp] theorem dropDispatch_t (s : St) : (dropDispatch s).t = s.t := (dropDispatch_frameA s).t
@[simp] theorem dropDispatch_termErr (s : St) : (dropDispatch s).termErr = s.termErr := (dropDispatch_frameA s).termErr
@[simp] theorem dropDispatch_readFused (s : St) : (dropDispatch s).readFused = s.readFused := (dropDispatch_frameA s).readFused
@[simp] theorem dropDispatch_tObs (s : St) : (dropDispatch s).obs.filter isT = s.obs.filter isT := (dropDispatch_frameA s).tobs

theorem guardClose_frameA (s : St) (cid : Nat) : FrameA s (guardClose s cid) := updCall_frameA _ _ _
@[simp] theorem guardClose_k (s : St) (cid : Nat) : (guardClose s cid).k = s.k := (guardClose_frameA s cid).k
@[simp] theorem guardClose_maxInFlight (s : St) (cid : Nat) : (guardClose s cid).maxInFlight = s.maxInFlight := (guardClose_frameA s cid).maxInFlight
@[simp] theorem guardClose_bufCap (s : St) (cid : Nat) : (guardClose s cid).bufCap = s.bufCap := (guardClose_frameA s cid).bufCap
@[simp] theorem guardClose_ensureLoop (s : St) (cid : Nat) : (guardClose s cid).ensureLoop = s.ensureLoop := (guardClose_frameA s cid).ensureLoop
@[simp] theorem guardClose_t (s : St) (cid : Nat) : (guardClose s cid).t = s.t := (guardClose_frameA s cid).t
@[simp] theorem guardClose_termErr (s : St) (cid : Nat) : (guardClose s cid).termErr = s.termErr := (guardClose_frameA s cid).termErr
@[simp] theorem guardClose_readFused (s : St) (cid : Nat) : (guardClose s cid).readFused = s.readFused := (guardClose_frameA s cid).readFused
@[simp] theorem guardClose_tObs (s : St) (cid : Nat) : (guardClose s cid).obs.filter isT = s.obs.filter isT := (guardClose_frameA s cid).tobs

theorem afterCallGone_frameA (s : St) : FrameA s (afterCallGone s) := by
  unfold afterCallGone; split
  · have h1 : FrameA s (if s.pqRxWaker then wakeDispatch { s with pqRxWaker := false } else s) := by
      split
      · exact .trans (by frameA_rfl) (wakeDispatch_frameA _)
      · exact .refl _
    refine .trans h1 ?_
    generalize (if s.pqRxWaker then wakeDispatch { s with pqRxWaker := false } else s) = s1
    simp only; split
    · exact .trans (by frameA_rfl) (wakeDispatch_frameA _)
    · exact .refl _
  · exact .refl _
@[simp] theorem afterCallGone_k (s : St) : (afterCallGone s).k = s.k := (afterCallGone_frameA s).k
@[simp] theorem afterCallGone_maxInFlight (s : St) : (afterCallGone s).maxInFlight = s.maxInFlight := (afterCallGone_frameA s).maxInFlight
@[simp] theorem afterCallGone_bufCap (s : St) : (afterCallGone s).bufCap = s.bufCap := (afterCallGone_frameA s).bufCap
@[simp] theorem afterCallGone_ensureLoop (s : St) : (afterCallGone s).ensureLoop = s.ensureLoop := (afterCallGone_frameA s).ensureLoop
@[simp] theorem afterCallGone_t (s : St) : (afterCallGone s).t = s.t := (afterCallGone_frameA s).t
@[simp] theorem afterCallGone_termErr (s : St) : (afterCallGone s).termErr = s.termErr := (afterCallGone_frameA s).termErr
@[simp] theorem afterCallGone_readFused (s : St) : (afterCallGone s).readFused = s.readFused := (afterCallGone_frameA s).readFused
@[simp] theorem afterCallGone_tObs (s : St) : (afterCallGone s).obs.filter isT = s.obs.filter isT := (afterCallGone_frameA s).tobs

theorem resolve_frameA (s : St) (cid : Nat) (o : Outcome) (now : Nat) : FrameA s (resolve s cid o now) := by
  unfold resolve
  exact .trans (.trans (updCall_frameA _ _ _) (emit_frameA _ _ rfl)) (afterCallGone_frameA _)
@[simp] theorem resolve_k (s : St) (cid : Nat) (o : Outcome) (now : Nat) : (resolve s cid o now).k = s.k := (resolve_frameA s cid o now).k
@[simp] theorem resolve_maxInFlight (s : St) (cid : Nat) (o : Outcome) (now : Nat) : (resolve s cid o now).maxInFlight = s.maxInFlight := (resolve_frameA s cid o now).maxInFlight
@[simp] theorem resolve_bufCap (s : St) (cid : Nat) (o : Outcome) (now : Nat) : (resolve s cid o now).bufCap = s.bufCap := (resolve_frameA s cid o now).bufCap
@[simp] theorem resolve_ensureLoop (s : St) (cid : Nat) (o : Outcome) (now : Nat) : (resolve s cid o now).ensureLoop = s.ensureLoop := (resolve_frameA s cid o now).ensureLoop
@[simp] theorem resolve_t (s : St) (cid : Nat) (o : Outcome) (now : Nat) : (resolve s cid o now).t = s.t := (resolve_frameA s cid o now).t
@[simp] theorem resolve_termErr (s : St) (cid : Nat) (o : Outcome) (now : Nat) : (resolve s cid o now).termErr = s.termErr := (resolve_frameA s cid o now).termErr
@[simp] theorem resolve_readFused (s : St) (cid : Nat) (o : Outcome) (now : Nat) : (resolve s cid o now).readFused = s.readFused := (resolve_frameA s cid o now).readFused
@[simp] theorem resolve_tObs (s : St) (cid : Nat) (o : Outcome) (now : Nat) : (resolve s cid o now).obs.filter isT = s.obs.filter isT := (resolve_frameA s cid o now).tobs

theorem failShutdown_frameA (s : St) (cid id now : Nat) : FrameA s (failShutdown s cid id now) := by
  unfold failShutdown
  exact .trans (.trans (.trans (osDropTx_frameA _ _) (guardClose_frameA _ _)) (cqPush_frameA _ _)) (resolve_frameA _ _ _ _)
@[simp] theorem failShutdown_k (s : St) (cid id now : Nat) : (failShutdown s cid id now).k = s.k := (failShutdown_frameA s cid id now).k
@[simp] theorem failShutdown_maxInFlight (s : St) (cid id now : Nat) : (failShutdown s cid id now).maxInFlight = s.maxInFlight := (failShutdown_frameA s cid id now).maxInFlight
@[simp] theorem failShutdown_bufCap (s : St) (cid id now : Nat) : (failShutdown s cid id now).bufCap = s.bufCap := (failShutdown_frameA s cid id now).bufCap
@[simp] theorem failShutdown_ensureLoop (s : St) (cid id now : Nat) : (failShutdown s cid id now).ensureLoop = s.ensureLoop := (failShutdown_frameA s cid id now).ensureLoop
@[simp] theorem failShutdown_t (s : St) (cid id now : Nat) : (failShutdown s cid id now).t = s.t := (failShutdown_frameA s cid id now).t
@[simp] theorem failShutdown_termErr (s : St) (cid id now : Nat) : (failShutdown s cid id now).termErr = s.termErr := (failShutdown_frameA s cid id now).termErr
@[simp] theorem failShutdown_readFused (s : St) (cid id now : Nat) : (failShutdown s cid id now).readFused = s.readFused := (failShutdown_frameA s cid id now).readFused
@[simp] theorem failShutdown_tObs (s : St) (cid id now : Nat) : (failShutdown s cid id now).obs.filter isT = s.obs.filter isT := (failShutdown_frameA s cid id now).tobs

theorem pollOneshot_frameA (s : St) (cid now : Nat) : FrameA s (pollOneshot s cid now) := by
  unfold pollOneshot; split
  · exact .refl _
  · split
    · exact .trans (updCall_frameA _ _ _) (resolve_frameA _ _ _ _)
    · split
      · exact resolve_frameA _ _ _ _
      · exact .trans (updCall_frameA _ _ _) (emit_frameA _ _ rfl)
@[simp] theorem pollOneshot_k (s : St) (cid now : Nat) : (pollOneshot s cid now).k = s.k := (pollOneshot_frameA s cid now).k
@[simp] theorem pollOneshot_maxInFlight (s : St) (cid now : Nat) : (pollOneshot s cid now).maxInFlight = s.maxInFlight := (pollOneshot_frameA s cid now).maxInFlight
@[simp] theorem pollOneshot_bufCap (s : St) (cid now : Nat) : (pollOneshot s cid now).bufCap = s.bufCap := (pollOneshot_frameA s cid now).bufCap
@[simp] theorem pollOneshot_ensureLoop (s : St) (cid now : Nat) : (pollOneshot s cid now).ensureLoop = s.ensureLoop := (pollOneshot_frameA s cid now).ensureLoop
@[simp] theorem pollOneshot_t (s : St) (cid now : Nat) : (pollOneshot s cid now).t = s.t := (pollOneshot_frameA s cid now).t
@[simp] theorem pollOneshot_termErr (s : St) (cid now : Nat) : (pollOneshot s cid now).termErr = s.termErr := (pollOneshot_frameA s cid now).termErr
@[simp] theorem pollOneshot_readFused (s : St) (cid now : Nat) : (pollOneshot s cid now).readFused = s.readFused := (pollOneshot_frameA s cid now).readFused
@[simp] theorem pollOneshot_tObs (s : St) (cid now : Nat) : (pollOneshot s cid now).obs.filter isT = s.obs.filter isT := (pollOneshot_frameA s cid now).tobs

theorem enqueue_frameA (s : St) (c : Call) (now : Nat) : FrameA s (enqueue s c now) := by
  unfold enqueue
  exact .trans (.trans (pqPush_frameA _ _) (updCall_frameA _ _ _)) (pollOneshot_frameA _ _ _)
@[simp] theorem enqueue_k (s : St) (c : Call) (now : Nat) : (enqueue s c now).k = s.k := (enqueue_frameA s c now).k
@[simp] theorem enqueue_maxInFlight (s : St) (c : Call) (now : Nat) : (enqueue s c now).maxInFlight = s.maxInFlight := (enqueue_frameA s c now).maxInFlight
@[simp] theorem enqueue_bufCap (s : St) (c : Call) (now : Nat) : (enqueue s c now).bufCap = s.bufCap := (enqueue_frameA s c now).bufCap
@[simp] theorem enqueue_ensureLoop (s : St) (c : Call) (now : Nat) : (enqueue s c now).ensureLoop = s.ensureLoop := (enqueue_frameA s c now).ensureLoop
@[simp] theorem enqueue_t (s : St) (c : Call) (now : Nat) : (enqueue s c now).t = s.t := (enqueue_frameA s c now).t
@[simp] theorem enqueue_termErr (s : St) (c : Call) (now : Nat) : (enqueue s c now).termErr = s.termErr := (enqueue_frameA s c now).termErr
@[simp] theorem enqueue_readFused (s : St) (c : Call) (now : Nat) : (enqueue s c now).readFused = s.readFused := (enqueue_frameA s c now).readFused
@[simp] theorem enqueue_tObs (s : St) (c : Call) (now : Nat) : (enqueue s c now).obs.filter isT = s.obs.filter isT := (enqueue_frameA s c now).tobs

theorem pollCall_frameA (s : St) (cid now : Nat) : FrameA s (pollCall s cid now) := by
  unfold pollCall; split
  · exact emit_frameA _ _ rfl
  · split
    · exact emit_frameA _ _ rfl
    · exact emit_frameA _ _ rfl
    · simp only; split
      · frameA_simp
      · split <;> frameA_simp
    · simp only; split
      · frameA_simp
      · split <;> frameA_simp
    · exact .trans (updCall_frameA _ _ _) (pollOneshot_frameA _ _ _)
@[simp] theorem pollCall_k (s : St) (cid now : Nat) : (pollCall s cid now).k = s.k := (pollCall_frameA s cid now).k
@[simp] theorem pollCall_maxInFlight (s : St) (cid now : Nat) : (pollCall s cid now).maxInFlight = s.maxInFlight := (pollCall_frameA s cid now).maxInFlight
@[simp] theorem pollCall_bufCap (s : St) (cid now : Nat) : (pollCall s cid now).bufCap = s.bufCap := (pollCall_frameA s cid now).bufCap
@[simp] theorem pollCall_ensureLoop (s : St) (cid now : Nat) : (pollCall s cid now).ensureLoop = s.ensureLoop := (pollCall_frameA s cid now).ensureLoop
@[simp] theorem pollCall_t (s : St) (cid now : Nat) : (pollCall s cid now).t = s.t := (pollCall_frameA s cid now).t
@[simp] theorem pollCall_termErr (s : St) (cid now : Nat) : (pollCall s cid now).termErr = s.termErr := (pollCall_frameA s cid now).termErr
@[simp] theorem pollCall_readFused (s : St) (cid now : Nat) : (pollCall s cid now).readFused = s.readFused := (pollCall_frameA s cid now).readFused
@[simp] theorem pollCall_tObs (s : St) (cid now : Nat) : (pollCall s cid now).obs.filter isT = s.obs.filter isT := (pollCall_frameA s cid now).tobs

theorem dropPre_frameA (s : St) (cid : Nat) : FrameA s (dropPre s cid) := by
  unfold dropPre; split
  · exact .refl _
  · split
    · simp only; split <;> frameA_simp
    · exact .refl _
@[simp] theorem dropPre_k (s : St) (cid : Nat) : (dropPre s cid).k = s.k := (dropPre_frameA s cid).k
@[simp] theorem dropPre_maxInFlight (s : St) (cid : Nat) : (dropPre s cid).maxInFlight = s.maxInFlight := (dropPre_frameA s cid).maxInFlight
@[simp] theorem dropPre_bufCap (s : St) (cid : Nat) : (dropPre s cid).bufCap = s.bufCap := (dropPre_frameA s cid).bufCap
@[simp] theorem dropPre_ensureLoop (s : St) (cid : Nat) : (dropPre s cid).ensureLoop = s.ensureLoop := (dropPre_frameA s cid).ensureLoop
@[simp] theorem dropPre_t (s : St) (cid : Nat) : (dropPre s cid).t = s.t := (dropPre_frameA s cid).t
@[simp] theorem dropPre_termErr (s : St) (cid : Nat) : (dropPre s cid).termErr = s.termErr := (dropPre_frameA s cid).termErr
@[simp] theorem dropPre_readFused (s : St) (cid : Nat) : (dropPre s cid).readFused = s.readFused := (dropPre_frameA s cid).readFused
@[simp] theorem dropPre_tObs (s : St) (cid : Nat) : (dropPre s cid).obs.filter isT = s.obs.filter isT := (dropPre_frameA s cid).tobs

theorem dropClose_frameA (s : St) (cid : Nat) : FrameA s (dropClose s cid) := by
  unfold dropClose; split
  · exact .refl _
  · split <;> first | exact guardClose_frameA _ _ | exact .refl _
@[simp] theorem dropClose_k (s : St) (cid : Nat) : (dropClose s cid).k = s.k := (dropClose_frameA s cid).k
@[simp] theorem dropClose_maxInFlight (s : St) (cid : Nat) : (dropClose s cid).maxInFlight = s.maxInFlight := (dropClose_frameA s cid).maxInFlight
@[simp] theorem dropClose_bufCap (s : St) (cid : Nat) : (dropClose s cid).bufCap = s.bufCap := (dropClose_frameA s cid).bufCap
@[simp] theorem dropClose_ensureLoop (s : St) (cid : Nat) : (dropClose s cid).ensureLoop = s.ensureLoop := (dropClose_frameA s cid).ensureLoop
@[simp] theorem dropClose_t (s : St) (cid : Nat) : (dropClose s cid).t = s.t := (dropClose_frameA s cid).t
@[simp] theorem dropClose_termErr (s : St) (cid : Nat) : (dropClose s cid).termErr = s.termErr := (dropClose_frameA s cid).termErr
@[simp] theorem dropClose_readFused (s : St) (cid : Nat) : (dropClose s cid).readFused = s.readFused := (dropClose_frameA s cid).readFused
@[simp] theorem dropClose_tObs (s : St) (cid : Nat) : (dropClose s cid).obs.filter isT = s.obs.filter isT := (dropClose_frameA s cid).tobs

theorem dropCancel_frameA (s : St) (cid : Nat) : FrameA s (dropCancel s cid) := by
  unfold dropCancel; split
  · exact .refl _
  · split <;> first | exact cqPush_frameA _ _ | exact .refl _
@[simp] theorem dropCancel_k (s : St) (cid : Nat) : (dropCancel s cid).k = s.k := (dropCancel_frameA s cid).k
@[simp] theorem dropCancel_maxInFlight (s : St) (cid : Nat) : (dropCancel s cid).maxInFlight = s.maxInFlight := (dropCancel_frameA s cid).maxInFlight
@[simp] theorem dropCancel_bufCap (s : St) (cid : Nat) : (dropCancel s cid).bufCap = s.bufCap := (dropCancel_frameA s cid).bufCap
@[simp] theorem dropCancel_ensureLoop (s : St) (cid : Nat) : (dropCancel s cid).ensureLoop = s.ensureLoop := (dropCancel_frameA s cid).ensureLoop
@[simp] theorem dropCancel_t (s : St) (cid : Nat) : (dropCancel s cid).t = s.t := (dropCancel_frameA s cid).t
@[simp] theorem dropCancel_termErr (s : St) (cid : Nat) : (dropCancel s cid).termErr = s.termErr := (dropCancel_frameA s cid).termErr
@[simp] theorem dropCancel_readFused (s : St) (cid : Nat) : (dropCancel s cid).readFused = s.readFused := (dropCancel_frameA s cid).readFused
@[simp] theorem dropCancel_tObs (s : St) (cid : Nat) : (dropCancel s cid).obs.filter isT = s.obs.filter isT := (dropCancel_frameA s cid).tobs

theorem dropFinish_frameA (s : St) (cid : Nat) : FrameA s (dropFinish s cid) := by
  unfold dropFinish; split
  · exact emit_frameA _ _ rfl
  · split <;> first | exact .trans (updCall_frameA _ _ _) (afterCallGone_frameA _) | exact emit_frameA _ _ rfl
@[simp] theorem dropFinish_k (s : St) (cid : Nat) : (dropFinish s cid).k = s.k := (dropFinish_frameA s cid).k
@[simp] theorem dropFinish_maxInFlight (s : St) (cid : Nat) : (dropFinish s cid).maxInFlight = s.maxInFlight := (dropFinish_frameA s cid).maxInFlight
@[simp] theorem dropFinish_bufCap (s : St) (cid : Nat) : (dropFinish s cid).bufCap = s.bufCap := (dropFinish_frameA s cid).bufCap
@[simp] theorem dropFinish_ensureLoop (s : St) (cid : Nat) : (dropFinish s cid).ensureLoop = s.ensureLoop := (dropFinish_frameA s cid).ensureLoop
@[simp] theorem dropFinish_t (s : St) (cid : Nat) : (dropFinish s cid).t = s.t := (dropFinish_frameA s cid).t
@[simp] theorem dropFinish_termErr (s : St) (cid : Nat) : (dropFinish s cid).termErr = s.termErr := (dropFinish_frameA s cid).termErr
@[simp] theorem dropFinish_readFused (s : St) (cid : Nat) : (dropFinish s cid).readFused = s.readFused := (dropFinish_frameA s cid).readFused
@[simp] theorem dropFinish_tObs (s : St) (cid : Nat) : (dropFinish s cid).obs.filter isT = s.obs.filter isT := (dropFinish_frameA s cid).tobs

theorem newCall_frameA (s : St) (h : Nat) (ctx : Ctx) (body : Nat) : FrameA s (newCall s h ctx body) := by
  unfold newCall; split
  · frameA_rfl
  · exact emit_frameA _ _ rfl
@[simp] theorem newCall_k (s : St) (h : Nat) (ctx : Ctx) (body : Nat) : (newCall s h ctx body).k = s.k := (newCall_frameA s h ctx body).k
@[simp] theorem newCall_maxInFlight (s : St) (h : Nat) (ctx : Ctx) (body : Nat) : (newCall s h ctx body).maxInFlight = s.maxInFlight := (newCall_frameA s h ctx body).maxInFlight
@[simp] theorem newCall_bufCap (s : St) (h : Nat) (ctx : Ctx) (body : Nat) : (newCall s h ctx body).bufCap = s.bufCap := (newCall_frameA s h ctx body).bufCap
@[simp] theorem newCall_ensureLoop (s : St) (h : Nat) (ctx : Ctx) (body : Nat) : (newCall s h ctx body).ensureLoop = s.ensureLoop := (newCall_frameA s h ctx body).ensureLoop
@[simp] theorem newCall_t (s : St) (h : Nat) (ctx : Ctx) (body : Nat) : (newCall s h ctx body).t = s.t := (newCall_frameA s h ctx body).t
@[simp] theorem newCall_termErr (s : St) (h : Nat) (ctx : Ctx) (body : Nat) : (newCall s h ctx body).termErr = s.termErr := (newCall_frameA s h ctx body).termErr
@[simp] theorem newCall_readFused (s : St) (h : Nat) (ctx : Ctx) (body : Nat) : (newCall s h ctx body).readFused = s.readFused := (newCall_frameA s h ctx body).readFused
@[simp] theorem newCall_tObs (s : St) (h : Nat) (ctx : Ctx) (body : Nat) : (newCall s h ctx body).obs.filter isT = s.obs.filter isT := (newCall_frameA s h ctx body).tobs

theorem cloneHandle_frameA (s : St) (h : Nat) : FrameA s (cloneHandle s h) := by
  unfold cloneHandle; split
  · frameA_rfl
  · exact emit_frameA _ _ rfl
@[simp] theorem cloneHandle_k (s : St) (h : Nat) : (cloneHandle s h).k = s.k := (cloneHandle_frameA s h).k
@[simp] theorem cloneHandle_maxInFlight (s : St) (h : Nat) : (cloneHandle s h).maxInFlight = s.maxInFlight := (cloneHandle_frameA s h).maxInFlight
@[simp] theorem cloneHandle_bufCap (s : St) (h : Nat) : (cloneHandle s h).bufCap = s.bufCap := (cloneHandle_frameA s h).bufCap
@[simp] theorem cloneHandle_ensureLoop (s : St) (h : Nat) : (cloneHandle s h).ensureLoop = s.ensureLoop := (cloneHandle_frameA s h).ensureLoop
@[simp] theorem cloneHandle_t (s : St) (h : Nat) : (cloneHandle s h).t = s.t := (cloneHandle_frameA s h).t
@[simp] theorem cloneHandle_termErr (s : St) (h : Nat) : (cloneHandle s h).termErr = s.termErr := (cloneHandle_frameA s h).termErr
@[simp] theorem cloneHandle_readFused (s : St) (h : Nat) : (cloneHandle s h).readFused = s.readFused := (cloneHandle_frameA s h).readFused
@[simp] theorem cloneHandle_tObs (s : St) (h : Nat) : (cloneHandle s h).obs.filter isT = s.obs.filter isT := (cloneHandle_frameA s h).tobs

theorem dropHandle_frameA (s : St) (h : Nat) : FrameA s (dropHandle s h) := by
  unfold dropHandle; split
  · exact .trans (by frameA_rfl) (afterCallGone_frameA _)
  · exact emit_frameA _ _ rfl
@[simp] theorem dropHandle_k (s : St) (h : Nat) : (dropHandle s h).k = s.k := (dropHandle_frameA s h).k
@[simp] theorem dropHandle_maxInFlight (s : St) (h : Nat) : (dropHandle s h).maxInFlight = s.maxInFlight := (dropHandle_frameA s h).maxInFlight
@[simp] theorem dropHandle_bufCap (s : St) (h : Nat) : (dropHandle s h).bufCap = s.bufCap := (dropHandle_frameA s h).bufCap
@[simp] theorem dropHandle_ensureLoop (s : St) (h : Nat) : (dropHandle s h).ensureLoop = s.ensureLoop := (dropHandle_frameA s h).ensureLoop
@[simp] theorem dropHandle_t (s : St) (h : Nat) : (dropHandle s h).t = s.t := (dropHandle_frameA s h).t
@[simp] theorem dropHandle_termErr (s : St) (h : Nat) : (dropHandle s h).termErr = s.termErr := (dropHandle_frameA s h).termErr
@[simp] theorem dropHandle_readFused (s : St) (h : Nat) : (dropHandle s h).readFused = s.readFused := (dropHandle_frameA s h).readFused
@[simp] theorem dropHandle_tObs (s : St) (h : Nat) : (dropHandle s h).obs.filter isT = s.obs.filter isT := (dropHandle_frameA s h).tobs

theorem onAdvance_frameA (s : St) (now : Nat) : FrameA s (onAdvance s now) := by
  unfold onAdvance; split
  · split
    · exact .trans (by frameA_rfl) (wakeDispatch_frameA _)
    · exact .refl _
  · exact .refl _
@[simp] theorem onAdvance_k (s : St) (now : Nat) : (onAdvance s now).k = s.k := (onAdvance_frameA s now).k
@[simp] theorem onAdvance_maxInFlight (s : St) (now : Nat) : (onAdvance s now).maxInFlight = s.maxInFlight := (onAdvance_frameA s now).maxInFlight
@[simp] theorem onAdvance_bufCap (s : St) (now : Nat) : (onAdvance s now).bufCap = s.bufCap := (onAdvance_frameA s now).bufCap
@[simp] theorem onAdvance_ensureLoop (s : St) (now : Nat) : (onAdvance s now).ensureLoop = s.ensureLoop := (onAdvance_frameA s now).ensureLoop
@[simp] theorem onAdvance_t (s : St) (now : Nat) : (onAdvance s now).t = s.t := (onAdvance_frameA s now).t
@[simp] theorem onAdvance_termErr (s : St) (now : Nat) : (onAdvance s now).termErr = s.termErr := (onAdvance_frameA s now).termErr
@[simp] theorem onAdvance_readFused (s : St) (now : Nat) : (onAdvance s now).readFused = s.readFused := (onAdvance_frameA s now).readFused
@[simp] theorem onAdvance_tObs (s : St) (now : Nat) : (onAdvance s now).obs.filter isT = s.obs.filter isT := (onAdvance_frameA s now).tobs


/-! ### case principles for the pumps

One elimination lemma per function of the write / read pump: the goal about `f s` splits into one
goal per control-flow path, each with the equations of the sub-calls made on that path. -/

def readyEW : PollRes → EW
  | .ready => .ready
  | .err => .err .ready
  | .pending => .pending

theorem ensureOnce_cases {motive : St × EW → Prop} (s : St)
    (ready : ∀ s1, tReady s = (s1, .ready) → motive (s1, .ready))
    (readyErr : ∀ s1, tReady s = (s1, .err) → motive (s1, .err .ready))
    (flushPending : ∀ s1 s2, tReady s = (s1, .pending) → tFlush s1 = (s2, .pending) → motive (s2, .pending))
    (flushErr : ∀ s1 s2, tReady s = (s1, .pending) → tFlush s1 = (s2, .err) → motive (s2, .err .flush))
    (again : ∀ s1 s2 s3 r, tReady s = (s1, .pending) → tFlush s1 = (s2, .ready) → tReady s2 = (s3, r) →
      motive (s3, readyEW r)) :
    motive (ensureOnce s) := by
  unfold ensureOnce
  rcases h1 : tReady s with ⟨s1, r1⟩
  cases r1 <;> dsimp only
  · rcases h2 : tFlush s1 with ⟨s2, f⟩
    cases f <;> dsimp only
    · exact flushPending _ _ h1 h2
    · rcases h3 : tReady s2 with ⟨s3, r3⟩
      have := again _ _ _ _ h1 h2 h3
      cases r3 <;> exact this
    · exact flushErr _ _ h1 h2
  · exact ready _ h1
  · exact readyErr _ h1

theorem ensureLoop_zero (s : St) : ensureLoop 0 s = (emit s (.spin (tid s)), .spin) := rfl

theorem ensureLoop_cases {motive : St × EW → Prop} (fuel : Nat) (s : St)
    (ready : ∀ s1, tReady s = (s1, .ready) → motive (s1, .ready))
    (readyErr : ∀ s1, tReady s = (s1, .err) → motive (s1, .err .ready))
    (flushPending : ∀ s1 s2, tReady s = (s1, .pending) → tFlush s1 = (s2, .pending) → motive (s2, .pending))
    (flushErr : ∀ s1 s2, tReady s = (s1, .pending) → tFlush s1 = (s2, .err) → motive (s2, .err .flush))
    (again : ∀ s1 s2, tReady s = (s1, .pending) → tFlush s1 = (s2, .ready) → motive (ensureLoop fuel s2)) :
    motive (ensureLoop (fuel + 1) s) := by
  unfold ensureLoop
  rcases h1 : tReady s with ⟨s1, r1⟩
  cases r1 <;> dsimp only
  · rcases h2 : tFlush s1 with ⟨s2, f⟩
    cases f <;> dsimp only
    · exact flushPending _ _ h1 h2
    · exact again _ _ h1 h2
    · exact flushErr _ _ h1 h2
  · exact ready _ h1
  · exact readyErr _ h1

/-- `ensure_writeable`'s result as the `poll_next_…` helpers pass it on. -/
def _root_.TarpcModel.Client.EW.toPW {α : Type} : EW → PW α
  | .ready => .pending      -- (not used: `.ready` continues)
  | .pending => .pending
  | .err a => .err a
  | .spin => .spin

theorem pollNextRequest_cases {motive : St × PW DReq → Prop} (s : St)
    (full : s.inflight.length ≥ s.maxInFlight → motive (s, .pending))
    (notReady : ∀ s1 e, ¬ s.inflight.length ≥ s.maxInFlight → ensureWriteable s = (s1, e) → e ≠ .ready →
      motive (s1, e.toPW))
    (loop : ∀ s1, ¬ s.inflight.length ≥ s.maxInFlight → ensureWriteable s = (s1, .ready) →
      motive (nextRequestLoop (s1.pq.length + 1) s1)) :
    motive (pollNextRequest s) := by
  unfold pollNextRequest
  split
  · exact full ‹_›
  · rename_i hf
    rcases h1 : ensureWriteable s with ⟨s1, e⟩
    cases e <;> dsimp only
    · exact loop _ hf h1
    · exact notReady _ _ hf h1 (by simp)
    · exact notReady _ _ hf h1 (by simp)
    · exact notReady _ _ hf h1 (by simp)

theorem pollNextCancellation_cases {motive : St × PW Entry → Prop} (s : St)
    (notReady : ∀ s1 e, ensureWriteable s = (s1, e) → e ≠ .ready → motive (s1, e.toPW))
    (loop : ∀ s1, ensureWriteable s = (s1, .ready) → motive (nextCancelLoop (s1.cq.length + 1) s1)) :
    motive (pollNextCancellation s) := by
  unfold pollNextCancellation
  rcases h1 : ensureWriteable s with ⟨s1, e⟩
  cases e <;> dsimp only
  · exact loop _ h1
  · exact notReady _ _ h1 (by simp)
  · exact notReady _ _ h1 (by simp)
  · exact notReady _ _ h1 (by simp)

/-- A `poll_next_…` result that carries no item, as the `poll_write_…` caller passes it on. -/
def _root_.TarpcModel.Client.PW.pass {α β : Type} : PW α → PW β
  | .pending => .pending
  | .none => .none
  | .err a => .err a
  | .spin => .spin
  | .some _ => .spin       -- (not used)

def _root_.TarpcModel.Client.PW.isSome {α : Type} : PW α → Bool
  | .some _ => true
  | _ => false

theorem insertRequest_isSome (s : St) (now : Nat) (r : DReq) : ∃ s', insertRequest s now r = some s' := by
  unfold insertRequest; split
  · exact ⟨_, rfl⟩
  · split <;> exact ⟨_, rfl⟩

theorem pollWriteRequest_cases {motive : St × PW Unit → Prop} (s : St) (now : Nat)
    (pass : ∀ s1 r, pollNextRequest s = (s1, r) → r.isSome = false → motive (s1, r.pass))
    (panic : ∀ s1 r s2, pollNextRequest s = (s1, .some r) → insertRequest s1 now r = some s2 →
      s2.poisoned = true → motive (s2, .spin))
    (sent : ∀ s1 r s2 s3, pollNextRequest s = (s1, .some r) → insertRequest s1 now r = some s2 →
      s2.poisoned = false → tSend s2 (.request r.id r.ctx.deadline r.ctx.trace r.body) = (s3, true) →
      motive (s3, .some ()))
    (sendFailed : ∀ s1 r s2 s3, pollNextRequest s = (s1, .some r) → insertRequest s1 now r = some s2 →
      s2.poisoned = false → tSend s2 (.request r.id r.ctx.deadline r.ctx.trace r.body) = (s3, false) →
      motive ((completeRequest s3 r.id .send).1, .some ())) :
    motive (pollWriteRequest s now) := by
  unfold pollWriteRequest
  rcases h1 : pollNextRequest s with ⟨s1, r1⟩
  cases r1 <;> dsimp only
  · exact pass _ _ h1 rfl
  · exact pass _ _ h1 rfl
  · rename_i r
    obtain ⟨s2, h2⟩ := insertRequest_isSome s1 now r
    rw [h2]; dsimp only
    by_cases hp : s2.poisoned = true
    · rw [if_pos hp]; exact panic _ _ _ h1 h2 hp
    · rw [if_neg hp]
      rcases h3 : tSend s2 (.request r.id r.ctx.deadline r.ctx.trace r.body) with ⟨s3, ok⟩
      dsimp only
      cases ok
      · rw [if_neg (by simp)]; exact sendFailed _ _ _ _ h1 h2 (by simpa using hp) h3
      · rw [if_pos rfl]; exact sent _ _ _ _ h1 h2 (by simpa using hp) h3
  · exact pass _ _ h1 rfl
  · exact pass _ _ h1 rfl

theorem pollWriteCancel_cases {motive : St × PW Unit → Prop} (s : St)
    (pass : ∀ s1 r, pollNextCancellation s = (s1, r) → r.isSome = false → motive (s1, r.pass))
    (sent : ∀ s1 e s2, pollNextCancellation s = (s1, .some e) → tSend s1 (.cancel e.id e.ctx.trace) = (s2, true) →
      motive (s2, .some ()))
    (sendFailed : ∀ s1 e s2, pollNextCancellation s = (s1, .some e) →
      tSend s1 (.cancel e.id e.ctx.trace) = (s2, false) → motive (s2, .err .write)) :
    motive (pollWriteCancel s) := by
  unfold pollWriteCancel
  rcases h1 : pollNextCancellation s with ⟨s1, r1⟩
  cases r1 <;> dsimp only
  · exact pass _ _ h1 rfl
  · exact pass _ _ h1 rfl
  · rename_i e
    rcases h3 : tSend s1 (.cancel e.id e.ctx.trace) with ⟨s3, ok⟩
    dsimp only
    cases ok
    · rw [if_neg (by simp)]; exact sendFailed _ _ _ h1 h3
    · rw [if_pos rfl]; exact sent _ _ _ h1 h3
  · exact pass _ _ h1 rfl
  · exact pass _ _ h1 rfl

/-- The write pump stops with this status (an item was written, or an error / spin). -/
def _root_.TarpcModel.Client.PW.isStop : PW Unit → Bool
  | .err _ | .spin | .some _ => true
  | _ => false

def closePW : PollRes → PW Unit
  | .pending => .pending
  | .err => .err .close
  | .ready => .none

def flushPW : PollRes → PW Unit
  | .pending => .pending
  | .err => .err .flush
  | .ready => .pending

theorem _root_.TarpcModel.Client.PW.not_isStop {r : PW Unit} (h : r.isStop = false) : r = .pending ∨ r = .none := by
  cases r <;> simp_all [PW.isStop]

theorem pumpWrite_cases {motive : St × PW Unit → Prop} (s : St) (now : Nat)
    (req : ∀ s1 r1, pollWriteRequest s now = (s1, r1) → r1.isStop = true → motive (s1, r1))
    (can : ∀ s1 r1 s2 r2, pollWriteRequest s now = (s1, r1) → r1.isStop = false →
      pollWriteCancel s1 = (s2, r2) → r2.isStop = true → motive (s2, r2))
    (expired : ∀ s1 r1 s2 r2 s3, pollWriteRequest s now = (s1, r1) → r1.isStop = false →
      pollWriteCancel s1 = (s2, r2) → r2.isStop = false → pollExpired s2 now = (s3, true) → motive (s3, .some ()))
    (poison : ∀ s1 r1 s2 r2 s3, pollWriteRequest s now = (s1, r1) → r1.isStop = false →
      pollWriteCancel s1 = (s2, r2) → r2.isStop = false → pollExpired s2 now = (s3, false) → s3.poisoned = true →
      motive (s3, .spin))
    (close : ∀ s1 s2 s3 s4 r4, pollWriteRequest s now = (s1, .none) → pollWriteCancel s1 = (s2, .none) →
      pollExpired s2 now = (s3, false) → tClose s3 = (s4, r4) → motive (s4, closePW r4))
    (flush : ∀ s1 r1 s2 r2 s3 s4 r4, pollWriteRequest s now = (s1, r1) → r1.isStop = false →
      pollWriteCancel s1 = (s2, r2) → r2.isStop = false → (r1 = .pending ∨ r2 = .pending) →
      pollExpired s2 now = (s3, false) → tFlush s3 = (s4, r4) → motive (s4, flushPW r4)) :
    motive (pumpWrite s now) := by
  unfold pumpWrite
  rcases h1 : pollWriteRequest s now with ⟨s1, r1⟩
  have hreq := req _ _ h1
  cases r1
  case some u => cases u; exact hreq rfl
  case err a => exact hreq rfl
  case spin => exact hreq rfl
  all_goals
    dsimp only
    rcases h2 : pollWriteCancel s1 with ⟨s2, r2⟩
    have hcan := can _ _ _ _ h1 rfl h2
    cases r2
    case some u => cases u; exact hcan rfl
    case err a => exact hcan rfl
    case spin => exact hcan rfl
    all_goals
      dsimp only
      rcases h3 : pollExpired s2 now with ⟨s3, exp⟩
      dsimp only
      cases exp
      case true => rw [if_pos rfl]; exact expired _ _ _ _ _ h1 rfl h2 rfl h3
      case false =>
        rw [if_neg (by simp)]
        by_cases hpo : s3.poisoned = true
        · rw [if_pos hpo]; exact poison _ _ _ _ _ h1 rfl h2 rfl h3 hpo
        rw [if_neg hpo]
        simp only [Bool.false_eq_true, ↓reduceIte, Bool.and_self, Bool.and_false, Bool.and_true]
        first
          | (rcases h4 : tClose s3 with ⟨s4, r4⟩
             have := close _ _ _ _ _ h1 h2 h3 h4
             cases r4 <;> exact this)
          | (rcases h4 : tFlush s3 with ⟨s4, r4⟩
             have := flush _ _ _ _ _ _ _ h1 rfl h2 rfl (by simp) h3 h4
             cases r4 <;> exact this)

theorem pumpRead_cases {motive : St × PW Unit → Prop} (s : St)
    (pending : ∀ s1, tNext s = (s1, .pending) → motive (s1, .pending))
    (eof : ∀ s1, tNext s = (s1, .eof) → motive (s1, .none))
    (err : ∀ s1, tNext s = (s1, .err) → motive (s1, .err .read))
    (response : ∀ s1 id res, tNext s = (s1, .item (.response id res)) →
      motive ((completeRequest s1 id (outcomeOf res)).1, .some ()))
    (other : ∀ s1 m, tNext s = (s1, .item m) → (∀ id res, m ≠ .response id res) → motive (s1, .some ())) :
    motive (pumpRead s) := by
  unfold pumpRead
  rcases h1 : tNext s with ⟨s1, r⟩
  cases r <;> try dsimp only
  · exact pending _ h1
  · rename_i m
    cases m <;> try dsimp only
    · exact other _ _ h1 (by simp)
    · exact other _ _ h1 (by simp)
    · exact response _ _ _ h1
  · exact err _ h1
  · exact eof _ h1

theorem run_zero (s : St) (now : Nat) : run 0 s now = (emit s (.spin (tid s)), .spin) := rfl

theorem run_cases {motive : St × RunRes → Prop} (fuel : Nat) (s : St) (now : Nat)
    (readErr : ∀ s1 a, pumpRead s = (s1, .err a) → motive (s1, .err a))
    (readSpin : ∀ s1, pumpRead s = (s1, .spin) → motive (s1, .spin))
    (writeErr : ∀ s1 rd s2 a, pumpRead s = (s1, rd) → pumpWrite s1 now = (s2, .err a) → motive (s2, .err a))
    (writeSpin : ∀ s1 rd s2, pumpRead s = (s1, rd) → pumpWrite s1 now = (s2, .spin) → motive (s2, .spin))
    (readEof : ∀ s1 s2 wr, pumpRead s = (s1, .none) → pumpWrite s1 now = (s2, wr) →
      wr = .pending ∨ wr = .none ∨ wr = .some () → motive (s2, .ok))
    (closedOk : ∀ s1 rd s2, pumpRead s = (s1, rd) → rd = .pending ∨ rd = .some () → pumpWrite s1 now = (s2, .none) →
      s2.inflight.isEmpty = true → motive (s2, .ok))
    (closedPending : ∀ s1 s2, pumpRead s = (s1, .pending) → pumpWrite s1 now = (s2, .none) →
      s2.inflight.isEmpty = false → motive (s2, .pending))
    (again : ∀ s1 rd s2 wr, pumpRead s = (s1, rd) → pumpWrite s1 now = (s2, wr) →
      (rd = .some () ∧ (wr = .pending ∨ wr = .some () ∨ (wr = .none ∧ s2.inflight.isEmpty = false))) ∨
        (rd = .pending ∧ wr = .some ()) →
      motive (run fuel s2 now))
    (idle : ∀ s1 s2, pumpRead s = (s1, .pending) → pumpWrite s1 now = (s2, .pending) → motive (s2, .pending)) :
    motive (run (fuel + 1) s now) := by
  unfold run
  rcases h1 : pumpRead s with ⟨s1, rd⟩
  cases rd
  case err a => exact readErr _ _ h1
  case spin => exact readSpin _ h1
  all_goals
    dsimp only
    rcases h2 : pumpWrite s1 now with ⟨s2, wr⟩
    cases wr
    case err a => exact writeErr _ _ _ _ h1 h2
    case spin => exact writeSpin _ _ _ h1 h2
    all_goals dsimp only
  -- rd = pending
  · exact idle _ _ h1 h2
  · by_cases he : s2.inflight.isEmpty = true
    · rw [if_pos he]; exact closedOk _ _ _ h1 (.inl rfl) h2 he
    · rw [if_neg he]; exact closedPending _ _ h1 h2 (by simpa using he)
  · rename_i u; cases u; exact again _ _ _ _ h1 h2 (.inr ⟨rfl, rfl⟩)
  -- rd = none
  · exact readEof _ _ _ h1 h2 (.inl rfl)
  · exact readEof _ _ _ h1 h2 (.inr (.inl rfl))
  · rename_i u; cases u; exact readEof _ _ _ h1 h2 (.inr (.inr rfl))
  -- rd = some
  · rename_i u; cases u; exact again _ _ _ _ h1 h2 (.inl ⟨rfl, .inl rfl⟩)
  · rename_i u; cases u
    by_cases he : s2.inflight.isEmpty = true
    · rw [if_pos he]; exact closedOk _ _ _ h1 (.inr rfl) h2 he
    · rw [if_neg he]; exact again _ _ _ _ h1 h2 (.inl ⟨rfl, .inr (.inr ⟨rfl, by simpa using he⟩)⟩)
  · rename_i u u2; cases u; cases u2; exact again _ _ _ _ h1 h2 (.inl ⟨rfl, .inr (.inl rfl)⟩)

theorem pollDispatchCore_cases {motive : St × Ret → Prop} (s : St) (now : Nat)
    (shut : ∀ a s1 fin, s.termErr = some a → shutDown s a = (s1, fin) →
      motive (s1, if fin then .readyErr a else .pending))
    (pending : ∀ s1, s.termErr = none → run (runFuel s) s now = (s1, .pending) → motive (s1, .pending))
    (ok : ∀ s1, s.termErr = none → run (runFuel s) s now = (s1, .ok) → motive (s1, .readyOk))
    (spin : ∀ s1, s.termErr = none → run (runFuel s) s now = (s1, .spin) →
      motive ({ s1 with poisoned := true }, .pending))
    (err : ∀ s1 a s2 fin, s.termErr = none → run (runFuel s) s now = (s1, .err a) →
      shutDown { s1 with termErr := some a } a = (s2, fin) → motive (s2, if fin then .readyErr a else .pending)) :
    motive (pollDispatchCore s now) := by
  unfold pollDispatchCore
  split
  · rename_i a ht
    rcases h1 : shutDown s a with ⟨s1, fin⟩
    exact shut _ _ _ ht h1
  · rename_i ht
    rcases h1 : run (runFuel s) s now with ⟨s1, r⟩
    cases r <;> dsimp only
    · exact pending _ ht h1
    · exact ok _ ht h1
    · rename_i a
      rcases h2 : shutDown { s1 with termErr := some a } a with ⟨s2, fin⟩
      exact err _ _ _ _ ht h1 h2
    · exact spin _ ht h1

/-! ### `pollDispatchKeep` in pieces -/

def isSpinObs : Obs → Bool
  | .spin _ => true
  | _ => false

/-- The bookkeeping at the end of a dispatch poll: a poll that span is truncated to one `spin` observation
and the dispatch is poisoned; otherwise the result and the table sizes are observed. -/
def keepFinish (obs0 : List Obs) (s : St) (r : Ret) : St :=
  if (s.obs.any isSpinObs && !(obs0.any isSpinObs)) = true then
    { s with obs := .spin (tid s) :: obs0, poisoned := true }
  else if s.poisoned = true then s
  else emit (emit s (.ret (tid s) r)) (.counts (tid s) s.inflight.length s.timers.len)

def keepDone (r : Ret) (s : St) : St :=
  match r with
  | .pending => s
  | _ => { s with done := some r }

theorem pollDispatchKeep_eq (s : St) (now : Nat) : pollDispatchKeep s now =
    if (s.dDropped || s.done.isSome || s.poisoned) = true then emit s .noop
    else keepDone (pollDispatchCore { s with dWoken := false } now).2
      (keepFinish s.obs (pollDispatchCore { s with dWoken := false } now).1
        (pollDispatchCore { s with dWoken := false } now).2) := by
  unfold pollDispatchKeep
  split
  · rfl
  · dsimp only
    rcases pollDispatchCore { s with dWoken := false } now with ⟨s1, r⟩
    cases r <;> rfl

theorem pollDispatch_eq (s : St) (now : Nat) : pollDispatch s now =
    if ((pollDispatchKeep s now).done.isSome && !(pollDispatchKeep s now).dDropped) = true then
      dropDispatch (pollDispatchKeep s now)
    else pollDispatchKeep s now := rfl

/-! ### FrameD -/

/-- What `senders` depends on, per call. -/
def callSig (c : Call) : Nat × Phase := (c.cid, c.phase)

def phaseLive : Phase → Bool
  | .notPolled | .reserving | .awaiting => true
  | _ => false

theorem callLive_eq (c : Call) : callLive c = phaseLive (callSig c).2 := by
  cases hp : c.phase <;> simp [callLive, phaseLive, callSig, hp]

theorem liveCount_eq (cs : List Call) :
    (cs.filter callLive).length = ((cs.map callSig).filter (fun p => phaseLive p.2)).length := by
  induction cs with
  | nil => rfl
  | cons c cs ih =>
    simp only [List.filter_cons, List.map_cons, ← callLive_eq]
    split <;> simp [ih]

theorem senders_eq_of {s s' : St} (h1 : s'.handles = s.handles)
    (h2 : s'.calls.map callSig = s.calls.map callSig) : senders s' = senders s := by
  unfold senders; rw [liveCount_eq, liveCount_eq, h1, h2]

structure FrameD (s s' : St) : Prop where
  k : s'.k = s.k
  maxInFlight : s'.maxInFlight = s.maxInFlight
  bufCap : s'.bufCap = s.bufCap
  ensureLoop : s'.ensureLoop = s.ensureLoop
  handles : s'.handles = s.handles
  sigs : s'.calls.map callSig = s.calls.map callSig
  pq : s'.pq.length ≤ s.pq.length
  cq : s'.cq.length ≤ s.cq.length

theorem FrameD.senders {s s' : St} (h : FrameD s s') : senders s' = senders s := senders_eq_of h.handles h.sigs

macro "frameD_rfl" : tactic => `(tactic| exact ⟨rfl, rfl, rfl, rfl, rfl, rfl, Nat.le_refl _, Nat.le_refl _⟩)

theorem FrameD.refl (s : St) : FrameD s s := by frameD_rfl

theorem FrameD.trans {s s1 s2 : St} (h1 : FrameD s s1) (h2 : FrameD s1 s2) : FrameD s s2 :=
  ⟨h2.k.trans h1.k, h2.maxInFlight.trans h1.maxInFlight, h2.bufCap.trans h1.bufCap,
   h2.ensureLoop.trans h1.ensureLoop, h2.handles.trans h1.handles, h2.sigs.trans h1.sigs,
   Nat.le_trans h2.pq h1.pq, Nat.le_trans h2.cq h1.cq⟩

theorem FrameD.foldl {α : Type} (f : St → α → St) (hf : ∀ s x, FrameD s (f s x)) (l : List α) (s : St) :
    FrameD s (l.foldl f s) := by
  induction l generalizing s with
  | nil => exact .refl _
  | cons x l ih => exact .trans (hf s x) (ih _)

/-- `FrameD s x` transfers to a record update of `x` that leaves the framed fields alone. -/
theorem FrameD.upd {s x s' : St} (h : FrameD s x) (e1 : s'.k = x.k) (e2 : s'.maxInFlight = x.maxInFlight)
    (e3 : s'.bufCap = x.bufCap) (e4 : s'.ensureLoop = x.ensureLoop) (e5 : s'.handles = x.handles)
    (e6 : s'.calls = x.calls) (e7 : s'.pq = x.pq) (e8 : s'.cq = x.cq) : FrameD s s' :=
  ⟨e1 ▸ h.k, e2 ▸ h.maxInFlight, e3 ▸ h.bufCap, e4 ▸ h.ensureLoop, e5 ▸ h.handles, e6 ▸ h.sigs, e7 ▸ h.pq, e8 ▸ h.cq⟩

theorem emit_frameD (s : St) (o : Obs) : FrameD s (emit s o) := by unfold emit; frameD_rfl
@[simp] theorem emit_sigs (s : St) (o : Obs) : (emit s o).calls.map callSig = s.calls.map callSig := (emit_frameD s o).sigs
@[simp] theorem emit_senders (s : St) (o : Obs) : senders (emit s o) = senders s := (emit_frameD s o).senders
theorem emit_pq_le (s : St) (o : Obs) : (emit s o).pq.length ≤ s.pq.length := (emit_frameD s o).pq
theorem emit_cq_le (s : St) (o : Obs) : (emit s o).cq.length ≤ s.cq.length := (emit_frameD s o).cq

theorem wakeDispatch_frameD (s : St) : FrameD s (wakeDispatch s) := by
  unfold wakeDispatch; split
  · exact .refl _
  · exact .trans (by frameD_rfl) (emit_frameD _ _)
@[simp] theorem wakeDispatch_handles (s : St) : (wakeDispatch s).handles = s.handles := (wakeDispatch_frameD s).handles
@[simp] theorem wakeDispatch_sigs (s : St) : (wakeDispatch s).calls.map callSig = s.calls.map callSig := (wakeDispatch_frameD s).sigs
@[simp] theorem wakeDispatch_senders (s : St) : senders (wakeDispatch s) = senders s := (wakeDispatch_frameD s).senders
theorem wakeDispatch_pq_le (s : St) : (wakeDispatch s).pq.length ≤ s.pq.length := (wakeDispatch_frameD s).pq
theorem wakeDispatch_cq_le (s : St) : (wakeDispatch s).cq.length ≤ s.cq.length := (wakeDispatch_frameD s).cq

theorem updCall_frameD (s : St) (cid : Nat) (f : Call → Call) (hf : ∀ c, callSig (f c) = callSig c) :
    FrameD s (updCall s cid f) := by
  refine ⟨rfl, rfl, rfl, rfl, rfl, ?_, Nat.le_refl _, Nat.le_refl _⟩
  simp only [updCall, List.map_map]
  apply List.map_congr_left
  intro c _
  simp only [Function.comp]
  split <;> simp [hf]

theorem wakeCall_frameD (s : St) (cid : Nat) : FrameD s (wakeCall s cid) := by
  unfold wakeCall; split
  · split
    · exact .trans (updCall_frameD _ _ _ (by intro c; rfl)) (emit_frameD _ _)
    · exact .refl _
  · exact .refl _
@[simp] theorem wakeCall_handles (s : St) (cid : Nat) : (wakeCall s cid).handles = s.handles := (wakeCall_frameD s cid).handles
@[simp] theorem wakeCall_sigs (s : St) (cid : Nat) : (wakeCall s cid).calls.map callSig = s.calls.map callSig := (wakeCall_frameD s cid).sigs
@[simp] theorem wakeCall_senders (s : St) (cid : Nat) : senders (wakeCall s cid) = senders s := (wakeCall_frameD s cid).senders
theorem wakeCall_pq_le (s : St) (cid : Nat) : (wakeCall s cid).pq.length ≤ s.pq.length := (wakeCall_frameD s cid).pq
theorem wakeCall_cq_le (s : St) (cid : Nat) : (wakeCall s cid).cq.length ≤ s.cq.length := (wakeCall_frameD s cid).cq

theorem osSend_frameD (s : St) (cid : Nat) (o : Outcome) : FrameD s (osSend s cid o) := by
  unfold osSend; split
  · exact .refl _
  · split
    · exact .refl _
    · simp only; split
      · exact .trans (updCall_frameD _ _ _ (by intro c; rfl)) (wakeCall_frameD _ _)
      · exact updCall_frameD _ _ _ (by intro c; rfl)
@[simp] theorem osSend_handles (s : St) (cid : Nat) (o : Outcome) : (osSend s cid o).handles = s.handles := (osSend_frameD s cid o).handles
@[simp] theorem osSend_sigs (s : St) (cid : Nat) (o : Outcome) : (osSend s cid o).calls.map callSig = s.calls.map callSig := (osSend_frameD s cid o).sigs
@[simp] theorem osSend_senders (s : St) (cid : Nat) (o : Outcome) : senders (osSend s cid o) = senders s := (osSend_frameD s cid o).senders
theorem osSend_pq_le (s : St) (cid : Nat) (o : Outcome) : (osSend s cid o).pq.length ≤ s.pq.length := (osSend_frameD s cid o).pq
theorem osSend_cq_le (s : St) (cid : Nat) (o : Outcome) : (osSend s cid o).cq.length ≤ s.cq.length := (osSend_frameD s cid o).cq

theorem osDropTx_frameD (s : St) (cid : Nat) : FrameD s (osDropTx s cid) := by
  unfold osDropTx; split
  · exact .refl _
  · split
    · exact .refl _
    · simp only; split
      · exact .trans (updCall_frameD _ _ _ (by intro c; rfl)) (wakeCall_frameD _ _)
      · exact updCall_frameD _ _ _ (by intro c; rfl)
@[simp] theorem osDropTx_handles (s : St) (cid : Nat) : (osDropTx s cid).handles = s.handles := (osDropTx_frameD s cid).handles
@[simp] theorem osDropTx_sigs (s : St) (cid : Nat) : (osDropTx s cid).calls.map callSig = s.calls.map callSig := (osDropTx_frameD s cid).sigs
@[simp] theorem osDropTx_senders (s : St) (cid : Nat) : senders (osDropTx s cid) = senders s := (osDropTx_frameD s cid).senders
theorem osDropTx_pq_le (s : St) (cid : Nat) : (osDropTx s cid).pq.length ≤ s.pq.length := (osDropTx_frameD s cid).pq
theorem osDropTx_cq_le (s : St) (cid : Nat) : (osDropTx s cid).cq.length ≤ s.cq.length := (osDropTx_frameD s cid).cq

theorem guardClose_frameD (s : St) (cid : Nat) : FrameD s (guardClose s cid) :=
  updCall_frameD _ _ _ (by intro c; rfl)
@[simp] theorem guardClose_handles (s : St) (cid : Nat) : (guardClose s cid).handles = s.handles := (guardClose_frameD s cid).handles
@[simp] theorem guardClose_sigs (s : St) (cid : Nat) : (guardClose s cid).calls.map callSig = s.calls.map callSig := (guardClose_frameD s cid).sigs
@[simp] theorem guardClose_senders (s : St) (cid : Nat) : senders (guardClose s cid) = senders s := (guardClose_frameD s cid).senders
theorem guardClose_pq_le (s : St) (cid : Nat) : (guardClose s cid).pq.length ≤ s.pq.length := (guardClose_frameD s cid).pq
theorem guardClose_cq_le (s : St) (cid : Nat) : (guardClose s cid).cq.length ≤ s.cq.length := (guardClose_frameD s cid).cq

theorem pqRelease_frameD (s : St) : FrameD s (pqRelease s) := by
  unfold pqRelease; split
  · exact .trans (by frameD_rfl) (wakeCall_frameD _ _)
  · frameD_rfl
@[simp] theorem pqRelease_handles (s : St) : (pqRelease s).handles = s.handles := (pqRelease_frameD s).handles
@[simp] theorem pqRelease_sigs (s : St) : (pqRelease s).calls.map callSig = s.calls.map callSig := (pqRelease_frameD s).sigs
@[simp] theorem pqRelease_senders (s : St) : senders (pqRelease s) = senders s := (pqRelease_frameD s).senders
theorem pqRelease_pq_le (s : St) : (pqRelease s).pq.length ≤ s.pq.length := (pqRelease_frameD s).pq
theorem pqRelease_cq_le (s : St) : (pqRelease s).cq.length ≤ s.cq.length := (pqRelease_frameD s).cq

theorem pqRecv_frameD (s : St) : FrameD s (pqRecv s).1 := by
  unfold pqRecv; split
  · rename_i r rest heq
    refine .trans (?_ : FrameD s { s with pq := rest }) (pqRelease_frameD _)
    exact ⟨rfl, rfl, rfl, rfl, rfl, rfl, by simp [heq], Nat.le_refl _⟩
  · split
    · exact .refl _
    · split
      · exact .refl _
      · frameD_rfl
@[simp] theorem pqRecv_handles (s : St) : ((pqRecv s).1).handles = s.handles := (pqRecv_frameD s).handles
@[simp] theorem pqRecv_sigs (s : St) : ((pqRecv s).1).calls.map callSig = s.calls.map callSig := (pqRecv_frameD s).sigs
@[simp] theorem pqRecv_senders (s : St) : senders ((pqRecv s).1) = senders s := (pqRecv_frameD s).senders
theorem pqRecv_pq_le (s : St) : ((pqRecv s).1).pq.length ≤ s.pq.length := (pqRecv_frameD s).pq
theorem pqRecv_cq_le (s : St) : ((pqRecv s).1).cq.length ≤ s.cq.length := (pqRecv_frameD s).cq

theorem pqClose_frameD (s : St) : FrameD s (pqClose s) := by
  unfold pqClose
  exact .trans (by frameD_rfl) (FrameD.foldl _ wakeCall_frameD _ _)
@[simp] theorem pqClose_handles (s : St) : (pqClose s).handles = s.handles := (pqClose_frameD s).handles
@[simp] theorem pqClose_sigs (s : St) : (pqClose s).calls.map callSig = s.calls.map callSig := (pqClose_frameD s).sigs
@[simp] theorem pqClose_senders (s : St) : senders (pqClose s) = senders s := (pqClose_frameD s).senders
theorem pqClose_pq_le (s : St) : (pqClose s).pq.length ≤ s.pq.length := (pqClose_frameD s).pq
theorem pqClose_cq_le (s : St) : (pqClose s).cq.length ≤ s.cq.length := (pqClose_frameD s).cq

theorem cqRecv_frameD (s : St) : FrameD s (cqRecv s).1 := by
  unfold cqRecv; split
  · rename_i i rest heq
    exact ⟨rfl, rfl, rfl, rfl, rfl, rfl, Nat.le_refl _, by simp [heq]⟩
  · split
    · exact .refl _
    · frameD_rfl
@[simp] theorem cqRecv_handles (s : St) : ((cqRecv s).1).handles = s.handles := (cqRecv_frameD s).handles
@[simp] theorem cqRecv_sigs (s : St) : ((cqRecv s).1).calls.map callSig = s.calls.map callSig := (cqRecv_frameD s).sigs
@[simp] theorem cqRecv_senders (s : St) : senders ((cqRecv s).1) = senders s := (cqRecv_frameD s).senders
theorem cqRecv_pq_le (s : St) : ((cqRecv s).1).pq.length ≤ s.pq.length := (cqRecv_frameD s).pq
theorem cqRecv_cq_le (s : St) : ((cqRecv s).1).cq.length ≤ s.cq.length := (cqRecv_frameD s).cq

theorem removeTimer_frameD (s : St) (key : Nat) : FrameD s (removeTimer s key) := by
  unfold removeTimer; split
  · simp only; split
    · exact .trans (by frameD_rfl) (wakeDispatch_frameD _)
    · frameD_rfl
  · exact .trans (by frameD_rfl) (emit_frameD _ _)
@[simp] theorem removeTimer_handles (s : St) (key : Nat) : (removeTimer s key).handles = s.handles := (removeTimer_frameD s key).handles
@[simp] theorem removeTimer_sigs (s : St) (key : Nat) : (removeTimer s key).calls.map callSig = s.calls.map callSig := (removeTimer_frameD s key).sigs
@[simp] theorem removeTimer_senders (s : St) (key : Nat) : senders (removeTimer s key) = senders s := (removeTimer_frameD s key).senders
theorem removeTimer_pq_le (s : St) (key : Nat) : (removeTimer s key).pq.length ≤ s.pq.length := (removeTimer_frameD s key).pq
theorem removeTimer_cq_le (s : St) (key : Nat) : (removeTimer s key).cq.length ≤ s.cq.length := (removeTimer_frameD s key).cq

theorem completeRequest_frameD (s : St) (id : Nat) (o : Outcome) : FrameD s (completeRequest s id o).1 := by
  unfold completeRequest; split
  · exact .refl _
  · exact .trans (.trans (by frameD_rfl) (removeTimer_frameD _ _)) (osSend_frameD _ _ _)
@[simp] theorem completeRequest_handles (s : St) (id : Nat) (o : Outcome) : ((completeRequest s id o).1).handles = s.handles := (completeRequest_frameD s id o).handles
@[simp] theorem completeRequest_sigs (s : St) (id : Nat) (o : Outcome) : ((completeRequest s id o).1).calls.map callSig = s.calls.map callSig := (completeRequest_frameD s id o).sigs
@[simp] theorem completeRequest_senders (s : St) (id : Nat) (o : Outcome) : senders ((completeRequest s id o).1) = senders s := (completeRequest_frameD s id o).senders
theorem completeRequest_pq_le (s : St) (id : Nat) (o : Outcome) : ((completeRequest s id o).1).pq.length ≤ s.pq.length := (completeRequest_frameD s id o).pq
theorem completeRequest_cq_le (s : St) (id : Nat) (o : Outcome) : ((completeRequest s id o).1).cq.length ≤ s.cq.length := (completeRequest_frameD s id o).cq

theorem cancelRequest_frameD (s : St) (id : Nat) : FrameD s (cancelRequest s id).1 := by
  unfold cancelRequest; split
  · exact .refl _
  · exact .trans (by frameD_rfl) (removeTimer_frameD _ _)
@[simp] theorem cancelRequest_handles (s : St) (id : Nat) : ((cancelRequest s id).1).handles = s.handles := (cancelRequest_frameD s id).handles
@[simp] theorem cancelRequest_sigs (s : St) (id : Nat) : ((cancelRequest s id).1).calls.map callSig = s.calls.map callSig := (cancelRequest_frameD s id).sigs
@[simp] theorem cancelRequest_senders (s : St) (id : Nat) : senders ((cancelRequest s id).1) = senders s := (cancelRequest_frameD s id).senders
theorem cancelRequest_pq_le (s : St) (id : Nat) : ((cancelRequest s id).1).pq.length ≤ s.pq.length := (cancelRequest_frameD s id).pq
theorem cancelRequest_cq_le (s : St) (id : Nat) : ((cancelRequest s id).1).cq.length ≤ s.cq.length := (cancelRequest_frameD s id).cq

theorem insertRequest_frameD {s s' : St} {now : Nat} {r : DReq} (h : insertRequest s now r = some s') :
    FrameD s s' := by
  unfold insertRequest at h; split at h
  · cases h; exact .trans (by frameD_rfl) (emit_frameD _ _)
  · split at h
    · cases h; exact .trans (by frameD_rfl) (emit_frameD _ _)
    · cases h; split
      · exact .trans (by frameD_rfl) (wakeDispatch_frameD _)
      · frameD_rfl

/-! transport calls -/

theorem emitViolations_frameD (s : St) (n : Nat) : FrameD s (emitViolations s n) := by
  unfold emitViolations
  exact FrameD.foldl _ (fun s w => emit_frameD _ _) _ _
@[simp] theorem emitViolations_k (s : St) (n : Nat) : (emitViolations s n).k = s.k := (emitViolations_frameD s n).k
@[simp] theorem emitViolations_maxInFlight (s : St) (n : Nat) : (emitViolations s n).maxInFlight = s.maxInFlight := (emitViolations_frameD s n).maxInFlight
@[simp] theorem emitViolations_bufCap (s : St) (n : Nat) : (emitViolations s n).bufCap = s.bufCap := (emitViolations_frameD s n).bufCap
@[simp] theorem emitViolations_ensureLoop (s : St) (n : Nat) : (emitViolations s n).ensureLoop = s.ensureLoop := (emitViolations_frameD s n).ensureLoop
@[simp] theorem emitViolations_handles (s : St) (n : Nat) : (emitViolations s n).handles = s.handles := (emitViolations_frameD s n).handles
@[simp] theorem emitViolations_sigs (s : St) (n : Nat) : (emitViolations s n).calls.map callSig = s.calls.map callSig := (emitViolations_frameD s n).sigs
@[simp] theorem emitViolations_senders (s : St) (n : Nat) : senders (emitViolations s n) = senders s := (emitViolations_frameD s n).senders
theorem emitViolations_pq_le (s : St) (n : Nat) : (emitViolations s n).pq.length ≤ s.pq.length := (emitViolations_frameD s n).pq
theorem emitViolations_cq_le (s : St) (n : Nat) : (emitViolations s n).cq.length ≤ s.cq.length := (emitViolations_frameD s n).cq

theorem tReady_frameD (s : St) : FrameD s (tReady s).1 := by
  unfold tReady; split; dsimp only; split
  · exact .trans (.trans (.trans (by frameD_rfl) (emitViolations_frameD _ _)) (emit_frameD _ _)) (wakeDispatch_frameD _)
  · exact .trans (.trans (by frameD_rfl) (emitViolations_frameD _ _)) (emit_frameD _ _)
@[simp] theorem tReady_k (s : St) : ((tReady s).1).k = s.k := (tReady_frameD s).k
@[simp] theorem tReady_maxInFlight (s : St) : ((tReady s).1).maxInFlight = s.maxInFlight := (tReady_frameD s).maxInFlight
@[simp] theorem tReady_bufCap (s : St) : ((tReady s).1).bufCap = s.bufCap := (tReady_frameD s).bufCap
@[simp] theorem tReady_ensureLoop (s : St) : ((tReady s).1).ensureLoop = s.ensureLoop := (tReady_frameD s).ensureLoop
@[simp] theorem tReady_handles (s : St) : ((tReady s).1).handles = s.handles := (tReady_frameD s).handles
@[simp] theorem tReady_sigs (s : St) : ((tReady s).1).calls.map callSig = s.calls.map callSig := (tReady_frameD s).sigs
@[simp] theorem tReady_senders (s : St) : senders ((tReady s).1) = senders s := (tReady_frameD s).senders
theorem tReady_pq_le (s : St) : ((tReady s).1).pq.length ≤ s.pq.length := (tReady_frameD s).pq
theorem tReady_cq_le (s : St) : ((tReady s).1).cq.length ≤ s.cq.length := (tReady_frameD s).cq

theorem tFlush_frameD (s : St) : FrameD s (tFlush s).1 := by
  unfold tFlush; split; dsimp only; split
  · exact .trans (.trans (.trans (by frameD_rfl) (emitViolations_frameD _ _)) (emit_frameD _ _)) (wakeDispatch_frameD _)
  · exact .trans (.trans (by frameD_rfl) (emitViolations_frameD _ _)) (emit_frameD _ _)
@[simp] theorem tFlush_k (s : St) : ((tFlush s).1).k = s.k := (tFlush_frameD s).k
@[simp] theorem tFlush_maxInFlight (s : St) : ((tFlush s).1).maxInFlight = s.maxInFlight := (tFlush_frameD s).maxInFlight
@[simp] theorem tFlush_bufCap (s : St) : ((tFlush s).1).bufCap = s.bufCap := (tFlush_frameD s).bufCap
@[simp] theorem tFlush_ensureLoop (s : St) : ((tFlush s).1).ensureLoop = s.ensureLoop := (tFlush_frameD s).ensureLoop
@[simp] theorem tFlush_handles (s : St) : ((tFlush s).1).handles = s.handles := (tFlush_frameD s).handles
@[simp] theorem tFlush_sigs (s : St) : ((tFlush s).1).calls.map callSig = s.calls.map callSig := (tFlush_frameD s).sigs
@[simp] theorem tFlush_senders (s : St) : senders ((tFlush s).1) = senders s := (tFlush_frameD s).senders
theorem tFlush_pq_le (s : St) : ((tFlush s).1).pq.length ≤ s.pq.length := (tFlush_frameD s).pq
theorem tFlush_cq_le (s : St) : ((tFlush s).1).cq.length ≤ s.cq.length := (tFlush_frameD s).cq

theorem tClose_frameD (s : St) : FrameD s (tClose s).1 := by
  unfold tClose; split; dsimp only; split
  · exact .trans (.trans (.trans (by frameD_rfl) (emitViolations_frameD _ _)) (emit_frameD _ _)) (wakeDispatch_frameD _)
  · exact .trans (.trans (by frameD_rfl) (emitViolations_frameD _ _)) (emit_frameD _ _)
@[simp] theorem tClose_k (s : St) : ((tClose s).1).k = s.k := (tClose_frameD s).k
@[simp] theorem tClose_maxInFlight (s : St) : ((tClose s).1).maxInFlight = s.maxInFlight := (tClose_frameD s).maxInFlight
@[simp] theorem tClose_bufCap (s : St) : ((tClose s).1).bufCap = s.bufCap := (tClose_frameD s).bufCap
@[simp] theorem tClose_ensureLoop (s : St) : ((tClose s).1).ensureLoop = s.ensureLoop := (tClose_frameD s).ensureLoop
@[simp] theorem tClose_handles (s : St) : ((tClose s).1).handles = s.handles := (tClose_frameD s).handles
@[simp] theorem tClose_sigs (s : St) : ((tClose s).1).calls.map callSig = s.calls.map callSig := (tClose_frameD s).sigs
@[simp] theorem tClose_senders (s : St) : senders ((tClose s).1) = senders s := (tClose_frameD s).senders
theorem tClose_pq_le (s : St) : ((tClose s).1).pq.length ≤ s.pq.length := (tClose_frameD s).pq
theorem tClose_cq_le (s : St) : ((tClose s).1).cq.length ≤ s.cq.length := (tClose_frameD s).cq

theorem tSend_frameD (s : St) (m : Msg) : FrameD s (tSend s m).1 := by
  unfold tSend; split; dsimp only
  exact .trans (.trans (by frameD_rfl) (emitViolations_frameD _ _)) (emit_frameD _ _)
@[simp] theorem tSend_k (s : St) (m : Msg) : ((tSend s m).1).k = s.k := (tSend_frameD s m).k
@[simp] theorem tSend_maxInFlight (s : St) (m : Msg) : ((tSend s m).1).maxInFlight = s.maxInFlight := (tSend_frameD s m).maxInFlight
@[simp] theorem tSend_bufCap (s : St) (m : Msg) : ((tSend s m).1).bufCap = s.bufCap := (tSend_frameD s m).bufCap
@[simp] theorem tSend_ensureLoop (s : St) (m : Msg) : ((tSend s m).1).ensureLoop = s.ensureLoop := (tSend_frameD s m).ensureLoop
@[simp] theorem tSend_handles (s : St) (m : Msg) : ((tSend s m).1).handles = s.handles := (tSend_frameD s m).handles
@[simp] theorem tSend_sigs (s : St) (m : Msg) : ((tSend s m).1).calls.map callSig = s.calls.map callSig := (tSend_frameD s m).sigs
@[simp] theorem tSend_senders (s : St) (m : Msg) : senders ((tSend s m).1) = senders s := (tSend_frameD s m).senders
theorem tSend_pq_le (s : St) (m : Msg) : ((tSend s m).1).pq.length ≤ s.pq.length := (tSend_frameD s m).pq
theorem tSend_cq_le (s : St) (m : Msg) : ((tSend s m).1).cq.length ≤ s.cq.length := (tSend_frameD s m).cq

theorem tNext_frameD (s : St) : FrameD s (tNext s).1 := by
  unfold tNext; split
  · exact .refl _
  · split; dsimp only
    rename_i t r _
    have h : FrameD s (emit { s with t := t } (.tNext (tid s) r)) := .trans (by frameD_rfl) (emit_frameD _ _)
    split
    · exact h.upd rfl rfl rfl rfl rfl rfl rfl rfl
    · exact h
@[simp] theorem tNext_k (s : St) : ((tNext s).1).k = s.k := (tNext_frameD s).k
@[simp] theorem tNext_maxInFlight (s : St) : ((tNext s).1).maxInFlight = s.maxInFlight := (tNext_frameD s).maxInFlight
@[simp] theorem tNext_bufCap (s : St) : ((tNext s).1).bufCap = s.bufCap := (tNext_frameD s).bufCap
@[simp] theorem tNext_ensureLoop (s : St) : ((tNext s).1).ensureLoop = s.ensureLoop := (tNext_frameD s).ensureLoop
@[simp] theorem tNext_handles (s : St) : ((tNext s).1).handles = s.handles := (tNext_frameD s).handles
@[simp] theorem tNext_sigs (s : St) : ((tNext s).1).calls.map callSig = s.calls.map callSig := (tNext_frameD s).sigs
@[simp] theorem tNext_senders (s : St) : senders ((tNext s).1) = senders s := (tNext_frameD s).senders
theorem tNext_pq_le (s : St) : ((tNext s).1).pq.length ≤ s.pq.length := (tNext_frameD s).pq
theorem tNext_cq_le (s : St) : ((tNext s).1).cq.length ≤ s.cq.length := (tNext_frameD s).cq

theorem ensureLoop_frameD (fuel : Nat) (s : St) : FrameD s (ensureLoop fuel s).1 := by
  induction fuel generalizing s with
  | zero => exact emit_frameD _ _
  | succ fuel ih =>
    unfold ensureLoop
    have h1 := tReady_frameD s
    rcases hh1 : tReady s with ⟨s1, r⟩
    rw [hh1] at h1
    cases r <;> dsimp only at h1 ⊢
    · have h2 := tFlush_frameD s1
      rcases hh2 : tFlush s1 with ⟨s2, f⟩
      rw [hh2] at h2
      cases f <;> dsimp only at h2 ⊢
      · exact h1.trans h2
      · exact (h1.trans h2).trans (ih _)
      · exact h1.trans h2
    · exact h1
    · exact h1
@[simp] theorem ensureLoop_k (fuel : Nat) (s : St) : ((ensureLoop fuel s).1).k = s.k := (ensureLoop_frameD fuel s).k
@[simp] theorem ensureLoop_maxInFlight (fuel : Nat) (s : St) : ((ensureLoop fuel s).1).maxInFlight = s.maxInFlight := (ensureLoop_frameD fuel s).maxInFlight
@[simp] theorem ensureLoop_bufCap (fuel : Nat) (s : St) : ((ensureLoop fuel s).1).bufCap = s.bufCap := (ensureLoop_frameD fuel s).bufCap
@[simp] theorem ensureLoop_ensureLoop (fuel : Nat) (s : St) : ((ensureLoop fuel s).1).ensureLoop = s.ensureLoop := (ensureLoop_frameD fuel s).ensureLoop
@[simp] theorem ensureLoop_handles (fuel : Nat) (s : St) : ((ensureLoop fuel s).1).handles = s.handles := (ensureLoop_frameD fuel s).handles
@[simp] theorem ensureLoop_sigs (fuel : Nat) (s : St) : ((ensureLoop fuel s).1).calls.map callSig = s.calls.map callSig := (ensureLoop_frameD fuel s).sigs
@[simp] theorem ensureLoop_senders (fuel : Nat) (s : St) : senders ((ensureLoop fuel s).1) = senders s := (ensureLoop_frameD fuel s).senders
theorem ensureLoop_pq_le (fuel : Nat) (s : St) : ((ensureLoop fuel s).1).pq.length ≤ s.pq.length := (ensureLoop_frameD fuel s).pq
theorem ensureLoop_cq_le (fuel : Nat) (s : St) : ((ensureLoop fuel s).1).cq.length ≤ s.cq.length := (ensureLoop_frameD fuel s).cq

theorem ensureOnce_frameD (s : St) : FrameD s (ensureOnce s).1 := by
  unfold ensureOnce
  have h1 := tReady_frameD s
  rcases hh1 : tReady s with ⟨s1, r⟩
  rw [hh1] at h1
  cases r <;> dsimp only at h1 ⊢
  · have h2 := tFlush_frameD s1
    rcases hh2 : tFlush s1 with ⟨s2, f⟩
    rw [hh2] at h2
    cases f <;> dsimp only at h2 ⊢
    · exact h1.trans h2
    · have h3 := tReady_frameD s2
      rcases hh3 : tReady s2 with ⟨s3, r2⟩
      rw [hh3] at h3
      cases r2 <;> exact (h1.trans h2).trans h3
    · exact h1.trans h2
  · exact h1
  · exact h1
@[simp] theorem ensureOnce_k (s : St) : ((ensureOnce s).1).k = s.k := (ensureOnce_frameD s).k
@[simp] theorem ensureOnce_maxInFlight (s : St) : ((ensureOnce s).1).maxInFlight = s.maxInFlight := (ensureOnce_frameD s).maxInFlight
@[simp] theorem ensureOnce_bufCap (s : St) : ((ensureOnce s).1).bufCap = s.bufCap := (ensureOnce_frameD s).bufCap
@[simp] theorem ensureOnce_ensureLoop (s : St) : ((ensureOnce s).1).ensureLoop = s.ensureLoop := (ensureOnce_frameD s).ensureLoop
@[simp] theorem ensureOnce_handles (s : St) : ((ensureOnce s).1).handles = s.handles := (ensureOnce_frameD s).handles
@[simp] theorem ensureOnce_sigs (s : St) : ((ensureOnce s).1).calls.map callSig = s.calls.map callSig := (ensureOnce_frameD s).sigs
@[simp] theorem ensureOnce_senders (s : St) : senders ((ensureOnce s).1) = senders s := (ensureOnce_frameD s).senders
theorem ensureOnce_pq_le (s : St) : ((ensureOnce s).1).pq.length ≤ s.pq.length := (ensureOnce_frameD s).pq
theorem ensureOnce_cq_le (s : St) : ((ensureOnce s).1).cq.length ≤ s.cq.length := (ensureOnce_frameD s).cq

theorem ensureWriteable_frameD (s : St) : FrameD s (ensureWriteable s).1 := by
  unfold ensureWriteable; split
  · exact ensureLoop_frameD _ _
  · exact ensureOnce_frameD _
@[simp] theorem ensureWriteable_k (s : St) : ((ensureWriteable s).1).k = s.k := (ensureWriteable_frameD s).k
@[simp] theorem ensureWriteable_maxInFlight (s : St) : ((ensureWriteable s).1).maxInFlight = s.maxInFlight := (ensureWriteable_frameD s).maxInFlight
@[simp] theorem ensureWriteable_bufCap (s : St) : ((ensureWriteable s).1).bufCap = s.bufCap := (ensureWriteable_frameD s).bufCap
@[simp] theorem ensureWriteable_ensureLoop (s : St) : ((ensureWriteable s).1).ensureLoop = s.ensureLoop := (ensureWriteable_frameD s).ensureLoop
@[simp] theorem ensureWriteable_handles (s : St) : ((ensureWriteable s).1).handles = s.handles := (ensureWriteable_frameD s).handles
@[simp] theorem ensureWriteable_sigs (s : St) : ((ensureWriteable s).1).calls.map callSig = s.calls.map callSig := (ensureWriteable_frameD s).sigs
@[simp] theorem ensureWriteable_senders (s : St) : senders ((ensureWriteable s).1) = senders s := (ensureWriteable_frameD s).senders
theorem ensureWriteable_pq_le (s : St) : ((ensureWriteable s).1).pq.length ≤ s.pq.length := (ensureWriteable_frameD s).pq
theorem ensureWriteable_cq_le (s : St) : ((ensureWriteable s).1).cq.length ≤ s.cq.length := (ensureWriteable_frameD s).cq

theorem nextRequestLoop_frameD (fuel : Nat) (s : St) : FrameD s (nextRequestLoop fuel s).1 := by
  induction fuel generalizing s with
  | zero => exact .refl _
  | succ fuel ih =>
    unfold nextRequestLoop
    have h := pqRecv_frameD s
    split <;> rename_i heq <;> rw [heq] at h
    · exact h
    · exact h
    · split
      · exact .trans h (ih _)
      · exact h
@[simp] theorem nextRequestLoop_handles (fuel : Nat) (s : St) : ((nextRequestLoop fuel s).1).handles = s.handles := (nextRequestLoop_frameD fuel s).handles
@[simp] theorem nextRequestLoop_sigs (fuel : Nat) (s : St) : ((nextRequestLoop fuel s).1).calls.map callSig = s.calls.map callSig := (nextRequestLoop_frameD fuel s).sigs
@[simp] theorem nextRequestLoop_senders (fuel : Nat) (s : St) : senders ((nextRequestLoop fuel s).1) = senders s := (nextRequestLoop_frameD fuel s).senders
theorem nextRequestLoop_pq_le (fuel : Nat) (s : St) : ((nextRequestLoop fuel s).1).pq.length ≤ s.pq.length := (nextRequestLoop_frameD fuel s).pq
theorem nextRequestLoop_cq_le (fuel : Nat) (s : St) : ((nextRequestLoop fuel s).1).cq.length ≤ s.cq.length := (nextRequestLoop_frameD fuel s).cq

theorem pollNextRequest_frameD (s : St) : FrameD s (pollNextRequest s).1 := by
  unfold pollNextRequest; split
  · exact .refl _
  · have h := ensureWriteable_frameD s
    split <;> rename_i heq <;> rw [heq] at h
    · exact h
    · exact h
    · exact h
    · exact h.trans (nextRequestLoop_frameD _ _)
@[simp] theorem pollNextRequest_k (s : St) : ((pollNextRequest s).1).k = s.k := (pollNextRequest_frameD s).k
@[simp] theorem pollNextRequest_maxInFlight (s : St) : ((pollNextRequest s).1).maxInFlight = s.maxInFlight := (pollNextRequest_frameD s).maxInFlight
@[simp] theorem pollNextRequest_bufCap (s : St) : ((pollNextRequest s).1).bufCap = s.bufCap := (pollNextRequest_frameD s).bufCap
@[simp] theorem pollNextRequest_ensureLoop (s : St) : ((pollNextRequest s).1).ensureLoop = s.ensureLoop := (pollNextRequest_frameD s).ensureLoop
@[simp] theorem pollNextRequest_handles (s : St) : ((pollNextRequest s).1).handles = s.handles := (pollNextRequest_frameD s).handles
@[simp] theorem pollNextRequest_sigs (s : St) : ((pollNextRequest s).1).calls.map callSig = s.calls.map callSig := (pollNextRequest_frameD s).sigs
@[simp] theorem pollNextRequest_senders (s : St) : senders ((pollNextRequest s).1) = senders s := (pollNextRequest_frameD s).senders
theorem pollNextRequest_pq_le (s : St) : ((pollNextRequest s).1).pq.length ≤ s.pq.length := (pollNextRequest_frameD s).pq
theorem pollNextRequest_cq_le (s : St) : ((pollNextRequest s).1).cq.length ≤ s.cq.length := (pollNextRequest_frameD s).cq

theorem pollWriteRequest_frameD (s : St) (now : Nat) : FrameD s (pollWriteRequest s now).1 := by
  unfold pollWriteRequest
  have h := pollNextRequest_frameD s
  split <;> rename_i heq <;> rw [heq] at h
  · exact h
  · exact h
  · exact h
  · exact h
  · split
    · exact h
    · rename_i s2 hins
      have h2 := h.trans (insertRequest_frameD hins)
      split
      · exact h2
      · have h3 := tSend_frameD s2 (.request ‹DReq›.id ‹DReq›.ctx.deadline ‹DReq›.ctx.trace ‹DReq›.body)
        split; rename_i heq3; rw [heq3] at h3; dsimp only at h3 ⊢
        split
        · exact h2.trans h3
        · exact (h2.trans h3).trans (completeRequest_frameD _ _ _)
@[simp] theorem pollWriteRequest_k (s : St) (now : Nat) : ((pollWriteRequest s now).1).k = s.k := (pollWriteRequest_frameD s now).k
@[simp] theorem pollWriteRequest_maxInFlight (s : St) (now : Nat) : ((pollWriteRequest s now).1).maxInFlight = s.maxInFlight := (pollWriteRequest_frameD s now).maxInFlight
@[simp] theorem pollWriteRequest_bufCap (s : St) (now : Nat) : ((pollWriteRequest s now).1).bufCap = s.bufCap := (pollWriteRequest_frameD s now).bufCap
@[simp] theorem pollWriteRequest_ensureLoop (s : St) (now : Nat) : ((pollWriteRequest s now).1).ensureLoop = s.ensureLoop := (pollWriteRequest_frameD s now).ensureLoop
@[simp] theorem pollWriteRequest_handles (s : St) (now : Nat) : ((pollWriteRequest s now).1).handles = s.handles := (pollWriteRequest_frameD s now).handles
@[simp] theorem pollWriteRequest_sigs (s : St) (now : Nat) : ((pollWriteRequest s now).1).calls.map callSig = s.calls.map callSig := (pollWriteRequest_frameD s now).sigs
@[simp] theorem pollWriteRequest_senders (s : St) (now : Nat) : senders ((pollWriteRequest s now).1) = senders s := (pollWriteRequest_frameD s now).senders
theorem pollWriteRequest_pq_le (s : St) (now : Nat) : ((pollWriteRequest s now).1).pq.length ≤ s.pq.length := (pollWriteRequest_frameD s now).pq
theorem pollWriteRequest_cq_le (s : St) (now : Nat) : ((pollWriteRequest s now).1).cq.length ≤ s.cq.length := (pollWriteRequest_frameD s now).cq

theorem nextCancelLoop_frameD (fuel : Nat) (s : St) : FrameD s (nextCancelLoop fuel s).1 := by
  induction fuel generalizing s with
  | zero => exact .refl _
  | succ fuel ih =>
    unfold nextCancelLoop
    have h := cqRecv_frameD s
    split <;> rename_i heq <;> rw [heq] at h
    · exact h
    · exact h
    · rename_i s1 id
      have h2 := cancelRequest_frameD s1 id
      split <;> rename_i heq2 <;> rw [heq2] at h2
      · exact .trans h h2
      · exact .trans (.trans h h2) (ih _)
@[simp] theorem nextCancelLoop_handles (fuel : Nat) (s : St) : ((nextCancelLoop fuel s).1).handles = s.handles := (nextCancelLoop_frameD fuel s).handles
@[simp] theorem nextCancelLoop_sigs (fuel : Nat) (s : St) : ((nextCancelLoop fuel s).1).calls.map callSig = s.calls.map callSig := (nextCancelLoop_frameD fuel s).sigs
@[simp] theorem nextCancelLoop_senders (fuel : Nat) (s : St) : senders ((nextCancelLoop fuel s).1) = senders s := (nextCancelLoop_frameD fuel s).senders
theorem nextCancelLoop_pq_le (fuel : Nat) (s : St) : ((nextCancelLoop fuel s).1).pq.length ≤ s.pq.length := (nextCancelLoop_frameD fuel s).pq
theorem nextCancelLoop_cq_le (fuel : Nat) (s : St) : ((nextCancelLoop fuel s).1).cq.length ≤ s.cq.length := (nextCancelLoop_frameD fuel s).cq

theorem pollNextCancellation_frameD (s : St) : FrameD s (pollNextCancellation s).1 := by
  unfold pollNextCancellation
  have h := ensureWriteable_frameD s
  split <;> rename_i heq <;> rw [heq] at h
  · exact h
  · exact h
  · exact h
  · exact h.trans (nextCancelLoop_frameD _ _)
@[simp] theorem pollNextCancellation_k (s : St) : ((pollNextCancellation s).1).k = s.k := (pollNextCancellation_frameD s).k
@[simp] theorem pollNextCancellation_maxInFlight (s : St) : ((pollNextCancellation s).1).maxInFlight = s.maxInFlight := (pollNextCancellation_frameD s).maxInFlight
@[simp] theorem pollNextCancellation_bufCap (s : St) : ((pollNextCancellation s).1).bufCap = s.bufCap := (pollNextCancellation_frameD s).bufCap
@[simp] theorem pollNextCancellation_ensureLoop (s : St) : ((pollNextCancellation s).1).ensureLoop = s.ensureLoop := (pollNextCancellation_frameD s).ensureLoop
@[simp] theorem pollNextCancellation_handles (s : St) : ((pollNextCancellation s).1).handles = s.handles := (pollNextCancellation_frameD s).handles
@[simp] theorem pollNextCancellation_sigs (s : St) : ((pollNextCancellation s).1).calls.map callSig = s.calls.map callSig := (pollNextCancellation_frameD s).sigs
@[simp] theorem pollNextCancellation_senders (s : St) : senders ((pollNextCancellation s).1) = senders s := (pollNextCancellation_frameD s).senders
theorem pollNextCancellation_pq_le (s : St) : ((pollNextCancellation s).1).pq.length ≤ s.pq.length := (pollNextCancellation_frameD s).pq
theorem pollNextCancellation_cq_le (s : St) : ((pollNextCancellation s).1).cq.length ≤ s.cq.length := (pollNextCancellation_frameD s).cq

theorem pollWriteCancel_frameD (s : St) : FrameD s (pollWriteCancel s).1 := by
  unfold pollWriteCancel
  have h := pollNextCancellation_frameD s
  split <;> rename_i heq <;> rw [heq] at h
  · exact h
  · exact h
  · exact h
  · exact h
  · rename_i s1 e
    have h3 := tSend_frameD s1 (.cancel e.id e.ctx.trace)
    split; rename_i heq3; rw [heq3] at h3; dsimp only at h3 ⊢
    split <;> exact h.trans h3
@[simp] theorem pollWriteCancel_k (s : St) : ((pollWriteCancel s).1).k = s.k := (pollWriteCancel_frameD s).k
@[simp] theorem pollWriteCancel_maxInFlight (s : St) : ((pollWriteCancel s).1).maxInFlight = s.maxInFlight := (pollWriteCancel_frameD s).maxInFlight
@[simp] theorem pollWriteCancel_bufCap (s : St) : ((pollWriteCancel s).1).bufCap = s.bufCap := (pollWriteCancel_frameD s).bufCap
@[simp] theorem pollWriteCancel_ensureLoop (s : St) : ((pollWriteCancel s).1).ensureLoop = s.ensureLoop := (pollWriteCancel_frameD s).ensureLoop
@[simp] theorem pollWriteCancel_handles (s : St) : ((pollWriteCancel s).1).handles = s.handles := (pollWriteCancel_frameD s).handles
@[simp] theorem pollWriteCancel_sigs (s : St) : ((pollWriteCancel s).1).calls.map callSig = s.calls.map callSig := (pollWriteCancel_frameD s).sigs
@[simp] theorem pollWriteCancel_senders (s : St) : senders ((pollWriteCancel s).1) = senders s := (pollWriteCancel_frameD s).senders
theorem pollWriteCancel_pq_le (s : St) : ((pollWriteCancel s).1).pq.length ≤ s.pq.length := (pollWriteCancel_frameD s).pq
theorem pollWriteCancel_cq_le (s : St) : ((pollWriteCancel s).1).cq.length ≤ s.cq.length := (pollWriteCancel_frameD s).cq

theorem rearmWith_frameD (s : St) (id t due : Nat) (r : DelayQ × DelayQ.InsertRes × Bool) :
    FrameD s (rearmWith s id t due r).st := by
  unfold rearmWith; split
  · exact .trans (by frameD_rfl) (emit_frameD _ _)
  · show FrameD s (if _ then _ else _)
    split
    · exact .trans (by frameD_rfl) (wakeDispatch_frameD _)
    · frameD_rfl

theorem expireWith_frameD (s : St) (now : Nat) (r : DelayQ × DelayQ.PollRes) : FrameD s (expireWith s now r).st := by
  unfold expireWith; split
  · split
    · split
      · exact rearmWith_frameD _ _ _ _ _
      · exact .trans (by frameD_rfl) (osSend_frameD _ _ _)
    · frameD_rfl
  · frameD_rfl

theorem expireStep_frameD (s : St) (now : Nat) : FrameD s (expireStep s now).st := expireWith_frameD _ _ _

theorem pollExpiredLoop_frameD (fuel : Nat) (s : St) (now : Nat) : FrameD s (pollExpiredLoop fuel s now).1 := by
  induction fuel generalizing s with
  | zero => exact .refl _
  | succ fuel ih =>
    have h := expireStep_frameD s now
    unfold pollExpiredLoop; split <;> rename_i heq <;> rw [heq] at h
    · exact .trans h (ih _)
    · exact h

theorem pollExpired_frameD (s : St) (now : Nat) : FrameD s (pollExpired s now).1 :=
  pollExpiredLoop_frameD _ s now
@[simp] theorem pollExpired_handles (s : St) (now : Nat) : ((pollExpired s now).1).handles = s.handles := (pollExpired_frameD s now).handles
@[simp] theorem pollExpired_sigs (s : St) (now : Nat) : ((pollExpired s now).1).calls.map callSig = s.calls.map callSig := (pollExpired_frameD s now).sigs
@[simp] theorem pollExpired_senders (s : St) (now : Nat) : senders ((pollExpired s now).1) = senders s := (pollExpired_frameD s now).senders
theorem pollExpired_pq_le (s : St) (now : Nat) : ((pollExpired s now).1).pq.length ≤ s.pq.length := (pollExpired_frameD s now).pq
theorem pollExpired_cq_le (s : St) (now : Nat) : ((pollExpired s now).1).cq.length ≤ s.cq.length := (pollExpired_frameD s now).cq

theorem pumpWrite_frameD (s : St) (now : Nat) : FrameD s (pumpWrite s now).1 := by
  refine pumpWrite_cases (motive := fun p => FrameD s p.1) s now ?_ ?_ ?_ ?_ ?_ ?_
  · intro s1 r1 h1 _
    have f1 := pollWriteRequest_frameD s now; rw [h1] at f1; exact f1
  · intro s1 r1 s2 r2 h1 _ h2 _
    have f1 := pollWriteRequest_frameD s now; rw [h1] at f1
    have f2 := pollWriteCancel_frameD s1; rw [h2] at f2
    exact f1.trans f2
  · intro s1 r1 s2 r2 s3 h1 _ h2 _ h3
    have f1 := pollWriteRequest_frameD s now; rw [h1] at f1
    have f2 := pollWriteCancel_frameD s1; rw [h2] at f2
    have f3 := pollExpired_frameD s2 now; rw [h3] at f3
    exact (f1.trans f2).trans f3
  · intro s1 r1 s2 r2 s3 h1 _ h2 _ h3 _
    have f1 := pollWriteRequest_frameD s now; rw [h1] at f1
    have f2 := pollWriteCancel_frameD s1; rw [h2] at f2
    have f3 := pollExpired_frameD s2 now; rw [h3] at f3
    exact (f1.trans f2).trans f3
  · intro s1 s2 s3 s4 r4 h1 h2 h3 h4
    have f1 := pollWriteRequest_frameD s now; rw [h1] at f1
    have f2 := pollWriteCancel_frameD s1; rw [h2] at f2
    have f3 := pollExpired_frameD s2 now; rw [h3] at f3
    have f4 := tClose_frameD s3; rw [h4] at f4
    exact ((f1.trans f2).trans f3).trans f4
  · intro s1 r1 s2 r2 s3 s4 r4 h1 _ h2 _ _ h3 h4
    have f1 := pollWriteRequest_frameD s now; rw [h1] at f1
    have f2 := pollWriteCancel_frameD s1; rw [h2] at f2
    have f3 := pollExpired_frameD s2 now; rw [h3] at f3
    have f4 := tFlush_frameD s3; rw [h4] at f4
    exact ((f1.trans f2).trans f3).trans f4
@[simp] theorem pumpWrite_k (s : St) (now : Nat) : ((pumpWrite s now).1).k = s.k := (pumpWrite_frameD s now).k
@[simp] theorem pumpWrite_maxInFlight (s : St) (now : Nat) : ((pumpWrite s now).1).maxInFlight = s.maxInFlight := (pumpWrite_frameD s now).maxInFlight
@[simp] theorem pumpWrite_bufCap (s : St) (now : Nat) : ((pumpWrite s now).1).bufCap = s.bufCap := (pumpWrite_frameD s now).bufCap
@[simp] theorem pumpWrite_ensureLoop (s : St) (now : Nat) : ((pumpWrite s now).1).ensureLoop = s.ensureLoop := (pumpWrite_frameD s now).ensureLoop
@[simp] theorem pumpWrite_handles (s : St) (now : Nat) : ((pumpWrite s now).1).handles = s.handles := (pumpWrite_frameD s now).handles
@[simp] theorem pumpWrite_sigs (s : St) (now : Nat) : ((pumpWrite s now).1).calls.map callSig = s.calls.map callSig := (pumpWrite_frameD s now).sigs
@[simp] theorem pumpWrite_senders (s : St) (now : Nat) : senders ((pumpWrite s now).1) = senders s := (pumpWrite_frameD s now).senders
theorem pumpWrite_pq_le (s : St) (now : Nat) : ((pumpWrite s now).1).pq.length ≤ s.pq.length := (pumpWrite_frameD s now).pq
theorem pumpWrite_cq_le (s : St) (now : Nat) : ((pumpWrite s now).1).cq.length ≤ s.cq.length := (pumpWrite_frameD s now).cq

theorem pumpRead_frameD (s : St) : FrameD s (pumpRead s).1 := by
  unfold pumpRead
  have h := tNext_frameD s
  split <;> rename_i heq <;> rw [heq] at h
  · exact h
  · exact h
  · exact h
  · exact h.trans (completeRequest_frameD _ _ _)
  · exact h
@[simp] theorem pumpRead_k (s : St) : ((pumpRead s).1).k = s.k := (pumpRead_frameD s).k
@[simp] theorem pumpRead_maxInFlight (s : St) : ((pumpRead s).1).maxInFlight = s.maxInFlight := (pumpRead_frameD s).maxInFlight
@[simp] theorem pumpRead_bufCap (s : St) : ((pumpRead s).1).bufCap = s.bufCap := (pumpRead_frameD s).bufCap
@[simp] theorem pumpRead_ensureLoop (s : St) : ((pumpRead s).1).ensureLoop = s.ensureLoop := (pumpRead_frameD s).ensureLoop
@[simp] theorem pumpRead_handles (s : St) : ((pumpRead s).1).handles = s.handles := (pumpRead_frameD s).handles
@[simp] theorem pumpRead_sigs (s : St) : ((pumpRead s).1).calls.map callSig = s.calls.map callSig := (pumpRead_frameD s).sigs
@[simp] theorem pumpRead_senders (s : St) : senders ((pumpRead s).1) = senders s := (pumpRead_frameD s).senders
theorem pumpRead_pq_le (s : St) : ((pumpRead s).1).pq.length ≤ s.pq.length := (pumpRead_frameD s).pq
theorem pumpRead_cq_le (s : St) : ((pumpRead s).1).cq.length ≤ s.cq.length := (pumpRead_frameD s).cq

theorem run_frameD (fuel : Nat) (s : St) (now : Nat) : FrameD s (run fuel s now).1 := by
  induction fuel generalizing s with
  | zero => exact emit_frameD _ _
  | succ fuel ih =>
    unfold run
    have h := pumpRead_frameD s
    split <;> rename_i heq <;> rw [heq] at h
    · exact h
    · exact h
    · rename_i s1 rd _ _
      have h2 := pumpWrite_frameD s1 now
      split <;> rename_i heq2 <;> rw [heq2] at h2
      · exact h.trans h2
      · exact h.trans h2
      · have h12 := h.trans h2
        split
        · exact h12
        · split
          · exact h12
          · split
            · exact h12.trans (ih _)
            · exact h12
        · exact h12.trans (ih _)
        · exact h12.trans (ih _)
        · exact h12
@[simp] theorem run_k (fuel : Nat) (s : St) (now : Nat) : ((run fuel s now).1).k = s.k := (run_frameD fuel s now).k
@[simp] theorem run_maxInFlight (fuel : Nat) (s : St) (now : Nat) : ((run fuel s now).1).maxInFlight = s.maxInFlight := (run_frameD fuel s now).maxInFlight
@[simp] theorem run_bufCap (fuel : Nat) (s : St) (now : Nat) : ((run fuel s now).1).bufCap = s.bufCap := (run_frameD fuel s now).bufCap
@[simp] theorem run_ensureLoop (fuel : Nat) (s : St) (now : Nat) : ((run fuel s now).1).ensureLoop = s.ensureLoop := (run_frameD fuel s now).ensureLoop
@[simp] theorem run_handles (fuel : Nat) (s : St) (now : Nat) : ((run fuel s now).1).handles = s.handles := (run_frameD fuel s now).handles
@[simp] theorem run_sigs (fuel : Nat) (s : St) (now : Nat) : ((run fuel s now).1).calls.map callSig = s.calls.map callSig := (run_frameD fuel s now).sigs
@[simp] theorem run_senders (fuel : Nat) (s : St) (now : Nat) : senders ((run fuel s now).1) = senders s := (run_frameD fuel s now).senders
theorem run_pq_le (fuel : Nat) (s : St) (now : Nat) : ((run fuel s now).1).pq.length ≤ s.pq.length := (run_frameD fuel s now).pq
theorem run_cq_le (fuel : Nat) (s : St) (now : Nat) : ((run fuel s now).1).cq.length ≤ s.cq.length := (run_frameD fuel s now).cq

theorem failAll_frameD (s : St) (a : Activity) : FrameD s (failAll s a) := by
  unfold failAll
  exact .trans (by frameD_rfl) (FrameD.foldl _ (fun s e => osSend_frameD s _ _) _ _)
@[simp] theorem failAll_handles (s : St) (a : Activity) : (failAll s a).handles = s.handles := (failAll_frameD s a).handles
@[simp] theorem failAll_sigs (s : St) (a : Activity) : (failAll s a).calls.map callSig = s.calls.map callSig := (failAll_frameD s a).sigs
@[simp] theorem failAll_senders (s : St) (a : Activity) : senders (failAll s a) = senders s := (failAll_frameD s a).senders
theorem failAll_pq_le (s : St) (a : Activity) : (failAll s a).pq.length ≤ s.pq.length := (failAll_frameD s a).pq
theorem failAll_cq_le (s : St) (a : Activity) : (failAll s a).cq.length ≤ s.cq.length := (failAll_frameD s a).cq

theorem drainLoop_frameD (fuel : Nat) (s : St) (a : Activity) : FrameD s (drainLoop fuel s a).1 := by
  induction fuel generalizing s with
  | zero => exact .refl _
  | succ fuel ih =>
    unfold drainLoop
    have h := pqRecv_frameD s
    split <;> rename_i heq <;> rw [heq] at h
    · exact h
    · exact h
    · split
      · exact .trans h (ih _)
      · exact .trans (.trans h (osSend_frameD _ _ _)) (ih _)
@[simp] theorem drainLoop_handles (fuel : Nat) (s : St) (a : Activity) : ((drainLoop fuel s a).1).handles = s.handles := (drainLoop_frameD fuel s a).handles
@[simp] theorem drainLoop_sigs (fuel : Nat) (s : St) (a : Activity) : ((drainLoop fuel s a).1).calls.map callSig = s.calls.map callSig := (drainLoop_frameD fuel s a).sigs
@[simp] theorem drainLoop_senders (fuel : Nat) (s : St) (a : Activity) : senders ((drainLoop fuel s a).1) = senders s := (drainLoop_frameD fuel s a).senders
theorem drainLoop_pq_le (fuel : Nat) (s : St) (a : Activity) : ((drainLoop fuel s a).1).pq.length ≤ s.pq.length := (drainLoop_frameD fuel s a).pq
theorem drainLoop_cq_le (fuel : Nat) (s : St) (a : Activity) : ((drainLoop fuel s a).1).cq.length ≤ s.cq.length := (drainLoop_frameD fuel s a).cq

theorem shutDown_frameD (s : St) (a : Activity) : FrameD s (shutDown s a).1 := by
  unfold shutDown
  exact .trans (.trans (pqClose_frameD _) (failAll_frameD _ _)) (drainLoop_frameD _ _ _)
@[simp] theorem shutDown_handles (s : St) (a : Activity) : ((shutDown s a).1).handles = s.handles := (shutDown_frameD s a).handles
@[simp] theorem shutDown_sigs (s : St) (a : Activity) : ((shutDown s a).1).calls.map callSig = s.calls.map callSig := (shutDown_frameD s a).sigs
@[simp] theorem shutDown_senders (s : St) (a : Activity) : senders ((shutDown s a).1) = senders s := (shutDown_frameD s a).senders
theorem shutDown_pq_le (s : St) (a : Activity) : ((shutDown s a).1).pq.length ≤ s.pq.length := (shutDown_frameD s a).pq
theorem shutDown_cq_le (s : St) (a : Activity) : ((shutDown s a).1).cq.length ≤ s.cq.length := (shutDown_frameD s a).cq

theorem pollDispatchCore_frameD (s : St) (now : Nat) : FrameD s (pollDispatchCore s now).1 := by
  unfold pollDispatchCore; split
  · rename_i a _
    have h := shutDown_frameD s a
    split; rename_i heq; rw [heq] at h; exact h
  · have h := run_frameD (runFuel s) s now
    split <;> rename_i heq <;> rw [heq] at h
    · exact h
    · exact h
    · exact h.upd rfl rfl rfl rfl rfl rfl rfl rfl
    · rename_i s1 a
      have h2 := shutDown_frameD { s1 with termErr := some a } a
      dsimp only
      exact (h.trans (by frameD_rfl)).trans h2
@[simp] theorem pollDispatchCore_k (s : St) (now : Nat) : ((pollDispatchCore s now).1).k = s.k := (pollDispatchCore_frameD s now).k
@[simp] theorem pollDispatchCore_maxInFlight (s : St) (now : Nat) : ((pollDispatchCore s now).1).maxInFlight = s.maxInFlight := (pollDispatchCore_frameD s now).maxInFlight
@[simp] theorem pollDispatchCore_bufCap (s : St) (now : Nat) : ((pollDispatchCore s now).1).bufCap = s.bufCap := (pollDispatchCore_frameD s now).bufCap
@[simp] theorem pollDispatchCore_ensureLoop (s : St) (now : Nat) : ((pollDispatchCore s now).1).ensureLoop = s.ensureLoop := (pollDispatchCore_frameD s now).ensureLoop
@[simp] theorem pollDispatchCore_handles (s : St) (now : Nat) : ((pollDispatchCore s now).1).handles = s.handles := (pollDispatchCore_frameD s now).handles
@[simp] theorem pollDispatchCore_sigs (s : St) (now : Nat) : ((pollDispatchCore s now).1).calls.map callSig = s.calls.map callSig := (pollDispatchCore_frameD s now).sigs
@[simp] theorem pollDispatchCore_senders (s : St) (now : Nat) : senders ((pollDispatchCore s now).1) = senders s := (pollDispatchCore_frameD s now).senders
theorem pollDispatchCore_pq_le (s : St) (now : Nat) : ((pollDispatchCore s now).1).pq.length ≤ s.pq.length := (pollDispatchCore_frameD s now).pq
theorem pollDispatchCore_cq_le (s : St) (now : Nat) : ((pollDispatchCore s now).1).cq.length ≤ s.cq.length := (pollDispatchCore_frameD s now).cq

theorem dropDispatch_frameD (s : St) : FrameD s (dropDispatch s) := by
  have hA : ∀ s1 : St, FrameD s1 (s1.pq.foldl (fun s r => osDropTx s r.cid)
      { s1 with pq := [], pqAvail := s1.bufCap - s1.pqAssigned.length }) := fun s1 =>
    .trans (by exact ⟨rfl, rfl, rfl, rfl, rfl, rfl, Nat.zero_le _, Nat.le_refl _⟩) (FrameD.foldl _ (fun s r => osDropTx_frameD s _) _ _)
  have hB : ∀ s2 : St, FrameD s2 (s2.inflight.foldl (fun s e => osDropTx s e.cid)
      { s2 with inflight := [], timers := {} }) := fun s2 =>
    .trans (by frameD_rfl) (FrameD.foldl _ (fun s e => osDropTx_frameD s _) _ _)
  have hC : ∀ s3 : St, FrameD s3 { s3 with cq := [] } := fun s3 =>
    ⟨rfl, rfl, rfl, rfl, rfl, rfl, Nat.le_refl _, Nat.zero_le _⟩
  unfold dropDispatch; split
  · exact emit_frameD _ _
  · exact .trans (.trans (.trans (.trans (by frameD_rfl) (pqClose_frameD _)) (hA _)) (hB _)) (hC _)
@[simp] theorem dropDispatch_handles (s : St) : (dropDispatch s).handles = s.handles := (dropDispatch_frameD s).handles
@[simp] theorem dropDispatch_sigs (s : St) : (dropDispatch s).calls.map callSig = s.calls.map callSig := (dropDispatch_frameD s).sigs
@[simp] theorem dropDispatch_senders (s : St) : senders (dropDispatch s) = senders s := (dropDispatch_frameD s).senders
theorem dropDispatch_pq_le (s : St) : (dropDispatch s).pq.length ≤ s.pq.length := (dropDispatch_frameD s).pq
theorem dropDispatch_cq_le (s : St) : (dropDispatch s).cq.length ≤ s.cq.length := (dropDispatch_frameD s).cq

theorem pollDispatchKeep_frameD (s : St) (now : Nat) : FrameD s (pollDispatchKeep s now) := by
  unfold pollDispatchKeep; split
  · exact emit_frameD _ _
  · have h : FrameD s (pollDispatchCore { s with dWoken := false } now).1 :=
      .trans (by frameD_rfl) (pollDispatchCore_frameD _ _)
    dsimp only
    rcases hh : pollDispatchCore { s with dWoken := false } now with ⟨s1, r⟩
    rw [hh] at h
    dsimp only at h ⊢
    have h2 : FrameD s (if (s1.obs.any (fun o => match o with | .spin _ => true | _ => false) &&
          !(s.obs.any (fun o => match o with | .spin _ => true | _ => false))) = true
        then { s1 with obs := .spin (tid s1) :: s.obs, poisoned := true }
        else if s1.poisoned = true then s1
        else emit (emit s1 (.ret (tid s1) r)) (.counts (tid s1) s1.inflight.length s1.timers.len)) := by
      split
      · exact h.upd rfl rfl rfl rfl rfl rfl rfl rfl
      · split
        · exact h
        · exact (h.trans (emit_frameD _ _)).trans (emit_frameD _ _)
    split
    · exact h2
    · exact h2.upd rfl rfl rfl rfl rfl rfl rfl rfl
@[simp] theorem pollDispatchKeep_k (s : St) (now : Nat) : (pollDispatchKeep s now).k = s.k := (pollDispatchKeep_frameD s now).k
@[simp] theorem pollDispatchKeep_maxInFlight (s : St) (now : Nat) : (pollDispatchKeep s now).maxInFlight = s.maxInFlight := (pollDispatchKeep_frameD s now).maxInFlight
@[simp] theorem pollDispatchKeep_bufCap (s : St) (now : Nat) : (pollDispatchKeep s now).bufCap = s.bufCap := (pollDispatchKeep_frameD s now).bufCap
@[simp] theorem pollDispatchKeep_ensureLoop (s : St) (now : Nat) : (pollDispatchKeep s now).ensureLoop = s.ensureLoop := (pollDispatchKeep_frameD s now).ensureLoop
@[simp] theorem pollDispatchKeep_handles (s : St) (now : Nat) : (pollDispatchKeep s now).handles = s.handles := (pollDispatchKeep_frameD s now).handles
@[simp] theorem pollDispatchKeep_sigs (s : St) (now : Nat) : (pollDispatchKeep s now).calls.map callSig = s.calls.map callSig := (pollDispatchKeep_frameD s now).sigs
@[simp] theorem pollDispatchKeep_senders (s : St) (now : Nat) : senders (pollDispatchKeep s now) = senders s := (pollDispatchKeep_frameD s now).senders
theorem pollDispatchKeep_pq_le (s : St) (now : Nat) : (pollDispatchKeep s now).pq.length ≤ s.pq.length := (pollDispatchKeep_frameD s now).pq
theorem pollDispatchKeep_cq_le (s : St) (now : Nat) : (pollDispatchKeep s now).cq.length ≤ s.cq.length := (pollDispatchKeep_frameD s now).cq

theorem pollDispatch_frameD (s : St) (now : Nat) : FrameD s (pollDispatch s now) := by
  unfold pollDispatch; dsimp only; split
  · exact (pollDispatchKeep_frameD _ _).trans (dropDispatch_frameD _)
  · exact pollDispatchKeep_frameD _ _
@[simp] theorem pollDispatch_k (s : St) (now : Nat) : (pollDispatch s now).k = s.k := (pollDispatch_frameD s now).k
@[simp] theorem pollDispatch_maxInFlight (s : St) (now : Nat) : (pollDispatch s now).maxInFlight = s.maxInFlight := (pollDispatch_frameD s now).maxInFlight
@[simp] theorem pollDispatch_bufCap (s : St) (now : Nat) : (pollDispatch s now).bufCap = s.bufCap := (pollDispatch_frameD s now).bufCap
@[simp] theorem pollDispatch_ensureLoop (s : St) (now : Nat) : (pollDispatch s now).ensureLoop = s.ensureLoop := (pollDispatch_frameD s now).ensureLoop
@[simp] theorem pollDispatch_handles (s : St) (now : Nat) : (pollDispatch s now).handles = s.handles := (pollDispatch_frameD s now).handles
@[simp] theorem pollDispatch_sigs (s : St) (now : Nat) : (pollDispatch s now).calls.map callSig = s.calls.map callSig := (pollDispatch_frameD s now).sigs
@[simp] theorem pollDispatch_senders (s : St) (now : Nat) : senders (pollDispatch s now) = senders s := (pollDispatch_frameD s now).senders
theorem pollDispatch_pq_le (s : St) (now : Nat) : (pollDispatch s now).pq.length ≤ s.pq.length := (pollDispatch_frameD s now).pq
theorem pollDispatch_cq_le (s : St) (now : Nat) : (pollDispatch s now).cq.length ≤ s.cq.length := (pollDispatch_frameD s now).cq

theorem onAdvance_frameD (s : St) (now : Nat) : FrameD s (onAdvance s now) := by
  unfold onAdvance; split
  · split
    · exact .trans (by frameD_rfl) (wakeDispatch_frameD _)
    · exact .refl _
  · exact .refl _
@[simp] theorem onAdvance_handles (s : St) (now : Nat) : (onAdvance s now).handles = s.handles := (onAdvance_frameD s now).handles
@[simp] theorem onAdvance_sigs (s : St) (now : Nat) : (onAdvance s now).calls.map callSig = s.calls.map callSig := (onAdvance_frameD s now).sigs
@[simp] theorem onAdvance_senders (s : St) (now : Nat) : senders (onAdvance s now) = senders s := (onAdvance_frameD s now).senders
theorem onAdvance_pq_le (s : St) (now : Nat) : (onAdvance s now).pq.length ≤ s.pq.length := (onAdvance_frameD s now).pq
theorem onAdvance_cq_le (s : St) (now : Nat) : (onAdvance s now).cq.length ≤ s.cq.length := (onAdvance_frameD s now).cq

theorem liftT_frameD (s : St) (r : SimT × Bool) : FrameD s (liftT s r) := by
  unfold liftT; dsimp only; split
  · exact .trans (by frameD_rfl) (wakeDispatch_frameD _)
  · frameD_rfl
@[simp] theorem liftT_k (s : St) (r : SimT × Bool) : (liftT s r).k = s.k := (liftT_frameD s r).k
@[simp] theorem liftT_maxInFlight (s : St) (r : SimT × Bool) : (liftT s r).maxInFlight = s.maxInFlight := (liftT_frameD s r).maxInFlight
@[simp] theorem liftT_bufCap (s : St) (r : SimT × Bool) : (liftT s r).bufCap = s.bufCap := (liftT_frameD s r).bufCap
@[simp] theorem liftT_ensureLoop (s : St) (r : SimT × Bool) : (liftT s r).ensureLoop = s.ensureLoop := (liftT_frameD s r).ensureLoop
@[simp] theorem liftT_handles (s : St) (r : SimT × Bool) : (liftT s r).handles = s.handles := (liftT_frameD s r).handles
@[simp] theorem liftT_sigs (s : St) (r : SimT × Bool) : (liftT s r).calls.map callSig = s.calls.map callSig := (liftT_frameD s r).sigs
@[simp] theorem liftT_senders (s : St) (r : SimT × Bool) : senders (liftT s r) = senders s := (liftT_frameD s r).senders
theorem liftT_pq_le (s : St) (r : SimT × Bool) : (liftT s r).pq.length ≤ s.pq.length := (liftT_frameD s r).pq
theorem liftT_cq_le (s : St) (r : SimT × Bool) : (liftT s r).cq.length ≤ s.cq.length := (liftT_frameD s r).cq

end TarpcModel.Client.Flow

import TarpcModel.Lemmas.ClientGeneric
/-!
Coupling between the client model and the bookkeeping of the monitors `monC01`, `monC03` (its first two
clauses) and `monC18`: a combined monitor, the part of the book it depends on, and the invariant `J`
(`Inv` plus the coupling) as an instance of `Pres`.
-/
namespace TarpcModel.Client

/-- `checkC03` without its third clause (cancel owed after a writable poll). -/
def checkC03ab (b : Book) (u : Unit) : CEv → Unit × Option String
  | .obs (.ret (.dispatch _) _) => ((), none)
  | e => checkC03 b u e

def monC03ab (evs : List CEv) : Mon Unit := Mon.run checkC03ab () evs

/-- the three checkers run side by side (the state is that of `checkC01`) -/
def chk (b : Book) (used : C01St) (e : CEv) : C01St × Option String :=
  ((checkC01 b used e).1,
    ((checkC01 b used e).2.orElse fun _ => (checkC18 b () e).2).orElse fun _ => (checkC03ab b () e).2)

theorem chk_none {b : Book} {used : C01St} {e : CEv} (h : (chk b used e).2 = none) :
    (checkC01 b used e).2 = none ∧ (checkC18 b () e).2 = none ∧ (checkC03ab b () e).2 = none := by
  unfold chk at h
  simp only at h
  cases h1 : (checkC01 b used e).2 <;> cases h2 : (checkC18 b () e).2 <;> cases h3 : (checkC03ab b () e).2 <;>
    simp_all [Option.orElse]

theorem Mon.fail_bad_none {σ} {m : Mon σ} {why : String} (h : (m.fail why).bad = none) : False := by
  unfold Mon.fail at h
  split at h
  · rename_i h'; rw [h'] at h; cases h
  · cases h

/-- the book a check sees -/
def Mon.pre {σ} (m : Mon σ) (e : CEv) : Book := match e with | .op _ => m.book.endOp | _ => m.book

/-- the result of the check of one step (skipped once a task span or panicked) -/
def Mon.res {σ} (check : Book → σ → CEv → σ × Option String) (m : Mon σ) (e : CEv) : σ × Option String :=
  if (m.pre e).spun then (m.st, none) else check (m.pre e) m.st e

theorem Mon.step_eq {σ} (check : Book → σ → CEv → σ × Option String) (m : Mon σ) (e : CEv) :
    Mon.step check m e =
      { book := m.book.step e, st := (Mon.res check m e).1,
        bad := match m.bad with | some w => some w | none => (Mon.res check m e).2 } := by
  unfold Mon.step Mon.res Mon.pre Mon.fail
  simp only
  cases e with
  | op o =>
    simp only
    cases h2 : (if m.book.endOp.spun = true then (m.st, none) else check m.book.endOp m.st (.op o)).2 <;>
      cases h3 : m.bad <;> simp
  | obs o =>
    simp only
    cases h2 : (if m.book.spun = true then (m.st, none) else check m.book m.st (.obs o)).2 <;>
      cases h3 : m.bad <;> simp

theorem Mon.step_book {σ} (check : Book → σ → CEv → σ × Option String) (m : Mon σ) (e : CEv) :
    (Mon.step check m e).book = m.book.step e := by rw [Mon.step_eq]

theorem Mon.step_st {σ} (check : Book → σ → CEv → σ × Option String) (m : Mon σ) (e : CEv) :
    (Mon.step check m e).st = (Mon.res check m e).1 := by rw [Mon.step_eq]

theorem Mon.step_bad {σ} (check : Book → σ → CEv → σ × Option String) (m : Mon σ) (e : CEv) :
    (Mon.step check m e).bad = match m.bad with | some w => some w | none => (Mon.res check m e).2 := by
  rw [Mon.step_eq]

theorem Mon.step_bad_none {σ} {check : Book → σ → CEv → σ × Option String} {m : Mon σ} {e : CEv} :
    (Mon.step check m e).bad = none ↔ m.bad = none ∧ (Mon.res check m e).2 = none := by
  rw [Mon.step_bad]
  cases m.bad <;> simp

/-! ### the combined monitor accepts only if each of the three does -/

structure Comp (mc : Mon C01St) (m18 : Mon Unit) (m01 : Mon C01St) (m03 : Mon Unit) : Prop where
  b18 : m18.book = mc.book
  b01 : m01.book = mc.book
  b03 : m03.book = mc.book
  st : m01.st = mc.st
  ok : mc.bad = none → m18.bad = none ∧ m01.bad = none ∧ m03.bad = none

theorem Comp.step {mc m18 m01 m03} (h : Comp mc m18 m01 m03) (e : CEv) :
    Comp (Mon.step chk mc e) (Mon.step checkC18 m18 e) (Mon.step checkC01 m01 e) (Mon.step checkC03ab m03 e) := by
  have p18 : m18.pre e = mc.pre e := by unfold Mon.pre; rw [h.b18]
  have p01 : m01.pre e = mc.pre e := by unfold Mon.pre; rw [h.b01]
  have p03 : m03.pre e = mc.pre e := by unfold Mon.pre; rw [h.b03]
  refine ⟨by rw [Mon.step_book, Mon.step_book, h.b18], by rw [Mon.step_book, Mon.step_book, h.b01],
    by rw [Mon.step_book, Mon.step_book, h.b03], ?_, ?_⟩
  · rw [Mon.step_st, Mon.step_st]
    unfold Mon.res
    rw [p01, h.st]
    split <;> rfl
  · intro hb
    obtain ⟨hb0, hr⟩ := Mon.step_bad_none.mp hb
    obtain ⟨a, b, c⟩ := h.ok hb0
    unfold Mon.res at hr
    refine ⟨Mon.step_bad_none.mpr ⟨a, ?_⟩, Mon.step_bad_none.mpr ⟨b, ?_⟩, Mon.step_bad_none.mpr ⟨c, ?_⟩⟩
    · unfold Mon.res; rw [p18]
      split
      · rfl
      · rename_i hs; simp only [hs, Bool.false_eq_true, ↓reduceIte] at hr; exact (chk_none hr).2.1
    · unfold Mon.res; rw [p01, h.st]
      split
      · rfl
      · rename_i hs; simp only [hs, Bool.false_eq_true, ↓reduceIte] at hr; exact (chk_none hr).1
    · unfold Mon.res; rw [p03]
      split
      · rfl
      · rename_i hs; simp only [hs, Bool.false_eq_true, ↓reduceIte] at hr; exact (chk_none hr).2.2

theorem Comp.foldl {mc m18 m01 m03} (h : Comp mc m18 m01 m03) (evs : List CEv) :
    Comp (evs.foldl (Mon.step chk) mc) (evs.foldl (Mon.step checkC18) m18) (evs.foldl (Mon.step checkC01) m01)
      (evs.foldl (Mon.step checkC03ab) m03) := by
  induction evs generalizing mc m18 m01 m03 with
  | nil => exact h
  | cons e evs ih => exact ih (h.step e)

theorem combined_ok {evs : List CEv} (h : (Mon.run chk [] evs).bad = none) :
    (monC18 evs).ok = true ∧ (monC01 evs).ok = true ∧ (monC03ab evs).ok = true := by
  have hc : Comp ({ st := [] } : Mon C01St) ({ st := () } : Mon Unit) ({ st := [] } : Mon C01St) ({ st := () } : Mon Unit) :=
    ⟨rfl, rfl, rfl, rfl, fun _ => ⟨rfl, rfl, rfl⟩⟩
  have := (hc.foldl evs).ok h
  simp only [Mon.ok, monC18, monC01, monC03ab, Mon.run]
  simp [this.1, this.2.1, this.2.2]

/-! ### the part of the book the three checkers depend on -/

def Book.norm (b : Book) : Book :=
  { b with topPoll := false, pollReadyP := false, dispatchRet := none, failed := false }

theorem Book.endOp_norm (b : Book) : b.endOp.norm = b.norm.endOp.norm := by
  unfold Book.endOp Book.norm
  simp only
  cases b.curDrop <;> rfl

theorem Book.step_norm (b : Book) (e : CEv) : (b.step e).norm = (b.norm.step e).norm := by
  cases e with
  | op o =>
    have h := Book.endOp_norm b
    unfold Book.step
    simp only
    generalize hb : b.endOp = b1 at h
    generalize hb2 : b.norm.endOp = b2 at h
    have hh : b1.handles = b2.handles := by have := congrArg Book.handles h; exact this
    have hc : b1.calls = b2.calls := by have := congrArg Book.calls h; exact this
    have hn : b1.nextHandle = b2.nextHandle := by have := congrArg Book.nextHandle h; exact this
    have hw : b1.now = b2.now := by have := congrArg Book.now h; exact this
    cases o <;> simp only [← hh, ← hc, ← hn, ← hw] <;> (try split) <;>
      (unfold Book.norm at h ⊢; simp only [Book.mk.injEq] at h ⊢; simp_all)
  | obs o =>
    cases o with
    | tSend ep m ok => cases m <;> (try cases ok) <;> rfl
    | tNext ep r => cases r with
      | item m => cases m <;> rfl
      | _ => rfl
    | tReady ep r => cases r <;> rfl
    | tFlush ep r => cases r <;> rfl
    | tClose ep r => cases r <;> rfl
    | ret t r => cases t <;> (try (unfold Book.step; simp only; split)) <;> rfl
    | _ => rfl

theorem chk_norm (b : Book) (used : C01St) (e : CEv) : chk b.norm used e = chk b used e := by
  cases e with
  | op o => rfl
  | obs o =>
    cases o with
    | tSend ep m ok => cases m <;> rfl
    | ret t r => cases t <;> rfl
    | _ => rfl

theorem chk_op (b : Book) (used : C01St) (o : COp) : chk b used (.op o) = (used, none) := rfl

theorem chk_irrelevant (b : Book) (used : C01St) (o : Obs) (h : relevant o = false) :
    chk b used (.obs o) = (used, none) := by
  cases o with
  | tSend ep m ok => simp [relevant] at h
  | resolved c o t => simp [relevant] at h
  | ret t r => cases t <;> rfl
  | _ => rfl

theorem Book.step_irrelevant (b : Book) (o : Obs) (h : relevant o = false) :
    (b.step (.obs o)).norm = b.norm := by
  cases o with
  | tSend ep m ok => simp [relevant] at h
  | resolved c o t => simp [relevant] at h
  | spin t => simp [relevant] at h
  | panic t s => simp [relevant] at h
  | tNext ep r => cases r with
    | item m => cases m <;> first | rfl | simp [relevant] at h
    | _ => rfl
  | tReady ep r => cases r <;> rfl
  | tFlush ep r => cases r <;> rfl
  | tClose ep r => cases r <;> rfl
  | ret t r => cases t <;> (try (unfold Book.step; simp only; split)) <;> rfl
  | _ => rfl

/-- two monitor states the checkers cannot tell apart -/
structure MEq (m m' : Mon C01St) : Prop where
  book : m.book.norm = m'.book.norm
  st : m.st = m'.st
  bad : m.bad = m'.bad

theorem MEq.refl (m : Mon C01St) : MEq m m := ⟨rfl, rfl, rfl⟩
theorem MEq.symm {m m' : Mon C01St} (h : MEq m m') : MEq m' m := ⟨h.book.symm, h.st.symm, h.bad.symm⟩
theorem MEq.trans {a b c : Mon C01St} (h1 : MEq a b) (h2 : MEq b c) : MEq a c :=
  ⟨h1.book.trans h2.book, h1.st.trans h2.st, h1.bad.trans h2.bad⟩

theorem MEq.pre {m m' : Mon C01St} (h : MEq m m') (e : CEv) : (m.pre e).norm = (m'.pre e).norm := by
  unfold Mon.pre
  cases e with
  | op o => simp only; rw [Book.endOp_norm, h.book, ← Book.endOp_norm]
  | obs o => exact h.book

theorem MEq.res {m m' : Mon C01St} (h : MEq m m') (e : CEv) : Mon.res chk m e = Mon.res chk m' e := by
  unfold Mon.res
  have hp := h.pre e
  have hs : (m.pre e).spun = (m'.pre e).spun := by
    have := congrArg Book.spun hp; exact this
  rw [← chk_norm (m.pre e), ← chk_norm (m'.pre e), hp, hs, h.st]

theorem MEq.step {m m' : Mon C01St} (h : MEq m m') (e : CEv) : MEq (Mon.step chk m e) (Mon.step chk m' e) := by
  refine ⟨?_, ?_, ?_⟩
  · rw [Mon.step_book, Mon.step_book, Book.step_norm, h.book, ← Book.step_norm]
  · rw [Mon.step_st, Mon.step_st, h.res]
  · rw [Mon.step_bad, Mon.step_bad, h.res, h.bad]

theorem MEq.step_irrelevant (m : Mon C01St) (o : Obs) (h : relevant o = false) :
    MEq (Mon.step chk m (.obs o)) m := by
  have hr : Mon.res chk m (.obs o) = (m.st, none) := by
    unfold Mon.res; split
    · rfl
    · exact chk_irrelevant _ _ _ h
  refine ⟨?_, ?_, ?_⟩
  · rw [Mon.step_book]; exact Book.step_irrelevant _ _ h
  · rw [Mon.step_st, hr]
  · rw [Mon.step_bad, hr]; cases m.bad <;> rfl

/-- the monitor state after the observations `rel` (most recent first) -/
def monOf (m0 : Mon C01St) (rel : List Obs) : Mon C01St := rel.foldr (fun o m => Mon.step chk m (.obs o)) m0

@[simp] theorem monOf_nil (m0 : Mon C01St) : monOf m0 [] = m0 := rfl
@[simp] theorem monOf_cons (m0 : Mon C01St) (o : Obs) (l : List Obs) :
    monOf m0 (o :: l) = Mon.step chk (monOf m0 l) (.obs o) := rfl

theorem monOf_congr {m0 m0' : Mon C01St} (h : MEq m0 m0') (l : List Obs) : MEq (monOf m0 l) (monOf m0' l) := by
  induction l with
  | nil => exact h
  | cons o l ih => exact ih.step (.obs o)

theorem monOf_filter (m0 : Mon C01St) (l : List Obs) : MEq (monOf m0 l) (monOf m0 (l.filter relevant)) := by
  induction l with
  | nil => exact MEq.refl _
  | cons o l ih =>
    by_cases h : relevant o = true
    · simp only [List.filter_cons, h, ↓reduceIte, monOf_cons]; exact ih.step _
    · have h' : relevant o = false := by simpa using h
      simp only [List.filter_cons, h', Bool.false_eq_true, ↓reduceIte, monOf_cons]
      exact (MEq.step_irrelevant _ o h').trans ih

/-! ### the book's calls against the model's calls -/

structure RC (bc : BCall) (c : CallV) : Prop where
  cid : bc.cid = c.cid
  body : bc.body = c.body
  trace : bc.trace = c.ctx.trace
  resolved : bc.resolved = c.outcome
  dropped : bc.dropped = true → c.phase = .dropped

def CallsRel : List BCall → List CallV → Prop
  | [], [] => True
  | bc :: bs, c :: cs => RC bc c ∧ CallsRel bs cs
  | _, _ => False

theorem CallsRel.find_cid_bwd {bs : List BCall} {cs : List CallV} (h : CallsRel bs cs) {k : Nat} {c : CallV}
    (hc : cs.find? (·.cid == k) = some c) : ∃ bc, bs.find? (·.cid == k) = some bc ∧ RC bc c := by
  induction bs generalizing cs with
  | nil => cases cs <;> simp_all [CallsRel]
  | cons b bs ih =>
    cases cs with
    | nil => simp [CallsRel] at h
    | cons c0 cs =>
      obtain ⟨h0, h1⟩ := h
      simp only [List.find?_cons] at hc ⊢
      rw [h0.cid]
      by_cases e : c0.cid == k
      · simp only [e] at hc ⊢; injection hc with hc; subst hc; exact ⟨b, rfl, h0⟩
      · simp only [e] at hc ⊢; exact ih h1 hc

theorem CallsRel.find_cid_fwd {bs : List BCall} {cs : List CallV} (h : CallsRel bs cs) {k : Nat} {bc : BCall}
    (hb : bs.find? (·.cid == k) = some bc) : ∃ c, cs.find? (·.cid == k) = some c ∧ RC bc c := by
  induction bs generalizing cs with
  | nil => simp at hb
  | cons b bs ih =>
    cases cs with
    | nil => simp [CallsRel] at h
    | cons c0 cs =>
      obtain ⟨h0, h1⟩ := h
      simp only [List.find?_cons] at hb ⊢
      rw [h0.cid] at hb
      by_cases e : c0.cid == k
      · simp only [e] at hb ⊢; injection hb with hb; subst hb; exact ⟨c0, rfl, h0⟩
      · simp only [e] at hb ⊢; exact ih h1 hb

theorem CallsRel.find_body {bs : List BCall} {cs : List CallV} (h : CallsRel bs cs) {body : Nat} {bc : BCall}
    (hb : bs.find? (·.body == body) = some bc) : ∃ c ∈ cs, RC bc c := by
  induction bs generalizing cs with
  | nil => simp at hb
  | cons b bs ih =>
    cases cs with
    | nil => simp [CallsRel] at h
    | cons c0 cs =>
      obtain ⟨h0, h1⟩ := h
      simp only [List.find?_cons] at hb
      by_cases e : b.body == body
      · simp only [e] at hb; injection hb with hb; subst hb; exact ⟨c0, List.mem_cons_self, h0⟩
      · simp only [e] at hb
        obtain ⟨c, hc, hr⟩ := ih h1 hb
        exact ⟨c, List.mem_cons_of_mem _ hc, hr⟩

theorem CallsRel.map₂ {bs : List BCall} {cs : List CallV} (h : CallsRel bs cs) (fb : BCall → BCall) (fc : CallV → CallV)
    (hf : ∀ bc c, RC bc c → RC (fb bc) (fc c)) : CallsRel (bs.map fb) (cs.map fc) := by
  induction bs generalizing cs with
  | nil => cases cs <;> simp_all [CallsRel]
  | cons b bs ih =>
    cases cs with
    | nil => simp [CallsRel] at h
    | cons c0 cs => exact ⟨hf _ _ h.1, ih h.2⟩

theorem CallsRel.append₂ {bs : List BCall} {cs : List CallV} (h : CallsRel bs cs) {b : BCall} {c : CallV}
    (hr : RC b c) : CallsRel (bs ++ [b]) (cs ++ [c]) := by
  induction bs generalizing cs with
  | nil => cases cs <;> simp_all [CallsRel]
  | cons b0 bs ih =>
    cases cs with
    | nil => simp [CallsRel] at h
    | cons c0 cs => exact ⟨h.1, ih h.2⟩

theorem CallsRel.length {bs : List BCall} {cs : List CallV} (h : CallsRel bs cs) : bs.length = cs.length := by
  induction bs generalizing cs with
  | nil => cases cs <;> simp_all [CallsRel]
  | cons b0 bs ih =>
    cases cs with
    | nil => simp [CallsRel] at h
    | cons c0 cs => simp [ih h.2]

/-- under `Inv`, a call in the list is the one `get` finds for its id -/
theorem Inv.get_of_mem {x : Option Nat} {v : View} (hi : Inv x v) {c : CallV} (hc : c ∈ v.calls) :
    v.get c.cid = some c := by
  have hcids := hi.cids
  unfold View.get
  generalize v.calls = l at hc hcids
  -- the ids are `0, 1, …` hence pairwise distinct
  have hnd : (l.map (·.cid)).Nodup := by rw [hcids]; exact List.nodup_range
  clear hcids
  induction l with
  | nil => cases hc
  | cons a l ih =>
    simp only [List.find?_cons]
    simp only [List.map_cons, List.nodup_cons] at hnd
    rcases List.mem_cons.mp hc with rfl | hc'
    · simp
    · have : ¬ (a.cid == c.cid) = true := by
        intro e
        simp only [beq_iff_eq] at e
        exact hnd.1 (e ▸ List.mem_map_of_mem hc')
      simp only [this]
      exact ih hc' hnd.2

/-! ### the coupling -/

structure Cpl (x : Option Nat) (v : View) (b : Book) (used : List Nat) : Prop where
  calls : CallsRel b.calls v.calls
  bodies : (v.calls.map (·.body)).Nodup
  spans : ∀ c ∈ v.calls, ∃ n, c.ctx.trace.span = .given n
  handles : b.handles = v.handles
  nextHandle : b.nextHandle = v.nextHandle
  sends : ∀ sd ∈ b.sends, ∃ i c, v.get i = some c ∧ c.enq ∧ c.id = sd.id ∧ sd.body = c.body ∧ sd.trace = c.trace
  sendsNodup : (b.sends.map (·.id)).Nodup
  pqNotSent : ∀ r ∈ v.pq, ∀ sd ∈ b.sends, sd.id ≠ r.id
  xNotSent : ∀ id, x = some id → ∀ sd ∈ b.sends, sd.id ≠ id
  logSent : ∀ id ∈ reqIds v.sentLog, ∃ sd ∈ b.sends, sd.id = id ∧ sd.ok = true
  cancels : ∀ p ∈ b.cancels, p.1 ∈ cancelIds v.sentLog
  reads : ∀ i c o res, v.get i = some c → c.val = some o → expectedRes o = some res →
      (∃ rd ∈ b.reads, rd.id = c.id ∧ rd.res = res ∧ rd.sentBefore = true) ∧ ∃ sd ∈ b.sends, sd.id = c.id
  used : ∀ id ∈ used, ∃ i c, v.get i = some c ∧ c.phase = .resolved ∧ c.id = id

/-- `Inv`, the monitors are content, and (unless a task span or panicked) the book matches the model. -/
structure J (m0 : Mon C01St) (x : Option Nat) (v : View) : Prop where
  inv : Inv x v
  ok : (monOf m0 v.rel).bad = none
  pois : v.poisoned = true → (monOf m0 v.rel).book.spun = true
  cpl : (monOf m0 v.rel).book.spun = true ∨ Cpl x v (monOf m0 v.rel).book (monOf m0 v.rel).st

theorem Book.spun_step (b : Book) (o : Obs) : (b.step (.obs o)).spun = (b.spun || isStop o) := by
  cases o with
  | tSend ep m ok => cases m <;> (try cases ok) <;> simp [Book.step, isStop]
  | tNext ep r => cases r with
    | item m => cases m <;> simp [Book.step, isStop]
    | _ => simp [Book.step, isStop]
  | tReady ep r => cases r <;> simp [Book.step, isStop]
  | tFlush ep r => cases r <;> simp [Book.step, isStop]
  | tClose ep r => cases r <;> simp [Book.step, isStop]
  | ret t r => cases t <;> simp [Book.step, isStop] <;> split <;> simp
  | resolved c o t => simp [Book.step, isStop, Book.updCall]
  | _ => simp [Book.step, isStop]

/-- a transition that emits nothing relevant -/
theorem J.same {m0 : Mon C01St} {x x' : Option Nat} {v v' : View} (h : J m0 x v) (hi : Inv x' v')
    (hrel : v'.rel = v.rel) (hp : v'.poisoned = true → v.poisoned = true)
    (hc : ∀ b used, Cpl x v b used → Cpl x' v' b used) : J m0 x' v' := by
  refine ⟨hi, by rw [hrel]; exact h.ok, fun hp' => by rw [hrel]; exact h.pois (hp hp'), ?_⟩
  rw [hrel]
  rcases h.cpl with hs | hcp
  · exact Or.inl hs
  · exact Or.inr (hc _ _ hcp)

/-- a transition that emits the relevant observation `o` -/
theorem J.push {m0 : Mon C01St} {x x' : Option Nat} {v v' : View} (h : J m0 x v) (o : Obs) (hi : Inv x' v')
    (hrel : v'.rel = o :: v.rel) (hp : v'.poisoned = true → v.poisoned = true ∨ isStop o = true)
    (hc : ∀ b used, b.spun = false → v.poisoned = false → Cpl x v b used →
      (chk b used (.obs o)).2 = none ∧
      ((b.step (.obs o)).spun = true ∨ Cpl x' v' (b.step (.obs o)) (chk b used (.obs o)).1)) :
    J m0 x' v' := by
  have hm : monOf m0 v'.rel = Mon.step chk (monOf m0 v.rel) (.obs o) := by rw [hrel]; rfl
  obtain ⟨_, hok, hpois, hcpl⟩ := h
  generalize monOf m0 v.rel = m at hok hpois hcpl hm
  have hpre : m.pre (.obs o) = m.book := rfl
  by_cases hs : m.book.spun = true
  · have hres : Mon.res chk m (.obs o) = (m.st, none) := by unfold Mon.res; rw [hpre, hs]; rfl
    refine ⟨hi, ?_, ?_, ?_⟩
    · rw [hm]; exact Mon.step_bad_none.mpr ⟨hok, by rw [hres]⟩
    · intro _; rw [hm, Mon.step_book, Book.spun_step, hs]; rfl
    · left; rw [hm, Mon.step_book, Book.spun_step, hs]; rfl
  · have hs' : m.book.spun = false := by simpa using hs
    have hcp : Cpl x v m.book m.st := by
      rcases hcpl with h1 | h1
      · exact absurd h1 hs
      · exact h1
    have hnp : v.poisoned = false := by
      cases hp0 : v.poisoned with
      | false => rfl
      | true => exact absurd (hpois hp0) hs
    obtain ⟨c1, c2⟩ := hc _ _ hs' hnp hcp
    have hres : Mon.res chk m (.obs o) = chk m.book m.st (.obs o) := by
      unfold Mon.res; rw [hpre, hs']; rfl
    refine ⟨hi, ?_, ?_, ?_⟩
    · rw [hm]; exact Mon.step_bad_none.mpr ⟨hok, by rw [hres]; exact c1⟩
    · intro hp'
      rw [hm, Mon.step_book, Book.spun_step]
      rcases hp hp' with h1 | h1
      · rw [hpois h1]; rfl
      · rw [h1]; simp
    · rw [hm, Mon.step_book, Mon.step_st, hres]; exact c2

theorem CallsRel.map₂' {bs : List BCall} {cs : List CallV} (h : CallsRel bs cs) (fb : BCall → BCall) (fc : CallV → CallV)
    (hf : ∀ bc c, c ∈ cs → RC bc c → RC (fb bc) (fc c)) : CallsRel (bs.map fb) (cs.map fc) := by
  induction bs generalizing cs with
  | nil => cases cs <;> simp_all [CallsRel]
  | cons b bs ih =>
    cases cs with
    | nil => simp [CallsRel] at h
    | cons c0 cs =>
      exact ⟨hf _ _ List.mem_cons_self h.1, ih h.2 (fun bc c hc => hf bc c (List.mem_cons_of_mem _ hc))⟩

/-- `Cpl` is preserved when the calls change in ways the book does not see (or sees through `resolved` only). -/
theorem Cpl.call_step {x : Option Nat} {v v' : View} {b b' : Book} {used used' : List Nat} (hc : Cpl x v b used)
    (hcalls : CallsRel b'.calls v'.calls) (hbod : (v'.calls.map (·.body)).Nodup)
    (hsp : ∀ c ∈ v'.calls, ∃ n, c.ctx.trace.span = .given n)
    (hh : v'.handles = v.handles) (hn : v'.nextHandle = v.nextHandle)
    (hbh : b'.handles = b.handles) (hbn : b'.nextHandle = b.nextHandle)
    (hbs : b'.sends = b.sends) (hbr : b'.reads = b.reads) (hbc : b'.cancels = b.cancels)
    (hpq : ∀ r ∈ v'.pq, r ∈ v.pq ∨ (∀ sd ∈ b.sends, sd.id ≠ r.id)) (hlog : v'.sentLog = v.sentLog)
    (fwd : ∀ i c, v.get i = some c → c.enq → ∃ c', v'.get i = some c' ∧ c'.enq ∧ c'.id = c.id ∧ c'.body = c.body ∧
        c'.trace = c.trace ∧ (c.phase = .resolved → c'.phase = .resolved))
    (bwd : ∀ i c' o res, v'.get i = some c' → c'.val = some o → expectedRes o = some res →
        (∃ c, v.get i = some c ∧ c.val = some o ∧ c.id = c'.id) ∨
        ((∃ rd ∈ b.reads, rd.id = c'.id ∧ rd.res = res ∧ rd.sentBefore = true) ∧ ∃ sd ∈ b.sends, sd.id = c'.id))
    (hused : ∀ id ∈ used', id ∈ used ∨ ∃ i c', v'.get i = some c' ∧ c'.phase = .resolved ∧ c'.id = id) :
    Cpl x v' b' used' where
  calls := hcalls
  bodies := hbod
  spans := hsp
  handles := by rw [hh, hbh]; exact hc.handles
  nextHandle := by rw [hn, hbn]; exact hc.nextHandle
  sends := fun sd hsd => by
    rw [hbs] at hsd
    obtain ⟨i, c, hg, a1, a2, a3, a4⟩ := hc.sends sd hsd
    obtain ⟨c', hg', b1, b2, b3, b4, _⟩ := fwd i c hg a1
    exact ⟨i, c', hg', b1, by rw [b2]; exact a2, by rw [b3]; exact a3, by rw [b4]; exact a4⟩
  sendsNodup := by rw [hbs]; exact hc.sendsNodup
  pqNotSent := fun r hr => by
    rw [hbs]
    rcases hpq r hr with h | h
    · exact hc.pqNotSent r h
    · exact h
  xNotSent := by rw [hbs]; exact hc.xNotSent
  logSent := by rw [hlog, hbs]; exact hc.logSent
  cancels := by rw [hlog, hbc]; exact hc.cancels
  reads := fun i c' o res hg' hv he => by
    rw [hbr, hbs]
    rcases bwd i c' o res hg' hv he with ⟨c, hg, hv0, hid⟩ | h
    · have := hc.reads i c o res hg hv0 he
      rw [hid] at this; exact this
    · exact h
  used := fun id hid => by
    rcases hused id hid with h | h
    · obtain ⟨i, c, hg, a1, a2⟩ := hc.used id h
      obtain ⟨c', hg', _, b2, _, _, b5⟩ := fwd i c hg (Or.inr (Or.inl a1))
      exact ⟨i, c', hg', b5 a1, by rw [b2]; exact a2⟩
    · exact h

/-- what an update of call `cid` must respect for the book not to notice -/
structure Keep0 (c c' : CallV) : Prop where
  body : c'.body = c.body
  ctx : c'.ctx = c.ctx
  outcome : c'.outcome = c.outcome
  dropped : c.phase = .dropped → c'.phase = .dropped
  enq : c.enq → c'.enq ∧ c'.id = c.id ∧ c'.trace = c.trace ∧ (c.phase = .resolved → c'.phase = .resolved)

structure Keep (c c' : CallV) : Prop where
  body : c'.body = c.body
  ctx : c'.ctx = c.ctx
  outcome : c'.outcome = c.outcome
  dropped : c.phase = .dropped → c'.phase = .dropped
  enq : c.enq → c'.enq ∧ c'.id = c.id ∧ c'.trace = c.trace ∧ (c.phase = .resolved → c'.phase = .resolved)
  val : ∀ o res, c'.val = some o → expectedRes o = some res → c.val = some o ∧ c.id = c'.id

theorem Keep.toKeep0 {c c' : CallV} (h : Keep c c') : Keep0 c c' := ⟨h.body, h.ctx, h.outcome, h.dropped, h.enq⟩

/-- the general form: the book may change its record of the calls (`hcalls`) and the monitor its `used` list -/
theorem Cpl.upd_gen {x y : Option Nat} {v : View} {b b' : Book} {used used' : List Nat} (hc : Cpl x v b used) (hi : Inv y v)
    (cid : Nat) (g : CallV → CallV)
    (hk : ∀ c, v.get cid = some c → (g c).body = c.body ∧ (g c).ctx = c.ctx ∧
      (c.enq → (g c).enq ∧ (g c).id = c.id ∧ (g c).trace = c.trace ∧ (c.phase = .resolved → (g c).phase = .resolved)))
    (hcalls : CallsRel b'.calls (v.upd cid g).calls)
    (hbh : b'.handles = b.handles) (hbn : b'.nextHandle = b.nextHandle)
    (hbs : b'.sends = b.sends) (hbr : b'.reads = b.reads) (hbc : b'.cancels = b.cancels)
    (hused : ∀ id ∈ used', id ∈ used ∨ ∃ i c', (v.upd cid g).get i = some c' ∧ c'.phase = .resolved ∧ c'.id = id)
    (hval : ∀ c, v.get cid = some c → ∀ o res, (g c).val = some o → expectedRes o = some res →
      (c.val = some o ∧ c.id = (g c).id) ∨
      ((∃ rd ∈ b.reads, rd.id = (g c).id ∧ rd.res = res ∧ rd.sentBefore = true) ∧ ∃ sd ∈ b.sends, sd.id = (g c).id)) :
    Cpl x (v.upd cid g) b' used' := by
  refine hc.call_step hcalls ?_ ?_ rfl rfl hbh hbn hbs hbr hbc (fun r hr => Or.inl hr) rfl ?_ ?_ hused
  · have : (v.upd cid g).calls.map (·.body) = v.calls.map (·.body) := ?_
    · rw [this]; exact hc.bodies
    simp only [View.upd, List.map_map]
    apply List.map_congr_left
    intro c hmem
    by_cases e : c.cid = cid
    · have hg := hi.get_of_mem hmem
      rw [e] at hg
      simp [e, (hk c hg).1]
    · simp [e]
  · intro c' hc'
    simp only [View.upd, List.mem_map] at hc'
    obtain ⟨c, hmem, rfl⟩ := hc'
    by_cases e : c.cid = cid
    · have hg := hi.get_of_mem hmem
      rw [e] at hg
      simp only [e, beq_self_eq_true, ↓reduceIte, (hk c hg).2.1]
      exact hc.spans c hmem
    · simp only [e, beq_iff_eq, ↓reduceIte]; exact hc.spans c hmem
  · intro i c hg he
    by_cases e : i = cid
    · subst e
      have k := (hk c hg).2.2 he
      refine ⟨{ g c with cid := c.cid }, by rw [View.get_upd_self, hg]; rfl, ?_, k.2.1, (hk c hg).1, k.2.2.1, k.2.2.2⟩
      have := k.1
      simpa [CallV.enq] using this
    · exact ⟨c, by rw [View.get_upd_ne _ _ _ e]; exact hg, he, rfl, rfl, rfl, id⟩
  · intro i c' o res hg' hv he
    by_cases e : i = cid
    · subst e
      rw [View.get_upd_self] at hg'
      cases hg : v.get i with
      | none => rw [hg] at hg'; cases hg'
      | some c =>
        rw [hg] at hg'
        simp only [Option.map_some, Option.some.injEq] at hg'
        subst hg'
        rcases hval c hg o res hv he with h | h
        · exact Or.inl ⟨c, rfl, h.1, h.2⟩
        · exact Or.inr h
    · rw [View.get_upd_ne _ _ _ e] at hg'
      exact Or.inl ⟨c', hg', hv, rfl⟩

theorem Cpl.upd' {x y : Option Nat} {v : View} {b : Book} {used : List Nat} (hc : Cpl x v b used) (hi : Inv y v)
    (cid : Nat) (g : CallV → CallV) (hk : ∀ c, v.get cid = some c → Keep0 c (g c))
    (hval : ∀ c, v.get cid = some c → ∀ o res, (g c).val = some o → expectedRes o = some res →
      (c.val = some o ∧ c.id = (g c).id) ∨
      ((∃ rd ∈ b.reads, rd.id = (g c).id ∧ rd.res = res ∧ rd.sentBefore = true) ∧ ∃ sd ∈ b.sends, sd.id = (g c).id)) :
    Cpl x (v.upd cid g) b used := by
  refine hc.upd_gen hi cid g (fun c h => ⟨(hk c h).body, (hk c h).ctx, (hk c h).enq⟩) ?_ rfl rfl rfl rfl rfl (fun _ h => Or.inl h) hval
  have := hc.calls.map₂' id (fun c => if c.cid == cid then { g c with cid := c.cid } else c) ?_
  · simpa [View.upd] using this
  · intro bc c hmem hr
    by_cases e : c.cid = cid
    · have hg := hi.get_of_mem hmem
      rw [e] at hg
      have k := hk c hg
      simp only [e, beq_self_eq_true, ↓reduceIte, id]
      exact ⟨by rw [hr.cid, e], by rw [hr.body, k.body], by rw [hr.trace, k.ctx], by rw [hr.resolved, k.outcome],
        fun h => k.dropped (hr.dropped h)⟩
    · simpa [e] using hr

theorem Cpl.upd {x y : Option Nat} {v : View} {b : Book} {used : List Nat} (hc : Cpl x v b used) (hi : Inv y v)
    (cid : Nat) (g : CallV → CallV) (hk : ∀ c, v.get cid = some c → Keep c (g c)) :
    Cpl x (v.upd cid g) b used :=
  hc.upd' hi cid g (fun c h => (hk c h).toKeep0) (fun c h o res hv he => Or.inl ((hk c h).val o res hv he))

/-! ### `J` is closed under the transitions: the ones the monitors do not judge -/

theorem monOf_spun (m0 : Mon C01St) (l : List Obs) (h : l.any isStop = true) : (monOf m0 l).book.spun = true := by
  induction l with
  | nil => simp at h
  | cons o l ih =>
    rw [monOf_cons, Mon.step_book, Book.spun_step]
    simp only [List.any_cons, Bool.or_eq_true] at h
    rcases h with h | h
    · rw [h]; simp
    · rw [ih h]; rfl

theorem chk_stop (b : Book) (used : C01St) (o : Obs) (h : isStop o = true) : chk b used (.obs o) = (used, none) := by
  cases o <;> first | rfl | simp [isStop] at h

theorem J.stop {m0 x v} (o : Obs) (h : J m0 x v) (ho : isStop o = true) : J m0 x { v with rel := o :: v.rel } :=
  h.push o (h.inv.of_rel _) rfl (fun hp => Or.inl hp) (fun b used _ _ _ => by
    rw [chk_stop b used o ho]
    exact ⟨rfl, Or.inl (by rw [Book.spun_step, ho]; simp)⟩)

theorem J.panic {m0 x v} (t : TaskId) (site : String) (h : J m0 x v) :
    J m0 x { v with poisoned := true, rel := .panic t site :: v.rel } :=
  h.push (.panic t site) (h.inv.poison.of_rel _) rfl (fun _ => Or.inr rfl) (fun b used _ _ _ =>
    ⟨rfl, Or.inl (by rw [Book.spun_step]; simp [isStop])⟩)

theorem J.poison {m0 x v} (h : J m0 x v) (hs : v.rel.any isStop = true ∨ v.poisoned = true) :
    J m0 x { v with poisoned := true } := by
  have hsp : (monOf m0 v.rel).book.spun = true := by
    rcases hs with hs | hs
    · exact monOf_spun _ _ hs
    · exact h.pois hs
  exact ⟨h.inv.poison, h.ok, fun _ => hsp, Or.inl hsp⟩

theorem J.trunc {m0 x y v0 v} (t : TaskId) (h0 : J m0 x v0) (h : J m0 y v) :
    J m0 y { v with rel := .spin t :: v0.rel, poisoned := true } := by
  have hsp : (monOf m0 (.spin t :: v0.rel)).book.spun = true := monOf_spun _ _ (by simp [isStop])
  refine ⟨(h.inv.of_rel (.spin t :: v0.rel)).poison, ?_, fun _ => hsp, Or.inl hsp⟩
  show (monOf m0 (.spin t :: v0.rel)).bad = none
  rw [monOf_cons]
  refine Mon.step_bad_none.mpr ⟨h0.ok, ?_⟩
  unfold Mon.res
  split
  · rfl
  · rfl

theorem J.pqPop {m0 x v r rest} (h : J m0 x v) (hpq : v.pq = r :: rest) : J m0 x { v with pq := rest } :=
  h.same (h.inv.pqPop hpq).1 rfl (fun hp => hp) (fun _ _ hc =>
    { hc with pqNotSent := fun r' hr' => hc.pqNotSent r' (by rw [hpq]; exact List.mem_cons_of_mem _ hr') })

theorem J.cqPop {m0 x v i rest} (h : J m0 x v) (hcq : v.cq = i :: rest) : J m0 x { v with cq := rest } :=
  h.same (h.inv.cqPop hcq).1 rfl (fun hp => hp) (fun _ _ hc => { hc with })

theorem J.infRemove {m0 x v} (id : Nat) (h : J m0 x v) : J m0 x { v with inflight := v.inflight.filter (·.id != id) } :=
  h.same (h.inv.infRemove id) rfl (fun hp => hp) (fun _ _ hc => { hc with })

theorem J.drop_x {m0 v id} (h : J m0 (some id) v) (hx : v.poisoned = true ∨ ∀ e ∈ v.inflight, e.id ≠ id) : J m0 none v :=
  h.same (h.inv.drop_x hx) rfl (fun hp => hp) (fun _ _ hc => { hc with xNotSent := fun _ h => by cases h })

theorem J.infRearm {m0 x v} (id key t due : Nat) (h : J m0 x v) :
    J m0 x { v with inflight := v.inflight.map (rearmEntry id key t due) } :=
  h.same (Inv.presD.infRearm id key t due h.inv) rfl (fun hp => hp) (fun _ _ hc => { hc with })

theorem J.popInsert {m0 v r rest} (key rem due : Nat) (h : J m0 none v) (hpq : v.pq = r :: rest)
    (hnc : ∃ c, v.get r.cid = some c ∧ c.rxClosed = false) :
    J m0 (some r.id) { v with pq := rest, inflight := v.inflight ++ [{ id := r.id, cid := r.cid, ctx := r.ctx, timerKey := key, remainder := rem, dueAt := due }] } :=
  h.same (Inv.presD.popInsert key rem due h.inv hpq hnc) rfl (fun hp => hp) (fun _ _ hc =>
    { hc with
      pqNotSent := fun r' hr' => hc.pqNotSent r' (by rw [hpq]; exact List.mem_cons_of_mem _ hr')
      xNotSent := fun id hid => by
        injection hid with hid; subst hid
        exact hc.pqNotSent r (by rw [hpq]; exact List.mem_cons_self) })

theorem J.infClear {m0 x v} (h : J m0 x v) : J m0 x { v with inflight := [] } :=
  h.same h.inv.infClear rfl (fun hp => hp) (fun _ _ hc => { hc with })

theorem J.pqClear {m0 x v} (h : J m0 x v) : J m0 x { v with pq := [] } :=
  h.same h.inv.pqClear rfl (fun hp => hp) (fun _ _ hc => { hc with pqNotSent := fun _ h => by cases h })

theorem J.cqClear {m0 x v} (h : J m0 x v) : J m0 x { v with cq := [] } :=
  h.same h.inv.cqClear rfl (fun hp => hp) (fun _ _ hc => { hc with })

theorem J.cqPush {m0 x v cid c} (h : J m0 x v) (hc : v.get cid = some c) (hp : c.polled) (hr : c.rxClosed = true) :
    J m0 x { v with cq := v.cq ++ [c.id] } :=
  h.same (h.inv.cqPush hc hp hr) rfl (fun hp => hp) (fun _ _ hc => { hc with })

theorem okLike_of_expectedRes {o : Outcome} {res : Res} (h : expectedRes o = some res) : okLike (some o) = true := by
  cases o <;> simp_all [expectedRes, okLike]

theorem J.guardClose {m0 x v cid c} (h : J m0 x v) (hc : v.get cid = some c)
    (hph : c.phase = .reserving ∨ c.phase = .awaiting) : J m0 x (v.upd cid (fun c => { c with rxClosed := true })) :=
  h.same (h.inv.guardClose hc hph) rfl (fun hp => hp) (fun _ _ hcp => hcp.upd h.inv cid _ (fun c' hc' => by
    refine ⟨rfl, rfl, rfl, fun h => h, fun he => ⟨?_, rfl, rfl, fun h => h⟩, fun o res hv _ => ⟨hv, rfl⟩⟩
    simp only [CallV.enq] at he ⊢; grind))

theorem J.dropGuarded {m0 x v cid c} (h : J m0 x v) (hc : v.get cid = some c)
    (hph : c.phase = .reserving ∨ c.phase = .awaiting) (hrx : c.rxClosed = true) :
    J m0 x (v.upd cid (fun c => { c with phase := .dropped })) :=
  h.same (h.inv.dropGuarded hc hph hrx) rfl (fun hp => hp) (fun _ _ hcp => hcp.upd h.inv cid _ (fun c' hc' => by
    rw [hc] at hc'; injection hc' with hc'; subst hc'
    refine ⟨rfl, rfl, rfl, fun _ => rfl, fun he => ⟨Or.inr (Or.inr ⟨rfl, hrx⟩), rfl, rfl, fun h => ?_⟩, fun o res hv _ => ⟨hv, rfl⟩⟩
    grind))

theorem J.dropNP {m0 x v cid c} (h : J m0 x v) (hc : v.get cid = some c) (hph : c.phase = .notPolled) :
    J m0 x (v.upd cid (fun c => { c with phase := .dropped })) :=
  h.same (h.inv.dropNP hc hph) rfl (fun hp => hp) (fun _ _ hcp => hcp.upd h.inv cid _ (fun c' hc' => by
    rw [hc] at hc'; injection hc' with hc'; subst hc'
    refine ⟨rfl, rfl, rfl, fun _ => rfl, fun he => ?_, fun o res hv _ => ⟨hv, rfl⟩⟩
    simp only [CallV.enq] at he; grind))

theorem J.assign {m0 x v cid c} (h : J m0 x v) (hc : v.get cid = some c) (hph : c.phase = .notPolled) :
    J m0 x (v.assign cid { c.ctx.trace with span := .fresh v.nextFresh }) :=
  h.same (h.inv.assign hc hph _ rfl) rfl (fun hp => hp) (fun b used hcp => by
    have := hcp.upd h.inv cid (fun c' => { c' with id := v.nextId, trace := { c.ctx.trace with span := .fresh v.nextFresh }, phase := .reserving })
      (fun c' hc' => by
        rw [hc] at hc'; injection hc' with hc'; subst hc'
        refine ⟨rfl, rfl, rfl, fun h => (by rw [hph] at h; cases h), fun he => ?_, fun o res hv _ => ?_⟩
        · simp only [CallV.enq] at he; grind
        · have := h.inv.early cid c hc (Or.inl hph)
          simp only at hv; rw [this] at hv; cases hv)
    exact { this with })

theorem J.enqueue {m0 x v cid c} (h : J m0 x v) (hc : v.get cid = some c) (hph : c.phase = .reserving) :
    J m0 x { v.upd cid (fun c => { c with phase := .awaiting }) with pq := v.pq ++ [{ cid := cid, id := c.id, ctx := { deadline := c.ctx.deadline, trace := c.trace }, body := c.body }] } :=
  h.same (h.inv.enqueue hc hph) rfl (fun hp => hp) (fun b used hcp => by
    have h1 := hcp.upd h.inv cid (fun c' => { c' with phase := .awaiting })
      (fun c' hc' => by
        rw [hc] at hc'; injection hc' with hc'; subst hc'
        refine ⟨rfl, rfl, rfl, fun h => (by rw [hph] at h; cases h), fun he => ?_, fun o res hv _ => ⟨hv, rfl⟩⟩
        simp only [CallV.enq] at he; grind)
    exact { h1 with
      pqNotSent := fun r hr sd hsd => by
        simp only [List.mem_append, List.mem_singleton] at hr
        rcases hr with hr | rfl
        · exact hcp.pqNotSent r hr sd hsd
        · intro e
          obtain ⟨i, c2, hg2, en2, id2, _⟩ := hcp.sends sd hsd
          have hpol : c.polled := Or.inl hph
          have : i = cid := h.inv.idInj i cid c2 c hg2 hc en2.polled hpol (by simp only at e; omega)
          subst this
          rw [hc] at hg2; injection hg2 with hg2; subst hg2
          simp only [CallV.enq] at en2; grind })

theorem J.send {m0 x v} (cid : Nat) (o : Outcome) (h : J m0 x v) (h1 : ∀ r ∈ v.pq, r.cid ≠ cid)
    (h2 : ∀ e ∈ v.inflight, e.cid ≠ cid) (h3 : ∀ c, v.get cid = some c → c.enq) (h4 : okLike (some o) = false) :
    J m0 x (v.send cid o) :=
  h.same (Inv.presD.send cid o h.inv h1 h2 h3 h4) (by simp) (fun hp => by simpa using hp) (fun b used hcp => by
    unfold View.send
    split
    · exact hcp
    · split
      · exact hcp
      · exact hcp.upd h.inv cid _ (fun c' hc' => by
          refine ⟨rfl, rfl, rfl, fun h => h, fun he => ⟨he, rfl, rfl, fun h => h⟩, fun o' res hv he => ?_⟩
          simp only [Option.some.injEq] at hv
          subst hv
          rw [okLike_of_expectedRes he] at h4; cases h4))

/-! ### lookups in the book -/

theorem nodup_map_unique {α β} {f : α → β} {l : List α} (h : (l.map f).Nodup) {a b : α} (ha : a ∈ l) (hb : b ∈ l)
    (e : f a = f b) : a = b := by
  induction l with
  | nil => cases ha
  | cons c l ih =>
    simp only [List.map_cons, List.nodup_cons] at h
    rcases List.mem_cons.mp ha with rfl | ha' <;> rcases List.mem_cons.mp hb with rfl | hb'
    · rfl
    · exact absurd (e ▸ List.mem_map_of_mem hb') h.1
    · exact absurd (e ▸ List.mem_map_of_mem ha') h.1
    · exact ih h.2 ha' hb'

theorem Cpl.sendOfId {x v b used} (hc : Cpl x v b used) {sd : BSend} (hsd : sd ∈ b.sends) :
    b.sendOfId sd.id = some sd := by
  unfold Book.sendOfId
  cases hf : b.sends.find? (·.id == sd.id) with
  | none =>
    have := List.find?_eq_none.mp hf sd hsd
    simp at this
  | some sd' =>
    have h1 := List.mem_of_find?_eq_some hf
    have h2 : sd'.id = sd.id := by simpa using List.find?_some hf
    rw [nodup_map_unique hc.sendsNodup h1 hsd h2]

theorem Cpl.sendOfId_none {x v b used} (_hc : Cpl x v b used) {id : Nat} (h : b.sendOfId id = none) :
    ∀ sd ∈ b.sends, sd.id ≠ id := by
  intro sd hsd
  have := List.find?_eq_none.mp h sd hsd
  simpa using this

/-- the call the book finds for the body of a model call is that call's record -/
theorem Cpl.callOfBody {x v b used} (hc : Cpl x v b used) {c : CallV} (hmem : c ∈ v.calls) {ci : BCall}
    (h : b.callOfBody c.body = some ci) : RC ci c := by
  unfold Book.callOfBody at h
  obtain ⟨c4, hm4, hr⟩ := hc.calls.find_body h
  have hb : ci.body = c.body := by simpa using List.find?_some h
  have : c4 = c := nodup_map_unique hc.bodies hm4 hmem (by rw [← hr.body, hb])
  rw [← this]; exact hr

/-- a request written for the body of a model call carries that call's id -/
theorem Cpl.sendOfBody {x v b used} (hc : Cpl x v b used) (_hi : Inv x v) {c : CallV} (hmem : c ∈ v.calls) {sd : BSend}
    (h : b.sendOfBody c.body = some sd) : sd.id = c.id ∧ sd ∈ b.sends := by
  unfold Book.sendOfBody at h
  have hsd := List.mem_of_find?_eq_some h
  have hb : sd.body = c.body := by simpa using List.find?_some h
  obtain ⟨i, c5, hg5, _, id5, b5, _⟩ := hc.sends sd hsd
  have : c5 = c := nodup_map_unique hc.bodies (View.get_mem hg5) hmem (by rw [← b5, hb])
  subst this
  exact ⟨id5.symm, hsd⟩

theorem Cpl.sendOfBody_some {x v b used} (hc : Cpl x v b used) (hi : Inv x v) {i : Nat} {c : CallV}
    (hg : v.get i = some c) (hp : c.polled) {sd : BSend} (hsd : sd ∈ b.sends) (hid : sd.id = c.id) :
    ∃ sd', b.sendOfBody c.body = some sd' := by
  obtain ⟨j, c6, hg6, en6, id6, b6, _⟩ := hc.sends sd hsd
  have : j = i := hi.idInj j i c6 c hg6 hg en6.polled hp (by omega)
  subst this
  rw [hg] at hg6; injection hg6 with hg6; subst hg6
  unfold Book.sendOfBody
  cases hf : b.sends.find? (·.body == c.body) with
  | some sd' => exact ⟨sd', rfl⟩
  | none =>
    have := List.find?_eq_none.mp hf sd hsd
    simp [b6] at this

theorem J.readMiss {m0 v} (t : TaskId) (id : Nat) (res : Res) (h : J m0 none v) (_hm : ∀ e ∈ v.inflight, e.id ≠ id) :
    J m0 none { v with rel := .tNext t (.item (.response id res)) :: v.rel } :=
  h.push _ (h.inv.of_rel _) rfl (fun hp => Or.inl hp) (fun b used _ _ hc =>
    ⟨rfl, Or.inr { hc with
      reads := fun i c o r hg hv he => by
        obtain ⟨⟨rd, hrd, a⟩, sd⟩ := hc.reads i c o r hg hv he
        exact ⟨⟨rd, List.mem_append_left _ hrd, a⟩, sd⟩ }⟩)

/-! ### the judged transitions: `Cancel` -/

theorem chk_cancel {b : Book} {used : C01St} {t : TaskId} {id : Nat} {tr : Trace} {ok : Bool} {sd : BSend}
    (hso : b.sendOfId id = some sd) (htr : sd.trace = tr) (hok : sd.ok = true)
    (hcan : b.cancels.any (·.1 == id) = false)
    (hres : ∀ ci, b.callOfBody sd.body = some ci → okLike ci.resolved = false) :
    chk b used (.obs (.tSend t (.cancel id tr) ok)) = (used, none) := by
  have h18 : checkC18 b () (.obs (.tSend t (.cancel id tr) ok)) = ((), none) := by
    simp [checkC18, hso, htr]
  have h03 : checkC03ab b () (.obs (.tSend t (.cancel id tr) ok)) = ((), none) := by
    simp only [checkC03ab, checkC03, hso, hok, hcan]
    cases hcb : b.callOfBody sd.body with
    | none => simp
    | some ci =>
      have := hres ci hcb
      cases hr : ci.resolved with
      | none => simp [hr]
      | some o => rw [hr] at this; cases o <;> simp_all [okLike]
  simp [chk, checkC01, h18, h03, Option.orElse]

theorem J.sendCancel {m0 v e} (t : TaskId) (ok : Bool) (h : J m0 none v) (hco : CanOk v e) :
    J m0 none { v with sentLog := if ok then v.sentLog ++ [Msg.cancel e.id e.ctx.trace] else v.sentLog, rel := .tSend t (Msg.cancel e.id e.ctx.trace) ok :: v.rel } := by
  refine h.push _ (Inv.presD.sendCancel t ok h.inv hco) rfl (fun hp => Or.inl hp) ?_
  intro b used _ hnp hc
  obtain ⟨sd, hsd, hid, hok⟩ := hc.logSent e.id (hco.sent hnp)
  have hso : b.sendOfId e.id = some sd := hid ▸ hc.sendOfId hsd
  obtain ⟨j, c3, hg3, p3, id3, tr3, rx3, out3, _⟩ := hco.call
  obtain ⟨i, c2, hg2, en2, id2, b2, tr2⟩ := hc.sends sd hsd
  have hij : i = j := h.inv.idInj i j c2 c3 hg2 hg3 en2.polled p3 (by omega)
  subst hij
  rw [hg3] at hg2; injection hg2 with hg2; subst hg2
  have hchk := chk_cancel (b := b) (used := used) (t := t) (ok := ok) hso (by rw [tr2, ← tr3]) hok
    (by
      rw [Bool.eq_false_iff]
      intro hany
      rw [List.any_eq_true] at hany
      obtain ⟨p, hp, hpe⟩ := hany
      have := hc.cancels p hp
      simp only [beq_iff_eq] at hpe
      rw [hpe] at this
      exact hco.notCancelled this)
    (by
      intro ci hci
      rw [b2] at hci
      have := hc.callOfBody (View.get_mem hg3) hci
      rw [this.resolved]; exact out3)
  rw [hchk]
  refine ⟨rfl, Or.inr ?_⟩
  cases ok with
  | true =>
    exact { hc with
      logSent := fun id hid => by
        simp only [↓reduceIte, reqIds_append, reqIds_cancel, List.append_nil] at hid
        exact hc.logSent id hid
      cancels := fun p hp => by
        have hp' : p ∈ b.cancels ++ [(e.id, e.ctx.trace, b.writes)] := hp
        simp only [List.mem_append, List.mem_singleton] at hp'
        simp only [↓reduceIte, cancelIds_append, cancelIds_cancel, List.mem_append, List.mem_singleton]
        rcases hp' with hp' | rfl
        · exact Or.inl (hc.cancels p hp')
        · exact Or.inr rfl }
  | false =>
    exact { hc with }

/-! ### the judged transitions: `Request` -/

theorem chk_request {b : Book} {used : C01St} {t : TaskId} {id dl : Nat} {tr : Trace} {body : Nat} {ok : Bool}
    (hci : ∀ ci, b.callOfBody body = some ci →
      tr.traceId = ci.trace.traceId ∧ tr.sampled = ci.trace.sampled ∧ tr.span ≠ ci.trace.span ∧ ci.dropped = false)
    (hsp : ∀ sd ∈ b.sends, sd.trace.span = tr.span → sd.id = id) :
    chk b used (.obs (.tSend t (.request id dl tr body) ok)) = (used, none) := by
  have hany : b.sends.any (fun s => s.trace.span == tr.span && s.id != id) = false := by
    rw [Bool.eq_false_iff]
    intro h
    rw [List.any_eq_true] at h
    obtain ⟨sd, hsd, hp⟩ := h
    simp only [Bool.and_eq_true, beq_iff_eq, bne_iff_ne, ne_eq] at hp
    exact hp.2 (hsp sd hsd hp.1)
  have h18 : checkC18 b () (.obs (.tSend t (.request id dl tr body) ok)) = ((), none) := by
    simp only [checkC18]
    cases hcb : b.callOfBody body with
    | none => rfl
    | some ci =>
      obtain ⟨a1, a2, a3, _⟩ := hci ci hcb
      simp [a1, a2, a3, hany]
  have h03 : checkC03ab b () (.obs (.tSend t (.request id dl tr body) ok)) = ((), none) := by
    simp only [checkC03ab, checkC03]
    cases hcb : b.callOfBody body with
    | none => rfl
    | some ci =>
      obtain ⟨_, _, _, a4⟩ := hci ci hcb
      simp [a4]
  simp [chk, checkC01, h18, h03, Option.orElse]

theorem Cpl.request_facts {x v b used} (hc : Cpl x v b used) (hi : Inv x v) {e : Entry} (he : e ∈ v.inflight)
    {body : Nat} (hb : ∃ c, v.get e.cid = some c ∧ c.rxClosed = false ∧ body = c.body) :
    (∀ ci, b.callOfBody body = some ci →
      e.ctx.trace.traceId = ci.trace.traceId ∧ e.ctx.trace.sampled = ci.trace.sampled ∧
      e.ctx.trace.span ≠ ci.trace.span ∧ ci.dropped = false) ∧
    (∀ sd ∈ b.sends, sd.trace.span = e.ctx.trace.span → sd.id = e.id) := by
  obtain ⟨c0, hg0, hrx0, hb0⟩ := hb
  obtain ⟨c0', hg0', en0, id0, ctx0, _, _⟩ := hi.inf e he
  rw [hg0] at hg0'; injection hg0' with hg0'; subst hg0'
  have htr0 := hi.tr e.cid c0 hg0 en0.polled
  have hetr : e.ctx.trace = { c0.ctx.trace with span := .fresh c0.id } := by rw [ctx0]; exact htr0
  constructor
  · intro ci hci
    subst hb0
    have hr := hc.callOfBody (View.get_mem hg0) hci
    obtain ⟨n, hn⟩ := hc.spans c0 (View.get_mem hg0)
    refine ⟨by rw [hetr, hr.trace], by rw [hetr, hr.trace], by rw [hetr, hr.trace, hn]; simp, ?_⟩
    cases hd : ci.dropped with
    | false => rfl
    | true =>
      have := hr.dropped hd
      simp only [CallV.enq] at en0
      grind
  · intro sd hsd hspan
    obtain ⟨i, c2, hg2, en2, id2, _, tr2⟩ := hc.sends sd hsd
    have htr2 := hi.tr i c2 hg2 en2.polled
    rw [tr2, htr2, hetr] at hspan
    simp only [Span.fresh.injEq] at hspan
    omega

/-- the book after a `Request` write -/
theorem Cpl.afterRequest {x v b used} (hc : Cpl (some x) v b used) (hi : Inv (some x) v) {e : Entry} (he : e ∈ v.inflight)
    (hid : e.id = x) {body : Nat} (hb : ∃ c, v.get e.cid = some c ∧ c.rxClosed = false ∧ body = c.body) (ok : Bool)
    (at_ time : Nat) (log : List Msg)
    (hlog : ∀ id ∈ reqIds log, id ∈ reqIds v.sentLog ∨ (id = x ∧ ok = true))
    (hcan : cancelIds log = cancelIds v.sentLog) :
    Cpl none { v with sentLog := log }
      { b with sends := b.sends ++ [{ id := x, body := body, deadline := e.ctx.deadline, trace := e.ctx.trace, ok := ok, at_ := at_, time := time }] }
      used := by
  obtain ⟨c0, hg0, hrx0, hb0⟩ := hb
  obtain ⟨c0', hg0', en0, id0, ctx0, _, _⟩ := hi.inf e he
  rw [hg0] at hg0'; injection hg0' with hg0'; subst hg0'
  exact { hc with
    sends := fun sd hsd => by
      simp only [List.mem_append, List.mem_singleton] at hsd
      rcases hsd with hsd | rfl
      · exact hc.sends sd hsd
      · exact ⟨e.cid, c0, hg0, en0, by rw [id0, hid], hb0, by rw [ctx0]⟩
    sendsNodup := by
      simp only [List.map_append, List.map_cons, List.map_nil]
      refine List.nodup_append.mpr ⟨hc.sendsNodup, by simp, ?_⟩
      intro a ha b' hb'
      simp only [List.mem_map] at ha
      obtain ⟨sd, hsd, rfl⟩ := ha
      simp only [List.mem_singleton] at hb'
      rw [hb']
      exact hc.xNotSent x rfl sd hsd
    pqNotSent := fun r hr sd hsd => by
      simp only [List.mem_append, List.mem_singleton] at hsd
      rcases hsd with hsd | rfl
      · exact hc.pqNotSent r hr sd hsd
      · intro h; exact hi.disj r hr e he (by simp only at h; omega)
    xNotSent := fun _ h => by cases h
    logSent := fun id hid' => by
      rcases hlog id hid' with h | ⟨h1, h2⟩
      · obtain ⟨sd, hsd, a⟩ := hc.logSent id h
        exact ⟨sd, List.mem_append_left _ hsd, a⟩
      · exact ⟨_, List.mem_append_right _ (List.mem_singleton.mpr rfl), h1.symm, h2⟩
    cancels := fun p hp => by rw [hcan]; exact hc.cancels p hp
    reads := fun i c o r hg hv he' => by
      obtain ⟨rd, sd, hsd, a⟩ := hc.reads i c o r hg hv he'
      exact ⟨rd, sd, List.mem_append_left _ hsd, a⟩ }

theorem J.sendReqOk {m0 v id e} (t : TaskId) (body : Nat) (h : J m0 (some id) v) (hp : v.poisoned = false)
    (he : e ∈ v.inflight) (hid : e.id = id) (hb : ∃ c, v.get e.cid = some c ∧ c.rxClosed = false ∧ body = c.body) :
    J m0 none { v with sentLog := v.sentLog ++ [Msg.request id e.ctx.deadline e.ctx.trace body], rel := .tSend t (Msg.request id e.ctx.deadline e.ctx.trace body) true :: v.rel } := by
  refine h.push _ (Inv.presD.sendReqOk t body h.inv hp he hid hb) rfl (fun hp => Or.inl hp) ?_
  intro b used _ _ hc
  obtain ⟨f1, f2⟩ := hc.request_facts h.inv he hb
  rw [chk_request f1 (by rw [← hid]; exact f2)]
  refine ⟨rfl, Or.inr ?_⟩
  have := hc.afterRequest h.inv he hid hb true b.writes b.now (v.sentLog ++ [Msg.request id e.ctx.deadline e.ctx.trace body])
    (by
      intro id' hid'
      simp only [reqIds_append, reqIds_request, List.mem_append, List.mem_singleton] at hid'
      rcases hid' with h | h
      · exact Or.inl h
      · exact Or.inr ⟨h, rfl⟩)
    (by simp)
  exact { this with }

theorem Cpl.send {x y v b used} (hc : Cpl x v b used) (hi : Inv y v) (cid : Nat) (o : Outcome)
    (ho : okLike (some o) = false) : Cpl x (v.send cid o) b used := by
  unfold View.send
  split
  · exact hc
  · split
    · exact hc
    · exact hc.upd hi cid _ (fun c' _ => by
        refine ⟨rfl, rfl, rfl, fun h => h, fun he => ⟨he, rfl, rfl, fun h => h⟩, fun o' res hv he => ?_⟩
        simp only [Option.some.injEq] at hv
        subst hv
        rw [okLike_of_expectedRes he] at ho; cases ho)

theorem View.send_with (w : View) (p : Bool) (l : List Obs) (cid : Nat) (o : Outcome) :
    View.send { w with poisoned := p, rel := l } cid o = { View.send w cid o with poisoned := p, rel := l } := by
  unfold View.send
  show (match w.get cid with | none => _ | some c => _) = _
  cases w.get cid with
  | none => rfl
  | some c => simp only; split <;> rfl

theorem J.sendReqFail {m0 v id e} (t : TaskId) (body : Nat) (pn : Bool) (t' : TaskId) (site : String)
    (h : J m0 (some id) v) (hp : v.poisoned = false) (he : e ∈ v.inflight) (hid : e.id = id)
    (hb : ∃ c, v.get e.cid = some c ∧ c.rxClosed = false ∧ body = c.body) :
    J m0 none (View.send { v with inflight := v.inflight.filter (·.id != id), poisoned := v.poisoned || pn, rel := stopObs pn t' site ++ .tSend t (Msg.request id e.ctx.deadline e.ctx.trace body) false :: v.rel } e.cid .send) := by
  -- the failed write and the completion of the entry
  have step1 : J m0 none (View.send { v with inflight := v.inflight.filter (·.id != id), rel := .tSend t (Msg.request id e.ctx.deadline e.ctx.trace body) false :: v.rel } e.cid .send) := by
    have hinv := Inv.presD.sendReqFail t body false t' site h.inv hp he hid hb
    simp only [stopObs, Bool.or_false, Bool.false_eq_true, ↓reduceIte, List.nil_append] at hinv
    refine h.push (.tSend t (Msg.request id e.ctx.deadline e.ctx.trace body) false) hinv (by simp) (fun hp' => Or.inl (by simpa using hp')) ?_
    intro b used _ _ hc
    obtain ⟨f1, f2⟩ := hc.request_facts h.inv he hb
    rw [chk_request f1 (by rw [← hid]; exact f2)]
    refine ⟨rfl, Or.inr ?_⟩
    have h1 := hc.afterRequest h.inv he hid hb false b.writes b.now v.sentLog (fun _ h => Or.inl h) rfl
    have h2 : Cpl none { v with inflight := v.inflight.filter (·.id != id), rel := .tSend t (Msg.request id e.ctx.deadline e.ctx.trace body) false :: v.rel }
        (b.step (.obs (.tSend t (Msg.request id e.ctx.deadline e.ctx.trace body) false))) used := { h1 with }
    exact h2.send ((h.inv.infRemove id).of_rel _) e.cid .send rfl
  cases pn with
  | false => simpa [stopObs] using step1
  | true =>
    have := step1.panic t' site
    rw [← View.send_with] at this
    simpa [stopObs] using this

/-! ### the judged transitions: a `Response` for a tracked request -/

theorem expectedRes_outcomeOf (res : Res) : expectedRes (outcomeOf res) = some res := by
  cases res <;> rfl

theorem J.readHit {m0 v e} (t : TaskId) (res : Res) (pn : Bool) (t' : TaskId) (site : String)
    (h : J m0 none v) (he : e ∈ v.inflight) :
    J m0 none (View.send { v with inflight := v.inflight.filter (·.id != e.id), poisoned := v.poisoned || pn, rel := stopObs pn t' site ++ .tNext t (.item (.response e.id res)) :: v.rel } e.cid (outcomeOf res)) := by
  have step1 : J m0 none (View.send { v with inflight := v.inflight.filter (·.id != e.id), rel := .tNext t (.item (.response e.id res)) :: v.rel } e.cid (outcomeOf res)) := by
    have hinv := Inv.presD.readHit t res false t' site h.inv he
    simp only [stopObs, Bool.or_false, Bool.false_eq_true, ↓reduceIte, List.nil_append] at hinv
    refine h.push (.tNext t (.item (.response e.id res))) hinv (by simp) (fun hp' => Or.inl (by simpa using hp')) ?_
    intro b used _ hnp hc
    refine ⟨rfl, Or.inr ?_⟩
    -- the request of `e` was written successfully
    obtain ⟨sd, hsd, hsid, hsok⟩ := hc.logSent e.id (h.inv.infSent hnp e he (by simp))
    obtain ⟨c0, hg0, en0, id0, _, _, _⟩ := h.inv.inf e he
    -- the book after the read
    have hb' : Cpl none v (b.step (.obs (.tNext t (.item (.response e.id res))))) used :=
      { hc with
        reads := fun i c o r hg hv he' => by
          obtain ⟨⟨rd, hrd, a⟩, sd'⟩ := hc.reads i c o r hg hv he'
          exact ⟨⟨rd, List.mem_append_left _ hrd, a⟩, sd'⟩ }
    have hrd : ∃ rd ∈ (b.step (.obs (.tNext t (.item (.response e.id res))))).reads,
        rd.id = e.id ∧ rd.res = res ∧ rd.sentBefore = true := by
      refine ⟨_, List.mem_append_right _ (List.mem_singleton.mpr rfl), rfl, rfl, ?_⟩
      simp only [List.any_eq_true, Bool.and_eq_true, beq_iff_eq]
      exact ⟨sd, hsd, hsid, hsok⟩
    have h2 : Cpl none { v with inflight := v.inflight.filter (·.id != e.id), rel := .tNext t (.item (.response e.id res)) :: v.rel }
        (b.step (.obs (.tNext t (.item (.response e.id res))))) used := { hb' with }
    have hi2 : Inv none { v with inflight := v.inflight.filter (·.id != e.id), rel := .tNext t (.item (.response e.id res)) :: v.rel } :=
      (h.inv.infRemove e.id).of_rel _
    unfold View.send
    split
    · exact h2
    · split
      · exact h2
      · refine h2.upd' hi2 e.cid _ (fun c' _ => ⟨rfl, rfl, rfl, fun h => h, fun he => ⟨he, rfl, rfl, fun h => h⟩⟩) ?_
        intro c' hc' o r hv her
        right
        have hc0 : c' = c0 := by
          have : v.get e.cid = some c' := hc'
          rw [hg0] at this; injection this with this; exact this.symm
        subst hc0
        simp only [Option.some.injEq] at hv
        subst hv
        rw [expectedRes_outcomeOf] at her
        injection her with her
        subst her
        simp only [id0]
        exact ⟨hrd, sd, hsd, hsid⟩
  cases pn with
  | false => simpa [stopObs] using step1
  | true =>
    have := step1.panic t' site
    rw [← View.send_with] at this
    simpa [stopObs] using this

/-! ### the judged transitions: a call resolves -/

theorem Cpl.resolved {x y v b used} (hc : Cpl x v b used) (hi : Inv y v) {cid : Nat} {c : CallV}
    (hg : v.get cid = some c) (hph : c.phase = .reserving ∨ c.phase = .awaiting) (o : Outcome) (now : Nat)
    (g : CallV → CallV)
    (hgd : ∀ c, (g c).body = c.body ∧ (g c).ctx = c.ctx ∧ (g c).id = c.id ∧ (g c).trace = c.trace ∧
      (g c).phase = .resolved ∧ (g c).outcome = some o ∧ ((g c).val = c.val ∨ (g c).val = none))
    (used' : List Nat) (hused : ∀ id ∈ used', id ∈ used ∨ id = c.id) :
    Cpl x (v.upd cid g) (b.step (.obs (.resolved cid o now))) used' := by
  have hcid := View.get_cid hg
  refine hc.upd_gen hi cid g ?_ ?_ rfl rfl rfl rfl rfl ?_ ?_
  · intro c' _
    obtain ⟨a1, a2, a3, a4, a5, _, _⟩ := hgd c'
    exact ⟨a1, a2, fun _ => ⟨Or.inr (Or.inl a5), a3, a4, fun _ => a5⟩⟩
  · have := hc.calls.map₂' (fun x => if x.cid == cid then { x with resolved := some o } else x)
      (fun c => if c.cid == cid then { g c with cid := c.cid } else c) ?_
    · simpa [View.upd, Book.step, Book.updCall] using this
    · intro bc c1 hmem hr
      by_cases e : c1.cid = cid
      · have hg1 := hi.get_of_mem hmem
        rw [e, hg] at hg1; injection hg1 with hg1; subst hg1
        obtain ⟨a1, a2, _, _, _, a6, _⟩ := hgd c
        have eb : bc.cid = cid := by rw [hr.cid, e]
        simp only [e, eb, beq_self_eq_true, ↓reduceIte]
        refine ⟨rfl, by rw [a1]; exact hr.body, by rw [a2]; exact hr.trace, by rw [a6], ?_⟩
        intro hd
        have := hr.dropped hd
        grind
      · have eb : ¬ bc.cid = cid := by rw [hr.cid]; exact e
        simpa [e, eb] using hr
  · intro id hid
    rcases hused id hid with h | h
    · exact Or.inl h
    · right
      obtain ⟨_, _, a3, _, a5, _, _⟩ := hgd c
      exact ⟨cid, { g c with cid := c.cid }, by rw [View.get_upd_self, hg]; rfl, a5, by rw [h]; exact a3⟩
  · intro c' hc' o' res hv _
    rw [hg] at hc'; injection hc' with hc'; subst hc'
    obtain ⟨_, _, a3, _, _, _, a7⟩ := hgd c
    rcases a7 with h | h
    · exact Or.inl ⟨by rw [← h]; exact hv, a3.symm⟩
    · rw [h] at hv; cases hv

theorem J.resolveShut {m0 x v cid c} (now : Nat) (h : J m0 x v) (hc : v.get cid = some c)
    (hph : c.phase = .reserving ∨ c.phase = .awaiting) :
    J m0 x { v.upd cid (fun c => { c with phase := .resolved, outcome := some .shutdown, rxClosed := true }) with rel := .resolved cid .shutdown now :: v.rel } := by
  refine h.push (.resolved cid .shutdown now) ((h.inv.resolveShut hc hph).of_rel _) rfl (fun hp => Or.inl hp) ?_
  intro b used _ _ hcp
  refine ⟨rfl, Or.inr ?_⟩
  have := hcp.resolved h.inv hc hph .shutdown now (fun c => { c with phase := .resolved, outcome := some .shutdown, rxClosed := true })
    (fun c => ⟨rfl, rfl, rfl, rfl, rfl, rfl, Or.inl rfl⟩) used (fun _ h => Or.inl h)
  exact { this with }

theorem chk_resolved_other (b : Book) (used : C01St) (cid : Nat) (o : Outcome) (now : Nat)
    (h : expectedRes o = none) : chk b used (.obs (.resolved cid o now)) = (used, none) := by
  simp [chk, checkC01, checkC18, checkC03ab, checkC03, h, Option.orElse]

theorem chk_resolved_ok {b : Book} {used : C01St} {cid : Nat} {o : Outcome} {now : Nat} {res : Res} {ci : BCall} {sd : BSend}
    (h : expectedRes o = some res) (hci : b.calls.find? (·.cid == cid) = some ci)
    (hsd : b.sendOfBody ci.body = some sd) (hu : used.contains sd.id = false)
    (hrd : b.reads.any (fun r => r.id == sd.id && r.res == res && r.sentBefore) = true) :
    chk b used (.obs (.resolved cid o now)) = (sd.id :: used, none) := by
  have hu' : sd.id ∉ used := by simpa using hu
  simp [chk, checkC01, checkC18, checkC03ab, checkC03, h, hci, hsd, hu', hrd, Option.orElse]

theorem J.resolveVal {m0 x v cid c o} (now : Nat) (h : J m0 x v) (hc : v.get cid = some c)
    (hph : c.phase = .awaiting) (hv : c.val = some o) :
    J m0 x { v.upd cid (fun c => { c with val := none, phase := .resolved, outcome := some o, rxClosed := true }) with rel := .resolved cid o now :: v.rel } := by
  refine h.push (.resolved cid o now) ((h.inv.resolveVal hc hph hv).of_rel _) rfl (fun hp => Or.inl hp) ?_
  intro b used _ _ hcp
  have hpol : c.polled := Or.inr (Or.inl hph)
  cases he : expectedRes o with
  | none =>
    rw [chk_resolved_other b used cid o now he]
    refine ⟨rfl, Or.inr ?_⟩
    have := hcp.resolved h.inv hc (Or.inr hph) o now (fun c => { c with val := none, phase := .resolved, outcome := some o, rxClosed := true })
      (fun c => ⟨rfl, rfl, rfl, rfl, rfl, rfl, Or.inr rfl⟩) used (fun _ h => Or.inl h)
    exact { this with }
  | some res =>
    obtain ⟨⟨rd, hrd, rid, rres, rsb⟩, sd0, hsd0, hsid0⟩ := hcp.reads cid c o res hc hv he
    obtain ⟨ci, hci, hrc⟩ := hcp.calls.find_cid_bwd (k := cid) (c := c) hc
    obtain ⟨sd', hsd'⟩ := hcp.sendOfBody_some h.inv hc hpol hsd0 hsid0
    have hsb := hcp.sendOfBody h.inv (View.get_mem hc) hsd'
    have hu : used.contains sd'.id = false := by
      rw [Bool.eq_false_iff]
      intro hcon
      simp only [List.contains_iff_mem] at hcon
      obtain ⟨i, c2, hg2, ph2, id2⟩ := hcp.used _ hcon
      have : i = cid := h.inv.idInj i cid c2 c hg2 hc (Or.inr (Or.inr (Or.inl ph2))) hpol (by rw [id2, hsb.1])
      subst this
      rw [hc] at hg2; injection hg2 with hg2; subst hg2
      rw [hph] at ph2; cases ph2
    have hchk := chk_resolved_ok (b := b) (used := used) (cid := cid) (o := o) (now := now) he hci
      (by rw [hrc.body]; exact hsd') hu
      (by
        rw [List.any_eq_true]
        exact ⟨rd, hrd, by simp [rid, rres, rsb, hsb.1]⟩)
    rw [hchk]
    refine ⟨rfl, Or.inr ?_⟩
    have := hcp.resolved h.inv hc (Or.inr hph) o now (fun c => { c with val := none, phase := .resolved, outcome := some o, rxClosed := true })
      (fun c => ⟨rfl, rfl, rfl, rfl, rfl, rfl, Or.inr rfl⟩) (sd'.id :: used)
      (fun id hid => by
        simp only [List.mem_cons] at hid
        rcases hid with rfl | hid
        · exact Or.inr hsb.1
        · exact Or.inl hid)
    exact { this with }

/-! ### `J` is an instance of the interface -/

theorem J.presD (m0 : Mon C01St) : PresD (J m0) where
  inv := fun h => h.inv
  stop := fun o h ho => h.stop o ho
  panic := fun t site h => h.panic t site
  poison := fun h hs => h.poison hs
  trunc := fun t h0 h => J.trunc t h0 h
  pqPop := fun h hpq => h.pqPop hpq
  cqPop := fun h hcq => h.cqPop hcq
  infRemove := fun id h => h.infRemove id
  drop_x := fun h hx => h.drop_x hx
  popInsert := fun key rem due h hpq hnc => h.popInsert key rem due hpq hnc
  infRearm := fun id key t due h => h.infRearm id key t due
  sendReqOk := fun t body h hp he hid hb => h.sendReqOk t body hp he hid hb
  sendReqFail := fun t body pn t' site h hp he hid hb => h.sendReqFail t body pn t' site hp he hid hb
  sendCancel := fun t ok h hc => h.sendCancel t ok hc
  send := fun cid o h h1 h2 h3 h4 => h.send cid o h1 h2 h3 h4
  readMiss := fun t id res h hm => h.readMiss t id res hm
  readHit := fun t res pn t' site h he => h.readHit t res pn t' site he
  infClear := fun h => h.infClear
  pqClear := fun h => h.pqClear
  cqClear := fun h => h.cqClear

theorem J.pres (m0 : Mon C01St) : Pres (J m0) where
  toPresD := J.presD m0
  assign := fun h hc hp => h.assign hc hp
  enqueue := fun h hc hp => h.enqueue hc hp
  resolveVal := fun now h hc hp hv => h.resolveVal now hc hp hv
  resolveShut := fun now h hc hp => h.resolveShut now hc hp
  guardClose := fun h hc hp => h.guardClose hc hp
  cqPush := fun h hc hp hr => h.cqPush hc hp hr
  dropGuarded := fun h hc hp hr => h.dropGuarded hc hp hr
  dropNP := fun h hc hp => h.dropNP hc hp

end TarpcModel.Client

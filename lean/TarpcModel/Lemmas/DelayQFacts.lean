import TarpcModel.Prim.DelayQ
/-!
General facts about the `DelayQ` model (`Prim/DelayQ.lean`), independent of its users.

* `items`, `core`, `cores`: the queue's content up to the wheel bookkeeping (`level`, `seq`).
* `KeysOk`: keys are unique and below `nextKey`.
* `Sound q now`: the one-sided wheel invariant that makes "never early" provable, plus the timing
  facts relating the wheel clock to the caller's clock `now` (ns).
* membership / frame / length lemmas for `insert`, `remove`, `pollExpired`.
-/
namespace TarpcModel.DelayQ

def items (q : DelayQ) : List DqEntry := q.entries ++ q.expired

def core (e : DqEntry) : Nat × Nat × Nat := (e.key, e.val, e.whenMs)

def cores (q : DelayQ) : List (Nat × Nat × Nat) := q.items.map core

structure KeysOk (q : DelayQ) : Prop where
  nodup : (q.items.map (·.key)).Nodup
  lt : ∀ e ∈ q.items, e.key < q.nextKey

/-- One-sided wheel invariant (an entry at level `L < 5` lies before the end of the level-`L` block
the wheel clock is in; a level-5 entry is within the wheel's range), the `expired` stack holds only
entries that were already elapsed, and the wheel clocks are not ahead of the caller's clock. -/
structure Sound (q : DelayQ) (now : Nat) : Prop where
  lvl : ∀ e ∈ q.entries, e.level ≤ 5
  blk : ∀ e ∈ q.entries, e.level < 5 → e.whenMs / 64 ^ (e.level + 1) ≤ q.wheelElapsed / 64 ^ (e.level + 1)
  top : ∀ e ∈ q.entries, e.level = 5 → e.whenMs ≤ q.wheelElapsed + delayQMaxMs
  exp : ∀ e ∈ q.expired, e.whenMs ≤ q.wheelElapsed
  el : q.wheelElapsed * nsPerMs ≤ now
  wn : q.wheelNow * nsPerMs ≤ now

theorem WF_empty : KeysOk {} := ⟨by simp [items], by simp [items]⟩
theorem Sound_empty (now : Nat) : Sound {} now := by constructor <;> simp

theorem Sound.mono {q : DelayQ} {now now' : Nat} (h : Sound q now) (hle : now ≤ now') : Sound q now' :=
  ⟨h.lvl, h.blk, h.top, h.exp, Nat.le_trans h.el hle, Nat.le_trans h.wn hle⟩

theorem isEmpty_iff (q : DelayQ) : q.isEmpty = true ↔ q.items = [] := by
  simp [isEmpty, items]

theorem len_eq (q : DelayQ) : q.len = q.items.length := by simp [len, items]

/-! ### helpers: the two elementary moves on the wheel -/

/-- move `e` to level `lvl` (re-pushed last) -/
def bump (q : DelayQ) (e : DqEntry) (lvl : Nat) : DelayQ :=
  { q with entries := (q.entries.filter (·.key != e.key)) ++ [{ e with level := lvl, seq := q.seqCtr }],
           seqCtr := q.seqCtr + 1 }

/-- remove `e` from the wheel -/
def pop (q : DelayQ) (e : DqEntry) : DelayQ := { q with entries := q.entries.filter (·.key != e.key) }

theorem eq_of_key_eq {l : List DqEntry} (h : (l.map (·.key)).Nodup) {a b : DqEntry} (ha : a ∈ l)
    (hb : b ∈ l) (hk : a.key = b.key) : a = b := by
  induction l with
  | nil => cases ha
  | cons x xs ih =>
    simp only [List.map_cons, List.nodup_cons, List.mem_map, not_exists, not_and, List.mem_cons] at h ha hb
    grind

theorem nodup_middle {l x : List DqEntry} {e' : DqEntry} (h : ((l ++ x).map (·.key)).Nodup)
    (hf : ∀ a ∈ l ++ x, a.key ≠ e'.key) : ((l ++ e' :: x).map (·.key)).Nodup := by
  have hp : ((l ++ e' :: x).map (·.key)).Perm ((e' :: (l ++ x)).map (·.key)) :=
    List.Perm.map _ List.perm_middle
  rw [hp.nodup_iff, List.map_cons, List.nodup_cons]
  refine ⟨?_, h⟩
  intro hm
  obtain ⟨a, ha, hk⟩ := List.mem_map.1 hm
  exact hf a ha hk

theorem nodup_bump {l x : List DqEntry} {e e' : DqEntry} (he : e ∈ l) (hk : e'.key = e.key)
    (h : ((l ++ x).map (·.key)).Nodup) :
    (((l.filter (·.key != e.key) ++ [e']) ++ x).map (·.key)).Nodup := by
  simp only [List.map_append, List.nodup_append] at h ⊢
  grind

theorem nodup_pop {l x : List DqEntry} (k : Nat)
    (h : ((l ++ x).map (·.key)).Nodup) :
    (((l.filter (·.key != k)) ++ x.filter (·.key != k)).map (·.key)).Nodup := by
  refine List.Nodup.sublist ?_ h
  exact List.Sublist.map _ (List.Sublist.append List.filter_sublist List.filter_sublist)

theorem length_filter_lt {l : List DqEntry} {k : Nat} {e : DqEntry} (he : e ∈ l) (hk : e.key = k) :
    (l.filter (·.key != k)).length < l.length := by
  rw [List.length_filter_lt_length_iff_exists]
  exact ⟨e, he, by simp [hk]⟩

theorem bump_WF {q : DelayQ} {e : DqEntry} {lvl : Nat} (he : e ∈ q.entries) (hq : KeysOk q) :
    KeysOk (bump q e lvl) := by
  constructor
  · exact nodup_bump he rfl hq.nodup
  · have := hq.lt
    simp only [bump, items, List.mem_append, List.mem_filter] at this ⊢
    grind

theorem bump_cores {q : DelayQ} {e : DqEntry} {lvl : Nat} (he : e ∈ q.entries) (hq : KeysOk q)
    (c : Nat × Nat × Nat) : c ∈ (bump q e lvl).cores ↔ c ∈ q.cores := by
  have := hq.nodup
  simp only [items, List.map_append, List.nodup_append] at this
  simp only [bump, cores, items, List.map_append, List.mem_append, List.mem_map, List.mem_filter,
    List.mem_singleton]
  constructor
  · rintro ((⟨a, ⟨ha, -⟩, rfl⟩ | ⟨a, rfl, rfl⟩) | h)
    · exact .inl ⟨a, ha, rfl⟩
    · exact .inl ⟨e, he, rfl⟩
    · exact .inr h
  · rintro (⟨a, ha, rfl⟩ | h)
    · by_cases hk : a.key = e.key
      · have : a = e := eq_of_key_eq this.1 ha he hk
        subst this
        exact .inl (.inr ⟨_, rfl, rfl⟩)
      · exact .inl (.inl ⟨a, ⟨ha, by simp [hk]⟩, rfl⟩)
    · exact .inr h

theorem bump_len {q : DelayQ} {e : DqEntry} {lvl : Nat} (he : e ∈ q.entries) :
    (bump q e lvl).entries.length ≤ q.entries.length := by
  have := length_filter_lt he rfl
  simp [bump]; omega

theorem pop_WF {q : DelayQ} {e : DqEntry} (hq : KeysOk q) : KeysOk (pop q e) := by
  constructor
  · refine List.Nodup.sublist ?_ hq.nodup
    exact List.Sublist.map _ (List.Sublist.append List.filter_sublist (List.Sublist.refl _))
  · have := hq.lt
    simp only [pop, items, List.mem_append, List.mem_filter] at this ⊢
    grind

theorem pop_cores {q : DelayQ} {e : DqEntry} (he : e ∈ q.entries) (hq : KeysOk q)
    (c : Nat × Nat × Nat) : c ∈ (pop q e).cores ↔ c ∈ q.cores ∧ c.1 ≠ e.key := by
  have := hq.nodup
  simp only [items, List.map_append, List.nodup_append] at this
  simp only [pop, cores, items, List.map_append, List.mem_append, List.mem_map, List.mem_filter]
  constructor
  · rintro (⟨a, ⟨ha, hk⟩, rfl⟩ | ⟨a, ha, rfl⟩)
    · exact ⟨.inl ⟨a, ha, rfl⟩, by simpa [core] using hk⟩
    · refine ⟨.inr ⟨a, ha, rfl⟩, ?_⟩
      simp only [core]
      intro h
      exact this.2.2 _ (List.mem_map.2 ⟨e, he, rfl⟩) _ (List.mem_map.2 ⟨a, ha, rfl⟩) h.symm
  · rintro ⟨⟨a, ha, rfl⟩ | ⟨a, ha, rfl⟩, hk⟩
    · exact .inl ⟨a, ⟨ha, by simpa [core] using hk⟩, rfl⟩
    · exact .inr ⟨a, ha, rfl⟩

theorem pop_len {q : DelayQ} {e : DqEntry} (he : e ∈ q.entries) :
    (pop q e).entries.length < q.entries.length := length_filter_lt he rfl


/-! ### frame relation: content (up to wheel bookkeeping) is unchanged -/

structure Frame (q q' : DelayQ) : Prop where
  expired : q'.expired = q.expired
  nextKey : q'.nextKey = q.nextKey
  len : q'.entries.length ≤ q.entries.length
  wf : KeysOk q → KeysOk q'
  cores : KeysOk q → ∀ c, c ∈ q'.cores ↔ c ∈ q.cores

theorem Frame.of_fields {q q' : DelayQ} (h1 : q'.entries = q.entries) (h2 : q'.expired = q.expired)
    (h3 : q'.nextKey = q.nextKey) : Frame q q' := by
  refine ⟨h2, h3, by simp [h1], ?_, ?_⟩
  · intro h
    exact ⟨by simpa [items, h1, h2] using h.nodup, by simpa [items, h1, h2, h3] using h.lt⟩
  · intro _ c
    simp [DelayQ.cores, items, h1, h2]

theorem Frame.refl (q : DelayQ) : Frame q q := Frame.of_fields rfl rfl rfl

theorem Frame.trans {a b c : DelayQ} (h1 : Frame a b) (h2 : Frame b c) : Frame a c :=
  ⟨h2.expired.trans h1.expired, h2.nextKey.trans h1.nextKey, Nat.le_trans h2.len h1.len,
   fun h => h2.wf (h1.wf h), fun h x => (h2.cores (h1.wf h) x).trans (h1.cores h x)⟩

theorem Frame.of_bump {q : DelayQ} {e : DqEntry} {lvl : Nat} (he : e ∈ q.entries) :
    Frame q (bump q e lvl) :=
  ⟨rfl, rfl, bump_len he, bump_WF he, fun h c => bump_cores he h c⟩

/-! ### `slotTop`, `cascade` -/

theorem slotTop_some_f {q : DelayQ} {l s : Nat} {e : DqEntry} (h : slotTop q l s = some e) :
    e ∈ q.entries ∧ e.level = l ∧ slotFor e.whenMs l = s := by
  unfold slotTop at h
  have key : ∀ (xs : List DqEntry) (acc : Option DqEntry),
      xs.foldl (fun acc e => match acc with
        | none => some e
        | some a => if e.seq > a.seq then some e else some a) acc = some e →
      acc = some e ∨ e ∈ xs := by
    intro xs
    induction xs with
    | nil => intro acc h; exact .inl h
    | cons x xs ih =>
      intro acc h
      simp only [List.foldl_cons] at h
      rcases ih _ h with h' | h'
      · cases acc with
        | none => simp at h'; right; simp [h']
        | some a =>
          simp only at h'
          split at h'
          · simp at h'; right; simp [h']
          · left; exact h'
      · right; simp [h']
  rcases key _ _ h with h' | h'
  · cases h'
  · simpa [List.mem_filter] using h'

theorem cascade_succ (fuel : Nat) (q : DelayQ) (l s : Nat) :
    cascade (fuel + 1) q l s =
      match slotTop q l s with
      | none => q
      | some e => cascade fuel (bump q e (l - 1)) l s := rfl

theorem cascade_frame (l s : Nat) : ∀ (fuel : Nat) (q : DelayQ), Frame q (cascade fuel q l s)
  | 0, q => Frame.refl q
  | fuel + 1, q => by
    rw [cascade_succ]
    split
    · exact Frame.refl q
    · next e he => exact (Frame.of_bump (slotTop_some_f he).1).trans (cascade_frame l s fuel _)

/-- the fields `cascade` does not touch -/
theorem cascade_fields (l s : Nat) : ∀ (fuel : Nat) (q : DelayQ),
    (cascade fuel q l s).wheelElapsed = q.wheelElapsed ∧ (cascade fuel q l s).wheelNow = q.wheelNow ∧
    (cascade fuel q l s).expired = q.expired
  | 0, q => ⟨rfl, rfl, rfl⟩
  | fuel + 1, q => by
    rw [cascade_succ]
    split
    · exact ⟨rfl, rfl, rfl⟩
    · exact cascade_fields l s fuel _

/-- every entry after a cascade is an old one, or an old one of the slot moved one level down -/
theorem cascade_entries (l s : Nat) : ∀ (fuel : Nat) (q : DelayQ), ∀ x ∈ (cascade fuel q l s).entries,
    x ∈ q.entries ∨ (x.level = l - 1 ∧ ∃ e ∈ q.entries, e.level = l ∧ slotFor e.whenMs l = s ∧
      x.whenMs = e.whenMs)
  | 0, q => fun x hx => .inl hx
  | fuel + 1, q => by
    rw [cascade_succ]
    split
    · exact fun x hx => .inl hx
    · next e he =>
      obtain ⟨hm, hl, hs⟩ := slotTop_some_f he
      intro x hx
      have hb : ∀ y ∈ (bump q e (l - 1)).entries, y ∈ q.entries ∨ (y.level = l - 1 ∧ y.whenMs = e.whenMs) := by
        intro y hy
        simp only [bump, List.mem_append, List.mem_filter, List.mem_singleton] at hy
        rcases hy with hy | rfl
        · exact .inl hy.1
        · exact .inr ⟨rfl, rfl⟩
      rcases cascade_entries l s fuel _ x hx with h | ⟨h1, e1, he1, h2, h3, h4⟩
      · rcases hb x h with h | ⟨h1, h2⟩
        · exact .inl h
        · exact .inr ⟨h1, e, hm, hl, hs, h2⟩
      · rcases hb e1 he1 with h | ⟨_, h5⟩
        · exact .inr ⟨h1, e1, h, h2, h3, h4⟩
        · exact .inr ⟨h1, e, hm, hl, hs, by rw [h4, h5]⟩


/-! ### `wheelPoll`, `pollIdx`: frame -/

/-- what a poll does to the content: nothing, or exactly one entry `e` is taken out -/
def PollFrame (q q' : DelayQ) : Option DqEntry → Prop
  | none => Frame q q'
  | some e => ∃ qm, Frame q qm ∧ e ∈ qm.entries ∧ Frame (pop qm e) q'

theorem PollFrame.pre {a q q' : DelayQ} {r : Option DqEntry} (h : Frame a q) (h' : PollFrame q q' r) :
    PollFrame a q' r := by
  cases r with
  | none => exact h.trans h'
  | some e => obtain ⟨qm, h1, h2, h3⟩ := h'; exact ⟨qm, h.trans h1, h2, h3⟩

theorem PollFrame.post {q q' b : DelayQ} {r : Option DqEntry} (h' : PollFrame q q' r) (h : Frame q' b) :
    PollFrame q b r := by
  cases r with
  | none => exact Frame.trans h' h
  | some e => obtain ⟨qm, h1, h2, h3⟩ := h'; exact ⟨qm, h1, h2, h3.trans h⟩

theorem wheelPoll_succ (fuel : Nat) (q : DelayQ) (now : Nat) :
    wheelPoll (fuel + 1) q now =
      match nextExpiration q with
      | none => ({ q with wheelElapsed := max q.wheelElapsed now }, none)
      | some ex =>
          if ex.deadline > now then ({ q with wheelElapsed := max q.wheelElapsed now }, none)
          else if ex.level == 0 then
            match slotTop q 0 ex.slot with
            | some e => (pop q e, some e)
            | none => (q, none)
          else
            wheelPoll fuel { cascade (q.entries.length + 1) q ex.level ex.slot with
              wheelElapsed := max (cascade (q.entries.length + 1) q ex.level ex.slot).wheelElapsed ex.deadline } now :=
  rfl

theorem wheelPoll_frame : ∀ (fuel : Nat) (q : DelayQ) (t : Nat),
    PollFrame q (wheelPoll fuel q t).1 (wheelPoll fuel q t).2
  | 0, q, t => Frame.refl q
  | fuel + 1, q, t => by
    rw [wheelPoll_succ]
    split
    · exact Frame.of_fields rfl rfl rfl
    · next ex hex =>
      split
      · exact Frame.of_fields rfl rfl rfl
      · split
        · split
          · next e he => exact ⟨q, Frame.refl q, (slotTop_some_f he).1, Frame.refl _⟩
          · exact Frame.refl q
        · refine PollFrame.pre ?_ (wheelPoll_frame fuel _ t)
          exact (cascade_frame _ _ _ q).trans (Frame.of_fields rfl rfl rfl)

def PollRes.toOpt : PollRes → Option DqEntry
  | .expired e => Option.some e
  | _ => Option.none

/-- the common tail of the two branches of `pollIdx` -/
def idxTail (rec : DelayQ → DelayQ × PollRes) (p : DelayQ × Option DqEntry) : DelayQ × PollRes :=
  match p.2 with
  | some e => ({ p.1 with delay := nextDeadline p.1 }, .expired e)
  | none =>
    if (nextDeadline p.1).isNone then ({ p.1 with delay := nextDeadline p.1, waker := true }, .none)
    else rec { p.1 with delay := nextDeadline p.1 }

theorem pollIdx_succ_f (fuel : Nat) (q : DelayQ) (now : Nat) :
    pollIdx (fuel + 1) q now =
      match q.delay with
      | some dl =>
          if now < dl * nsPerMs then ({ q with waker := true }, .pending)
          else idxTail (fun q => pollIdx fuel q now)
            (wheelPoll (wheelFuel { q with wheelNow := dl }) { q with wheelNow := dl } dl)
      | none => idxTail (fun q => pollIdx fuel q now) (wheelPoll (wheelFuel q) q q.wheelNow) := by
  rfl

theorem idxTail_frame {rec : DelayQ → DelayQ × PollRes} {p : DelayQ × Option DqEntry} {q : DelayQ}
    (hrec : ∀ q2, PollFrame q2 (rec q2).1 (rec q2).2.toOpt) (hp : PollFrame q p.1 p.2) :
    PollFrame q (idxTail rec p).1 (idxTail rec p).2.toOpt := by
  obtain ⟨p1, p2⟩ := p
  unfold idxTail
  cases p2 with
  | some e => exact PollFrame.post hp (Frame.of_fields rfl rfl rfl)
  | none =>
    simp only
    split
    · exact Frame.trans hp (Frame.of_fields rfl rfl rfl)
    · refine PollFrame.pre ?_ (hrec _)
      exact Frame.trans hp (Frame.of_fields rfl rfl rfl)

theorem pollIdx_frame : ∀ (fuel : Nat) (q : DelayQ) (now : Nat),
    PollFrame q (pollIdx fuel q now).1 (pollIdx fuel q now).2.toOpt
  | 0, q, now => Frame.refl q
  | fuel + 1, q, now => by
    rw [pollIdx_succ_f]
    split
    · split
      · exact Frame.of_fields rfl rfl rfl
      · refine idxTail_frame (fun q2 => pollIdx_frame fuel q2 now) (PollFrame.pre ?_ (wheelPoll_frame _ _ _))
        exact Frame.of_fields rfl rfl rfl
    · exact idxTail_frame (fun q2 => pollIdx_frame fuel q2 now) (wheelPoll_frame _ _ _)

theorem pollExpired_frame (q : DelayQ) (now : Nat) :
    PollFrame q (q.pollExpired now).1 (q.pollExpired now).2.toOpt ∨
    ∃ e rest, q.expired = e :: rest ∧ q.pollExpired now = ({ q with waker := true, expired := rest }, .expired e) := by
  unfold pollExpired
  cases h : q.expired with
  | nil =>
    left
    refine PollFrame.pre ?_ (pollIdx_frame _ _ _)
    exact Frame.of_fields rfl h.symm rfl
  | cons e rest => right; exact ⟨e, rest, rfl, rfl⟩


theorem PollFrame.nextKey {q q' : DelayQ} {r : Option DqEntry} (h : PollFrame q q' r) :
    q'.nextKey = q.nextKey := by
  cases r with
  | none => exact Frame.nextKey h
  | some e => obtain ⟨qm, h1, _, h3⟩ := h; exact h3.nextKey.trans h1.nextKey

theorem PollFrame.wf {q q' : DelayQ} {r : Option DqEntry} (h : PollFrame q q' r) (hq : KeysOk q) : KeysOk q' := by
  cases r with
  | none => exact Frame.wf h hq
  | some e => obtain ⟨qm, h1, _, h3⟩ := h; exact h3.wf (pop_WF (h1.wf hq))

theorem PollFrame.len_le {q q' : DelayQ} {r : Option DqEntry} (h : PollFrame q q' r) : q'.len ≤ q.len := by
  cases r with
  | none => have := Frame.len h; have := congrArg List.length (Frame.expired h); simp only [DelayQ.len]; omega
  | some e =>
    obtain ⟨qm, h1, h2, h3⟩ := h
    have := h1.len; have := congrArg List.length h1.expired; have := h3.len
    have h4 := congrArg List.length h3.expired; have := pop_len h2
    have h5 : (pop qm e).expired = qm.expired := rfl
    rw [h5] at h4
    simp only [DelayQ.len]; omega

theorem PollFrame.len_lt {q q' : DelayQ} {e : DqEntry} (h : PollFrame q q' (some e)) : q'.len < q.len := by
  obtain ⟨qm, h1, h2, h3⟩ := h
  have := h1.len; have := congrArg List.length h1.expired; have := h3.len
  have h4 := congrArg List.length h3.expired; have := pop_len h2
  have h5 : (pop qm e).expired = qm.expired := rfl
  rw [h5] at h4
  simp only [DelayQ.len]; omega

theorem PollFrame.cores_none {q q' : DelayQ} (h : PollFrame q q' none) (hq : KeysOk q) :
    ∀ c, c ∈ q'.cores ↔ c ∈ q.cores := Frame.cores h hq

theorem PollFrame.cores_some {q q' : DelayQ} {e : DqEntry} (h : PollFrame q q' (some e)) (hq : KeysOk q) :
    core e ∈ q.cores ∧ (∀ c, c ∈ q'.cores ↔ c ∈ q.cores ∧ c.1 ≠ e.key) := by
  obtain ⟨qm, h1, h2, h3⟩ := h
  have hm := h1.wf hq
  constructor
  · rw [← h1.cores hq]
    simp only [DelayQ.cores, items, List.map_append, List.mem_append, List.mem_map]
    exact .inl ⟨e, h2, rfl⟩
  · intro c
    rw [h3.cores (pop_WF hm), pop_cores h2 hm, h1.cores hq]

/-- popping the `expired` stack -/
theorem popx_WF {q : DelayQ} {e : DqEntry} {rest : List DqEntry} (hx : q.expired = e :: rest) (hq : KeysOk q) :
    KeysOk { q with waker := true, expired := rest } := by
  obtain ⟨h1, h2⟩ := hq
  simp only [items, hx] at h1 h2
  constructor
  · refine List.Nodup.sublist ?_ h1
    exact List.Sublist.map _ (List.Sublist.append (List.Sublist.refl _) (List.sublist_cons_self _ _))
  · intro a ha
    apply h2
    simp only [items, List.mem_append, List.mem_cons] at ha ⊢
    grind

theorem popx_cores {q : DelayQ} {e : DqEntry} {rest : List DqEntry} (hx : q.expired = e :: rest) (hq : KeysOk q)
    (c : Nat × Nat × Nat) :
    c ∈ (DelayQ.cores { q with waker := true, expired := rest }) ↔ c ∈ q.cores ∧ c.1 ≠ e.key := by
  have h1 := hq.nodup
  simp only [items, hx, List.map_append, List.map_cons, List.nodup_append, List.nodup_cons, List.mem_map,
    List.mem_cons] at h1
  simp only [DelayQ.cores, items, hx, List.map_append, List.map_cons, List.mem_append, List.mem_map, List.mem_cons]
  constructor
  · rintro (⟨a, ha, rfl⟩ | ⟨a, ha, rfl⟩)
    · refine ⟨.inl ⟨a, ha, rfl⟩, ?_⟩
      simp only [core]
      intro h
      exact h1.2.2 _ ⟨a, ha, rfl⟩ _ (.inl rfl) h
    · refine ⟨.inr (.inr ⟨a, ha, rfl⟩), ?_⟩
      simp only [core]
      intro h
      exact h1.2.1.1 ⟨a, ha, h⟩
  · rintro ⟨⟨a, ha, rfl⟩ | rfl | ⟨a, ha, rfl⟩, hk⟩
    · exact .inl ⟨a, ha, rfl⟩
    · exact absurd rfl hk
    · exact .inr ⟨a, ha, rfl⟩


/-! ### insert -/

theorem insert_cases {q q' : DelayQ} {now to v : Nat} {r : InsertRes} {w : Bool}
    (h : q.insert now to v = (q', r, w)) :
    (r = .panic ∧ q' = q) ∨
    (r = .ok q.nextKey ∧ q'.nextKey = q.nextKey + 1 ∧ q'.wheelElapsed = q.wheelElapsed ∧
      q'.wheelNow = q.wheelNow ∧
      ((q'.entries = q.entries ∧
        q'.expired = { key := q.nextKey, val := v, whenMs := max (ceilMs (now + to)) q.wheelElapsed } :: q.expired ∧
        max (ceilMs (now + to)) q.wheelElapsed ≤ q.wheelElapsed) ∨
       (q'.entries = q.entries ++ [{
            key := q.nextKey, val := v, whenMs := max (ceilMs (now + to)) q.wheelElapsed,
            level := levelFor q.wheelElapsed (max (ceilMs (now + to)) q.wheelElapsed), seq := q.seqCtr }] ∧
        q'.expired = q.expired ∧ q.wheelElapsed < max (ceilMs (now + to)) q.wheelElapsed ∧
        max (ceilMs (now + to)) q.wheelElapsed - q.wheelElapsed ≤ delayQMaxMs))) := by
  unfold insert at h
  simp only at h
  split at h
  · left
    simp only [Prod.mk.injEq] at h
    exact ⟨h.2.1.symm, h.1.symm⟩
  · next hp =>
    right
    simp only [Bool.and_eq_true, decide_eq_true_eq, not_and, Nat.not_lt] at hp
    by_cases hw : max (ceilMs (now + to)) q.wheelElapsed ≤ q.wheelElapsed
    · simp only [hw, if_true] at h
      split at h <;> split at h <;>
      · simp only [Prod.mk.injEq] at h
        obtain ⟨rfl, rfl, rfl⟩ := h
        exact ⟨rfl, rfl, rfl, rfl, .inl ⟨rfl, rfl, hw⟩⟩
    · simp only [hw, if_false] at h
      split at h <;> split at h <;>
      · simp only [Prod.mk.injEq] at h
        obtain ⟨rfl, rfl, rfl⟩ := h
        exact ⟨rfl, rfl, rfl, rfl, .inr ⟨rfl, rfl, by omega, hp (by omega)⟩⟩


theorem insert_panic {q q' : DelayQ} {now to v : Nat} {w : Bool}
    (h : q.insert now to v = (q', .panic, w)) : q' = q := by
  rcases insert_cases h with ⟨_, h⟩ | ⟨h, _⟩
  · exact h
  · cases h

theorem insert_ok {q q' : DelayQ} {now to v k : Nat} {w : Bool}
    (h : q.insert now to v = (q', .ok k, w)) :
    k = q.nextKey ∧ q'.nextKey = k + 1 ∧
    (∀ c, c ∈ q'.cores ↔ c ∈ q.cores ∨ c = (k, v, max (ceilMs (now + to)) q.wheelElapsed)) := by
  rcases insert_cases h with ⟨h, _⟩ | ⟨hk, hn, _, _, hc⟩
  · cases h
  · cases hk
    refine ⟨rfl, hn, fun c => ?_⟩
    rcases hc with ⟨h1, h2, _⟩ | ⟨h1, h2, _⟩
    · simp only [cores, items, h1, h2, List.map_append, List.map_cons, List.mem_append, List.mem_cons, core]
      grind
    · simp only [cores, items, h1, h2, List.map_append, List.map_cons, List.mem_append, List.mem_cons, core,
        List.map_nil, List.not_mem_nil, or_false]
      grind

theorem insert_WF {q q' : DelayQ} {now to v : Nat} {r : InsertRes} {w : Bool}
    (h : q.insert now to v = (q', r, w)) (hq : KeysOk q) : KeysOk q' := by
  rcases insert_cases h with ⟨_, h⟩ | ⟨_, hn, _, _, hc⟩
  · exact h ▸ hq
  · obtain ⟨h1, h2⟩ := hq
    have hf : ∀ (e' : DqEntry), e'.key = q.nextKey → ∀ a ∈ q.entries ++ q.expired, a.key ≠ e'.key := by
      intro e' he' a ha
      have := h2 a ha
      omega
    rcases hc with ⟨e1, e2, _⟩ | ⟨e1, e2, _⟩
    · constructor
      · simp only [items, e1, e2]
        exact nodup_middle h1 (hf _ rfl)
      · have := h2
        simp only [items, e1, e2, hn, List.mem_append, List.mem_cons] at this ⊢
        rintro a (ha | rfl | ha)
        · have := this a (.inl ha); omega
        · simp
        · have := this a (.inr ha); omega
    · constructor
      · simp only [items, e1, e2, List.append_assoc, List.singleton_append]
        exact nodup_middle h1 (hf _ rfl)
      · have := h2
        simp only [items, e1, e2, hn, List.mem_append, List.mem_cons, List.not_mem_nil, or_false] at this ⊢
        rintro a ((ha | rfl) | ha)
        · have := this a (.inl ha); omega
        · simp
        · have := this a (.inr ha); omega

theorem insert_len {q q' : DelayQ} {now to v k : Nat} {w : Bool}
    (h : q.insert now to v = (q', .ok k, w)) : q'.len = q.len + 1 := by
  rcases insert_cases h with ⟨h, _⟩ | ⟨_, _, _, _, hc⟩
  · cases h
  · rcases hc with ⟨e1, e2, _⟩ | ⟨e1, e2, _⟩ <;> simp [len, e1, e2] <;> omega

/-! ### remove -/

theorem remove_none_iff (q : DelayQ) (k : Nat) : q.remove k = none ↔ k ∉ q.items.map (·.key) := by
  unfold remove
  split
  · next h =>
    simp only [Bool.or_eq_true, List.any_eq_true, beq_iff_eq] at h
    simp only [items, List.map_append, List.mem_append, List.mem_map]
    simp only [reduceCtorEq, false_iff, Classical.not_not]
    exact h
  · next h =>
    simp only [Bool.or_eq_true, List.any_eq_true, beq_iff_eq] at h
    simp only [items, List.map_append, List.mem_append, List.mem_map, true_iff]
    exact h

theorem remove_cases {q q' : DelayQ} {k : Nat} {w : Bool} (h : q.remove k = some (q', w)) :
    k ∈ q.items.map (·.key) ∧ q'.entries = q.entries.filter (·.key != k) ∧
    q'.expired = q.expired.filter (·.key != k) ∧ q'.nextKey = q.nextKey ∧
    q'.wheelElapsed = q.wheelElapsed ∧ q'.wheelNow = q.wheelNow := by
  refine ⟨?_, ?_⟩
  · apply Classical.byContradiction
    intro hk
    rw [(remove_none_iff q k).2 hk] at h
    cases h
  · unfold remove at h
    split at h
    · simp only [Option.some.injEq, Prod.mk.injEq] at h
      obtain ⟨rfl, -⟩ := h
      split <;> exact ⟨rfl, rfl, rfl, rfl, rfl⟩
    · cases h

theorem remove_some {q q' : DelayQ} {k : Nat} {w : Bool} (h : q.remove k = some (q', w)) :
    q'.nextKey = q.nextKey ∧ (∀ c, c ∈ q'.cores ↔ c ∈ q.cores ∧ c.1 ≠ k) := by
  obtain ⟨_, e1, e2, e3, _⟩ := remove_cases h
  refine ⟨e3, fun c => ?_⟩
  simp only [cores, items, e1, e2, List.map_append, List.mem_append, List.mem_map, List.mem_filter, core]
  grind

theorem remove_WF {q q' : DelayQ} {k : Nat} {w : Bool} (h : q.remove k = some (q', w)) (hq : KeysOk q) :
    KeysOk q' := by
  obtain ⟨_, e1, e2, e3, _⟩ := remove_cases h
  constructor
  · simp only [items, e1, e2]
    exact nodup_pop k hq.nodup
  · have := hq.lt
    simp only [items, e1, e2, e3, List.mem_append, List.mem_filter] at this ⊢
    grind

theorem remove_len {q q' : DelayQ} {k : Nat} {w : Bool} (h : q.remove k = some (q', w)) :
    q'.len < q.len := by
  obtain ⟨hk, e1, e2, _⟩ := remove_cases h
  simp only [items, List.map_append, List.mem_append, List.mem_map] at hk
  have h1 := List.length_filter_le (fun e : DqEntry => e.key != k) q.entries
  have h2 := List.length_filter_le (fun e : DqEntry => e.key != k) q.expired
  simp only [len, e1, e2]
  rcases hk with ⟨a, ha, hk⟩ | ⟨a, ha, hk⟩
  · have := length_filter_lt ha hk; omega
  · have := length_filter_lt ha hk; omega

/-! ### pollExpired -/

theorem pollExpired_nextKey {q q' : DelayQ} {now : Nat} {r : PollRes} (h : q.pollExpired now = (q', r)) :
    q'.nextKey = q.nextKey := by
  rcases pollExpired_frame q now with hf | ⟨e, rest, hx, heq⟩
  · rw [h] at hf; exact hf.nextKey
  · rw [h] at heq; cases heq; rfl

theorem pollExpired_WF {q q' : DelayQ} {now : Nat} {r : PollRes} (h : q.pollExpired now = (q', r))
    (hq : KeysOk q) : KeysOk q' := by
  rcases pollExpired_frame q now with hf | ⟨e, rest, hx, heq⟩
  · rw [h] at hf; exact hf.wf hq
  · rw [h] at heq; cases heq; exact popx_WF hx hq

/-- What comes out was in the queue, and exactly the entries with that key are gone. -/
theorem pollExpired_expired {q q' : DelayQ} {now : Nat} {e : DqEntry}
    (h : q.pollExpired now = (q', .expired e)) (hq : KeysOk q) :
    core e ∈ q.cores ∧ (∀ c, c ∈ q'.cores ↔ c ∈ q.cores ∧ c.1 ≠ e.key) := by
  rcases pollExpired_frame q now with hf | ⟨e', rest, hx, heq⟩
  · rw [h] at hf; exact PollFrame.cores_some hf hq
  · rw [h] at heq; cases heq
    refine ⟨?_, popx_cores hx hq⟩
    simp [cores, items, hx]

theorem pollExpired_other {q q' : DelayQ} {now : Nat} {r : PollRes} (h : q.pollExpired now = (q', r)) (hq : KeysOk q)
    (hr : ∀ e, r ≠ .expired e) : ∀ c, c ∈ q'.cores ↔ c ∈ q.cores := by
  rcases pollExpired_frame q now with hf | ⟨e', rest, hx, heq⟩
  · rw [h] at hf
    cases r with
    | expired e => exact absurd rfl (hr e)
    | pending => exact PollFrame.cores_none hf hq
    | none => exact PollFrame.cores_none hf hq
  · rw [h] at heq; cases heq; exact absurd rfl (hr _)

theorem pollExpired_len_le {q q' : DelayQ} {now : Nat} {r : PollRes} (h : q.pollExpired now = (q', r)) :
    q'.len ≤ q.len := by
  rcases pollExpired_frame q now with hf | ⟨e', rest, hx, heq⟩
  · rw [h] at hf; exact hf.len_le
  · rw [h] at heq; cases heq; simp [len, hx]

theorem pollExpired_len_lt {q q' : DelayQ} {now : Nat} {e : DqEntry}
    (h : q.pollExpired now = (q', .expired e)) : q'.len < q.len := by
  rcases pollExpired_frame q now with hf | ⟨e', rest, hx, heq⟩
  · rw [h] at hf; exact PollFrame.len_lt hf
  · rw [h] at heq; cases heq; simp [len, hx]


/-! ### `Sound` -/

theorem remove_Sound {q q' : DelayQ} {k : Nat} {w : Bool} {t : Nat} (h : q.remove k = some (q', w))
    (hq : Sound q t) : Sound q' t := by
  obtain ⟨_, e1, e2, _, e4, e5⟩ := remove_cases h
  constructor
  · intro e he; rw [e1] at he; exact hq.lvl e (List.mem_filter.1 he).1
  · intro e he; rw [e1] at he; rw [e4]; exact hq.blk e (List.mem_filter.1 he).1
  · intro e he; rw [e1] at he; rw [e4]; exact hq.top e (List.mem_filter.1 he).1
  · intro e he; rw [e2] at he; rw [e4]; exact hq.exp e (List.mem_filter.1 he).1
  · rw [e4]; exact hq.el
  · rw [e5]; exact hq.wn

/-- `Sound` survives dropping entries and advancing the clocks (within `now`) -/
theorem Sound.advance {q q' : DelayQ} {now : Nat} (hq : Sound q now)
    (he : ∀ e ∈ q'.entries, e ∈ q.entries) (hx : ∀ e ∈ q'.expired, e ∈ q.expired)
    (hE : q.wheelElapsed ≤ q'.wheelElapsed) (hel : q'.wheelElapsed * nsPerMs ≤ now)
    (hwn : q'.wheelNow * nsPerMs ≤ now) : Sound q' now := by
  constructor
  · exact fun e h => hq.lvl e (he e h)
  · exact fun e h hl => Nat.le_trans (hq.blk e (he e h) hl) (Nat.div_le_div_right hE)
  · exact fun e h hl => Nat.le_trans (hq.top e (he e h) hl) (Nat.add_le_add_right hE _)
  · exact fun e h => Nat.le_trans (hq.exp e (hx e h)) hE
  · exact hel
  · exact hwn

/-- the deadline `levelNextExpiration` computes for slot `s` of level `L` at wheel clock `E` -/
def exDeadline (E L s : Nat) : Nat :=
  if (E - E % levelRange L) + s * slotRange L < E then (E - E % levelRange L) + s * slotRange L + levelRange L
  else (E - E % levelRange L) + s * slotRange L

theorem exDeadline_cases (E L s : Nat) :
    ((E - E % levelRange L) + s * slotRange L < E ∧
      exDeadline E L s = (E - E % levelRange L) + s * slotRange L + levelRange L) ∨
    (¬ (E - E % levelRange L) + s * slotRange L < E ∧
      exDeadline E L s = (E - E % levelRange L) + s * slotRange L) := by
  unfold exDeadline
  split
  · next h => exact .inl ⟨h, rfl⟩
  · next h => exact .inr ⟨h, rfl⟩

/-- The arithmetic heart of "never early": an entry in slot `s` of level `L` that satisfies the
one-sided invariant at clock `E` lies (at granularity `64^L`) before the slot's deadline. -/
theorem casc_arith {L : Nat} (hL : L ≤ 5) (E w s : Nat) (hs : slotFor w L = s)
    (hb : L < 5 → w / 64 ^ (L + 1) ≤ E / 64 ^ (L + 1)) (ht : L = 5 → w ≤ E + delayQMaxMs) :
    w / 64 ^ L ≤ max E (exDeadline E L s) / 64 ^ L := by
  have h0 : L = 0 ∨ L = 1 ∨ L = 2 ∨ L = 3 ∨ L = 4 ∨ L = 5 := by omega
  rcases exDeadline_cases E L s with ⟨h1, h2⟩ | ⟨h1, h2⟩ <;> rw [h2] <;>
  rcases h0 with rfl | rfl | rfl | rfl | rfl | rfl <;>
  · simp only [slotFor, slotRange, levelRange, delayQMaxMs, Nat.reducePow, Nat.reduceAdd,
      Nat.reduceMul, Nat.reduceSub, Nat.reduceLT, Nat.reduceEqDiff, forall_const, Nat.div_one,
      Nat.lt_irrefl, false_implies] at hs hb ht h1 ⊢
    omega

theorem levelNextExpiration_some_f {q : DelayQ} {L : Nat} {ex : Expiration}
    (h : levelNextExpiration q L = some ex) :
    ex.level = L ∧ ex.slot < 64 ∧ ex.deadline = exDeadline q.wheelElapsed L ex.slot := by
  unfold levelNextExpiration at h
  simp only at h
  split at h
  · cases h
  · cases h
    exact ⟨rfl, Nat.mod_lt _ (by decide), rfl⟩

theorem nextExpiration_some_f {q : DelayQ} {ex : Expiration} (h : nextExpiration q = some ex) :
    ex.level ≤ 5 ∧ ex.slot < 64 ∧ ex.deadline = exDeadline q.wheelElapsed ex.level ex.slot := by
  obtain ⟨L, hL, hex⟩ := List.exists_of_findSome?_eq_some h
  obtain ⟨h1, h2, h3⟩ := levelNextExpiration_some_f hex
  have := List.mem_range.1 hL
  subst h1
  exact ⟨by omega, h2, h3⟩

theorem max_mul_le {a b n now : Nat} (ha : a * n ≤ now) (hb : b * n ≤ now) : max a b * n ≤ now := by
  rcases Nat.le_total a b with h | h
  · rwa [Nat.max_eq_right h]
  · rwa [Nat.max_eq_left h]

/-- one cascade round keeps `Sound` -/
theorem cascade_Sound {q : DelayQ} {now L s D : Nat} (fuel : Nat) (hq : Sound q now) (hL : L ≤ 5) (hL0 : L ≠ 0)
    (hD : D = exDeadline q.wheelElapsed L s) (hd : D * nsPerMs ≤ now) :
    Sound { cascade fuel q L s with wheelElapsed := max (cascade fuel q L s).wheelElapsed D } now := by
  obtain ⟨f1, f2, f3⟩ := cascade_fields L s fuel q
  have hent := cascade_entries L s fuel q
  subst hD
  constructor
  · intro x hx
    rcases hent x hx with h | ⟨h1, _⟩
    · exact hq.lvl x h
    · omega
  · intro x hx hl
    simp only [f1]
    rcases hent x hx with h | ⟨h1, e, he, h2, h3, h4⟩
    · exact Nat.le_trans (hq.blk x h hl) (Nat.div_le_div_right (Nat.le_max_left _ _))
    · have hlv : x.level + 1 = L := by omega
      rw [hlv, h4]
      exact casc_arith hL _ _ _ h3 (fun h => h2 ▸ hq.blk e he (h2 ▸ h)) (fun h => hq.top e he (h2 ▸ h))
  · intro x hx hl
    simp only [f1]
    rcases hent x hx with h | ⟨h1, _⟩
    · exact Nat.le_trans (hq.top x h hl) (Nat.add_le_add_right (Nat.le_max_left _ _) _)
    · omega
  · intro x hx
    simp only [f1]
    rw [f3] at hx
    exact Nat.le_trans (hq.exp x hx) (Nat.le_max_left _ _)
  · simp only [f1]
    exact max_mul_le hq.el hd
  · show (cascade fuel q L s).wheelNow * nsPerMs ≤ now
    rw [f2]; exact hq.wn

/-- the result is `Sound` and what came out (if anything) is due -/
def TimelyOut (now : Nat) (q' : DelayQ) (r : Option DqEntry) : Prop :=
  Sound q' now ∧ ∀ e, r = some e → e.whenMs * nsPerMs ≤ now

theorem wheelPoll_Sound (now t : Nat) (ht : t * nsPerMs ≤ now) : ∀ (fuel : Nat) (q : DelayQ), Sound q now →
    TimelyOut now (wheelPoll fuel q t).1 (wheelPoll fuel q t).2 := by
  intro fuel
  induction fuel with
  | zero => exact fun q hq => ⟨hq, fun _ h => by cases h⟩
  | succ fuel ih =>
    intro q hq
    have hadv : TimelyOut now { q with wheelElapsed := max q.wheelElapsed t } none :=
      ⟨hq.advance (fun _ h => h) (fun _ h => h) (Nat.le_max_left _ _) (max_mul_le hq.el ht) hq.wn,
        fun _ h => by cases h⟩
    rw [wheelPoll_succ]
    split
    · exact hadv
    · next ex hex =>
      obtain ⟨h1, h2, h3⟩ := nextExpiration_some_f hex
      split
      · exact hadv
      · next hdl =>
        have hdl' : ex.deadline * nsPerMs ≤ now :=
          Nat.le_trans (Nat.mul_le_mul_right _ (Nat.le_of_not_gt hdl)) ht
        split
        · next hl0 =>
          have hl0 : ex.level = 0 := by simpa using hl0
          split
          · next e he =>
            obtain ⟨hm, hlv, hs⟩ := slotTop_some_f he
            refine ⟨hq.advance (fun x hx => (List.mem_filter.1 hx).1) (fun _ h => h) (Nat.le_refl _) hq.el hq.wn, ?_⟩
            intro e' he'
            cases he'
            have := casc_arith (L := 0) (by omega) q.wheelElapsed e.whenMs ex.slot hs
              (fun h => hlv ▸ hq.blk e hm (hlv ▸ h)) (fun h => by omega)
            simp only [Nat.pow_zero, Nat.div_one] at this
            rw [hl0] at h3
            rw [← h3] at this
            exact Nat.le_trans (Nat.mul_le_mul_right _ this) (max_mul_le hq.el hdl')
          · exact ⟨hq, fun _ h => by cases h⟩
        · next hl0 =>
          have hl0 : ex.level ≠ 0 := by simpa using hl0
          exact ih _ (cascade_Sound _ hq h1 hl0 h3 hdl')

theorem idxTail_Sound {rec : DelayQ → DelayQ × PollRes} {p : DelayQ × Option DqEntry} {now : Nat}
    (hrec : ∀ q2, Sound q2 now → TimelyOut now (rec q2).1 (rec q2).2.toOpt) (hp : TimelyOut now p.1 p.2) :
    TimelyOut now (idxTail rec p).1 (idxTail rec p).2.toOpt := by
  obtain ⟨p1, p2⟩ := p
  obtain ⟨h1, h2⟩ := hp
  have hs : ∀ (d : Option Nat) (w : Bool), Sound { p1 with delay := d, waker := w } now :=
    fun d w => h1.advance (fun _ h => h) (fun _ h => h) (Nat.le_refl _) h1.el h1.wn
  unfold idxTail
  cases p2 with
  | some e => exact ⟨hs _ _, fun e' he' => h2 e' (by simpa [PollRes.toOpt] using he')⟩
  | none =>
    simp only
    split
    · exact ⟨hs _ _, fun e' he' => by simp [PollRes.toOpt] at he'⟩
    · exact hrec _ (hs _ _)

theorem pollIdx_Sound (now : Nat) : ∀ (fuel : Nat) (q : DelayQ), Sound q now →
    TimelyOut now (pollIdx fuel q now).1 (pollIdx fuel q now).2.toOpt := by
  intro fuel
  induction fuel with
  | zero => exact fun q hq => ⟨hq, fun _ h => by simp [pollIdx, PollRes.toOpt] at h⟩
  | succ fuel ih =>
    intro q hq
    rw [pollIdx_succ_f]
    split
    · next dl hdl =>
      split
      · exact ⟨hq.advance (fun _ h => h) (fun _ h => h) (Nat.le_refl _) hq.el hq.wn,
          fun _ h => by simp [PollRes.toOpt] at h⟩
      · next hlt =>
        have hdn : dl * nsPerMs ≤ now := Nat.le_of_not_gt hlt
        exact idxTail_Sound ih (wheelPoll_Sound now dl hdn _ _
          (hq.advance (fun _ h => h) (fun _ h => h) (Nat.le_refl _) hq.el hdn))
    · exact idxTail_Sound ih (wheelPoll_Sound now _ hq.wn _ _ hq)

theorem pollExpired_Timely {q : DelayQ} {now : Nat} (hq : Sound q now) :
    TimelyOut now (q.pollExpired now).1 (q.pollExpired now).2.toOpt := by
  unfold pollExpired
  cases h : q.expired with
  | nil =>
    exact pollIdx_Sound now _ _ (hq.advance (fun _ h => h) (fun _ h' => by simp at h')
      (Nat.le_refl _) hq.el hq.wn)
  | cons e rest =>
    refine ⟨hq.advance (fun _ h => h) (fun x hx => ?_) (Nat.le_refl _) hq.el hq.wn, fun e' he' => ?_⟩
    · rw [h]; exact List.mem_cons_of_mem _ hx
    · simp only [PollRes.toOpt, Option.some.injEq] at he'
      subst he'
      exact Nat.le_trans (Nat.mul_le_mul_right _ (hq.exp e (by simp [h]))) hq.el

theorem pollExpired_Sound {q q' : DelayQ} {now : Nat} {r : PollRes} (h : q.pollExpired now = (q', r))
    (hq : Sound q now) : Sound q' now := by
  have := (pollExpired_Timely hq).1
  rwa [h] at this

/-- **Never early** at the queue level. -/
theorem pollExpired_not_early {q q' : DelayQ} {now : Nat} {e : DqEntry}
    (h : q.pollExpired now = (q', .expired e)) (hq : Sound q now) : e.whenMs * nsPerMs ≤ now := by
  have := (pollExpired_Timely hq).2
  rw [h] at this
  exact this e rfl

/-! ### `levelFor` -/

theorem xor_eq_zero_f {a b : Nat} (h : a ^^^ b = 0) : a = b := by
  have : a ^^^ (a ^^^ b) = b := by rw [← Nat.xor_assoc, Nat.xor_self, Nat.zero_xor]
  rw [h, Nat.xor_zero] at this
  exact this

theorem div_eq_of_xor_lt_f {a b k : Nat} (h : a ^^^ b < 2 ^ k) : a / 2 ^ k = b / 2 ^ k := by
  apply xor_eq_zero_f
  rw [← Nat.xor_div_two_pow]
  exact Nat.div_eq_of_lt h

theorem log2_cap : Nat.log2 (delayQMaxMs - 1) = 35 := by
  have hne : delayQMaxMs - 1 ≠ 0 := by simp [delayQMaxMs]
  have h1 : 35 ≤ Nat.log2 (delayQMaxMs - 1) := (Nat.le_log2 hne).2 (by simp [delayQMaxMs])
  have h2 : Nat.log2 (delayQMaxMs - 1) < 36 := (Nat.log2_lt hne).2 (by simp [delayQMaxMs])
  omega

theorem levelFor_le (E w : Nat) : levelFor E w ≤ 5 := by
  unfold levelFor msb
  simp only
  split
  · rw [log2_cap]; decide
  · next h =>
    have h63 : 63 ≤ (E ^^^ w) ||| 63 := Nat.right_le_or
    have hne : (E ^^^ w) ||| 63 ≠ 0 := by omega
    have : Nat.log2 ((E ^^^ w) ||| 63) < 36 := (Nat.log2_lt hne).2 (by simp [delayQMaxMs] at h; omega)
    omega

theorem levelFor_blk (E w : Nat) (h : levelFor E w < 5) :
    w / 64 ^ (levelFor E w + 1) ≤ E / 64 ^ (levelFor E w + 1) := by
  have key : E ^^^ w < 2 ^ (6 * (levelFor E w + 1)) := by
    revert h
    unfold levelFor msb
    simp only
    split
    · rw [log2_cap]; intro h; omega
    · intro _
      have h63 : 63 ≤ (E ^^^ w) ||| 63 := Nat.right_le_or
      have hne : (E ^^^ w) ||| 63 ≠ 0 := by omega
      have : (E ^^^ w) ||| 63 < 2 ^ (6 * (Nat.log2 ((E ^^^ w) ||| 63) / 6 + 1)) :=
        (Nat.log2_lt hne).1 (by omega)
      exact Nat.lt_of_le_of_lt Nat.left_le_or this
  have := div_eq_of_xor_lt_f key
  rw [Nat.pow_mul] at this
  exact Nat.le_of_eq this.symm

theorem insert_Sound {q q' : DelayQ} {now to v : Nat} {r : InsertRes} {w : Bool} {t : Nat}
    (h : q.insert now to v = (q', r, w)) (hq : Sound q t) : Sound q' t := by
  rcases insert_cases h with ⟨_, h⟩ | ⟨_, _, hE, hN, hc⟩
  · exact h ▸ hq
  · rcases hc with ⟨e1, e2, hW⟩ | ⟨e1, e2, hW, hM⟩
    · constructor
      · rw [e1]; exact hq.lvl
      · rw [e1, hE]; exact hq.blk
      · rw [e1, hE]; exact hq.top
      · rw [e2, hE]
        intro e he
        rcases List.mem_cons.1 he with rfl | he
        · exact hW
        · exact hq.exp e he
      · rw [hE]; exact hq.el
      · rw [hN]; exact hq.wn
    · constructor
      · rw [e1]
        intro e he
        rcases List.mem_append.1 he with he | he
        · exact hq.lvl e he
        · cases List.mem_singleton.1 he; exact levelFor_le _ _
      · rw [e1, hE]
        intro e he
        rcases List.mem_append.1 he with he | he
        · exact hq.blk e he
        · cases List.mem_singleton.1 he; exact levelFor_blk _ _
      · rw [e1, hE]
        intro e he
        rcases List.mem_append.1 he with he | he
        · exact hq.top e he
        · cases List.mem_singleton.1 he
          intro _
          show max (ceilMs (now + to)) q.wheelElapsed ≤ q.wheelElapsed + delayQMaxMs
          omega
      · rw [e2, hE]; exact hq.exp
      · rw [hE]; exact hq.el
      · rw [hN]; exact hq.wn

end TarpcModel.DelayQ

import TarpcModel.Prim.DelayQ
/-
Invariants of the `DelayQ` model (timer wheel emulation) that the client/server proofs need:

* `DelayQ.WF`      — keys are pairwise distinct and below `nextKey`; every wheel entry sits at a level whose
                     block (relative to `wheelElapsed`) is not in the future (`SlotUB`), which is what makes
                     "the wheel never yields an entry early" provable without the full wheel correctness.
* `DelayQ.Timely`  — relative to a wall clock `now` (ns): `wheelElapsed`, `wheelNow` and everything on the
                     `expired` stack are not in the future.
* `DelayQ.Has q k v w` — a timer with key `k`, value `v`, deadline `w` ms is armed (wheel or expired stack),
                     independent of its wheel position (`level`, `seq`).

Specs: `insert_spec`, `remove_spec`, `remove_eq_none_iff`, `clear`, `pollExpired_spec`.
-/
set_option linter.unusedSimpArgs false
set_option linter.unusedVariables false
namespace TarpcModel
namespace DelayQ

/-- every armed timer: the wheel and the `expired` stack -/
def all (q : DelayQ) : List DqEntry := q.entries ++ q.expired

/-- some entry of `l` has key `k`, value `v`, deadline `w` (ms) -/
def HasL (l : List DqEntry) (k v w : Nat) : Prop := ∃ d ∈ l, d.key = k ∧ d.val = v ∧ d.whenMs = w

/-- a timer with key `k`, value `v`, deadline `w` (ms) is armed -/
def Has (q : DelayQ) (k v w : Nat) : Prop := HasL q.all k v w

def KeysDistinct (l : List DqEntry) : Prop := l.Pairwise (fun a b => a.key ≠ b.key)

/-- The block of `d`'s level that contains `d.whenMs` is not after the block containing `elapsed`. -/
def SlotUB (elapsed : Nat) (d : DqEntry) : Prop :=
  (d.level < 5 → d.whenMs / 64 ^ (d.level + 1) ≤ elapsed / 64 ^ (d.level + 1)) ∧
  (d.level = 5 → d.whenMs ≤ elapsed + delayQMaxMs)

structure WF (q : DelayQ) : Prop where
  keys : KeysDistinct q.all
  keyLt : ∀ d ∈ q.all, d.key < q.nextKey
  ub : ∀ d ∈ q.entries, SlotUB q.wheelElapsed d

structure Timely (q : DelayQ) (now : Nat) : Prop where
  elapsed : q.wheelElapsed * nsPerMs ≤ now
  wheelNow : q.wheelNow * nsPerMs ≤ now
  expired : ∀ d ∈ q.expired, d.whenMs * nsPerMs ≤ now

theorem Timely.mono {q : DelayQ} {now now' : Nat} (h : Timely q now) (hle : now ≤ now') : Timely q now' :=
  ⟨Nat.le_trans h.elapsed hle, Nat.le_trans h.wheelNow hle, fun d hd => Nat.le_trans (h.expired d hd) hle⟩

/-! ### basic facts -/

theorem hasL_append {l1 l2 : List DqEntry} {k v w : Nat} :
    HasL (l1 ++ l2) k v w ↔ HasL l1 k v w ∨ HasL l2 k v w := by
  simp only [HasL, List.mem_append]
  constructor
  · rintro ⟨d, hd | hd, h⟩
    · exact Or.inl ⟨d, hd, h⟩
    · exact Or.inr ⟨d, hd, h⟩
  · rintro (⟨d, hd, h⟩ | ⟨d, hd, h⟩)
    · exact ⟨d, Or.inl hd, h⟩
    · exact ⟨d, Or.inr hd, h⟩

theorem has_iff {q : DelayQ} {k v w : Nat} : Has q k v w ↔ HasL q.entries k v w ∨ HasL q.expired k v w := by
  unfold Has all; exact hasL_append

theorem hasL_filter_key {l : List DqEntry} {key k v w : Nat} :
    HasL (l.filter (·.key != key)) k v w ↔ HasL l k v w ∧ k ≠ key := by
  simp only [HasL, List.mem_filter, bne_iff_ne, ne_eq]
  constructor
  · rintro ⟨d, ⟨hd, hne⟩, h1, h2, h3⟩
    exact ⟨⟨d, hd, h1, h2, h3⟩, by rw [← h1]; exact hne⟩
  · rintro ⟨⟨d, hd, h1, h2, h3⟩, hne⟩
    exact ⟨d, ⟨hd, by rw [h1]; exact hne⟩, h1, h2, h3⟩

theorem hasL_nil {k v w : Nat} : ¬ HasL [] k v w := by simp [HasL]

theorem keysDistinct_inj {l : List DqEntry} (h : KeysDistinct l) {a b : DqEntry} (ha : a ∈ l) (hb : b ∈ l)
    (hk : a.key = b.key) : a = b := by
  induction l with
  | nil => cases ha
  | cons x xs ih =>
    rw [KeysDistinct, List.pairwise_cons] at h
    rcases List.mem_cons.mp ha with rfl | ha' <;> rcases List.mem_cons.mp hb with rfl | hb'
    · rfl
    · exact absurd hk (h.1 b hb')
    · exact absurd hk.symm (h.1 a ha')
    · exact ih h.2 ha' hb'

/-- With distinct keys a key determines value and deadline. -/
theorem hasL_fun {l : List DqEntry} (h : KeysDistinct l) {k v w v' w' : Nat}
    (h1 : HasL l k v w) (h2 : HasL l k v' w') : v = v' ∧ w = w' := by
  obtain ⟨d, hd, rfl, rfl, rfl⟩ := h1
  obtain ⟨d', hd', hk, rfl, rfl⟩ := h2
  have := keysDistinct_inj h hd' hd hk
  subst this; exact ⟨rfl, rfl⟩

theorem Has.functional {q : DelayQ} (h : WF q) {k v w v' w' : Nat}
    (h1 : Has q k v w) (h2 : Has q k v' w') : v = v' ∧ w = w' := hasL_fun h.keys h1 h2

theorem SlotUB.mono {E E' : Nat} {d : DqEntry} (h : SlotUB E d) (hle : E ≤ E') : SlotUB E' d :=
  ⟨fun hl => Nat.le_trans (h.1 hl) (Nat.div_le_div_right hle), fun hl => Nat.le_trans (h.2 hl) (by omega)⟩

/-! ### bit-level fact behind `levelFor` -/

theorem xor_eq_zero {a b : Nat} (h : a ^^^ b = 0) : a = b := by
  apply Nat.eq_of_testBit_eq
  intro i
  have := congrArg (fun x => x.testBit i) h
  simp only [Nat.testBit_xor, Nat.zero_testBit] at this
  cases ha : a.testBit i <;> cases hb : b.testBit i <;> simp_all

theorem div_eq_of_xor_lt {a b k : Nat} (h : a ^^^ b < 2 ^ k) : a / 2 ^ k = b / 2 ^ k := by
  have h0 : (a ^^^ b) >>> k = 0 := by
    rw [Nat.shiftRight_eq_div_pow]; exact Nat.div_eq_of_lt h
  rw [Nat.shiftRight_xor_distrib] at h0
  have := xor_eq_zero h0
  simpa [Nat.shiftRight_eq_div_pow] using this

theorem levelFor_lt_five {elapsed when : Nat} (h : levelFor elapsed when < 5) :
    when / 64 ^ (levelFor elapsed when + 1) = elapsed / 64 ^ (levelFor elapsed when + 1) := by
  have hpow : ∀ n, (64 : Nat) ^ n = 2 ^ (6 * n) := by
    intro n; rw [Nat.pow_mul]
  rw [hpow]
  apply Eq.symm
  apply div_eq_of_xor_lt
  unfold levelFor msb at h ⊢
  simp only at h ⊢
  by_cases hc : (elapsed ^^^ when ||| 63) ≥ delayQMaxMs
  · exfalso
    simp only [hc, ↓reduceIte] at h
    have h30 : ¬ (Nat.log2 (delayQMaxMs - 1) < 30) := by
      rw [Nat.log2_lt (by decide)]; decide
    omega
  · simp only [hc, ↓reduceIte] at h ⊢
    have hne : (elapsed ^^^ when ||| 63) ≠ 0 := by
      have : 63 ≤ (elapsed ^^^ when ||| 63) := Nat.right_le_or
      omega
    have hlt : Nat.log2 (elapsed ^^^ when ||| 63) < 6 * (Nat.log2 (elapsed ^^^ when ||| 63) / 6 + 1) := by omega
    rw [Nat.log2_lt hne] at hlt
    exact Nat.lt_of_le_of_lt Nat.left_le_or hlt

/-! ### the wheel -/

/-- the deadline `Level::next_expiration` computes for an occupied slot -/
def expDeadline (elapsed level slot : Nat) : Nat :=
  if elapsed - elapsed % levelRange level + slot * slotRange level < elapsed then
    elapsed - elapsed % levelRange level + slot * slotRange level + levelRange level
  else elapsed - elapsed % levelRange level + slot * slotRange level

theorem levelNextExpiration_some {q : DelayQ} {level : Nat} {ex : Expiration}
    (h : levelNextExpiration q level = some ex) :
    ex.level = level ∧ ex.deadline = expDeadline q.wheelElapsed level ex.slot := by
  unfold levelNextExpiration at h
  simp only at h
  split at h
  · cases h
  · injection h with h
    subst h
    simp only [expDeadline, true_and]

theorem nextExpiration_some {q : DelayQ} {ex : Expiration} (h : nextExpiration q = some ex) :
    ex.level < 6 ∧ ex.deadline = expDeadline q.wheelElapsed ex.level ex.slot := by
  unfold nextExpiration at h
  obtain ⟨l, hl, hex⟩ := List.exists_of_findSome?_eq_some h
  have := levelNextExpiration_some hex
  rw [this.1]
  exact ⟨List.mem_range.mp hl, this.2⟩

theorem slotTop_fold_mem (l : List DqEntry) (acc : Option DqEntry) (e : DqEntry)
    (h : l.foldl (fun acc e => match acc with
      | none => some e
      | some a => if e.seq > a.seq then some e else some a) acc = some e) :
    e ∈ l ∨ acc = some e := by
  induction l generalizing acc with
  | nil => exact Or.inr h
  | cons x xs ih =>
    rw [List.foldl_cons] at h
    rcases ih _ h with hm | hacc
    · exact Or.inl (List.mem_cons_of_mem _ hm)
    · cases acc with
      | none => simp only [Option.some.injEq] at hacc; subst hacc; exact Or.inl List.mem_cons_self
      | some a =>
        simp only at hacc
        split at hacc
        · simp only [Option.some.injEq] at hacc; subst hacc; exact Or.inl List.mem_cons_self
        · exact Or.inr hacc

theorem slotTop_some {q : DelayQ} {level slot : Nat} {e : DqEntry} (h : slotTop q level slot = some e) :
    e ∈ q.entries ∧ e.level = level ∧ slotFor e.whenMs level = slot := by
  unfold slotTop at h
  rcases slotTop_fold_mem _ _ _ h with hm | hn
  · rw [List.mem_filter] at hm
    simp only [Bool.and_eq_true, beq_iff_eq] at hm
    exact ⟨hm.1, hm.2.1, hm.2.2⟩
  · cases hn

theorem expDeadline_cases (E level slot : Nat) :
    (E - E % levelRange level + slot * slotRange level < E ∧
      expDeadline E level slot = E - E % levelRange level + slot * slotRange level + levelRange level) ∨
    (¬ E - E % levelRange level + slot * slotRange level < E ∧
      expDeadline E level slot = E - E % levelRange level + slot * slotRange level) := by
  unfold expDeadline
  by_cases hc : E - E % levelRange level + slot * slotRange level < E
  · exact Or.inl ⟨hc, if_pos hc⟩
  · exact Or.inr ⟨hc, if_neg hc⟩

/-- Arithmetic of a level-0 slot: an entry not after `elapsed`'s block is not after its slot's deadline. -/
theorem le_expDeadline_zero {E : Nat} {d : DqEntry} (hl : d.level = 0) (hub : SlotUB E d) :
    d.whenMs ≤ expDeadline E 0 (slotFor d.whenMs 0) := by
  have h := hub.1 (by omega)
  rw [hl] at h
  rcases expDeadline_cases E 0 (slotFor d.whenMs 0) with ⟨hc, he⟩ | ⟨hc, he⟩ <;> rw [he] <;>
    simp only [slotFor, slotRange, levelRange, Nat.reducePow, Nat.reduceAdd, Nat.reduceMul, Nat.pow_zero] at h hc ⊢ <;>
    omega

/-- Arithmetic of a cascade: an entry of slot `(level, slot)` fits one level down once `elapsed` has
reached that slot's deadline. -/
theorem cascade_ub {E E' level : Nat} {d : DqEntry} (h1 : 1 ≤ level) (h5 : level ≤ 5)
    (hl : d.level = level) (hub : SlotUB E d)
    (hE : max E (expDeadline E level (slotFor d.whenMs level)) ≤ E') :
    d.whenMs / 64 ^ level ≤ E' / 64 ^ level := by
  refine Nat.le_trans ?_ (Nat.div_le_div_right (Nat.le_trans (Nat.le_max_right _ _) hE))
  have hlv : level = 1 ∨ level = 2 ∨ level = 3 ∨ level = 4 ∨ level = 5 := by omega
  rcases hlv with rfl | rfl | rfl | rfl | rfl
  · have h := hub.1 (by omega); rw [hl] at h
    rcases expDeadline_cases E 1 (slotFor d.whenMs 1) with ⟨hc, he⟩ | ⟨hc, he⟩ <;> rw [he] <;>
      simp only [slotFor, slotRange, levelRange, Nat.reducePow, Nat.reduceAdd, Nat.reduceMul] at h hc ⊢ <;>
      omega
  · have h := hub.1 (by omega); rw [hl] at h
    rcases expDeadline_cases E 2 (slotFor d.whenMs 2) with ⟨hc, he⟩ | ⟨hc, he⟩ <;> rw [he] <;>
      simp only [slotFor, slotRange, levelRange, Nat.reducePow, Nat.reduceAdd, Nat.reduceMul] at h hc ⊢ <;>
      omega
  · have h := hub.1 (by omega); rw [hl] at h
    rcases expDeadline_cases E 3 (slotFor d.whenMs 3) with ⟨hc, he⟩ | ⟨hc, he⟩ <;> rw [he] <;>
      simp only [slotFor, slotRange, levelRange, Nat.reducePow, Nat.reduceAdd, Nat.reduceMul] at h hc ⊢ <;>
      omega
  · have h := hub.1 (by omega); rw [hl] at h
    rcases expDeadline_cases E 4 (slotFor d.whenMs 4) with ⟨hc, he⟩ | ⟨hc, he⟩ <;> rw [he] <;>
      simp only [slotFor, slotRange, levelRange, Nat.reducePow, Nat.reduceAdd, Nat.reduceMul] at h hc ⊢ <;>
      omega
  · have h := hub.2 hl
    rcases expDeadline_cases E 5 (slotFor d.whenMs 5) with ⟨hc, he⟩ | ⟨hc, he⟩ <;> rw [he] <;>
      simp only [slotFor, slotRange, levelRange, delayQMaxMs, Nat.reducePow, Nat.reduceAdd, Nat.reduceMul,
        Nat.reduceSub] at h hc ⊢ <;>
      omega

/-! ### wheel operations only move timers around -/

/-- `q'` holds the wheel timers of `q` (up to their wheel position) except `r`; only the wheel changed. -/
structure Popped (q q' : DelayQ) (r : Option DqEntry) : Prop where
  expired : q'.expired = q.expired
  nextKey : q'.nextKey = q.nextKey
  has : ∀ k v w, HasL q'.entries k v w ↔ (HasL q.entries k v w ∧ ∀ e, r = some e → k ≠ e.key)
  mem : ∀ e, r = some e → HasL q.entries e.key e.val e.whenMs

theorem Popped.refl (q : DelayQ) : Popped q q none :=
  ⟨rfl, rfl, fun k v w => by simp, fun e h => by cases h⟩

theorem Popped.of_eq {q q' : DelayQ} (h1 : q'.expired = q.expired) (h2 : q'.nextKey = q.nextKey)
    (h3 : q'.entries = q.entries) : Popped q q' none :=
  ⟨h1, h2, fun k v w => by simp [h3], fun e h => by cases h⟩

theorem Popped.trans_none {q q1 q2 : DelayQ} {r : Option DqEntry} (h1 : Popped q q1 none)
    (h2 : Popped q1 q2 r) : Popped q q2 r := by
  refine ⟨h2.expired.trans h1.expired, h2.nextKey.trans h1.nextKey, ?_, ?_⟩
  · intro k v w
    rw [h2.has, h1.has]; simp
  · intro e he
    have := h2.mem e he
    rw [h1.has] at this; exact this.1

theorem keys_ne_of_append {l1 l2 : List DqEntry} (h : KeysDistinct (l1 ++ l2)) {k v w k' v' w' : Nat}
    (h1 : HasL l1 k v w) (h2 : HasL l2 k' v' w') : k ≠ k' := by
  obtain ⟨d, hd, rfl, -, -⟩ := h1
  obtain ⟨d', hd', rfl, -, -⟩ := h2
  rw [KeysDistinct, List.pairwise_append] at h
  exact h.2.2 d hd d' hd'

structure WFK (q : DelayQ) : Prop where
  keys : KeysDistinct q.all
  keyLt : ∀ d ∈ q.all, d.key < q.nextKey

theorem WF.wfk {q : DelayQ} (h : WF q) : WFK q := ⟨h.keys, h.keyLt⟩

/-- One cascade step: entry `e` of the wheel is re-pushed one level down. -/
theorem cascade_step_wfk {q : DelayQ} (h : WFK q) {e : DqEntry} (he : e ∈ q.entries) (lv sq ctr : Nat) :
    WFK { q with entries := (q.entries.filter (·.key != e.key)) ++ [{ e with level := lv, seq := sq }],
                 seqCtr := ctr } := by
  have hk := h.keys
  simp only [all, KeysDistinct, List.pairwise_append] at hk
  constructor
  · simp only [all, KeysDistinct, List.pairwise_append, List.mem_append, List.mem_filter, List.mem_singleton,
      bne_iff_ne, ne_eq, List.pairwise_cons, List.not_mem_nil, false_implies, implies_true, List.Pairwise.nil,
      and_self, true_and]
    refine ⟨⟨hk.1.filter _, ?_⟩, hk.2.1, ?_⟩
    · rintro a ⟨-, hne⟩ b rfl; exact hne
    · rintro a (⟨ha, -⟩ | rfl) b hb
      · exact hk.2.2 a ha b hb
      · exact hk.2.2 e he b hb
  · intro d hd
    simp only [all, List.mem_append, List.mem_filter, List.mem_singleton] at hd
    rcases hd with (⟨hd, -⟩ | rfl) | hd
    · exact h.keyLt d (by simp [all, hd])
    · exact h.keyLt e (by simp [all, he])
    · exact h.keyLt d (by simp [all, hd])

theorem cascade_step_popped {q : DelayQ} (h : WFK q) {e : DqEntry} (he : e ∈ q.entries) (lv sq ctr : Nat) :
    Popped q { q with entries := (q.entries.filter (·.key != e.key)) ++ [{ e with level := lv, seq := sq }],
                      seqCtr := ctr } none := by
  refine ⟨rfl, rfl, ?_, fun e h => by cases h⟩
  intro k v w
  simp only [hasL_append, hasL_filter_key, reduceCtorEq, false_implies, implies_true, and_true]
  have hk : KeysDistinct q.entries := by
    have := h.keys; simp only [all, KeysDistinct, List.pairwise_append] at this; exact this.1
  constructor
  · rintro (⟨h1, -⟩ | ⟨d, hd, h1, h2, h3⟩)
    · exact h1
    · simp only [List.mem_singleton] at hd; subst hd
      exact ⟨e, he, h1, h2, h3⟩
  · rintro ⟨d, hd, h1, h2, h3⟩
    by_cases hke : k = e.key
    · right
      have : d = e := keysDistinct_inj hk hd he (by rw [h1, hke])
      subst this
      exact ⟨_, List.mem_singleton.mpr rfl, h1, h2, h3⟩
    · exact Or.inl ⟨⟨d, hd, h1, h2, h3⟩, hke⟩

theorem cascade_spec (fuel : Nat) (q : DelayQ) (level slot : Nat) (h : WFK q) :
    WFK (cascade fuel q level slot) ∧ Popped q (cascade fuel q level slot) none ∧
    (cascade fuel q level slot).wheelElapsed = q.wheelElapsed ∧
    (cascade fuel q level slot).wheelNow = q.wheelNow ∧
    ∀ d' ∈ (cascade fuel q level slot).entries, d' ∈ q.entries ∨
      ∃ d ∈ q.entries, d.level = level ∧ slotFor d.whenMs level = slot ∧ d'.level = level - 1 ∧
        d'.whenMs = d.whenMs := by
  induction fuel generalizing q with
  | zero => exact ⟨h, Popped.refl q, rfl, rfl, fun d' hd' => Or.inl hd'⟩
  | succ fuel ih =>
    unfold cascade
    cases hst : slotTop q level slot with
    | none => exact ⟨h, Popped.refl q, rfl, rfl, fun d' hd' => Or.inl hd'⟩
    | some e =>
      simp only
      obtain ⟨he, hel, hes⟩ := slotTop_some hst
      have h1 := cascade_step_wfk h he (level - 1) q.seqCtr (q.seqCtr + 1)
      have p1 := cascade_step_popped h he (level - 1) q.seqCtr (q.seqCtr + 1)
      obtain ⟨i1, i2, i3, i4, i5⟩ := ih _ h1
      refine ⟨i1, p1.trans_none i2, i3, i4, ?_⟩
      intro d' hd'
      rcases i5 d' hd' with hm | ⟨d, hd, hdl, hds, hdl', hdw⟩
      · simp only [List.mem_append, List.mem_filter, List.mem_singleton] at hm
        rcases hm with ⟨hm, -⟩ | rfl
        · exact Or.inl hm
        · exact Or.inr ⟨e, he, hel, hes, rfl, rfl⟩
      · simp only [List.mem_append, List.mem_filter, List.mem_singleton] at hd
        rcases hd with ⟨hm, -⟩ | rfl
        · exact Or.inr ⟨d, hm, hdl, hds, hdl', hdw⟩
        · exact Or.inr ⟨e, he, hel, hes, hdl', hdw⟩

theorem WF.elapsed_mono {q : DelayQ} (h : WF q) (E : Nat) :
    WF { q with wheelElapsed := max q.wheelElapsed E } :=
  ⟨h.keys, h.keyLt, fun d hd => (h.ub d hd).mono (Nat.le_max_left _ _)⟩

/-- `Wheel::poll` at time `t` (ms): only yields an entry whose deadline is `≤ t`, never advances
`elapsed` past `max elapsed t`, and otherwise only moves timers around. -/
theorem wheelPoll_spec (fuel : Nat) (q : DelayQ) (t : Nat) (h : WF q) :
    WF (wheelPoll fuel q t).1 ∧ Popped q (wheelPoll fuel q t).1 (wheelPoll fuel q t).2 ∧
    (wheelPoll fuel q t).1.wheelElapsed ≤ max q.wheelElapsed t ∧
    (wheelPoll fuel q t).1.wheelNow = q.wheelNow ∧
    ∀ e, (wheelPoll fuel q t).2 = some e → e.whenMs ≤ t := by
  induction fuel generalizing q with
  | zero => exact ⟨h, Popped.refl q, Nat.le_max_left _ _, rfl, fun e he => by cases he⟩
  | succ fuel ih =>
    unfold wheelPoll
    cases hne : nextExpiration q with
    | none =>
      exact ⟨h.elapsed_mono t, Popped.of_eq rfl rfl rfl, Nat.le_refl _, by trivial, fun e he => by cases he⟩
    | some ex =>
      obtain ⟨hlv, hdl⟩ := nextExpiration_some hne
      simp only
      by_cases hgt : ex.deadline > t
      · simp only [hgt, ↓reduceIte]
        exact ⟨h.elapsed_mono t, Popped.of_eq rfl rfl rfl, Nat.le_refl _, by trivial, fun e he => by cases he⟩
      · simp only [hgt, ↓reduceIte]
        by_cases hl0 : ex.level = 0
        · simp only [hl0, beq_self_eq_true, ↓reduceIte]
          cases hst : slotTop q 0 ex.slot with
          | none => exact ⟨h, Popped.refl q, Nat.le_max_left _ _, by trivial, fun e he => by cases he⟩
          | some e =>
            obtain ⟨he, hel, hes⟩ := slotTop_some hst
            simp only
            have hk := h.keys
            simp only [all, KeysDistinct, List.pairwise_append] at hk
            refine ⟨⟨?_, ?_, ?_⟩, ⟨rfl, rfl, ?_, ?_⟩, Nat.le_max_left _ _, by trivial, ?_⟩
            · simp only [all, KeysDistinct, List.pairwise_append, List.mem_filter]
              exact ⟨hk.1.filter _, hk.2.1, fun a ha b hb => hk.2.2 a ha.1 b hb⟩
            · intro d hd
              simp only [all, List.mem_append, List.mem_filter] at hd
              rcases hd with ⟨hd, -⟩ | hd
              · exact h.keyLt d (by simp [all, hd])
              · exact h.keyLt d (by simp [all, hd])
            · intro d hd
              exact h.ub d (List.mem_filter.mp hd).1
            · intro k v w
              simp only [hasL_filter_key, Option.some.injEq]
              constructor
              · rintro ⟨h1, h2⟩; exact ⟨h1, fun e' he' => by rw [← he']; exact h2⟩
              · rintro ⟨h1, h2⟩; exact ⟨h1, h2 e rfl⟩
            · intro e' he'
              simp only [Option.some.injEq] at he'; subst he'
              exact ⟨e, he, rfl, rfl, rfl⟩
            · intro e' he'
              simp only [Option.some.injEq] at he'; subst he'
              have := le_expDeadline_zero hel (h.ub e he)
              rw [hes, ← hl0, ← hdl] at this
              omega
        · have hl0' : (ex.level == 0) = false := by simpa using hl0
          simp only [hl0', Bool.false_eq_true, ↓reduceIte]
          obtain ⟨c1, c2, c3, c4, c5⟩ := cascade_spec (q.entries.length + 1) q ex.level ex.slot h.wfk
          generalize cascade (q.entries.length + 1) q ex.level ex.slot = qc at c1 c2 c3 c4 c5 ⊢
          have hwf : WF { qc with wheelElapsed := max qc.wheelElapsed ex.deadline } := by
            refine ⟨c1.keys, c1.keyLt, ?_⟩
            intro d' hd'
            simp only [c3]
            rcases c5 d' hd' with hm | ⟨d, hd, hdl', hds, hdl2, hdw⟩
            · exact (h.ub d' hm).mono (Nat.le_max_left _ _)
            · constructor
              · intro _
                rw [hdl2, hdw, Nat.sub_add_cancel (by omega)]
                apply cascade_ub (by omega) (by omega) hdl' (h.ub d hd)
                rw [hds, ← hdl]; exact Nat.le_refl _
              · intro h5; omega
          obtain ⟨i1, i2, i3, i4, i5⟩ := ih _ hwf
          refine ⟨i1, ?_, ?_, ?_, i5⟩
          · exact c2.trans_none ((Popped.of_eq (q := qc) (q' := { qc with wheelElapsed := max qc.wheelElapsed ex.deadline }) rfl rfl rfl).trans_none i2)
          · refine Nat.le_trans i3 ?_
            simp only [c3]
            omega
          · rw [i4]; exact c4

/-! ### `poll_expired` -/

theorem mul_le_of_le_max {a b c n x : Nat} (h : a ≤ max b c) (hb : b * n ≤ x) (hc : c * n ≤ x) : a * n ≤ x := by
  rcases Nat.le_total b c with hbc | hbc
  · rw [Nat.max_eq_right hbc] at h; exact Nat.le_trans (Nat.mul_le_mul_right n h) hc
  · rw [Nat.max_eq_left hbc] at h; exact Nat.le_trans (Nat.mul_le_mul_right n h) hb

/-- the entry a poll yielded, if any -/
def PollRes.entry : PollRes → Option DqEntry
  | .expired e => Option.some e
  | _ => Option.none

/-- the common tail of the two branches of `pollIdx` -/
def pollTail (fuel : Nat) (q1 : DelayQ) (now : Nat) : DelayQ × PollRes :=
  let (q, r) := wheelPoll (wheelFuel q1) q1 q1.wheelNow
  let q := { q with delay := nextDeadline q }
  match r with
  | some e => (q, .expired e)
  | none => if q.delay.isNone then ({ q with waker := true }, .none) else pollIdx fuel q now

theorem pollIdx_succ (fuel : Nat) (q : DelayQ) (now : Nat) :
    pollIdx (fuel + 1) q now =
      match q.delay with
      | some dl => if now < dl * nsPerMs then ({ q with waker := true }, .pending)
                   else pollTail fuel { q with wheelNow := dl } now
      | none => pollTail fuel q now := by
  unfold pollIdx pollTail
  cases q.delay <;> rfl

/-- What a poll guarantees. -/
structure PollOK (q : DelayQ) (now : Nat) (r : DelayQ × PollRes) : Prop where
  wf : WF r.1
  timely : Timely r.1 now
  popped : Popped q r.1 r.2.entry
  due : ∀ e, r.2 = .expired e → e.whenMs * nsPerMs ≤ now

theorem pollTail_ok (fuel : Nat) (q1 : DelayQ) (now : Nat) (h : WF q1) (ht : Timely q1 now)
    (ih : ∀ q, WF q → Timely q now → PollOK q now (pollIdx fuel q now)) :
    PollOK q1 now (pollTail fuel q1 now) := by
  unfold pollTail
  obtain ⟨w1, w2, w3, w4, w5⟩ := wheelPoll_spec (wheelFuel q1) q1 q1.wheelNow h
  rcases hwp : wheelPoll (wheelFuel q1) q1 q1.wheelNow with ⟨q2, r⟩
  rw [hwp] at w1 w2 w3 w4 w5
  simp only at w1 w2 w3 w4 w5 ⊢
  have hwf3 : WF { q2 with delay := nextDeadline q2 } := ⟨w1.keys, w1.keyLt, w1.ub⟩
  have hel := ht.elapsed
  have hwn := ht.wheelNow
  have ht3 : Timely { q2 with delay := nextDeadline q2 } now := by
    refine ⟨?_, ?_, ?_⟩
    · exact mul_le_of_le_max w3 hel hwn
    · simp only [w4]; exact hwn
    · simp only [w2.expired]; exact ht.expired
  have hp3 : Popped q1 { q2 with delay := nextDeadline q2 } r := ⟨w2.expired, w2.nextKey, w2.has, w2.mem⟩
  cases r with
  | some e =>
    refine ⟨hwf3, ht3, hp3, ?_⟩
    intro e' he'
    simp only [PollRes.expired.injEq] at he'; subst he'
    have := w5 e rfl
    exact Nat.le_trans (Nat.mul_le_mul_right _ this) hwn
  | none =>
    simp only
    split
    · exact ⟨⟨w1.keys, w1.keyLt, w1.ub⟩, ⟨ht3.elapsed, ht3.wheelNow, ht3.expired⟩,
        ⟨hp3.expired, hp3.nextKey, hp3.has, hp3.mem⟩, fun e he => by cases he⟩
    · have := ih _ hwf3 ht3
      exact ⟨this.wf, this.timely, hp3.trans_none this.popped, this.due⟩

theorem pollIdx_ok (fuel : Nat) (q : DelayQ) (now : Nat) (h : WF q) (ht : Timely q now) :
    PollOK q now (pollIdx fuel q now) := by
  induction fuel generalizing q with
  | zero => exact ⟨h, ht, Popped.refl q, fun e he => by cases he⟩
  | succ fuel ih =>
    rw [pollIdx_succ]
    cases hd : q.delay with
    | none => exact pollTail_ok fuel q now h ht ih
    | some dl =>
      simp only
      split
      · exact ⟨⟨h.keys, h.keyLt, h.ub⟩, ⟨ht.elapsed, ht.wheelNow, ht.expired⟩, Popped.of_eq rfl rfl rfl,
          fun e he => by cases he⟩
      · rename_i hlt
        have := pollTail_ok fuel { q with wheelNow := dl, delay := some dl } now ⟨h.keys, h.keyLt, h.ub⟩
          ⟨ht.elapsed, by simp only; omega, ht.expired⟩ ih
        exact ⟨this.wf, this.timely,
          (Popped.of_eq (q := q) (q' := { q with wheelNow := dl, delay := some dl }) rfl rfl rfl).trans_none
          this.popped, this.due⟩

theorem Popped.has_none {q q' : DelayQ} (h : Popped q q' none) (k v w : Nat) : Has q' k v w ↔ Has q k v w := by
  rw [has_iff, has_iff, h.has, h.expired]; simp

theorem Popped.has_some {q q' : DelayQ} {e : DqEntry} (hq : WF q) (h : Popped q q' (some e)) :
    Has q e.key e.val e.whenMs ∧ ∀ k v w, Has q' k v w ↔ (Has q k v w ∧ k ≠ e.key) := by
  have hm := h.mem e rfl
  refine ⟨has_iff.mpr (Or.inl hm), ?_⟩
  intro k v w
  rw [has_iff, has_iff, h.has, h.expired]
  simp only [Option.some.injEq]
  constructor
  · rintro (⟨h1, h2⟩ | h1)
    · exact ⟨Or.inl h1, h2 e rfl⟩
    · exact ⟨Or.inr h1, (keys_ne_of_append hq.keys hm h1).symm⟩
  · rintro ⟨h1 | h1, h2⟩
    · exact Or.inl ⟨h1, fun e' he' => by subst he'; exact h2⟩
    · exact Or.inr h1

/-- What `poll_expired` guarantees: a yielded timer was armed, is due (`whenMs * nsPerMs ≤ now`), and is the only
one removed; otherwise the armed timers are unchanged. -/
structure ExpiredOK (q : DelayQ) (now : Nat) (r : DelayQ × PollRes) : Prop where
  wf : WF r.1
  timely : Timely r.1 now
  nextKey : r.1.nextKey = q.nextKey
  some : ∀ e, r.2 = .expired e → Has q e.key e.val e.whenMs ∧ e.whenMs * nsPerMs ≤ now ∧
    ∀ k v w, Has r.1 k v w ↔ (Has q k v w ∧ k ≠ e.key)
  none : r.2.entry = Option.none → ∀ k v w, Has r.1 k v w ↔ Has q k v w

theorem pollExpired_nil {q : DelayQ} (now : Nat) (hex : q.expired = []) :
    q.pollExpired now = pollIdx (wheelFuel { q with waker := true } + 8) { q with waker := true } now := by
  unfold pollExpired; simp only [hex]

theorem pollExpired_cons {q : DelayQ} (now : Nat) {e : DqEntry} {rest : List DqEntry} (hex : q.expired = e :: rest) :
    q.pollExpired now = ({ q with waker := true, expired := rest }, .expired e) := by
  unfold pollExpired; simp only [hex]

theorem pollExpired_spec (q : DelayQ) (now : Nat) (h : WF q) (ht : Timely q now) :
    ExpiredOK q now (q.pollExpired now) := by
  cases hex : q.expired with
  | nil =>
    rw [pollExpired_nil now hex]
    have hwf : WF { q with waker := true } := ⟨h.keys, h.keyLt, h.ub⟩
    have htt : Timely { q with waker := true } now := ⟨ht.elapsed, ht.wheelNow, ht.expired⟩
    have := pollIdx_ok (wheelFuel { q with waker := true } + 8) { q with waker := true } now hwf htt
    have hp : Popped q (pollIdx (wheelFuel { q with waker := true } + 8) { q with waker := true } now).1
        (pollIdx (wheelFuel { q with waker := true } + 8) { q with waker := true } now).2.entry :=
      (Popped.of_eq (q := q) (q' := { q with waker := true }) rfl rfl rfl).trans_none this.popped
    refine ⟨this.wf, this.timely, hp.nextKey, ?_, ?_⟩
    · intro e he
      rw [he] at hp
      have := this.due e he
      obtain ⟨a, b⟩ := hp.has_some h
      exact ⟨a, this, b⟩
    · intro hn
      rw [hn] at hp
      exact hp.has_none
  | cons e rest =>
    rw [pollExpired_cons now hex]
    have hk := h.keys
    simp only [all, hex, KeysDistinct, List.pairwise_append, List.pairwise_cons, List.mem_cons, forall_eq_or_imp] at hk
    refine ⟨⟨?_, ?_, h.ub⟩, ⟨ht.elapsed, ht.wheelNow, ?_⟩, rfl, ?_, ?_⟩
    · simp only [all, KeysDistinct, List.pairwise_append]
      exact ⟨hk.1, hk.2.1.2, fun a ha b hb => (hk.2.2 a ha).2 b hb⟩
    · intro d hd
      simp only [all, List.mem_append] at hd
      apply h.keyLt
      simp only [all, hex, List.mem_append, List.mem_cons]
      rcases hd with hd | hd
      · exact Or.inl hd
      · exact Or.inr (Or.inr hd)
    · intro d hd
      exact ht.expired d (by rw [hex]; exact List.mem_cons_of_mem _ hd)
    · intro e' he'
      simp only [PollRes.expired.injEq] at he'; subst he'
      refine ⟨?_, ht.expired e (by rw [hex]; exact List.mem_cons_self), ?_⟩
      · exact has_iff.mpr (Or.inr ⟨e, by rw [hex]; exact List.mem_cons_self, rfl, rfl, rfl⟩)
      · intro k v w
        simp only [has_iff, hex]
        constructor
        · rintro (⟨d, hd, h1, h2, h3⟩ | ⟨d, hd, h1, h2, h3⟩)
          · exact ⟨Or.inl ⟨d, hd, h1, h2, h3⟩, by rw [← h1]; exact (hk.2.2 d hd).1⟩
          · exact ⟨Or.inr ⟨d, List.mem_cons_of_mem _ hd, h1, h2, h3⟩, by rw [← h1]; exact (hk.2.1.1 d hd).symm⟩
        · rintro ⟨h1 | ⟨d, hd, h1, h2, h3⟩, hne⟩
          · exact Or.inl h1
          · rcases List.mem_cons.mp hd with rfl | hd
            · exact absurd h1.symm hne
            · exact Or.inr ⟨d, hd, h1, h2, h3⟩
    · intro hn; simp [PollRes.entry] at hn

/-! ### `insert`, `remove`, `clear` -/

/-- the queue after `insert` stored the new entry (before the `delay` bookkeeping) -/
def insertCore (q : DelayQ) (when val : Nat) : DelayQ :=
  if when ≤ q.wheelElapsed then
    { q with expired := { key := q.nextKey, val := val, whenMs := when } :: q.expired, nextKey := q.nextKey + 1 }
  else
    { q with entries := q.entries ++ [{ key := q.nextKey, val := val, whenMs := when,
                                        level := levelFor q.wheelElapsed when, seq := q.seqCtr }],
             seqCtr := q.seqCtr + 1, nextKey := q.nextKey + 1 }

/-- the deadline (ms) `insert` computes -/
def insertWhen (q : DelayQ) (now timeout : Nat) : Nat := max (ceilMs (now + timeout)) q.wheelElapsed

theorem le_insertWhen (q : DelayQ) (now timeout : Nat) : now + timeout ≤ insertWhen q now timeout * nsPerMs := by
  have h1 : now + timeout ≤ ceilMs (now + timeout) * nsPerMs := by
    simp only [ceilMs, nsPerMs]; omega
  exact Nat.le_trans h1 (Nat.mul_le_mul_right _ (Nat.le_max_left _ _))

def insertShouldSet (q : DelayQ) (when : Nat) : Bool :=
  match q.delay with
  | some dl => decide (max dl q.wheelElapsed > when)
  | none => true

/-- `insert` re-arms the `Sleep` -/
def withDelay (q : DelayQ) (d : Nat) : DelayQ := { q with delay := some d, waker := false }

theorem insert_eq (q : DelayQ) (now timeout val : Nat) :
    q.insert now timeout val =
      if insertWhen q now timeout > q.wheelElapsed && insertWhen q now timeout - q.wheelElapsed > delayQMaxMs then
        (q, .panic, false)
      else if insertShouldSet q (insertWhen q now timeout) then
        (withDelay (insertCore q (insertWhen q now timeout) val) (insertWhen q now timeout), .ok q.nextKey, q.waker)
      else (insertCore q (insertWhen q now timeout) val, .ok q.nextKey, false) := by
  unfold insert insertCore insertWhen insertShouldSet withDelay
  rfl

theorem insert_ok_eq {q q' : DelayQ} {now timeout val k : Nat} {b : Bool}
    (hi : q.insert now timeout val = (q', .ok k, b)) :
    k = q.nextKey ∧ insertWhen q now timeout - q.wheelElapsed ≤ delayQMaxMs ∧
    (q' = insertCore q (insertWhen q now timeout) val ∨
     q' = withDelay (insertCore q (insertWhen q now timeout) val) (insertWhen q now timeout)) := by
  rw [insert_eq] at hi
  by_cases hp : (insertWhen q now timeout > q.wheelElapsed && insertWhen q now timeout - q.wheelElapsed > delayQMaxMs) = true
  · rw [if_pos hp] at hi
    simp only [Prod.mk.injEq, reduceCtorEq, false_and, and_false] at hi
  · rw [if_neg hp] at hi
    have hp' : insertWhen q now timeout - q.wheelElapsed ≤ delayQMaxMs := by
      simp only [Bool.and_eq_true, decide_eq_true_eq, not_and, Nat.not_lt] at hp
      by_cases hgt : insertWhen q now timeout > q.wheelElapsed
      · exact hp hgt
      · omega
    by_cases hc : insertShouldSet q (insertWhen q now timeout) = true
    · rw [if_pos hc] at hi
      simp only [Prod.mk.injEq, InsertRes.ok.injEq] at hi
      exact ⟨hi.2.1.symm, hp', Or.inr hi.1.symm⟩
    · rw [if_neg hc] at hi
      simp only [Prod.mk.injEq, InsertRes.ok.injEq] at hi
      exact ⟨hi.2.1.symm, hp', Or.inl hi.1.symm⟩

theorem insertCore_wf {q : DelayQ} (h : WF q) (when val : Nat) (hw : when - q.wheelElapsed ≤ delayQMaxMs) :
    WF (insertCore q when val) := by
  have hk := h.keys
  simp only [all, KeysDistinct, List.pairwise_append] at hk
  unfold insertCore
  split
  · refine ⟨?_, ?_, h.ub⟩
    · simp only [all, KeysDistinct, List.pairwise_append, List.pairwise_cons, List.mem_cons, forall_eq_or_imp]
      refine ⟨hk.1, ⟨?_, hk.2.1⟩, fun a ha => ⟨?_, hk.2.2 a ha⟩⟩
      · intro d hd; have := h.keyLt d (by simp [all, hd]); omega
      · have := h.keyLt a (by simp [all, ha]); omega
    · intro d hd
      simp only [all, List.mem_append, List.mem_cons] at hd
      rcases hd with hd | rfl | hd
      · have := h.keyLt d (by simp [all, hd]); simp only; omega
      · simp
      · have := h.keyLt d (by simp [all, hd]); simp only; omega
  · rename_i hgt
    refine ⟨?_, ?_, ?_⟩
    · simp only [all, KeysDistinct, List.pairwise_append, List.pairwise_cons, List.mem_append, List.mem_singleton,
        List.not_mem_nil, false_implies, implies_true, List.Pairwise.nil, and_self, and_true]
      refine ⟨⟨hk.1, ?_⟩, hk.2.1, ?_⟩
      · refine ⟨trivial, ?_⟩
        rintro a ha b rfl; have := h.keyLt a (by simp [all, ha]); simp only; omega
      · rintro a (ha | rfl) b hb
        · exact hk.2.2 a ha b hb
        · have := h.keyLt b (by simp [all, hb]); simp only; omega
    · intro d hd
      simp only [all, List.mem_append, List.mem_singleton] at hd
      rcases hd with (hd | rfl) | hd
      · have := h.keyLt d (by simp [all, hd]); simp only; omega
      · simp
      · have := h.keyLt d (by simp [all, hd]); simp only; omega
    · intro d hd
      simp only [List.mem_append, List.mem_singleton] at hd
      rcases hd with hd | rfl
      · exact h.ub d hd
      · constructor
        · intro hl; simp only at hl ⊢; exact Nat.le_of_eq (levelFor_lt_five hl)
        · intro _; simp only; omega

theorem insertCore_has (q : DelayQ) (when val : Nat) (k v w : Nat) :
    Has (insertCore q when val) k v w ↔ (Has q k v w ∨ (k = q.nextKey ∧ v = val ∧ w = when)) := by
  unfold insertCore
  split
  · simp only [has_iff, HasL, List.mem_cons]
    constructor
    · rintro (h1 | ⟨d, rfl | hd, h1, h2, h3⟩)
      · exact Or.inl (Or.inl h1)
      · exact Or.inr ⟨h1.symm, h2.symm, h3.symm⟩
      · exact Or.inl (Or.inr ⟨d, hd, h1, h2, h3⟩)
    · rintro ((h1 | ⟨d, hd, h1, h2, h3⟩) | ⟨h1, h2, h3⟩)
      · exact Or.inl h1
      · exact Or.inr ⟨d, Or.inr hd, h1, h2, h3⟩
      · exact Or.inr ⟨_, Or.inl rfl, h1.symm, h2.symm, h3.symm⟩
  · simp only [has_iff, HasL, List.mem_append, List.mem_singleton]
    constructor
    · rintro (⟨d, hd | rfl, h1, h2, h3⟩ | h1)
      · exact Or.inl (Or.inl ⟨d, hd, h1, h2, h3⟩)
      · exact Or.inr ⟨h1.symm, h2.symm, h3.symm⟩
      · exact Or.inl (Or.inr h1)
    · rintro ((⟨d, hd, h1, h2, h3⟩ | h1) | ⟨h1, h2, h3⟩)
      · exact Or.inl ⟨d, Or.inl hd, h1, h2, h3⟩
      · exact Or.inr h1
      · exact Or.inl ⟨_, Or.inr rfl, h1.symm, h2.symm, h3.symm⟩

theorem insertCore_timely {q : DelayQ} {t : Nat} (ht : Timely q t) (when val : Nat) :
    Timely (insertCore q when val) t := by
  unfold insertCore
  split
  · rename_i hle
    refine ⟨ht.elapsed, ht.wheelNow, ?_⟩
    intro d hd
    rcases List.mem_cons.mp hd with rfl | hd
    · exact Nat.le_trans (Nat.mul_le_mul_right _ hle) ht.elapsed
    · exact ht.expired d hd
  · exact ⟨ht.elapsed, ht.wheelNow, ht.expired⟩

/-- `WF`, `Timely` and `Has` only depend on these fields. -/
theorem wf_of_fields {q q' : DelayQ} (h : WF q) (he : q'.entries = q.entries) (hx : q'.expired = q.expired)
    (hn : q'.nextKey = q.nextKey) (hE : q'.wheelElapsed = q.wheelElapsed) : WF q' := by
  refine ⟨?_, ?_, ?_⟩
  · have := h.keys; simp only [all, he, hx] at this ⊢; exact this
  · have := h.keyLt; simp only [all, he, hx, hn] at this ⊢; exact this
  · have := h.ub; simp only [he, hE] at this ⊢; exact this

theorem timely_of_fields {q q' : DelayQ} {t : Nat} (h : Timely q t) (hx : q'.expired = q.expired)
    (hE : q'.wheelElapsed = q.wheelElapsed) (hN : q'.wheelNow = q.wheelNow) : Timely q' t :=
  ⟨by rw [hE]; exact h.elapsed, by rw [hN]; exact h.wheelNow, by rw [hx]; exact h.expired⟩

theorem has_of_fields {q q' : DelayQ} (he : q'.entries = q.entries) (hx : q'.expired = q.expired) (k v w : Nat) :
    Has q' k v w ↔ Has q k v w := by
  rw [has_iff, has_iff, he, hx]

/-- What a successful `insert` guarantees. -/
structure InsertOK (q : DelayQ) (now timeout val : Nat) (q' : DelayQ) (k : Nat) : Prop where
  wf : WF q'
  key : k = q.nextKey
  has : ∀ k' v' w', Has q' k' v' w' ↔ (Has q k' v' w' ∨ (k' = k ∧ v' = val ∧ w' = insertWhen q now timeout))
  timely : ∀ t, Timely q t → Timely q' t

theorem insertOK_withDelay {q qc : DelayQ} {now timeout val k : Nat} (d : Nat)
    (h : InsertOK q now timeout val qc k) : InsertOK q now timeout val (withDelay qc d) k := by
  have e1 : (withDelay qc d).entries = qc.entries := rfl
  have e2 : (withDelay qc d).expired = qc.expired := rfl
  have e3 : (withDelay qc d).nextKey = qc.nextKey := rfl
  have e4 : (withDelay qc d).wheelElapsed = qc.wheelElapsed := rfl
  have e5 : (withDelay qc d).wheelNow = qc.wheelNow := rfl
  refine ⟨wf_of_fields h.wf e1 e2 e3 e4, h.key, ?_, fun t ht => timely_of_fields (h.timely t ht) e2 e4 e5⟩
  intro k' v' w'
  rw [has_of_fields e1 e2, h.has]

theorem insertCore_ok {q : DelayQ} (now timeout val : Nat) (h : WF q)
    (hw : insertWhen q now timeout - q.wheelElapsed ≤ delayQMaxMs) :
    InsertOK q now timeout val (insertCore q (insertWhen q now timeout) val) q.nextKey := by
  refine ⟨?_, ?_, ?_, ?_⟩
  · exact insertCore_wf h _ _ hw
  · rfl
  · exact insertCore_has q _ _
  · intro t ht; exact insertCore_timely ht (insertWhen q now timeout) val

theorem insert_spec {q q' : DelayQ} {now timeout val k : Nat} {b : Bool} (h : WF q)
    (hi : q.insert now timeout val = (q', .ok k, b)) : InsertOK q now timeout val q' k := by
  obtain ⟨hk, hw, hq | hq⟩ := insert_ok_eq hi
  · rw [hq, hk]; exact insertCore_ok now timeout val h hw
  · rw [hq, hk]; exact insertOK_withDelay _ (insertCore_ok now timeout val h hw)

theorem remove_eq_none_iff (q : DelayQ) (key : Nat) : q.remove key = none ↔ ¬ ∃ v w, Has q key v w := by
  unfold remove
  simp only [has_iff, HasL]
  constructor
  · intro h
    split at h
    · simp at h
    · rename_i hn
      simp only [Bool.or_eq_true, List.any_eq_true, beq_iff_eq, not_or, not_exists, not_and] at hn
      rintro ⟨v, w, ⟨d, hd, h1, -⟩ | ⟨d, hd, h1, -⟩⟩
      · exact hn.1 d hd h1
      · exact hn.2 d hd h1
  · intro h
    split
    · rename_i hy
      exfalso; apply h
      simp only [Bool.or_eq_true, List.any_eq_true, beq_iff_eq] at hy
      rcases hy with ⟨d, hd, h1⟩ | ⟨d, hd, h1⟩
      · exact ⟨d.val, d.whenMs, Or.inl ⟨d, hd, h1, rfl, rfl⟩⟩
      · exact ⟨d.val, d.whenMs, Or.inr ⟨d, hd, h1, rfl, rfl⟩⟩
    · rfl

/-- What a successful `remove` guarantees. -/
structure RemoveOK (q : DelayQ) (key : Nat) (q' : DelayQ) : Prop where
  wf : WF q'
  nextKey : q'.nextKey = q.nextKey
  has : ∀ k v w, Has q' k v w ↔ (Has q k v w ∧ k ≠ key)
  timely : ∀ t, Timely q t → Timely q' t

theorem remove_fields {q q' : DelayQ} {key : Nat} {b : Bool} (hr : q.remove key = some (q', b)) :
    q'.entries = q.entries.filter (·.key != key) ∧ q'.expired = q.expired.filter (·.key != key) ∧
    q'.nextKey = q.nextKey ∧ q'.wheelElapsed = q.wheelElapsed ∧ q'.wheelNow = q.wheelNow := by
  unfold remove at hr
  split at hr
  · simp only [Option.some.injEq, Prod.mk.injEq] at hr
    obtain ⟨hr, -⟩ := hr
    subst hr
    simp only
    split <;> simp
  · cases hr

theorem remove_spec {q q' : DelayQ} {key : Nat} {b : Bool} (h : WF q) (hr : q.remove key = some (q', b)) :
    RemoveOK q key q' := by
  obtain ⟨f1, f2, f3, f4, f5⟩ := remove_fields hr
  have hk := h.keys
  simp only [all, KeysDistinct, List.pairwise_append] at hk
  refine ⟨⟨?_, ?_, ?_⟩, f3, ?_, ?_⟩
  · simp only [all, KeysDistinct, List.pairwise_append, f1, f2, List.mem_filter]
    exact ⟨hk.1.filter _, hk.2.1.filter _, fun a ha b hb => hk.2.2 a ha.1 b hb.1⟩
  · intro d hd
    simp only [all, f1, f2, List.mem_append, List.mem_filter] at hd
    rw [f3]
    rcases hd with ⟨hd, -⟩ | ⟨hd, -⟩
    · exact h.keyLt d (by simp [all, hd])
    · exact h.keyLt d (by simp [all, hd])
  · intro d hd
    rw [f1] at hd; rw [f4]
    exact h.ub d (List.mem_filter.mp hd).1
  · intro k v w
    rw [has_iff, has_iff, f1, f2, hasL_filter_key, hasL_filter_key]
    constructor
    · rintro (⟨h1, h2⟩ | ⟨h1, h2⟩)
      · exact ⟨Or.inl h1, h2⟩
      · exact ⟨Or.inr h1, h2⟩
    · rintro ⟨h1 | h1, h2⟩
      · exact Or.inl ⟨h1, h2⟩
      · exact Or.inr ⟨h1, h2⟩
  · intro t ht
    refine ⟨by rw [f4]; exact ht.elapsed, by rw [f5]; exact ht.wheelNow, ?_⟩
    intro d hd
    rw [f2] at hd
    exact ht.expired d (List.mem_filter.mp hd).1

theorem clear_wf (q : DelayQ) : WF q.clear :=
  ⟨by simp [clear, all, KeysDistinct], by simp [clear, all], by simp [clear]⟩

theorem clear_timely {q : DelayQ} {t : Nat} (ht : Timely q t) : Timely q.clear t :=
  ⟨by simp [clear], ht.wheelNow, by simp [clear]⟩

theorem clear_has (q : DelayQ) (k v w : Nat) : ¬ Has q.clear k v w := by
  simp [clear, has_iff, HasL]

theorem empty_wf : WF ({} : DelayQ) :=
  ⟨by simp [all, KeysDistinct], by simp [all], by simp⟩

theorem empty_timely (t : Nat) : Timely ({} : DelayQ) t := ⟨by simp, by simp, by simp⟩

theorem empty_has (k v w : Nat) : ¬ Has ({} : DelayQ) k v w := by simp [has_iff, HasL]

/-- Changing only the stored waker flag does not matter. -/
theorem wf_waker {q : DelayQ} (h : WF q) (b : Bool) : WF { q with waker := b } := ⟨h.keys, h.keyLt, h.ub⟩
theorem timely_waker {q : DelayQ} {t : Nat} (h : Timely q t) (b : Bool) : Timely { q with waker := b } t :=
  ⟨h.elapsed, h.wheelNow, h.expired⟩

/-- With distinct keys the number of armed timers is the number of distinct keys. -/
theorem len_eq_all (q : DelayQ) : q.len = q.all.length := by simp [len, all]

end DelayQ
end TarpcModel

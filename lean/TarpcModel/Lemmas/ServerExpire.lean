import TarpcModel.Server.Run
/-!
`InFlightRequests::poll_expired` of the server model (`Server/Model.lean`: `rearm`, `expireStep`,
`pollExpiredLoop`, `pollExpired`), presented for proofs: the two outcomes of a re-arm, the shapes of one
iteration of the loop, and induction principles for the loop ("what every iteration keeps, the call
keeps").  Shared by `Lemmas/ServerFlow.lean` and `Lemmas/ServerInv.lean`.
-/
namespace TarpcModel.Server

/-! #### `poll_expired`: the re-arm, one iteration, the loop -/

/-- what `rearm` does to a tracked entry: the entries with the id get the new key and pay the armed
timeout out of their remainder -/
def rearmUpd (id key now : Nat) (x : SEntry) : SEntry :=
  if x.id == id then
    { x with timerKey := key,
             dueAt := now + clampTimeout (restOf now x),
             remainder := restOf now x - clampTimeout (restOf now x) }
  else x

/-- the two outcomes of `rearm` -/
theorem rearm_cases (s : St) (now : Nat) (en : SEntry) :
    ((s.timers.insert now (clampTimeout (restOf now en)) en.id).2.1 = .panic ∧ rearm s now en = none) ∨
    (∃ q key w, s.timers.insert now (clampTimeout (restOf now en)) en.id = (q, .ok key, w) ∧
      rearm s now en = some { (if w = true then wakeServer s else s) with
        timers := q, inflight := s.inflight.map (rearmUpd en.id key now) }) := by
  unfold rearm
  split
  · next hq => left; exact ⟨by rw [hq], rfl⟩
  · next q key w hq =>
    right
    refine ⟨q, key, w, hq, ?_⟩
    simp only
    cases w
    · rfl
    · simp only [if_true]
      have : (wakeServer s).inflight = s.inflight := by unfold wakeServer; split <;> rfl
      rw [this]; rfl

theorem rearm_some {s s2 : St} {now : Nat} {en : SEntry} (h : rearm s now en = some s2) :
    ∃ q key w, s.timers.insert now (clampTimeout (restOf now en)) en.id = (q, .ok key, w) ∧
      s2 = { (if w = true then wakeServer s else s) with
        timers := q, inflight := s.inflight.map (rearmUpd en.id key now) } := by
  rcases rearm_cases s now en with ⟨_, he⟩ | ⟨q, key, w, hi, he⟩
  · rw [he] at h; cases h
  · rw [he] at h; cases h; exact ⟨q, key, w, hi, rfl⟩

theorem rearm_none {s : St} {now : Nat} {en : SEntry} (h : rearm s now en = none) :
    (s.timers.insert now (clampTimeout (restOf now en)) en.id).2.1 = .panic := by
  rcases rearm_cases s now en with ⟨hp, _⟩ | ⟨q, key, w, hi, he⟩
  · exact hp
  · rw [he] at h; cases h

@[simp] theorem rearmUpd_id (id key now : Nat) (x : SEntry) : (rearmUpd id key now x).id = x.id := by
  unfold rearmUpd; split <;> rfl

@[simp] theorem rearmUpd_rid (id key now : Nat) (x : SEntry) : (rearmUpd id key now x).rid = x.rid := by
  unfold rearmUpd; split <;> rfl

theorem rearmUpd_ne {id key now : Nat} {x : SEntry} (h : x.id ≠ id) : rearmUpd id key now x = x := by
  unfold rearmUpd; rw [if_neg (by simpa using h)]

/-- the fields a successful `rearm` never touches -/
structure RearmFrame (s s' : St) : Prop where
  sidx : s'.sidx = s.sidx
  limit : s'.limit = s.limit
  ensureLoop : s'.ensureLoop = s.ensureLoop
  throttleAfterRead : s'.throttleAfterRead = s.throttleAfterRead
  cancelQ : s'.cancelQ = s.cancelQ
  cancelRxWaker : s'.cancelRxWaker = s.cancelRxWaker
  respQ : s'.respQ = s.respQ
  readFused : s'.readFused = s.readFused
  execs : s'.execs = s.execs
  done : s'.done = s.done
  dropped : s'.dropped = s.dropped
  t : s'.t = s.t
  rqWaiters : s'.rqWaiters = s.rqWaiters
  rqAssigned : s'.rqAssigned = s.rqAssigned
  rqAvail : s'.rqAvail = s.rqAvail
  nextVis : s'.nextVis = s.nextVis
  poisoned : s'.poisoned = s.poisoned
  nextFresh : s'.nextFresh = s.nextFresh
  respCap : s'.respCap = s.respCap
  rqRxWaker : s'.rqRxWaker = s.rqRxWaker

theorem rearm_frame {s s2 : St} {now : Nat} {en : SEntry} (h : rearm s now en = some s2) : RearmFrame s s2 := by
  rcases rearm_cases s now en with ⟨_, he⟩ | ⟨q, key, w, _, he⟩
  · rw [he] at h; cases h
  · rw [he] at h
    cases h
    cases w <;> constructor <;> first | rfl | (simp only [if_true]; unfold wakeServer; split <;> rfl)

/-- The shapes of one iteration of `poll_expired`'s loop. -/
inductive ExpShape (s : St) (now : Nat) : St → Option ExpRes → Prop
  | idleNone (q : DelayQ) (hp : s.timers.pollExpired now = (q, .none)) :
      ExpShape s now { s with timers := q } (some .closed)
  | idlePending (q : DelayQ) (hp : s.timers.pollExpired now = (q, .pending)) :
      ExpShape s now { s with timers := q } (some .pending)
  | orphan (q : DelayQ) (e : DqEntry) (hp : s.timers.pollExpired now = (q, .expired e))
      (hf : findEntry { s with timers := q } e.val = none) : ExpShape s now { s with timers := q } (some .ready)
  | abort (q : DelayQ) (e : DqEntry) (en : SEntry) (hp : s.timers.pollExpired now = (q, .expired e))
      (hf : findEntry { s with timers := q } e.val = some en) (h0 : restOf now en = 0) :
      ExpShape s now (abortExec { s with timers := q, inflight := s.inflight.filter (·.id != e.val) } en.rid) (some .ready)
  | rearmed (q : DelayQ) (e : DqEntry) (en : SEntry) (s2 : St) (hp : s.timers.pollExpired now = (q, .expired e))
      (hf : findEntry { s with timers := q } e.val = some en) (h0 : restOf now en ≠ 0)
      (hr : rearm { s with timers := q } now en = some s2) : ExpShape s now s2 none
  | panicked (q : DelayQ) (e : DqEntry) (en : SEntry) (hp : s.timers.pollExpired now = (q, .expired e))
      (hf : findEntry { s with timers := q } e.val = some en) (h0 : restOf now en ≠ 0)
      (hr : rearm { s with timers := q } now en = none) :
      ExpShape s now (emit { s with poisoned := true } (.panic (tid s) "DelayQueue::insert: invalid deadline"))
        (some .closed)

theorem expireStep_shape (s : St) (now : Nat) : ExpShape s now (expireStep s now).1 (expireStep s now).2 := by
  unfold expireStep
  split
  · next q e hp =>
    simp only
    split
    · next en hf =>
      split
      · next h0 =>
        have h0' : restOf now en ≠ 0 := by simpa using h0
        split
        · next s2 hr => exact ExpShape.rearmed q e en s2 hp hf h0' hr
        · next hr => exact ExpShape.panicked q e en hp hf h0' hr
      · next h0 =>
        have h0' : restOf now en = 0 := by simpa using h0
        exact ExpShape.abort q e en hp hf h0'
    · next hf => exact ExpShape.orphan q e hp hf
  · next q hp => exact ExpShape.idleNone q hp
  · next q hp => exact ExpShape.idlePending q hp

theorem pollExpiredLoop_zero (s : St) (now : Nat) :
    pollExpiredLoop 0 s now = (emit s (.spin (tid s)), .pending) := rfl

theorem pollExpiredLoop_succ (fuel : Nat) (s : St) (now : Nat) :
    pollExpiredLoop (fuel + 1) s now =
      match expireStep s now with
      | (s', some r) => (s', r)
      | (s', none) => pollExpiredLoop fuel s' now := rfl

/-- what every iteration of `poll_expired` keeps (and the out-of-fuel exit), the call keeps -/
theorem pollExpiredLoop_ind {P : St → Prop} (now : Nat) (hspin : ∀ s, P s → P (emit s (.spin (tid s))))
    (hstep : ∀ s, P s → P (expireStep s now).1) : ∀ (fuel : Nat) (s : St), P s → P (pollExpiredLoop fuel s now).1 := by
  intro fuel
  induction fuel with
  | zero => intro s h; exact hspin s h
  | succ n ih =>
    intro s h
    rw [pollExpiredLoop_succ]
    have := hstep s h
    revert this
    generalize expireStep s now = p
    intro this
    rcases p with ⟨s', r⟩
    cases r with
    | some r => exact this
    | none => exact ih s' this

theorem pollExpired_ind {P : St → Prop} (now : Nat) (hspin : ∀ s, P s → P (emit s (.spin (tid s))))
    (hstep : ∀ s, P s → P (expireStep s now).1) (s : St) (h : P s) : P (pollExpired s now).1 := by
  unfold pollExpired
  split
  · exact h
  · exact pollExpiredLoop_ind now hspin hstep _ s h

/-- the relational form: a reflexive, transitive relation that every iteration (and the out-of-fuel
exit) respects relates the state before the call to the state after it -/
theorem pollExpired_rel {R : St → St → Prop} (now : Nat) (hrefl : ∀ s, R s s)
    (htrans : ∀ a b c, R a b → R b c → R a c) (hspin : ∀ s, R s (emit s (.spin (tid s))))
    (hstep : ∀ s, R s (expireStep s now).1) (s : St) : R s (pollExpired s now).1 :=
  pollExpired_ind (P := R s) now (fun s1 h => htrans _ _ _ h (hspin s1)) (fun s1 h => htrans _ _ _ h (hstep s1)) s (hrefl s)

end TarpcModel.Server

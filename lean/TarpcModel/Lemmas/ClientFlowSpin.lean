import TarpcModel.Lemmas.ClientFlowTransport
import TarpcModel.Lemmas.ClientExpire
/-
No spin (C14, client): with the fixed `ensure_writeable` a dispatch poll emits `Obs.spin` only if `run`'s
fuel runs out, and every iteration of `run` that loops consumes an inbound item, a queued request, a queued
cancellation or an armed timer — so fuel above `runMeasure s` suffices, and the model's `runFuel s = runMeasure s + 4`
(`Client/Model.lean`) never runs out (`runMeasure_lt_runFuel`).
-/
namespace TarpcModel.Client.Flow

/-! ### `DelayQueue`: sizes -/
namespace DelayQ
open TarpcModel.DelayQ

theorem insert_len {q q' : DelayQ} {now timeout val : Nat} {r : InsertRes} {w : Bool}
    (h : q.insert now timeout val = (q', r, w)) : q'.len ≤ q.len + 1 := by
  unfold DelayQ.insert at h
  simp only at h
  split at h
  · cases h; exact Nat.le_succ _
  · -- (the inner `if` is eliminated before any projection is taken: the kernel must not evaluate its condition)
    by_cases hc : max (ceilMs (now + timeout)) q.wheelElapsed ≤ q.wheelElapsed
    · simp only [hc, ↓reduceIte] at h
      split at h <;> split at h <;> cases h <;> (simp only [len, List.length_cons]; omega)
    · simp only [hc, ↓reduceIte] at h
      split at h <;> split at h <;> cases h <;>
        (simp only [len, List.length_append, List.length_cons, List.length_nil]; omega)

/-- projection form (no `rfl` between `q.insert …` and its components: the kernel would evaluate the insert) -/
theorem insert_len' (q : DelayQ) (now timeout val : Nat) : (q.insert now timeout val).1.len ≤ q.len + 1 := by
  rcases h : q.insert now timeout val with ⟨q', r, w⟩
  exact insert_len h

theorem remove_len {q q' : DelayQ} {key : Nat} {w : Bool} (h : q.remove key = some (q', w)) : q'.len ≤ q.len := by
  unfold DelayQ.remove at h
  split at h
  · simp only [Option.some.injEq, Prod.mk.injEq] at h
    obtain ⟨rfl, _⟩ := h
    have h1 := List.length_filter_le (fun e : DqEntry => e.key != key) q.entries
    have h2 := List.length_filter_le (fun e : DqEntry => e.key != key) q.expired
    simp only [len]
    split <;> simp only <;> omega
  · cases h

theorem slotTop_foldl_mem (l : List DqEntry) (acc : Option DqEntry) (r : DqEntry)
    (h : l.foldl (fun acc e => match acc with
      | none => some e
      | some a => if e.seq > a.seq then some e else some a) acc = some r) : r ∈ l ∨ acc = some r := by
  induction l generalizing acc with
  | nil => exact .inr h
  | cons e l ih =>
    rw [List.foldl_cons] at h
    rcases ih _ h with h1 | h1
    · exact .inl (List.mem_cons_of_mem _ h1)
    · cases acc with
      | none => simp only [Option.some.injEq] at h1; subst h1; exact .inl (List.mem_cons_self ..)
      | some a =>
        simp only at h1
        split at h1
        · simp only [Option.some.injEq] at h1; subst h1; exact .inl (List.mem_cons_self ..)
        · exact .inr h1

theorem slotTop_mem {q : DelayQ} {level slot : Nat} {e : DqEntry} (h : slotTop q level slot = some e) :
    e ∈ q.entries := by
  unfold DelayQ.slotTop at h
  rcases slotTop_foldl_mem _ _ _ h with h1 | h1
  · exact (List.mem_filter.mp h1).1
  · cases h1

theorem filter_key_lt {l : List DqEntry} {e : DqEntry} (h : e ∈ l) :
    (l.filter (·.key != e.key)).length + 1 ≤ l.length := by
  have : (l.filter (·.key != e.key)).length < l.length :=
    List.length_filter_lt_length_iff_exists.mpr ⟨e, h, by simp⟩
  omega

theorem cascade_len (fuel : Nat) (q : DelayQ) (level slot : Nat) :
    (cascade fuel q level slot).entries.length ≤ q.entries.length ∧
    (cascade fuel q level slot).expired = q.expired := by
  induction fuel generalizing q with
  | zero => exact ⟨Nat.le_refl _, rfl⟩
  | succ fuel ih =>
    unfold DelayQ.cascade
    split
    · exact ⟨Nat.le_refl _, rfl⟩
    · rename_i e he
      have hm := filter_key_lt (slotTop_mem he)
      obtain ⟨h1, h2⟩ := ih { q with entries := (q.entries.filter (·.key != e.key)) ++
        [{ e with level := level - 1, seq := q.seqCtr }], seqCtr := q.seqCtr + 1 }
      refine ⟨Nat.le_trans h1 ?_, h2⟩
      simp only [List.length_append, List.length_cons, List.length_nil]
      omega

theorem wheelPoll_len (fuel : Nat) (q : DelayQ) (now : Nat) :
    (wheelPoll fuel q now).1.expired = q.expired ∧
    (wheelPoll fuel q now).1.entries.length ≤ q.entries.length ∧
    ((wheelPoll fuel q now).2.isSome = true → (wheelPoll fuel q now).1.entries.length + 1 ≤ q.entries.length) := by
  induction fuel generalizing q with
  | zero => exact ⟨rfl, Nat.le_refl _, by simp [wheelPoll]⟩
  | succ fuel ih =>
    unfold DelayQ.wheelPoll
    split
    · exact ⟨rfl, Nat.le_refl _, by simp⟩
    · rename_i ex _
      split
      · exact ⟨rfl, Nat.le_refl _, by simp⟩
      · split
        · split
          · rename_i e he
            have hm := filter_key_lt (slotTop_mem he)
            exact ⟨rfl, by simp only; omega, fun _ => hm⟩
          · exact ⟨rfl, Nat.le_refl _, by simp⟩
        · simp only
          obtain ⟨c1, c2⟩ := cascade_len (q.entries.length + 1) q ex.level ex.slot
          obtain ⟨h1, h2, h3⟩ := ih { cascade (q.entries.length + 1) q ex.level ex.slot with
            wheelElapsed := max (cascade (q.entries.length + 1) q ex.level ex.slot).wheelElapsed ex.deadline }
          exact ⟨h1.trans c2, Nat.le_trans h2 c1, fun hs => Nat.le_trans (h3 hs) c1⟩

theorem pollIdx_len (fuel : Nat) (q : DelayQ) (now : Nat) :
    (pollIdx fuel q now).1.len ≤ q.len ∧
    (∀ e, (pollIdx fuel q now).2 = .expired e → (pollIdx fuel q now).1.len + 1 ≤ q.len) := by
  induction fuel generalizing q with
  | zero => exact ⟨Nat.le_refl _, by simp [pollIdx]⟩
  | succ fuel ih =>
    have step : ∀ q0 : DelayQ, q0.len = q.len →
        (match wheelPoll (wheelFuel q0) q0 q0.wheelNow with
          | (q1, r) =>
            match r with
            | some e => ({ q1 with delay := nextDeadline q1 }, PollRes.expired e)
            | none =>
              if (nextDeadline q1).isNone = true then
                ({ q1 with delay := nextDeadline q1, waker := true }, PollRes.none)
              else pollIdx fuel { q1 with delay := nextDeadline q1 } now).1.len ≤ q.len ∧
        (∀ e, (match wheelPoll (wheelFuel q0) q0 q0.wheelNow with
          | (q1, r) =>
            match r with
            | some e => ({ q1 with delay := nextDeadline q1 }, PollRes.expired e)
            | none =>
              if (nextDeadline q1).isNone = true then
                ({ q1 with delay := nextDeadline q1, waker := true }, PollRes.none)
              else pollIdx fuel { q1 with delay := nextDeadline q1 } now).2 = .expired e →
          (match wheelPoll (wheelFuel q0) q0 q0.wheelNow with
          | (q1, r) =>
            match r with
            | some e => ({ q1 with delay := nextDeadline q1 }, PollRes.expired e)
            | none =>
              if (nextDeadline q1).isNone = true then
                ({ q1 with delay := nextDeadline q1, waker := true }, PollRes.none)
              else pollIdx fuel { q1 with delay := nextDeadline q1 } now).1.len + 1 ≤ q.len) := by
      intro q0 hq0
      obtain ⟨w1, w2, w3⟩ := wheelPoll_len (wheelFuel q0) q0 q0.wheelNow
      rcases hw : wheelPoll (wheelFuel q0) q0 q0.wheelNow with ⟨q1, r⟩
      rw [hw] at w1 w2 w3
      simp only at w1 w2 w3 ⊢
      have hl : q1.len ≤ q.len := by rw [← hq0]; simp only [len, w1]; omega
      cases r with
      | some e =>
        have := w3 rfl
        exact ⟨hl, fun _ _ => by rw [← hq0]; simp only [len, w1]; omega⟩
      | none =>
        simp only
        split
        · exact ⟨hl, by simp⟩
        · obtain ⟨i1, i2⟩ := ih { q1 with delay := nextDeadline q1 }
          exact ⟨Nat.le_trans i1 hl, fun e he => Nat.le_trans (i2 e he) hl⟩
    unfold DelayQ.pollIdx
    split
    · rename_i dl _
      split
      · exact ⟨Nat.le_refl _, by simp⟩
      · exact step { q with wheelNow := dl } rfl
    · exact step q rfl

theorem pollExpired_len (q : DelayQ) (now : Nat) :
    (q.pollExpired now).1.len ≤ q.len ∧
    (∀ e, (q.pollExpired now).2 = .expired e → (q.pollExpired now).1.len + 1 ≤ q.len) := by
  unfold DelayQ.pollExpired
  simp only
  split
  · rename_i e rest he
    simp only [len, he, List.length_cons]
    exact ⟨by omega, fun _ _ => by omega⟩
  · exact pollIdx_len _ { q with waker := true } now

end DelayQ


/-- What `run` consumes: every iteration that loops takes an inbound item, a queued request (which may arm one
timer), a queued cancellation or an armed timer. -/
def runMeasure (s : St) : Nat := s.t.inbound.length + 2 * s.pq.length + s.cq.length + s.timers.len

theorem isT_of_isSpinObs {o : Obs} (h : isSpinObs o = true) : isT o = true := by
  cases o <;> simp_all [isSpinObs]

theorem filter_spinObs_of_tObs {l l' : List Obs} (h : l'.filter isT = l.filter isT) :
    l'.filter isSpinObs = l.filter isSpinObs := by
  have key : ∀ l : List Obs, l.filter isSpinObs = (l.filter isT).filter isSpinObs := by
    intro l; rw [List.filter_filter]; apply List.filter_congr
    intro o _; cases ho : isSpinObs o
    · simp
    · simp [isT_of_isSpinObs ho]
  rw [key l', key l, h]

/-- A step of `run` that emits no spin, keeps the `ensure_writeable` variant and consumes at least `d` units of
`runMeasure`. -/
structure MStep (s s' : St) (d : Nat) : Prop where
  spin : s'.obs.filter isSpinObs = s.obs.filter isSpinObs
  el : s'.ensureLoop = s.ensureLoop
  mu : runMeasure s' + d ≤ runMeasure s

theorem MStep.refl (s : St) : MStep s s 0 := ⟨rfl, rfl, Nat.le_refl _⟩

theorem MStep.trans {s s1 s2 : St} {d1 d2 : Nat} (h1 : MStep s s1 d1) (h2 : MStep s1 s2 d2) :
    MStep s s2 (d1 + d2) :=
  ⟨h2.spin.trans h1.spin, h2.el.trans h1.el, by have := h1.mu; have := h2.mu; omega⟩

theorem MStep.weaken {s s' : St} {d d' : Nat} (h : MStep s s' d) (hd : d' ≤ d) : MStep s s' d' :=
  ⟨h.spin, h.el, by have := h.mu; omega⟩

/-- Transport-free steps: only the sizes matter. -/
theorem MStep.of_frameA {s s' : St} {d : Nat} (hA : FrameA s s')
    (hm : 2 * s'.pq.length + s'.cq.length + s'.timers.len + d ≤ 2 * s.pq.length + s.cq.length + s.timers.len) :
    MStep s s' d :=
  ⟨filter_spinObs_of_tObs hA.tobs, hA.ensureLoop, by unfold runMeasure; rw [hA.t]; omega⟩

/-! #### queue / timer sizes of the transport-free primitives -/

/-- `pq`, `cq` and `timers` are untouched. -/
structure FrameQ (s s' : St) : Prop where
  pq : s'.pq = s.pq
  cq : s'.cq = s.cq
  timers : s'.timers = s.timers

theorem FrameQ.refl (s : St) : FrameQ s s := ⟨rfl, rfl, rfl⟩
theorem FrameQ.trans {s s1 s2 : St} (h1 : FrameQ s s1) (h2 : FrameQ s1 s2) : FrameQ s s2 :=
  ⟨h2.pq.trans h1.pq, h2.cq.trans h1.cq, h2.timers.trans h1.timers⟩

theorem wakeCall_frameQ (s : St) (cid : Nat) : FrameQ s (wakeCall s cid) := by
  unfold wakeCall; split
  · split
    · exact ⟨rfl, rfl, rfl⟩
    · exact .refl _
  · exact .refl _

theorem osSend_frameQ (s : St) (cid : Nat) (o : Outcome) : FrameQ s (osSend s cid o) := by
  unfold osSend; split
  · exact .refl _
  · split
    · exact .refl _
    · simp only; split
      · exact FrameQ.trans (by exact ⟨rfl, rfl, rfl⟩) (wakeCall_frameQ _ _)
      · exact ⟨rfl, rfl, rfl⟩

theorem pqRelease_frameQ (s : St) : FrameQ s (pqRelease s) := by
  unfold pqRelease; split
  · exact FrameQ.trans (by exact ⟨rfl, rfl, rfl⟩) (wakeCall_frameQ _ _)
  · exact ⟨rfl, rfl, rfl⟩

theorem removeTimer_sizes (s : St) (key : Nat) :
    (removeTimer s key).pq = s.pq ∧ (removeTimer s key).cq = s.cq ∧ (removeTimer s key).timers.len ≤ s.timers.len := by
  unfold removeTimer; split
  · rename_i q w h
    simp only; split
    · exact ⟨by simp, by simp, by rw [wakeDispatch_timers]; exact DelayQ.remove_len h⟩
    · exact ⟨rfl, rfl, DelayQ.remove_len h⟩
  · exact ⟨rfl, rfl, Nat.le_refl _⟩

theorem completeRequest_sizes (s : St) (id : Nat) (o : Outcome) :
    (completeRequest s id o).1.pq = s.pq ∧ (completeRequest s id o).1.cq = s.cq ∧
    (completeRequest s id o).1.timers.len ≤ s.timers.len := by
  unfold completeRequest; split
  · exact ⟨rfl, rfl, Nat.le_refl _⟩
  · rename_i e _
    have h1 := removeTimer_sizes { s with inflight := s.inflight.filter (·.id != id) } e.timerKey
    have h2 := osSend_frameQ (removeTimer { s with inflight := s.inflight.filter (·.id != id) } e.timerKey) e.cid o
    exact ⟨h2.pq.trans h1.1, h2.cq.trans h1.2.1, by rw [h2.timers]; exact h1.2.2⟩

theorem cancelRequest_sizes (s : St) (id : Nat) :
    (cancelRequest s id).1.pq = s.pq ∧ (cancelRequest s id).1.cq = s.cq ∧
    (cancelRequest s id).1.timers.len ≤ s.timers.len := by
  unfold cancelRequest; split
  · exact ⟨rfl, rfl, Nat.le_refl _⟩
  · rename_i e _
    exact removeTimer_sizes { s with inflight := s.inflight.filter (·.id != id) } e.timerKey

theorem pqRecv_sizes (s : St) :
    (pqRecv s).1.cq = s.cq ∧ (pqRecv s).1.timers = s.timers ∧ (pqRecv s).1.pq.length ≤ s.pq.length ∧
    (∀ r, (pqRecv s).2 = .item r → (pqRecv s).1.pq.length + 1 = s.pq.length) := by
  unfold pqRecv; split
  · rename_i r rest heq
    have h := pqRelease_frameQ { s with pq := rest }
    refine ⟨h.cq, h.timers, by rw [h.pq, heq]; simp, fun _ _ => by rw [h.pq, heq]; simp⟩
  · split
    · exact ⟨rfl, rfl, Nat.le_refl _, by simp⟩
    · split
      · exact ⟨rfl, rfl, Nat.le_refl _, by simp⟩
      · exact ⟨rfl, rfl, Nat.le_refl _, by simp⟩

theorem nextRequestLoop_sizes (fuel : Nat) (s : St) :
    (nextRequestLoop fuel s).1.cq = s.cq ∧ (nextRequestLoop fuel s).1.timers = s.timers ∧
    (nextRequestLoop fuel s).1.pq.length ≤ s.pq.length ∧
    (∀ r, (nextRequestLoop fuel s).2 = .some r → (nextRequestLoop fuel s).1.pq.length + 1 ≤ s.pq.length) := by
  induction fuel generalizing s with
  | zero => exact ⟨rfl, rfl, Nat.le_refl _, by simp [nextRequestLoop]⟩
  | succ fuel ih =>
    have h := pqRecv_sizes s
    unfold nextRequestLoop
    split <;> rename_i heq <;> rw [heq] at h
    · exact ⟨h.1, h.2.1, h.2.2.1, by simp⟩
    · exact ⟨h.1, h.2.1, h.2.2.1, by simp⟩
    · rename_i s1 r
      have hr := h.2.2.2 r rfl
      split
      · obtain ⟨i1, i2, i3, i4⟩ := ih s1
        exact ⟨i1.trans h.1, i2.trans h.2.1, by simp only at hr; omega, fun r' hr' => by
          have := i4 r' hr'; simp only at hr; omega⟩
      · exact ⟨h.1, h.2.1, h.2.2.1, fun _ _ => by simp only at hr ⊢; omega⟩

theorem cqRecv_sizes (s : St) :
    (cqRecv s).1.pq = s.pq ∧ (cqRecv s).1.timers = s.timers ∧ (cqRecv s).1.cq.length ≤ s.cq.length ∧
    (∀ i, (cqRecv s).2 = .item i → (cqRecv s).1.cq.length + 1 = s.cq.length) := by
  unfold cqRecv; split
  · rename_i i rest heq
    exact ⟨rfl, rfl, by simp [heq], fun _ _ => by simp [heq]⟩
  · split
    · exact ⟨rfl, rfl, Nat.le_refl _, by simp⟩
    · exact ⟨rfl, rfl, Nat.le_refl _, by simp⟩

theorem nextCancelLoop_sizes (fuel : Nat) (s : St) :
    (nextCancelLoop fuel s).1.pq = s.pq ∧ (nextCancelLoop fuel s).1.timers.len ≤ s.timers.len ∧
    (nextCancelLoop fuel s).1.cq.length ≤ s.cq.length ∧
    (∀ e, (nextCancelLoop fuel s).2 = .some e → (nextCancelLoop fuel s).1.cq.length + 1 ≤ s.cq.length) := by
  induction fuel generalizing s with
  | zero => exact ⟨rfl, Nat.le_refl _, Nat.le_refl _, by simp [nextCancelLoop]⟩
  | succ fuel ih =>
    have h := cqRecv_sizes s
    unfold nextCancelLoop
    split <;> rename_i heq <;> rw [heq] at h
    · exact ⟨h.1, by rw [h.2.1]; exact Nat.le_refl _, h.2.2.1, by simp⟩
    · exact ⟨h.1, by rw [h.2.1]; exact Nat.le_refl _, h.2.2.1, by simp⟩
    · rename_i s1 id
      have hr := h.2.2.2 id rfl
      have hc := cancelRequest_sizes s1 id
      simp only at hr h
      split <;> rename_i heq2 <;> rw [heq2] at hc <;> simp only at hc
      · exact ⟨hc.1.trans h.1, by rw [← h.2.1]; exact hc.2.2, by rw [hc.2.1]; omega, fun _ _ => by
          show _ + 1 ≤ _; rw [hc.2.1]; omega⟩
      · rename_i s2
        obtain ⟨i1, i2, i3, i4⟩ := ih s2
        refine ⟨(i1.trans hc.1).trans h.1, ?_, ?_, ?_⟩
        · rw [← h.2.1]; exact Nat.le_trans i2 hc.2.2
        · have := hc.2.1; rw [this] at i3; omega
        · intro e he; have := i4 e he; rw [hc.2.1] at this; omega

theorem insertRequest_sizes {s s' : St} {now : Nat} {r : DReq} (h : insertRequest s now r = some s') :
    s'.pq = s.pq ∧ s'.cq = s.cq ∧ s'.timers.len ≤ s.timers.len + 1 := by
  unfold insertRequest at h; split at h
  · cases h; exact ⟨rfl, rfl, Nat.le_succ _⟩
  · split at h
    · cases h; exact ⟨rfl, rfl, Nat.le_succ _⟩
    · rename_i hq; cases h
      split
      · exact ⟨by simp, by simp, by rw [wakeDispatch_timers]; exact DelayQ.insert_len hq⟩
      · exact ⟨rfl, rfl, DelayQ.insert_len hq⟩

theorem rearmWith_sizes (s : St) (q : DelayQ) (id t due : Nat) (r : DelayQ × DelayQ.InsertRes × Bool)
    (hr : r.1.len ≤ q.len + 1) (hq : q.len + 1 ≤ s.timers.len) :
    (rearmWith s id t due r).st.pq = s.pq ∧ (rearmWith s id t due r).st.cq = s.cq ∧
    (rearmWith s id t due r).st.timers.len ≤ s.timers.len ∧ (∀ s', rearmWith s id t due r ≠ .done s' true) := by
  unfold rearmWith; split
  · exact ⟨rfl, rfl, Nat.le_refl _, by simp⟩
  · refine ⟨?_, ?_, ?_, by simp⟩
    · show (if _ then _ else _ : St).pq = _; split
      · simp
      · rfl
    · show (if _ then _ else _ : St).cq = _; split
      · simp
      · rfl
    · show (if _ then _ else _ : St).timers.len ≤ _; split
      · rw [wakeDispatch_timers]; exact Nat.le_trans hr hq
      · exact Nat.le_trans hr hq

theorem expireWith_sizes (s : St) (now : Nat) (r : DelayQ × DelayQ.PollRes)
    (h1 : r.1.len ≤ s.timers.len) (h2 : ∀ e, r.2 = .expired e → r.1.len + 1 ≤ s.timers.len) :
    (expireWith s now r).st.pq = s.pq ∧ (expireWith s now r).st.cq = s.cq ∧
    (expireWith s now r).st.timers.len ≤ s.timers.len ∧
    (∀ s', expireWith s now r = .done s' true → s'.timers.len + 1 ≤ s.timers.len) := by
  unfold expireWith; split
  · rename_i q e
    have hq := h2 e rfl
    simp only at hq
    split
    · rename_i en _
      split
      · have hi : (q.insert now (clampTimeout (en.remainder - (now - en.dueAt))) e.val).1.len ≤ q.len + 1 :=
          DelayQ.insert_len' _ _ _ _
        obtain ⟨a1, a2, a3, a4⟩ := rearmWith_sizes s q e.val
          (now - en.dueAt + clampTimeout (en.remainder - (now - en.dueAt)))
          (now + clampTimeout (en.remainder - (now - en.dueAt))) _ hi hq
        exact ⟨a1, a2, a3, fun s' h => absurd h (a4 s')⟩
      · have f := osSend_frameQ { s with timers := q, inflight := s.inflight.filter (·.id != e.val) } en.cid .deadline
        refine ⟨f.pq, f.cq, ?_, ?_⟩
        · show (osSend _ _ _).timers.len ≤ _; rw [f.timers]; show q.len ≤ _; omega
        · intro s' h; cases h; rw [f.timers]; exact hq
    · refine ⟨rfl, rfl, ?_, ?_⟩
      · show q.len ≤ _; omega
      · intro s' h; cases h; exact hq
  · exact ⟨rfl, rfl, h1, by simp⟩

theorem expireStep_sizes (s : St) (now : Nat) :
    (expireStep s now).st.pq = s.pq ∧ (expireStep s now).st.cq = s.cq ∧
    (expireStep s now).st.timers.len ≤ s.timers.len ∧
    (∀ s', expireStep s now = .done s' true → s'.timers.len + 1 ≤ s.timers.len) :=
  expireWith_sizes s now _ (DelayQ.pollExpired_len s.timers now).1 (DelayQ.pollExpired_len s.timers now).2

theorem pollExpiredLoop_sizes (fuel : Nat) (s : St) (now : Nat) :
    (pollExpiredLoop fuel s now).1.pq = s.pq ∧ (pollExpiredLoop fuel s now).1.cq = s.cq ∧
    (pollExpiredLoop fuel s now).1.timers.len ≤ s.timers.len ∧
    ((pollExpiredLoop fuel s now).2 = true → (pollExpiredLoop fuel s now).1.timers.len + 1 ≤ s.timers.len) := by
  induction fuel generalizing s with
  | zero => exact ⟨rfl, rfl, Nat.le_refl _, by simp [pollExpiredLoop]⟩
  | succ fuel ih =>
    obtain ⟨a1, a2, a3, a4⟩ := expireStep_sizes s now
    unfold pollExpiredLoop; split <;> rename_i heq <;> rw [heq] at a1 a2 a3
    · rename_i s1
      obtain ⟨i1, i2, i3, i4⟩ := ih s1
      simp only [ExpStep.st] at a1 a2 a3
      exact ⟨i1.trans a1, i2.trans a2, Nat.le_trans i3 a3, fun h => Nat.le_trans (i4 h) a3⟩
    · rename_i s1 b
      simp only [ExpStep.st] at a1 a2 a3
      refine ⟨a1, a2, a3, fun h => ?_⟩
      simp only at h; subst h
      exact a4 s1 heq

theorem pollExpired_sizes (s : St) (now : Nat) :
    (pollExpired s now).1.pq = s.pq ∧ (pollExpired s now).1.cq = s.cq ∧
    (pollExpired s now).1.timers.len ≤ s.timers.len ∧
    ((pollExpired s now).2 = true → (pollExpired s now).1.timers.len + 1 ≤ s.timers.len) :=
  pollExpiredLoop_sizes _ s now

/-! #### the transport calls -/

theorem newViolObs_spinObs (s : St) (t' : SimT) : (newViolObs s t').filter isSpinObs = [] := by
  rw [List.filter_eq_nil_iff]
  intro o ho
  obtain ⟨v, _, rfl⟩ := mem_newViolObs ho
  simp [isSpinObs]

theorem tEmit_spinObs (s : St) (t' : SimT) (o : Obs) (w : Bool) (ho : isSpinObs o = false) :
    (tEmit s t' o w).obs.filter isSpinObs = s.obs.filter isSpinObs := by
  have hw : isSpinObs (.wake (.dispatch s.k)) = false := rfl
  rw [tEmit_eq']
  split <;> simp [List.filter_append, ho, hw, newViolObs_spinObs]

theorem tEmit_mstep (s : St) (t' : SimT) (o : Obs) (w : Bool) (ho : isSpinObs o = false)
    (hi : t'.inbound = s.t.inbound) : MStep s (tEmit s t' o w) 0 :=
  ⟨tEmit_spinObs s t' o w ho, tEmit_ensureLoop _ _ _ _, by
    unfold runMeasure; rw [tEmit_t, tEmit_pq, tEmit_cq, tEmit_timers, hi]; exact Nat.le_refl _⟩

theorem tReady_mstep (s : St) : MStep s (tReady s).1 0 := by
  rw [tReady_eq]; exact tEmit_mstep _ _ _ _ rfl (SimT.pollReady_inbound _)
theorem tFlush_mstep (s : St) : MStep s (tFlush s).1 0 := by
  rw [tFlush_eq]; exact tEmit_mstep _ _ _ _ rfl (SimT.pollFlush_inbound _)
theorem tClose_mstep (s : St) : MStep s (tClose s).1 0 := by
  rw [tClose_eq]; exact tEmit_mstep _ _ _ _ rfl (SimT.pollClose_inbound _)
theorem tSend_mstep (s : St) (m : Msg) : MStep s (tSend s m).1 0 := by
  have := tEmit_mstep s (s.t.startSend m).1 (.tSend (tid s) m (s.t.startSend m).2) false rfl
    (SimT.startSend_inbound _ _)
  rw [tSend_eq]; exact this

theorem pollNext_inbound (t : SimT) : t.pollNext.1.inbound.length ≤ t.inbound.length ∧
    (∀ m, t.pollNext.2 = .item m → t.pollNext.1.inbound.length + 1 = t.inbound.length) := by
  unfold SimT.pollNext; split
  · exact ⟨Nat.le_refl _, by simp⟩
  · simp only; split
    · rename_i m rest heq; simp at heq; simp [heq]
    · rename_i rest heq; simp at heq; simp [heq]
    · split <;> exact ⟨by simp, by simp⟩

theorem tNext_mstep (s : St) : MStep s (tNext s).1 0 ∧ (∀ m, (tNext s).2 = .item m → MStep s (tNext s).1 1) := by
  have hi := pollNext_inbound s.t
  rw [tNext_eq]; split
  · exact ⟨.refl _, by simp⟩
  · refine ⟨⟨by simp [isSpinObs], rfl, ?_⟩, fun m hm => ⟨by simp [isSpinObs], rfl, ?_⟩⟩
    · unfold runMeasure; simp only; have := hi.1; omega
    · unfold runMeasure; simp only; have := hi.2 m hm; omega

theorem ensureOnce_mstep (s : St) : MStep s (ensureOnce s).1 0 := by
  refine ensureOnce_cases (motive := fun p => MStep s p.1 0) s ?_ ?_ ?_ ?_ ?_
  · intro s1 h1; have f1 := tReady_mstep s; rw [h1] at f1; exact f1
  · intro s1 h1; have f1 := tReady_mstep s; rw [h1] at f1; exact f1
  · intro s1 s2 h1 h2
    have f1 := tReady_mstep s; rw [h1] at f1
    have f2 := tFlush_mstep s1; rw [h2] at f2
    exact f1.trans f2
  · intro s1 s2 h1 h2
    have f1 := tReady_mstep s; rw [h1] at f1
    have f2 := tFlush_mstep s1; rw [h2] at f2
    exact f1.trans f2
  · intro s1 s2 s3 r h1 h2 h3
    have f1 := tReady_mstep s; rw [h1] at f1
    have f2 := tFlush_mstep s1; rw [h2] at f2
    have f3 := tReady_mstep s2; rw [h3] at f3
    exact (f1.trans f2).trans f3

theorem ensureWriteable_mstep (s : St) (hel : s.ensureLoop = false) : MStep s (ensureWriteable s).1 0 := by
  unfold ensureWriteable; rw [hel]; exact ensureOnce_mstep s

/-! #### the pumps -/

theorem pollNextRequest_mstep (s : St) (hel : s.ensureLoop = false) :
    MStep s (pollNextRequest s).1 0 ∧ (∀ r, (pollNextRequest s).2 = .some r → MStep s (pollNextRequest s).1 2) := by
  refine pollNextRequest_cases
    (motive := fun p => MStep s p.1 0 ∧ (∀ r, p.2 = .some r → MStep s p.1 2)) s ?_ ?_ ?_
  · intro _; exact ⟨.refl _, by simp⟩
  · intro s1 e _ h1 hne
    have f1 := ensureWriteable_mstep s hel; rw [h1] at f1; try dsimp only at f1
    exact ⟨f1, by cases e <;> simp [EW.toPW] at hne ⊢⟩
  · intro s1 _ h1
    have f1 := ensureWriteable_mstep s hel; rw [h1] at f1; try dsimp only at f1
    obtain ⟨q1, q2, q3, q4⟩ := nextRequestLoop_sizes (s1.pq.length + 1) s1
    have hA := nextRequestLoop_frameA (s1.pq.length + 1) s1
    refine ⟨f1.trans (MStep.of_frameA (d := 0) hA (by rw [q1, q2]; omega)), fun r hr => ?_⟩
    have := q4 r hr
    exact (f1.trans (MStep.of_frameA (d := 2) hA (by rw [q1, q2]; omega))).weaken (by omega)

theorem pollWriteRequest_mstep (s : St) (now : Nat) (hel : s.ensureLoop = false) :
    MStep s (pollWriteRequest s now).1 0 ∧
    ((pollWriteRequest s now).2 = .some () → MStep s (pollWriteRequest s now).1 1) := by
  have hp := pollNextRequest_mstep s hel
  refine pollWriteRequest_cases (motive := fun p => MStep s p.1 0 ∧ (p.2 = .some () → MStep s p.1 1)) s now
    ?_ ?_ ?_ ?_
  · intro s1 r h1 hns
    rw [h1] at hp; try dsimp only at hp
    exact ⟨hp.1, by cases r <;> simp [PW.pass, PW.isSome] at hns ⊢⟩
  · intro s1 r s2 h1 h2 _
    rw [h1] at hp; try dsimp only at hp
    have hz := insertRequest_sizes h2
    have f2 : MStep s1 s2 0 → False ∨ True := fun _ => .inr trivial
    have f := (hp.2 r rfl)
    have g : MStep s s2 1 := by
      refine ⟨(filter_spinObs_of_tObs (insertRequest_frameA h2).tobs).trans f.spin,
        (insertRequest_frameA h2).ensureLoop.trans f.el, ?_⟩
      have := f.mu; unfold runMeasure at this ⊢
      rw [(insertRequest_frameA h2).t, hz.1, hz.2.1]; omega
    exact ⟨g.weaken (by omega), fun _ => g⟩
  · intro s1 r s2 s3 h1 h2 _ h3
    rw [h1] at hp; try dsimp only at hp
    have hz := insertRequest_sizes h2
    have f := (hp.2 r rfl)
    have g : MStep s s2 1 := by
      refine ⟨(filter_spinObs_of_tObs (insertRequest_frameA h2).tobs).trans f.spin,
        (insertRequest_frameA h2).ensureLoop.trans f.el, ?_⟩
      have := f.mu; unfold runMeasure at this ⊢
      rw [(insertRequest_frameA h2).t, hz.1, hz.2.1]; omega
    have f3 := tSend_mstep s2 (.request r.id r.ctx.deadline r.ctx.trace r.body); rw [h3] at f3; try dsimp only at f3
    exact ⟨(g.trans f3).weaken (by omega), fun _ => g.trans f3⟩
  · intro s1 r s2 s3 h1 h2 _ h3
    rw [h1] at hp; try dsimp only at hp
    have hz := insertRequest_sizes h2
    have f := (hp.2 r rfl)
    have g : MStep s s2 1 := by
      refine ⟨(filter_spinObs_of_tObs (insertRequest_frameA h2).tobs).trans f.spin,
        (insertRequest_frameA h2).ensureLoop.trans f.el, ?_⟩
      have := f.mu; unfold runMeasure at this ⊢
      rw [(insertRequest_frameA h2).t, hz.1, hz.2.1]; omega
    have f3 := tSend_mstep s2 (.request r.id r.ctx.deadline r.ctx.trace r.body); rw [h3] at f3; try dsimp only at f3
    obtain ⟨c1, c2, c3⟩ := completeRequest_sizes s3 r.id .send
    have f4 : MStep s3 (completeRequest s3 r.id .send).1 0 :=
      MStep.of_frameA (completeRequest_frameA _ _ _) (by rw [c1, c2]; omega)
    exact ⟨((g.trans f3).trans f4).weaken (by omega), fun _ => (g.trans f3).trans f4⟩

theorem pollNextCancellation_mstep (s : St) (hel : s.ensureLoop = false) :
    MStep s (pollNextCancellation s).1 0 ∧
    (∀ e, (pollNextCancellation s).2 = .some e → MStep s (pollNextCancellation s).1 1) := by
  refine pollNextCancellation_cases
    (motive := fun p => MStep s p.1 0 ∧ (∀ e, p.2 = .some e → MStep s p.1 1)) s ?_ ?_
  · intro s1 e h1 hne
    have f1 := ensureWriteable_mstep s hel; rw [h1] at f1; try dsimp only at f1
    exact ⟨f1, by cases e <;> simp [EW.toPW] at hne ⊢⟩
  · intro s1 h1
    have f1 := ensureWriteable_mstep s hel; rw [h1] at f1; try dsimp only at f1
    obtain ⟨q1, q2, q3, q4⟩ := nextCancelLoop_sizes (s1.cq.length + 1) s1
    have hA := nextCancelLoop_frameA (s1.cq.length + 1) s1
    refine ⟨f1.trans (MStep.of_frameA (d := 0) hA (by rw [q1]; omega)), fun e he => ?_⟩
    have := q4 e he
    exact (f1.trans (MStep.of_frameA (d := 1) hA (by rw [q1]; omega))).weaken (by omega)

theorem pollWriteCancel_mstep (s : St) (hel : s.ensureLoop = false) :
    MStep s (pollWriteCancel s).1 0 ∧ ((pollWriteCancel s).2 = .some () → MStep s (pollWriteCancel s).1 1) := by
  have hp := pollNextCancellation_mstep s hel
  refine pollWriteCancel_cases (motive := fun p => MStep s p.1 0 ∧ (p.2 = .some () → MStep s p.1 1)) s ?_ ?_ ?_
  · intro s1 r h1 hns
    rw [h1] at hp; try dsimp only at hp
    exact ⟨hp.1, by cases r <;> simp [PW.pass, PW.isSome] at hns ⊢⟩
  · intro s1 e s2 h1 h3
    rw [h1] at hp; try dsimp only at hp
    have f3 := tSend_mstep s1 (.cancel e.id e.ctx.trace); rw [h3] at f3; try dsimp only at f3
    exact ⟨hp.1.trans f3, fun _ => (hp.2 e rfl).trans f3⟩
  · intro s1 e s2 h1 h3
    rw [h1] at hp; try dsimp only at hp
    have f3 := tSend_mstep s1 (.cancel e.id e.ctx.trace); rw [h3] at f3; try dsimp only at f3
    exact ⟨hp.1.trans f3, by simp⟩

theorem pollExpired_mstep (s : St) (now : Nat) :
    MStep s (pollExpired s now).1 0 ∧ ((pollExpired s now).2 = true → MStep s (pollExpired s now).1 1) := by
  obtain ⟨c1, c2, c3, c4⟩ := pollExpired_sizes s now
  exact ⟨MStep.of_frameA (pollExpired_frameA _ _) (by rw [c1, c2]; omega),
    fun h => MStep.of_frameA (pollExpired_frameA _ _) (by have := c4 h; rw [c1, c2]; omega)⟩

theorem pumpWrite_mstep (s : St) (now : Nat) (hel : s.ensureLoop = false) :
    MStep s (pumpWrite s now).1 0 ∧ ((pumpWrite s now).2 = .some () → MStep s (pumpWrite s now).1 1) := by
  refine pumpWrite_cases (motive := fun p => MStep s p.1 0 ∧ (p.2 = .some () → MStep s p.1 1)) s now ?_ ?_ ?_ ?_ ?_ ?_
  · intro s1 r1 h1 _
    have f1 := pollWriteRequest_mstep s now hel; rw [h1] at f1; try dsimp only at f1; exact f1
  · intro s1 r1 s2 r2 h1 _ h2 _
    have f1 := pollWriteRequest_mstep s now hel; rw [h1] at f1; try dsimp only at f1
    have f2 := pollWriteCancel_mstep s1 (f1.1.el.trans hel); rw [h2] at f2; try dsimp only at f2
    exact ⟨f1.1.trans f2.1, fun h => (f1.1.trans (f2.2 h)).weaken (by omega)⟩
  · intro s1 r1 s2 r2 s3 h1 _ h2 _ h3
    have f1 := pollWriteRequest_mstep s now hel; rw [h1] at f1; try dsimp only at f1
    have f2 := pollWriteCancel_mstep s1 (f1.1.el.trans hel); rw [h2] at f2; try dsimp only at f2
    have f3 := pollExpired_mstep s2 now; rw [h3] at f3; try dsimp only at f3
    have := (f1.1.trans f2.1).trans (f3.2 rfl)
    exact ⟨this.weaken (by omega), fun _ => this.weaken (by omega)⟩
  · intro s1 r1 s2 r2 s3 h1 _ h2 _ h3 _
    have f1 := pollWriteRequest_mstep s now hel; rw [h1] at f1; try dsimp only at f1
    have f2 := pollWriteCancel_mstep s1 (f1.1.el.trans hel); rw [h2] at f2; try dsimp only at f2
    have f3 := pollExpired_mstep s2 now; rw [h3] at f3; try dsimp only at f3
    exact ⟨(f1.1.trans f2.1).trans f3.1, by simp⟩
  · intro s1 s2 s3 s4 r4 h1 h2 h3 h4
    have f1 := pollWriteRequest_mstep s now hel; rw [h1] at f1; try dsimp only at f1
    have f2 := pollWriteCancel_mstep s1 (f1.1.el.trans hel); rw [h2] at f2; try dsimp only at f2
    have f3 := pollExpired_mstep s2 now; rw [h3] at f3; try dsimp only at f3
    have f4 := tClose_mstep s3; rw [h4] at f4; try dsimp only at f4
    exact ⟨((f1.1.trans f2.1).trans f3.1).trans f4, by cases r4 <;> simp [closePW]⟩
  · intro s1 r1 s2 r2 s3 s4 r4 h1 _ h2 _ _ h3 h4
    have f1 := pollWriteRequest_mstep s now hel; rw [h1] at f1; try dsimp only at f1
    have f2 := pollWriteCancel_mstep s1 (f1.1.el.trans hel); rw [h2] at f2; try dsimp only at f2
    have f3 := pollExpired_mstep s2 now; rw [h3] at f3; try dsimp only at f3
    have f4 := tFlush_mstep s3; rw [h4] at f4; try dsimp only at f4
    exact ⟨((f1.1.trans f2.1).trans f3.1).trans f4, by cases r4 <;> simp [flushPW]⟩

theorem pumpRead_mstep (s : St) :
    MStep s (pumpRead s).1 0 ∧ ((pumpRead s).2 = .some () → MStep s (pumpRead s).1 1) := by
  have key := tNext_mstep s
  refine pumpRead_cases (motive := fun p => MStep s p.1 0 ∧ (p.2 = .some () → MStep s p.1 1)) s ?_ ?_ ?_ ?_ ?_
  · intro s1 h1; rw [h1] at key; try dsimp only at key; exact ⟨key.1, by simp⟩
  · intro s1 h1; rw [h1] at key; try dsimp only at key; exact ⟨key.1, by simp⟩
  · intro s1 h1; rw [h1] at key; try dsimp only at key; exact ⟨key.1, by simp⟩
  · intro s1 id res h1
    rw [h1] at key; try dsimp only at key
    obtain ⟨c1, c2, c3⟩ := completeRequest_sizes s1 id (outcomeOf res)
    have f4 : MStep s1 (completeRequest s1 id (outcomeOf res)).1 0 :=
      MStep.of_frameA (completeRequest_frameA _ _ _) (by rw [c1, c2]; omega)
    exact ⟨key.1.trans f4, fun _ => (key.2 _ rfl).trans f4⟩
  · intro s1 m h1 _; rw [h1] at key; try dsimp only at key; exact ⟨key.1, fun _ => key.2 _ rfl⟩

/-- **No spin, given fuel.**  With the fixed `ensure_writeable`, `run` emits no `Obs.spin` whenever its fuel exceeds
`runMeasure s`: every iteration that loops consumes at least one unit. -/
theorem run_no_spin (fuel : Nat) (s : St) (now : Nat) (hel : s.ensureLoop = false) (hf : runMeasure s < fuel) :
    (run fuel s now).1.obs.filter isSpinObs = s.obs.filter isSpinObs := by
  induction fuel generalizing s with
  | zero => omega
  | succ fuel ih =>
    have pr := pumpRead_mstep s
    refine run_cases (motive := fun p => p.1.obs.filter isSpinObs = s.obs.filter isSpinObs) fuel s now
      ?_ ?_ ?_ ?_ ?_ ?_ ?_ ?_ ?_
    · intro s1 a h1; rw [h1] at pr; try dsimp only at pr; exact pr.1.spin
    · intro s1 h1; rw [h1] at pr; try dsimp only at pr; exact pr.1.spin
    · intro s1 rd s2 a h1 h2
      rw [h1] at pr; try dsimp only at pr
      have pw := pumpWrite_mstep s1 now (pr.1.el.trans hel); rw [h2] at pw; try dsimp only at pw
      exact (pr.1.trans pw.1).spin
    · intro s1 rd s2 h1 h2
      rw [h1] at pr; try dsimp only at pr
      have pw := pumpWrite_mstep s1 now (pr.1.el.trans hel); rw [h2] at pw; try dsimp only at pw
      exact (pr.1.trans pw.1).spin
    · intro s1 s2 wr h1 h2 _
      rw [h1] at pr; try dsimp only at pr
      have pw := pumpWrite_mstep s1 now (pr.1.el.trans hel); rw [h2] at pw; try dsimp only at pw
      exact (pr.1.trans pw.1).spin
    · intro s1 rd s2 h1 _ h2 _
      rw [h1] at pr; try dsimp only at pr
      have pw := pumpWrite_mstep s1 now (pr.1.el.trans hel); rw [h2] at pw; try dsimp only at pw
      exact (pr.1.trans pw.1).spin
    · intro s1 s2 h1 h2 _
      rw [h1] at pr; try dsimp only at pr
      have pw := pumpWrite_mstep s1 now (pr.1.el.trans hel); rw [h2] at pw; try dsimp only at pw
      exact (pr.1.trans pw.1).spin
    · intro s1 rd s2 wr h1 h2 hw
      rw [h1] at pr; try dsimp only at pr
      have pw := pumpWrite_mstep s1 now (pr.1.el.trans hel); rw [h2] at pw; try dsimp only at pw
      -- one of the two pumps made progress
      have step : MStep s s2 1 := by
        rcases hw with ⟨hrd, _⟩ | ⟨_, hwr⟩
        · exact ((pr.2 hrd).trans pw.1).weaken (by omega)
        · exact (pr.1.trans (pw.2 hwr)).weaken (by omega)
      have := step.mu
      rw [ih s2 (step.el.trans hel) (by omega)]
      exact step.spin
    · intro s1 s2 h1 h2
      rw [h1] at pr; try dsimp only at pr
      have pw := pumpWrite_mstep s1 now (pr.1.el.trans hel); rw [h2] at pw; try dsimp only at pw
      exact (pr.1.trans pw.1).spin

/-- The fuel `pollDispatchCore` gives `run` exceeds the measure: `runFuel s = runMeasure s + 4`. -/
theorem runMeasure_lt_runFuel (s : St) : runMeasure s < runFuel s := by
  unfold runMeasure runFuel; omega

end TarpcModel.Client.Flow

import TarpcModel.Lemmas.C15Varint
import TarpcModel.Wire.Bincode
/-! Helper lemmas for the bincode message codec (C15): parser locality, per-type round trips. -/
namespace TarpcModel.Bincode

/-! ### Locality: a successful parse is not affected by bytes appended behind it -/

def Parser.Local {α : Type} (p : Parser α) : Prop :=
  ∀ bs v r rest, p bs = some (v, r) → p (bs ++ rest) = some (v, r ++ rest)

theorem decLE_local (n : Nat) : (decLE n).Local := by
  intro bs v r rest h
  simp only [decLE] at h ⊢
  split at h
  · next hn =>
    simp at h
    simp [List.take_append_of_le_length hn, List.drop_append_of_le_length hn, h.1, h.2]
    omega
  · simp at h

theorem decVarint_local : decVarint.Local := by
  intro bs v r rest h
  cases bs with
  | nil => simp [decVarint] at h
  | cons b t =>
    simp only [decVarint, List.cons_append] at h ⊢
    split
    · next hb => simp [hb] at h; simp [h.1, h.2]
    · next hb =>
      simp only [hb, ↓reduceIte] at h
      split
      · next h1 => simp only [h1, ↓reduceIte] at h; exact decLE_local 2 _ _ _ _ h
      · next h1 =>
        simp only [h1, ↓reduceIte] at h
        split
        · next h2 => simp only [h2, ↓reduceIte] at h; exact decLE_local 4 _ _ _ _ h
        · next h2 =>
          simp only [h2, ↓reduceIte] at h
          split
          · next h3 => simp only [h3, ↓reduceIte] at h; exact decLE_local 8 _ _ _ _ h
          · next h3 => simp [h3] at h

theorem decVarintBounded_local (b : Nat) : (decVarintBounded b).Local := by
  intro bs v r rest h
  simp only [decVarintBounded] at h ⊢
  cases hd : decVarint bs with
  | none => simp [hd] at h
  | some p =>
    obtain ⟨v', r'⟩ := p
    rw [hd] at h
    rw [decVarint_local _ _ _ rest hd]
    simp only at h ⊢
    split at h
    · next hv =>
      simp at h
      obtain ⟨rfl, rfl⟩ := h
      simp [hv]
    · simp at h

theorem decSigned_local (bits : Nat) : (decSigned bits).Local := by
  intro bs v r rest h
  simp only [decSigned] at h ⊢
  cases hd : decVarint bs with
  | none => simp [hd] at h
  | some p =>
    obtain ⟨v', r'⟩ := p
    rw [hd] at h
    rw [decVarint_local _ _ _ rest hd]
    simp only at h ⊢
    split at h
    · next hv =>
      simp at h
      obtain ⟨rfl, rfl⟩ := h
      simp [hv]
    · simp at h

theorem decU8_local : decU8.Local := by
  intro bs v r rest h
  cases bs with
  | nil => simp [decU8] at h
  | cons b t => simp [decU8] at h ⊢; simp [h.1, h.2]

theorem natP_local {p : Parser Nat} (hp : p.Local) : (natP p).Local := by
  intro bs v r rest h
  simp only [natP] at h ⊢
  cases hd : p bs with
  | none => simp [hd] at h
  | some q =>
    obtain ⟨v', r'⟩ := q
    rw [hd] at h
    rw [hp _ _ _ rest hd]
    simp at h ⊢
    simp [h.1, h.2]

theorem decKindNum_local (ty : String) : (decKindNum ty).Local := by
  unfold decKindNum
  split
  · exact natP_local decU8_local
  · split
    · intro bs v r rest h
      dsimp only at h ⊢
      cases hd : decU8 bs with
      | none => simp [hd] at h
      | some q =>
        obtain ⟨v', r'⟩ := q
        rw [hd] at h
        rw [decU8_local _ _ _ rest hd]
        simp at h ⊢
        simp [h.1, h.2]
    · split
      · exact natP_local (decVarintBounded_local _)
      · split
        · exact natP_local decVarint_local
        · split
          · exact decSigned_local 16
          · split
            · exact decSigned_local 32
            · split
              · exact decSigned_local 64
              · exact natP_local (decVarintBounded_local _)

theorem decKindP_local : decKindP.Local := by
  intro bs v r rest h
  simp only [decKindP] at h ⊢
  cases hd : decKindNum Gen.ekDeTy bs with
  | none => simp [hd] at h
  | some q =>
    obtain ⟨v', r'⟩ := q
    rw [hd] at h
    rw [decKindNum_local _ _ _ _ rest hd]
    simp at h ⊢
    simp [h.1, h.2]

/-- From the value-level kind mapping to the parser inside a message. -/
theorem decKindP_of_decodeKind {bs : Bytes} {k' : String} (h : decodeKind bs = some k')
    (rest : Bytes) : decKindP (bs ++ rest) = some (k', rest) := by
  unfold decodeKind at h
  split at h
  · next k hk =>
    simp at h
    have := decKindP_local _ _ _ rest hk
    simpa [h] using this
  · simp at h

/-! ### Table lookups -/

theorem lookupSer_of_not_mem (k : String) (tbl : List (String × Nat)) (d : Nat)
    (h : k ∉ tbl.map (·.1)) : lookupSer k tbl d = d := by
  induction tbl with
  | nil => rfl
  | cons p t ih =>
    obtain ⟨n, v⟩ := p
    simp at h
    simp [lookupSer, h.1, ih (by simpa using h.2)]

/-! ### Per-type round trips -/

theorem decU64_encU64 (v : Nat) (rest : Bytes) (h : v < 2 ^ 64) :
    decU64 (encU64 v ++ rest) = some (v, rest) := decVarint_encVarint v rest h

theorem decU32_encU32 (v : Nat) (rest : Bytes) (h : v < 2 ^ 32) :
    decU32 (encU32 v ++ rest) = some (v, rest) :=
  decVarintBounded_encVarint _ v rest (by decide) h

theorem decU16_encU16 (v : Nat) (rest : Bytes) (h : v < 2 ^ 16) :
    decU16 (encU16 v ++ rest) = some (v, rest) :=
  decVarintBounded_encVarint _ v rest (by decide) h

theorem decStr_encStr (s : String) (rest : Bytes) (h : strValid s) :
    decStr (encStr s ++ rest) = some (s, rest) := by
  unfold strValid at h
  simp only [decStr, encStr, List.append_assoc, decU64_encU64 _ _ h]
  simp [strBytes, String.fromUTF8?, String.toUTF8, s.isValidUTF8, String.fromUTF8]

theorem decDuration_encDuration (d : Duration) (rest : Bytes) (h : d.Valid) :
    decDuration (encDuration d ++ rest) = some (d, rest) := by
  obtain ⟨h1, h2⟩ := h
  have : d.nanos / 1000000000 = 0 := Nat.div_eq_of_lt h2
  have h3 : d.nanos % 1000000000 = d.nanos := Nat.mod_eq_of_lt h2
  simp [decDuration, encDuration, List.append_assoc, decU64_encU64 _ _ h1,
    decU32_encU32 _ _ (show d.nanos < 2 ^ 32 by omega), this, h1, h3]

theorem decTrace_encTrace (t : TraceContext) (rest : Bytes) (h : t.Valid) :
    decTrace (encTrace t ++ rest) = some (t, rest) := by
  obtain ⟨tid, sid, sampled⟩ := t
  obtain ⟨h1, h2⟩ := h
  simp only at h1 h2
  cases sampled
  · simp [decTrace, encTrace, List.append_assoc,
      decLE_leBytes 16 tid _ (show tid < 256 ^ 16 by omega), decU64_encU64 sid _ h2,
      decU32_encU32 1 rest (by decide)]
  · simp [decTrace, encTrace, List.append_assoc,
      decLE_leBytes 16 tid _ (show tid < 256 ^ 16 by omega), decU64_encU64 sid _ h2,
      decU32_encU32 0 rest (by decide)]

theorem decContext_encContext (c : Context) (rest : Bytes) (h : c.Valid) :
    decContext (encContext c ++ rest) = some (c, rest) := by
  simp [decContext, encContext, List.append_assoc, decDuration_encDuration _ _ h.1,
    decTrace_encTrace _ _ h.2]

section
variable {T : Type} {encT : T → Bytes} {decT : Parser T} {PT : T → Prop}

theorem decRequest_encRequest (hT : BodyCodec encT decT PT) (r : Request T) (rest : Bytes)
    (h : r.Valid PT) : decRequest decT (encRequest encT r ++ rest) = some (r, rest) := by
  obtain ⟨h1, h2, h3⟩ := h
  simp [decRequest, encRequest, List.append_assoc, decContext_encContext _ _ h1,
    decU64_encU64 _ _ h2, hT _ _ h3]

theorem decClientMessage_encClientMessage (hT : BodyCodec encT decT PT) (m : ClientMessage T)
    (rest : Bytes) (h : m.Valid PT) :
    decClientMessage decT (encClientMessage encT m ++ rest) = some (m, rest) := by
  cases m with
  | request r =>
    simp [decClientMessage, encClientMessage, List.append_assoc, decU32_encU32 0 _ (by decide),
      decRequest_encRequest hT r rest h]
  | cancel t id =>
    simp [decClientMessage, encClientMessage, List.append_assoc, decU32_encU32 1 _ (by decide),
      decTrace_encTrace _ _ h.1, decU64_encU64 _ _ h.2]

theorem decServerError_encServerError (e : ServerError) (k' : String) (rest : Bytes)
    (hk : decodeKind (encodeKind e.kind) = some k') (h : strValid e.detail) :
    decServerError (encServerError e ++ rest) = some ({ e with kind := k' }, rest) := by
  simp [decServerError, encServerError, List.append_assoc, decKindP_of_decodeKind hk,
    decStr_encStr _ _ h]

end
end TarpcModel.Bincode

import TarpcModel.Lemmas.ClientTrack
import TarpcModel.Lemmas.ClientDrain
/-!
# A parked dispatch does not sit on a queued request

`PkOK s`: the request queue is empty and the dispatch is registered on it (or no sender is left, or the queue is
closed) — or the in-flight table is full — or the sink is not ready and the dispatch's waker is registered with it.
`PkI s`: an alive dispatch without terminal error that has not been woken since its last poll satisfies `PkOK`.

* the sink: `Blocked t` (not ready, waker registered, and the owner's own flushes do not change that) is what
  `ensure_writeable → Pending` leaves behind, and it is stable under the rest of the poll;
* `pumpWrite_parks`, `run_parks`: a pump that goes idle leaves `PkW` (= `PkOK` with `Blocked`);
* every other op preserves `PkI` (a request pushed while the dispatch is parked on the queue wakes it, readiness
  restored while it is parked on the sink wakes it);
* `reach_pk`: `PkI` holds in every reachable state.

(The timer side of the parking discipline is `Lemmas/ClientParked.lean`.)
-/
set_option linter.unusedSimpArgs false
set_option linter.unusedVariables false
namespace TarpcModel.Client
open Flow.SimT

/-! ### the sink -/

/-- not ready, waker registered, and a flush by the owner cannot make it ready -/
def Blocked (t : SimT) : Prop :=
  t.isReadyNow = false ∧ t.writeWaker = true ∧
    ((t.coupled = true ∧ t.flushOpen = false ∧ t.buffered ≠ []) ∨ t.buffered = [])

theorem Blocked.of_fields {t t' : SimT} (hb : Blocked t) (hr : t'.isReadyNow = t.isReadyNow) (hw : t'.writeWaker = true)
    (hc : t'.coupled = t.coupled) (hf : t'.flushOpen = t.flushOpen) (hbuf : t'.buffered = t.buffered) : Blocked t' := by
  obtain ⟨h1, h2, h3⟩ := hb
  exact ⟨by rw [hr]; exact h1, hw, by rw [hc, hf, hbuf]; exact h3⟩

/-- the state a transport call works on after its bookkeeping (`useAfter`, fault countdown) -/
def tPre (t : SimT) (w : String) (a : Bool) : SimT := (t.useAfter w).letThrough a

theorem tPre_fields (t : SimT) (w : String) (a : Bool) :
    (tPre t w a).isReadyNow = t.isReadyNow ∧ (tPre t w a).writeWaker = t.writeWaker ∧ (tPre t w a).coupled = t.coupled ∧
    (tPre t w a).flushOpen = t.flushOpen ∧ (tPre t w a).buffered = t.buffered := by
  unfold tPre; simp

theorem Blocked.tPre {t : SimT} (hb : Blocked t) (w : String) (a : Bool) : Blocked (tPre t w a) := by
  obtain ⟨a1, a2, a3, a4, a5⟩ := tPre_fields t w a
  exact hb.of_fields a1 (by rw [a2]; exact hb.2.1) a3 a4 a5

theorem useAfter_fields (t : SimT) (w : String) :
    (t.useAfter w).isReadyNow = t.isReadyNow ∧ (t.useAfter w).writeWaker = t.writeWaker ∧ (t.useAfter w).coupled = t.coupled ∧
    (t.useAfter w).flushOpen = t.flushOpen ∧ (t.useAfter w).buffered = t.buffered := by simp

theorem pollReady_unf (t : SimT) : t.pollReady =
    if (t.useAfter "ready").fires (t.useAfter "ready").faultReady then
      ({ t.useAfter "ready" with faultReady := false, failed := true }, .err, false)
    else if (tPre t "ready" (t.useAfter "ready").faultReady).isReadyNow then
      ({ tPre t "ready" (t.useAfter "ready").faultReady with gotReady := true }, .ready, false)
    else ({ tPre t "ready" (t.useAfter "ready").faultReady with writeWaker := true }, .pending, false) := rfl

theorem pollFlush_unf (t : SimT) : t.pollFlush =
    if (t.useAfter "flush").fires (t.useAfter "flush").faultFlush then
      ({ t.useAfter "flush" with faultFlush := false, failed := true }, .err, false)
    else if (tPre t "flush" (t.useAfter "flush").faultFlush).coupled &&
        !(tPre t "flush" (t.useAfter "flush").faultFlush).flushOpen &&
        !(tPre t "flush" (t.useAfter "flush").faultFlush).buffered.isEmpty then
      ({ tPre t "flush" (t.useAfter "flush").faultFlush with writeWaker := true }, .pending, false)
    else ((tPre t "flush" (t.useAfter "flush").faultFlush).drain.1, .ready,
          (tPre t "flush" (t.useAfter "flush").faultFlush).drain.2) := rfl

theorem pollClose_unf (t : SimT) : t.pollClose =
    if (t.useAfter "close").fires (t.useAfter "close").faultClose then
      ({ t.useAfter "close" with faultClose := false, failed := true }, .err, false)
    else if (tPre t "close" (t.useAfter "close").faultClose).coupled &&
        !(tPre t "close" (t.useAfter "close").faultClose).flushOpen &&
        !(tPre t "close" (t.useAfter "close").faultClose).buffered.isEmpty then
      ({ tPre t "close" (t.useAfter "close").faultClose with writeWaker := true }, .pending, false)
    else ({ (tPre t "close" (t.useAfter "close").faultClose).drain.1 with closed := true }, .ready,
          (tPre t "close" (t.useAfter "close").faultClose).drain.2) := rfl

/-- `poll_ready` on a blocked sink: never `Ready`, stays blocked -/
theorem pollReady_of_blocked {t : SimT} (hb : Blocked t) : t.pollReady.2.1 ≠ .ready ∧ Blocked t.pollReady.1 := by
  obtain ⟨u1, u2, u3, u4, u5⟩ := useAfter_fields t "ready"
  have hp := hb.tPre "ready" (t.useAfter "ready").faultReady
  rw [pollReady_unf]
  generalize tPre t "ready" (t.useAfter "ready").faultReady = p at hp
  split
  · refine ⟨by simp, ?_⟩
    exact hb.of_fields u1 (by show (t.useAfter "ready").writeWaker = true; rw [u2]; exact hb.2.1) u3 u4 u5
  · rw [if_neg (by rw [hp.1]; simp)]
    exact ⟨by simp, hp.of_fields rfl rfl rfl rfl rfl⟩

/-- `poll_ready → Pending`: not ready, the waker is registered; nothing else the sink lemmas look at changes -/
theorem pollReady_pending_spec (t : SimT) (h : t.pollReady.2.1 = .pending) :
    t.pollReady.1.isReadyNow = false ∧ t.pollReady.1.writeWaker = true ∧ t.pollReady.1.coupled = t.coupled ∧
    t.pollReady.1.flushOpen = t.flushOpen ∧ t.pollReady.1.buffered = t.buffered := by
  obtain ⟨a1, a2, a3, a4, a5⟩ := tPre_fields t "ready" (t.useAfter "ready").faultReady
  rw [pollReady_unf] at h ⊢
  generalize tPre t "ready" (t.useAfter "ready").faultReady = p at a1 a2 a3 a4 a5 h
  split at h
  · cases h
  · rename_i hf
    rw [if_neg hf]
    split at h
    · cases h
    · rename_i hr
      rw [if_neg hr]
      have hr' : p.isReadyNow = false := by simpa using hr
      exact ⟨hr', rfl, a3, a4, a5⟩

theorem drain_of_blocked {t : SimT} (hb : t.buffered = []) (hr : t.isReadyNow = false) :
    t.drain.2 = false ∧ t.drain.1.isReadyNow = false ∧ t.drain.1.writeWaker = t.writeWaker ∧ t.drain.1.buffered = [] ∧
    t.drain.1.coupled = t.coupled ∧ t.drain.1.flushOpen = t.flushOpen := by
  have h0 : ({ t with wire := t.wire ++ t.buffered, buffered := [] } : SimT).isReadyNow = false := by
    rw [← hr]; unfold SimT.isReadyNow; simp [hb]
  have hd : t.drain = ({ t with wire := t.wire ++ t.buffered, buffered := [] }, false) := by
    unfold SimT.drain; simp [h0]
  rw [hd]
  exact ⟨rfl, h0, rfl, rfl, rfl, rfl⟩

theorem blocked_buffered {t : SimT} (hb : Blocked t) (hc : ¬ (t.coupled && !t.flushOpen && !t.buffered.isEmpty) = true) :
    t.buffered = [] := by
  rcases hb.2.2 with ⟨a, b, c⟩ | c
  · exfalso; apply hc; rw [a, b]; simp [c]
  · exact c

/-- `poll_flush` on a blocked sink: it stays blocked and nobody is woken -/
theorem pollFlush_of_blocked {t : SimT} (hb : Blocked t) : Blocked t.pollFlush.1 ∧ t.pollFlush.2.2 = false := by
  obtain ⟨u1, u2, u3, u4, u5⟩ := useAfter_fields t "flush"
  have hp := hb.tPre "flush" (t.useAfter "flush").faultFlush
  rw [pollFlush_unf]
  generalize tPre t "flush" (t.useAfter "flush").faultFlush = p at hp
  split
  · exact ⟨hb.of_fields u1 (by show (t.useAfter "flush").writeWaker = true; rw [u2]; exact hb.2.1) u3 u4 u5, rfl⟩
  · split
    · exact ⟨hp.of_fields rfl rfl rfl rfl rfl, rfl⟩
    · rename_i hc
      obtain ⟨d1, d2, d3, d4, d5, d6⟩ := drain_of_blocked (blocked_buffered hp hc) hp.1
      exact ⟨⟨d2, by rw [d3]; exact hp.2.1, Or.inr d4⟩, d1⟩

/-- `poll_close` on a blocked sink -/
theorem pollClose_of_blocked {t : SimT} (hb : Blocked t) : Blocked t.pollClose.1 ∧ t.pollClose.2.2 = false := by
  obtain ⟨u1, u2, u3, u4, u5⟩ := useAfter_fields t "close"
  have hp := hb.tPre "close" (t.useAfter "close").faultClose
  rw [pollClose_unf]
  generalize tPre t "close" (t.useAfter "close").faultClose = p at hp
  split
  · exact ⟨hb.of_fields u1 (by show (t.useAfter "close").writeWaker = true; rw [u2]; exact hb.2.1) u3 u4 u5, rfl⟩
  · split
    · exact ⟨hp.of_fields rfl rfl rfl rfl rfl, rfl⟩
    · rename_i hc
      obtain ⟨d1, d2, d3, d4, d5, d6⟩ := drain_of_blocked (blocked_buffered hp hc) hp.1
      exact ⟨⟨d2, by show p.drain.1.writeWaker = true; rw [d3]; exact hp.2.1, Or.inr d4⟩, d1⟩

/-- `poll_flush → Pending`: the flush is blocked on a coupled sink that holds something -/
theorem pollFlush_pending_spec (t : SimT) (h : t.pollFlush.2.1 = .pending) :
    t.pollFlush.1.writeWaker = true ∧ t.pollFlush.1.coupled = true ∧ t.pollFlush.1.flushOpen = false ∧
    t.pollFlush.1.buffered ≠ [] ∧ t.pollFlush.1.isReadyNow = t.isReadyNow := by
  obtain ⟨a1, a2, a3, a4, a5⟩ := tPre_fields t "flush" (t.useAfter "flush").faultFlush
  rw [pollFlush_unf] at h ⊢
  generalize tPre t "flush" (t.useAfter "flush").faultFlush = p at a1 a2 a3 a4 a5 h
  split at h
  · cases h
  · rename_i hf
    rw [if_neg hf]
    split at h
    · rename_i hc
      rw [if_pos hc]
      simp only [Bool.and_eq_true, Bool.not_eq_true'] at hc
      refine ⟨rfl, hc.1.1, hc.1.2, ?_, a1⟩
      intro hnil
      have : p.buffered = [] := hnil
      rw [this] at hc; simp at hc
    · cases h

/-! ### what the tail of the write pump leaves alone -/

structure PF (s s' : St) : Prop where
  pq : s'.pq = s.pq
  rx : s'.pqRxWaker = s.pqRxWaker
  cl : s'.pqClosed = s.pqClosed
  snd : senders s' = senders s
  mx : s'.maxInFlight = s.maxInFlight
  inf : s'.inflight.length = s.inflight.length
  bl : Blocked s.t → Blocked s'.t

theorem PF.refl (s : St) : PF s s := ⟨rfl, rfl, rfl, rfl, rfl, rfl, id⟩

theorem PF.trans {a b c : St} (h1 : PF a b) (h2 : PF b c) : PF a c :=
  ⟨h2.pq.trans h1.pq, h2.rx.trans h1.rx, h2.cl.trans h1.cl, h2.snd.trans h1.snd, h2.mx.trans h1.mx,
   h2.inf.trans h1.inf, fun h => h2.bl (h1.bl h)⟩

/-- where an idle write pump leaves the dispatch: registered on the empty request queue (or the queue has no sender
left / is closed), or the table is full, or the sink is blocked with the waker registered -/
def PkW (s : St) : Prop :=
  (s.pq = [] ∧ (s.pqRxWaker = true ∨ senders s = 0 ∨ s.pqClosed = true)) ∨ s.inflight.length ≥ s.maxInFlight ∨ Blocked s.t

theorem PkW.pf {s s' : St} (h : PkW s) (f : PF s s') : PkW s' := by
  rcases h with ⟨h1, h2⟩ | h | h
  · exact Or.inl ⟨by rw [f.pq]; exact h1, by rw [f.rx, f.snd, f.cl]; exact h2⟩
  · exact Or.inr (Or.inl (by rw [f.inf, f.mx]; exact h))
  · exact Or.inr (Or.inr (f.bl h))

theorem pf_emit (s : St) (o : Obs) : PF s (emit s o) := ⟨rfl, rfl, rfl, rfl, rfl, rfl, id⟩

theorem pf_wakeDispatch (s : St) : PF s (wakeDispatch s) :=
  ⟨by simp, by simp, by simp, Flow.wakeDispatch_senders s, by simp, by simp, by simp⟩

theorem pf_tEmit (s : St) (t' : SimT) (o : Obs) (w : Bool) (hb : Blocked s.t → Blocked t') : PF s (Flow.tEmit s t' o w) := by
  obtain ⟨l, dw, he, _, _⟩ := Flow.tEmit_eq s t' o w
  rw [he]
  exact ⟨rfl, rfl, rfl, rfl, rfl, rfl, hb⟩

theorem pf_tReady (s : St) : PF s (tReady s).1 := by
  rw [Flow.tReady_eq]; exact pf_tEmit _ _ _ _ (fun hb => (pollReady_of_blocked hb).2)
theorem pf_tFlush (s : St) : PF s (tFlush s).1 := by
  rw [Flow.tFlush_eq]; exact pf_tEmit _ _ _ _ (fun hb => (pollFlush_of_blocked hb).1)
theorem pf_tClose (s : St) : PF s (tClose s).1 := by
  rw [Flow.tClose_eq]; exact pf_tEmit _ _ _ _ (fun hb => (pollClose_of_blocked hb).1)

theorem pf_ensureOnce (s : St) : PF s (ensureOnce s).1 := by
  refine Flow.ensureOnce_cases (motive := fun q => PF s q.1) s ?_ ?_ ?_ ?_ ?_
  · intro s1 h1; have := pf_tReady s; rw [h1] at this; exact this
  · intro s1 h1; have := pf_tReady s; rw [h1] at this; exact this
  · intro s1 s2 h1 h2
    have a := pf_tReady s; rw [h1] at a
    have b := pf_tFlush s1; rw [h2] at b; exact a.trans b
  · intro s1 s2 h1 h2
    have a := pf_tReady s; rw [h1] at a
    have b := pf_tFlush s1; rw [h2] at b; exact a.trans b
  · intro s1 s2 s3 r h1 h2 h3
    have a := pf_tReady s; rw [h1] at a
    have b := pf_tFlush s1; rw [h2] at b
    have c := pf_tReady s2; rw [h3] at c; exact (a.trans b).trans c

theorem pf_ensureLoop (fuel : Nat) (s : St) : PF s (ensureLoop fuel s).1 := by
  induction fuel generalizing s with
  | zero => rw [Flow.ensureLoop_zero]; exact pf_emit _ _
  | succ fuel ih =>
    refine Flow.ensureLoop_cases (motive := fun q => PF s q.1) fuel s ?_ ?_ ?_ ?_ ?_
    · intro s1 h1; have := pf_tReady s; rw [h1] at this; exact this
    · intro s1 h1; have := pf_tReady s; rw [h1] at this; exact this
    · intro s1 s2 h1 h2
      have a := pf_tReady s; rw [h1] at a
      have b := pf_tFlush s1; rw [h2] at b; exact a.trans b
    · intro s1 s2 h1 h2
      have a := pf_tReady s; rw [h1] at a
      have b := pf_tFlush s1; rw [h2] at b; exact a.trans b
    · intro s1 s2 h1 h2
      have a := pf_tReady s; rw [h1] at a
      have b := pf_tFlush s1; rw [h2] at b
      exact (a.trans b).trans (ih s2)

theorem pf_ensureWriteable (s : St) : PF s (ensureWriteable s).1 := by
  unfold ensureWriteable; split
  · exact pf_ensureLoop _ _
  · exact pf_ensureOnce _

/-! ### `ensure_writeable → Pending` leaves a blocked sink -/

theorem tReady_pending_t {s s1 : St} (h : tReady s = (s1, .pending)) :
    s1.t.isReadyNow = false ∧ s1.t.writeWaker = true ∧ s1.t.coupled = s.t.coupled ∧ s1.t.flushOpen = s.t.flushOpen ∧
    s1.t.buffered = s.t.buffered := by
  have e : s1.t = s.t.pollReady.1 := by have := Flow.tReady_t s; rw [h] at this; exact this
  have r : s.t.pollReady.2.1 = .pending := by have := Flow.tReady_res s; rw [h] at this; exact this.symm
  rw [e]; exact pollReady_pending_spec _ r

theorem tFlush_pending_t {s s1 : St} (h : tFlush s = (s1, .pending)) :
    s1.t.writeWaker = true ∧ s1.t.coupled = true ∧ s1.t.flushOpen = false ∧ s1.t.buffered ≠ [] ∧
    s1.t.isReadyNow = s.t.isReadyNow := by
  have e : s1.t = s.t.pollFlush.1 := by have := Flow.tFlush_t s; rw [h] at this; exact this
  have r : s.t.pollFlush.2.1 = .pending := by have := Flow.tFlush_res s; rw [h] at this; exact this.symm
  rw [e]; exact pollFlush_pending_spec _ r

theorem tFlush_ready_t {s s1 : St} (h : tFlush s = (s1, .ready)) : s1.t.buffered = [] := by
  have e : s1.t = s.t.pollFlush.1 := by have := Flow.tFlush_t s; rw [h] at this; exact this
  have r : s.t.pollFlush.2.1 = .ready := by have := Flow.tFlush_res s; rw [h] at this; exact this.symm
  rw [e]; exact (Flow.SimT.pollFlush_flushed _).2 r

theorem ensureWriteable_pending_blocked {s s1 : St} (h : ensureWriteable s = (s1, .pending)) : Blocked s1.t := by
  have fp : ∀ {s s1 s2 : St}, tReady s = (s1, .pending) → tFlush s1 = (s2, .pending) → Blocked s2.t := by
    intro s s1 s2 h1 h2
    obtain ⟨a1, _, _, _, _⟩ := tReady_pending_t h1
    obtain ⟨b1, b2, b3, b4, b5⟩ := tFlush_pending_t h2
    exact ⟨by rw [b5]; exact a1, b1, Or.inl ⟨b2, b3, b4⟩⟩
  have key1 : ∀ s, (ensureOnce s).2 = .pending → Blocked (ensureOnce s).1.t := by
    intro s
    refine Flow.ensureOnce_cases (motive := fun q => q.2 = .pending → Blocked q.1.t) s ?_ ?_ ?_ ?_ ?_
    · intro _ _ hh; cases hh
    · intro _ _ hh; cases hh
    · intro s1 s2 h1 h2 _; exact fp h1 h2
    · intro _ _ _ _ hh; cases hh
    · intro s1 s2 s3 r h1 h2 h3 hh
      cases r with
      | ready => cases hh
      | err => cases hh
      | pending =>
        obtain ⟨c1, c2, _, _, c5⟩ := tReady_pending_t h3
        exact ⟨c1, c2, Or.inr (by rw [c5]; exact tFlush_ready_t h2)⟩
  have key2 : ∀ fuel s, (ensureLoop fuel s).2 = .pending → Blocked (ensureLoop fuel s).1.t := by
    intro fuel
    induction fuel with
    | zero => intro s hh; rw [Flow.ensureLoop_zero] at hh; cases hh
    | succ fuel ih =>
      intro s
      refine Flow.ensureLoop_cases (motive := fun q => q.2 = .pending → Blocked q.1.t) fuel s ?_ ?_ ?_ ?_ ?_
      · intro _ _ hh; cases hh
      · intro _ _ hh; cases hh
      · intro s1 s2 h1 h2 _; exact fp h1 h2
      · intro _ _ _ _ hh; cases hh
      · intro s1 s2 h1 h2 hh; exact ih s2 hh
  have e : s1 = (ensureWriteable s).1 := by rw [h]
  have r : (ensureWriteable s).2 = .pending := by rw [h]
  rw [e]
  unfold ensureWriteable at r ⊢
  split at r
  · rename_i hl; rw [if_pos hl]; exact key2 _ _ r
  · rename_i hl; rw [if_neg hl]; exact key1 _ r

/-! ### the request queue is drained -/

theorem pqRecv_spec (s : St) :
    (∃ r rest, s.pq = r :: rest ∧ pqRecv s = (pqRelease { s with pq := rest }, .item r)) ∨
    (s.pq = [] ∧ pqRecv s = (s, .closed) ∧ (senders s = 0 ∨ s.pqClosed = true)) ∨
    (s.pq = [] ∧ pqRecv s = ({ s with pqRxWaker := true }, .pending)) := by
  by_cases h : s.pq = []
  · right
    have e : pqRecv s = if senders s == 0 then (s, .closed)
        else if s.pqClosed && s.pqAvail == s.bufCap then (s, .closed)
        else ({ s with pqRxWaker := true }, .pending) := by unfold pqRecv; rw [h]
    rw [e]
    split
    · rename_i hs; left; exact ⟨h, rfl, Or.inl (by simpa using hs)⟩
    · split
      · rename_i hc; left; exact ⟨h, rfl, Or.inr (by simp at hc; exact hc.1)⟩
      · right; exact ⟨h, rfl⟩
  · left
    obtain ⟨r, rest, hr⟩ := List.exists_cons_of_ne_nil h
    exact ⟨r, rest, hr, by unfold pqRecv; rw [hr]⟩

theorem pqRelease_pq (s : St) : (pqRelease s).pq = s.pq := by
  unfold pqRelease; split
  · simp
  · rfl

/-- the dequeue loop of `poll_next_request`, with enough fuel, stops `Pending` / `None` only on an empty queue — with the
waker registered, or with no sender left / the queue closed -/
theorem nextRequestLoop_idle (fuel : Nat) {s s' : St} {r : PW DReq} (h : nextRequestLoop fuel s = (s', r))
    (hr : r = .pending ∨ r = .none) (hf : s.pq.length < fuel) :
    s'.pq = [] ∧ (s'.pqRxWaker = true ∨ senders s' = 0 ∨ s'.pqClosed = true) := by
  induction fuel generalizing s with
  | zero => omega
  | succ fuel ih =>
    unfold nextRequestLoop at h
    rcases pqRecv_spec s with ⟨r0, rest, hpq, heq⟩ | ⟨hpq, heq, hx⟩ | ⟨hpq, heq⟩
    · rw [heq] at h
      simp only at h
      split at h
      · refine ih h ?_
        rw [pqRelease_pq]; simp only; rw [hpq] at hf; simp at hf; omega
      · injection h with _ h2; subst h2; rcases hr with hr | hr <;> cases hr
    · rw [heq] at h
      simp only at h
      injection h with h1 _; subst h1
      exact ⟨hpq, Or.inr hx⟩
    · rw [heq] at h
      simp only at h
      injection h with h1 _; subst h1
      exact ⟨hpq, Or.inl rfl⟩

theorem pollNextRequest_parks {s s1 : St} {r : PW DReq} (h : pollNextRequest s = (s1, r))
    (hr : r = .pending ∨ r = .none) : PkW s1 := by
  revert h
  refine Flow.pollNextRequest_cases (motive := fun q => q = (s1, r) → PkW s1) s ?_ ?_ ?_
  · intro hfull hh
    injection hh with e1 _; subst e1
    exact Or.inr (Or.inl hfull)
  · intro s0 e _ he hne hh
    injection hh with e1 e2; subst e1
    cases e with
    | ready => exact absurd rfl hne
    | pending => exact Or.inr (Or.inr (ensureWriteable_pending_blocked he))
    | err a => rcases hr with rfl | rfl <;> simp [EW.toPW] at e2
    | spin => rcases hr with rfl | rfl <;> simp [EW.toPW] at e2
  · intro s0 _ he hh
    exact Or.inl (nextRequestLoop_idle _ hh hr (Nat.lt_succ_self _))

theorem pollWriteRequest_parks {s s1 : St} {r : PW Unit} {now : Nat} (h : pollWriteRequest s now = (s1, r))
    (hr : r.isStop = false) : PkW s1 := by
  revert h
  refine Flow.pollWriteRequest_cases (motive := fun q => q = (s1, r) → PkW s1) s now ?_ ?_ ?_ ?_
  · intro s0 r0 h0 hs hh
    injection hh with e1 e2; subst e1; subst e2
    refine pollNextRequest_parks h0 ?_
    cases r0 <;> simp_all [PW.pass, PW.isSome, PW.isStop]
  · intro _ _ _ _ _ _ hh; injection hh with _ e2; subst e2; simp [PW.isStop] at hr
  · intro _ _ _ _ _ _ _ _ hh; injection hh with _ e2; subst e2; simp [PW.isStop] at hr
  · intro _ _ _ _ _ _ _ _ hh; injection hh with _ e2; subst e2; simp [PW.isStop] at hr

/-! ### the rest of the pump keeps it that way -/

theorem pf_cqRecv (s : St) (h : ∀ r, (cqRecv s).2 ≠ .item r) : PF s (cqRecv s).1 := by
  unfold cqRecv at h ⊢
  cases hq : s.cq with
  | cons r rest => rw [hq] at h; exact absurd rfl (h r)
  | nil =>
    simp only
    split
    · exact PF.refl _
    · exact ⟨rfl, rfl, rfl, rfl, rfl, rfl, id⟩

theorem pf_nextCancelLoop (fuel : Nat) (s : St) (h : (nextCancelLoop fuel s).2.isSome = false) :
    PF s (nextCancelLoop fuel s).1 := by
  induction fuel generalizing s with
  | zero => exact PF.refl _
  | succ fuel ih =>
    unfold nextCancelLoop at h ⊢
    rcases cqRecv_cases s with ⟨i, rest, hcq, heq⟩ | ⟨hcq, _, hne⟩
    · rw [heq] at h ⊢
      simp only at h ⊢
      rcases hc : cancelRequest { s with cq := rest } i with ⟨s2, oe⟩
      rw [hc] at h
      cases oe with
      | some e => simp [PW.isSome] at h
      | none =>
        simp only at h ⊢
        have := cancelRequest_none hc
        subst this
        exact (⟨rfl, rfl, rfl, rfl, rfl, rfl, id⟩ : PF s { s with cq := rest }).trans (ih _ h)
    · have hp := pf_cqRecv s hne
      rcases hr : cqRecv s with ⟨s1, res⟩
      rw [hr] at h hne hp
      cases res with
      | pending => exact hp
      | closed => exact hp
      | item r => exact absurd rfl (hne r)

theorem pf_pollNextCancellation (s : St) (h : (pollNextCancellation s).2.isSome = false) :
    PF s (pollNextCancellation s).1 := by
  revert h
  refine Flow.pollNextCancellation_cases (motive := fun q => q.2.isSome = false → PF s q.1) s ?_ ?_
  · intro s1 e he _ _; have := pf_ensureWriteable s; rw [he] at this; exact this
  · intro s1 he hh
    have := pf_ensureWriteable s; rw [he] at this
    exact this.trans (pf_nextCancelLoop _ _ hh)

theorem pf_pollWriteCancel {s s1 : St} {r : PW Unit} (h : pollWriteCancel s = (s1, r)) (hr : r.isStop = false) :
    PF s s1 := by
  revert h
  refine Flow.pollWriteCancel_cases (motive := fun q => q = (s1, r) → PF s s1) s ?_ ?_ ?_
  · intro s0 r0 h0 hs hh
    injection hh with e1 _; subst e1
    have := pf_pollNextCancellation s (by rw [h0]; exact hs)
    rw [h0] at this; exact this
  · intro _ _ _ _ _ hh; injection hh with _ e2; subst e2; simp [PW.isStop] at hr
  · intro _ _ _ _ _ hh; injection hh with _ e2; subst e2; simp [PW.isStop] at hr

theorem pf_rearmed (s : St) (q' : DelayQ) (f : Entry → Entry) (w : Bool) :
    PF s (if w = true then wakeDispatch { s with timers := q', inflight := s.inflight.map f }
          else { s with timers := q', inflight := s.inflight.map f }) := by
  have h0 : PF s { s with timers := q', inflight := s.inflight.map f } :=
    ⟨rfl, rfl, rfl, rfl, rfl, by simp, id⟩
  split
  · exact h0.trans (pf_wakeDispatch _)
  · exact h0

theorem expireWith_pf {s : St} {now : Nat} {r : DelayQ × DelayQ.PollRes} :
    (∀ s', expireWith s now r = .again s' → PF s s') ∧ (∀ s', expireWith s now r = .done s' false → PF s s') := by
  unfold Client.expireWith
  split
  · rename_i q e
    split
    · rename_i en hf
      split
      · unfold Client.rearm
        rcases rearmWith_cases s e.val (now - en.dueAt + clampTimeout (en.remainder - (now - en.dueAt)))
            (now + clampTimeout (en.remainder - (now - en.dueAt)))
            (q.insert now (clampTimeout (en.remainder - (now - en.dueAt))) e.val) with
          ⟨q', w, _, hrw⟩ | ⟨q', key, w, _, hrw⟩
        · rw [hrw]
          refine ⟨(fun s' h => by cases h), fun s' h => ?_⟩
          simp only [ExpStep.done.injEq, and_true] at h
          subst h
          exact (⟨rfl, rfl, rfl, rfl, rfl, rfl, id⟩ : PF s { s with poisoned := true }).trans (pf_emit _ _)
        · rw [hrw]
          refine ⟨fun s' h => ?_, (fun s' h => by cases h)⟩
          simp only [ExpStep.again.injEq] at h
          subst h
          exact pf_rearmed s q' _ w
      · exact ⟨(fun s' h => by cases h), (fun s' h => by simp at h)⟩
    · exact ⟨(fun s' h => by cases h), (fun s' h => by simp at h)⟩
  · refine ⟨(fun s' h => by cases h), fun s' h => ?_⟩
    simp only [ExpStep.done.injEq, and_true] at h
    subst h
    exact ⟨rfl, rfl, rfl, rfl, rfl, rfl, id⟩

theorem pf_pollExpiredLoop (fuel : Nat) (s : St) (now : Nat) (h : (pollExpiredLoop fuel s now).2 = false) :
    PF s (pollExpiredLoop fuel s now).1 := by
  induction fuel generalizing s with
  | zero => exact PF.refl _
  | succ fuel ih =>
    unfold pollExpiredLoop at h ⊢
    split at h
    · rename_i s1 heq
      exact (expireWith_pf.1 s1 heq).trans (ih s1 h)
    · rename_i s1 b heq
      simp only at h ⊢
      subst h
      exact expireWith_pf.2 s1 heq

theorem pf_pollExpired {s s' : St} {now : Nat} (h : pollExpired s now = (s', false)) : PF s s' := by
  have := pf_pollExpiredLoop (expiredFuel s) s now (by show (pollExpired s now).2 = false; rw [h])
  change PF s (pollExpired s now).1 at this
  rw [h] at this; exact this

/-- **an idle write pump is parked**: `pump_write → Pending / None` leaves the dispatch registered on the empty request
queue, or with a full table, or on a blocked sink -/
theorem pumpWrite_parks {s s' : St} {r : PW Unit} {now : Nat} (h : pumpWrite s now = (s', r))
    (hr : r = .pending ∨ r = .none) : PkW s' := by
  revert h
  refine Flow.pumpWrite_cases (motive := fun q => q = (s', r) → PkW s') s now ?_ ?_ ?_ ?_ ?_ ?_
  · intro s1 r1 _ hs hh
    injection hh with _ h2; subst h2
    rcases hr with rfl | rfl <;> simp [PW.isStop] at hs
  · intro s1 r1 s2 r2 _ _ _ hs hh
    injection hh with _ h2; subst h2
    rcases hr with rfl | rfl <;> simp [PW.isStop] at hs
  · intro _ _ _ _ _ _ _ _ _ _ hh; injection hh with _ h2; rcases hr with rfl | rfl <;> cases h2
  · intro _ _ _ _ _ _ _ _ _ _ _ hh; injection hh with _ h2; rcases hr with rfl | rfl <;> cases h2
  · intro s1 s2 s3 s4 r4 h1 h2 h3 h4 hh
    injection hh with e1 _; subst e1
    have p1 := pollWriteRequest_parks h1 rfl
    have f2 := pf_pollWriteCancel h2 rfl
    have f3 := pf_pollExpired h3
    have f4 := pf_tClose s3; rw [h4] at f4
    exact p1.pf ((f2.trans f3).trans f4)
  · intro s1 r1 s2 r2 s3 s4 r4 h1 hs1 h2 hs2 _ h3 h4 hh
    injection hh with e1 _; subst e1
    have p1 := pollWriteRequest_parks h1 hs1
    have f2 := pf_pollWriteCancel h2 hs2
    have f3 := pf_pollExpired h3
    have f4 := pf_tFlush s3; rw [h4] at f4
    exact p1.pf ((f2.trans f3).trans f4)

/-- **`run → Pending` leaves the dispatch parked** -/
theorem run_parks (fuel : Nat) {s s' : St} {now : Nat} (h : run fuel s now = (s', .pending)) : PkW s' := by
  induction fuel generalizing s with
  | zero => rw [Flow.run_zero] at h; cases h
  | succ fuel ih =>
    revert h
    refine Flow.run_cases (motive := fun q => q = (s', RunRes.pending) → PkW s') fuel s now
      ?_ ?_ ?_ ?_ ?_ ?_ ?_ ?_ ?_
    · intro _ _ _ hh; injection hh with _ h2; cases h2
    · intro _ _ hh; injection hh with _ h2; cases h2
    · intro _ _ _ _ _ _ hh; injection hh with _ h2; cases h2
    · intro _ _ _ _ _ hh; injection hh with _ h2; cases h2
    · intro _ _ _ _ _ _ hh; injection hh with _ h2; cases h2
    · intro _ _ _ _ _ _ _ hh; injection hh with _ h2; cases h2
    · intro s1 s2 _ h2 _ hh
      injection hh with e1 _; subst e1
      exact pumpWrite_parks h2 (Or.inr rfl)
    · intro s1 rd s2 wr _ _ _ hh; exact ih hh
    · intro s1 s2 _ h2 hh
      injection hh with e1 _; subst e1
      exact pumpWrite_parks h2 (Or.inl rfl)

theorem pollDispatchCore_parks {s : St} {now : Nat} (hr : (pollDispatchCore s now).2 = .pending)
    (ht : (pollDispatchCore s now).1.termErr = none) (hp : (pollDispatchCore s now).1.poisoned = false) :
    PkW (pollDispatchCore s now).1 := by
  revert hr ht hp
  refine Flow.pollDispatchCore_cases (motive := fun q => q.2 = .pending → q.1.termErr = none → q.1.poisoned = false →
    PkW q.1) s now ?_ ?_ ?_ ?_ ?_
  · intro a s1 fin hta h1 _ ht _
    have := Flow.shutDown_termErr s a; rw [h1] at this
    rw [this, hta] at ht; cases ht
  · intro s1 _ h1 _ _ _; exact run_parks _ h1
  · intro _ _ _ h; cases h
  · intro _ _ _ _ _ hp; cases hp
  · intro s1 a s2 fin _ _ h2 _ ht _
    have := Flow.shutDown_termErr { s1 with termErr := some a } a; rw [h2] at this
    rw [this] at ht; cases ht

/-- **A dispatch poll that returns `Pending`** (the dispatch was alive, is not done afterwards, has no terminal error
and did not panic) **leaves it parked.** -/
theorem pollDispatch_parks {s : St} {now : Nat} (ha : (s.dDropped || s.done.isSome || s.poisoned) = false)
    (h1 : (pollDispatch s now).poisoned = false) (h2 : (pollDispatch s now).done = none)
    (h3 : (pollDispatch s now).termErr = none) : PkW (pollDispatch s now) := by
  rw [Flow.pollDispatch_eq] at h1 h2 h3 ⊢
  split at h2
  · rename_i hc
    rw [dropDispatch_done] at h2
    rw [h2] at hc; simp at hc
  · rename_i hc
    rw [if_neg hc] at h1 h3 ⊢
    rw [Flow.pollDispatchKeep_eq] at h1 h2 h3 ⊢
    rw [if_neg (by simp [ha])] at h1 h2 h3 ⊢
    generalize hcore : pollDispatchCore { s with dWoken := false } now = core at h1 h2 h3 ⊢
    obtain ⟨c1, r⟩ := core
    have hd := pollDispatchCore_parks (s := { s with dWoken := false }) (now := now)
    rw [hcore] at hd
    simp only at h1 h2 h3 hd ⊢
    cases r with
    | pending =>
      simp only [Flow.keepDone] at h1 h2 h3 ⊢
      unfold Flow.keepFinish at h1 h2 h3 ⊢
      split at h1
      · cases h1
      · split at h1
        · rename_i hpo; rw [hpo] at h1; cases h1
        · rename_i hsp hpo
          rw [if_neg hsp, if_neg hpo] at h3 ⊢
          have hpo' : c1.poisoned = false := by simpa using hpo
          exact (hd rfl h3 hpo').pf ((pf_emit _ _).trans (pf_emit _ _))
    | readyOk => simp [Flow.keepDone] at h2
    | readyErr a => simp [Flow.keepDone] at h2
    | readyNone => simp [Flow.keepDone] at h2
    | readyItem => simp [Flow.keepDone] at h2
    | readyItemErr a => simp [Flow.keepDone] at h2

/-! ### the invariant -/

/-- a parked dispatch is registered on the empty request queue (or the queue has no sender left / is closed), or its
table is full, or the sink is not ready and holds its waker -/
def PkOK (s : St) : Prop :=
  (s.pq = [] ∧ (s.pqRxWaker = true ∨ senders s = 0 ∨ s.pqClosed = true)) ∨ s.inflight.length ≥ s.maxInFlight ∨
    (s.t.isReadyNow = false ∧ s.t.writeWaker = true)

theorem PkW.ok {s : St} (h : PkW s) : PkOK s := by
  rcases h with h | h | h
  · exact Or.inl h
  · exact Or.inr (Or.inl h)
  · exact Or.inr (Or.inr ⟨h.1, h.2.1⟩)

/-- an alive dispatch without terminal error that has not been woken since its last poll is parked -/
def PkI (s : St) : Prop :=
  s.dDropped = false → s.done = none → s.poisoned = false → s.termErr = none → s.dWoken = false → PkOK s

/-- one step outside the dispatch: the dispatch's own state is left alone, it may get woken, and the request queue
changes under a sleeping dispatch only if the dispatch was not registered on it and it was not closed -/
structure PQS (s s' : St) : Prop where
  dd : s'.dDropped = s.dDropped
  dn : s'.done = s.done
  po : s'.poisoned = s.poisoned
  te : s'.termErr = s.termErr
  wok : s.dWoken = true → s'.dWoken = true
  inf : s'.inflight = s.inflight
  mx : s'.maxInFlight = s.maxInFlight
  t : s'.t = s.t
  cl : s'.pqClosed = s.pqClosed
  pq : s'.dWoken = false → s.dDropped = false → s.done = none →
    (s'.pq = s.pq ∧ s'.pqRxWaker = s.pqRxWaker) ∨ (s.pqRxWaker = false ∧ s.pqClosed = false)

theorem PQS.of_same {s s' : St} (dd : s'.dDropped = s.dDropped) (dn : s'.done = s.done) (po : s'.poisoned = s.poisoned)
    (te : s'.termErr = s.termErr) (wk : s'.dWoken = s.dWoken) (inf : s'.inflight = s.inflight)
    (mx : s'.maxInFlight = s.maxInFlight) (t : s'.t = s.t) (cl : s'.pqClosed = s.pqClosed) (pq : s'.pq = s.pq)
    (rx : s'.pqRxWaker = s.pqRxWaker) : PQS s s' :=
  ⟨dd, dn, po, te, fun h => by rw [wk]; exact h, inf, mx, t, cl, fun _ _ _ => Or.inl ⟨pq, rx⟩⟩

theorem PQS.refl (s : St) : PQS s s := .of_same rfl rfl rfl rfl rfl rfl rfl rfl rfl rfl rfl

theorem PQS.trans {a b c : St} (h1 : PQS a b) (h2 : PQS b c) : PQS a c := by
  refine ⟨h2.dd.trans h1.dd, h2.dn.trans h1.dn, h2.po.trans h1.po, h2.te.trans h1.te, fun h => h2.wok (h1.wok h),
    h2.inf.trans h1.inf, h2.mx.trans h1.mx, h2.t.trans h1.t, h2.cl.trans h1.cl, ?_⟩
  intro wk dd dn
  have wk1 : b.dWoken = false := by
    cases hb : b.dWoken with
    | false => rfl
    | true => have := h2.wok hb; rw [wk] at this; cases this
  rcases h2.pq wk (by rw [h1.dd]; exact dd) (by rw [h1.dn]; exact dn) with ⟨a1, a2⟩ | ⟨b1, b2⟩
  · rcases h1.pq wk1 dd dn with ⟨c1, c2⟩ | c
    · exact Or.inl ⟨a1.trans c1, a2.trans c2⟩
    · exact Or.inr c
  · rcases h1.pq wk1 dd dn with ⟨c1, c2⟩ | c
    · exact Or.inr ⟨by rw [← c2]; exact b1, by rw [← h1.cl]; exact b2⟩
    · exact Or.inr c

theorem PQS.after {a b c : St} (h2 : PQS b c) (h1 : PQS a b) : PQS a c := h1.trans h2

/-- the invariant survives a step outside the dispatch -/
theorem PkI.step {s s' : St} (h : PkI s) (r : PQS s s') (hs : senders s = 0 → senders s' = 0 ∧ s'.pq = s.pq) : PkI s' := by
  intro dd dn po te wk
  have dd0 : s.dDropped = false := by rw [← r.dd]; exact dd
  have dn0 : s.done = none := by rw [← r.dn]; exact dn
  have po0 : s.poisoned = false := by rw [← r.po]; exact po
  have te0 : s.termErr = none := by rw [← r.te]; exact te
  have wk0 : s.dWoken = false := by
    cases hb : s.dWoken with
    | false => rfl
    | true => have := r.wok hb; rw [wk] at this; cases this
  rcases h dd0 dn0 po0 te0 wk0 with ⟨e, x⟩ | f | b
  · by_cases hz : senders s = 0
    · obtain ⟨z1, z2⟩ := hs hz
      exact Or.inl ⟨by rw [z2]; exact e, Or.inr (Or.inl z1)⟩
    · rcases r.pq wk dd0 dn0 with ⟨a1, a2⟩ | ⟨b1, b2⟩
      · refine Or.inl ⟨by rw [a1]; exact e, ?_⟩
        rcases x with x | x | x
        · exact Or.inl (by rw [a2]; exact x)
        · exact absurd x hz
        · exact Or.inr (Or.inr (by rw [r.cl]; exact x))
      · rcases x with x | x | x
        · rw [b1] at x; cases x
        · exact absurd x hz
        · rw [b2] at x; cases x
  · exact Or.inr (Or.inl (by rw [r.inf, r.mx]; exact f))
  · exact Or.inr (Or.inr (by rw [r.t]; exact b))

/-- a step that changes none of the fields the invariant reads -/
theorem PkI.same {s s' : St} (h : PkI s) (r : PQS s s') (hs : senders s' = senders s) (hq : s'.pq = s.pq) : PkI s' :=
  h.step r (fun hz => ⟨by rw [hs]; exact hz, hq⟩)

/-! ### the primitives of the call side -/

theorem pqs_emit (s : St) (o : Obs) : PQS s (emit s o) := .of_same rfl rfl rfl rfl rfl rfl rfl rfl rfl rfl rfl
theorem pqs_updCall (s : St) (cid : Nat) (f : Call → Call) : PQS s (updCall s cid f) :=
  .of_same rfl rfl rfl rfl rfl rfl rfl rfl rfl rfl rfl
theorem pqs_wakeCall (s : St) (cid : Nat) : PQS s (wakeCall s cid) :=
  .of_same (by simp) (by simp) (by simp) (by simp) (by simp) (by simp) (by simp) (by simp) (by simp) (by simp) (by simp)
theorem pqs_osSend (s : St) (cid : Nat) (o : Outcome) : PQS s (osSend s cid o) :=
  .of_same (by simp) (by simp) (by simp) (by simp) (by simp) (by simp) (by simp) (by simp) (by simp) (by simp) (by simp)
theorem pqs_osDropTx (s : St) (cid : Nat) : PQS s (osDropTx s cid) :=
  .of_same (by simp) (by simp) (by simp) (by simp) (by simp) (by simp) (by simp) (by simp) (by simp) (by simp) (by simp)

theorem pk_wakeDispatch_wok (s : St) (h : s.dWoken = true) : (wakeDispatch s).dWoken = true := by
  unfold wakeDispatch; split
  · exact h
  · rfl

theorem pk_wakeDispatch_woken {s : St} (hd : s.dDropped = false) (hn : s.done = none) : (wakeDispatch s).dWoken = true := by
  unfold wakeDispatch; simp [hd, hn, emit]

theorem pqs_wakeDispatch (s : St) : PQS s (wakeDispatch s) :=
  ⟨by simp, by simp, by simp, by simp, pk_wakeDispatch_wok s, by simp, by simp, by simp, by simp,
   fun _ _ _ => Or.inl ⟨by simp, by simp⟩⟩

/-- a step that wakes an alive dispatch -/
theorem pqs_woken {s x : St} (dd : x.dDropped = s.dDropped) (dn : x.done = s.done) (po : x.poisoned = s.poisoned)
    (te : x.termErr = s.termErr) (wk : x.dWoken = s.dWoken) (inf : x.inflight = s.inflight)
    (mx : x.maxInFlight = s.maxInFlight) (t : x.t = s.t) (cl : x.pqClosed = s.pqClosed) : PQS s (wakeDispatch x) := by
  refine ⟨by simp [dd], by simp [dn], by simp [po], by simp [te], fun h => pk_wakeDispatch_wok x (by rw [wk]; exact h),
    by simp [inf], by simp [mx], by simp [t], by simp [cl], ?_⟩
  intro wk' dd0 dn0
  have := pk_wakeDispatch_woken (s := x) (by rw [dd]; exact dd0) (by rw [dn]; exact dn0)
  rw [wk'] at this; cases this

theorem pqs_cqPush (s : St) (id : Nat) : PQS s (cqPush s id) := by
  unfold cqPush
  split
  · exact PQS.refl _
  · simp only
    split
    · exact (pqs_wakeDispatch _).after (.of_same rfl rfl rfl rfl rfl rfl rfl rfl rfl rfl rfl)
    · exact .of_same rfl rfl rfl rfl rfl rfl rfl rfl rfl rfl rfl

/-- a push onto the (open) request queue: a dispatch registered on it is woken -/
theorem pqs_pqPush (s : St) (r : DReq) (hcl : s.pqClosed = false) : PQS s (pqPush s r) := by
  unfold pqPush
  simp only
  split
  · exact pqs_woken rfl rfl rfl rfl rfl rfl rfl rfl rfl
  · rename_i hw
    exact ⟨rfl, rfl, rfl, rfl, id, rfl, rfl, rfl, rfl, fun _ _ _ => Or.inr ⟨by simpa using hw, hcl⟩⟩

theorem pqs_wake_rx (s : St) : PQS s (if s.pqRxWaker = true then wakeDispatch { s with pqRxWaker := false } else s) := by
  split
  · exact pqs_woken rfl rfl rfl rfl rfl rfl rfl rfl rfl
  · exact PQS.refl _

theorem pqs_afterCallGone (s : St) : PQS s (afterCallGone s) := by
  unfold afterCallGone
  split
  · simp only
    have h1 := pqs_wake_rx s
    generalize (if s.pqRxWaker = true then wakeDispatch { s with pqRxWaker := false } else s) = s1 at h1 ⊢
    split
    · exact h1.trans ((.of_same rfl rfl rfl rfl rfl rfl rfl rfl rfl rfl rfl : PQS s1 { s1 with cqRxWaker := false }).trans
        (pqs_wakeDispatch _))
    · exact h1
  · exact PQS.refl s

theorem pqs_resolve (s : St) (cid : Nat) (o : Outcome) (now : Nat) : PQS s (resolve s cid o now) := by
  unfold resolve
  simp only
  exact (pqs_afterCallGone _).after ((pqs_emit _ _).after (pqs_updCall _ _ _))

theorem pqs_failShutdown (s : St) (cid id now : Nat) : PQS s (failShutdown s cid id now) := by
  unfold failShutdown
  simp only
  exact (pqs_resolve _ _ _ _).after ((pqs_cqPush _ _).after ((pqs_updCall _ _ _ : PQS _ (guardClose _ _)).after (pqs_osDropTx _ _)))

theorem pqs_pollOneshot (s : St) (cid now : Nat) : PQS s (pollOneshot s cid now) := by
  unfold pollOneshot
  split
  · exact PQS.refl _
  · split
    · exact (pqs_resolve _ _ _ _).after (pqs_updCall _ _ _)
    · split
      · exact pqs_resolve _ _ _ _
      · exact (pqs_emit _ _).after (pqs_updCall _ _ _)

theorem pqs_enqueue (s : St) (c : Call) (now : Nat) (hcl : s.pqClosed = false) : PQS s (enqueue s c now) := by
  unfold enqueue
  simp only
  exact (pqs_pollOneshot _ _ _).after ((pqs_updCall _ _ _).after (pqs_pqPush _ _ hcl))

theorem not_or_closed {a b : Bool} (h : ¬ (a || b) = true) : a = false := by
  cases a <;> simp_all

theorem pqs_pollCall (s : St) (cid now : Nat) : PQS s (pollCall s cid now) := by
  cases hg : getCall s cid with
  | none => unfold pollCall; rw [hg]; exact pqs_emit _ _
  | some c =>
    cases hph : c.phase with
    | resolved => unfold pollCall; simp only [hg, hph]; exact pqs_emit _ _
    | dropped => unfold pollCall; simp only [hg, hph]; exact pqs_emit _ _
    | awaiting => rw [pollCall_awaiting hg hph]; exact (pqs_pollOneshot _ _ _).after (pqs_updCall _ _ _)
    | notPolled =>
      rw [pollCall_notPolled hg hph]
      have h1 : PQS s (assignId s cid c) := by
        unfold assignId
        exact (pqs_updCall _ _ _).after (.of_same rfl rfl rfl rfl rfl rfl rfl rfl rfl rfl rfl)
      generalize assignId s cid c = a at h1 ⊢
      split
      · exact h1.trans (pqs_failShutdown _ _ _ _)
      · rename_i hc
        have hcl : a.pqClosed = false := not_or_closed hc
        split
        · have e1 : PQS a { a with pqAvail := a.pqAvail - 1 } := .of_same rfl rfl rfl rfl rfl rfl rfl rfl rfl rfl rfl
          have e2 := pqs_enqueue { a with pqAvail := a.pqAvail - 1 } (assignedCall s c) now hcl
          exact h1.trans (e1.trans e2)
        · have e1 : PQS a { a with pqWaiters := a.pqWaiters ++ [cid] } := .of_same rfl rfl rfl rfl rfl rfl rfl rfl rfl rfl rfl
          exact h1.trans (e1.trans ((pqs_updCall _ _ _).trans (pqs_emit _ _)))
    | reserving =>
      rw [pollCall_reserving hg hph]
      have h1 : PQS s (updCall s cid (fun c => { c with woken := false })) := pqs_updCall _ _ _
      generalize updCall s cid (fun c => { c with woken := false }) = a at h1 ⊢
      split
      · refine h1.trans (PQS.trans ?_ (pqs_failShutdown _ _ _ _))
        exact .of_same rfl rfl rfl rfl rfl rfl rfl rfl rfl rfl rfl
      · rename_i hc
        have hcl : a.pqClosed = false := not_or_closed hc
        split
        · have e1 : PQS a { a with pqAssigned := a.pqAssigned.filter (· != cid) } :=
            .of_same rfl rfl rfl rfl rfl rfl rfl rfl rfl rfl rfl
          have e2 := pqs_enqueue { a with pqAssigned := a.pqAssigned.filter (· != cid) } c now hcl
          exact h1.trans (e1.trans e2)
        · exact h1.trans (pqs_emit _ _)

theorem pqs_pqRelease (s : St) : PQS s (pqRelease s) := by
  unfold pqRelease; split
  · exact (pqs_wakeCall _ _).after (.of_same rfl rfl rfl rfl rfl rfl rfl rfl rfl rfl rfl)
  · exact .of_same rfl rfl rfl rfl rfl rfl rfl rfl rfl rfl rfl

theorem pqs_dropPre (s : St) (cid : Nat) : PQS s (dropPre s cid) := by
  unfold dropPre
  split
  · exact PQS.refl _
  · split
    · simp only
      refine (pqs_osDropTx _ _).after ?_
      split
      · exact (pqs_pqRelease _).after (.of_same rfl rfl rfl rfl rfl rfl rfl rfl rfl rfl rfl)
      · exact .of_same rfl rfl rfl rfl rfl rfl rfl rfl rfl rfl rfl
    · exact PQS.refl _

theorem pqs_dropClose (s : St) (cid : Nat) : PQS s (dropClose s cid) := by
  unfold dropClose
  split
  · exact PQS.refl _
  · split <;> first | exact pqs_updCall _ _ _ | exact PQS.refl _

theorem pqs_dropCancel (s : St) (cid : Nat) : PQS s (dropCancel s cid) := by
  unfold dropCancel
  split
  · exact PQS.refl _
  · split <;> first | exact pqs_cqPush _ _ | exact PQS.refl _

theorem pqs_dropFinish (s : St) (cid : Nat) : PQS s (dropFinish s cid) := by
  unfold dropFinish
  split
  · exact pqs_emit _ _
  · split <;> first | exact (pqs_afterCallGone _).after (pqs_updCall _ _ _) | exact pqs_emit _ _

/-! ### with no sender left every call operation is a no-op -/

theorem dead_getCall {s : St} {cid : Nat} {c : Call} (hz : senders s = 0) (hg : getCall s cid = some c) :
    callLive c = false := (Flow.dead_of_senders hz).2 c (getCall_some hg).1

theorem dead_pollCall {s : St} (hz : senders s = 0) (cid now : Nat) : pollCall s cid now = emit s .noop := by
  cases hg : getCall s cid with
  | none => unfold pollCall; rw [hg]
  | some c =>
    have hl := dead_getCall hz hg
    cases hph : c.phase with
    | resolved => unfold pollCall; simp only [hg, hph]
    | dropped => unfold pollCall; simp only [hg, hph]
    | awaiting => simp [callLive, hph] at hl
    | notPolled => simp [callLive, hph] at hl
    | reserving => simp [callLive, hph] at hl

theorem dead_dropPre {s : St} (hz : senders s = 0) (cid : Nat) : dropPre s cid = s := by
  unfold dropPre
  cases hg : getCall s cid with
  | none => rfl
  | some c =>
    have hl := dead_getCall hz hg
    cases hph : c.phase <;> simp [callLive, hph] at hl ⊢

theorem dead_dropClose {s : St} (hz : senders s = 0) (cid : Nat) : dropClose s cid = s := by
  unfold dropClose
  cases hg : getCall s cid with
  | none => rfl
  | some c =>
    have hl := dead_getCall hz hg
    cases hph : c.phase <;> simp [callLive, hph] at hl ⊢

theorem dead_dropCancel {s : St} (hz : senders s = 0) (cid : Nat) : dropCancel s cid = s := by
  unfold dropCancel
  cases hg : getCall s cid with
  | none => rfl
  | some c =>
    have hl := dead_getCall hz hg
    cases hph : c.phase <;> simp [callLive, hph] at hl ⊢

theorem dead_dropFinish {s : St} (hz : senders s = 0) (cid : Nat) : dropFinish s cid = emit s .noop := by
  unfold dropFinish
  cases hg : getCall s cid with
  | none => rfl
  | some c =>
    have hl := dead_getCall hz hg
    cases hph : c.phase <;> simp [callLive, hph] at hl ⊢

theorem dead_of_eq {s s' : St} (h : s' = s) (hz : senders s = 0) : senders s' = 0 ∧ s'.pq = s.pq := by
  subst h; exact ⟨hz, rfl⟩

theorem dead_of_noop {s s' : St} (h : s' = emit s .noop) (hz : senders s = 0) : senders s' = 0 ∧ s'.pq = s.pq := by
  subst h; exact ⟨by rw [Flow.emit_senders]; exact hz, rfl⟩

/-! ### the ops -/

theorem pki_pollCall {s : St} (h : PkI s) (cid now : Nat) : PkI (pollCall s cid now) :=
  h.step (pqs_pollCall s cid now) (fun hz => dead_of_noop (dead_pollCall hz cid now) hz)

/-- a dispatch poll establishes the invariant (an alive dispatch) or changes nothing it reads (a dead one) -/
theorem pki_pollDispatch {s : St} (h : PkI s) (now : Nat) : PkI (pollDispatch s now) := by
  by_cases ha : (s.dDropped || s.done.isSome || s.poisoned) = false
  · intro _ dn po te _
    exact (pollDispatch_parks ha po dn te).ok
  · have hk : pollDispatchKeep s now = emit s .noop := by
      rw [Flow.pollDispatchKeep_eq, if_pos (by cases hx : (s.dDropped || s.done.isSome || s.poisoned) <;> simp_all)]
    rw [Flow.pollDispatch_eq, hk]
    split
    · rename_i hc
      intro _ dn
      rw [dropDispatch_done] at dn
      rw [dn] at hc; simp at hc
    · exact h.same (pqs_emit _ _) (Flow.emit_senders _ _) rfl

theorem pki_dropDispatch {s : St} (h : PkI s) : PkI (dropDispatch s) := by
  rw [dropDispatch_stages]
  split
  · exact h.same (pqs_emit _ _) (Flow.emit_senders _ _) rfl
  · intro dd
    have hdd : ({ dropI (dropQ (pqClose { s with dDropped := true, dWoken := false })) with cq := [] } : St).dDropped = true := by
      show (dropI (dropQ (pqClose { s with dDropped := true, dWoken := false }))).dDropped = true
      rw [dropStages_dDropped]
    rw [hdd] at dd; cases dd

theorem pki_dropCallG {s : St} (h : PkI s) (guarded : Bool) (cid : Nat) (at_ : DropAt) (now : Nat) :
    PkI (dropCallG guarded s cid at_ now) := by
  unfold dropCallG
  simp only
  have step : ∀ (c : Bool) (s : St), PkI s → PkI (if c = true then pollDispatch s now else s) := by
    intro c s hs
    split
    · exact pki_pollDispatch hs now
    · exact hs
  have i1 : PkI (dropPre s cid) := h.step (pqs_dropPre s cid) (fun hz => dead_of_eq (dead_dropPre hz cid) hz)
  generalize dropPre s cid = s1 at i1
  have i2 := step (guarded && at_ == .enter) s1 i1
  generalize (if (guarded && at_ == .enter) = true then pollDispatch s1 now else s1) = s2 at i2
  have i3 : PkI (dropClose s2 cid) := i2.step (pqs_dropClose s2 cid) (fun hz => dead_of_eq (dead_dropClose hz cid) hz)
  generalize dropClose s2 cid = s3 at i3
  have i4 := step (guarded && at_ == .mid) s3 i3
  generalize (if (guarded && at_ == .mid) = true then pollDispatch s3 now else s3) = s4 at i4
  have i5 : PkI (dropCancel s4 cid) := i4.step (pqs_dropCancel s4 cid) (fun hz => dead_of_eq (dead_dropCancel hz cid) hz)
  generalize dropCancel s4 cid = s5 at i5
  have i6 := step (guarded && at_ == .exit) s5 i5
  generalize (if (guarded && at_ == .exit) = true then pollDispatch s5 now else s5) = s6 at i6
  exact i6.step (pqs_dropFinish s6 cid) (fun hz => dead_of_noop (dead_dropFinish hz cid) hz)

theorem pki_dropCall {s : St} (h : PkI s) (cid : Nat) (at_ : DropAt) (now : Nat) : PkI (dropCall s cid at_ now) := by
  rw [dropCall_eq]; exact pki_dropCallG h _ cid at_ now

theorem no_handle_of_dead {s : St} (hz : senders s = 0) (hd : Nat) : s.handles.contains hd = false := by
  rw [(Flow.dead_of_senders hz).1]; rfl

theorem pki_newCall {s : St} (h : PkI s) (hd : Nat) (ctx : Ctx) (body : Nat) : PkI (newCall s hd ctx body) := by
  unfold newCall
  split
  · rename_i hc
    refine h.step (.of_same rfl rfl rfl rfl rfl rfl rfl rfl rfl rfl rfl) (fun hz => ?_)
    rw [no_handle_of_dead hz hd] at hc; cases hc
  · exact h.same (pqs_emit _ _) (Flow.emit_senders _ _) rfl

theorem pki_cloneHandle {s : St} (h : PkI s) (hd : Nat) : PkI (cloneHandle s hd) := by
  unfold cloneHandle
  split
  · rename_i hc
    refine h.step (.of_same rfl rfl rfl rfl rfl rfl rfl rfl rfl rfl rfl) (fun hz => ?_)
    rw [no_handle_of_dead hz hd] at hc; cases hc
  · exact h.same (pqs_emit _ _) (Flow.emit_senders _ _) rfl

theorem pki_dropHandle {s : St} (h : PkI s) (hd : Nat) : PkI (dropHandle s hd) := by
  unfold dropHandle
  split
  · rename_i hc
    refine h.step ((pqs_afterCallGone _).after (.of_same rfl rfl rfl rfl rfl rfl rfl rfl rfl rfl rfl)) (fun hz => ?_)
    rw [no_handle_of_dead hz hd] at hc; cases hc
  · exact h.same (pqs_emit _ _) (Flow.emit_senders _ _) rfl

/-- an external event on the transport: a sink the dispatch is parked on either stays not ready with the waker
registered, or the dispatch is woken -/
theorem pki_liftT {s : St} (h : PkI s) (r : SimT × Bool)
    (hk : r.2 = false → s.t.isReadyNow = false → s.t.writeWaker = true → r.1.isReadyNow = false ∧ r.1.writeWaker = true) :
    PkI (liftT s r) := by
  unfold liftT
  simp only
  have base : r.2 = false → PkI { s with t := r.1 } := by
    intro hr dd dn po te wk
    rcases h dd dn po te wk with a | a | a
    · exact Or.inl a
    · exact Or.inr (Or.inl a)
    · exact Or.inr (Or.inr (hk hr a.1 a.2))
  split
  · intro dd dn po te wk
    have := pk_wakeDispatch_woken (s := { s with t := r.1 }) (by simpa using dd) (by simpa using dn)
    rw [wk] at this; cases this
  · rename_i hr
    exact base (by simpa using hr)

theorem wakeIfReady_spec (t : SimT) :
    t.wakeIfReady.2 = false → t.isReadyNow = false → t.writeWaker = true →
      t.wakeIfReady.1.isReadyNow = false ∧ t.wakeIfReady.1.writeWaker = true := by
  intro hw hr hk
  unfold SimT.wakeIfReady at hw ⊢
  split
  · rename_i hc; rw [if_pos hc] at hw; cases hw
  · exact ⟨hr, hk⟩

theorem pki_foldl_took (ms : List Msg) {s : St} (h : PkI s) : PkI (ms.foldl (fun s m => emit s (.took (tid s) m)) s) := by
  induction ms generalizing s with
  | nil => exact h
  | cons m ms ih => exact ih (h.same (pqs_emit _ _) (Flow.emit_senders _ _) rfl)

theorem pki_setT {s : St} (h : PkI s) (t' : SimT) (hr : t'.isReadyNow = s.t.isReadyNow) (hw : t'.writeWaker = s.t.writeWaker) :
    PkI { s with t := t' } := by
  have := pki_liftT h (t', false) (fun _ a b => ⟨by rw [hr]; exact a, by rw [hw]; exact b⟩)
  exact this

/-- **One op of a script** preserves the parking invariant. -/
theorem pki_applyOp {c : Sys} (h : PkI c.s) (op : COp) : PkI (applyOp c op).s := by
  cases op with
  | call hd d tr b => exact pki_newCall h hd _ b
  | pollCall cid => exact pki_pollCall h cid c.now
  | dropCall cid site => exact pki_dropCall h cid site c.now
  | clone hd => exact pki_cloneHandle h hd
  | dropHandle hd => exact pki_dropHandle h hd
  | pollDispatch => exact pki_pollDispatch h c.now
  | dropDispatch => exact pki_dropDispatch h
  | injectResp id res => exact pki_liftT h _ (fun _ a b => ⟨a, b⟩)
  | injectErr => exact pki_liftT h _ (fun _ a b => ⟨a, b⟩)
  | eof => exact pki_liftT h _ (fun _ a b => ⟨a, b⟩)
  | setReady b =>
    refine pki_liftT h _ (fun hw a k => ?_)
    by_cases hr : ({ c.s.t with readyOpen := b } : SimT).isReadyNow = false
    · exact wakeIfReady_spec _ hw hr k
    · exfalso
      have hr' : ({ c.s.t with readyOpen := b } : SimT).isReadyNow = true := by simpa using hr
      have : ({ c.s.t with readyOpen := b } : SimT).wakeIfReady.2 = true := by
        unfold SimT.wakeIfReady
        rw [if_pos (by rw [hr']; simp; exact k)]
      rw [SimT.setReady] at hw
      rw [this] at hw; cases hw
  | setFlush b => exact pki_liftT h _ (fun hw a k => wakeIfReady_spec _ hw a k)
  | fault k => exact pki_setT h _ (by cases k <;> rfl) (by cases k <;> rfl)
  | faultSkip n => exact pki_setT h _ rfl rfl
  | selfWake b => exact pki_setT h _ rfl rfl
  | take n => exact pki_foldl_took _ (pki_setT h _ rfl rfl)
  | advance n =>
    show PkI (onAdvance c.s (c.now + n))
    unfold onAdvance
    split
    · split
      · exact h.same ((pqs_wakeDispatch _).after (.of_same rfl rfl rfl rfl rfl rfl rfl rfl rfl rfl rfl))
          (by rw [Flow.wakeDispatch_senders]; rfl) (by simp)
      · exact h
    · exact h

theorem init_pk (k m b tc : Nat) (coupled : Bool) : PkI (init k m b tc coupled) := by
  intro _ _ _ _ wk; cases wk

/-- **The parking invariant holds in every reachable state**: an alive dispatch that has not been woken since its last
poll is registered on the empty request queue (or the queue has no sender left / is closed), or its in-flight table is
full, or its sink is not ready and holds its waker. -/
theorem reach_pk (m b tc : Nat) (coupled : Bool) (ops : List COp) :
    PkI (ops.foldl applyOp (initSys m b tc coupled)).s := by
  suffices H : ∀ (c : Sys), PkI c.s → PkI (ops.foldl applyOp c).s from H _ (init_pk 0 m b tc coupled)
  induction ops with
  | nil => intro c h; exact h
  | cons op ops ih => intro c h; exact ih _ (pki_applyOp h op)

end TarpcModel.Client

import TarpcModel.Lemmas.C15Json
/-
Helper lemmas for the optional-member / member-order theorems of `Props/C15Json.lean`: the schema readers
`req` / `opt` look a member up by name, so they do not depend on the order of an object's members.
-/
namespace TarpcModel.Json

theorem lookupAll_perm (k : String) {l₁ l₂ : List (String × Json)} (h : l₁.Perm l₂) :
    (lookupAll k l₁).Perm (lookupAll k l₂) := by
  induction h with
  | nil => exact .nil
  | cons x _ ih => obtain ⟨k', v⟩ := x; simp only [lookupAll]; split <;> simp [ih]
  | swap x y l =>
    obtain ⟨k1, v1⟩ := x; obtain ⟨k2, v2⟩ := y
    simp only [lookupAll]
    split <;> split <;> first | exact .swap _ _ _ | exact .refl _
  | trans _ _ ih1 ih2 => exact ih1.trans ih2

theorem req_perm {α : Type} (k : String) {l₁ l₂ : List (String × Json)} (h : l₁.Perm l₂) (dec : Json → Option α) :
    req k l₁ dec = req k l₂ dec := by
  have hp := lookupAll_perm k h
  unfold req
  generalize lookupAll k l₁ = a at hp
  generalize lookupAll k l₂ = b at hp
  match a, b, hp with
  | [], b, hp => simp [List.nil_perm.mp hp]
  | [v], b, hp => have e : b = [v] := List.perm_singleton.mp hp.symm; subst e; rfl
  | v :: w :: a, b, hp =>
    have hl := hp.length_eq
    match b, hl with
    | x :: y :: b, _ => rfl

theorem opt_perm {α : Type} (k : String) {l₁ l₂ : List (String × Json)} (h : l₁.Perm l₂) (dec : Json → Option α) (d : α) :
    opt k l₁ dec d = opt k l₂ dec d := by
  have hp := lookupAll_perm k h
  unfold opt
  generalize lookupAll k l₁ = a at hp
  generalize lookupAll k l₂ = b at hp
  match a, b, hp with
  | [], b, hp => simp [List.nil_perm.mp hp]
  | [v], b, hp => have e : b = [v] := List.perm_singleton.mp hp.symm; subst e; rfl
  | v :: w :: a, b, hp =>
    have hl := hp.length_eq
    match b, hl with
    | x :: y :: b, _ => rfl

end TarpcModel.Json
